/-
  Handles stay bound to their file, whatever happens to its name.

  A handle of the MemMapFs model is bound to an OBJECT (`MHandle.obj`), not to a name.  This file
  proves what that means for the tree a caller sees (`view`, Proofs/MemFsRef.lean):

  * Part 1 — one write-type call (`Write`, `WriteAt`, `Truncate`: `WOp`) through an open writable
    handle: the exact state it leaves (`wop_step`), hence the view it leaves (`wop_view`): the ONE name
    that leads to the handle's object shows the bytes the flat semantics of C02 computes
    (`WOp.bytes`: `writeS`, `truncS`), every other name is untouched; if no name leads to the object
    the view does not change at all.
  * Part 2 — the name moves, the handle follows: rename of the file (`follows_rename`), rename of an
    ancestor directory (`follows_dir_rename`), `Remove` of the file and `RemoveAll` of an ancestor
    (`survives_remove`, `survives_removeAll`).
  * Part 3 — the handle methods of the model are C02's `stepC` on the object's bytes
    (`step_is_stepC`), hence — `C02.refines_flat` — any interleaving of calls through any number of
    handles on ONE object behaves like one flat byte array (`handle_io_is_flat`); two handles on one
    object (`two_handles`).
  * Part 4 — whole programs WITH handle writes: the reference state carries, next to the view, for
    every handle the name it currently denotes (`RefH`, `refStepH`, `stepH_refines`, `runH_refines`); the
    preconditions can be checked on the reference alone (`WFopV`, `runV_refines`).
-/
import AferoVerif.Proofs.MemFsRef
import AferoVerif.Props.C02
namespace AferoVerif

/-! ## Part 1 — one write-type call through a handle -/

/-- the write-type handle methods -/
inductive WOp where
  | write (d : Bytes)
  | writeAt (d : Bytes) (off : Int)
  | trunc (size : Int)
  deriving Repr, DecidableEq

/-- the call on handle `hi` -/
def WOp.op (hi : Nat) : WOp → Op
  | .write d => .hWrite hi d
  | .writeAt d off => .hWriteAt hi d off
  | .trunc n => .hTrunc hi n

/-- **flat semantics**: the bytes an open writable handle at offset `pos` leaves of `old` — bytes before
    the offset kept (a gap beyond the end is zero-filled), payload, tail kept (`writeS`); cut or
    zero-extended (`truncS`).  An empty payload, a negative offset or size change nothing. -/
def WOp.bytes (old : Bytes) (pos : Int) : WOp → Bytes
  | .write d => if d = [] then old else writeS old pos.toNat d
  | .writeAt d off => if off < 0 ∨ d = [] then old else writeS old off.toNat d
  | .trunc n => if n < 0 then old else truncS old n.toNat

/-- what the call reports -/
def WOp.out : WOp → FOut
  | .write d => .n d.length none
  | .writeAt d off => if off < 0 then .n 0 (some .inval) else .n d.length none
  | .trunc n => if n < 0 then .err .range else .ok

/-- the handle's offset afterwards: `Write` advances it, the positional calls leave it alone -/
def WOp.pos (pos : Int) : WOp → Int
  | .write d => pos + d.length
  | _ => pos

/-- what a positional read of `n` bytes at `off` through an open handle reports on the bytes `d` -/
def readAtS (d : Bytes) (n : Nat) (off : Int) : FOut :=
  if off < 0 then .bytes [] (some .inval)
  else .bytes (readS d off.toNat n)
    (if off > d.length then some .ueof else if (readS d off.toNat n).length < n then some .eof else none)

namespace MemFs

theorem fileIO_some (m : MemFs) (hi : Nat) (mh : MHandle) (hh : m.handles[hi]? = some mh)
    (f : Bytes → Handle → Bytes × Handle × FOut) (t : Bool) :
    m.fileIO hi f t =
      ({ (m.setObj mh.obj ((m.obj mh.obj).withIO (f (m.obj mh.obj).data mh.h).1
            (t && (f (m.obj mh.obj).data mh.h).2.2.success) m.now)) with
          handles := m.handles.set hi { mh with h := (f (m.obj mh.obj).data mh.h).2.1 } },
        .file (f (m.obj mh.obj).data mh.h).2.2) := by
  unfold fileIO
  rw [hh]
  rfl

/-- the three write-type methods on an open writable handle with a non-negative offset, by the flat
    semantics -/
theorem wop_io (old : Bytes) (h : Handle) (hopen : h.closed = false) (hrw : h.readOnly = false)
    (hpos : 0 ≤ h.pos) :
    (∀ d, writeC old h d = (WOp.bytes old h.pos (.write d), { h with pos := WOp.pos h.pos (.write d) }, WOp.out (.write d))) ∧
    (∀ d off, writeAtC old h d off = (WOp.bytes old h.pos (.writeAt d off), h, WOp.out (.writeAt d off))) ∧
    (∀ n, truncC old h n = (WOp.bytes old h.pos (.trunc n), WOp.out (.trunc n))) := by
  refine ⟨?_, ?_, ?_⟩
  · intro d
    by_cases hd : d = []
    · subst hd
      cases h
      simp_all [writeC, WOp.bytes, WOp.pos, WOp.out]
    · obtain ⟨cur, hcur⟩ : ∃ cur : Nat, h.pos = cur := ⟨h.pos.toNat, by omega⟩
      rw [writeC_eq old h d cur hcur hopen hrw hd]
      have : h.pos.toNat = cur := by omega
      simp [WOp.bytes, WOp.pos, WOp.out, hd, this]
  · intro d off
    unfold writeAtC
    by_cases ho : off < 0
    · simp [ho, WOp.bytes, WOp.out]
    · by_cases hd : d = []
      · subst hd
        simp [ho, writeC, hopen, hrw, WOp.bytes, WOp.out]
      · obtain ⟨cur, hcur⟩ : ∃ cur : Nat, off = cur := ⟨off.toNat, by omega⟩
        subst hcur
        simp only [ho, if_false]
        rw [writeC_eq old { h with pos := (cur : Int) } d cur rfl hopen hrw hd]
        simp [WOp.bytes, WOp.out, hd, ho]
  · intro n
    by_cases hn : n < 0
    · simp [truncC, hopen, hrw, hn, WOp.bytes, WOp.out]
    · obtain ⟨k, hk⟩ : ∃ k : Nat, n = k := ⟨n.toNat, by omega⟩
      subst hk
      rw [truncC_eq old h k hopen hrw]
      simp [WOp.bytes, WOp.out, hn]

/-- handle `hi` of `m` is `mh`: open, writable, its offset not negative (no call of the model makes an
    offset negative: `posOK_step`) -/
structure OpenRW (m : MemFs) (hi : Nat) (mh : MHandle) : Prop where
  hh : m.handles[hi]? = some mh
  hopen : mh.h.closed = false
  hrw : mh.h.readOnly = false
  hpos : 0 ≤ mh.h.pos

/-- **the exact state a write-type call leaves**: the handle's object gets the bytes of the flat
    semantics (and the time stamp, if the call succeeded), the handle its new offset; nothing else moves -/
theorem wop_step (m : MemFs) (hi : Nat) (mh : MHandle) (H : OpenRW m hi mh) (w : WOp) :
    m.step (w.op hi) =
      ({ (m.setObj mh.obj ((m.obj mh.obj).withIO (w.bytes (m.obj mh.obj).data mh.h.pos) w.out.success m.now)) with
          handles := m.handles.set hi { mh with h := { mh.h with pos := w.pos mh.h.pos } } },
        .file w.out) := by
  obtain ⟨h1, h2, h3⟩ := wop_io (m.obj mh.obj).data mh.h H.hopen H.hrw H.hpos
  cases w with
  | write d =>
    show m.fileIO hi (fun d' h => writeC d' h d) true = _
    rw [fileIO_some m hi mh H.hh, h1 d]
    simp only [Bool.true_and]
  | writeAt d off =>
    show m.fileIO hi (fun d' h => writeAtC d' h d off) true = _
    rw [fileIO_some m hi mh H.hh, h2 d off]
    simp only [Bool.true_and]
    rfl
  | trunc n =>
    show m.fileIO hi (fun d' h => let (d'', o) := truncC d' h n; (d'', h, o)) true = _
    rw [fileIO_some m hi mh H.hh]
    simp only [h3 n, Bool.true_and]
    rfl

theorem nodeOf_file_inv (d : FData) (b : Bytes) (md : Nat) (h : nodeOf d = .file b md) :
    d.dir = false ∧ d.data = b ∧ d.mode = md := by
  unfold nodeOf at h
  cases hd : d.dir with
  | true => rw [hd] at h; cases h
  | false =>
    rw [hd] at h
    simp only [Bool.false_eq_true, if_false] at h
    injection h with h1 h2
    exact ⟨rfl, h1, h2⟩

/-- a name that shows a regular file leads to a non-directory object with those bytes and that mode -/
theorem view_file_inv (m : MemFs) (k : Key) (o : Nat) (b : Bytes) (md : Nat) (hl : m.lookup k = some o)
    (hv : view m k = some (.file b md)) : (m.obj o).dir = false ∧ (m.obj o).data = b ∧ (m.obj o).mode = md := by
  rw [view_some m k o hl] at hv
  injection hv with hv
  exact nodeOf_file_inv _ _ _ hv

/-- rewriting the bytes of a regular file's object: the names that lead to it show the new bytes -/
theorem view_setObj_bytes (X : MemFs) (hc : Consistent X) (o : Nat) (d' : FData)
    (hdir : d'.dir = false) (k' : Key) :
    view (X.setObj o d') k' = if X.lookup k' = some o then some (.file d'.data d'.mode) else view X k' := by
  by_cases h : X.lookup k' = some o
  · rw [if_pos h, view_some _ k' o (by rw [lookup_setObj]; exact h), obj_setObj_self _ _ _ (hc.inRange _ _ h),
      nodeOf_file _ hdir]
  · rw [if_neg h]
    refine view_congr X _ k' k' (lookup_setObj _ _ _ _) (fun g hg => ?_)
    have : g ≠ o := fun e => h (by rw [← e]; exact hg)
    rw [obj_setObj_ne _ _ _ _ this]

/-- **the view a write-type call leaves**: a name that leads to the handle's object shows the bytes of the
    flat semantics, under the mode it had; every other name shows what it did -/
theorem wop_view (m : MemFs) (hc : Consistent m) (hi : Nat) (mh : MHandle) (H : OpenRW m hi mh)
    (hfile : (m.obj mh.obj).dir = false) (w : WOp) (k' : Key) :
    view (m.step (w.op hi)).1 k' =
      if m.lookup k' = some mh.obj then some (.file (w.bytes (m.obj mh.obj).data mh.h.pos) (m.obj mh.obj).mode)
      else view m k' := by
  rw [wop_step m hi mh H w]
  show view (m.setObj mh.obj ((m.obj mh.obj).withIO (w.bytes (m.obj mh.obj).data mh.h.pos) w.out.success m.now)) k' = _
  exact view_setObj_bytes m hc mh.obj
    ((m.obj mh.obj).withIO (w.bytes (m.obj mh.obj).data mh.h.pos) w.out.success m.now) hfile k'

/-- … the path map is the one before -/
theorem wop_lookup (m : MemFs) (hi : Nat) (mh : MHandle) (H : OpenRW m hi mh) (w : WOp) (k' : Key) :
    (m.step (w.op hi)).1.lookup k' = m.lookup k' := by
  rw [wop_step m hi mh H w]; rfl

theorem wop_length (m : MemFs) (hi : Nat) (mh : MHandle) (H : OpenRW m hi mh) (w : WOp) :
    (m.step (w.op hi)).1.objs.length = m.objs.length := by
  rw [wop_step m hi mh H w]
  exact length_setObj _ _ _

/-- … the handle's object holds the new bytes; its name, kind, mode and index are the ones before -/
theorem wop_obj (m : MemFs) (hi : Nat) (mh : MHandle) (H : OpenRW m hi mh) (w : WOp)
    (hr : mh.obj < m.objs.length) :
    (m.step (w.op hi)).1.obj mh.obj =
      (m.obj mh.obj).withIO (w.bytes (m.obj mh.obj).data mh.h.pos) w.out.success m.now := by
  rw [wop_step m hi mh H w]
  exact obj_setObj_self m _ _ hr

theorem wop_obj_ne (m : MemFs) (hi : Nat) (mh : MHandle) (H : OpenRW m hi mh) (w : WOp) (j : Nat)
    (hj : j ≠ mh.obj) : (m.step (w.op hi)).1.obj j = m.obj j := by
  rw [wop_step m hi mh H w]
  exact obj_setObj_ne m _ _ _ hj

/-- … the handle has its new offset, the other handles are the ones before -/
theorem wop_handle (m : MemFs) (hi : Nat) (mh : MHandle) (H : OpenRW m hi mh) (w : WOp) :
    (m.step (w.op hi)).1.handles[hi]? = some { mh with h := { mh.h with pos := w.pos mh.h.pos } } := by
  rw [wop_step m hi mh H w]
  exact List.getElem?_set_self (List.getElem?_eq_some_iff.1 H.hh).1

theorem wop_handle_ne (m : MemFs) (hi : Nat) (mh : MHandle) (H : OpenRW m hi mh) (w : WOp) (hj : Nat)
    (hne : hj ≠ hi) : (m.step (w.op hi)).1.handles[hj]? = m.handles[hj]? := by
  rw [wop_step m hi mh H w]
  exact List.getElem?_set_ne (fun e => hne e.symm)

theorem wop_res (m : MemFs) (hi : Nat) (mh : MHandle) (H : OpenRW m hi mh) (w : WOp) :
    (m.step (w.op hi)).2 = .file w.out := by
  rw [wop_step m hi mh H w]

/-- `Stat` of a name and `Stat` through a handle on the object the name leads to report the same -/
theorem stat_eq_hStat (m : MemFs) (k : Key) (hi : Nat) (mh : MHandle) (hh : m.handles[hi]? = some mh)
    (hl : m.lookup k = some mh.obj) : m.stat k = m.hStat hi := by
  unfold stat hStat
  rw [hh, hl]

theorem hStat_file (m : MemFs) (hi : Nat) (mh : MHandle) (hh : m.handles[hi]? = some mh)
    (hfile : (m.obj mh.obj).dir = false) :
    m.hStat hi = .info (baseName (m.obj mh.obj).name) (m.obj mh.obj).data.length false (m.obj mh.obj).mode := by
  unfold hStat
  rw [hh]
  simp only [hfile, Bool.false_eq_true, if_false]

/-- positional read through an open handle, by the flat semantics -/
theorem readAtC_flat (d : Bytes) (h : Handle) (hopen : h.closed = false) (hpos : 0 ≤ h.pos) (n : Nat) (off : Int) :
    readAtC d h n off = (h, readAtS d n off) := by
  have hinv : C02.Inv ⟨d, [h]⟩ := by
    intro x hx
    rw [List.mem_singleton.1 hx]; exact hpos
  have := C02.step_refines ⟨d, [h]⟩ (.readAt 0 n off) hinv
  simp only [stepC, stepS, List.getElem?_cons_zero, hopen, Bool.false_eq_true, if_false] at this
  unfold readAtS
  by_cases ho : off < 0
  · unfold readAtC; simp [ho]
  · simp only [ho, if_false] at this ⊢
    have h2 := congrArg Prod.snd this
    simp only at h2
    have h1 : (readAtC d h n off).1 = h := by
      unfold readAtC
      simp only [ho, if_false]
      split <;> (try split) <;> rfl
    exact Prod.ext h1 h2

theorem hReadAt_flat (m : MemFs) (hi : Nat) (mh : MHandle) (hh : m.handles[hi]? = some mh)
    (hopen : mh.h.closed = false) (hpos : 0 ≤ mh.h.pos) (n : Nat) (off : Int) :
    (m.step (.hReadAt hi n off)).2 = .file (readAtS (m.obj mh.obj).data n off) := by
  show (m.fileIO hi (fun d h => let (h', o) := readAtC d h n off; (d, h', o)) false).2 = _
  rw [fileIO_some m hi mh hh]
  simp only [readAtC_flat _ _ hopen hpos]

/-! ### the Fs-level calls that do not open anything leave the handle table alone -/

theorem handles_reg (perm : Nat) : ∀ (fuel : Nat) (m : MemFs) (f : Nat),
    (registerWithParent fuel m f perm).handles = m.handles := by
  intro fuel
  induction fuel with
  | zero => intro m f; unfold registerWithParent; rfl
  | succ n ih =>
    intro m f
    cases hp : m.lookup (parentKey (m.obj f).name) with
    | some p => rw [registerWithParent_some _ _ _ _ p hp]; rfl
    | none =>
      have h3 := ih (m.pend (parentKey (m.obj f).name)
          { (m.newDir (parentKey (m.obj f).name)) with mode := modeDir ||| perm }) m.objs.length
      cases hq : (registerWithParent n (m.pend (parentKey (m.obj f).name)
          { (m.newDir (parentKey (m.obj f).name)) with mode := modeDir ||| perm }) m.objs.length perm).lookup
          (parentKey (m.obj f).name) with
      | some q =>
        rw [registerWithParent_none _ _ _ _ q hp hq]
        show (registerWithParent n _ _ perm).handles = _
        rw [h3]; rfl
      | none =>
        have : registerWithParent (n + 1) m f perm = registerWithParent n (m.pend (parentKey (m.obj f).name)
            { (m.newDir (parentKey (m.obj f).name)) with mode := modeDir ||| perm }) m.objs.length perm := by
          unfold pend at hq ⊢
          rw [registerWithParent]
          simp only [hp, alloc, hq]
        rw [this, h3]; rfl

theorem handles_unreg (m m1 : MemFs) (k : Key) (hu : m.unRegisterWithParent k = .ok m1) : m1.handles = m.handles := by
  unfold unRegisterWithParent at hu
  split at hu
  · cases hu
  · split at hu
    · cases hu
    · injection hu with hu; rw [← hu]; rfl

theorem handles_setFileMode (m : MemFs) (k : Key) (mode : Nat) : (m.setFileMode k mode).1.handles = m.handles := by
  unfold setFileMode
  split <;> rfl

theorem handles_create (m : MemFs) (k : Key) : (m.create k).1.handles = m.handles := by
  unfold create
  split
  · split
    · exact handles_reg _ _ _ _
    · rfl
  · exact handles_reg _ _ _ _

theorem handles_mkdir (m : MemFs) (k : Key) (perm : Nat) : (m.mkdir k perm).1.handles = m.handles := by
  unfold mkdir
  simp only
  split
  · rfl
  · have h3 := handles_reg (perm &&& chmodBits)
      ((m.pend k { (m.newDir k) with mode := modeDir ||| (perm &&& chmodBits) }).regFuel m.objs.length)
      (m.pend k { (m.newDir k) with mode := modeDir ||| (perm &&& chmodBits) }) m.objs.length
    have := handles_setFileMode (registerWithParent
      ((m.pend k { (m.newDir k) with mode := modeDir ||| (perm &&& chmodBits) }).regFuel m.objs.length)
      (m.pend k { (m.newDir k) with mode := modeDir ||| (perm &&& chmodBits) }) m.objs.length (perm &&& chmodBits))
      k ((perm &&& chmodBits) ||| modeDir)
    rw [h3] at this
    split <;> rename_i heq <;> (unfold pend at this; unfold alloc at heq; simp only at heq; rw [heq] at this) <;> exact this

theorem handles_mkdirAll (m : MemFs) (k : Key) (perm : Nat) : (m.mkdirAll k perm).1.handles = m.handles := by
  rw [mkdirAll_fst]; exact handles_mkdir m k perm

theorem handles_remove (m : MemFs) (k : Key) : (m.remove k).1.handles = m.handles := by
  unfold remove
  split
  · rfl
  · split
    · rename_i m1 heq
      exact handles_unreg m m1 k heq
    · rfl
    · rfl

theorem handles_removeAll (m : MemFs) (k : Key) : (m.removeAll k).1.handles = m.handles := by
  unfold removeAll
  split
  · rfl
  · simp only
    cases hr : m.unRegisterWithParent k with
    | ok m1 => exact handles_unreg m m1 k hr
    | notFound => rfl
    | noParent => rfl

theorem handles_renameOneDesc (H : List MHandle) (old new : Key) (acc : Option (MemFs × List Key)) (d : Nat)
    (h : ∀ m r, acc = some (m, r) → m.handles = H) :
    ∀ m r, renameOneDesc old new acc d = some (m, r) → m.handles = H := by
  intro m r e
  unfold renameOneDesc at e
  cases acc with
  | none => cases e
  | some a =>
    obtain ⟨m0, r0⟩ := a
    simp only at e
    split at e
    · rename_i m1 heq
      injection e with e
      injection e with e1 e2
      rw [← e1, handles_reg]
      show m1.handles = H
      rw [handles_unreg m0 m1 _ heq]
      exact h m0 r0 rfl
    · cases e

theorem handles_fold (H : List MHandle) (old new : Key) : ∀ (L : List Nat) (acc : Option (MemFs × List Key)),
    (∀ m r, acc = some (m, r) → m.handles = H) →
    ∀ m r, L.foldl (renameOneDesc old new) acc = some (m, r) → m.handles = H := by
  intro L
  induction L with
  | nil => intro acc h m r e; exact h m r e
  | cons d L ih =>
    intro acc h m r e
    rw [List.foldl_cons] at e
    exact ih _ (handles_renameOneDesc H old new acc d h) m r e

/-- **no `Rename` touches a handle** -/
theorem handles_rename (m : MemFs) (old new : Key) : (m.rename old new).1.handles = m.handles := by
  unfold rename
  split
  · rfl
  · rename_i f _
    split
    · rfl
    · split
      · rfl
      · rfl
      · rename_i m1 heq
        simp only
        split
        · rfl
        · rename_i m4 removes hfold
          rw [handles_reg]
          show m4.handles = m.handles
          refine handles_fold m.handles old new _ _ ?_ m4 removes hfold
          intro m' r' e
          injection e with e; injection e with e1 e2
          rw [← e1]
          show m1.handles = m.handles
          exact handles_unreg m m1 old heq

theorem openRW_of_handles (m m1 : MemFs) (hi : Nat) (mh : MHandle) (H : OpenRW m hi mh)
    (hh : m1.handles = m.handles) : OpenRW m1 hi mh :=
  ⟨by rw [hh]; exact H.hh, H.hopen, H.hrw, H.hpos⟩

theorem wop_consistent (m : MemFs) (hc : Consistent m) (hi : Nat) (w : WOp) : Consistent (m.step (w.op hi)).1 := by
  cases w <;> exact consistent_fileIO m hc hi _ _

/-- **a write-type call through a handle whose object the name `k` leads to**: the call reports what the
    flat semantics says; `k` shows the new bytes under the old mode; no other name changes; `Stat` of the
    name and `Stat` through the handle agree, the size being the length of the new bytes -/
theorem linked_write (X : MemFs) (hc : Consistent X) (hi : Nat) (mh : MHandle) (H : OpenRW X hi mh)
    (k : Key) (hl : X.lookup k = some mh.obj) (old : Bytes) (md : Nat) (hv : view X k = some (.file old md))
    (w : WOp) :
    (X.step (w.op hi)).2 = .file w.out ∧
    view (X.step (w.op hi)).1 k = some (.file (w.bytes old mh.h.pos) md) ∧
    (∀ k', k' ≠ k → view (X.step (w.op hi)).1 k' = view X k') ∧
    (X.step (w.op hi)).1.stat k = (X.step (w.op hi)).1.hStat hi ∧
    (X.step (w.op hi)).1.hStat hi = .info (baseName k) (w.bytes old mh.h.pos).length false md := by
  obtain ⟨hdir, hdata, hmode⟩ := view_file_inv X k mh.obj old md hl hv
  have hr := hc.inRange _ _ hl
  have V := wop_view X hc hi mh H hdir w
  have hc2 := wop_consistent X hc hi w
  have hl2 : (X.step (w.op hi)).1.lookup k = some mh.obj := by rw [wop_lookup X hi mh H w]; exact hl
  have hh2 := wop_handle X hi mh H w
  refine ⟨wop_res X hi mh H w, ?_, ?_, ?_, ?_⟩
  · rw [V k, if_pos hl, hdata, hmode]
  · intro k' hk'
    rw [V k', if_neg (fun e => hk' (hc.inj _ _ _ e hl))]
  · exact stat_eq_hStat _ k hi _ hh2 hl2
  · rw [hStat_file _ hi _ hh2 (by show ((X.step (w.op hi)).1.obj mh.obj).dir = false; rw [wop_obj X hi mh H w hr]; exact hdir)]
    show MRes.info (baseName ((X.step (w.op hi)).1.obj mh.obj).name) ((X.step (w.op hi)).1.obj mh.obj).data.length false
      ((X.step (w.op hi)).1.obj mh.obj).mode = _
    rw [hc2.nameEq k mh.obj hl2, wop_obj X hi mh H w hr]
    show MRes.info (baseName k) (w.bytes (X.obj mh.obj).data mh.h.pos).length false (X.obj mh.obj).mode = _
    rw [hdata, hmode]

theorem view_setObj_unlinked (X : MemFs) (o : Nat) (d' : FData) (hun : ∀ k, X.lookup k ≠ some o) (k' : Key) :
    view (X.setObj o d') k' = view X k' := by
  refine view_congr X _ k' k' (lookup_setObj _ _ _ _) (fun g hg => ?_)
  have : g ≠ o := fun e => hun k' (by rw [← e]; exact hg)
  rw [obj_setObj_ne _ _ _ _ this]

/-- **a write-type call through a handle whose object no name leads to** (the file was removed): the call
    reports what the flat semantics says and the object holds the new bytes, but NO name's view changes -/
theorem unlinked_write (X : MemFs) (hi : Nat) (mh : MHandle) (H : OpenRW X hi mh)
    (hun : ∀ k, X.lookup k ≠ some mh.obj) (hr : mh.obj < X.objs.length) (w : WOp) :
    (X.step (w.op hi)).2 = .file w.out ∧
    (∀ k', view (X.step (w.op hi)).1 k' = view X k') ∧
    (X.step (w.op hi)).1.obj mh.obj =
      (X.obj mh.obj).withIO (w.bytes (X.obj mh.obj).data mh.h.pos) w.out.success X.now ∧
    (∀ k, (X.step (w.op hi)).1.lookup k ≠ some mh.obj) := by
  refine ⟨wop_res X hi mh H w, ?_, wop_obj X hi mh H w hr, ?_⟩
  · intro k'
    rw [wop_step X hi mh H w]
    exact view_setObj_unlinked X mh.obj _ hun k'
  · intro k; rw [wop_lookup X hi mh H w]; exact hun k

/-- **… and the handle still reads and writes its object**: positional reads return the object's bytes;
    after a write-type call they return the bytes the flat semantics makes of them, and `Stat` through the
    handle reports their length — while no name's view changes -/
theorem unlinked_io (X : MemFs) (hi : Nat) (mh : MHandle) (H : OpenRW X hi mh)
    (hun : ∀ k, X.lookup k ≠ some mh.obj) (hr : mh.obj < X.objs.length)
    (old : Bytes) (md : Nat) (nm : Key) (hdir : (X.obj mh.obj).dir = false) (hdata : (X.obj mh.obj).data = old)
    (hmode : (X.obj mh.obj).mode = md) (hname : (X.obj mh.obj).name = nm) :
    (∀ n off, (X.step (.hReadAt hi n off)).2 = .file (readAtS old n off)) ∧
    ∀ w : WOp,
      (X.step (w.op hi)).2 = .file w.out ∧
      (∀ k', view (X.step (w.op hi)).1 k' = view X k') ∧
      (∀ n off, ((X.step (w.op hi)).1.step (.hReadAt hi n off)).2 = .file (readAtS (w.bytes old mh.h.pos) n off)) ∧
      (X.step (w.op hi)).1.hStat hi = .info (baseName nm) (w.bytes old mh.h.pos).length false md := by
  refine ⟨fun n off => ?_, fun w => ?_⟩
  · rw [hReadAt_flat X hi mh H.hh H.hopen H.hpos, hdata]
  · obtain ⟨h1, h2, h3, _⟩ := unlinked_write X hi mh H hun hr w
    have hh2 := wop_handle X hi mh H w
    have hpos2 : 0 ≤ w.pos mh.h.pos := by
      cases w <;> simp only [WOp.pos]
      · have := H.hpos; omega
      · exact H.hpos
      · exact H.hpos
    refine ⟨h1, h2, fun n off => ?_, ?_⟩
    · rw [hReadAt_flat _ hi _ hh2 H.hopen hpos2]
      show MRes.file (readAtS ((X.step (w.op hi)).1.obj mh.obj).data n off) = _
      rw [h3]
      show MRes.file (readAtS (w.bytes (X.obj mh.obj).data mh.h.pos) n off) = _
      rw [hdata]
    · rw [hStat_file _ hi _ hh2 (by show ((X.step (w.op hi)).1.obj mh.obj).dir = false; rw [h3]; exact hdir)]
      show MRes.info (baseName ((X.step (w.op hi)).1.obj mh.obj).name) ((X.step (w.op hi)).1.obj mh.obj).data.length false
        ((X.step (w.op hi)).1.obj mh.obj).mode = _
      rw [h3]
      show MRes.info (baseName (X.obj mh.obj).name) (w.bytes (X.obj mh.obj).data mh.h.pos).length false (X.obj mh.obj).mode = _
      rw [hdata, hmode, hname]

/-! ## Part 2 — the name moves, the handle follows -/

/-- the path map after the rename of a leaf -/
theorem rename_leaf_lookup (m : MemFs) (hc : Consistent m) (a b : Key) (h : RenameLeaf m a b) (hne : a ≠ b)
    (k' : Key) :
    (m.rename a b).1.lookup k' = if k' = b then m.lookup a else if k' = a then none else m.lookup k' := by
  obtain ⟨f, hl, hleaf, hold, hnew, hpk, hpo, ⟨p', pd', hp', hpd'⟩, _, hn⟩ := h
  obtain ⟨p, _, hp, _, _⟩ := hc.hasParent a f hl hold
  rw [rename_leaf_eq_relink m hc a b f p p' pd' hn hl hleaf hne hpk hpo hp hp' hpd']
  show (m.relink a b f p p').lookup k' = _
  rw [lookup_relink _ _ _ _ _ _ _ hne, hl]

/-- … and every object looks as before -/
theorem rename_leaf_node (m : MemFs) (hc : Consistent m) (a b : Key) (h : RenameLeaf m a b) (j : Nat) :
    nodeOf ((m.rename a b).1.obj j) = nodeOf (m.obj j) := by
  by_cases hne : a = b
  · rw [hne, rename_noop]
  · obtain ⟨f, hl, hleaf, hold, hnew, hpk, hpo, ⟨p', pd', hp', hpd'⟩, _, hn⟩ := h
    obtain ⟨p, _, hp, _, _⟩ := hc.hasParent a f hl hold
    rw [rename_leaf_eq_relink m hc a b f p p' pd' hn hl hleaf hne hpk hpo hp hp' hpd']
    exact nodeOf_relink m a b f p p' j

/-- **the handle follows the rename of its file.**  `a` leads to the object of the open writable handle
    `hi` and shows a regular file with bytes `old`; `a` is renamed to `b ≠ a` (a free name, or over another
    file or empty directory: `RenameLeaf`).  Then a write-type call through the handle reports exactly what
    it would have reported before the rename; afterwards `b` shows the bytes the flat semantics makes of
    `old`, `a` shows nothing, every other name shows what it did before both calls; `Stat b` and `Stat`
    through the handle agree. -/
theorem follows_rename (m : MemFs) (hc : Consistent m) (a b : Key) (hr : RenameLeaf m a b) (hab : a ≠ b)
    (hi : Nat) (mh : MHandle) (H : OpenRW m hi mh) (hl : m.lookup a = some mh.obj)
    (old : Bytes) (md : Nat) (hv : view m a = some (.file old md)) (w : WOp) :
    (m.rename a b).2 = .ok ∧
    ((m.rename a b).1.step (w.op hi)).2 = (m.step (w.op hi)).2 ∧
    ((m.rename a b).1.step (w.op hi)).2 = .file w.out ∧
    view ((m.rename a b).1.step (w.op hi)).1 b = some (.file (w.bytes old mh.h.pos) md) ∧
    view ((m.rename a b).1.step (w.op hi)).1 a = none ∧
    (∀ k', k' ≠ a → k' ≠ b → view ((m.rename a b).1.step (w.op hi)).1 k' = view m k') ∧
    ((m.rename a b).1.step (w.op hi)).1.stat b = ((m.rename a b).1.step (w.op hi)).1.hStat hi ∧
    ((m.rename a b).1.step (w.op hi)).1.hStat hi = .info (baseName b) (w.bytes old mh.h.pos).length false md := by
  obtain ⟨hok, R⟩ := rename_leaf_view m hc a b hr
  have hc1 := consistent_rename_of_renameLeaf m hc a b hr
  have H1 := openRW_of_handles m _ hi mh H (handles_rename m a b)
  have hl1 : (m.rename a b).1.lookup b = some mh.obj := by
    rw [rename_leaf_lookup m hc a b hr hab, if_pos rfl]; exact hl
  have hv1 : view (m.rename a b).1 b = some (.file old md) := by
    rw [R b]; unfold refRenameLeaf; rw [if_pos rfl]; exact hv
  obtain ⟨h1, h2, h3, h4, h5⟩ := linked_write _ hc1 hi mh H1 b hl1 old md hv1 w
  refine ⟨hok, ?_, h1, h2, ?_, ?_, h4, h5⟩
  · rw [h1, wop_res m hi mh H w]
  · rw [h3 a hab, R a]; unfold refRenameLeaf; rw [if_neg hab, if_pos rfl]
  · intro k' ka kb
    rw [h3 k' kb, R k']; unfold refRenameLeaf; rw [if_neg kb, if_neg ka]

/-- **the handle follows the rename of an ancestor directory.**  `k`, a name below the directory `a`, leads to
    the object of the open writable handle `hi` and shows a regular file with bytes `old`; `a` is renamed
    with its whole subtree to the free name `b` (`RenameSubtree`).  Then a write-type call through the
    handle reports exactly what it would have reported before; afterwards the re-prefixed name
    `rePrefix a b k` shows the bytes the flat semantics makes of `old`, `k` shows nothing, every other name
    shows what the rename alone leaves (`refRenameDir`); `Stat` of the new name and `Stat` through the
    handle agree. -/
theorem follows_dir_rename (m : MemFs) (hc : Consistent m) (hk : KeysNodup m) (ho : ObjsOK m) (a b : Key)
    (hna : normKey a = a) (hnb : normKey b = b) (hr : RenameSubtree m a b)
    (k : Key) (hu : isUnder a k = true)
    (hi : Nat) (mh : MHandle) (H : OpenRW m hi mh) (hl : m.lookup k = some mh.obj)
    (old : Bytes) (md : Nat) (hv : view m k = some (.file old md)) (w : WOp) :
    (m.rename a b).2 = .ok ∧
    ((m.rename a b).1.step (w.op hi)).2 = (m.step (w.op hi)).2 ∧
    ((m.rename a b).1.step (w.op hi)).2 = .file w.out ∧
    view ((m.rename a b).1.step (w.op hi)).1 (rePrefix a b k) = some (.file (w.bytes old mh.h.pos) md) ∧
    view ((m.rename a b).1.step (w.op hi)).1 k = none ∧
    (∀ k', k' ≠ rePrefix a b k →
      view ((m.rename a b).1.step (w.op hi)).1 k' = refRenameDir (view m) a b k') ∧
    ((m.rename a b).1.step (w.op hi)).1.stat (rePrefix a b k) = ((m.rename a b).1.step (w.op hi)).1.hStat hi ∧
    ((m.rename a b).1.step (w.op hi)).1.hStat hi =
      .info (baseName (rePrefix a b k)) (w.bytes old mh.h.pos).length false md := by
  obtain ⟨hok, R⟩ := rename_dir_view m hc hk ho a b hna hnb hr
  obtain ⟨f, hlf, ha, hb, hfree, hnu, p', pd', hp', hpd'⟩ := hr
  have holdr : a ≠ rootKey := fun e => ha (by rw [e]; rfl)
  obtain ⟨p, _, hp, _, _⟩ := hc.hasParent a f hlf holdr
  have X : RenCtx m a b f p p' := ⟨hc, hlf, hna, hnb, ha, hb, hfree, hnu, hp, hp', by rw [hpd']; rfl⟩
  obtain ⟨_, M⟩ := rename_dir_moved m a b f p p' X hk
  have hc1 := consistent_of_moved_subtree m _ a b f p p' X M
  have H1 := openRW_of_handles m _ hi mh H (handles_rename m a b)
  obtain ⟨f1, f2, _⟩ := X.fwd k hu
  have hneb : rePrefix a b k ≠ b := by
    intro e; rw [e, not_isUnder_self] at f1; cases f1
  have hl1 : (m.rename a b).1.lookup (rePrefix a b k) = some mh.obj := by
    rw [M.lk, if_neg hneb, if_pos f1, f2]; exact hl
  have hv1 : view (m.rename a b).1 (rePrefix a b k) = some (.file old md) := by
    rw [R]; unfold refRenameDir; rw [if_pos (Or.inr f1), f2]; exact hv
  have nb : ¬ (k = b ∨ isUnder b k = true) := by
    intro e; rcases e with e | e
    · rw [e, hnu] at hu; cases hu
    · exact X.disj k e hu
  have hkne : k ≠ rePrefix a b k := by
    intro e; rw [← e] at f1; exact nb (Or.inr f1)
  obtain ⟨h1, h2, h3, h4, h5⟩ := linked_write _ hc1 hi mh H1 _ hl1 old md hv1 w
  refine ⟨hok, ?_, h1, h2, ?_, ?_, h4, h5⟩
  · rw [h1, wop_res m hi mh H w]
  · rw [h3 k hkne, R k]; unfold refRenameDir; rw [if_neg nb, if_pos (Or.inr hu)]
  · intro k' hk'
    rw [h3 k' hk', R k']

/-- rewriting the index of one directory object leaves every object's name, kind, bytes and mode -/
theorem obj_setObj_memDir (m : MemFs) (p : Nat) (md' : Option (List (Key × Nat))) (j : Nat) :
    ((m.setObj p { m.obj p with memDir := md' }).obj j).name = (m.obj j).name ∧
    ((m.setObj p { m.obj p with memDir := md' }).obj j).dir = (m.obj j).dir ∧
    ((m.setObj p { m.obj p with memDir := md' }).obj j).data = (m.obj j).data ∧
    ((m.setObj p { m.obj p with memDir := md' }).obj j).mode = (m.obj j).mode := by
  rcases obj_setObj_cases m p { m.obj p with memDir := md' } j with e | ⟨e, hj, _⟩
  · rw [e]; exact ⟨rfl, rfl, rfl, rfl⟩
  · rw [e, hj]; exact ⟨rfl, rfl, rfl, rfl⟩

/-- **the handle survives the removal of its file.**  `a` leads to the object of the open writable handle
    `hi` and shows a regular file with bytes `old`.  After `Remove a` the name is gone, but the handle still
    reads `old`; a write-type call through it reports what the flat semantics says, later reads and `Stat`
    through the handle see the new bytes — and NO name's view is changed by the write. -/
theorem survives_remove (m : MemFs) (hc : Consistent m) (a : Key) (hroot : a ≠ rootKey)
    (hi : Nat) (mh : MHandle) (H : OpenRW m hi mh) (hl : m.lookup a = some mh.obj)
    (old : Bytes) (md : Nat) (hv : view m a = some (.file old md)) :
    (m.remove a).2 = .ok ∧ view (m.remove a).1 a = none ∧
    (∀ n off, ((m.remove a).1.step (.hReadAt hi n off)).2 = .file (readAtS old n off)) ∧
    ∀ w : WOp,
      ((m.remove a).1.step (w.op hi)).2 = .file w.out ∧
      (∀ k', view ((m.remove a).1.step (w.op hi)).1 k' = view (m.remove a).1 k') ∧
      (∀ n off, (((m.remove a).1.step (w.op hi)).1.step (.hReadAt hi n off)).2 =
        .file (readAtS (w.bytes old mh.h.pos) n off)) ∧
      ((m.remove a).1.step (w.op hi)).1.hStat hi = .info (baseName a) (w.bytes old mh.h.pos).length false md := by
  obtain ⟨hdir, hdata, hmode⟩ := view_file_inv m a mh.obj old md hl hv
  obtain ⟨hok, R⟩ := remove_view m hc a mh.obj hroot hl
  obtain ⟨p, pd, h1, _, _⟩ := hc.hasParent a mh.obj hl hroot
  have e := remove_leaf_eq_detach m hc a mh.obj p hl h1
  have H1 := openRW_of_handles m _ hi mh H (handles_remove m a)
  have hun : ∀ k, (m.remove a).1.lookup k ≠ some mh.obj := by
    intro k hk
    rw [e] at hk
    have hk' : (m.detach a p).lookup k = some mh.obj := hk
    rw [lookup_detach] at hk'
    by_cases c : k = a
    · rw [if_pos c] at hk'; cases hk'
    · rw [if_neg c] at hk'; exact c (hc.inj _ _ _ hk' hl)
  have hobj : ∀ j, ((m.remove a).1.obj j).name = (m.obj j).name ∧ ((m.remove a).1.obj j).dir = (m.obj j).dir ∧
      ((m.remove a).1.obj j).data = (m.obj j).data ∧ ((m.remove a).1.obj j).mode = (m.obj j).mode := by
    intro j; rw [e]; exact obj_setObj_memDir m p _ j
  have hlen : (m.remove a).1.objs.length = m.objs.length := by
    rw [e]; exact length_setObj m p _
  obtain ⟨g1, g2⟩ := unlinked_io (m.remove a).1 hi mh H1 hun (by rw [hlen]; exact hc.inRange _ _ hl) old md a
    (by rw [(hobj _).2.1]; exact hdir) (by rw [(hobj _).2.2.1]; exact hdata) (by rw [(hobj _).2.2.2]; exact hmode)
    (by rw [(hobj _).1]; exact hc.nameEq _ _ hl)
  refine ⟨hok, ?_, g1, g2⟩
  rw [R a]; unfold refRemove; rw [if_pos rfl]

/-- **… and the removal of an ancestor directory with everything below it** (`RemoveAll c`, the file's
    name `k` being `c` itself or below it) -/
theorem survives_removeAll (m : MemFs) (hc : Consistent m) (c : Key) (hcs : c.segs ≠ []) (hn : normKey c = c)
    (k : Key) (hu : k = c ∨ isUnder c k = true)
    (hi : Nat) (mh : MHandle) (H : OpenRW m hi mh) (hl : m.lookup k = some mh.obj)
    (old : Bytes) (md : Nat) (hv : view m k = some (.file old md)) :
    (m.removeAll c).2 = .ok ∧ view (m.removeAll c).1 k = none ∧
    (∀ n off, ((m.removeAll c).1.step (.hReadAt hi n off)).2 = .file (readAtS old n off)) ∧
    ∀ w : WOp,
      ((m.removeAll c).1.step (w.op hi)).2 = .file w.out ∧
      (∀ k', view ((m.removeAll c).1.step (w.op hi)).1 k' = view (m.removeAll c).1 k') ∧
      (∀ n off, (((m.removeAll c).1.step (w.op hi)).1.step (.hReadAt hi n off)).2 =
        .file (readAtS (w.bytes old mh.h.pos) n off)) ∧
      ((m.removeAll c).1.step (w.op hi)).1.hStat hi = .info (baseName k) (w.bytes old mh.h.pos).length false md := by
  obtain ⟨hdir, hdata, hmode⟩ := view_file_inv m k mh.obj old md hl hv
  obtain ⟨hok, R⟩ := removeAll_view m hc c hcs hn
  have hroot : c ≠ rootKey := by intro e; rw [e] at hcs; exact hcs rfl
  -- the removed name exists, since something at or below it does
  obtain ⟨f, hf⟩ : ∃ f, m.lookup c = some f := by
    rcases hu with hu | hu
    · exact ⟨mh.obj, by rw [← hu]; exact hl⟩
    · exact (Option.isSome_iff_exists.1 (ancestor_exists m hc c hn _ k mh.obj rfl hl hu))
  obtain ⟨p, pd, h1, _, _⟩ := hc.hasParent c f hf hroot
  have e := removeAll_eq_prune m hc c f p hf h1
  have H1 := openRW_of_handles m _ hi mh H (handles_removeAll m c)
  have hun : ∀ k', (m.removeAll c).1.lookup k' ≠ some mh.obj := by
    intro k' hk
    rw [e] at hk
    have hk' : (m.prune c p).lookup k' = some mh.obj := hk
    rw [lookup_prune] at hk'
    by_cases cc : k' = c ∨ isUnder c k' = true
    · rw [if_pos cc] at hk'; cases hk'
    · rw [if_neg cc] at hk'
      exact cc (by rw [hc.inj _ _ _ hk' hl]; exact hu)
  have hobj : ∀ j, ((m.removeAll c).1.obj j).name = (m.obj j).name ∧ ((m.removeAll c).1.obj j).dir = (m.obj j).dir ∧
      ((m.removeAll c).1.obj j).data = (m.obj j).data ∧ ((m.removeAll c).1.obj j).mode = (m.obj j).mode := by
    intro j; rw [e]; exact obj_setObj_memDir m p _ j
  have hlen : (m.removeAll c).1.objs.length = m.objs.length := by
    rw [e]; exact length_setObj m p _
  obtain ⟨g1, g2⟩ := unlinked_io (m.removeAll c).1 hi mh H1 hun (by rw [hlen]; exact hc.inRange _ _ hl) old md k
    (by rw [(hobj _).2.1]; exact hdir) (by rw [(hobj _).2.2.1]; exact hdata) (by rw [(hobj _).2.2.2]; exact hmode)
    (by rw [(hobj _).1]; exact hc.nameEq _ _ hl)
  refine ⟨hok, ?_, g1, g2⟩
  rw [R k]; unfold refRemoveAll; rw [if_pos hu]

end MemFs

/-! ## Part 3 — the handle methods are C02's `stepC` on the object's bytes -/

/-- the handle methods that C02's vocabulary covers, in that vocabulary -/
def fopOf : Op → Option FOp
  | .hRead h n => some (.read h n)
  | .hReadAt h n off => some (.readAt h n off)
  | .hWrite h b => some (.write h b)
  | .hWriteAt h b off => some (.writeAt h b off)
  | .hTrunc h n => some (.truncate h n)
  | .hSeek h off wh => some (.seek h off wh)
  | _ => none

theorem list_set_same {α} (l : List α) (i : Nat) (a : α) (h : l[i]? = some a) : l.set i a = l := by
  obtain ⟨hlt, he⟩ := List.getElem?_eq_some_iff.mp h
  subst he
  simp

namespace MemFs

/-- C02's state for the object `o`: its bytes, and offset and flags of every handle of the table (C02's
    handle `i` is the model's handle `i`) -/
def fileStOf (m : MemFs) (o : Nat) : FileSt := ⟨(m.obj o).data, m.handles.map (·.h)⟩

/-- the results of the calls of a program, in order (`run` gives the final state) -/
def outs : MemFs → List Op → List MRes
  | _, [] => []
  | m, op :: ops => (m.step op).2 :: outs (m.step op).1 ops

theorem fileIO_is_stepC (m : MemFs) (o : Nat) (hr : o < m.objs.length) (hi : Nat) (mh : MHandle)
    (hm : m.handles[hi]? = some mh) (ho : mh.obj = o) (f : Bytes → Handle → Bytes × Handle × FOut) (t : Bool) :
    (m.fileIO hi f t).2 = .file (f (m.obj o).data mh.h).2.2 ∧
    fileStOf (m.fileIO hi f t).1 o = ⟨(f (m.obj o).data mh.h).1, (m.handles.map (·.h)).set hi (f (m.obj o).data mh.h).2.1⟩ ∧
    (m.fileIO hi f t).1.handles.map (·.obj) = m.handles.map (·.obj) ∧
    (m.fileIO hi f t).1.objs.length = m.objs.length ∧
    (∀ k, (m.fileIO hi f t).1.lookup k = m.lookup k) ∧
    (∀ j, j ≠ o → (m.fileIO hi f t).1.obj j = m.obj j) := by
  subst ho
  rw [fileIO_some m hi mh hm]
  refine ⟨rfl, ?_, ?_, length_setObj _ _ _, fun _ => rfl, fun j hj => obj_setObj_ne m _ _ _ hj⟩
  · unfold fileStOf
    simp only
    rw [List.map_set]
    congr 1
    show ((m.setObj mh.obj _).obj mh.obj).data = _
    rw [obj_setObj_self _ _ _ hr]; rfl
  · simp only
    rw [List.map_set]
    have : (m.handles.map (·.obj))[hi]? = some mh.obj := by rw [List.getElem?_map, hm]; rfl
    exact list_set_same _ _ _ this

/-- **one handle method of the model is one `stepC` of C02** on the bytes of the handle's object: same
    result, same new bytes, same new offset; the path map, the other objects and the binding of handles
    to objects are untouched -/
theorem step_is_stepC (m : MemFs) (o : Nat) (hr : o < m.objs.length) (op : Op) (fop : FOp)
    (hf : fopOf op = some fop) (hi : Nat) (hh : op.handle? = some hi) (mh : MHandle)
    (hm : m.handles[hi]? = some mh) (ho : mh.obj = o) :
    (m.step op).2 = .file (stepC (fileStOf m o) fop).2 ∧
    fileStOf (m.step op).1 o = (stepC (fileStOf m o) fop).1 ∧
    (m.step op).1.handles.map (·.obj) = m.handles.map (·.obj) ∧
    (m.step op).1.objs.length = m.objs.length ∧
    (∀ k, (m.step op).1.lookup k = m.lookup k) ∧
    (∀ j, j ≠ o → (m.step op).1.obj j = m.obj j) := by
  have hS : (fileStOf m o).hs[hi]? = some mh.h := by
    show (m.handles.map (·.h))[hi]? = _
    rw [List.getElem?_map, hm]; rfl
  cases op <;> try (cases hf)
  all_goals (injection hh with hh; subst hh)
  case hRead n =>
    obtain ⟨a, b, c, d, e, g⟩ := fileIO_is_stepC m o hr _ mh hm ho
      (fun d h => let (h', o) := readC d h n; (d, h', o)) false
    refine ⟨?_, ?_, c, d, e, g⟩
    · exact a.trans (by simp only [stepC, hS]; rfl)
    · exact b.trans (by simp only [stepC, hS]; rfl)
  case hReadAt n off =>
    obtain ⟨a, b, c, d, e, g⟩ := fileIO_is_stepC m o hr _ mh hm ho
      (fun d h => let (h', o) := readAtC d h n off; (d, h', o)) false
    refine ⟨?_, ?_, c, d, e, g⟩
    · exact a.trans (by simp only [stepC, hS]; rfl)
    · exact b.trans (by simp only [stepC, hS]; rfl)
  case hWrite bs =>
    obtain ⟨a, b, c, d, e, g⟩ := fileIO_is_stepC m o hr _ mh hm ho (fun d h => writeC d h bs) true
    refine ⟨?_, ?_, c, d, e, g⟩
    · exact a.trans (by simp only [stepC, hS]; rfl)
    · exact b.trans (by simp only [stepC, hS]; rfl)
  case hWriteAt bs off =>
    obtain ⟨a, b, c, d, e, g⟩ := fileIO_is_stepC m o hr _ mh hm ho (fun d h => writeAtC d h bs off) true
    refine ⟨?_, ?_, c, d, e, g⟩
    · exact a.trans (by simp only [stepC, hS]; rfl)
    · exact b.trans (by simp only [stepC, hS]; rfl)
  case hTrunc n =>
    obtain ⟨a, b, c, d, e, g⟩ := fileIO_is_stepC m o hr _ mh hm ho
      (fun d h => let (d', o) := truncC d h n; (d', h, o)) true
    refine ⟨?_, ?_, c, d, e, g⟩
    · exact a.trans (by simp only [stepC, hS]; rfl)
    · refine b.trans ?_
      simp only [stepC, hS]
      show (⟨(truncC (m.obj o).data mh.h n).1, (m.handles.map (·.h)).set _ mh.h⟩ : FileSt) = _
      have hS' : (m.handles.map (·.h))[_]? = some mh.h := hS
      rw [list_set_same _ _ _ hS']; rfl
  case hSeek off wh =>
    obtain ⟨a, b, c, d, e, g⟩ := fileIO_is_stepC m o hr _ mh hm ho
      (fun d h => let (h', o) := seekC d h off wh; (d, h', o)) false
    refine ⟨?_, ?_, c, d, e, g⟩
    · exact a.trans (by simp only [stepC, hS]; rfl)
    · exact b.trans (by simp only [stepC, hS]; rfl)

/-- every call of `ops` is a read, write, truncate or seek through a handle bound to the object `o`
    (`B` lists the object of every handle of the table) -/
def IOon (B : List Nat) (o : Nat) (ops : List Op) : Prop :=
  ∀ op ∈ ops, (fopOf op).isSome = true ∧ ∃ hi, op.handle? = some hi ∧ B[hi]? = some o

/-- no handle has a negative offset -/
def PosOK (m : MemFs) : Prop := ∀ mh ∈ m.handles, 0 ≤ mh.h.pos

theorem inv_of_posOK (m : MemFs) (o : Nat) (h : PosOK m) : C02.Inv (fileStOf m o) := by
  intro x hx
  obtain ⟨mh, hmh, e⟩ := List.mem_map.1 hx
  rw [← e]; exact h mh hmh

theorem runWith_cons (step : FileSt → FOp → FileSt × FOut) (s : FileSt) (op : FOp) (ops : List FOp) :
    runWith step s (op :: ops) = ((runWith step (step s op).1 ops).1, (step s op).2 :: (runWith step (step s op).1 ops).2) := rfl

/-- **any interleaving of calls through any number of handles on ONE object is the flat byte array of
    C02**: the results are those of the flat specification `stepS` run on the object's bytes, and so are the
    object's final bytes and every handle's final offset -/
theorem handle_io_is_flat (ops : List Op) : ∀ (m : MemFs) (o : Nat), o < m.objs.length → C02.Inv (fileStOf m o) →
    IOon (m.handles.map (·.obj)) o ops →
    outs m ops = (runWith stepS (fileStOf m o) (ops.filterMap fopOf)).2.map .file ∧
    fileStOf (run m ops) o = (runWith stepS (fileStOf m o) (ops.filterMap fopOf)).1 := by
  induction ops with
  | nil => intro m o _ _ _; exact ⟨rfl, rfl⟩
  | cons op ops ih =>
    intro m o hr hinv hall
    obtain ⟨h1, hi, h2, h3⟩ := hall op List.mem_cons_self
    obtain ⟨fop, hf⟩ := Option.isSome_iff_exists.1 h1
    rw [List.getElem?_map] at h3
    obtain ⟨mh, hm, ho⟩ := Option.map_eq_some_iff.1 h3
    obtain ⟨a, b, c, d, _, _⟩ := step_is_stepC m o hr op fop hf hi h2 mh hm ho
    rw [C02.step_refines _ _ hinv] at a b
    have hinv' : C02.Inv (fileStOf (m.step op).1 o) := by rw [b]; exact C02.stepS_inv _ _ hinv
    have hall' : IOon ((m.step op).1.handles.map (·.obj)) o ops := by
      rw [c]; intro op' hop'; exact hall op' (List.mem_cons_of_mem _ hop')
    obtain ⟨i1, i2⟩ := ih (m.step op).1 o (by rw [d]; exact hr) hinv' hall'
    rw [List.filterMap_cons_some hf, runWith_cons]
    refine ⟨?_, ?_⟩
    · show (m.step op).2 :: outs (m.step op).1 ops = _
      rw [i1, a, b]; rfl
    · show fileStOf (run (m.step op).1 ops) o = _
      rw [i2, b]

/-- `Seek(0, io.SeekEnd)` through an open handle reports the length of the handle's object -/
theorem hSeek_end (m : MemFs) (hi : Nat) (mh : MHandle) (hm : m.handles[hi]? = some mh) (hopen : mh.h.closed = false) :
    (m.step (.hSeek hi 0 2)).2 = .file (.pos (m.obj mh.obj).data.length) := by
  show (m.fileIO hi (fun d h => let (h', o) := seekC d h 0 2; (d, h', o)) false).2 = _
  rw [fileIO_some m hi mh hm]
  have : ¬ ((((m.obj mh.obj).data.length : Nat) : Int) < 0) := by omega
  simp [seekC, seekTarget, hopen, this]

/-- two handles on one object report the same through `Stat` -/
theorem hStat_same_obj (m : MemFs) (hi hj : Nat) (mi mj : MHandle) (hmi : m.handles[hi]? = some mi)
    (hmj : m.handles[hj]? = some mj) (hobj : mj.obj = mi.obj) : m.hStat hi = m.hStat hj := by
  unfold hStat
  rw [hmi, hmj]
  simp only [hobj]

/-- **two handles on one object see each other's writes, and report ONE length.**  `hi` (open, writable)
    and `hj` (open) are bound to the same object.  After a write-type call through `hi` — a write at the
    handle's offset or at a given one, an append, a truncation — positional reads through EITHER handle
    return the bytes the flat semantics makes of the old ones, and `Stat` through either handle and
    `Seek(0, SeekEnd)` through either handle report the one length of those bytes. -/
theorem two_handles (m : MemFs) (hi hj : Nat) (mi mj : MHandle) (hne : hi ≠ hj) (Hi : OpenRW m hi mi)
    (hmj : m.handles[hj]? = some mj) (hobj : mj.obj = mi.obj) (hjopen : mj.h.closed = false)
    (hjpos : 0 ≤ mj.h.pos) (hr : mi.obj < m.objs.length) (w : WOp) :
    (∀ n off, ((m.step (w.op hi)).1.step (.hReadAt hj n off)).2 =
      .file (readAtS (w.bytes (m.obj mi.obj).data mi.h.pos) n off)) ∧
    (∀ n off, ((m.step (w.op hi)).1.step (.hReadAt hi n off)).2 =
      .file (readAtS (w.bytes (m.obj mi.obj).data mi.h.pos) n off)) ∧
    (m.step (w.op hi)).1.hStat hi = (m.step (w.op hi)).1.hStat hj ∧
    ((m.obj mi.obj).dir = false → (m.step (w.op hi)).1.hStat hj =
      .info (baseName (m.obj mi.obj).name) (w.bytes (m.obj mi.obj).data mi.h.pos).length false (m.obj mi.obj).mode) ∧
    ((m.step (w.op hi)).1.step (.hSeek hi 0 2)).2 = .file (.pos (w.bytes (m.obj mi.obj).data mi.h.pos).length) ∧
    ((m.step (w.op hi)).1.step (.hSeek hj 0 2)).2 = .file (.pos (w.bytes (m.obj mi.obj).data mi.h.pos).length) := by
  have hhi := wop_handle m hi mi Hi w
  have hhj : (m.step (w.op hi)).1.handles[hj]? = some mj := by
    rw [wop_handle_ne m hi mi Hi w hj (fun e => hne e.symm)]; exact hmj
  have hO := wop_obj m hi mi Hi w hr
  have hdata : ((m.step (w.op hi)).1.obj mi.obj).data = w.bytes (m.obj mi.obj).data mi.h.pos := by rw [hO]; rfl
  have hpos2 : 0 ≤ w.pos mi.h.pos := by
    cases w <;> simp only [WOp.pos]
    · have := Hi.hpos; omega
    · exact Hi.hpos
    · exact Hi.hpos
  have hst := hStat_same_obj _ hi hj _ mj hhi hhj hobj
  refine ⟨fun n off => ?_, fun n off => ?_, hst, fun hdir => ?_, ?_, ?_⟩
  · rw [hReadAt_flat _ hj mj hhj hjopen hjpos, hobj, hdata]
  · rw [hReadAt_flat _ hi _ hhi Hi.hopen hpos2]
    show MRes.file (readAtS ((m.step (w.op hi)).1.obj mi.obj).data n off) = _
    rw [hdata]
  · rw [← hst, hStat_file _ hi _ hhi (by show ((m.step (w.op hi)).1.obj mi.obj).dir = false; rw [hO]; exact hdir)]
    show MRes.info (baseName ((m.step (w.op hi)).1.obj mi.obj).name) ((m.step (w.op hi)).1.obj mi.obj).data.length false
      ((m.step (w.op hi)).1.obj mi.obj).mode = _
    rw [hO]; rfl
  · rw [hSeek_end _ hi _ hhi Hi.hopen]
    show MRes.file (.pos ((m.step (w.op hi)).1.obj mi.obj).data.length) = _
    rw [hdata]
  · rw [hSeek_end _ hj mj hhj hjopen, hobj, hdata]

/-! ## Part 4 — whole programs with handle writes

  The reference state carries, next to the view, for every handle the name it currently denotes (`none`
  once its file has been unlinked) and the handle's offset and flags.  An Fs-level call moves the names the
  handles denote (`mvOf`); a call through a handle that denotes a regular file is one step of C02's flat
  specification `stepS` on the bytes the view shows under that name. -/

end MemFs

/-- the reference state -/
structure RefH where
  v : View
  hs : List (Option Key × Handle)

/-- where `Rename a b` moves the name `k`: the source to the target, what lies below the source to the
    re-prefixed name; what the target held is unlinked; a failed or trivial rename moves nothing -/
def mvRename (v : View) (a b k : Key) : Option Key :=
  if (v a).isNone ∨ a = b then some k
  else if k = a then some b
  else if isUnder a k = true then some (rePrefix a b k)
  else if k = b ∨ isUnder b k = true then none
  else some k

/-- where an Fs-level call moves the name `k` (`none`: whatever `k` denoted is unlinked) -/
def mvOf (v : View) : Op → Key → Option Key
  | .remove p, k => if k = keyOfStr p then none else some k
  | .removeAll p, k => if k = keyOfStr p ∨ isUnder (keyOfStr p) k = true then none else some k
  | .rename a b, k => mvRename v (keyOfStr a) (keyOfStr b) k
  | _, k => some k

/-- the end of a regular file (where `O_APPEND` places the offset) -/
def endOf : Option Node → Int
  | some (.file d _) => d.length
  | _ => 0

/-- the handle an opening call returns (name it denotes, offset and flags), if it returns one -/
def openedOf (v : View) : Op → Option (Key × Handle)
  | .create p => some (keyOfStr p, {})
  | .open_ p => if (v (keyOfStr p)).isSome then some (keyOfStr p, { readOnly := true }) else none
  | .openFile p flag _ =>
    if (v (keyOfStr p)).isSome then
      if flag &&& O_EXCL > 0 then none
      else some (keyOfStr p, { readOnly := decide (flag &&& (O_WRONLY ||| O_RDWR) = 0),
                               pos := if flag &&& O_APPEND > 0 then endOf (v (keyOfStr p)) else 0 })
    else if flag &&& O_CREATE > 0 then
      some (keyOfStr p, { readOnly := decide (flag &&& (O_WRONLY ||| O_RDWR) = 0), pos := 0 })
    else none
  | _ => none

/-- the handle methods with an effect on bytes, offset or flags, as calls of C02 on handle 0 -/
def fop0 : Op → Option FOp
  | .hRead _ n => some (.read 0 n)
  | .hReadAt _ n off => some (.readAt 0 n off)
  | .hWrite _ b => some (.write 0 b)
  | .hWriteAt _ b off => some (.writeAt 0 b off)
  | .hTrunc _ n => some (.truncate 0 n)
  | .hSeek _ off wh => some (.seek 0 off wh)
  | .hClose _ => some (.close 0)
  | _ => none

/-- **the reference interpreter with handles** -/
def refStepH (R : RefH) (op : Op) : RefH :=
  match op.handle? with
  | none =>
    { v := refStep R.v op,
      hs := (R.hs.map fun e => (e.1.bind (mvOf R.v op), e.2)) ++
        (openedOf R.v op).toList.map fun e => (some e.1, e.2) }
  | some i =>
    match fop0 op, R.hs[i]? with
    | some fop, some (some k, h) =>
      match R.v k with
      | some (.file d md) =>
        { v := fun k' => if k' = k then some (.file (stepS ⟨d, [h]⟩ fop).1.data md) else R.v k',
          hs := R.hs.set i (some k, (stepS ⟨d, [h]⟩ fop).1.hs.headD h) }
      | _ => R
    | _, _ => R

namespace MemFs

/-- `m'` arose from `m` by moving names as `mv` says: no object is lost, an old object is found under `k'`
    exactly if it was under some `k` that `mv` sends to `k'`, and old objects keep their kind -/
structure Moves (m m' : MemFs) (mv : Key → Option Key) : Prop where
  len : m.objs.length ≤ m'.objs.length
  lk : ∀ k' o, o < m.objs.length → (m'.lookup k' = some o ↔ ∃ k, m.lookup k = some o ∧ mv k = some k')
  kind : ∀ o, o < m.objs.length → (m'.obj o).dir = (m.obj o).dir

/-- the reference's handle list describes the model's handle table: a handle said to denote `k` is bound to
    the object `k` leads to (and has the recorded offset and flags, if that is a regular file); a handle said to
    be unlinked is bound to an object no name leads to -/
structure HRel (m : MemFs) (hs : List (Option Key × Handle)) : Prop where
  len : hs.length = m.handles.length
  inr : ∀ (i : Nat) (mh : MHandle), m.handles[i]? = some mh → mh.obj < m.objs.length
  linked : ∀ (i : Nat) (mh : MHandle) (k : Key) (h : Handle), m.handles[i]? = some mh → hs[i]? = some (some k, h) →
    m.lookup k = some mh.obj ∧ ((m.obj mh.obj).dir = false → h = mh.h)
  unlinked : ∀ (i : Nat) (mh : MHandle) (h : Handle), m.handles[i]? = some mh → hs[i]? = some (none, h) →
    ∀ k, m.lookup k ≠ some mh.obj

theorem hrel_congr (m m' : MemFs) (hs : List (Option Key × Handle)) (hr : HRel m hs)
    (hd : m'.data = m.data) (ho : m'.objs = m.objs) (hh : m'.handles = m.handles) : HRel m' hs := by
  have hl : ∀ k, m'.lookup k = m.lookup k := fun k => by unfold lookup; rw [hd]
  have hob : ∀ j, m'.obj j = m.obj j := fun j => by unfold obj; rw [ho]
  refine ⟨by rw [hh]; exact hr.len, ?_, ?_, ?_⟩
  · intro i mh h; rw [hh] at h; rw [ho]; exact hr.inr i mh h
  · intro i mh k h h1 h2; rw [hh] at h1; rw [hl, hob]; exact hr.linked i mh k h h1 h2
  · intro i mh h h1 h2 k; rw [hh] at h1; rw [hl]; exact hr.unlinked i mh h h1 h2 k

theorem hrel_moves (m m' : MemFs) (hc : Consistent m) (hs : List (Option Key × Handle)) (mv : Key → Option Key)
    (hr : HRel m hs) (M : Moves m m' mv) (hh : m'.handles = m.handles) :
    HRel m' (hs.map fun e => (e.1.bind mv, e.2)) := by
  refine ⟨by rw [List.length_map, hh]; exact hr.len, ?_, ?_, ?_⟩
  · intro i mh h; rw [hh] at h; exact Nat.lt_of_lt_of_le (hr.inr i mh h) M.len
  · intro i mh k' h h1 h2
    rw [hh] at h1
    rw [List.getElem?_map] at h2
    obtain ⟨e, he, hee⟩ := Option.map_eq_some_iff.1 h2
    obtain ⟨ko, h0⟩ := e
    injection hee with e1 e2
    simp only at e1 e2
    subst e2
    cases ko with
    | none => cases e1
    | some k =>
      have e1' : mv k = some k' := e1
      obtain ⟨a, b⟩ := hr.linked i mh k h0 h1 he
      have hin := hr.inr i mh h1
      refine ⟨(M.lk k' mh.obj hin).2 ⟨k, a, e1'⟩, fun hd => b ?_⟩
      rw [← M.kind mh.obj hin]; exact hd
  · intro i mh h h1 h2 k' hk'
    rw [hh] at h1
    rw [List.getElem?_map] at h2
    obtain ⟨e, he, hee⟩ := Option.map_eq_some_iff.1 h2
    obtain ⟨ko, h0⟩ := e
    injection hee with e1 e2
    simp only at e1 e2
    subst e2
    have hin := hr.inr i mh h1
    obtain ⟨k2, a2, b2⟩ := (M.lk k' mh.obj hin).1 hk'
    cases ko with
    | none => exact hr.unlinked i mh h0 h1 he k2 a2
    | some k =>
      have e1' : mv k = none := e1
      obtain ⟨a, _⟩ := hr.linked i mh k h0 h1 he
      rw [hc.inj _ _ _ a2 a, e1'] at b2; cases b2

theorem hrel_append (m m' : MemFs) (hs : List (Option Key × Handle)) (hr : HRel m hs)
    (hd : m'.data = m.data) (ho : m'.objs = m.objs) (x : MHandle) (hh : m'.handles = m.handles ++ [x])
    (k : Key) (h0 : Handle) (hl : m.lookup k = some x.obj) (hx : x.obj < m.objs.length)
    (hh0 : (m.obj x.obj).dir = false → h0 = x.h) : HRel m' (hs ++ [(some k, h0)]) := by
  have hlk : ∀ k, m'.lookup k = m.lookup k := fun k => by unfold lookup; rw [hd]
  have hob : ∀ j, m'.obj j = m.obj j := fun j => by unfold obj; rw [ho]
  have hcase : ∀ i mh, m'.handles[i]? = some mh →
      (i < m.handles.length ∧ m.handles[i]? = some mh ∧ (hs ++ [(some k, h0)])[i]? = hs[i]?) ∨
      (i = m.handles.length ∧ mh = x ∧ (hs ++ [(some k, h0)])[i]? = some (some k, h0)) := by
    intro i mh h
    rw [hh] at h
    by_cases hi : i < m.handles.length
    · left
      rw [List.getElem?_append_left hi] at h
      exact ⟨hi, h, List.getElem?_append_left (by rw [hr.len]; exact hi)⟩
    · right
      rw [List.getElem?_append_right (Nat.le_of_not_lt hi)] at h
      have hi0 : i - m.handles.length = 0 := by
        cases hn : i - m.handles.length with
        | zero => rfl
        | succ n => rw [hn] at h; simp at h
      rw [hi0] at h
      have hie : i = m.handles.length := by omega
      refine ⟨hie, by simpa using h.symm, ?_⟩
      rw [List.getElem?_append_right (by rw [hr.len]; omega), hr.len, hie]
      simp
  refine ⟨by rw [List.length_append, hh, List.length_append, hr.len]; rfl, ?_, ?_, ?_⟩
  · intro i mh h
    rw [ho]
    rcases hcase i mh h with ⟨_, a, _⟩ | ⟨_, a, _⟩
    · exact hr.inr i mh a
    · rw [a]; exact hx
  · intro i mh k1 h1 h h2
    rw [hlk, hob]
    rcases hcase i mh h with ⟨_, a, b⟩ | ⟨_, a, b⟩
    · rw [b] at h2; exact hr.linked i mh k1 h1 a h2
    · rw [b] at h2
      injection h2 with h2; injection h2 with e1 e2; injection e1 with e1
      rw [← e1, ← e2, a]; exact ⟨hl, hh0⟩
  · intro i mh h1 h h2 k1
    rw [hlk]
    rcases hcase i mh h with ⟨_, a, b⟩ | ⟨_, a, b⟩
    · rw [b] at h2; exact hr.unlinked i mh h1 a h2 k1
    · rw [b] at h2
      injection h2 with h2; injection h2 with e1 e2; cases e1

/-! ### how each Fs-level call moves names -/

theorem dir_of_nodeOf (d d' : FData) (h : nodeOf d' = nodeOf d) : d'.dir = d.dir := by
  unfold nodeOf at h
  cases h1 : d'.dir <;> cases h2 : d.dir <;> rw [h1, h2] at h <;> first | rfl | (simp at h)

theorem moves_of_lookup_eq (m m' : MemFs) (hlen : m.objs.length ≤ m'.objs.length)
    (hl : ∀ k, m'.lookup k = m.lookup k) (hk : ∀ o, o < m.objs.length → (m'.obj o).dir = (m.obj o).dir) :
    Moves m m' some := by
  refine ⟨hlen, fun k' o _ => ?_, hk⟩
  rw [hl]
  constructor
  · intro h; exact ⟨k', h, rfl⟩
  · rintro ⟨k, h, e⟩; injection e with e; rw [← e]; exact h

theorem moves_refl (m : MemFs) : Moves m m some :=
  moves_of_lookup_eq m m (Nat.le_refl _) (fun _ => rfl) (fun _ _ => rfl)

/-- a new name for a new object -/
theorem moves_new (m m' : MemFs) (k : Key) (n : Nat) (hn : m.objs.length ≤ n) (hlen : m.objs.length ≤ m'.objs.length)
    (hl : ∀ k', m'.lookup k' = if k' = k then some n else m.lookup k') (hnew : m.lookup k = none)
    (hk : ∀ o, o < m.objs.length → (m'.obj o).dir = (m.obj o).dir) : Moves m m' some := by
  refine ⟨hlen, fun k' o ho => ?_, hk⟩
  rw [hl]
  constructor
  · intro h
    by_cases c : k' = k
    · rw [if_pos c] at h; injection h with h; omega
    · rw [if_neg c] at h; exact ⟨k', h, rfl⟩
  · rintro ⟨k0, h, e⟩
    injection e with e
    rw [← e]
    have c : k0 ≠ k := by intro c; rw [c, hnew] at h; cases h
    rw [if_neg c]; exact h

/-- the names with the property `P` are gone, the others stay -/
theorem moves_filter (m m' : MemFs) (P : Key → Prop) [DecidablePred P] (hlen : m.objs.length ≤ m'.objs.length)
    (hl : ∀ k', m'.lookup k' = if P k' then none else m.lookup k')
    (hk : ∀ o, o < m.objs.length → (m'.obj o).dir = (m.obj o).dir) :
    Moves m m' (fun k => if P k then none else some k) := by
  refine ⟨hlen, fun k' o _ => ?_, hk⟩
  rw [hl]
  constructor
  · intro h
    by_cases c : P k'
    · rw [if_pos c] at h; cases h
    · rw [if_neg c] at h; exact ⟨k', h, by rw [if_neg c]⟩
  · rintro ⟨k0, h, e⟩
    by_cases c : P k0
    · rw [if_pos c] at e; cases e
    · rw [if_neg c] at e; injection e with e
      rw [← e, if_neg c]; exact h

theorem moves_handles (m m' : MemFs) (mv : Key → Option Key) (hs : List MHandle) (M : Moves m m' mv) :
    Moves m { m' with handles := hs } mv := ⟨M.len, M.lk, M.kind⟩

theorem kind_setObj (m : MemFs) (i : Nat) (d : FData) (hd : d.dir = (m.obj i).dir) (o : Nat) :
    ((m.setObj i d).obj o).dir = (m.obj o).dir := by
  rcases obj_setObj_cases m i d o with e | ⟨e, hj, _⟩
  · rw [e]
  · rw [e, hj]; exact hd

theorem moves_setObj (m : MemFs) (i : Nat) (d : FData) (hd : d.dir = (m.obj i).dir) : Moves m (m.setObj i d) some :=
  moves_of_lookup_eq m _ (by rw [length_setObj]; exact Nat.le_refl _) (fun _ => rfl) (fun o _ => kind_setObj m i d hd o)

theorem moves_create (m : MemFs) (hc : Consistent m) (k : Key)
    (hw : (∃ f, m.lookup k = some f ∧ (m.obj f).dir = false) ∨ (m.lookup k = none ∧ ParentDir m k)) :
    Moves m (m.create k).1 some ∧ (m.create k).1.lookup k = some (m.create k).2 ∧
      (m.create k).2 < (m.create k).1.objs.length ∧ ((m.create k).1.obj (m.create k).2).dir = false := by
  rcases hw with ⟨f, hl, hd⟩ | ⟨hnew, p, pd, hp, hpd⟩
  · have e : m.create k = (m.setObj f { m.obj f with data := [], mtime := m.now }, f) := by
      unfold create
      simp only [hl, hd, Bool.false_eq_true, if_false]
    rw [e]
    have hfr := hc.inRange _ _ hl
    refine ⟨moves_setObj m f _ rfl, hl, by rw [length_setObj]; exact hfr, ?_⟩
    show ((m.setObj f { m.obj f with data := [], mtime := m.now }).obj f).dir = false
    rw [obj_setObj_self _ _ _ hfr]; exact hd
  · have hpr := hc.inRange _ _ hp
    have hpk : parentKey k ≠ k := by intro e; rw [e, hnew] at hp; cases hp
    rw [create_new_eq_attach m k p pd hnew hp hpd hpk hpr]
    refine ⟨?_, by show (m.attach k (m.newFile k) p).lookup k = _; rw [lookup_attach, if_pos rfl],
      by show m.objs.length < (m.attach k (m.newFile k) p).objs.length; rw [length_attach]; exact Nat.lt_succ_self _, ?_⟩
    · refine moves_new m _ k m.objs.length (Nat.le_refl _) (by rw [length_attach]; exact Nat.le_succ _)
        (fun k' => lookup_attach m k k' _ p) hnew (fun o ho => ?_)
      exact dir_of_nodeOf _ _ (nodeOf_attach_old m k _ p o ho)
    · show ((m.attach k (m.newFile k) p).obj m.objs.length).dir = false
      rw [obj_attach_new m k _ p hpr]; rfl

theorem moves_mkdir (m : MemFs) (hc : Consistent m) (k : Key) (perm : Nat)
    (hw : (m.lookup k).isSome = true ∨ ParentDir m k) : Moves m (m.mkdir k perm).1 some := by
  cases hl : m.lookup k with
  | some f =>
    have e : m.mkdir k perm = (m, .err .exist) := by unfold mkdir; simp only [hl]
    rw [e]; exact moves_refl m
  | none =>
    rcases hw with h | ⟨p, pd, hp, hpd⟩
    · rw [hl] at h; cases h
    · have hpr := hc.inRange _ _ hp
      rw [mkdir_eq m k perm p pd hl hp hpd hpr]
      refine moves_new m _ k m.objs.length (Nat.le_refl _) ?_ ?_ hl ?_
      · show m.objs.length ≤ ((m.attach k _ p).setObj _ _).objs.length
        rw [length_setObj, length_attach]; exact Nat.le_succ _
      · intro k'
        show ((m.attach k _ p).setObj _ _).lookup k' = _
        rw [lookup_setObj, lookup_attach]
      · intro o ho
        show (((m.attach k _ p).setObj m.objs.length _).obj o).dir = _
        rw [obj_setObj_ne _ _ _ _ (Nat.ne_of_lt ho)]
        exact dir_of_nodeOf _ _ (nodeOf_attach_old m k _ p o ho)

theorem moves_remove (m : MemFs) (hc : Consistent m) (a : Key)
    (hw : m.lookup a = none ∨ (a ≠ rootKey ∧ ∃ f, m.lookup a = some f ∧ Leaf m f)) :
    Moves m (m.remove a).1 (fun k => if k = a then none else some k) := by
  rcases hw with h | ⟨hroot, f, hl, _⟩
  · have e : m.remove a = (m, .err .notexist) := by unfold remove; simp [h]
    rw [e]
    refine moves_filter m m (· = a) (Nat.le_refl _) (fun k' => ?_) (fun _ _ => rfl)
    by_cases c : k' = a
    · rw [if_pos c, c, h]
    · rw [if_neg c]
  · obtain ⟨p, pd, h1, _, _⟩ := hc.hasParent a f hl hroot
    rw [remove_leaf_eq_detach m hc a f p hl h1]
    refine moves_filter m _ (· = a) ?_ (fun k' => lookup_detach m a k' p) (fun o _ => ?_)
    · show m.objs.length ≤ (m.setObj p _).objs.length
      rw [length_setObj]; exact Nat.le_refl _
    · exact (obj_setObj_memDir m p _ o).2.1

theorem moves_removeAll (m : MemFs) (hc : Consistent m) (c : Key) (hcs : c.segs ≠ []) :
    Moves m (m.removeAll c).1 (fun k => if k = c ∨ isUnder c k = true then none else some k) := by
  have hroot : c ≠ rootKey := by intro e; rw [e] at hcs; exact hcs rfl
  cases hl : m.lookup c with
  | some f =>
    obtain ⟨p, pd, h1, _, _⟩ := hc.hasParent c f hl hroot
    rw [removeAll_eq_prune m hc c f p hl h1]
    refine moves_filter m _ (fun k => k = c ∨ isUnder c k = true) ?_ (fun k' => lookup_prune m c k' p) (fun o _ => ?_)
    · show m.objs.length ≤ (m.setObj p _).objs.length
      rw [length_setObj]; exact Nat.le_refl _
    · exact (obj_setObj_memDir m p _ o).2.1
  | none =>
    have e : m.removeAll c = ({ m with data := m.data.filter fun e => ¬ (e.1 = c ∨ isUnder c e.1) }, .ok) := by
      unfold removeAll unRegisterWithParent
      simp only [hl]
    rw [e]
    exact moves_filter m _ (fun k => k = c ∨ isUnder c k = true) (Nat.le_refl _) (fun k' => lookup_prune m c k' 0)
      (fun _ _ => rfl)

/-- only what `mv` says about existing names matters -/
theorem moves_mv_congr (m m' : MemFs) (mv mv' : Key → Option Key) (M : Moves m m' mv)
    (h : ∀ k o, m.lookup k = some o → mv' k = mv k) : Moves m m' mv' := by
  refine ⟨M.len, fun k' o ho => ?_, M.kind⟩
  rw [M.lk k' o ho]
  constructor
  · rintro ⟨k, a, b⟩; exact ⟨k, a, by rw [h k o a]; exact b⟩
  · rintro ⟨k, a, b⟩; exact ⟨k, a, by rw [← h k o a]; exact b⟩

theorem moves_rename (m : MemFs) (hc : Consistent m) (hk : KeysNodup m) (ho : ObjsOK m) (a b : Key)
    (hna : normKey a = a) (hnb : normKey b = b)
    (hw : m.lookup a = none ∨ a = b ∨ RenameLeaf m a b ∨ RenameSubtree m a b) :
    Moves m (m.rename a b).1 (mvRename (view m) a b) := by
  by_cases hab : a = b
  · rw [← hab, rename_noop]
    refine moves_mv_congr m m some _ (moves_refl m) (fun k o _ => ?_)
    unfold mvRename; rw [if_pos (Or.inr rfl)]
  · rcases hw with h | h | h | h
    · have e : m.rename a b = (m, .err .notexist) := by unfold rename; simp [h]
      rw [e]
      refine moves_mv_congr m m some _ (moves_refl m) (fun k o _ => ?_)
      unfold mvRename; rw [if_pos (Or.inl (by rw [view_none m a h]; rfl))]
    · exact absurd h hab
    · -- a file or an empty directory
      have hnode := rename_leaf_node m hc a b h
      have hL := rename_leaf_lookup m hc a b h hab
      obtain ⟨f, hl, hleaf, hold, _, _, _, _, htarget, hn⟩ := h
      have hua : ∀ x g, m.lookup x = some g → isUnder a x = false :=
        fun x g hx => leaf_no_under m hc a f hn hl hleaf _ x g rfl hx
      have hub : ∀ x g, m.lookup x = some g → isUnder b x = false := by
        intro x g hx
        cases hu : isUnder b x with
        | false => rfl
        | true =>
          rcases htarget with hb | ⟨t, ht, htl⟩
          · have := ancestor_exists m hc b hnb _ x g rfl hx hu
            rw [hb] at this; cases this
          · rw [leaf_no_under m hc b t hnb ht htl _ x g rfl hx] at hu; cases hu
      have hcond : ¬ ((view m a).isNone = true ∨ a = b) := by
        intro e; rcases e with e | e
        · rw [view_some m a f hl] at e; cases e
        · exact hab e
      refine ⟨(keep_rename m a b).len, fun k' o _ => ?_, fun o _ => dir_of_nodeOf _ _ (hnode o)⟩
      rw [hL k']
      constructor
      · intro hh
        by_cases c1 : k' = b
        · rw [if_pos c1] at hh
          refine ⟨a, hh, ?_⟩
          unfold mvRename; rw [if_neg hcond, if_pos rfl, c1]
        · rw [if_neg c1] at hh
          by_cases c2 : k' = a
          · rw [if_pos c2] at hh; cases hh
          · rw [if_neg c2] at hh
            refine ⟨k', hh, ?_⟩
            unfold mvRename
            rw [if_neg hcond, if_neg c2, if_neg (by rw [hua k' o hh]; exact Bool.false_ne_true),
              if_neg (fun e => e.elim c1 (fun e => by rw [hub k' o hh] at e; cases e))]
      · rintro ⟨k, hkl, hmv⟩
        unfold mvRename at hmv
        rw [if_neg hcond] at hmv
        by_cases c1 : k = a
        · rw [if_pos c1] at hmv; injection hmv with hmv
          rw [← hmv, if_pos rfl, ← c1]; exact hkl
        · rw [if_neg c1, if_neg (by rw [hua k o hkl]; exact Bool.false_ne_true)] at hmv
          by_cases c2 : k = b ∨ isUnder b k = true
          · rw [if_pos c2] at hmv; cases hmv
          · rw [if_neg c2] at hmv; injection hmv with hmv
            rw [← hmv, if_neg (fun e => c2 (Or.inl e)), if_neg c1]; exact hkl
    · -- a directory with its subtree
      have hcond : ¬ ((view m a).isNone = true ∨ a = b) := by
        obtain ⟨f, hl, _⟩ := h
        intro e; rcases e with e | e
        · rw [view_some m a f hl] at e; cases e
        · exact hab e
      obtain ⟨f, hl, ha, hb, hfree, hnu, p', pd', hp', hpd'⟩ := h
      have holdr : a ≠ rootKey := fun e => ha (by rw [e]; rfl)
      obtain ⟨p, _, hp, _, _⟩ := hc.hasParent a f hl holdr
      have X : RenCtx m a b f p p' := ⟨hc, hl, hna, hnb, ha, hb, hfree, hnu, hp, hp', by rw [hpd']; rfl⟩
      obtain ⟨_, M⟩ := rename_dir_moved m a b f p p' X hk
      have K := keep_rename m a b
      have ho' := objsOK_rename m a b ho
      refine ⟨K.len, fun k' o _ => ?_, fun o hol => dir_of_nodeOf _ _ (nodeOf_moved m _ a b f p p' ho ho' M K o hol)⟩
      rw [M.lk k']
      constructor
      · intro hh
        by_cases c1 : k' = b
        · rw [if_pos c1] at hh; injection hh with hh
          refine ⟨a, by rw [← hh]; exact hl, ?_⟩
          unfold mvRename; rw [if_neg hcond, if_pos rfl, c1]
        · rw [if_neg c1] at hh
          by_cases c2 : isUnder b k' = true
          · rw [if_pos c2] at hh
            obtain ⟨b1, b2, _⟩ := X.back k' c2
            refine ⟨rePrefix b a k', hh, ?_⟩
            unfold mvRename
            rw [if_neg hcond, if_neg (fun e => by rw [e, not_isUnder_self] at b1; cases b1), if_pos b1, b2]
          · rw [if_neg c2] at hh
            by_cases c3 : k' = a ∨ isUnder a k' = true
            · rw [if_pos c3] at hh; cases hh
            · rw [if_neg c3] at hh
              refine ⟨k', hh, ?_⟩
              unfold mvRename
              rw [if_neg hcond, if_neg (fun e => c3 (Or.inl e)), if_neg (fun e => c3 (Or.inr e)),
                if_neg (fun e => e.elim c1 c2)]
      · rintro ⟨k, hkl, hmv⟩
        unfold mvRename at hmv
        rw [if_neg hcond] at hmv
        by_cases c1 : k = a
        · rw [if_pos c1] at hmv; injection hmv with hmv
          rw [← hmv, if_pos rfl]
          rw [c1, hl] at hkl; exact hkl
        · rw [if_neg c1] at hmv
          by_cases c2 : isUnder a k = true
          · rw [if_pos c2] at hmv; injection hmv with hmv
            obtain ⟨f1, f2, _⟩ := X.fwd k c2
            rw [← hmv, if_neg (fun e => by rw [e, not_isUnder_self] at f1; cases f1), if_pos f1, f2]
            exact hkl
          · rw [if_neg c2] at hmv
            by_cases c3 : k = b ∨ isUnder b k = true
            · rw [if_pos c3] at hmv; cases hmv
            · rw [if_neg c3] at hmv; injection hmv with hmv
              rw [← hmv, if_neg (fun e => c3 (Or.inl e)), if_neg (fun e => c3 (Or.inr e)),
                if_neg (fun e => e.elim c1 c2)]
              exact hkl

theorem moves_congr (m m1 m' : MemFs) (mv : Key → Option Key) (M : Moves m m1 mv)
    (hl : ∀ k, m'.lookup k = m1.lookup k) (hlen : m'.objs.length = m1.objs.length)
    (hk : ∀ o, (m'.obj o).dir = (m1.obj o).dir) : Moves m m' mv := by
  refine ⟨by rw [hlen]; exact M.len, fun k' o ho => ?_, fun o ho => ?_⟩
  · rw [hl]; exact M.lk k' o ho
  · rw [hk]; exact M.kind o ho

/-- what an opening call adds to the handle table: nothing, or one handle bound to the object the name
    leads to afterwards, with the offset and flags the reference computes (if that is a regular file) -/
def OpenedOK (m m' : MemFs) : Option (Key × Handle) → Prop
  | none => m'.handles = m.handles
  | some (k, h0) => ∃ x : MHandle, m'.handles = m.handles ++ [x] ∧ m'.lookup k = some x.obj ∧
      x.obj < m'.objs.length ∧ ((m'.obj x.obj).dir = false → h0 = x.h)

/-- the Fs-level part of the handle relation: names move, an opening call appends its handle -/
theorem hrel_step_fs (m m' : MemFs) (hc : Consistent m) (hs : List (Option Key × Handle)) (mv : Key → Option Key)
    (oo : Option (Key × Handle)) (hr : HRel m hs) (M : Moves m m' mv) (O : OpenedOK m m' oo) :
    HRel m' ((hs.map fun e => (e.1.bind mv, e.2)) ++ oo.toList.map fun e => (some e.1, e.2)) := by
  have hX := hrel_moves m { m' with handles := m.handles } hc hs mv hr (moves_handles m m' mv m.handles M) rfl
  cases oo with
  | none =>
    simp only [Option.toList_none, List.map_nil, List.append_nil]
    exact hrel_congr _ m' _ hX rfl rfl O
  | some e =>
    obtain ⟨k, h0⟩ := e
    obtain ⟨x, h1, h2, h3, h4⟩ := O
    simp only [Option.toList_some, List.map_cons, List.map_nil]
    exact hrel_append { m' with handles := m.handles } m' _ hX rfl rfl x h1 k h0 h2 h3 h4

theorem openFile_existing (m : MemFs) (k : Key) (flag perm f : Nat) (hl : m.lookup k = some f)
    (hx : ¬ flag &&& O_EXCL > 0) :
    m.openFile k flag perm =
      ({ (if flag &&& O_TRUNC > 0 ∧ flag &&& (O_RDWR ||| O_WRONLY) > 0
            then m.setObj f { m.obj f with data := [], mtime := m.now } else m) with
          handles := m.handles ++ [{ obj := f, h := { readOnly := decide (flag &&& (O_WRONLY ||| O_RDWR) = 0),
                                                      pos := if flag &&& O_APPEND > 0 then ((m.obj f).data.length : Int) else 0 } }] },
        .handle m.handles.length none) := by
  unfold openFile
  simp only [hl, Option.isSome_some, true_and, hx, if_false, Bool.false_eq_true]
  by_cases hT : (flag &&& O_TRUNC > 0 ∧ flag &&& (O_RDWR ||| O_WRONLY) > 0)
  · simp only [hT, and_self, if_true]; rfl
  · simp only [hT, if_false]

theorem openFile_create (m : MemFs) (k : Key) (flag perm : Nat) (hl : m.lookup k = none)
    (hC : flag &&& O_CREATE > 0) :
    m.openFile k flag perm =
      let m1 := (m.create k).1
      let f := (m.create k).2
      let X := if flag &&& O_TRUNC > 0 ∧ flag &&& (O_RDWR ||| O_WRONLY) > 0
            then m1.setObj f { m1.obj f with data := [], mtime := m1.now } else m1
      let Y : MemFs := { X with handles := m1.handles ++ [{ obj := f, h := { readOnly := decide (flag &&& (O_WRONLY ||| O_RDWR) = 0),
                                                                             pos := if flag &&& O_APPEND > 0 then ((m1.obj f).data.length : Int) else 0 } }] }
      ((Y.setFileMode k (perm &&& chmodBits)).1, .handle m1.handles.length (Y.setFileMode k (perm &&& chmodBits)).2) := by
  unfold openFile
  simp only [hl, Option.isSome_none, Bool.false_eq_true, false_and, if_false, hC, if_true]
  by_cases hT : (flag &&& O_TRUNC > 0 ∧ flag &&& (O_RDWR ||| O_WRONLY) > 0)
  · simp only [hT, and_self, if_true]; rfl
  · simp only [hT, if_false]

theorem create_new_data (m : MemFs) (hc : Consistent m) (k : Key) (hnew : m.lookup k = none) (hp : ParentDir m k) :
    ((m.create k).1.obj (m.create k).2).data = [] := by
  obtain ⟨p, pd, hp, hpd⟩ := hp
  have hpr := hc.inRange _ _ hp
  have hpk : parentKey k ≠ k := by intro e; rw [e, hnew] at hp; cases hp
  rw [create_new_eq_attach m k p pd hnew hp hpd hpk hpr]
  show ((m.attach k (m.newFile k) p).obj m.objs.length).data = []
  rw [obj_attach_new m k _ p hpr]; rfl

/-- `OpenFile`: names do not move, and the handle it returns (if it returns one) is the one the reference
    computes -/
theorem openFile_shape (m : MemFs) (hc : Consistent m) (p : Str) (flag perm : Nat)
    (hw : (m.lookup (keyOfStr p)).isSome = true ∨ ¬ flag &&& O_CREATE > 0 ∨ ParentDir m (keyOfStr p)) :
    Moves m (m.openFile (keyOfStr p) flag perm).1 some ∧
      OpenedOK m (m.openFile (keyOfStr p) flag perm).1 (openedOf (view m) (.openFile p flag perm)) := by
  cases hl : m.lookup (keyOfStr p) with
  | some f =>
    have hfr := hc.inRange _ _ hl
    have hvs : (view m (keyOfStr p)).isSome = true := by rw [view_some m _ f hl]; rfl
    by_cases hx : flag &&& O_EXCL > 0
    · have e : m.openFile (keyOfStr p) flag perm = (m, .err .exist) := by unfold openFile; simp [hl, hx]
      rw [e]
      refine ⟨moves_refl m, ?_⟩
      simp only [openedOf]; rw [if_pos hvs, if_pos hx]; rfl
    · rw [openFile_existing m _ flag perm f hl hx]
      have hM : Moves m (if flag &&& O_TRUNC > 0 ∧ flag &&& (O_RDWR ||| O_WRONLY) > 0
            then m.setObj f { m.obj f with data := [], mtime := m.now } else m) some := by
        split
        · exact moves_setObj m f _ rfl
        · exact moves_refl m
      refine ⟨moves_handles m _ some _ hM, ?_⟩
      simp only [openedOf]; rw [if_pos hvs, if_neg hx]
      refine ⟨_, rfl, ?_, ?_, ?_⟩
      · show (if flag &&& O_TRUNC > 0 ∧ flag &&& (O_RDWR ||| O_WRONLY) > 0
            then m.setObj f { m.obj f with data := [], mtime := m.now } else m).lookup (keyOfStr p) = some f
        split <;> exact hl
      · show f < (if flag &&& O_TRUNC > 0 ∧ flag &&& (O_RDWR ||| O_WRONLY) > 0
            then m.setObj f { m.obj f with data := [], mtime := m.now } else m).objs.length
        split
        · rw [length_setObj]; exact hfr
        · exact hfr
      · intro hd
        have hd' : (m.obj f).dir = false := by
          rw [← hM.kind f hfr]; exact hd
        have : endOf (view m (keyOfStr p)) = ((m.obj f).data.length : Int) := by
          rw [view_some m _ f hl, nodeOf_file _ hd']; rfl
        simp only [this]
  | none =>
    have hvn : (view m (keyOfStr p)).isSome = false := by rw [view_none m _ hl]; rfl
    by_cases hC : flag &&& O_CREATE > 0
    · rcases hw with h | h | hp
      · rw [hl] at h; cases h
      · exact absurd hC h
      · obtain ⟨M1, l1, r1, d1⟩ := moves_create m hc (keyOfStr p) (Or.inr ⟨hl, hp⟩)
        have hdata := create_new_data m hc (keyOfStr p) hl hp
        have hh1 := handles_create m (keyOfStr p)
        rw [openFile_create m _ flag perm hl hC]
        generalize hm1 : (m.create (keyOfStr p)).1 = m1 at M1 l1 r1 d1 hdata hh1
        generalize hf1 : (m.create (keyOfStr p)).2 = f at l1 r1 d1 hdata
        simp only
        -- the state before the trailing chmod
        have hXl : ∀ k, (if flag &&& O_TRUNC > 0 ∧ flag &&& (O_RDWR ||| O_WRONLY) > 0
            then m1.setObj f { m1.obj f with data := [], mtime := m1.now } else m1).lookup k = m1.lookup k := by
          intro k; split <;> rfl
        have hXlen : (if flag &&& O_TRUNC > 0 ∧ flag &&& (O_RDWR ||| O_WRONLY) > 0
            then m1.setObj f { m1.obj f with data := [], mtime := m1.now } else m1).objs.length = m1.objs.length := by
          split
          · exact length_setObj _ _ _
          · rfl
        have hXk : ∀ o, ((if flag &&& O_TRUNC > 0 ∧ flag &&& (O_RDWR ||| O_WRONLY) > 0
            then m1.setObj f { m1.obj f with data := [], mtime := m1.now } else m1).obj o).dir = (m1.obj o).dir := by
          intro o; split
          · exact kind_setObj m1 f _ (by rfl) o
          · rfl
        generalize (if flag &&& O_TRUNC > 0 ∧ flag &&& (O_RDWR ||| O_WRONLY) > 0
            then m1.setObj f { m1.obj f with data := [], mtime := m1.now } else m1) = X at hXl hXlen hXk
        rw [setFileMode_found _ (keyOfStr p) _ f (by show X.lookup (keyOfStr p) = some f; rw [hXl]; exact l1)]
        refine ⟨moves_congr m m1 _ some M1 (fun k => hXl k) ((length_setObj _ _ _).trans hXlen)
          (fun o => (kind_setObj _ f _ (by rfl) o).trans (hXk o)), ?_⟩
        simp only [openedOf]; rw [if_neg (show ¬ (view m (keyOfStr p)).isSome = true by rw [hvn]; exact Bool.false_ne_true), if_pos hC]
        refine ⟨_, by rw [← hh1]; rfl, ?_, ?_, ?_⟩
        · show X.lookup (keyOfStr p) = some f
          rw [hXl]; exact l1
        · show f < (X.setObj f _).objs.length
          rw [length_setObj, hXlen]; exact r1
        · intro _
          simp only [hdata, List.length_nil, Int.natCast_zero, ite_self]
    · have e : m.openFile (keyOfStr p) flag perm = (m, .err .notexist) := by unfold openFile; simp [hl, hC]
      rw [e]
      refine ⟨moves_refl m, ?_⟩
      simp only [openedOf]; rw [if_neg (show ¬ (view m (keyOfStr p)).isSome = true by rw [hvn]; exact Bool.false_ne_true), if_neg hC]; rfl

/-- **every Fs-level call that meets the preconditions moves the names as `mvOf` says and adds the handle
    `openedOf` says** -/
theorem fs_step_shape (m : MemFs) (hc : Consistent m) (hk : KeysNodup m) (ho : ObjsOK m) (op : Op)
    (hw : WFop' m op) (hnh : op.handle? = none) :
    Moves m (m.step op).1 (mvOf (view m) op) ∧ OpenedOK m (m.step op).1 (openedOf (view m) op) := by
  cases op <;> try (cases hnh)
  case create p =>
    obtain ⟨M1, l1, r1, d1⟩ := moves_create m hc (keyOfStr p) hw
    have hh1 := handles_create m (keyOfStr p)
    simp only [step]
    generalize (m.create (keyOfStr p)) = C at M1 l1 r1 d1 hh1
    obtain ⟨m1, f⟩ := C
    simp only at M1 l1 r1 d1 hh1
    refine ⟨moves_handles m m1 some _ M1, ?_⟩
    simp only [openedOf]
    exact ⟨{ obj := f, h := { readOnly := false } }, by simp only [addHandle, hh1], l1, r1, fun _ => rfl⟩
  case mkdir p perm => exact ⟨moves_mkdir m hc _ perm hw, handles_mkdir m _ perm⟩
  case mkdirAll p perm =>
    refine ⟨?_, handles_mkdirAll m _ perm⟩
    show Moves m (m.mkdirAll (keyOfStr p) perm).1 some
    rw [mkdirAll_fst]; exact moves_mkdir m hc _ perm hw
  case open_ p =>
    simp only [step, openRO, openedOf]
    cases hl : m.lookup (keyOfStr p) with
    | none =>
      simp only [view_none m _ hl, Option.isSome_none, Bool.false_eq_true, if_false]
      exact ⟨moves_refl m, rfl⟩
    | some f =>
      simp only [view_some m _ f hl, Option.isSome_some, if_true]
      exact ⟨moves_handles m m some _ (moves_refl m),
        { obj := f, h := { readOnly := true } }, rfl, hl, hc.inRange _ _ hl, fun _ => rfl⟩
  case openFile p flag perm => exact openFile_shape m hc p flag perm hw
  case remove p => exact ⟨moves_remove m hc _ hw, handles_remove m _⟩
  case removeAll p => exact ⟨moves_removeAll m hc _ hw, handles_removeAll m _⟩
  case rename a b =>
    exact ⟨moves_rename m hc hk ho _ _ (normKey_keyOfStr a) (normKey_keyOfStr b) hw, handles_rename m _ _⟩
  case stat p => exact ⟨moves_refl m, rfl⟩
  case chmod p mode =>
    show Moves m (m.chmod (keyOfStr p) mode).1 some ∧ (m.chmod (keyOfStr p) mode).1.handles = m.handles
    cases hl : m.lookup (keyOfStr p) with
    | none =>
      have e : m.chmod (keyOfStr p) mode = (m, .err .notexist) := by unfold chmod; simp [hl]
      rw [e]; exact ⟨moves_refl m, rfl⟩
    | some f =>
      have e : m.chmod (keyOfStr p) mode = (m.setObj f { m.obj f with
          mode := ((m.obj f).mode - ((m.obj f).mode &&& chmodBits)) ||| (mode &&& chmodBits) }, .ok) := by
        unfold chmod
        simp only [hl]
        rw [setFileMode_found m _ _ f hl]
      rw [e]; exact ⟨moves_setObj m f _ rfl, rfl⟩
  case chown p u g =>
    show Moves m (m.chown (keyOfStr p) u g).1 some ∧ (m.chown (keyOfStr p) u g).1.handles = m.handles
    unfold chown
    split
    · exact ⟨moves_refl m, rfl⟩
    · rename_i f _; exact ⟨moves_setObj m f _ rfl, rfl⟩
  case chtimes p t =>
    show Moves m (m.chtimes (keyOfStr p) t).1 some ∧ (m.chtimes (keyOfStr p) t).1.handles = m.handles
    unfold chtimes
    split
    · exact ⟨moves_refl m, rfl⟩
    · rename_i f _; exact ⟨moves_setObj m f _ rfl, rfl⟩

/-! ### calls through handles -/

/-- handle `i` is replaced by a handle on the same object, its entry by one that describes it; objects keep
    their kind, the path map stays -/
theorem hrel_set (m m' : MemFs) (hs : List (Option Key × Handle)) (hr : HRel m hs) (hdata : m'.data = m.data)
    (hlen : m'.objs.length = m.objs.length) (hkind : ∀ j, (m'.obj j).dir = (m.obj j).dir)
    (i : Nat) (mh mh' : MHandle) (hm : m.handles[i]? = some mh) (hobj : mh'.obj = mh.obj)
    (hh : m'.handles = m.handles.set i mh') (e' : Option Key × Handle)
    (he1 : ∀ k h, e' = (some k, h) → m.lookup k = some mh.obj ∧ ((m.obj mh.obj).dir = false → h = mh'.h))
    (he2 : ∀ h, e' = (none, h) → ∀ k, m.lookup k ≠ some mh.obj) :
    HRel m' (hs.set i e') := by
  have hlk : ∀ k, m'.lookup k = m.lookup k := fun k => by unfold lookup; rw [hdata]
  have hil : i < m.handles.length := (List.getElem?_eq_some_iff.1 hm).1
  have hcase : ∀ j x, m'.handles[j]? = some x →
      (j = i ∧ x = mh' ∧ (hs.set i e')[j]? = some e') ∨ (j ≠ i ∧ m.handles[j]? = some x ∧ (hs.set i e')[j]? = hs[j]?) := by
    intro j x hx
    rw [hh] at hx
    by_cases c : j = i
    · left
      rw [c, List.getElem?_set_self hil] at hx
      injection hx with hx
      exact ⟨c, hx.symm, by rw [c]; exact List.getElem?_set_self (by rw [hr.len]; exact hil)⟩
    · right
      rw [List.getElem?_set_ne (fun e => c e.symm)] at hx
      exact ⟨c, hx, List.getElem?_set_ne (fun e => c e.symm)⟩
  refine ⟨by rw [List.length_set, hh, List.length_set]; exact hr.len, ?_, ?_, ?_⟩
  · intro j x hx
    rw [hlen]
    rcases hcase j x hx with ⟨_, a, _⟩ | ⟨_, a, _⟩
    · rw [a, hobj]; exact hr.inr i mh hm
    · exact hr.inr j x a
  · intro j x k h hx h2
    rw [hlk, hkind]
    rcases hcase j x hx with ⟨_, a, b⟩ | ⟨_, a, b⟩
    · rw [b] at h2; injection h2 with h2
      rw [a, hobj]; exact he1 k h h2
    · rw [b] at h2; exact hr.linked j x k h a h2
  · intro j x h hx h2 k
    rw [hlk]
    rcases hcase j x hx with ⟨_, a, b⟩ | ⟨_, a, b⟩
    · rw [b] at h2; injection h2 with h2
      rw [a, hobj]; exact he2 h h2 k
    · rw [b] at h2; exact hr.unlinked j x h a h2 k

/-- the code of the handle methods on one handle, as C02's flat specification on the one-handle state -/
theorem flat1_io (d : Bytes) (h : Handle) (hp : 0 ≤ h.pos) :
    (∀ n, (stepS ⟨d, [h]⟩ (.read 0 n)).1 = ⟨d, [(readC d h n).1]⟩) ∧
    (∀ n off, (stepS ⟨d, [h]⟩ (.readAt 0 n off)).1 = ⟨d, [(readAtC d h n off).1]⟩) ∧
    (∀ b, (stepS ⟨d, [h]⟩ (.write 0 b)).1 = ⟨(writeC d h b).1, [(writeC d h b).2.1]⟩) ∧
    (∀ b off, (stepS ⟨d, [h]⟩ (.writeAt 0 b off)).1 = ⟨(writeAtC d h b off).1, [(writeAtC d h b off).2.1]⟩) ∧
    (∀ n, (stepS ⟨d, [h]⟩ (.truncate 0 n)).1 = ⟨(truncC d h n).1, [h]⟩) ∧
    (∀ off wh, (stepS ⟨d, [h]⟩ (.seek 0 off wh)).1 = ⟨d, [(seekC d h off wh).1]⟩) ∧
    (stepS ⟨d, [h]⟩ (.close 0)).1 = ⟨d, [{ h with closed := true }]⟩ := by
  have hinv : C02.Inv ⟨d, [h]⟩ := by
    intro x hx
    rw [List.mem_singleton.1 hx]; exact hp
  refine ⟨fun n => ?_, fun n off => ?_, fun b => ?_, fun b off => ?_, fun n => ?_, fun off wh => ?_, ?_⟩ <;>
    (rw [← C02.step_refines _ _ hinv]; rfl)

theorem view_of_fields (m m' : MemFs) (hdata : m'.data = m.data) (hobjs : m'.objs = m.objs) : view m' = view m := by
  funext k
  unfold view lookup obj
  rw [hdata, hobjs]

/-- a call through the handle `i` that rewrites the bytes of the handle's object and the handle's offset
    and flags as the flat specification says, and nothing else, is the reference's step -/
theorem io_refines (m m' : MemFs) (hc : Consistent m) (R : RefH) (hv : view m = R.v) (hr : HRel m R.hs)
    (op : Op) (i : Nat) (hi : op.handle? = some i) (fop : FOp) (hf : fop0 op = some fop)
    (mh : MHandle) (hm : m.handles[i]? = some mh) (D : Bytes) (H' : Handle)
    (hS : (stepS ⟨(m.obj mh.obj).data, [mh.h]⟩ fop).1 = ⟨D, [H']⟩)
    (d' : FData) (hd1 : d'.dir = (m.obj mh.obj).dir) (hd2 : d'.mode = (m.obj mh.obj).mode) (hd3 : d'.data = D)
    (hdata : m'.data = m.data) (hobjs : m'.objs = (m.setObj mh.obj d').objs)
    (hh : m'.handles = m.handles.set i { mh with h := H' }) :
    view m' = (refStepH R op).v ∧ HRel m' (refStepH R op).hs := by
  have hlen : m'.objs.length = m.objs.length := by rw [hobjs]; exact length_setObj _ _ _
  have hkind : ∀ j, (m'.obj j).dir = (m.obj j).dir := by
    intro j
    have : m'.obj j = (m.setObj mh.obj d').obj j := by unfold obj; rw [hobjs]
    rw [this]; exact kind_setObj m mh.obj d' hd1 j
  have hview : view m' = view (m.setObj mh.obj d') := view_of_fields _ _ hdata hobjs
  have hil : i < m.handles.length := (List.getElem?_eq_some_iff.1 hm).1
  have hih : i < R.hs.length := by rw [hr.len]; exact hil
  obtain ⟨e, he⟩ : ∃ e, R.hs[i]? = some e := ⟨R.hs[i], List.getElem?_eq_getElem hih⟩
  obtain ⟨ko, h0⟩ := e
  -- when the reference leaves its state alone
  have hsame : (∀ k', view (m.setObj mh.obj d') k' = view m k') →
      (∀ k, ko = some k → (m.obj mh.obj).dir = true) → view m' = R.v ∧ HRel m' R.hs := by
    intro h1 h2
    refine ⟨by rw [hview, ← hv]; exact funext h1, ?_⟩
    have := hrel_set m m' R.hs hr hdata hlen hkind i mh { mh with h := H' } hm rfl hh (ko, h0) ?_ ?_
    · rw [list_set_same _ _ _ he] at this; exact this
    · intro k h e
      injection e with e1 e2
      obtain ⟨a, _⟩ := hr.linked i mh k h0 hm (by rw [he, e1])
      refine ⟨a, fun hd => ?_⟩
      rw [h2 k e1] at hd; cases hd
    · intro h e k
      injection e with e1 e2
      exact hr.unlinked i mh h0 hm (by rw [he, e1]) k
  cases ko with
  | none =>
    have hun := hr.unlinked i mh h0 hm he
    have : refStepH R op = R := by simp only [refStepH, hi, hf, he]
    rw [this]
    exact hsame (fun k' => view_setObj_unlinked m mh.obj d' hun k') (fun k e => by cases e)
  | some k =>
    obtain ⟨hl, hb⟩ := hr.linked i mh k h0 hm he
    have hvk : R.v k = some (nodeOf (m.obj mh.obj)) := by rw [← hv]; exact view_some m k _ hl
    cases hdir : (m.obj mh.obj).dir with
    | true =>
      rw [nodeOf_dir _ hdir] at hvk
      have : refStepH R op = R := by simp only [refStepH, hi, hf, he, hvk]
      rw [this]
      refine hsame (fun k' => ?_) (fun _ _ => hdir)
      refine view_congr m _ k' k' (lookup_setObj _ _ _ _) (fun g _ => ?_)
      refine nodeOf_setObj m mh.obj d' ?_ g
      rw [nodeOf_dir _ hdir, nodeOf_dir _ (by rw [hd1]; exact hdir), hd2]
    | false =>
      rw [nodeOf_file _ hdir] at hvk
      have hh0 : h0 = mh.h := hb hdir
      have : refStepH R op =
          { v := fun k' => if k' = k then some (.file D (m.obj mh.obj).mode) else R.v k',
            hs := R.hs.set i (some k, H') } := by
        simp only [refStepH, hi, hf, he, hvk, hh0, hS, List.headD_cons]
      rw [this]
      refine ⟨?_, ?_⟩
      · funext k'
        show view m' k' = if k' = k then some (.file D (m.obj mh.obj).mode) else R.v k'
        rw [hview, view_setObj_bytes m hc mh.obj d' (by rw [hd1]; exact hdir) k', hd3, hd2, ← hv]
        by_cases c : k' = k
        · rw [if_pos c, if_pos (by rw [c]; exact hl)]
        · rw [if_neg c, if_neg (fun e => c (hc.inj _ _ _ e hl))]
      · refine hrel_set m m' R.hs hr hdata hlen hkind i mh { mh with h := H' } hm rfl hh (some k, H') ?_ ?_
        · intro k1 h1 e
          injection e with e1 e2
          injection e1 with e1
          rw [← e1, ← e2]; exact ⟨hl, fun _ => rfl⟩
        · intro h e; injection e with e1 _; cases e1

/-! ### no call makes an offset negative -/

theorem posOK_eq (m m' : MemFs) (hp : PosOK m) (hh : m'.handles = m.handles) : PosOK m' := by
  intro x hx; rw [hh] at hx; exact hp x hx

theorem posOK_append (m m' : MemFs) (hp : PosOK m) (x : MHandle) (hh : m'.handles = m.handles ++ [x])
    (hx : 0 ≤ x.h.pos) : PosOK m' := by
  intro y hy
  rw [hh] at hy
  rcases List.mem_append.1 hy with h | h
  · exact hp y h
  · rw [List.mem_singleton.1 h]; exact hx

theorem posOK_set (m m' : MemFs) (hp : PosOK m) (i : Nat) (x : MHandle) (hh : m'.handles = m.handles.set i x)
    (hx : 0 ≤ x.h.pos) : PosOK m' := by
  intro y hy
  rw [hh] at hy
  rcases List.mem_or_eq_of_mem_set hy with h | h
  · exact hp y h
  · rw [h]; exact hx

theorem handles_openFile (m : MemFs) (k : Key) (flag perm : Nat) :
    (m.openFile k flag perm).1.handles = m.handles ∨
      ∃ x : MHandle, (m.openFile k flag perm).1.handles = m.handles ++ [x] ∧ 0 ≤ x.h.pos := by
  cases hl : m.lookup k with
  | some f =>
    by_cases hx : flag &&& O_EXCL > 0
    · left
      have e : m.openFile k flag perm = (m, .err .exist) := by unfold openFile; simp [hl, hx]
      rw [e]
    · right
      rw [openFile_existing m k flag perm f hl hx]
      refine ⟨_, rfl, ?_⟩
      show (0 : Int) ≤ if flag &&& O_APPEND > 0 then ((m.obj f).data.length : Int) else 0
      split
      · exact Int.natCast_nonneg _
      · exact Int.le_refl _
  | none =>
    by_cases hC : flag &&& O_CREATE > 0
    · right
      rw [openFile_create m k flag perm hl hC]
      simp only
      rw [handles_setFileMode]
      refine ⟨_, by rw [handles_create], ?_⟩
      show (0 : Int) ≤ if flag &&& O_APPEND > 0 then (((m.create k).1.obj (m.create k).2).data.length : Int) else 0
      split
      · exact Int.natCast_nonneg _
      · exact Int.le_refl _
    · left
      have e : m.openFile k flag perm = (m, .err .notexist) := by unfold openFile; simp [hl, hC]
      rw [e]

theorem posOK_fileIO (m : MemFs) (hp : PosOK m) (hi : Nat) (f : Bytes → Handle → Bytes × Handle × FOut) (t : Bool)
    (hf : ∀ d h, 0 ≤ h.pos → 0 ≤ (f d h).2.1.pos) : PosOK (m.fileIO hi f t).1 := by
  cases hm : m.handles[hi]? with
  | none =>
    have : m.fileIO hi f t = (m, .err .inval) := by unfold fileIO; rw [hm]
    rw [this]; exact hp
  | some mh =>
    rw [fileIO_some m hi mh hm]
    exact posOK_set m _ hp hi _ rfl (hf _ _ (hp mh (List.mem_of_getElem? hm)))

theorem posOK_readdir (m : MemFs) (hp : PosOK m) (hi : Nat) (n : Int) : PosOK (m.readdir hi n).1 := by
  unfold readdir
  cases hm : m.handles[hi]? with
  | none => exact hp
  | some mh =>
    simp only
    split
    · exact hp
    · exact posOK_set m _ hp hi _ rfl (hp mh (List.mem_of_getElem? hm))

/-- **no call of the model makes a handle's offset negative** -/
theorem posOK_step (m : MemFs) (op : Op) (hp : PosOK m) : PosOK (m.step op).1 := by
  have hio := fun d h (hh : 0 ≤ h.pos) => flat1_io d h hh
  have hpos : ∀ d h fop, 0 ≤ h.pos → ∀ x ∈ (stepS ⟨d, [h]⟩ fop).1.hs, 0 ≤ x.pos := by
    intro d h fop hh
    refine C02.stepS_inv ⟨d, [h]⟩ fop ?_
    intro x hx; rw [List.mem_singleton.1 hx]; exact hh
  cases op with
  | create p =>
    simp only [step]
    have hh1 := handles_create m (keyOfStr p)
    generalize (m.create (keyOfStr p)) = C at hh1
    obtain ⟨m1, f⟩ := C
    exact posOK_append m _ hp { obj := f, h := { readOnly := false } } (by simp only [addHandle] at hh1 ⊢; rw [hh1])
      (Int.le_refl _)
  | mkdir p perm => exact posOK_eq m _ hp (handles_mkdir m _ perm)
  | mkdirAll p perm => exact posOK_eq m _ hp (handles_mkdirAll m _ perm)
  | open_ p =>
    simp only [step, openRO]
    split
    · exact hp
    · rename_i f _
      exact posOK_append m _ hp { obj := f, h := { readOnly := true } } rfl (Int.le_refl _)
  | openFile p flag perm =>
    rcases handles_openFile m (keyOfStr p) flag perm with h | ⟨x, h, hx⟩
    · exact posOK_eq m _ hp h
    · exact posOK_append m _ hp x h hx
  | remove p => exact posOK_eq m _ hp (handles_remove m _)
  | removeAll p => exact posOK_eq m _ hp (handles_removeAll m _)
  | rename a b => exact posOK_eq m _ hp (handles_rename m _ _)
  | stat p => exact hp
  | chmod p mode =>
    simp only [step]; unfold chmod; simp only
    split
    · exact hp
    · rename_i f _
      have := handles_setFileMode m (keyOfStr p) (((m.obj f).mode - ((m.obj f).mode &&& chmodBits)) ||| (mode &&& chmodBits))
      split <;> rename_i heq <;> rw [heq] at this <;> exact posOK_eq m _ hp this
  | chown p u g =>
    simp only [step]; unfold chown; split
    · exact hp
    · exact posOK_eq m _ hp rfl
  | chtimes p t =>
    simp only [step]; unfold chtimes; split
    · exact hp
    · exact posOK_eq m _ hp rfl
  | hRead hi n =>
    refine posOK_fileIO m hp hi _ _ (fun d h hh => ?_)
    have := hpos d h (.read 0 n) hh
    rw [(hio d h hh).1 n] at this
    exact this _ List.mem_cons_self
  | hReadAt hi n off =>
    refine posOK_fileIO m hp hi _ _ (fun d h hh => ?_)
    have := hpos d h (.readAt 0 n off) hh
    rw [(hio d h hh).2.1 n off] at this
    exact this _ List.mem_cons_self
  | hWrite hi b =>
    refine posOK_fileIO m hp hi _ _ (fun d h hh => ?_)
    have := hpos d h (.write 0 b) hh
    rw [(hio d h hh).2.2.1 b] at this
    exact this _ List.mem_cons_self
  | hWriteAt hi b off =>
    refine posOK_fileIO m hp hi _ _ (fun d h hh => ?_)
    have := hpos d h (.writeAt 0 b off) hh
    rw [(hio d h hh).2.2.2.1 b off] at this
    exact this _ List.mem_cons_self
  | hTrunc hi n => exact posOK_fileIO m hp hi _ _ (fun d h hh => hh)
  | hSeek hi off wh =>
    refine posOK_fileIO m hp hi _ _ (fun d h hh => ?_)
    have := hpos d h (.seek 0 off wh) hh
    rw [(hio d h hh).2.2.2.2.2.1 off wh] at this
    exact this _ List.mem_cons_self
  | hClose hi =>
    simp only [step]; unfold hClose
    cases hm : m.handles[hi]? with
    | none => exact hp
    | some mh =>
      simp only
      exact posOK_set (if mh.h.readOnly then m else m.setObj mh.obj { m.obj mh.obj with mtime := m.now }) _
        (by split <;> exact hp) hi { mh with h := { mh.h with closed := true } } (by split <;> rfl)
        (hp mh (List.mem_of_getElem? hm))
  | hName hi => exact hp
  | hStat hi => exact hp
  | hSync hi => exact hp
  | hReaddir hi n =>
    simp only [step]
    have := posOK_readdir m hp hi n
    generalize m.readdir hi n = R at this
    obtain ⟨m', fs, e⟩ := R
    exact this
  | hReaddirnames hi n =>
    simp only [step]
    have := posOK_readdir m hp hi n
    generalize m.readdir hi n = R at this
    obtain ⟨m', fs, e⟩ := R
    exact this

theorem posOK_run (ops : List Op) : ∀ m, PosOK m → PosOK (run m ops) := by
  induction ops with
  | nil => intro m h; exact h
  | cons op ops ih => intro m h; exact ih _ (posOK_step m op h)

theorem posOK_init : PosOK MemFs.init := fun x hx => by cases hx

/-! ### the program-level refinement with handle writes -/

/-- the preconditions of the program-level theorem WITH handle writes: those of `WFop'` for the Fs-level
    calls; every call through a handle is allowed -/
def WFopH (m : MemFs) : Op → Prop
  | .hWrite _ _ => True
  | .hWriteAt _ _ _ => True
  | .hTrunc _ _ => True
  | op => WFop' m op

def WFrunH (m : MemFs) : List Op → Prop
  | [] => True
  | op :: ops => WFopH m op ∧ WFrunH (m.step op).1 ops

theorem wfop'_of_wfopH (m : MemFs) (op : Op) (h : WFopH m op) (hnh : op.handle? = none) : WFop' m op := by
  cases op <;> first | exact h | cases hnh

theorem wfop_of_wfopH (m : MemFs) (op : Op) (h : WFopH m op) : WFop m op := by
  cases op <;> first | exact trivial | exact wfop_of_wfop' m _ h

theorem setObj_obj_self (m : MemFs) (o : Nat) : m.setObj o (m.obj o) = m := by
  unfold setObj obj
  by_cases h : o < m.objs.length
  · have : m.objs[o]? = some (m.objs.getD o default) := by
      rw [List.getD_eq_getElem?_getD, List.getElem?_eq_getElem h]; rfl
    rw [list_set_same _ _ _ this]
  · rw [List.set_eq_of_length_le (Nat.le_of_not_lt h)]

/-- a call that changes nothing the relation looks at -/
theorem hrel_same_h (m m' : MemFs) (hs : List (Option Key × Handle)) (hr : HRel m hs) (hdata : m'.data = m.data)
    (hobjs : m'.objs = m.objs) (i : Nat) (mh mh' : MHandle) (hm : m.handles[i]? = some mh)
    (hobj : mh'.obj = mh.obj) (hh' : mh'.h = mh.h) (hh : m'.handles = m.handles.set i mh') : HRel m' hs := by
  have hil : i < m.handles.length := (List.getElem?_eq_some_iff.1 hm).1
  obtain ⟨e, he⟩ : ∃ e, hs[i]? = some e := ⟨hs[i]'(by rw [hr.len]; exact hil), List.getElem?_eq_getElem _⟩
  have := hrel_set m m' hs hr hdata (by rw [hobjs]) (fun j => by unfold obj; rw [hobjs]) i mh mh' hm hobj hh e ?_ ?_
  · rw [list_set_same _ _ _ he] at this; exact this
  · intro k h ee
    rw [ee] at he
    rw [hh']; exact hr.linked i mh k h hm he
  · intro h ee k
    rw [ee] at he
    exact hr.unlinked i mh h hm he k

theorem refStepH_invalid (R : RefH) (op : Op) (i : Nat) (hi : op.handle? = some i) (he : R.hs[i]? = none) :
    refStepH R op = R := by
  simp only [refStepH, hi, he]
  cases fop0 op <;> rfl

theorem refStepH_noeffect (R : RefH) (op : Op) (i : Nat) (hi : op.handle? = some i) (hf : fop0 op = none) :
    refStepH R op = R := by
  simp only [refStepH, hi, hf]

theorem view_readdir' (m : MemFs) (hr : List (Option Key × Handle)) (H : HRel m hr) (hi : Nat) (n : Int) :
    view (m.readdir hi n).1 = view m ∧ HRel (m.readdir hi n).1 hr := by
  refine ⟨view_readdir m hi n, ?_⟩
  unfold readdir
  cases hm : m.handles[hi]? with
  | none => exact H
  | some mh =>
    simp only
    split
    · exact H
    · refine hrel_same_h m _ hr H rfl rfl hi mh _ hm ?_ ?_ rfl <;> rfl

/-- **every call that meets the preconditions — handle writes included — computes the reference step**:
    on the view, and on the names the handles denote -/
theorem stepH_refines (m : MemFs) (hc : Consistent m) (hk : KeysNodup m) (ho : ObjsOK m) (hp : PosOK m)
    (R : RefH) (hv : view m = R.v) (hr : HRel m R.hs) (op : Op) (hw : WFopH m op) :
    view (m.step op).1 = (refStepH R op).v ∧ HRel (m.step op).1 (refStepH R op).hs := by
  cases hnh : op.handle? with
  | none =>
    have hw' := wfop'_of_wfopH m op hw hnh
    obtain ⟨M, O⟩ := fs_step_shape m hc hk ho op hw' hnh
    have e : refStepH R op = ⟨refStep R.v op, (R.hs.map fun e => (e.1.bind (mvOf R.v op), e.2)) ++
          (openedOf R.v op).toList.map fun e => (some e.1, e.2)⟩ := by
      simp only [refStepH, hnh]
    rw [e, ← hv]
    exact ⟨step_refines m hc hk ho op hw', hrel_step_fs m _ hc R.hs _ _ hr M O⟩
  | some i =>
    cases hm : m.handles[i]? with
    | none =>
      -- not a handle: nothing happens on either side
      have he : R.hs[i]? = none := by
        rw [List.getElem?_eq_none_iff] at hm ⊢
        rw [hr.len]; exact hm
      have hinv := refStepH_invalid R op i hnh he
      have : (m.step op).1 = m := by
        cases op with
        | create p => cases hnh
        | mkdir p perm => cases hnh
        | mkdirAll p perm => cases hnh
        | open_ p => cases hnh
        | openFile p flag perm => cases hnh
        | remove p => cases hnh
        | removeAll p => cases hnh
        | rename a b => cases hnh
        | stat p => cases hnh
        | chmod p mode => cases hnh
        | chown p u g => cases hnh
        | chtimes p t => cases hnh
        | hRead j n => cases hnh; simp only [step, hRead, fileIO, hm]
        | hReadAt j n off => cases hnh; simp only [step, hReadAt, fileIO, hm]
        | hWrite j b => cases hnh; simp only [step, hWrite, fileIO, hm]
        | hWriteAt j b off => cases hnh; simp only [step, hWriteAt, fileIO, hm]
        | hTrunc j n => cases hnh; simp only [step, hTruncate, fileIO, hm]
        | hSeek j off wh => cases hnh; simp only [step, hSeek, fileIO, hm]
        | hClose j => cases hnh; simp only [step, hClose, hm]
        | hName j => rfl
        | hStat j => rfl
        | hSync j => rfl
        | hReaddir j n => cases hnh; simp only [step, readdir, hm]
        | hReaddirnames j n => cases hnh; simp only [step, readdir, hm]
      rw [this, hinv]; exact ⟨hv, hr⟩
    | some mh =>
      have hpos : 0 ≤ mh.h.pos := hp mh (List.mem_of_getElem? hm)
      obtain ⟨f1, f2, f3, f4, f5, f6, f7⟩ := flat1_io (m.obj mh.obj).data mh.h hpos
      cases op with
      | create p => cases hnh
      | mkdir p perm => cases hnh
      | mkdirAll p perm => cases hnh
      | open_ p => cases hnh
      | openFile p flag perm => cases hnh
      | remove p => cases hnh
      | removeAll p => cases hnh
      | rename a b => cases hnh
      | stat p => cases hnh
      | chmod p mode => cases hnh
      | chown p u g => cases hnh
      | chtimes p t => cases hnh
      | hRead j n =>
        cases hnh
        show view (m.fileIO _ (fun d h => let (h', o) := readC d h n; (d, h', o)) false).1 = _ ∧ HRel (m.fileIO _ _ false).1 _
        rw [fileIO_some m _ mh hm]
        refine io_refines m _ hc R hv hr _ _ rfl _ rfl mh hm _ _ (f1 n) _ ?_ ?_ ?_ rfl rfl rfl <;> rfl
      | hReadAt j n off =>
        cases hnh
        show view (m.fileIO _ (fun d h => let (h', o) := readAtC d h n off; (d, h', o)) false).1 = _ ∧ HRel (m.fileIO _ _ false).1 _
        rw [fileIO_some m _ mh hm]
        refine io_refines m _ hc R hv hr _ _ rfl _ rfl mh hm _ _ (f2 n off) _ ?_ ?_ ?_ rfl rfl rfl <;> rfl
      | hWrite j b =>
        cases hnh
        show view (m.fileIO _ (fun d h => writeC d h b) true).1 = _ ∧ HRel (m.fileIO _ _ true).1 _
        rw [fileIO_some m _ mh hm]
        refine io_refines m _ hc R hv hr _ _ rfl _ rfl mh hm _ _ (f3 b) _ ?_ ?_ ?_ rfl rfl rfl <;> rfl
      | hWriteAt j b off =>
        cases hnh
        show view (m.fileIO _ (fun d h => writeAtC d h b off) true).1 = _ ∧ HRel (m.fileIO _ _ true).1 _
        rw [fileIO_some m _ mh hm]
        refine io_refines m _ hc R hv hr _ _ rfl _ rfl mh hm _ _ (f4 b off) _ ?_ ?_ ?_ rfl rfl rfl <;> rfl
      | hTrunc j n =>
        cases hnh
        show view (m.fileIO _ (fun d h => let (d', o) := truncC d h n; (d', h, o)) true).1 = _ ∧ HRel (m.fileIO _ _ true).1 _
        rw [fileIO_some m _ mh hm]
        refine io_refines m _ hc R hv hr _ _ rfl _ rfl mh hm _ _ (f5 n) _ ?_ ?_ ?_ rfl rfl rfl <;> rfl
      | hSeek j off wh =>
        cases hnh
        show view (m.fileIO _ (fun d h => let (h', o) := seekC d h off wh; (d, h', o)) false).1 = _ ∧ HRel (m.fileIO _ _ false).1 _
        rw [fileIO_some m _ mh hm]
        refine io_refines m _ hc R hv hr _ _ rfl _ rfl mh hm _ _ (f6 off wh) _ ?_ ?_ ?_ rfl rfl rfl <;> rfl
      | hClose j =>
        cases hnh
        have e : (m.step (.hClose i)).1 =
            { (if mh.h.readOnly then m else m.setObj mh.obj { m.obj mh.obj with mtime := m.now }) with
              handles := m.handles.set i { mh with h := { mh.h with closed := true } } } := by
          simp only [step, hClose, hm]
          split <;> rfl
        rw [e]
        refine io_refines m _ hc R hv hr _ _ rfl _ rfl mh hm _ _ f7
          (if mh.h.readOnly then m.obj mh.obj else { m.obj mh.obj with mtime := m.now }) ?_ ?_ ?_ ?_ ?_ rfl
        · split <;> rfl
        · split <;> rfl
        · split <;> rfl
        · split <;> rfl
        · show (if mh.h.readOnly then m else m.setObj mh.obj { m.obj mh.obj with mtime := m.now }).objs = _
          split
          · rw [setObj_obj_self]
          · rfl
      | hName j =>
        cases hnh
        rw [refStepH_noeffect R _ i rfl rfl]; exact ⟨hv, hr⟩
      | hStat j =>
        cases hnh
        rw [refStepH_noeffect R _ i rfl rfl]; exact ⟨hv, hr⟩
      | hSync j =>
        cases hnh
        rw [refStepH_noeffect R _ i rfl rfl]; exact ⟨hv, hr⟩
      | hReaddir j n =>
        cases hnh
        rw [refStepH_noeffect R _ i rfl rfl]
        simp only [step]
        have := view_readdir' m R.hs hr i n
        generalize m.readdir i n = X at this
        obtain ⟨m', fs, e⟩ := X
        rw [← hv]; exact this
      | hReaddirnames j n =>
        cases hnh
        rw [refStepH_noeffect R _ i rfl rfl]
        simp only [step]
        have := view_readdir' m R.hs hr i n
        generalize m.readdir i n = X at this
        obtain ⟨m', fs, e⟩ := X
        rw [← hv]; exact this

/-- **the program-level refinement WITH handle writes**: after any program whose operations meet the
    preconditions in the state they run in, the tree the model exposes is the one the reference interpreter
    with handles computes, and the handles are bound as the reference says -/
theorem runH_refines (ops : List Op) : ∀ (m : MemFs) (R : RefH), Consistent m → KeysNodup m → ObjsOK m → PosOK m →
    view m = R.v → HRel m R.hs → WFrunH m ops →
    view (run m ops) = (ops.foldl refStepH R).v ∧ HRel (run m ops) (ops.foldl refStepH R).hs := by
  induction ops with
  | nil => intro m R _ _ _ _ hv hr _; exact ⟨hv, hr⟩
  | cons op ops ih =>
    intro m R hc hk ho hp hv hr hw
    obtain ⟨a, b⟩ := stepH_refines m hc hk ho hp R hv hr op hw.1
    exact ih (m.step op).1 (refStepH R op) (consistent_step_wf m op hc hk (wfop_of_wfopH m op hw.1))
      (keysNodup_step m op hk) (objsOK_step m op ho) (posOK_step m op hp) a b hw.2

/-- the reference state of a fresh filesystem: the root directory, no handle -/
def refInitH : RefH := ⟨refInit, []⟩

theorem hrel_init : HRel MemFs.init [] :=
  ⟨rfl, fun i mh h => by simp [init] at h, fun i mh k h h1 => by simp [init] at h1, fun i mh h h1 => by simp [init] at h1⟩

theorem runH_refines_init (ops : List Op) (hw : WFrunH MemFs.init ops) :
    view (run MemFs.init ops) = (ops.foldl refStepH refInitH).v ∧
      HRel (run MemFs.init ops) (ops.foldl refStepH refInitH).hs :=
  runH_refines ops MemFs.init refInitH consistent_init keysNodup_init objsOK_init posOK_init view_init hrel_init hw

/-- a program without handle writes that meets `WFrun'` meets `WFrunH` -/
theorem wfopH_of_wfop' (m : MemFs) (op : Op) (h : WFop' m op) : WFopH m op := by
  cases op <;> first | exact h | exact trivial

/-! ### preconditions that can be checked on the reference alone -/

end MemFs

def Node.isFile : Option Node → Bool
  | some (.file _ _) => true
  | _ => false

def Node.isDir : Option Node → Bool
  | some (.dir _) => true
  | _ => false

/-- **the preconditions, stated on the view**: new names are created below an existing directory; `Create`
    does not name a directory; `Remove` names a regular file (or nothing); `RemoveAll` does not name the
    root; `Rename` moves a regular file to a free name or over another regular file below an existing
    directory, or a directory with its subtree to a free name below an existing directory (or names a
    missing source, or the same name twice).  Every call through a handle is allowed. -/
def WFopV (v : View) : Op → Prop
  | .create p => Node.isFile (v (keyOfStr p)) = true ∨
      (v (keyOfStr p) = none ∧ Node.isDir (v (parentKey (keyOfStr p))) = true)
  | .mkdir p _ => (v (keyOfStr p)).isSome = true ∨ Node.isDir (v (parentKey (keyOfStr p))) = true
  | .mkdirAll p _ => (v (keyOfStr p)).isSome = true ∨ Node.isDir (v (parentKey (keyOfStr p))) = true
  | .openFile p flag _ => (v (keyOfStr p)).isSome = true ∨ ¬ flag &&& O_CREATE > 0 ∨
      Node.isDir (v (parentKey (keyOfStr p))) = true
  | .remove p => v (keyOfStr p) = none ∨ (keyOfStr p ≠ rootKey ∧ Node.isFile (v (keyOfStr p)) = true)
  | .removeAll p => (keyOfStr p).segs ≠ []
  | .rename a b => v (keyOfStr a) = none ∨ keyOfStr a = keyOfStr b ∨
      (Node.isFile (v (keyOfStr a)) = true ∧ keyOfStr a ≠ rootKey ∧ keyOfStr b ≠ rootKey ∧
        parentKey (keyOfStr b) ≠ keyOfStr b ∧ parentKey (keyOfStr b) ≠ keyOfStr a ∧
        Node.isDir (v (parentKey (keyOfStr b))) = true ∧
        (v (keyOfStr b) = none ∨ Node.isFile (v (keyOfStr b)) = true)) ∨
      ((v (keyOfStr a)).isSome = true ∧ (keyOfStr a).segs ≠ [] ∧ (keyOfStr b).segs ≠ [] ∧
        v (keyOfStr b) = none ∧ isUnder (keyOfStr a) (keyOfStr b) = false ∧
        Node.isDir (v (parentKey (keyOfStr b))) = true)
  | _ => True

/-- a program all of whose calls meet the preconditions in the reference state they run in -/
def WFrunV (R : RefH) : List Op → Prop
  | [] => True
  | op :: ops => WFopV R.v op ∧ WFrunV (refStepH R op) ops

namespace MemFs

theorem file_of_view (m : MemFs) (ho : ObjsOK m) (k : Key) (h : Node.isFile (view m k) = true) :
    ∃ f, m.lookup k = some f ∧ (m.obj f).dir = false ∧ (m.obj f).memDir = none := by
  cases hl : m.lookup k with
  | none => rw [view_none m k hl] at h; cases h
  | some f =>
    rw [view_some m k f hl] at h
    cases hd : (m.obj f).dir with
    | true => rw [nodeOf_dir _ hd] at h; cases h
    | false =>
      refine ⟨f, rfl, hd, ?_⟩
      have := (ho f).1
      rw [hd] at this
      cases hm : (m.obj f).memDir with
      | none => rfl
      | some l => rw [hm] at this; cases this

theorem dir_of_view (m : MemFs) (ho : ObjsOK m) (k : Key) (h : Node.isDir (view m k) = true) :
    ∃ p pd, m.lookup k = some p ∧ (m.obj p).memDir = some pd := by
  cases hl : m.lookup k with
  | none => rw [view_none m k hl] at h; cases h
  | some f =>
    rw [view_some m k f hl] at h
    cases hd : (m.obj f).dir with
    | false => rw [nodeOf_file _ hd] at h; cases h
    | true =>
      have := (ho f).1
      rw [hd] at this
      cases hm : (m.obj f).memDir with
      | none => rw [hm] at this; cases this
      | some l => exact ⟨f, l, rfl, hm⟩

theorem lookup_of_view_isSome (m : MemFs) (k : Key) (h : (view m k).isSome = true) : (m.lookup k).isSome = true := by
  cases hl : m.lookup k with
  | none => rw [view_none m k hl] at h; cases h
  | some f => rfl

/-- **the preconditions on the view imply those on the model** -/
theorem wfopH_of_wfopV (m : MemFs) (ho : ObjsOK m) (op : Op) (h : WFopV (view m) op) : WFopH m op := by
  cases op <;> try exact trivial
  case create p =>
    rcases h with h | ⟨h1, h2⟩
    · obtain ⟨f, a, b, _⟩ := file_of_view m ho _ h
      exact Or.inl ⟨f, a, b⟩
    · exact Or.inr ⟨(view_eq_none m _).1 h1, dir_of_view m ho _ h2⟩
  case mkdir p perm =>
    rcases h with h | h
    · exact Or.inl (lookup_of_view_isSome m _ h)
    · exact Or.inr (dir_of_view m ho _ h)
  case mkdirAll p perm =>
    rcases h with h | h
    · exact Or.inl (lookup_of_view_isSome m _ h)
    · exact Or.inr (dir_of_view m ho _ h)
  case openFile p flag perm =>
    rcases h with h | h | h
    · exact Or.inl (lookup_of_view_isSome m _ h)
    · exact Or.inr (Or.inl h)
    · exact Or.inr (Or.inr (dir_of_view m ho _ h))
  case remove p =>
    rcases h with h | ⟨h1, h2⟩
    · exact Or.inl ((view_eq_none m _).1 h)
    · obtain ⟨f, a, _, c⟩ := file_of_view m ho _ h2
      exact Or.inr ⟨h1, f, a, Or.inl c⟩
  case removeAll p => exact h
  case rename a b =>
    rcases h with h | h | ⟨h1, h2, h3, h4, h5, h6, h7⟩ | ⟨h1, h2, h3, h4, h5, h6⟩
    · exact Or.inl ((view_eq_none m _).1 h)
    · exact Or.inr (Or.inl h)
    · obtain ⟨f, a1, _, a3⟩ := file_of_view m ho _ h1
      refine Or.inr (Or.inr (Or.inl ⟨f, a1, Or.inl a3, h2, h3, h4, h5, dir_of_view m ho _ h6, ?_, normKey_keyOfStr a⟩))
      rcases h7 with h7 | h7
      · exact Or.inl ((view_eq_none m _).1 h7)
      · obtain ⟨g, b1, _, b3⟩ := file_of_view m ho _ h7
        exact Or.inr ⟨g, b1, Or.inl b3⟩
    · obtain ⟨f, hf⟩ := Option.isSome_iff_exists.1 (lookup_of_view_isSome m _ h1)
      exact Or.inr (Or.inr (Or.inr ⟨f, hf, h2, h3, (view_eq_none m _).1 h4, h5, dir_of_view m ho _ h6⟩))

/-- **the program-level refinement with handle writes, preconditions checked on the reference alone** -/
theorem runV_refines (ops : List Op) : ∀ (m : MemFs) (R : RefH), Consistent m → KeysNodup m → ObjsOK m → PosOK m →
    view m = R.v → HRel m R.hs → WFrunV R ops →
    view (run m ops) = (ops.foldl refStepH R).v ∧ HRel (run m ops) (ops.foldl refStepH R).hs ∧ WFrunH m ops := by
  induction ops with
  | nil => intro m R _ _ _ _ hv hr _; exact ⟨hv, hr, trivial⟩
  | cons op ops ih =>
    intro m R hc hk ho hp hv hr hw
    have hwH : WFopH m op := wfopH_of_wfopV m ho op (by rw [hv]; exact hw.1)
    obtain ⟨a, b⟩ := stepH_refines m hc hk ho hp R hv hr op hwH
    obtain ⟨i1, i2, i3⟩ := ih (m.step op).1 (refStepH R op) (consistent_step_wf m op hc hk (wfop_of_wfopH m op hwH))
      (keysNodup_step m op hk) (objsOK_step m op ho) (posOK_step m op hp) a b hw.2
    exact ⟨i1, i2, hwH, i3⟩

theorem runV_refines_init (ops : List Op) (hw : WFrunV refInitH ops) :
    view (run MemFs.init ops) = (ops.foldl refStepH refInitH).v ∧
      HRel (run MemFs.init ops) (ops.foldl refStepH refInitH).hs ∧ WFrunH MemFs.init ops :=
  runV_refines ops MemFs.init refInitH consistent_init keysNodup_init objsOK_init posOK_init view_init hrel_init hw

/-! ## non-vacuity: a state with three handles -/

/-- `/a/b/f` holds 1 2 3 4 5; handle 0 (read-write, offset 2) and handle 2 (read-only) are on it, handle 1 on
    the empty file `/g` — objects: 0 root, 1 `/a/b`, 2 `/a`, 3 `/a/b/f`, 4 `/g` -/
def exHops : List Op := [.mkdirAll "/a/b".toList 0o755, .create "/a/b/f".toList, .hWrite 0 [1, 2, 3, 4, 5],
  .hSeek 0 2 0, .create "/g".toList, .open_ "/a/b/f".toList]

def exH : MemFs := run MemFs.init exHops

theorem exH_wf : WFrun MemFs.init exHops :=
  ⟨trivial, (fun f h => nomatch (h.symm.trans (by decide : _ = none))), trivial, trivial,
    (fun f h => nomatch (h.symm.trans (by decide : _ = none))), trivial, trivial⟩

theorem exH_consistent : Consistent exH := (consistent_run_wf _ MemFs.init consistent_init keysNodup_init exH_wf).1
theorem exH_keysNodup : KeysNodup exH := keysNodup_run exHops MemFs.init keysNodup_init
theorem exH_objsOK : ObjsOK exH := objsOK_run exHops MemFs.init objsOK_init
theorem exH_h0 : OpenRW exH 0 { obj := 3, h := { pos := 2 } } := ⟨rfl, rfl, rfl, by decide⟩

theorem exH_leaf : RenameLeaf exH (keyOfStr "/a/b/f".toList) (keyOfStr "/g".toList) :=
  ⟨3, by decide, Or.inl rfl, by decide, by decide, by decide, by decide,
    ⟨0, _, by decide, rfl⟩, Or.inr ⟨4, by decide, Or.inl rfl⟩, by decide⟩

theorem exH_sub : RenameSubtree exH (keyOfStr "/a".toList) (keyOfStr "/z".toList) :=
  ⟨2, by decide, by decide, by decide, by decide, by decide, 0, _, by decide, rfl⟩

end MemFs
end AferoVerif
