/-
  Association-list lemmas for the MemMapFs model's path map and directory indexes
  (Go `map` semantics: one value per key).
-/
import AferoVerif.Model.MemMapFs
namespace AferoVerif

theorem alLookup_nil (k : Key) : alLookup [] k = none := rfl

theorem alLookup_cons (e : Key × Nat) (m : List (Key × Nat)) (k : Key) :
    alLookup (e :: m) k = if e.1 = k then some e.2 else alLookup m k := by
  unfold alLookup
  simp only [List.find?_cons]
  by_cases h : e.1 = k <;> simp [h]

theorem alLookup_append (a b : List (Key × Nat)) (k : Key) :
    alLookup (a ++ b) k = (alLookup a k).or (alLookup b k) := by
  induction a with
  | nil => simp [alLookup_nil]
  | cons e a ih =>
    rw [List.cons_append, alLookup_cons, alLookup_cons, ih]
    by_cases h : e.1 = k <;> simp [h]

theorem alLookup_map_replace (m : List (Key × Nat)) (k : Key) (v : Nat) (k' : Key) :
    alLookup (m.map fun e => if e.1 = k then (k, v) else e) k' =
      if k' = k then (alLookup m k).map (fun _ => v) else alLookup m k' := by
  induction m with
  | nil => by_cases h : k' = k <;> simp [alLookup_nil, h]
  | cons e m ih =>
    simp only [List.map_cons, alLookup_cons, ih]
    by_cases he : e.1 = k
    · by_cases hk : k' = k
      · subst hk; simp [he]
      · have : ¬ k = k' := fun h => hk h.symm
        have : ¬ e.1 = k' := fun h => hk (h.symm.trans he)
        simp [he, hk, *]
    · by_cases hk : k' = k
      · subst hk; simp [he]
      · simp [he, hk]

/-- inserting and then looking the same key up -/
theorem alLookup_insert_self (m : List (Key × Nat)) (k : Key) (v : Nat) :
    alLookup (alInsert m k v) k = some v := by
  unfold alInsert
  cases h : alLookup m k with
  | none => simp [alLookup_append, h, alLookup_cons]
  | some w => simp [alLookup_map_replace, h]

/-- other keys are not affected by an insert -/
theorem alLookup_insert_ne (m : List (Key × Nat)) (k k' : Key) (v : Nat) (hne : k' ≠ k) :
    alLookup (alInsert m k v) k' = alLookup m k' := by
  unfold alInsert
  cases h : alLookup m k with
  | none =>
    have : ¬ k = k' := fun e => hne e.symm
    simp [alLookup_append, alLookup_cons, alLookup_nil, this]
  | some w => simp [alLookup_map_replace, hne]

theorem alLookup_filter (m : List (Key × Nat)) (p : Key → Bool) (k : Key) :
    alLookup (m.filter fun e => p e.1) k = if p k then alLookup m k else none := by
  induction m with
  | nil => simp [alLookup_nil]
  | cons e m ih =>
    simp only [List.filter_cons]
    by_cases hp : p e.1 = true
    · simp only [hp, if_true]
      rw [alLookup_cons, alLookup_cons, ih]
      by_cases he : e.1 = k
      · subst he; simp [hp]
      · simp [he]
    · simp only [hp, Bool.false_eq_true, if_false]
      rw [ih, alLookup_cons]
      by_cases he : e.1 = k
      · subst he; simp [hp]
      · simp [he]

theorem alLookup_erase_self (m : List (Key × Nat)) (k : Key) : alLookup (alErase m k) k = none := by
  unfold alErase
  have := alLookup_filter m (fun x => decide (x ≠ k)) k
  simpa using this

theorem alLookup_erase_ne (m : List (Key × Nat)) (k k' : Key) (hne : k' ≠ k) :
    alLookup (alErase m k) k' = alLookup m k' := by
  unfold alErase
  have := alLookup_filter m (fun x => decide (x ≠ k)) k'
  simpa [hne] using this

end AferoVerif
