/-
  C08 — `BasePathFs.RealPath` confines for EVERY root, relative ones included
  ("", ".", "rel", "./rel/", "..", "../..", "../up", …).

  A cleaned relative path is a (possibly empty) run of `..` segments followed by normal segments
  (`RelShape`); the string test of `withinBasePath` (equal / prefix on a separator boundary / the
  remainder does not begin with `..`) is carried to segment lists: the accepted path's segments are
  the root's segments followed by normal segments only.
-/
import AferoVerif.Proofs.Path
import AferoVerif.Model.BasePath
namespace AferoVerif
open Path

/-- the cleaned segments of a path string, rooted or not -/
def segsR (s : Str) : List Seg := cleanSegs (isRooted s) (split s)

namespace Path

/-! ### the shape of a cleaned relative path -/

/-- `..` elements first, then normal segments only -/
def RelShape (l : List Seg) : Prop :=
  ∃ u q, l = u ++ q ∧ (∀ x ∈ u, x = dotdot) ∧ (∀ x ∈ q, Normal x)

/-- the same, for the stack of the machine (last segment first) -/
def StkShape (stk : List Seg) : Prop :=
  ∃ a b, stk = a ++ b ∧ (∀ x ∈ a, Normal x) ∧ (∀ x ∈ b, x = dotdot)

theorem cleanStep_rel_shape (stk : List Seg) (s : Seg) (hs : sep ∉ s) (h : StkShape stk) :
    StkShape (cleanStep false stk s) := by
  obtain ⟨a, b, rfl, ha, hb⟩ := h
  unfold cleanStep
  by_cases h1 : s = [] ∨ s = dot
  · simp only [h1, if_true]; exact ⟨a, b, rfl, ha, hb⟩
  · simp only [h1, if_false]
    by_cases h2 : s = dotdot
    · simp only [h2, if_true]
      cases a with
      | nil =>
        cases b with
        | nil => exact ⟨[], [dotdot], by simp, by simp, by simp⟩
        | cons t ts =>
          have ht : t = dotdot := hb t (by simp)
          simp only [List.nil_append, ht, if_true]
          refine ⟨[], dotdot :: dotdot :: ts, rfl, by simp, ?_⟩
          intro x hx
          rcases List.mem_cons.mp hx with e | hx
          · exact e
          · exact hb x (by rw [ht]; exact hx)
      | cons t ts =>
        have ht : t ≠ dotdot := (ha t (by simp)).2.2.1
        simp only [List.cons_append, ht, if_false]
        exact ⟨ts, b, rfl, fun x hx => ha x (by simp [hx]), hb⟩
    · simp only [h2, if_false]
      refine ⟨s :: a, b, rfl, ?_, hb⟩
      intro x hx
      rcases List.mem_cons.mp hx with rfl | hx
      · exact ⟨fun e => h1 (Or.inl e), fun e => h1 (Or.inr e), h2, hs⟩
      · exact ha x hx

theorem foldl_cleanStep_rel_shape (segs stk : List Seg) (hs : ∀ x ∈ segs, sep ∉ x) (h : StkShape stk) :
    StkShape (segs.foldl (cleanStep false) stk) := by
  induction segs generalizing stk with
  | nil => exact h
  | cons a as ih =>
    simp only [List.foldl_cons]
    exact ih _ (fun x hx => hs x (by simp [hx])) (cleanStep_rel_shape stk a (hs a (by simp)) h)

/-- a cleaned relative path: `..` elements occur only at the very front -/
theorem cleanSegs_rel_shape (segs : List Seg) (hs : ∀ x ∈ segs, sep ∉ x) : RelShape (cleanSegs false segs) := by
  unfold cleanSegs
  obtain ⟨a, b, e, ha, hb⟩ := foldl_cleanStep_rel_shape segs [] hs ⟨[], [], rfl, by simp, by simp⟩
  rw [e]
  refine ⟨b.reverse, a.reverse, by simp, ?_, ?_⟩
  · intro x hx; exact hb x (by simpa using hx)
  · intro x hx; exact ha x (by simpa using hx)

/-- the task's formulation with `List.replicate` -/
theorem cleanSegs_rel_shape_replicate (segs : List Seg) (hs : ∀ x ∈ segs, sep ∉ x) :
    ∃ n q, cleanSegs false segs = List.replicate n dotdot ++ q ∧ ∀ x ∈ q, Normal x := by
  obtain ⟨u, q, e, hu, hq⟩ := cleanSegs_rel_shape segs hs
  exact ⟨u.length, q, by rw [e]; exact congrArg (· ++ q) (List.eq_replicate_iff.mpr ⟨rfl, hu⟩), hq⟩

theorem dotdot_elem : dotdot ≠ [] ∧ sep ∉ dotdot := by decide

/-- segments of a cleaned relative path are not empty and hold no separator -/
theorem RelShape.elems {l : List Seg} (h : RelShape l) : ∀ x ∈ l, x ≠ [] ∧ sep ∉ x := by
  obtain ⟨u, q, rfl, hu, hq⟩ := h
  intro x hx
  rcases List.mem_append.mp hx with hx | hx
  · rw [hu x hx]; exact dotdot_elem
  · exact ⟨(hq x hx).1, (hq x hx).2.2.2⟩

theorem relShape_of_normal (q : List Seg) (hq : ∀ x ∈ q, Normal x) : RelShape q :=
  ⟨[], q, rfl, by simp, hq⟩

/-! ### rendering and re-reading a cleaned relative path -/

theorem joinSegs_ne_nil (a : Seg) (as : List Seg) (ha : a ≠ []) : joinSegs (a :: as) ≠ [] := by
  cases as with
  | nil => simpa [joinSegs] using ha
  | cons b bs => simp [joinSegs, ha]

theorem render_false_ne_nil (l : List Seg) (h : ∀ x ∈ l, x ≠ [] ∧ sep ∉ x) : render false l ≠ [] := by
  cases l with
  | nil => simp [render, dot]
  | cons a as =>
    simp only [render, Bool.false_eq_true, if_false, List.cons_ne_nil]
    exact joinSegs_ne_nil a as (h a (by simp)).1

theorem isRooted_render_false (l : List Seg) (h : ∀ x ∈ l, x ≠ [] ∧ sep ∉ x) :
    isRooted (render false l) = false := by
  cases l with
  | nil => decide
  | cons a as =>
    simp only [render, Bool.false_eq_true, if_false, List.cons_ne_nil]
    obtain ⟨hne, hns⟩ := h a (by simp)
    cases a with
    | nil => exact absurd rfl hne
    | cons c cs =>
      have hc : c ≠ sep := fun e => hns (by simp [e])
      cases as with
      | nil => simp [joinSegs, isRooted, hc]
      | cons b bs => simp [joinSegs, isRooted, hc]

theorem render_true_ne_nil (l : List Seg) : render true l ≠ [] := by simp [render]

/-- `Clean` keeps rootedness -/
theorem isRooted_clean (s : Str) : isRooted (clean s) = isRooted s := by
  unfold clean
  cases h : isRooted s with
  | true => exact isRooted_render _
  | false => exact isRooted_render_false _ (cleanSegs_rel_shape _ (split_no_sep s)).elems

theorem clean_ne_nil (s : Str) : clean s ≠ [] := by
  unfold clean
  cases h : isRooted s with
  | true => exact render_true_ne_nil _
  | false => exact render_false_ne_nil _ (cleanSegs_rel_shape _ (split_no_sep s)).elems

theorem isRooted_append_ne (a b : Str) (ha : a ≠ []) : isRooted (a ++ b) = isRooted a := by
  cases a with
  | nil => exact absurd rfl ha
  | cons c cs => simp [isRooted]

/-- `Join(a, b)` is rooted iff its (non-empty) first element is -/
theorem isRooted_join2 (a b : Str) (ha : a ≠ []) : isRooted (join2 a b) = isRooted a := by
  unfold join2
  simp only [ha, if_false]
  by_cases hb : b = []
  · simp only [hb, if_true]; exact isRooted_clean a
  · simp only [hb, if_false]; rw [isRooted_clean, isRooted_append_ne a _ ha]

theorem cleanStep_dotdot_on_dotdots (stk : List Seg) (hs : ∀ x ∈ stk, x = dotdot) :
    cleanStep false stk dotdot = dotdot :: stk := by
  have e1 : ¬ (dotdot = [] ∨ dotdot = dot) := by decide
  unfold cleanStep
  simp only [e1, if_false, if_true]
  cases stk with
  | nil => simp
  | cons t ts => simp [hs t (by simp)]

theorem foldl_cleanStep_dotdots (u stk : List Seg) (hu : ∀ x ∈ u, x = dotdot) (hs : ∀ x ∈ stk, x = dotdot) :
    u.foldl (cleanStep false) stk = u.reverse ++ stk := by
  induction u generalizing stk with
  | nil => simp
  | cons a as ih =>
    have ha : a = dotdot := hu a (by simp)
    simp only [List.foldl_cons, ha]
    rw [cleanStep_dotdot_on_dotdots stk hs, ih _ (fun x hx => hu x (by simp [hx]))]
    · simp
    · intro x hx
      rcases List.mem_cons.mp hx with e | hx
      · exact e
      · exact hs x hx

/-- cleaning is idempotent on segment lists of the relative shape -/
theorem cleanSegs_rel_id (l : List Seg) (h : RelShape l) : cleanSegs false l = l := by
  obtain ⟨u, q, rfl, hu, hq⟩ := h
  rw [clean_append_normal false u q hq]
  have : cleanSegs false u = u := by
    unfold cleanSegs
    rw [foldl_cleanStep_dotdots u [] hu (by simp)]
    simp
  rw [this]

theorem render_false_cons (a : Seg) (as : List Seg) : render false (a :: as) = joinSegs (a :: as) := by
  simp [render]

/-- splitting the string form of a non-empty cleaned relative path gives back its segments -/
theorem split_render_false (l : List Seg) (h : RelShape l) (hne : l ≠ []) : split (render false l) = l := by
  cases l with
  | nil => exact absurd rfl hne
  | cons a as =>
    rw [render_false_cons]
    exact split_joinSegs _ (fun x hx => (h.elems x hx).2) (by simp)

/-- cleaning the string form of a cleaned relative path gives back its segments
    (the empty path is printed as "." and read back as empty) -/
theorem cleanSegs_split_render_false (l : List Seg) (h : RelShape l) :
    cleanSegs false (split (render false l)) = l := by
  by_cases hne : l = []
  · subst hne; decide
  · rw [split_render_false l h hne, cleanSegs_rel_id l h]

theorem segsR_render_false (l : List Seg) (h : RelShape l) : segsR (render false l) = l := by
  unfold segsR
  rw [isRooted_render_false l h.elems, cleanSegs_split_render_false l h]

theorem segsR_render_true (l : List Seg) (h : ∀ x ∈ l, Normal x) : segsR (render true l) = l := by
  unfold segsR
  rw [isRooted_render, cleanSegs_split_render l h]

/-- Clean is idempotent (relative case) -/
theorem clean_render_false (l : List Seg) (h : RelShape l) : clean (render false l) = render false l := by
  unfold clean
  rw [isRooted_render_false l h.elems, cleanSegs_split_render_false l h]

/-! ### joining the split segments gives the string back; `restOK` on segments -/

theorem splitAux_ne_nil (s : Str) (cur : Seg) : splitAux s cur ≠ [] := by
  induction s generalizing cur with
  | nil => simp [splitAux]
  | cons c cs ih =>
    unfold splitAux
    by_cases h : c = sep
    · simp [h]
    · simp only [h, if_false]; exact ih _

theorem joinSegs_cons_ne (a : Seg) (l : List Seg) (h : l ≠ []) : joinSegs (a :: l) = a ++ sep :: joinSegs l := by
  cases l with
  | nil => exact absurd rfl h
  | cons b bs => rfl

theorem joinSegs_splitAux (s : Str) (cur : Seg) : joinSegs (splitAux s cur) = cur.reverse ++ s := by
  induction s generalizing cur with
  | nil => simp [splitAux, joinSegs]
  | cons c cs ih =>
    unfold splitAux
    by_cases h : c = sep
    · simp only [h, if_true]
      rw [joinSegs_cons_ne _ _ (splitAux_ne_nil cs []), ih]
      simp
    · simp only [h, if_false]
      rw [ih]; simp

theorem joinSegs_split (s : Str) : joinSegs (split s) = s := by
  simpa [split] using joinSegs_splitAux s []

theorem split_ne_nil (s : Str) : split s ≠ [] := splitAux_ne_nil s []

/-- a remainder that passes `restOK` does not begin with a `..` element -/
theorem restOK_head (r : Str) (h : restOK r = true) (tl : List Seg) : split r ≠ dotdot :: tl := by
  intro e
  have hr : r = joinSegs (dotdot :: tl) := by rw [← e, joinSegs_split]
  cases tl with
  | nil =>
    have : r = dotdot := by simpa [joinSegs] using hr
    rw [this] at h
    exact absurd h (by decide)
  | cons t ts =>
    rw [joinSegs_cons_ne _ _ (by simp)] at hr
    rw [hr] at h
    simp [restOK, hasPrefix, dotdot, List.isPrefixOf] at h

/-- in a list of the relative shape, a tail that does not begin with `..` is all normal -/
theorem relShape_tail_normal (u q D S' : List Seg) (s0 : Seg) (hu : ∀ x ∈ u, x = dotdot)
    (hq : ∀ x ∈ q, Normal x) (e : u ++ q = D ++ s0 :: S') (h0 : s0 ≠ dotdot) :
    ∀ x ∈ s0 :: S', Normal x := by
  induction u generalizing D with
  | nil =>
    intro x hx
    apply hq x
    simp only [List.nil_append] at e
    rw [e]; exact List.mem_append_right _ hx
  | cons a as ih =>
    cases D with
    | nil =>
      simp only [List.nil_append, List.cons_append] at e
      injection e with e1 e2
      exact absurd (by rw [← e1]; exact hu a (by simp)) h0
    | cons d ds =>
      simp only [List.cons_append] at e
      injection e with e1 e2
      exact ih ds (fun x hx => hu x (by simp [hx])) e2

end Path

/-! ### the confinement theorem -/

theorem clean_eq_render (s : Str) : clean s = render (isRooted s) (segsR s) := rfl

/-- rooted roots: the argument of `C08.realPath_confined`, in the general wording -/
theorem realPath_confined_rooted (base name p : Str) (hb : isRooted base = true)
    (h : realPath base name = some p) :
    isRooted p = true ∧ ∃ rest, segsR p = segsR base ++ rest ∧ ∀ x ∈ rest, Normal x := by
  unfold realPath at h
  simp only at h
  have hD : ∀ x ∈ segsR base, Normal x := by
    unfold segsR; rw [hb]; exact cleanSegs_rooted_normal _ (split_no_sep base)
  have hbp : clean base = render true (segsR base) := by rw [clean_eq_render, hb]
  have hbr : isRooted (clean base) = true := by rw [isRooted_clean]; exact hb
  have hjr : isRooted (join2 (clean base) name) = true := by
    rw [isRooted_join2 _ _ (clean_ne_nil base)]; exact hbr
  generalize join2 (clean base) name = J at h hjr
  have hP : ∀ x ∈ segsR J, Normal x := by
    unfold segsR; rw [hjr]; exact cleanSegs_rooted_normal _ (split_no_sep J)
  have hpath : clean J = render true (segsR J) := by rw [clean_eq_render, hjr]
  split at h
  · rename_i htest
    injection h with h
    subst h
    have hseg : segsR (clean J) = segsR J := by
      rw [hpath]; exact segsR_render_true _ hP
    refine ⟨by rw [isRooted_clean]; exact hjr, ?_⟩
    rw [hseg]
    have hd : clean base ≠ dot := by
      intro e; rw [e] at hbr; exact absurd hbr (by decide)
    unfold withinBasePath at htest
    simp only [hd, if_false, Bool.decide_or, Bool.or_eq_true, decide_eq_true_eq, Bool.decide_and,
      Bool.and_eq_true] at htest
    have hpre : segsR base <+: segsR J := by
      apply prefix_of_string_test _ _ hD hP
      rw [hpath, hbp] at htest
      rcases htest with h1 | h1
      · exact Or.inl h1
      · exact Or.inr h1.1
    obtain ⟨rest, hrest⟩ := hpre
    refine ⟨rest, hrest.symm, ?_⟩
    intro x hx
    exact hP x (by rw [← hrest]; exact List.mem_append_right _ hx)
  · exact absurd h (by simp)

/-- relative roots -/
theorem realPath_confined_rel (base name p : Str) (hb : isRooted base = false)
    (h : realPath base name = some p) :
    isRooted p = false ∧ ∃ rest, segsR p = segsR base ++ rest ∧ ∀ x ∈ rest, Normal x := by
  unfold realPath at h
  simp only at h
  have hD : RelShape (segsR base) := by
    unfold segsR; rw [hb]; exact cleanSegs_rel_shape _ (split_no_sep base)
  have hbp : clean base = render false (segsR base) := by rw [clean_eq_render, hb]
  have hbr : isRooted (clean base) = false := by rw [isRooted_clean]; exact hb
  have hjr : isRooted (join2 (clean base) name) = false := by
    rw [isRooted_join2 _ _ (clean_ne_nil base)]; exact hbr
  generalize join2 (clean base) name = J at h hjr
  have hP : RelShape (segsR J) := by
    unfold segsR; rw [hjr]; exact cleanSegs_rel_shape _ (split_no_sep J)
  have hpath : clean J = render false (segsR J) := by rw [clean_eq_render, hjr]
  split at h
  · rename_i htest
    injection h with h
    subst h
    refine ⟨by rw [isRooted_clean]; exact hjr, ?_⟩
    rw [hpath, segsR_render_false _ hP]
    rw [hpath, hbp] at htest
    generalize segsR base = D at hD htest
    generalize segsR J = P at hP htest
    unfold withinBasePath at htest
    simp only [Bool.decide_or, Bool.or_eq_true, decide_eq_true_eq] at htest
    rcases htest with heq | htest
    · -- the path is the root
      have := congrArg segsR heq
      rw [segsR_render_false _ hP, segsR_render_false _ hD] at this
      exact ⟨[], by simp [this], by simp⟩
    · obtain ⟨u, q, hPe, hu, hq⟩ := hP
      by_cases hdot : render false D = dot
      · -- the root is "."
        have hDnil : D = [] := by
          have := congrArg segsR hdot
          rw [segsR_render_false _ hD] at this
          rw [this]; decide
        simp only [hdot, if_true] at htest
        subst hDnil
        refine ⟨P, by simp, ?_⟩
        cases hPc : P with
        | nil => simp
        | cons s0 S' =>
          have hsp : split (render false P) = P :=
            split_render_false P ⟨u, q, hPe, hu, hq⟩ (by rw [hPc]; simp)
          have h0 : s0 ≠ dotdot := by
            intro e0
            apply restOK_head _ htest S'
            rw [hsp, hPc, e0]
          rw [hPc] at hPe
          exact relShape_tail_normal u q [] S' s0 hu hq (by simpa using hPe.symm) h0
      · -- the root is something else: prefix on a separator boundary
        simp only [hdot, if_false, Bool.decide_and, Bool.and_eq_true, decide_eq_true_eq] at htest
        obtain ⟨hpre, hok⟩ := htest
        have hDne : D ≠ [] := by intro e; apply hdot; rw [e]; rfl
        have hspD : split (render false D) = D := split_render_false D hD hDne
        -- a cleaned relative root does not end with a separator
        have htrim : trimSuffixSep (render false D) = render false D := by
          rcases trimSuffixSep_spec (render false D) with h1 | h1
          · exact h1
          · have h2 := hspD
            rw [h1, split_append_sep] at h2
            have h3 : ([] : Seg) ∈ D := by rw [← h2]; simp [split, splitAux]
            exact absurd rfl (hD.elems [] h3).1
        rw [htrim] at hpre hok
        unfold hasPrefix at hpre
        obtain ⟨rest, hrest⟩ := List.isPrefixOf_iff_prefix.mp hpre
        rw [← hrest, List.drop_left] at hok
        have hPne : P ≠ [] := by
          intro e
          rw [e] at hrest
          have : sep ∈ render false ([] : List Seg) := by rw [← hrest]; simp
          exact absurd this (by decide)
        have hsp : split (render false P) = P := split_render_false P ⟨u, q, hPe, hu, hq⟩ hPne
        have hsplit : P = D ++ split rest := by
          rw [← hsp, ← hrest, List.append_assoc]
          show split (render false D ++ sep :: rest) = D ++ split rest
          rw [split_append_sep, hspD]
        refine ⟨split rest, hsplit, ?_⟩
        cases hS : split rest with
        | nil => simp
        | cons s0 S' =>
          have h0 : s0 ≠ dotdot := by
            intro e0
            apply restOK_head _ hok S'
            rw [hS, e0]
          rw [hS] at hsplit
          exact relShape_tail_normal u q D S' s0 hu hq (by rw [← hPe]; exact hsplit) h0
  · exact absurd h (by simp)

/-- **C08, BasePathFs, every root.** Whatever root the base-path filesystem has — absolute or
    relative, "", ".", "rel", "./rel/", "..", "../..", "../up" — and for *every* name string: a
    path that `RealPath` accepts is rooted iff the root is, and its cleaned segments are the root's
    cleaned segments followed by normal segments only.  In particular no `..` after the root's own
    (possibly leading-`..`) segments: the path denotes the root or something below it, never a
    sibling, an ancestor, or (for a root like "..") something further up. -/
theorem realPath_confined_all (base name p : Str) (h : realPath base name = some p) :
    isRooted p = isRooted base ∧
    ∃ rest, segsR p = segsR base ++ rest ∧ ∀ x ∈ rest, Normal x := by
  cases hb : isRooted base with
  | true => exact realPath_confined_rooted base name p hb h
  | false => exact realPath_confined_rel base name p hb h

/-- what is rejected is reported as not existing: an accepted name never leaves the root -/
theorem escape_is_notexist_all (base name : Str)
    (hesc : ¬ ∃ rest, segsR (clean (join2 (clean base) name)) = segsR base ++ rest ∧ ∀ x ∈ rest, Normal x) :
    realPath base name = none := by
  cases h : realPath base name with
  | none => rfl
  | some p =>
    have hc := realPath_confined_all base name p h
    have hp : p = clean (join2 (clean base) name) := by
      unfold realPath at h; simp only at h
      split at h
      · injection h with h; exact h.symm
      · exact absurd h (by simp)
    rw [← hp] at hesc
    exact absurd hc.2 hesc

/-! ### non-vacuity, on concrete strings -/

example : realPath ".".toList "a/../b".toList = some "b".toList := by decide
example : realPath "..".toList "b".toList = some "../b".toList := by decide
example : realPath "..".toList "../b".toList = none := by decide
example : realPath ".".toList "../b".toList = none := by decide
example : realPath "rel".toList "../rel/x".toList = some "rel/x".toList := by decide
example : realPath "../up".toList "../../y".toList = none := by decide
example : realPath "".toList "x/../../y".toList = none := by decide
example : realPath "../..".toList "../../rel/x".toList = none := by decide
example : realPath "./rel/".toList "a/./b".toList = some "rel/a/b".toList := by decide
example : segsR "../up/b".toList = segsR "../up".toList ++ ["b".toList] := by decide

end AferoVerif
