/-
  A filter stacked on a filter: `NewRegexpFs(NewRegexpFs(src, p1), p2)`.

  * Part 1 — `reStepOn src pred`: regexpfs.go transcribed once more, this time over an ARBITRARY source
    given by its step function `src : σ → Op → σ × MRes`.  Where `reStep` (Model/RegexpFs.lean) looks into
    the `MemFs` ("is it a directory?"), `reStepOn` does what the Go code does: `IsDir(r.source, name)`, i.e.
    one call of the source's `Stat` (`isDirOn`), whose state it threads on.  `reStepOn_mem`: over the MemFs
    step function it IS `reStep`, for every op.
  * Part 2 — the stack `reStack p1 p2 = reStepOn (reStep p1) p2`: its state is the inner filter's state
    (the source and the set of handles the INNER filter wrapped) plus the set of handles the OUTER filter
    wrapped.  `stack_sim`: one call of the stack answers what the single filter with the conjunction
    `fun s => p1 s && p2 s` answers and leaves the same source; for every state and every op, the only
    proviso being, for the two listing calls, that the handle is wrapped by both levels or by none
    (which is so for every handle obtained through the stack: `stackOf`, `stack_step`, `stack_run`).
  * Part 3 — listings: a page of the stack is the source's page filtered twice, which is the page filtered
    by the conjunction — each level reads `n` entries from the level below ONCE and drops the non-matching
    ones, so stack and conjunction filter consume the same `n` source entries per call.
  * Part 4 — hidden / never listed for the stack, directly.
-/
import AferoVerif.Props.C13
set_option linter.unusedSimpArgs false
namespace AferoVerif

/-! ## Part 1 — RegexpFs over an arbitrary source -/

/-- state of a `RegexpFs` over a source with states `σ`: the source, and the handles that are
    `RegexpFile`s of THIS filter (obtained through its Open/OpenFile) -/
structure ReStOn (σ : Type) where
  m : σ
  filtered : List Nat := []

/-- `IsDir(source, name)`: `fi, err := source.Stat(name); if err != nil { return false, err };
    return fi.IsDir(), nil` — the state the source's `Stat` leaves, the flag, the error (whatever `Stat`
    answered that is not a FileInfo) -/
def isDirOn {σ : Type} (src : σ → Op → σ × MRes) (m : σ) (name : Str) : σ × Bool × Option MRes :=
  let r := src m (.stat name)
  match r.2 with
  | .info _ _ d _ => (r.1, d, none)
  | other => (r.1, false, some other)

/-- `dirOrMatches`: the error of IsDir, else fine (`none`) for a directory, else the pattern decides -/
def dirOrMatchesOn {σ : Type} (src : σ → Op → σ × MRes) (pred : Str → Bool) (m : σ) (name : Str) :
    σ × Option MRes :=
  match isDirOn src m name with
  | (m', _, some e) => (m', some e)
  | (m', true, none) => (m', none)
  | (m', false, none) => (m', if pred name then none else some (.err .notexist))

/-- one call of `NewRegexpFs(source, re)`, `pred` being `re.MatchString ∘ filepath.Clean`; regexpfs.go
    method by method -/
def reStepOn {σ : Type} (src : σ → Op → σ × MRes) (pred : Str → Bool) (s : ReStOn σ) (op : Op) :
    ReStOn σ × MRes :=
  -- `return r.source.<Method>(…)`
  let fwd (m : σ) (op : Op) : ReStOn σ × MRes := let r := src m op; ({ s with m := r.1 }, r.2)
  -- `return err` / `return nil, err`
  let stop (m : σ) (e : MRes) : ReStOn σ × MRes := ({ s with m := m }, e)
  -- `f, err := r.source.Open…(…); if err != nil { return nil, err }; return &RegexpFile{f: f, re: r.re}, nil`
  let wrap (m : σ) (op : Op) : ReStOn σ × MRes :=
    let r := src m op
    match r.2 with
    | .handle h none => ({ m := r.1, filtered := s.filtered ++ [h] }, .handle h none)
    | .handle _ (some e) => ({ s with m := r.1 }, .err e)
    | other => ({ s with m := r.1 }, other)
  -- `if err := r.dirOrMatches(name); err != nil { return err }; return r.source.<Method>(…)`
  let gate (name : Str) (k : σ → ReStOn σ × MRes) : ReStOn σ × MRes :=
    match dirOrMatchesOn src pred s.m name with
    | (m, some e) => stop m e
    | (m, none) => k m
  match op with
  | .chtimes p _ => gate p (fwd · op)
  | .chmod p _ => gate p (fwd · op)
  | .chown p _ _ => gate p (fwd · op)
  | .stat p => gate p (fwd · op)
  | .remove p => gate p (fwd · op)
  | .openFile p _ _ => gate p (wrap · op)
  | .rename a b =>
    match isDirOn src s.m a with
    | (m, _, some e) => stop m e
    | (m, true, none) => stop m .ok                       -- a directory: silently nothing
    | (m, false, none) =>
      if !pred a then stop m (.err .notexist)
      else if !pred b then stop m (.err .notexist)
      else fwd m op
  | .removeAll p =>
    match isDirOn src s.m p with
    | (m, _, some e) => stop m e
    | (m, true, none) => fwd m op
    | (m, false, none) => if pred p then fwd m op else stop m (.err .notexist)
  | .open_ p =>
    match isDirOn src s.m p with
    | (m, _, some e) => stop m e
    | (m, true, none) => wrap m op
    | (m, false, none) => if pred p then wrap m op else stop m (.err .notexist)
  | .mkdir _ _ => fwd s.m op
  | .mkdirAll _ _ => fwd s.m op
  | .create p => if pred p then fwd s.m op else stop s.m (.err .notexist)
  | .hReaddir h n =>
    -- a RegexpFile: `rfi, err = f.f.Readdir(c); if err != nil { return nil, err }`, keep directories and
    -- matching names; any other handle is the source's own file
    let r := src s.m (.hReaddir h n)
    if s.filtered.contains h then
      match r.2 with
      | .infos es none => ({ s with m := r.1 }, .infos (es.filter fun e => e.2 || pred e.1) none)
      | .infos _ (some e) => ({ s with m := r.1 }, .infos [] (some e))
      | other => ({ s with m := r.1 }, other)
    else ({ s with m := r.1 }, r.2)
  | .hReaddirnames h n =>
    -- a RegexpFile: `fi, err := f.Readdir(c)` — its OWN Readdir — then the names
    if s.filtered.contains h then
      let r := src s.m (.hReaddir h n)
      match r.2 with
      | .infos es none => ({ s with m := r.1 }, .names ((es.filter fun e => e.2 || pred e.1).map (·.1)) none)
      | .infos _ (some e) => ({ s with m := r.1 }, .names [] (some e))
      | other => ({ s with m := r.1 }, other)
    else fwd s.m op
  | op => fwd s.m op

/-- the two presentations of the state of a filter over the MemFs model -/
def ReStOn.toRe (s : ReStOn MemFs) : ReSt := { m := s.m, filtered := s.filtered }
def ReSt.on (s : ReSt) : ReStOn MemFs := { m := s.m, filtered := s.filtered }

@[simp] theorem ReSt.on_toRe (s : ReSt) : s.on.toRe = s := rfl
@[simp] theorem ReStOn.toRe_on (s : ReStOn MemFs) : s.toRe.on = s := rfl

theorem step_stat (m : MemFs) (x : Str) : m.step (.stat x) = (m, m.stat (keyOfStr x)) := rfl

/-- `IsDir` over the MemFs step function is `fsIsDir` -/
theorem isDirOn_mem (m : MemFs) (x : Str) :
    isDirOn MemFs.step m x = (m, (fsIsDir m (keyOfStr x)).1, (fsIsDir m (keyOfStr x)).2.map .err) := by
  unfold isDirOn fsIsDir
  rw [step_stat]
  unfold MemFs.stat
  cases m.lookup (keyOfStr x) <;> simp

theorem dirOrMatchesOn_mem (pred : Str → Bool) (m : MemFs) (x : Str) :
    dirOrMatchesOn MemFs.step pred m x = (m, (reDirOrMatches pred m x).map .err) := by
  unfold dirOrMatchesOn reDirOrMatches
  rw [isDirOn_mem]
  unfold fsIsDir
  cases m.lookup (keyOfStr x) with
  | none => simp
  | some f => cases hd : (m.obj f).dir <;> cases hp : pred x <;> simp [hd, hp]

/-- what the MemFs answers to Open / OpenFile of a name that exists: a handle WITHOUT error, or an error
    (the only handle-with-error of memmap.go is the chmod after a creating OpenFile) -/
theorem openRO_existing (m : MemFs) (k : Key) (f : Nat) (hl : m.lookup k = some f) :
    ∃ m' h, m.openRO k = (m', .handle h none) := by
  unfold MemFs.openRO; rw [hl]; exact ⟨_, _, rfl⟩

theorem openFile_existing (m : MemFs) (k : Key) (f : Nat) (fl pm : Nat) (hl : m.lookup k = some f) :
    (∃ m' h, m.openFile k fl pm = (m', .handle h none)) ∨ m.openFile k fl pm = (m, .err .exist) := by
  unfold MemFs.openFile
  simp only [hl, Option.isSome_some, true_and]
  split
  · exact Or.inr rfl
  · left
    by_cases ht : fl &&& O_TRUNC > 0 ∧ fl &&& (O_RDWR ||| O_WRONLY) > 0
    · simp only [ht, and_self, if_true]; exact ⟨_, _, rfl⟩
    · simp only [ht, if_false]; exact ⟨_, _, rfl⟩

theorem gate_none_lookup (pred : Str → Bool) (m : MemFs) (x : Str) (h : reDirOrMatches pred m x = none) :
    ∃ f, m.lookup (keyOfStr x) = some f := by
  unfold reDirOrMatches fsIsDir at h
  cases hl : m.lookup (keyOfStr x) with
  | none => simp [hl] at h
  | some f => exact ⟨f, rfl⟩

theorem isDir_none_lookup (m : MemFs) (x : Str) (d : Bool) (h : fsIsDir m (keyOfStr x) = (d, none)) :
    ∃ f, m.lookup (keyOfStr x) = some f := by
  unfold fsIsDir at h
  cases hl : m.lookup (keyOfStr x) with
  | none => simp [hl] at h
  | some f => exact ⟨f, rfl⟩

/-- **sanity**: over the MemFs step function, the source-generic transcription is `reStep` — same answer,
    same source state, same wrapped handles; for every op. -/
theorem reStepOn_mem (pred : Str → Bool) (s : ReStOn MemFs) (op : Op) :
    reStepOn MemFs.step pred s op = ((reStep pred s.toRe op).1.on, (reStep pred s.toRe op).2) := by
  cases op with
  | stat p | chmod p _ | chown p _ _ | chtimes p _ | remove p =>
    simp only [reStepOn, reStep, dirOrMatchesOn_mem, ReStOn.toRe]
    cases reDirOrMatches pred s.m p <;> rfl
  | openFile p fl pm =>
    simp only [reStepOn, reStep, dirOrMatchesOn_mem, ReStOn.toRe]
    cases hg : reDirOrMatches pred s.m p with
    | some e => rfl
    | none =>
      obtain ⟨f, hl⟩ := gate_none_lookup pred s.m p hg
      have hs : s.m.step (.openFile p fl pm) = s.m.openFile (keyOfStr p) fl pm := rfl
      rcases openFile_existing s.m (keyOfStr p) f fl pm hl with ⟨m', h, he⟩ | he <;>
        simp only [Option.map_none, hs, he] <;> rfl
  | open_ p =>
    simp only [reStepOn, reStep, isDirOn_mem, ReStOn.toRe]
    rcases hd : fsIsDir s.m (keyOfStr p) with ⟨d, _ | e⟩
    · obtain ⟨f, hl⟩ := isDir_none_lookup s.m p d hd
      have hs : s.m.step (.open_ p) = s.m.openRO (keyOfStr p) := rfl
      obtain ⟨m', h, he⟩ := openRO_existing s.m (keyOfStr p) f hl
      cases d <;> cases hp : pred p <;> simp [hs, he, ReSt.on]
    · rfl
  | rename a b =>
    simp only [reStepOn, reStep, isDirOn_mem, ReStOn.toRe]
    rcases hd : fsIsDir s.m (keyOfStr a) with ⟨d, _ | e⟩
    · cases d <;> cases hp : pred a <;> cases hq : pred b <;> simp [ReSt.on]
    · rfl
  | removeAll p =>
    simp only [reStepOn, reStep, isDirOn_mem, ReStOn.toRe]
    rcases hd : fsIsDir s.m (keyOfStr p) with ⟨d, _ | e⟩
    · cases d <;> cases hp : pred p <;> simp [ReSt.on]
    · rfl
  | create p =>
    simp only [reStepOn, reStep, ReStOn.toRe]
    cases pred p <;> rfl
  | hReaddir h n =>
    simp only [reStepOn, reStep, ReStOn.toRe]
    by_cases hh : s.filtered.contains h = true
    · simp only [hh, if_true]
      generalize s.m.step (.hReaddir h n) = r
      obtain ⟨m', res⟩ := r
      cases res with
      | infos es e => cases e <;> rfl
      | _ => rfl
    · simp only [hh]; rfl
  | hReaddirnames h n =>
    simp only [reStepOn, reStep, ReStOn.toRe]
    by_cases hh : s.filtered.contains h = true
    · simp only [hh, if_true]
      generalize s.m.step (.hReaddir h n) = r
      obtain ⟨m', res⟩ := r
      cases res with
      | infos es e => cases e <;> rfl
      | _ => rfl
    · simp only [hh]; rfl
  | _ => rfl

/-! ## Part 2 — the stack -/

/-- state of `NewRegexpFs(NewRegexpFs(src, p1), p2)`: `S.m` is the inner filter (`S.m.m` the source,
    `S.m.filtered` the handles the inner filter wrapped), `S.filtered` the handles the outer one wrapped -/
abbrev StackSt := ReStOn ReSt

/-- one call of the stack: the outer filter (`p2`) calls the inner one (`p1`) as its source -/
def reStack (p1 p2 : Str → Bool) : StackSt → Op → StackSt × MRes := reStepOn (reStep p1) p2

/-- the conjunction of the two patterns -/
def conjPred (p1 p2 : Str → Bool) : Str → Bool := fun s => p1 s && p2 s

/-- the state of the single filter that a stack state corresponds to: the source, the outer wrappers -/
def ReStOn.flat (S : StackSt) : ReSt := { m := S.m.m, filtered := S.filtered }

/-- the handle of a listing call -/
def Op.listing? : Op → Option Nat
  | .hReaddir h _ | .hReaddirnames h _ => some h
  | _ => none

theorem reStep_stat (p : Str → Bool) (s : ReSt) (x : Str) :
    reStep p s (.stat x) =
      (s, match reDirOrMatches p s.m x with | some e => .err e | none => s.m.stat (keyOfStr x)) := by
  simp only [reStep]
  cases reDirOrMatches p s.m x <;> rfl

/-- `IsDir(inner filter, x)`, by what `x` is in the source -/
theorem isDirOn_re_missing (p : Str → Bool) (s : ReSt) (x : Str) (hl : s.m.lookup (keyOfStr x) = none) :
    isDirOn (reStep p) s x = (s, false, some (.err .notexist)) := by
  simp [isDirOn, reStep_stat, reDirOrMatches, fsIsDir, hl]

theorem isDirOn_re_dir (p : Str → Bool) (s : ReSt) (x : Str) (f : Nat) (hl : s.m.lookup (keyOfStr x) = some f)
    (hd : (s.m.obj f).dir = true) : isDirOn (reStep p) s x = (s, true, none) := by
  simp [isDirOn, reStep_stat, reDirOrMatches, fsIsDir, hl, hd, MemFs.stat]

theorem isDirOn_re_file (p : Str → Bool) (s : ReSt) (x : Str) (f : Nat) (hl : s.m.lookup (keyOfStr x) = some f)
    (hd : (s.m.obj f).dir = false) :
    isDirOn (reStep p) s x = (s, false, if p x then none else some (.err .notexist)) := by
  cases hp : p x <;> simp [isDirOn, reStep_stat, reDirOrMatches, fsIsDir, hl, hd, MemFs.stat, hp]

/-- filtered twice = filtered by the conjunction (directories pass both) -/
theorem filter_twice (p1 p2 : Str → Bool) (es : List (Str × Bool)) :
    (es.filter fun e => e.2 || p1 e.1).filter (fun e => e.2 || p2 e.1) =
      es.filter fun e => e.2 || conjPred p1 p2 e.1 := by
  rw [List.filter_filter]
  congr 1
  funext e
  cases e.2 <;> cases h1 : p1 e.1 <;> cases h2 : p2 e.1 <;> simp [conjPred, h1, h2]

set_option hygiene false in
/-- the five gated calls that forward unchanged, and RemoveAll -/
local macro "stack_gate" x:term : tactic => `(tactic| (
  cases hl : S.m.m.lookup (keyOfStr $x) with
  | none =>
    refine ⟨?_, ?_, [], ?_, ?_, ?_⟩ <;>
    simp [reStack, reStepOn, dirOrMatchesOn, isDirOn_re_missing _ _ _ hl, reStep, reDirOrMatches, fsIsDir, hl,
      ReStOn.flat]
  | some f =>
    cases hd : (S.m.m.obj f).dir with
    | true =>
      refine ⟨?_, ?_, [], ?_, ?_, ?_⟩ <;>
      simp [reStack, reStepOn, dirOrMatchesOn, isDirOn_re_dir _ _ _ _ hl hd, reStep, reDirOrMatches, fsIsDir, hl, hd,
        ReStOn.flat]
    | false =>
      refine ⟨?_, ?_, [], ?_, ?_, ?_⟩ <;>
      cases h1 : p1 $x <;> cases h2 : p2 $x <;>
      simp [reStack, reStepOn, dirOrMatchesOn, isDirOn_re_file _ _ _ _ hl hd, reStep, reDirOrMatches, fsIsDir, hl, hd,
        ReStOn.flat, conjPred, h1, h2]))

/-- **the stack is the conjunction filter**, one call, for EVERY state of the stack: the answer is the
    single filter's answer, the source is left the same (bytes, path map, handles — the whole `MemFs`),
    and the call wraps the same handles `l` (none, or the one just opened) at both levels as the single
    filter wraps.  Proviso, for the two listing calls only: the handle is wrapped at both levels or at
    none. -/
theorem stack_sim (p1 p2 : Str → Bool) (S : StackSt) (op : Op)
    (hop : ∀ h, op.listing? = some h → S.m.filtered.contains h = S.filtered.contains h) :
    (reStack p1 p2 S op).2 = (reStep (conjPred p1 p2) S.flat op).2 ∧
    (reStack p1 p2 S op).1.m.m = (reStep (conjPred p1 p2) S.flat op).1.m ∧
    ∃ l, (reStep (conjPred p1 p2) S.flat op).1.filtered = S.filtered ++ l ∧
         (reStack p1 p2 S op).1.filtered = S.filtered ++ l ∧
         (reStack p1 p2 S op).1.m.filtered = S.m.filtered ++ l := by
  cases op with
  | chmod x md => stack_gate x
  | chown x u g => stack_gate x
  | chtimes x t => stack_gate x
  | stat x => stack_gate x
  | remove x => stack_gate x
  | removeAll x => stack_gate x
  | rename x y =>
    cases hl : S.m.m.lookup (keyOfStr x) with
    | none =>
      refine ⟨?_, ?_, [], ?_, ?_, ?_⟩ <;>
      simp [reStack, reStepOn, isDirOn_re_missing _ _ _ hl, reStep, fsIsDir, hl, ReStOn.flat]
    | some f =>
      cases hd : (S.m.m.obj f).dir with
      | true =>
        refine ⟨?_, ?_, [], ?_, ?_, ?_⟩ <;>
        simp [reStack, reStepOn, isDirOn_re_dir _ _ _ _ hl hd, reStep, fsIsDir, hl, hd, ReStOn.flat]
      | false =>
        refine ⟨?_, ?_, [], ?_, ?_, ?_⟩ <;>
        cases h1 : p1 x <;> cases h2 : p2 x <;> cases h3 : p1 y <;> cases h4 : p2 y <;>
        simp [reStack, reStepOn, isDirOn_re_file _ _ _ _ hl hd, reStep, fsIsDir, hl, hd,
          ReStOn.flat, conjPred, h1, h2, h3, h4]
  | create x =>
    refine ⟨?_, ?_, [], ?_, ?_, ?_⟩ <;>
    cases h1 : p1 x <;> cases h2 : p2 x <;>
    simp [reStack, reStepOn, reStep, ReStOn.flat, conjPred, h1, h2]
  | open_ x =>
    cases hl : S.m.m.lookup (keyOfStr x) with
    | none =>
      refine ⟨?_, ?_, [], ?_, ?_, ?_⟩ <;>
      simp [reStack, reStepOn, isDirOn_re_missing _ _ _ hl, reStep, fsIsDir, hl, ReStOn.flat]
    | some f =>
      obtain ⟨m', h, he⟩ := openRO_existing S.m.m (keyOfStr x) f hl
      have hs : S.m.m.step (.open_ x) = (m', .handle h none) := he
      cases hd : (S.m.m.obj f).dir with
      | true =>
        refine ⟨?_, ?_, [h], ?_, ?_, ?_⟩ <;>
        simp [reStack, reStepOn, isDirOn_re_dir _ _ _ _ hl hd, reStep, fsIsDir, hl, hd, ReStOn.flat, hs]
      | false =>
        cases h1 : p1 x <;> cases h2 : p2 x
        · refine ⟨?_, ?_, [], ?_, ?_, ?_⟩ <;>
          simp [reStack, reStepOn, isDirOn_re_file _ _ _ _ hl hd, reStep, fsIsDir, hl, hd, ReStOn.flat, hs,
            conjPred, h1, h2]
        · refine ⟨?_, ?_, [], ?_, ?_, ?_⟩ <;>
          simp [reStack, reStepOn, isDirOn_re_file _ _ _ _ hl hd, reStep, fsIsDir, hl, hd, ReStOn.flat, hs,
            conjPred, h1, h2]
        · refine ⟨?_, ?_, [], ?_, ?_, ?_⟩ <;>
          simp [reStack, reStepOn, isDirOn_re_file _ _ _ _ hl hd, reStep, fsIsDir, hl, hd, ReStOn.flat, hs,
            conjPred, h1, h2]
        · refine ⟨?_, ?_, [h], ?_, ?_, ?_⟩ <;>
          simp [reStack, reStepOn, isDirOn_re_file _ _ _ _ hl hd, reStep, fsIsDir, hl, hd, ReStOn.flat, hs,
            conjPred, h1, h2]
  | openFile x fl pm =>
    cases hl : S.m.m.lookup (keyOfStr x) with
    | none =>
      refine ⟨?_, ?_, [], ?_, ?_, ?_⟩ <;>
      simp [reStack, reStepOn, dirOrMatchesOn, isDirOn_re_missing _ _ _ hl, reStep, reDirOrMatches, fsIsDir, hl,
        ReStOn.flat]
    | some f =>
      have hs0 : S.m.m.step (.openFile x fl pm) = S.m.m.openFile (keyOfStr x) fl pm := rfl
      rcases openFile_existing S.m.m (keyOfStr x) f fl pm hl with ⟨m', h, he⟩ | he
      · rw [← hs0] at he
        cases hd : (S.m.m.obj f).dir with
        | true =>
          refine ⟨?_, ?_, [h], ?_, ?_, ?_⟩ <;>
          simp [reStack, reStepOn, dirOrMatchesOn, isDirOn_re_dir _ _ _ _ hl hd, reStep, reDirOrMatches, fsIsDir,
            hl, hd, ReStOn.flat, he]
        | false =>
          cases h1 : p1 x <;> cases h2 : p2 x
          · refine ⟨?_, ?_, [], ?_, ?_, ?_⟩ <;>
            simp [reStack, reStepOn, dirOrMatchesOn, isDirOn_re_file _ _ _ _ hl hd, reStep, reDirOrMatches, fsIsDir,
              hl, hd, ReStOn.flat, he, conjPred, h1, h2]
          · refine ⟨?_, ?_, [], ?_, ?_, ?_⟩ <;>
            simp [reStack, reStepOn, dirOrMatchesOn, isDirOn_re_file _ _ _ _ hl hd, reStep, reDirOrMatches, fsIsDir,
              hl, hd, ReStOn.flat, he, conjPred, h1, h2]
          · refine ⟨?_, ?_, [], ?_, ?_, ?_⟩ <;>
            simp [reStack, reStepOn, dirOrMatchesOn, isDirOn_re_file _ _ _ _ hl hd, reStep, reDirOrMatches, fsIsDir,
              hl, hd, ReStOn.flat, he, conjPred, h1, h2]
          · refine ⟨?_, ?_, [h], ?_, ?_, ?_⟩ <;>
            simp [reStack, reStepOn, dirOrMatchesOn, isDirOn_re_file _ _ _ _ hl hd, reStep, reDirOrMatches, fsIsDir,
              hl, hd, ReStOn.flat, he, conjPred, h1, h2]
      · rw [← hs0] at he
        cases hd : (S.m.m.obj f).dir with
        | true =>
          refine ⟨?_, ?_, [], ?_, ?_, ?_⟩ <;>
          simp [reStack, reStepOn, dirOrMatchesOn, isDirOn_re_dir _ _ _ _ hl hd, reStep, reDirOrMatches, fsIsDir,
            hl, hd, ReStOn.flat, he]
        | false =>
          refine ⟨?_, ?_, [], ?_, ?_, ?_⟩ <;>
          cases h1 : p1 x <;> cases h2 : p2 x <;>
          simp [reStack, reStepOn, dirOrMatchesOn, isDirOn_re_file _ _ _ _ hl hd, reStep, reDirOrMatches, fsIsDir,
            hl, hd, ReStOn.flat, he, conjPred, h1, h2]
  | hReaddir h n =>
    have hi := hop h rfl
    by_cases hh : S.filtered.contains h = true
    · simp only [reStack, reStepOn, reStep, ReStOn.flat, hi, hh, if_true]
      generalize S.m.m.step (.hReaddir h n) = r
      obtain ⟨m', res⟩ := r
      cases res with
      | infos es e =>
        cases e with
        | none => exact ⟨congrArg (fun l => MRes.infos l none) (filter_twice p1 p2 es), rfl, [], by simp, by simp, by simp⟩
        | some e => exact ⟨rfl, rfl, [], by simp, by simp, by simp⟩
      | _ => exact ⟨rfl, rfl, [], by simp, by simp, by simp⟩
    · simp only [reStack, reStepOn, reStep, ReStOn.flat, hi, hh]
      exact ⟨rfl, rfl, [], by simp, by simp, by simp⟩
  | hReaddirnames h n =>
    have hi := hop h rfl
    by_cases hh : S.filtered.contains h = true
    · simp only [reStack, reStepOn, reStep, ReStOn.flat, hi, hh, if_true]
      generalize S.m.m.step (.hReaddir h n) = r
      obtain ⟨m', res⟩ := r
      cases res with
      | infos es e =>
        cases e with
        | none => exact ⟨congrArg (fun l => MRes.names (l.map (·.1)) none) (filter_twice p1 p2 es), rfl, [], by simp, by simp, by simp⟩
        | some e => exact ⟨rfl, rfl, [], by simp, by simp, by simp⟩
      | _ => exact ⟨rfl, rfl, [], by simp, by simp, by simp⟩
    · simp only [reStack, reStepOn, reStep, ReStOn.flat, hi, hh]
      exact ⟨rfl, rfl, [], by simp, by simp, by simp⟩
  | _ =>
    refine ⟨?_, ?_, [], ?_, ?_, ?_⟩ <;> simp [reStack, reStepOn, reStep, ReStOn.flat]

/-- the stack state in which both levels have wrapped exactly the handles the single filter `c` has: the
    states the stack is in when every handle was obtained through it (`stack_run`) -/
def stackOf (c : ReSt) : StackSt := { m := c, filtered := c.filtered }

theorem flat_stackOf (c : ReSt) : (stackOf c).flat = c := rfl

/-- one call from such a state: same answer, and the state that corresponds to the single filter's -/
theorem stack_step (p1 p2 : Str → Bool) (c : ReSt) (op : Op) :
    reStack p1 p2 (stackOf c) op =
      (stackOf (reStep (conjPred p1 p2) c op).1, (reStep (conjPred p1 p2) c op).2) := by
  obtain ⟨h2, hm, l, hc, ho, hi⟩ := stack_sim p1 p2 (stackOf c) op (fun _ _ => rfl)
  rw [flat_stackOf] at h2 hm hc
  generalize reStack p1 p2 (stackOf c) op = r at *
  generalize reStep (conjPred p1 p2) c op = c' at *
  obtain ⟨⟨⟨rm, rf⟩, rof⟩, rr⟩ := r
  obtain ⟨⟨cm, cf⟩, cr⟩ := c'
  simp only [stackOf] at *
  subst h2 hm
  rw [hc, ho, hi]

/-- a program: the answers, in order, and the final state -/
def runOn {σ : Type} (step : σ → Op → σ × MRes) : σ → List Op → σ × List MRes
  | s, [] => (s, [])
  | s, op :: ops => ((runOn step (step s op).1 ops).1, (step s op).2 :: (runOn step (step s op).1 ops).2)

/-- whole programs: the stack answers every call as the conjunction filter does, and ends in the
    corresponding state -/
theorem stack_run (p1 p2 : Str → Bool) (c : ReSt) (ops : List Op) :
    runOn (reStack p1 p2) (stackOf c) ops =
      (stackOf (runOn (reStep (conjPred p1 p2)) c ops).1, (runOn (reStep (conjPred p1 p2)) c ops).2) := by
  induction ops generalizing c with
  | nil => rfl
  | cons op ops ih =>
    simp only [runOn, stack_step, ih]

/-! ## Part 3 — listings through the stack -/

/-- a page: the source's page `es` of (at most) `n` entries, filtered by the inner and then by the outer
    filter, which is `es` filtered by the conjunction; `Readdirnames` shows the names of the same entries;
    the source has advanced by exactly its own page.  (A page may hold FEWER than `n` entries — also with
    the single filter.) -/
theorem stack_page (p1 p2 : Str → Bool) (S : StackSt) (h : Nat) (n : Int)
    (ho : S.filtered.contains h = true) (hi : S.m.filtered.contains h = true)
    (es : List (Str × Bool)) (hsrc : (S.m.m.step (.hReaddir h n)).2 = .infos es none) :
    (reStack p1 p2 S (.hReaddir h n)).2 =
      .infos ((es.filter fun e => e.2 || p1 e.1).filter fun e => e.2 || p2 e.1) none ∧
    (reStack p1 p2 S (.hReaddir h n)).2 = .infos (es.filter fun e => e.2 || (p1 e.1 && p2 e.1)) none ∧
    (reStack p1 p2 S (.hReaddirnames h n)).2 =
      .names ((es.filter fun e => e.2 || (p1 e.1 && p2 e.1)).map (·.1)) none ∧
    (reStack p1 p2 S (.hReaddir h n)).1.m.m = (S.m.m.step (.hReaddir h n)).1 ∧
    (reStack p1 p2 S (.hReaddirnames h n)).1.m.m = (S.m.m.step (.hReaddir h n)).1 := by
  have ht := filter_twice p1 p2 es
  simp only [conjPred] at ht
  refine ⟨?_, ?_, ?_, ?_, ?_⟩ <;> simp only [reStack, reStepOn, reStep, ho, hi, hsrc, if_true, ht]

/-- the end of the listing (or any error of the source's Readdir): nothing, and that error -/
theorem stack_page_err (p1 p2 : Str → Bool) (S : StackSt) (h : Nat) (n : Int)
    (ho : S.filtered.contains h = true) (hi : S.m.filtered.contains h = true)
    (es : List (Str × Bool)) (e : FErr) (hsrc : (S.m.m.step (.hReaddir h n)).2 = .infos es (some e)) :
    (reStack p1 p2 S (.hReaddir h n)).2 = .infos [] (some e) ∧
    (reStack p1 p2 S (.hReaddirnames h n)).2 = .names [] (some e) := by
  refine ⟨?_, ?_⟩ <;> simp only [reStack, reStepOn, reStep, ho, hi, hsrc, if_true]

/-- why `stack_sim` has its proviso: a handle wrapped by the outer filter only (such a handle cannot be
    obtained through the stack) lists through `p2` alone -/
theorem stack_page_outer_only (p1 p2 : Str → Bool) (S : StackSt) (h : Nat) (n : Int)
    (ho : S.filtered.contains h = true) (hi : S.m.filtered.contains h = false)
    (es : List (Str × Bool)) (hsrc : (S.m.m.step (.hReaddir h n)).2 = .infos es none) :
    (reStack p1 p2 S (.hReaddir h n)).2 = .infos (es.filter fun e => e.2 || p2 e.1) none := by
  simp only [reStack, reStepOn, reStep, ho, hi, hsrc, if_true, Bool.false_eq_true, if_false]

/-! ## Part 4 — hidden, never listed -/

/-- a regular file that fails `p1` or fails `p2`: every call on its name fails with not-exist and
    leaves the whole stack state as it was -/
theorem stack_hidden (p1 p2 : Str → Bool) (S : StackSt) (p : Str) (hf : C13.IsFile S.m.m p)
    (hp : p1 p = false ∨ p2 p = false) (op : Op)
    (hop : op = .stat p ∨ op = .open_ p ∨ (∃ fl pm, op = .openFile p fl pm) ∨ (∃ md, op = .chmod p md) ∨
           (∃ u g, op = .chown p u g) ∨ (∃ t, op = .chtimes p t) ∨ op = .remove p ∨ op = .create p ∨
           op = .removeAll p) :
    reStack p1 p2 S op = (S, .err .notexist) := by
  obtain ⟨f, hl, hd⟩ := hf
  have hfile := isDirOn_re_file p1 S.m p f hl hd
  rcases hop with rfl | rfl | ⟨fl, pm, rfl⟩ | ⟨md, rfl⟩ | ⟨u, g, rfl⟩ | ⟨t, rfl⟩ | rfl | rfl | rfl <;>
    cases h1 : p1 p <;> cases h2 : p2 p <;>
    simp [h1, h2] at hp <;>
    simp [reStack, reStepOn, dirOrMatchesOn, hfile, reStep, reDirOrMatches, fsIsDir, hl, hd, h1, h2]

theorem stack_hidden_rename_from (p1 p2 : Str → Bool) (S : StackSt) (p q : Str) (hf : C13.IsFile S.m.m p)
    (hp : p1 p = false ∨ p2 p = false) :
    reStack p1 p2 S (.rename p q) = (S, .err .notexist) := by
  obtain ⟨f, hl, hd⟩ := hf
  have hfile := isDirOn_re_file p1 S.m p f hl hd
  cases h1 : p1 p <;> cases h2 : p2 p <;> simp [h1, h2] at hp <;>
    simp [reStack, reStepOn, hfile, h1, h2]

theorem stack_hidden_rename_to (p1 p2 : Str → Bool) (S : StackSt) (a p : Str) (ha : C13.IsFile S.m.m a)
    (hp : p1 p = false ∨ p2 p = false) :
    reStack p1 p2 S (.rename a p) = (S, .err .notexist) := by
  obtain ⟨f, hl, hd⟩ := ha
  have hfile := isDirOn_re_file p1 S.m a f hl hd
  cases h1 : p1 p <;> cases h2 : p2 p <;> simp [h1, h2] at hp <;>
    cases h3 : p1 a <;> cases h4 : p2 a <;>
    simp [reStack, reStepOn, hfile, reStep, fsIsDir, hl, hd, h1, h2, h3, h4]

/-- **matching files and directories are transparent through the stack**: for a directory, or a regular
    file that matches both patterns, Stat / Chmod / Chown / Chtimes / Remove answer what the source answers
    and do to the source what the call does on the source itself -/
theorem stack_transparent (p1 p2 : Str → Bool) (S : StackSt) (p : Str)
    (hv : C13.IsDirectory S.m.m p ∨ (C13.IsFile S.m.m p ∧ p1 p = true ∧ p2 p = true)) (op : Op)
    (hop : op = .stat p ∨ (∃ md, op = .chmod p md) ∨ (∃ u g, op = .chown p u g) ∨ (∃ t, op = .chtimes p t) ∨
           op = .remove p) :
    (reStack p1 p2 S op).2 = (S.m.m.step op).2 ∧ (reStack p1 p2 S op).1.m.m = (S.m.m.step op).1 ∧
    (reStack p1 p2 S op).1.filtered = S.filtered ∧ (reStack p1 p2 S op).1.m.filtered = S.m.filtered := by
  have hv' : C13.IsDirectory S.flat.m p ∨ (C13.IsFile S.flat.m p ∧ conjPred p1 p2 p = true) := by
    rcases hv with hd | ⟨hf, h1, h2⟩
    · exact Or.inl hd
    · exact Or.inr ⟨hf, by simp [conjPred, h1, h2]⟩
  have ht := C13.matching_transparent (conjPred p1 p2) S.flat p hv' op hop
  have hl : ∀ h, op.listing? = some h → S.m.filtered.contains h = S.filtered.contains h := by
    intro h hh
    rcases hop with rfl | ⟨md, rfl⟩ | ⟨u, g, rfl⟩ | ⟨t, rfl⟩ | rfl <;> cases hh
  obtain ⟨h2, hm, l, hc, ho, hi⟩ := stack_sim p1 p2 S op hl
  rw [ht] at h2 hm hc
  have hnil : l = [] := by
    have : S.filtered = S.filtered ++ l := hc
    simpa using this
  subst hnil
  exact ⟨h2, hm, by simpa using ho, by simpa using hi⟩

/-- Rename of a regular file that matches both patterns to a name that matches both is the source's Rename -/
theorem stack_rename_matching (p1 p2 : Str → Bool) (S : StackSt) (a b : Str) (ha : C13.IsFile S.m.m a)
    (h1a : p1 a = true) (h2a : p2 a = true) (h1b : p1 b = true) (h2b : p2 b = true) :
    (reStack p1 p2 S (.rename a b)).2 = (S.m.m.step (.rename a b)).2 ∧
    (reStack p1 p2 S (.rename a b)).1.m.m = (S.m.m.step (.rename a b)).1 := by
  obtain ⟨f, hl, hd⟩ := ha
  have hfile := isDirOn_re_file p1 S.m a f hl hd
  constructor <;> simp [reStack, reStepOn, hfile, reStep, fsIsDir, hl, hd, h1a, h2a, h1b, h2b]

/-- whatever a handle wrapped at both levels lists, for every page size: directories, and names that
    match both patterns -/
theorem stack_never_listed (p1 p2 : Str → Bool) (S : StackSt) (h : Nat) (n : Int)
    (ho : S.filtered.contains h = true) (hi : S.m.filtered.contains h = true)
    (es : List (Str × Bool)) (e : Option FErr) (hres : (reStack p1 p2 S (.hReaddir h n)).2 = .infos es e) :
    ∀ x ∈ es, x.2 = true ∨ (p1 x.1 = true ∧ p2 x.1 = true) := by
  have hs := (stack_sim p1 p2 S (.hReaddir h n) (by intro h' hh; cases hh; rw [ho, hi])).1
  rw [hs] at hres
  intro x hx
  have := (C13.never_listed (conjPred p1 p2) S.flat h n ho).1 es e hres x hx
  simpa [conjPred] using this

theorem stack_never_listed_names (p1 p2 : Str → Bool) (S : StackSt) (h : Nat) (n : Int)
    (ho : S.filtered.contains h = true) (hi : S.m.filtered.contains h = true)
    (ns : List Str) (e : Option FErr) (hres : (reStack p1 p2 S (.hReaddirnames h n)).2 = .names ns e) :
    ∃ es : List (Str × Bool), ns = es.map (·.1) ∧ ∀ x ∈ es, x.2 = true ∨ (p1 x.1 = true ∧ p2 x.1 = true) := by
  have hs := (stack_sim p1 p2 S (.hReaddirnames h n) (by intro h' hh; cases hh; rw [ho, hi])).1
  rw [hs] at hres
  obtain ⟨es, h1, h2⟩ := C13.never_listed_names (conjPred p1 p2) S.flat h n ho ns e hres
  exact ⟨es, h1, fun x hx => by simpa [conjPred] using h2 x hx⟩

/-! ## evaluating a listing of the model on a concrete tree -/

/-- `List.mergeSort` does not reduce by `decide`; on a directory whose entries were inserted in name
    order it does nothing -/
theorem dirFiles_sorted (m : MemFs) (d : FData)
    (hs : (d.memDir.getD []).Pairwise (fun a b => strLe a.1.render b.1.render = true)) :
    m.dirFiles d = (d.memDir.getD []).map (·.2) := by
  unfold MemFs.dirFiles
  dsimp only
  rw [List.mergeSort_of_pairwise hs]

end AferoVerif
