/-
  Lemmas about the archive model (Model/Archive.lean): association lists as Go maps, the
  two-level `files` map, what `zipBuild` / `tarBuild` store, and the read arithmetic of
  `fillBuffer`.
-/
import AferoVerif.Model.Archive
namespace AferoVerif.Archive

/-! ### association lists -/

theorem aget_aset {β : Type} (k k' : Str) (v : β) (m : List (Str × β)) :
    aget k (aset k' v m) = if k = k' then some v else aget k m := by
  induction m with
  | nil =>
    by_cases h : k = k'
    · simp [aset, aget, h]
    · have h' : ¬ k' = k := fun e => h e.symm
      simp [aset, aget, h, h']
  | cons kv r ih =>
    unfold aset
    by_cases h1 : kv.1 = k'
    · by_cases h : k = k'
      · simp [aget, h1, h]
      · have h' : ¬ k' = k := fun e => h e.symm
        have h2 : ¬ kv.1 = k := fun e => h (e.symm.trans h1)
        simp [aget, h1, h, h', h2]
    · simp only [h1, if_false]
      by_cases h2 : kv.1 = k
      · have h : ¬ k = k' := fun e => h1 (h2.trans e)
        simp [aget, h2, h]
      · simp [aget, h2, ih]

theorem mem_aset {β : Type} (k : Str) (v : β) (m : List (Str × β)) (x : Str × β)
    (hx : x ∈ aset k v m) : x ∈ m ∨ x = (k, v) := by
  induction m with
  | nil => simp [aset] at hx; exact Or.inr hx
  | cons kv r ih =>
    unfold aset at hx
    by_cases h1 : kv.1 = k
    · simp only [h1, if_true] at hx
      rcases List.mem_cons.mp hx with h | h
      · exact Or.inr h
      · exact Or.inl (List.mem_cons_of_mem _ h)
    · simp only [h1, if_false] at hx
      rcases List.mem_cons.mp hx with h | h
      · exact Or.inl (h ▸ List.mem_cons_self)
      · rcases ih h with h' | h'
        · exact Or.inl (List.mem_cons_of_mem _ h')
        · exact Or.inr h'

theorem mem_akeys_iff {β : Type} (k : Str) (m : List (Str × β)) :
    k ∈ akeys m ↔ (aget k m).isSome = true := by
  induction m with
  | nil => simp [akeys, aget]
  | cons kv r ih =>
    by_cases h : kv.1 = k
    · simp [akeys, aget, h]
    · have h' : ¬ k = kv.1 := fun e => h e.symm
      simp only [akeys, List.map_cons, List.mem_cons, aget, h, if_false, h', false_or]
      exact ih

theorem akeys_aset_mem {β : Type} (k k' : Str) (v : β) (m : List (Str × β)) :
    k ∈ akeys (aset k' v m) ↔ (k = k' ∨ k ∈ akeys m) := by
  rw [mem_akeys_iff, mem_akeys_iff, aget_aset]
  by_cases h : k = k' <;> simp [h]

theorem akeys_nodup_aset {β : Type} (k : Str) (v : β) (m : List (Str × β))
    (hm : (akeys m).Nodup) : (akeys (aset k v m)).Nodup := by
  induction m with
  | nil => simp [aset, akeys]
  | cons kv r ih =>
    have hm' : kv.1 ∉ akeys r ∧ (akeys r).Nodup := by simpa [akeys] using hm
    unfold aset
    by_cases h1 : kv.1 = k
    · simp only [h1, if_true]
      have : akeys ((k, v) :: r) = k :: akeys r := rfl
      rw [this]
      exact List.nodup_cons.mpr ⟨h1 ▸ hm'.1, hm'.2⟩
    · simp only [h1, if_false]
      have : akeys (kv :: aset k v r) = kv.1 :: akeys (aset k v r) := rfl
      rw [this]
      refine List.nodup_cons.mpr ⟨?_, ih hm'.2⟩
      intro hmem
      rcases (akeys_aset_mem kv.1 k v r).mp hmem with h | h
      · exact h1 h
      · exact hm'.1 h

theorem aget_of_mem {β : Type} (k : Str) (v : β) (m : List (Str × β))
    (hm : (akeys m).Nodup) (hx : (k, v) ∈ m) : aget k m = some v := by
  induction m with
  | nil => cases hx
  | cons kv r ih =>
    have hm' : kv.1 ∉ akeys r ∧ (akeys r).Nodup := by simpa [akeys] using hm
    rcases List.mem_cons.mp hx with h | h
    · subst h; simp [aget]
    · have : kv.1 ≠ k := by
        intro e
        apply hm'.1
        rw [e]
        exact List.mem_map.mpr ⟨(k, v), h, rfl⟩
      simp [aget, this, ih hm'.2 h]

theorem mem_of_aget {β : Type} (k : Str) (v : β) (m : List (Str × β))
    (h : aget k m = some v) : (k, v) ∈ m := by
  induction m with
  | nil => simp [aget] at h
  | cons kv r ih =>
    by_cases h1 : kv.1 = k
    · simp [aget, h1] at h
      have : kv = (k, v) := by cases kv; simp_all
      rw [this]; exact List.mem_cons_self
    · simp [aget, h1] at h
      exact List.mem_cons_of_mem _ (ih h)

/-! ### the two-level map -/

theorem get2_dirOf (fs : Files) (d f : Str) : aget f (dirOf fs d) = get2 fs d f := by
  unfold dirOf get2
  cases aget d fs <;> simp [aget]

theorem get2_ensureDir (fs : Files) (d' d f : Str) : get2 (ensureDir fs d') d f = get2 fs d f := by
  unfold ensureDir
  by_cases h : (aget d' fs).isSome = true
  · simp [h]
  · rw [if_neg h]
    unfold get2
    rw [aget_aset]
    by_cases hd : d = d'
    · subst hd
      have : aget d fs = none := by simpa using h
      simp [this, aget]
    · simp [hd]

theorem get2_setFile (fs : Files) (d' f' : Str) (e : Entry) (d f : Str) :
    get2 (setFile fs d' f' e) d f = if d = d' ∧ f = f' then some e else get2 fs d f := by
  unfold setFile
  conv => lhs; unfold get2
  rw [aget_aset]
  by_cases hd : d = d'
  · subst hd
    simp only [if_true, true_and]
    rw [aget_aset, get2_dirOf]
  · simp only [hd, if_false, false_and]
    rfl

def hasDir (fs : Files) (d : Str) : Prop := (aget d fs).isSome = true

theorem hasDir_ensureDir (fs : Files) (d' d : Str) : hasDir (ensureDir fs d') d ↔ (d = d' ∨ hasDir fs d) := by
  unfold ensureDir hasDir
  by_cases h : (aget d' fs).isSome = true
  · simp only [h, if_true]
    constructor
    · exact Or.inr
    · rintro (rfl | h') <;> assumption
  · rw [if_neg h, aget_aset]
    by_cases hd : d = d' <;> simp [hd]

theorem hasDir_setFile (fs : Files) (d' f' : Str) (e : Entry) (d : Str) :
    hasDir (setFile fs d' f' e) d ↔ (d = d' ∨ hasDir fs d) := by
  unfold setFile hasDir
  rw [aget_aset]
  by_cases hd : d = d' <;> simp [hd]

/-- every directory map has distinct keys (a Go map cannot hold a key twice) -/
def KeysNodup (fs : Files) : Prop := ∀ dm ∈ fs, (akeys dm.2).Nodup

theorem keysNodup_dirOf (fs : Files) (d : Str) (h : KeysNodup fs) : (akeys (dirOf fs d)).Nodup := by
  unfold dirOf
  cases hd : aget d fs with
  | none => simp [akeys]
  | some m => exact h (d, m) (mem_of_aget d m fs hd)

theorem keysNodup_ensureDir (fs : Files) (d : Str) (h : KeysNodup fs) : KeysNodup (ensureDir fs d) := by
  unfold ensureDir
  by_cases hd : (aget d fs).isSome = true
  · simpa [hd] using h
  · rw [if_neg hd]
    intro dm hdm
    rcases mem_aset d [] fs dm hdm with h1 | h1
    · exact h dm h1
    · subst h1; simp [akeys]

theorem keysNodup_setFile (fs : Files) (d f : Str) (e : Entry) (h : KeysNodup fs) :
    KeysNodup (setFile fs d f e) := by
  unfold setFile
  intro dm hdm
  rcases mem_aset d _ fs dm hdm with h1 | h1
  · exact h dm h1
  · subst h1
    exact akeys_nodup_aset f e _ (keysNodup_dirOf fs d h)

/-! ### what the two `New` functions store -/

theorem pair_eq_iff (x : Str × Str) (d f : Str) : x = (d, f) ↔ (d = x.1 ∧ f = x.2) := by
  cases x; simp [eq_comm]

theorem get2_dirTail (b : Bool) (fs : Files) (p d f : Str) :
    get2 (if b = true then ensureDir fs p else fs) d f = get2 fs d f := by
  cases b <;> simp [get2_ensureDir]

/-- zipfs: an entry is stored unless its (dir, name) slot is already taken -/
theorem get2_zipAdd (fs : Files) (e : Entry) (d f : Str) :
    get2 (zipAdd fs e) d f =
      (get2 fs d f).or (if splitpath e.name = (d, f) then some e else none) := by
  simp only [zipAdd]
  rw [get2_dirTail]
  by_cases hs : (get2 (ensureDir fs (splitpath e.name).1) (splitpath e.name).1 (splitpath e.name).2).isSome = true
  · rw [if_pos hs, get2_ensureDir]
    rw [get2_ensureDir] at hs
    by_cases hm : splitpath e.name = (d, f)
    · have := (pair_eq_iff _ d f).mp hm
      rw [this.1, this.2]
      cases hg : get2 fs (splitpath e.name).1 (splitpath e.name).2 with
      | none => simp [hg] at hs
      | some x => simp
    · simp [hm]
  · rw [if_neg hs, get2_setFile, get2_ensureDir]
    rw [get2_ensureDir] at hs
    by_cases hm : splitpath e.name = (d, f)
    · have h2 := (pair_eq_iff _ d f).mp hm
      have hn : get2 fs d f = none := by
        rw [h2.1, h2.2]; simpa using hs
      rw [if_pos h2, if_pos hm, hn]; rfl
    · have h2 : ¬ (d = (splitpath e.name).1 ∧ f = (splitpath e.name).2) := fun h => hm ((pair_eq_iff _ d f).mpr h)
      rw [if_neg h2, if_neg hm]; cases get2 fs d f <;> rfl

/-- tarfs: a later entry replaces an earlier one in the same slot -/
theorem get2_tarAdd (fs : Files) (e : Entry) (d f : Str) :
    get2 (tarAdd fs e) d f = if splitpath e.name = (d, f) then some e else get2 fs d f := by
  simp only [tarAdd]
  rw [get2_dirTail, get2_setFile, get2_ensureDir]
  by_cases hm : splitpath e.name = (d, f)
  · have h2 := (pair_eq_iff _ d f).mp hm
    rw [if_pos h2, if_pos hm]
  · have h2 : ¬ (d = (splitpath e.name).1 ∧ f = (splitpath e.name).2) := fun h => hm ((pair_eq_iff _ d f).mpr h)
    rw [if_neg h2, if_neg hm]

theorem get2_foldl_zipAdd (arch : List Entry) (fs : Files) (d f : Str) :
    get2 (arch.foldl zipAdd fs) d f =
      (get2 fs d f).or (arch.find? fun e => decide (splitpath e.name = (d, f))) := by
  induction arch generalizing fs with
  | nil => simp
  | cons e r ih =>
    rw [List.foldl_cons, ih, get2_zipAdd]
    by_cases hm : splitpath e.name = (d, f)
    · cases get2 fs d f <;> simp [List.find?_cons, hm]
    · cases get2 fs d f <;> simp [List.find?_cons, hm]

theorem get2_foldl_tarAdd (arch : List Entry) (fs : Files) (d f : Str) :
    get2 (arch.foldl tarAdd fs) d f =
      (arch.reverse.find? fun e => decide (splitpath e.name = (d, f))).or (get2 fs d f) := by
  induction arch generalizing fs with
  | nil => simp
  | cons e r ih =>
    rw [List.foldl_cons, ih, get2_tarAdd, List.reverse_cons, List.find?_append]
    by_cases hm : splitpath e.name = (d, f)
    · cases (r.reverse.find? fun e => decide (splitpath e.name = (d, f))) <;> simp [List.find?_cons, hm]
    · cases (r.reverse.find? fun e => decide (splitpath e.name = (d, f))) <;> simp [List.find?_cons, hm]

/-- with pairwise distinct slots `find?` returns the entry itself -/
theorem find?_unique {α : Type} (p : α → Bool) (l : List α) (e : α) (he : e ∈ l) (hp : p e = true)
    (hu : ∀ x ∈ l, p x = true → x = e) : l.find? p = some e := by
  induction l with
  | nil => cases he
  | cons a r ih =>
    by_cases ha : p a = true
    · have := hu a List.mem_cons_self ha
      subst this
      simp [List.find?_cons, ha]
    · have hne : a ≠ e := fun h => ha (h ▸ hp)
      have her : e ∈ r := by
        rcases List.mem_cons.mp he with h | h
        · exact absurd h.symm hne
        · exact h
      simp only [List.find?_cons, ha]
      exact ih her fun x hx => hu x (List.mem_cons_of_mem _ hx)

/-! ### the archive's domain: distinct cleaned paths, none of them the root -/

/-- no two entries clean to the same (directory, name) slot -/
def Unique (arch : List Entry) : Prop :=
  ∀ a ∈ arch, ∀ b ∈ arch, splitpath a.name = splitpath b.name → a = b

theorem find?_slot (arch : List Entry) (hu : Unique arch) (d f : Str) (e : Entry) :
    (arch.find? fun x => decide (splitpath x.name = (d, f))) = some e ↔
      (e ∈ arch ∧ splitpath e.name = (d, f)) := by
  constructor
  · intro h
    exact ⟨List.mem_of_find?_eq_some h, by simpa using List.find?_some h⟩
  · rintro ⟨he, hm⟩
    apply find?_unique _ _ _ he (by simpa using hm)
    intro x hx hpx
    have hpx' : splitpath x.name = (d, f) := by simpa using hpx
    exact hu x hx e he (hpx'.trans hm.symm)

theorem unique_reverse (arch : List Entry) (hu : Unique arch) : Unique arch.reverse := by
  intro a ha b hb
  exact hu a (List.mem_reverse.mp ha) b (List.mem_reverse.mp hb)

theorem get2_zipBuild (arch : List Entry) (hu : Unique arch) (d f : Str) (e : Entry) :
    get2 (zipBuild arch) d f = some e ↔ (e ∈ arch ∧ splitpath e.name = (d, f)) := by
  unfold zipBuild
  rw [get2_foldl_zipAdd]
  have h0 : get2 [(root, ([] : Dir))] d f = none := by
    unfold get2 aget
    by_cases h : root = d <;> simp [h, aget]
  rw [h0]
  simp only [Option.or]
  exact find?_slot arch hu d f e

theorem get2_tarBuild (arch : List Entry) (hu : Unique arch) (d f : Str) (hf : f ≠ []) (e : Entry) :
    get2 (tarBuild arch) d f = some e ↔ (e ∈ arch ∧ splitpath e.name = (d, f)) := by
  simp only [tarBuild]
  rw [get2_setFile, get2_ensureDir, get2_foldl_tarAdd]
  have h1 : ¬ (d = root ∧ f = []) := fun h => hf h.2
  rw [if_neg h1]
  have h0 : get2 ([] : Files) d f = none := rfl
  rw [h0]
  have : ∀ o : Option Entry, o.or none = o := by intro o; cases o <;> rfl
  rw [this, find?_slot arch.reverse (unique_reverse arch hu)]
  simp

theorem get2_tarBuild_root (arch : List Entry) : get2 (tarBuild arch) root [] = some tarRootEntry := by
  simp only [tarBuild]
  rw [get2_setFile]
  simp

/-! ### directory maps: which exist, and that their keys are distinct -/

theorem hasDir_dirTail (b : Bool) (fs : Files) (p d : Str) :
    hasDir (if b = true then ensureDir fs p else fs) d ↔ ((b = true ∧ d = p) ∨ hasDir fs d) := by
  cases b
  · simp
  · simp [hasDir_ensureDir]

theorem hasDir_zipAdd (fs : Files) (e : Entry) (d : Str) :
    hasDir (zipAdd fs e) d ↔
      (hasDir fs d ∨ d = (splitpath e.name).1 ∨ (e.isDir = true ∧ d = joinSplit e.name)) := by
  simp only [zipAdd]
  rw [hasDir_dirTail]
  by_cases hs : (get2 (ensureDir fs (splitpath e.name).1) (splitpath e.name).1 (splitpath e.name).2).isSome = true
  · rw [if_pos hs, hasDir_ensureDir]
    unfold joinSplit
    constructor
    · rintro (h | h | h)
      · exact Or.inr (Or.inr h)
      · exact Or.inr (Or.inl h)
      · exact Or.inl h
    · rintro (h | h | h)
      · exact Or.inr (Or.inr h)
      · exact Or.inr (Or.inl h)
      · exact Or.inl h
  · rw [if_neg hs, hasDir_setFile, hasDir_ensureDir]
    unfold joinSplit
    constructor
    · rintro (h | h | h | h)
      · exact Or.inr (Or.inr h)
      · exact Or.inr (Or.inl h)
      · exact Or.inr (Or.inl h)
      · exact Or.inl h
    · rintro (h | h | h)
      · exact Or.inr (Or.inr (Or.inr h))
      · exact Or.inr (Or.inl h)
      · exact Or.inl h

theorem hasDir_tarAdd (fs : Files) (e : Entry) (d : Str) :
    hasDir (tarAdd fs e) d ↔
      (hasDir fs d ∨ d = (splitpath e.name).1 ∨ (e.isDir = true ∧ d = joinSplit e.name)) := by
  simp only [tarAdd]
  rw [hasDir_dirTail, hasDir_setFile, hasDir_ensureDir]
  unfold joinSplit
  constructor
  · rintro (h | h | h | h)
    · exact Or.inr (Or.inr h)
    · exact Or.inr (Or.inl h)
    · exact Or.inr (Or.inl h)
    · exact Or.inl h
  · rintro (h | h | h)
    · exact Or.inr (Or.inr (Or.inr h))
    · exact Or.inr (Or.inl h)
    · exact Or.inl h

/-- the directories that have a map after the loop of `New` -/
theorem hasDir_foldl (add : Files → Entry → Files)
    (hadd : ∀ fs e d, hasDir (add fs e) d ↔
      (hasDir fs d ∨ d = (splitpath e.name).1 ∨ (e.isDir = true ∧ d = joinSplit e.name)))
    (arch : List Entry) (fs : Files) (d : Str) :
    hasDir (arch.foldl add fs) d ↔
      (hasDir fs d ∨ ∃ e ∈ arch, d = (splitpath e.name).1 ∨ (e.isDir = true ∧ d = joinSplit e.name)) := by
  induction arch generalizing fs with
  | nil => simp
  | cons a r ih =>
    rw [List.foldl_cons, ih, hadd]
    constructor
    · rintro ((h | h) | ⟨e, he, h⟩)
      · exact Or.inl h
      · exact Or.inr ⟨a, List.mem_cons_self, h⟩
      · exact Or.inr ⟨e, List.mem_cons_of_mem _ he, h⟩
    · rintro (h | ⟨e, he, h⟩)
      · exact Or.inl (Or.inl h)
      · rcases List.mem_cons.mp he with rfl | he'
        · exact Or.inl (Or.inr h)
        · exact Or.inr ⟨e, he', h⟩

theorem hasDir_build (k : Kind) (arch : List Entry) (d : Str) :
    hasDir (build k arch) d ↔
      (d = root ∨ ∃ e ∈ arch, d = (splitpath e.name).1 ∨ (e.isDir = true ∧ d = joinSplit e.name)) := by
  cases k with
  | zip =>
    simp only [build, zipBuild]
    rw [hasDir_foldl zipAdd hasDir_zipAdd]
    have : hasDir [(root, ([] : Dir))] d ↔ d = root := by
      unfold hasDir aget
      by_cases h : root = d
      · simp [h]
      · have h' : ¬ d = root := fun e => h e.symm
        simp [h, h', aget]
    rw [this]
  | tar =>
    simp only [build, tarBuild]
    rw [hasDir_setFile, hasDir_ensureDir, hasDir_foldl tarAdd hasDir_tarAdd]
    have : ¬ hasDir ([] : Files) d := by simp [hasDir, aget]
    constructor
    · rintro (h | h | h | h)
      · exact Or.inl h
      · exact Or.inl h
      · exact absurd h this
      · exact Or.inr h
    · rintro (h | h)
      · exact Or.inl h
      · exact Or.inr (Or.inr (Or.inr h))

theorem keysNodup_dirTail (b : Bool) (fs : Files) (p : Str) (h : KeysNodup fs) :
    KeysNodup (if b = true then ensureDir fs p else fs) := by
  cases b
  · simpa using h
  · simpa using keysNodup_ensureDir fs p h

theorem keysNodup_zipAdd (fs : Files) (e : Entry) (h : KeysNodup fs) : KeysNodup (zipAdd fs e) := by
  simp only [zipAdd]
  apply keysNodup_dirTail
  have h1 := keysNodup_ensureDir fs (splitpath e.name).1 h
  by_cases hs : (get2 (ensureDir fs (splitpath e.name).1) (splitpath e.name).1 (splitpath e.name).2).isSome = true
  · rw [if_pos hs]; exact h1
  · rw [if_neg hs]; exact keysNodup_setFile _ _ _ _ h1

theorem keysNodup_tarAdd (fs : Files) (e : Entry) (h : KeysNodup fs) : KeysNodup (tarAdd fs e) := by
  simp only [tarAdd]
  apply keysNodup_dirTail
  exact keysNodup_setFile _ _ _ _ (keysNodup_ensureDir fs _ h)

theorem keysNodup_foldl (add : Files → Entry → Files) (hadd : ∀ fs e, KeysNodup fs → KeysNodup (add fs e))
    (arch : List Entry) (fs : Files) (h : KeysNodup fs) : KeysNodup (arch.foldl add fs) := by
  induction arch generalizing fs with
  | nil => exact h
  | cons a r ih => exact ih _ (hadd fs a h)

theorem keysNodup_build (k : Kind) (arch : List Entry) : KeysNodup (build k arch) := by
  cases k with
  | zip =>
    apply keysNodup_foldl zipAdd keysNodup_zipAdd
    intro dm hdm
    simp at hdm; subst hdm; simp [akeys]
  | tar =>
    simp only [build, tarBuild]
    apply keysNodup_setFile
    apply keysNodup_ensureDir
    apply keysNodup_foldl tarAdd keysNodup_tarAdd
    intro dm hdm; cases hdm

/-! ### listings -/

theorem insertBy_perm (x : Str × Entry) (l : Dir) : (insertBy x l).Perm (x :: l) := by
  induction l with
  | nil => exact List.Perm.refl _
  | cons y r ih =>
    unfold insertBy
    by_cases h : strLe x.1 y.1 = true
    · rw [if_pos h]
    · rw [if_neg h]
      exact ((List.Perm.cons y ih).trans (List.Perm.swap x y r))

theorem sortDir_perm (m : Dir) : (sortDir m).Perm m := by
  induction m with
  | nil => exact List.Perm.refl _
  | cons x r ih =>
    show (insertBy x (sortDir r)).Perm (x :: r)
    exact (insertBy_perm x _).trans (List.Perm.cons x ih)

theorem listDir_spec (fs : Files) (hk : KeysNodup fs) (name : Str) (l : Dir)
    (h : listDir fs name = some l) :
    (akeys l).Nodup ∧ ∀ f e, (f, e) ∈ l ↔ (f ≠ [] ∧ get2 fs name f = some e) := by
  unfold listDir at h
  cases hm : aget name fs with
  | none => simp [hm] at h
  | some m =>
    simp only [hm, Option.some.injEq] at h
    subst h
    have hnd : (akeys m).Nodup := hk (name, m) (mem_of_aget name m fs hm)
    have hperm := sortDir_perm (m.filter fun kv => decide (kv.1 ≠ []))
    constructor
    · have h1 : (akeys (sortDir (m.filter fun kv => decide (kv.1 ≠ [])))).Perm
          (akeys (m.filter fun kv => decide (kv.1 ≠ []))) := hperm.map _
      rw [h1.nodup_iff]
      exact hnd.sublist ((List.filter_sublist).map _)
    · intro f e
      rw [hperm.mem_iff, List.mem_filter]
      have hg : get2 fs name f = aget f m := by simp [get2, hm]
      rw [hg]
      constructor
      · rintro ⟨h1, h2⟩
        exact ⟨by simpa using h2, aget_of_mem f e m hnd h1⟩
      · rintro ⟨h1, h2⟩
        exact ⟨mem_of_aget f e m h2, by simpa using h1⟩

theorem listDir_isSome (fs : Files) (name : Str) : (listDir fs name).isSome = true ↔ hasDir fs name := by
  unfold listDir hasDir
  cases aget name fs <;> simp

/-! ### read arithmetic -/

theorem slice_length (d : Bytes) (off n : Nat) : (slice d off n).length = min n (d.length - off) := by
  simp [slice]

/-- slicing a long enough consumed prefix is slicing the entry -/
theorem slice_take (d : Bytes) (m pos n : Nat) (h : min (pos + n) d.length ≤ m) :
    ((d.take m).drop pos).take n = slice d pos n := by
  unfold slice
  apply List.ext_getElem?
  intro i
  simp only [List.getElem?_take, List.getElem?_drop]
  by_cases hi : i < n
  · simp only [hi, if_true]
    by_cases h2 : pos + i < m
    · simp [h2]
    · simp only [h2, if_false]
      have : d.length ≤ pos + i := by omega
      exact (List.getElem?_eq_none this).symm
  · simp [hi]

/-- `fillBuffer` on a consumed prefix: the prefix grows to the requested offset, clipped at the
    size; `io.EOF` exactly when the request reaches beyond the size. The `readErr` branch is dead. -/
theorem fillBuffer_take (d : Bytes) (m off : Nat) (hm : m ≤ d.length) :
    fillBuffer d (d.take m) off =
      (d.take (max m (min off d.length)), if off > d.length then some Err.eof else none) := by
  unfold fillBuffer
  have hl : (d.take m).length = m := by simp [List.length_take]; omega
  simp only [hl]
  by_cases ho : off > d.length
  · simp only [ho, if_true]
    by_cases h1 : m ≥ d.length
    · have : max m (min off d.length) = m := by omega
      simp [h1, this]
    · simp only [h1, if_false]
      have hg : ((d.drop m).take (d.length - m)).length > 0 := by simp; omega
      simp only [hg, if_true]
      have : max m (min off d.length) = m + (d.length - m) := by omega
      rw [this, List.take_add]
  · simp only [ho, if_false]
    by_cases h1 : m ≥ off
    · have : max m (min off d.length) = m := by omega
      simp [h1, this]
    · simp only [h1, if_false]
      have hg : ((d.drop m).take (off - m)).length > 0 := by simp; omega
      simp only [hg, if_true]
      have : max m (min off d.length) = m + (off - m) := by omega
      rw [this, List.take_add]

end AferoVerif.Archive
