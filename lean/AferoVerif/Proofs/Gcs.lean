/-
  Helper lemmas for property C20: the object store, the resource's commit arithmetic.
-/
import AferoVerif.Model.Gcs
import AferoVerif.Model.MemFile
namespace AferoVerif.Gcs

/-! ### store -/

theorem lookup_filter_ne (s : Store) (n m : Name) (h : m ≠ n) :
    (s.filter (fun o => o.1 != n)).lookup m = s.lookup m := by
  induction s with
  | nil => rfl
  | cons o t ih =>
    obtain ⟨k, d⟩ := o
    by_cases hk : k = n
    · subst hk
      have : (m == k) = false := by simpa using h
      simp [List.filter, List.lookup, this, ih]
    · have : (k != n) = true := by simpa using hk
      simp only [List.filter, this, List.lookup]
      rw [ih]

theorem lookup_filter_self (s : Store) (n : Name) :
    (s.filter (fun o => o.1 != n)).lookup n = none := by
  induction s with
  | nil => rfl
  | cons o t ih =>
    obtain ⟨k, d⟩ := o
    by_cases hk : k = n
    · subst hk; simp [List.filter, ih]
    · have h1 : (k != n) = true := by simpa using hk
      have h2 : (n == k) = false := by simpa using (fun h : n = k => hk h.symm)
      simp only [List.filter, h1, List.lookup, h2]
      exact ih

theorem get_put_same (s : Store) (n : Name) (d : Bytes) : get (put s n d) n = some d := by
  simp [get, put, List.lookup]

theorem get_put_other (s : Store) (n m : Name) (d : Bytes) (h : m ≠ n) : get (put s n d) m = get s m := by
  have : (m == n) = false := by simpa using h
  simp only [get, put, List.lookup, this]
  exact lookup_filter_ne s n m h

theorem get_del_same (s : Store) (n : Name) : get (del s n) n = none := lookup_filter_self s n

theorem get_del_other (s : Store) (n m : Name) (h : m ≠ n) : get (del s n) m = get s m :=
  lookup_filter_ne s n m h

/-! ### what the object will hold once pending I/O is committed -/

/-- `View r cur data`: the bucket holds `cur` for the resource's object; with the resource's open
    reader / writer taken into account the file's contents are `data`. -/
inductive View (r : Res) (cur data : Bytes) : Prop where
  | clean (hw : r.writer = none) (hd : data = cur)
      (hr : ∀ rem, r.reader = some rem → 0 ≤ r.offset ∧ r.offset ≤ cur.length ∧ rem = cur.drop r.offset.toNat)
  | writing (buf : Bytes) (hw : r.writer = some buf) (hr : r.reader = none) (ho : r.offset = buf.length)
      (hc : r.curSize = cur.length) (hd : data = buf ++ cur.drop buf.length)

theorem rangeReader_all (s : Store) (p : Name) (cur : Bytes) (off : Nat) (hp : p ≠ []) (hg : get s p = some cur)
    (ho : off ≤ cur.length) : rangeReader s p (off : Int) (-1) = .ok (cur.drop off) := by
  unfold rangeReader
  have h1 : ¬ ((off : Int) < 0 ∨ (off : Int) > cur.length) := by omega
  simp only [hp, hg, if_false]
  rw [if_neg h1, if_pos (by omega : (-1 : Int) < 0), Int.toNat_natCast]

theorem rangeReader_head (s : Store) (p : Name) (cur : Bytes) (n : Nat) (hp : p ≠ []) (hg : get s p = some cur) :
    rangeReader s p 0 (n : Int) = .ok (cur.take n) := by
  unfold rangeReader
  have h1 : ¬ ((0 : Int) < 0 ∨ (0 : Int) > cur.length) := by omega
  have h2 : ¬ ((n : Int) < 0) := by omega
  simp only [hp, hg, if_false]
  rw [if_neg h1, if_neg h2, Int.toNat_natCast]
  simp

structure Committed (s : Store) (r : Res) (p : Name) (data : Bytes) (q : CloseRes) : Prop where
  ok : q.failed = false
  got : get q.s p = some data
  w : q.r.writer = none
  rd : q.r.reader = none
  nm : q.r.name = r.name
  frame : ∀ m, m ≠ p → get q.s m = get s m

/-- `maybeCloseIo` commits exactly the view, touches no other object and leaves the resource idle -/
theorem closeIo_view (s : Store) (r : Res) (p : Name) (cur data : Bytes) (hp : pathOf r.name = p) (hpne : p ≠ [])
    (hg : get s p = some cur) (hv : View r cur data) : Committed s r p data (closeIo s r) := by
  unfold closeIo closeWriter
  cases hv with
  | clean hw hd hr =>
    subst hd
    simp only [hw]
    exact ⟨rfl, hg, rfl, rfl, rfl, fun _ _ => rfl⟩
  | writing buf hw hr ho hc hd =>
    simp only [hw, hp, ho, hc]
    by_cases hlt : (cur.length : Int) > (buf.length : Int)
    · simp only [hlt, if_true]
      rw [rangeReader_all s p cur buf.length hpne hg (by omega)]
      simp only [putObj, hpne, if_false]
      exact ⟨rfl, by rw [hd]; exact get_put_same _ _ _, rfl, rfl, rfl, fun m hm => get_put_other _ _ _ _ hm⟩
    · simp only [hlt, if_false, putObj, hpne]
      have : cur.drop buf.length = [] := List.drop_of_length_le (by omega)
      rw [this, List.append_nil] at hd
      exact ⟨rfl, by rw [hd]; exact get_put_same _ _ _, rfl, rfl, rfl, fun m hm => get_put_other _ _ _ _ hm⟩

/-! ### flat arithmetic inside the object -/

theorem drop_past_left {α : Type} (l x : List α) (k : Nat) : (l ++ x).drop (l.length + k) = x.drop k := by
  rw [← List.drop_drop, List.drop_left]

theorem writeS_inside (d : Bytes) (off : Nat) (b : Bytes) (h : off ≤ d.length) :
    writeS d off b = d.take off ++ b ++ d.drop (off + b.length) := by
  unfold writeS
  have : off - d.length = 0 := by omega
  simp [this]

theorem truncS_inside (d : Bytes) (n : Nat) (h : n ≤ d.length) : truncS d n = d.take n := by
  unfold truncS
  have : n - d.length = 0 := by omega
  simp [this]

theorem attrs_of_get (s : Store) (p : Name) (cur : Bytes) (hp : p ≠ []) (hg : get s p = some cur) :
    attrs s p = .ok cur.length := by
  unfold attrs; simp [hp, hg]

theorem newFileInfo_file (s : Store) (name : Name) (cur : Bytes) (hb : bucketOf name = bkt)
    (hp : pathOf name ≠ []) (hg : get s (pathOf name) = some cur) :
    newFileInfo s name = .ok { name := name, size := cur.length, isDir := false } := by
  unfold newFileInfo bucketErr
  simp [hb, attrs_of_get s _ cur hp hg]

/-- what a resource-level call must preserve -/
structure Kept (s : Store) (r : Res) (p : Name) (data : Bytes) (s' : Store) (r' : Res) : Prop where
  obj : ∃ cur', get s' p = some cur' ∧ View r' cur' data
  nm : r'.name = r.name
  frame : ∀ m, m ≠ p → get s' m = get s m

theorem resWriteSlow_view (s : Store) (r : Res) (p : Name) (cur data b : Bytes) (off : Nat)
    (hp : pathOf r.name = p) (hpne : p ≠ []) (hg : get s p = some cur) (hv : View r cur data)
    (ho : off ≤ data.length) :
    (resWriteSlow s r b off).n = b.length ∧ (resWriteSlow s r b off).err = none ∧
    Kept s r p (writeS data off b) (resWriteSlow s r b off).s (resWriteSlow s r b off).r := by
  have hc := closeIo_view s r p cur data hp hpne hg hv
  unfold resWriteSlow
  simp only [hc.ok, hp, attrs_of_get _ p data hpne hc.got, Bool.false_eq_true, if_false]
  have h1 : ¬ ((off : Int) > (data.length : Int)) := by omega
  simp only [h1, if_false]
  have hpre : (if (off : Int) > 0 then rangeReader (closeIo s r).s p 0 (off : Int) else .ok []) = .ok (data.take off) := by
    by_cases h0 : (off : Int) > 0
    · simp only [h0, if_true]; exact rangeReader_head _ p data off hpne hc.got
    · have : off = 0 := by omega
      subst this; simp
  simp only [hpre]
  refine ⟨trivial, trivial, ⟨data, hc.got, ?_⟩, hc.nm, hc.frame⟩
  refine View.writing (data.take off ++ b) rfl hc.rd ?_ rfl ?_
  · simp; omega
  · rw [writeS_inside data off b ho]
    congr 2
    simp; omega

theorem resWriteAt_view (s : Store) (r : Res) (p : Name) (cur data b : Bytes) (off : Nat)
    (hp : pathOf r.name = p) (hpne : p ≠ []) (hg : get s p = some cur) (hv : View r cur data)
    (ho : off ≤ data.length) :
    (resWriteAt s r b off).n = b.length ∧ (resWriteAt s r b off).err = none ∧
    Kept s r p (writeS data off b) (resWriteAt s r b off).s (resWriteAt s r b off).r := by
  unfold resWriteAt
  by_cases hfast : (off : Int) = r.offset
  · simp only [hfast, if_true]
    cases hv with
    | clean hw hd hr =>
      simp only [hw]
      rw [← hfast]
      exact resWriteSlow_view s r p cur data b off hp hpne hg (View.clean hw hd hr) ho
    | writing buf hw hr hof hc hd =>
      simp only [hw]
      have hob : off = buf.length := by omega
      refine ⟨trivial, trivial, ⟨cur, hg, ?_⟩, rfl, fun _ _ => rfl⟩
      refine View.writing (buf ++ b) rfl hr ?_ hc ?_
      · simp [hof]
      · subst hd
        rw [writeS_inside _ off b ho, hob, List.take_left, drop_past_left, List.drop_drop, List.length_append]
  · simp only [hfast, if_false]
    exact resWriteSlow_view s r p cur data b off hp hpne hg hv ho

/-! ### reads -/

/-- error of a read of `n` bytes at `p`: end of file exactly when bytes were asked for and none are left -/
def readErr (data : Bytes) (p n : Nat) : Option GErr :=
  if n = 0 then none else if p ≥ data.length then some .eof else none

theorem readFrom_view (s : Store) (r : Res) (cur : Bytes) (off len : Nat) (hw : r.writer = none)
    (ho : r.offset = off) (hle : off ≤ cur.length) (hlen : len ≠ 0) :
    (readFrom s r (cur.drop off) len).got = readS cur off len ∧
    (readFrom s r (cur.drop off) len).err = readErr cur off len ∧
    (readFrom s r (cur.drop off) len).s = s ∧ (readFrom s r (cur.drop off) len).r.name = r.name ∧
    View (readFrom s r (cur.drop off) len).r cur cur := by
  unfold readFrom readErr readS
  by_cases he : cur.drop off = []
  · have hge : off ≥ cur.length := by
      have := congrArg List.length he
      simp at this; omega
    simp only [he, if_true, hlen, if_false, hge]
    refine ⟨by simp, trivial, trivial, trivial, View.clean hw rfl ?_⟩
    intro rem hrem
    simp only [Option.some.injEq] at hrem
    subst hrem
    refine ⟨by simp [ho], by simp [ho]; omega, ?_⟩
    simp [ho, he]
  · have hlt : ¬ (off ≥ cur.length) := by
      intro h; exact he (List.drop_of_length_le h)
    simp only [he, if_false, hlen, hlt]
    refine ⟨trivial, trivial, trivial, trivial, View.clean hw rfl ?_⟩
    intro rem hrem
    simp only [Option.some.injEq] at hrem
    subst hrem
    have hk : ((cur.drop off).take len).length = min len (cur.length - off) := by simp
    refine ⟨by simp only [ho]; omega, by simp only [ho, hk]; omega, ?_⟩
    simp only [ho, hk, List.drop_drop]
    have e : ((off : Int) + ((min len (cur.length - off) : Nat) : Int)).toNat = off + min len (cur.length - off) := by omega
    rw [e]
    by_cases hl : len ≤ cur.length - off
    · rw [Nat.min_eq_left hl]
    · rw [Nat.min_eq_right (by omega), List.drop_of_length_le (by omega), List.drop_of_length_le (by omega)]

theorem resReadSlow_view (s : Store) (r : Res) (p : Name) (cur data : Bytes) (off len : Nat)
    (hb : bucketOf r.name = bkt) (hp : pathOf r.name = p) (hpne : p ≠ []) (hg : get s p = some cur)
    (hv : View r cur data) (ho : off ≤ data.length) (hlen : len ≠ 0) :
    (resReadSlow s r len off).got = readS data off len ∧ (resReadSlow s r len off).err = readErr data off len ∧
    Kept s r p data (resReadSlow s r len off).s (resReadSlow s r len off).r := by
  have hc := closeIo_view s r p cur data hp hpne hg hv
  have hnf := newFileInfo_file s r.name cur hb (by rw [hp]; exact hpne) (by rw [hp]; exact hg)
  unfold resReadSlow
  simp only [hnf, Bool.false_eq_true, if_false, ite_self, hc.ok, hp]
  rw [rangeReader_all _ p data off hpne hc.got ho]
  simp only
  have hrf := readFrom_view (closeIo s r).s { (closeIo s r).r with reader := some (data.drop off), offset := (off : Int) }
    data off len hc.w rfl ho hlen
  obtain ⟨h1, h2, h3, h4, h5⟩ := hrf
  refine ⟨h1, h2, ⟨data, by rw [h3]; exact hc.got, h5⟩, by rw [h4]; exact hc.nm, fun m hm => by rw [h3]; exact hc.frame m hm⟩

theorem resReadAt_view (s : Store) (r : Res) (p : Name) (cur data : Bytes) (off len : Nat)
    (hb : bucketOf r.name = bkt) (hp : pathOf r.name = p) (hpne : p ≠ []) (hg : get s p = some cur)
    (hv : View r cur data) (ho : off ≤ data.length) :
    (resReadAt s r len off).got = readS data off len ∧ (resReadAt s r len off).err = readErr data off len ∧
    Kept s r p data (resReadAt s r len off).s (resReadAt s r len off).r := by
  unfold resReadAt
  by_cases hlen : len = 0
  · subst hlen
    simp only [if_true]
    exact ⟨by simp [readS], by simp [readErr], ⟨cur, hg, hv⟩, rfl, fun _ _ => rfl⟩
  · simp only [hlen, if_false]
    by_cases hfast : (off : Int) = r.offset
    · simp only [hfast, if_true]
      cases hrd : r.reader with
      | none =>
        simp only
        rw [← hfast]
        exact resReadSlow_view s r p cur data off len hb hp hpne hg hv ho hlen
      | some rem =>
        simp only
        cases hv with
        | clean hw hd hr =>
          subst hd
          obtain ⟨h0, h1, h2⟩ := hr rem hrd
          have hoff : r.offset.toNat = off := by omega
          rw [hoff] at h2
          subst h2
          obtain ⟨a1, a2, a3, a4, a5⟩ := readFrom_view s r data off len hw hfast.symm ho hlen
          exact ⟨a1, a2, ⟨data, by rw [a3]; exact hg, a5⟩, a4, fun m _ => by rw [a3]⟩
        | writing buf hw hr hof hc hd => rw [hr] at hrd; cases hrd
    · simp only [hfast, if_false]
      exact resReadSlow_view s r p cur data off len hb hp hpne hg hv ho hlen

end AferoVerif.Gcs
