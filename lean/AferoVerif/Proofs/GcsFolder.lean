/-
  Helper lemmas for property C20, folder part: prefix/delimiter listing, base names.
-/
import AferoVerif.Proofs.Gcs
namespace AferoVerif.Gcs

/-! ### dedup -/

theorem mem_dedup (l : List Name) (x : Name) : x ∈ dedup l ↔ x ∈ l := by
  induction l with
  | nil => simp [dedup]
  | cons a t ih =>
    simp only [dedup, List.mem_cons, List.mem_filter, ih]
    by_cases h : x = a
    · simp [h]
    · simp [h]

theorem nodup_dedup (l : List Name) : (dedup l).Nodup := by
  induction l with
  | nil => simp [dedup]
  | cons a t ih =>
    simp only [dedup, List.nodup_cons, List.mem_filter]
    refine ⟨fun h => by simp at h, List.Pairwise.filter _ ih⟩

/-! ### listing -/

theorem mem_listObjects_item (s : Store) (pre n : Name) (sz : Nat) :
    Entry.item n sz ∈ listObjects s pre ↔
      ∃ o ∈ s, o.1 = n ∧ o.2.length = sz ∧ pre <+: n ∧ rollup pre n = none := by
  unfold listObjects
  simp only [List.mem_append, List.mem_filterMap, List.mem_filter, List.mem_map, List.isPrefixOf_iff_prefix]
  constructor
  · rintro (⟨o, ⟨ho, hp⟩, hf⟩ | ⟨p, _, hp⟩)
    · cases hr : rollup pre o.1 with
      | none =>
        rw [hr] at hf
        simp only [Option.some.injEq, Entry.item.injEq] at hf
        exact ⟨o, ho, hf.1, hf.2, hf.1 ▸ hp, hf.1 ▸ hr⟩
      | some q => rw [hr] at hf; cases hf
    · cases hp
  · rintro ⟨o, ho, h1, h2, h3, h4⟩
    left
    refine ⟨o, ⟨ho, h1 ▸ h3⟩, ?_⟩
    rw [h1, h4, h2]

theorem mem_listObjects_pfx (s : Store) (pre p : Name) :
    Entry.pfx p ∈ listObjects s pre ↔ ∃ o ∈ s, pre <+: o.1 ∧ rollup pre o.1 = some p := by
  unfold listObjects
  simp only [List.mem_append, List.mem_filterMap, List.mem_filter, List.mem_map, List.isPrefixOf_iff_prefix,
    mem_dedup]
  constructor
  · rintro (⟨o, _, hf⟩ | ⟨q, ⟨o, ⟨ho, hp⟩, hr⟩, hq⟩)
    · cases hr : rollup pre o.1 with
      | none => rw [hr] at hf; cases hf
      | some q => rw [hr] at hf; cases hf
    · cases hq
      exact ⟨o, ho, hp, hr⟩
  · rintro ⟨o, ho, hp, hr⟩
    right
    exact ⟨p, ⟨o, ⟨ho, hp⟩, hr⟩, rfl⟩

/-- something is listed under a prefix exactly when an object name starts with it -/
theorem listObjects_nonempty (s : Store) (pre : Name) :
    (listObjects s pre).isEmpty = false ↔ ∃ o ∈ s, pre <+: o.1 := by
  constructor
  · intro h
    cases hl : listObjects s pre with
    | nil => rw [hl] at h; simp at h
    | cons e t =>
      have he : e ∈ listObjects s pre := by rw [hl]; exact List.mem_cons_self
      cases e with
      | item n sz =>
        obtain ⟨o, ho, h1, _, h3, _⟩ := (mem_listObjects_item s pre n sz).mp he
        exact ⟨o, ho, h1 ▸ h3⟩
      | pfx p =>
        obtain ⟨o, ho, h1, _⟩ := (mem_listObjects_pfx s pre p).mp he
        exact ⟨o, ho, h1⟩
  · rintro ⟨o, ho, hp⟩
    cases hr : rollup pre o.1 with
    | none =>
      have : Entry.item o.1 o.2.length ∈ listObjects s pre :=
        (mem_listObjects_item s pre o.1 o.2.length).mpr ⟨o, ho, rfl, rfl, hp, hr⟩
      cases hl : listObjects s pre with
      | nil => rw [hl] at this; cases this
      | cons _ _ => rfl
    | some p =>
      have : Entry.pfx p ∈ listObjects s pre := (mem_listObjects_pfx s pre p).mpr ⟨o, ho, hp, hr⟩
      cases hl : listObjects s pre with
      | nil => rw [hl] at this; cases this
      | cons _ _ => rfl

theorem get_none_iff (s : Store) (p : Name) : get s p = none ↔ ∀ o ∈ s, o.1 ≠ p := by
  unfold get
  rw [List.lookup_eq_none_iff]
  constructor
  · intro h o ho he; have := h o ho; simp [he] at this
  · intro h o ho; simpa using fun he : p = o.1 => h o ho he.symm

theorem get_some_mem (s : Store) (p : Name) (d : Bytes) (h : get s p = some d) : (p, d) ∈ s := by
  unfold get at h
  induction s with
  | nil => cases h
  | cons o t ih =>
    obtain ⟨k, v⟩ := o
    by_cases hk : p = k
    · subst hk; simp [List.lookup] at h; subst h; exact List.mem_cons_self
    · have : (p == k) = false := by simpa using hk
      simp only [List.lookup, this] at h
      exact List.mem_cons_of_mem _ (ih h)

/-! ### names: `bkt/<d>` -/

/-- the gcsfs name of bucket-relative path `d` -/
def fsName (d : Name) : Name := bkt ++ sep :: d

theorem bucketOf_fsName (d : Name) : bucketOf (fsName d) = bkt := by
  simp [fsName, bucketOf, bkt, sep, List.takeWhile]

theorem pathOf_fsName (d : Name) : pathOf (fsName d) = d := by
  simp [fsName, pathOf, bkt, sep, List.dropWhile]

theorem bucketErr_fsName (d : Name) : bucketErr (fsName d) = none := by
  simp [bucketErr, bucketOf_fsName]

theorem getLast?_snoc (x : Name) (c : Char) : (x ++ [c]).getLast? = some c := by
  simp [List.getLast?_append]

theorem ensureTrailing_fsName (d : Name) (hl : d.getLast? ≠ some sep) (hd : d ≠ []) :
    ensureTrailing (fsName d) = fsName (d ++ [sep]) := by
  unfold ensureTrailing
  have h1 : fsName d ≠ [] := by simp [fsName, bkt]
  have h2 : (fsName d).getLast? ≠ some sep := by
    unfold fsName
    rw [show bkt ++ sep :: d = (bkt ++ [sep]) ++ d by simp, List.getLast?_append]
    cases hg : d.getLast? with
    | none => exact absurd (List.getLast?_eq_none_iff.mp hg) hd
    | some c => rw [hg] at hl; simpa using hl
  simp only [h1, h2, ne_eq, not_false_eq_true, and_self, if_true]
  simp [fsName]

/-! ### trimming separators, base names -/

theorem trimSeps_snoc_sep (x : Name) : trimSeps (x ++ [sep]) = trimSeps x := by
  simp [trimSeps, List.dropWhile]

theorem trimSeps_snoc_ne (x : Name) (c : Char) (hc : c ≠ sep) : trimSeps (x ++ [c]) = x ++ [c] := by
  have : (c == sep) = false := by simpa using hc
  simp [trimSeps, List.dropWhile, this]

theorem trimSeps_length_le (x : Name) : (trimSeps x).length ≤ x.length := by
  unfold trimSeps
  rw [List.length_reverse]
  have := (List.dropWhile_suffix (l := x.reverse) (· == sep)).length_le
  simpa using this

/-- a name ending in a non-separator is its own trimmed form -/
theorem trimSeps_of_last (x : Name) (hx : x ≠ []) (hl : x.getLast? ≠ some sep) : trimSeps x = x := by
  obtain ⟨y, c, rfl⟩ : ∃ y c, x = y ++ [c] := by
    refine ⟨x.dropLast, x.getLast hx, ?_⟩
    exact (List.dropLast_concat_getLast hx).symm
  rw [getLast?_snoc] at hl
  exact trimSeps_snoc_ne y c (by simpa using hl)

/-- `bp` is empty or ends with the separator -/
def DirPrefix (bp : Name) : Prop := bp = [] ∨ ∃ q, bp = q ++ [sep]

theorem takeWhile_rev_dirPrefix (bp : Name) (h : DirPrefix bp) : bp.reverse.takeWhile (· != sep) = [] := by
  rcases h with rfl | ⟨q, rfl⟩
  · rfl
  · simp [List.takeWhile]

/-- the base name of `bp ++ seg` is `seg` when `seg` is a non-empty segment -/
theorem base_child (bp seg : Name) (hbp : DirPrefix bp) (hne : seg ≠ []) (hns : sep ∉ seg) :
    base (bp ++ seg) = seg := by
  have hl : (bp ++ seg).getLast? ≠ some sep := by
    rw [List.getLast?_append]
    cases hg : seg.getLast? with
    | none => exact absurd (List.getLast?_eq_none_iff.mp hg) hne
    | some c =>
      simp only [Option.some_or, ne_eq, Option.some.injEq]
      intro hc; subst hc
      exact hns (List.mem_of_getLast? hg)
  have hx : bp ++ seg ≠ [] := by simp [hne]
  unfold base
  simp only [hx, if_false, trimSeps_of_last _ hx hl]
  rw [List.reverse_append, List.takeWhile_append_of_pos, takeWhile_rev_dirPrefix bp hbp]
  · simp
  · intro a ha
    have : a ∈ seg := by simpa using ha
    simpa using fun h : a = sep => hns (h ▸ this)

theorem base_child_dir (bp seg : Name) (hbp : DirPrefix bp) (hne : seg ≠ []) (hns : sep ∉ seg) :
    base (bp ++ seg ++ [sep]) = seg := by
  have hx : bp ++ seg ++ [sep] ≠ [] := by simp
  have h1 := base_child bp seg hbp hne hns
  unfold base at h1 ⊢
  have hx' : bp ++ seg ≠ [] := by simp [hne]
  simp only [hx, hx', if_false, trimSeps_snoc_sep] at h1 ⊢
  exact h1

/-! ### what a folder listing keeps -/

theorem rollup_append (bp rest : Name) :
    rollup bp (bp ++ rest) = if rest.contains sep then some (bp ++ rest.takeWhile (· != sep) ++ [sep]) else none := by
  simp [rollup]

theorem not_mem_takeWhile_sep (rest : Name) : sep ∉ rest.takeWhile (· != sep) := by
  induction rest with
  | nil => simp
  | cons c t ih =>
    by_cases hc : c = sep
    · simp [List.takeWhile, hc]
    · have : (c != sep) = true := by simpa using hc
      simp only [List.takeWhile, this, List.mem_cons, not_or]
      exact ⟨fun h => hc h.symm, ih⟩

theorem takeWhile_of_not_mem (rest : Name) (h : sep ∉ rest) : rest.takeWhile (· != sep) = rest := by
  induction rest with
  | nil => rfl
  | cons c t ih =>
    simp only [List.mem_cons, not_or] at h
    have : (c != sep) = true := by simpa using fun e : c = sep => h.1 e.symm
    simp only [List.takeWhile, this, ih h.2]

theorem keep_item_self (bp : Name) (sz : Nat) : keepEntry bp (.item bp sz) = none := by
  simp [keepEntry, infoOfEntry]

theorem length_lt_ne {a b : Name} (h : a.length < b.length) : b ≠ a := by
  intro e; rw [e] at h; omega

theorem keep_item (bp rest : Name) (sz : Nat) (hne : rest ≠ []) (hns : sep ∉ rest) :
    keepEntry bp (.item (bp ++ rest) sz) = some { name := bp ++ rest, size := sz, isDir := false } := by
  have hx : bp ++ rest ≠ [] := by simp [hne]
  have hl : (bp ++ rest).getLast? ≠ some sep := by
    rw [List.getLast?_append]
    cases hg : rest.getLast? with
    | none => exact absurd (List.getLast?_eq_none_iff.mp hg) hne
    | some c =>
      simp only [Option.some_or, ne_eq, Option.some.injEq]
      intro hc; subst hc
      exact hns (List.mem_of_getLast? hg)
  have hlen : (trimSeps bp).length < (bp ++ rest).length := by
    have := trimSeps_length_le bp
    have : 0 < rest.length := List.length_pos_iff.mpr hne
    simp; omega
  simp only [keepEntry, infoOfEntry, hx, if_false, trimSeps_of_last _ hx hl, length_lt_ne hlen]

theorem keep_pfx (bp seg : Name) (hne : seg ≠ []) (hns : sep ∉ seg) :
    keepEntry bp (.pfx (bp ++ seg ++ [sep])) = some { name := bp ++ seg ++ [sep], size := folderSize, isDir := true } := by
  have hx : bp ++ seg ++ [sep] ≠ [] := by simp
  have hx' : bp ++ seg ≠ [] := by simp [hne]
  have hl : (bp ++ seg).getLast? ≠ some sep := by
    rw [List.getLast?_append]
    cases hg : seg.getLast? with
    | none => exact absurd (List.getLast?_eq_none_iff.mp hg) hne
    | some c =>
      simp only [Option.some_or, ne_eq, Option.some.injEq]
      intro hc; subst hc
      exact hns (List.mem_of_getLast? hg)
  have hlen : (trimSeps bp).length < (bp ++ seg).length := by
    have := trimSeps_length_le bp
    have : 0 < seg.length := List.length_pos_iff.mpr hne
    simp; omega
  simp only [keepEntry, infoOfEntry, hx, if_false, trimSeps_snoc_sep, trimSeps_of_last _ hx' hl, length_lt_ne hlen]

/-- layout discipline below a folder prefix `bp`: object names are unique, no empty segment directly
    under `bp`, and no child that is a file and a folder at once -/
structure Layout (s : Store) (bp : Name) : Prop where
  keys : (s.map Prod.fst).Nodup
  seg : ∀ o ∈ s, ∀ rest, o.1 = bp ++ rest → rest ≠ [] → rest.takeWhile (· != sep) ≠ []
  noclash : ∀ o ∈ s, ∀ o' ∈ s, ∀ rest rest', o.1 = bp ++ rest → o'.1 = bp ++ rest' → sep ∉ rest → sep ∈ rest' →
    rest ≠ rest'.takeWhile (· != sep)

theorem keys_unique (s : Store) (h : (s.map Prod.fst).Nodup) : ∀ o ∈ s, ∀ o' ∈ s, o.1 = o'.1 → o = o' := by
  induction s with
  | nil => intro o ho; cases ho
  | cons a t ih =>
    simp only [List.map_cons, List.nodup_cons, List.mem_map, not_exists, not_and] at h
    intro o ho o' ho' he
    rcases List.mem_cons.mp ho with h1 | h1
    · rcases List.mem_cons.mp ho' with h2 | h2
      · rw [h1, h2]
      · exact absurd (by rw [← he, h1]) (h.1 o' h2)
    · rcases List.mem_cons.mp ho' with h2 | h2
      · exact absurd (by rw [he, h2]) (h.1 o h1)
      · exact ih h.2 o h1 o' h2 he

theorem pairwise_keys (s : Store) (h : (s.map Prod.fst).Nodup) : s.Pairwise (fun o o' => o.1 ≠ o'.1) := by
  simpa [List.Nodup, List.pairwise_map] using h

/-- the entries of a folder listing, characterised: one per direct file, one per first segment of
    deeper objects -/
theorem mem_readdir (s : Store) (bp : Name) (lay : Layout s bp) (i : Info) :
    i ∈ (listObjects s bp).filterMap (keepEntry bp) ↔
      (∃ o ∈ s, ∃ rest, o.1 = bp ++ rest ∧ rest ≠ [] ∧ sep ∉ rest ∧
          i = { name := bp ++ rest, size := o.2.length, isDir := false }) ∨
      (∃ o ∈ s, ∃ rest, o.1 = bp ++ rest ∧ sep ∈ rest ∧
          i = { name := bp ++ rest.takeWhile (· != sep) ++ [sep], size := folderSize, isDir := true }) := by
  rw [List.mem_filterMap]
  constructor
  · rintro ⟨e, he, hk⟩
    cases e with
    | item n sz =>
      obtain ⟨o, ho, h1, h2, ⟨rest, h3⟩, h4⟩ := (mem_listObjects_item s bp n sz).mp he
      subst h3
      rw [rollup_append] at h4
      have hns : sep ∉ rest := by
        intro hm
        have : rest.contains sep = true := List.contains_iff_mem.mpr hm
        simp [this] at h4
        try exact h4 hm
      by_cases hr : rest = []
      · subst hr; simp [keep_item_self] at hk
      · rw [keep_item bp rest sz hr hns] at hk
        left
        exact ⟨o, ho, rest, h1, hr, hns, by rw [h2]; exact (Option.some.inj hk).symm⟩
    | pfx p =>
      obtain ⟨o, ho, ⟨rest, h3⟩, h4⟩ := (mem_listObjects_pfx s bp p).mp he
      rw [← h3, rollup_append] at h4
      by_cases hc : rest.contains sep = true
      · simp only [hc, if_true, Option.some.injEq] at h4
        have hm : sep ∈ rest := List.contains_iff_mem.mp hc
        have hr : rest ≠ [] := by intro h; rw [h] at hm; cases hm
        have hseg := lay.seg o ho rest h3.symm hr
        rw [← h4, keep_pfx bp _ hseg (not_mem_takeWhile_sep rest)] at hk
        right
        exact ⟨o, ho, rest, h3.symm, hm, (Option.some.inj hk).symm⟩
      · simp only [hc] at h4
        cases h4
  · rintro (⟨o, ho, rest, h1, hr, hns, rfl⟩ | ⟨o, ho, rest, h1, hm, rfl⟩)
    · refine ⟨.item (bp ++ rest) o.2.length, ?_, keep_item bp rest _ hr hns⟩
      refine (mem_listObjects_item s bp _ _).mpr ⟨o, ho, h1, rfl, List.prefix_append _ _, ?_⟩
      rw [rollup_append]
      simp [hns]
    · have hr : rest ≠ [] := by intro h; rw [h] at hm; cases hm
      have hseg := lay.seg o ho rest h1 hr
      refine ⟨.pfx (bp ++ rest.takeWhile (· != sep) ++ [sep]), ?_, keep_pfx bp _ hseg (not_mem_takeWhile_sep rest)⟩
      refine (mem_listObjects_pfx s bp _).mpr ⟨o, ho, h1 ▸ List.prefix_append _ _, ?_⟩
      rw [h1, rollup_append]
      simp [hm]

theorem nodup_listObjects (s : Store) (bp : Name) (hk : (s.map Prod.fst).Nodup) : (listObjects s bp).Nodup := by
  unfold listObjects
  rw [List.nodup_append]
  refine ⟨?_, ?_, ?_⟩
  · refine List.Pairwise.filterMap _ ?_ (List.Pairwise.filter _ (pairwise_keys s hk))
    intro o o' hne b hb b' hb' he
    cases h1 : rollup bp o.1 with
    | some q => rw [h1] at hb; cases hb
    | none =>
      cases h2 : rollup bp o'.1 with
      | some q => rw [h2] at hb'; cases hb'
      | none =>
        rw [h1] at hb; rw [h2] at hb'
        simp only [Option.some.injEq] at hb hb'
        rw [← hb, ← hb'] at he
        simp only [Entry.item.injEq] at he
        exact hne he.1
  · rw [List.Nodup, List.pairwise_map]
    exact List.Pairwise.imp (fun h e => h (Entry.pfx.inj e)) (nodup_dedup _)
  · intro a ha b hb
    simp only [List.mem_filterMap] at ha
    simp only [List.mem_map] at hb
    obtain ⟨o, _, ho⟩ := ha
    obtain ⟨q, _, rfl⟩ := hb
    cases h1 : rollup bp o.1 with
    | some q' => rw [h1] at ho; cases ho
    | none => rw [h1] at ho; simp only [Option.some.injEq] at ho; rw [← ho]; intro e; cases e

theorem keepEntry_some (bp : Name) (e : Entry) (i : Info) (h : keepEntry bp e = some i) : i = infoOfEntry e := by
  unfold keepEntry at h
  split at h
  · cases h
  · split at h
    · cases h
    · exact (Option.some.inj h).symm

theorem infoOfEntry_inj (e e' : Entry) (h : infoOfEntry e = infoOfEntry e') : e = e' := by
  cases e <;> cases e' <;> simp [infoOfEntry] at h ⊢
  · exact h
  · exact h

theorem nodup_readdir (s : Store) (bp : Name) (hk : (s.map Prod.fst).Nodup) :
    ((listObjects s bp).filterMap (keepEntry bp)).Nodup := by
  refine List.Pairwise.filterMap _ ?_ (nodup_listObjects s bp hk)
  intro e e' hne b hb b' hb' he
  rw [keepEntry_some bp e b hb, keepEntry_some bp e' b' hb'] at he
  exact hne (infoOfEntry_inj e e' he)

/-- within one listing, the base name determines the entry -/
theorem readdir_base_inj (s : Store) (bp : Name) (hbp : DirPrefix bp) (lay : Layout s bp) (i i' : Info)
    (hi : i ∈ (listObjects s bp).filterMap (keepEntry bp)) (hi' : i' ∈ (listObjects s bp).filterMap (keepEntry bp))
    (he : base i.name = base i'.name) : i = i' := by
  rcases (mem_readdir s bp lay i).mp hi with ⟨o, ho, rest, h1, hr, hns, rfl⟩ | ⟨o, ho, rest, h1, hm, rfl⟩
  · rcases (mem_readdir s bp lay i').mp hi' with ⟨o', ho', rest', h1', hr', hns', rfl⟩ | ⟨o', ho', rest', h1', hm', rfl⟩
    · simp only [base_child bp rest hbp hr hns, base_child bp rest' hbp hr' hns'] at he
      subst he
      have := keys_unique s lay.keys o ho o' ho' (by rw [h1, h1'])
      rw [this]
    · have hr' : rest' ≠ [] := by intro h; rw [h] at hm'; cases hm'
      simp only [base_child bp rest hbp hr hns,
        base_child_dir bp _ hbp (lay.seg o' ho' rest' h1' hr') (not_mem_takeWhile_sep rest')] at he
      exact absurd he (lay.noclash o ho o' ho' rest rest' h1 h1' hns hm')
  · have hr : rest ≠ [] := by intro h; rw [h] at hm; cases hm
    rcases (mem_readdir s bp lay i').mp hi' with ⟨o', ho', rest', h1', hr', hns', rfl⟩ | ⟨o', ho', rest', h1', hm', rfl⟩
    · simp only [base_child bp rest' hbp hr' hns',
        base_child_dir bp _ hbp (lay.seg o ho rest h1 hr) (not_mem_takeWhile_sep rest)] at he
      exact absurd he.symm (lay.noclash o' ho' o ho rest' rest h1' h1 hns' hm)
    · have hr' : rest' ≠ [] := by intro h; rw [h] at hm'; cases hm'
      simp only [base_child_dir bp _ hbp (lay.seg o ho rest h1 hr) (not_mem_takeWhile_sep rest),
        base_child_dir bp _ hbp (lay.seg o' ho' rest' h1' hr') (not_mem_takeWhile_sep rest')] at he
      rw [he]

/-! ### Stat, listing and Remove of `bkt/<d>` -/

/-- prefix-free names, as far as the code depends on it: an object name that starts with the path
    `p` is `p` itself or continues with a separator (`d` vs `dog` is what this excludes) -/
def PrefixOK (s : Store) (p : Name) : Prop := ∀ o ∈ s, p <+: o.1 → o.1 = p ∨ (p ++ [sep]) <+: o.1

/-- `Stat` of a name that is an object: a file of the object's size -/
theorem stat_file (s : Store) (d : Name) (cur : Bytes) (hd : d ≠ []) (hg : get s d = some cur) :
    newFileInfo s (fsName d) = .ok { name := fsName d, size := cur.length, isDir := false } :=
  newFileInfo_file s (fsName d) cur (bucketOf_fsName d) (by rw [pathOf_fsName]; exact hd) (by rw [pathOf_fsName]; exact hg)

theorem stat_dir (s : Store) (d : Name) (hd : d ≠ []) (hg : get s d = none) (hex : ∃ o ∈ s, d <+: o.1) :
    newFileInfo s (fsName d) = .ok { name := ensureTrailing (fsName d), size := folderSize, isDir := true } := by
  have hne : (listObjects s d).isEmpty = false := (listObjects_nonempty s d).mpr hex
  unfold newFileInfo attrs
  simp [bucketErr_fsName, pathOf_fsName, hd, hg, hne]

theorem stat_missing (s : Store) (d : Name) (hd : d ≠ []) (hg : get s d = none) (hno : ¬ ∃ o ∈ s, d <+: o.1) :
    newFileInfo s (fsName d) = .error .notexist := by
  have hne : (listObjects s d).isEmpty = true := by
    cases h : (listObjects s d).isEmpty with
    | true => rfl
    | false => exact absurd ((listObjects_nonempty s d).mp h) hno
  unfold newFileInfo attrs
  simp [bucketErr_fsName, pathOf_fsName, hd, hg, hne]

/-- **folder_iff_prefix.**  A name is a folder exactly when it is no object itself and objects exist under it. -/
theorem folder_iff_prefix' (s : Store) (d : Name) (hd : d ≠ []) (hfree : PrefixOK s d) :
    (∃ i, newFileInfo s (fsName d) = .ok i ∧ i.isDir = true) ↔
      (get s d = none ∧ ∃ o ∈ s, (d ++ [sep]) <+: o.1) := by
  cases hg : get s d with
  | some cur =>
    rw [stat_file s d cur hd hg]
    constructor
    · rintro ⟨i, hi, hdir⟩; cases hi; cases hdir
    · rintro ⟨h, _⟩; cases h
  | none =>
    constructor
    · rintro ⟨i, hi, hdir⟩
      refine ⟨rfl, ?_⟩
      by_cases hex : ∃ o ∈ s, d <+: o.1
      · obtain ⟨o, ho, hp⟩ := hex
        rcases hfree o ho hp with h | h
        · exact absurd h ((get_none_iff s d).mp hg o ho)
        · exact ⟨o, ho, h⟩
      · rw [stat_missing s d hd hg hex] at hi; cases hi
    · rintro ⟨_, o, ho, hp⟩
      exact ⟨_, stat_dir s d hd hg ⟨o, ho, (List.prefix_append d [sep]).trans hp⟩, rfl⟩

/-- the listing `Readdir(n ≤ 0)` computes for folder `d` -/
theorem readdirS_dir (s : Store) (d : Name) (hd : d ≠ []) (hl : d.getLast? ≠ some sep) (hg : get s d = none)
    (hex : ∃ o ∈ s, d <+: o.1) :
    readdirS s (fsName d) = .ok ((listObjects s (d ++ [sep])).filterMap (keepEntry (d ++ [sep]))) := by
  unfold readdirS
  rw [stat_dir s d hd hg hex]
  simp [ensureTrailing_fsName d hl hd, pathOf_fsName]

theorem dirPrefix_snoc (d : Name) : DirPrefix (d ++ [sep]) := Or.inr ⟨d, rfl⟩

/-- **readdir_children_once.**  Listing folder `d` returns its immediate children — the first path
    segment after `d/` of every object under it, marked as a folder when more follows — each once. -/
theorem readdir_children_once' (s : Store) (d : Name) (hd : d ≠ []) (hl : d.getLast? ≠ some sep)
    (lay : Layout s (d ++ [sep])) (l : List Info) (hg : get s d = none) (hex : ∃ o ∈ s, d <+: o.1)
    (h : readdirS s (fsName d) = .ok l) :
    (l.map fun i => base i.name).Nodup ∧
    ∀ c dir, (c, dir) ∈ l.map (fun i => (base i.name, i.isDir)) ↔
      ∃ o ∈ s, ∃ rest, o.1 = d ++ [sep] ++ rest ∧ rest ≠ [] ∧
        c = rest.takeWhile (· != sep) ∧ dir = rest.contains sep := by
  rw [readdirS_dir s d hd hl hg hex] at h
  have hl' : l = (listObjects s (d ++ [sep])).filterMap (keepEntry (d ++ [sep])) := (Except.ok.inj h).symm
  subst hl'
  have hbp := dirPrefix_snoc d
  constructor
  · rw [List.Nodup, List.pairwise_map]
    refine List.Pairwise.imp_of_mem ?_ (nodup_readdir s _ lay.keys)
    intro i i' hi hi' hne he
    exact hne (readdir_base_inj s _ hbp lay i i' hi hi' he)
  · intro c dir
    simp only [List.mem_map]
    constructor
    · rintro ⟨i, hi, he⟩
      rcases (mem_readdir s _ lay i).mp hi with ⟨o, ho, rest, h1, hr, hns, rfl⟩ | ⟨o, ho, rest, h1, hm, rfl⟩
      · simp only [Prod.mk.injEq, base_child _ rest hbp hr hns] at he
        refine ⟨o, ho, rest, h1, hr, ?_, ?_⟩
        · rw [takeWhile_of_not_mem rest hns]; exact he.1.symm
        · rw [← he.2]; symm; simpa using hns
      · have hr : rest ≠ [] := by intro h; rw [h] at hm; cases hm
        simp only [Prod.mk.injEq, base_child_dir _ _ hbp (lay.seg o ho rest h1 hr) (not_mem_takeWhile_sep rest)] at he
        refine ⟨o, ho, rest, h1, hr, he.1.symm, ?_⟩
        rw [← he.2]; symm; simpa using hm
    · rintro ⟨o, ho, rest, h1, hr, rfl, rfl⟩
      by_cases hm : sep ∈ rest
      · refine ⟨_, (mem_readdir s _ lay _).mpr (Or.inr ⟨o, ho, rest, h1, hm, rfl⟩), ?_⟩
        simp only [Prod.mk.injEq, base_child_dir _ _ hbp (lay.seg o ho rest h1 hr) (not_mem_takeWhile_sep rest), true_and]
        symm; simpa using hm
      · refine ⟨_, (mem_readdir s _ lay _).mpr (Or.inl ⟨o, ho, rest, h1, hr, hm, rfl⟩), ?_⟩
        simp only [Prod.mk.injEq, base_child _ rest hbp hr hm, takeWhile_of_not_mem rest hm, true_and]
        symm; simpa using hm

/-- **remove_nonempty_fails.**  `Remove` of a folder with at least one object under it (other than
    its own placeholder) fails with ENOTEMPTY and leaves the bucket alone. -/
theorem remove_nonempty_fails' (s : Store) (d : Name) (hd : d ≠ []) (hl : d.getLast? ≠ some sep)
    (lay : Layout s (d ++ [sep])) (hg : get s d = none)
    (o : Name × Bytes) (ho : o ∈ s) (rest : Name) (h1 : o.1 = d ++ [sep] ++ rest) (hr : rest ≠ []) :
    removeS s (fsName d) = (s, some .notempty) := by
  have hex : ∃ o ∈ s, d <+: o.1 := ⟨o, ho, by rw [h1, List.append_assoc]; exact List.prefix_append _ _⟩
  have hmem : ∃ i, i ∈ (listObjects s (d ++ [sep])).filterMap (keepEntry (d ++ [sep])) := by
    by_cases hm : sep ∈ rest
    · exact ⟨_, (mem_readdir s _ lay _).mpr (Or.inr ⟨o, ho, rest, h1, hm, rfl⟩)⟩
    · exact ⟨_, (mem_readdir s _ lay _).mpr (Or.inl ⟨o, ho, rest, h1, hr, hm, rfl⟩)⟩
  have hne : (listObjects s (d ++ [sep])).filterMap (keepEntry (d ++ [sep])) ≠ [] := by
    obtain ⟨i, hi⟩ := hmem
    intro h; rw [h] at hi; cases hi
  unfold removeS
  simp only [bucketErr_fsName, stat_dir s d hd hg hex, readdirS_dir s d hd hl hg hex, if_true, hne, ne_eq,
    not_false_eq_true]

/-- `Remove` of an object deletes exactly that object -/
theorem remove_file (s : Store) (d : Name) (cur : Bytes) (hd : d ≠ []) (hg : get s d = some cur) :
    removeS s (fsName d) = (del s d, none) := by
  unfold removeS
  simp [bucketErr_fsName, stat_file s d cur hd hg, delObj, pathOf_fsName, hd, hg]


end AferoVerif.Gcs
