/-
  MemMapFs against a small POSIX-style reference.

  * Part 1 — the per-directory index is redundant: in a consistent state a directory's index holds
    exactly the existing names whose parent is that directory (`listing_is_children`), and a freshly
    opened directory handle lists exactly those objects, each once (`readdir_lists_children`).
  * Part 2 — the abstract `view` of a state (what `lookup`/`obj` say about each name, without object
    identities and without directory indexes) and one-line reference operations on views; every
    Fs-level operation of the model, run under the ordinary preconditions, computes the reference
    operation on the view and reports success (`*_refines`); failed calls keep the view
    (`failed_calls_keep_view`).
  * Part 3 — whole programs (`run_refines`).
-/
import AferoVerif.Proofs.MemFsFragment
namespace AferoVerif

/-- what a name denotes, seen from outside: a regular file (bytes, mode) or a directory (mode) -/
inductive Node where
  | file (data : Bytes) (mode : Nat)
  | dir (mode : Nat)
  deriving DecidableEq, Repr

namespace MemFs

/-! ## Part 1 — listings are the children -/

/-- **a directory's index holds exactly the existing names whose parent is that directory** -/
theorem listing_is_children (m : MemFs) (hc : Consistent m) (k : Key) (p : Nat) (d : List (Key × Nat))
    (hl : m.lookup k = some p) (hd : (m.obj p).memDir = some d) (k' : Key) (f' : Nat) :
    alLookup d k' = some f' ↔ (m.lookup k' = some f' ∧ parentKey k' = k ∧ k' ≠ rootKey) := by
  constructor
  · exact hc.noStale k p d k' f' hl hd
  · rintro ⟨h1, h2, h3⟩
    obtain ⟨p0, d0, a, b, c⟩ := hc.hasParent k' f' h1 h3
    rw [h2, hl] at a
    injection a with a
    subst a
    rw [hd] at b
    injection b with b
    subst b
    exact c

/-- every object obeys two local rules: the directory flag says whether there is an index, and an
    index holds every name once (Go map semantics).  True initially, kept by every operation
    (`objsOK_step`), hence in every reachable state (`objsOK_run`). -/
def ObjOK (d : FData) : Prop :=
  d.dir = d.memDir.isSome ∧ ∀ l, d.memDir = some l → (l.map (·.1)).Nodup

def ObjsOK (m : MemFs) : Prop := ∀ j, ObjOK (m.obj j)

theorem objOK_default : ObjOK (default : FData) := ⟨rfl, fun l h => by cases h⟩

/-- entries with distinct keys whose values determine their keys have distinct values -/
theorem nodup_snd_of_inj (l : List (Key × Nat)) (hk : (l.map (·.1)).Nodup)
    (hinj : ∀ e1 ∈ l, ∀ e2 ∈ l, e1.2 = e2.2 → e1.1 = e2.1) : (l.map (·.2)).Nodup := by
  induction l with
  | nil => exact List.nodup_nil
  | cons a l ih =>
    rw [List.map_cons, List.nodup_cons] at hk ⊢
    refine ⟨?_, ih hk.2 (fun e1 h1 e2 h2 => hinj e1 (List.mem_cons_of_mem _ h1) e2 (List.mem_cons_of_mem _ h2))⟩
    intro hmem
    obtain ⟨e, he, hea⟩ := List.mem_map.1 hmem
    apply hk.1
    have := hinj e (List.mem_cons_of_mem _ he) a List.mem_cons_self hea
    rw [← this]
    exact List.mem_map_of_mem he

/-- **`Readdir(-1)` on a freshly opened directory handle lists exactly the children**: the objects
    returned are those of the existing names whose parent is the directory, each once; the call
    reports no error and only advances the handle's cursor.

    `hnd` (the index holds every name once) is the second half of `ObjOK`, which every reachable
    state has (`objsOK_run`). -/
theorem readdir_lists_children (m : MemFs) (hc : Consistent m) (k : Key) (p : Nat) (d : List (Key × Nat))
    (hl : m.lookup k = some p) (hd : (m.obj p).memDir = some d) (hdir : (m.obj p).dir = true)
    (hnd : (d.map (·.1)).Nodup)
    (hi : Nat) (mh : MHandle) (hh : m.handles[hi]? = some mh) (hobj : mh.obj = p) (hfresh : mh.readDirCount = 0) :
    ∃ listed, (m.readdir hi (-1)).2 = (some listed, none) ∧
      (m.readdir hi (-1)).1 = { m with handles := m.handles.set hi { mh with readDirCount := listed.length } } ∧
      listed.Nodup ∧ listed.length = d.length ∧
      ∀ f', f' ∈ listed ↔ ∃ k', m.lookup k' = some f' ∧ parentKey k' = k ∧ k' ≠ rootKey := by
  have hperm := List.mergeSort_perm d (fun a b => strLe a.1.render b.1.render)
  refine ⟨m.dirFiles (m.obj p), ?_, ?_, ?_, ?_, ?_⟩
  · unfold readdir
    simp only [hh, hobj, hdir, hfresh]
    simp
  · unfold readdir
    simp only [hh, hobj, hdir, hfresh]
    simp
  · -- each object once
    unfold dirFiles
    simp only [hd, Option.getD_some]
    refine (hperm.map (·.2)).nodup_iff.2 (nodup_snd_of_inj d hnd ?_)
    intro e1 h1 e2 h2 he
    have a1 := (hc.noStale k p d e1.1 e1.2 hl hd (alLookup_of_mem_nodup d hnd e1 h1)).1
    have a2 := (hc.noStale k p d e2.1 e2.2 hl hd (alLookup_of_mem_nodup d hnd e2 h2)).1
    rw [he] at a1
    exact hc.inj _ _ _ a1 a2
  · unfold dirFiles
    simp only [hd, Option.getD_some, List.length_map]
    exact hperm.length_eq
  · intro f'
    unfold dirFiles
    simp only [hd, Option.getD_some]
    rw [(hperm.map (·.2)).mem_iff]
    constructor
    · intro h
      obtain ⟨e, he, hef⟩ := List.mem_map.1 h
      have := alLookup_of_mem_nodup d hnd e he
      rw [hef] at this
      exact ⟨e.1, (listing_is_children m hc k p d hl hd e.1 f').1 this⟩
    · rintro ⟨k', h⟩
      have := (listing_is_children m hc k p d hl hd k' f').2 h
      exact List.mem_map.2 ⟨(k', f'), mem_of_alLookup d k' f' this, rfl⟩

/-! ### the local object rules hold in every reachable state -/

theorem objOK_meta (d d' : FData) (h : ObjOK d) (h1 : d'.dir = d.dir) (h2 : d'.memDir = d.memDir) : ObjOK d' := by
  unfold ObjOK; rw [h1, h2]; exact h

theorem objOK_mapInsert (d : FData) (h : ObjOK d) (k : Key) (v : Nat) :
    ObjOK { d with memDir := d.memDir.map fun l => alInsert l k v } := by
  refine ⟨?_, ?_⟩
  · show d.dir = (d.memDir.map _).isSome
    rw [Option.isSome_map]; exact h.1
  · intro l hl
    have hl' : (d.memDir.map fun l => alInsert l k v) = some l := hl
    cases hm : d.memDir with
    | none => rw [hm] at hl'; cases hl'
    | some l0 =>
      rw [hm] at hl'; injection hl' with hl'; rw [← hl']
      exact nodup_alInsert _ _ _ (h.2 l0 hm)

theorem objOK_mapErase (d : FData) (h : ObjOK d) (k : Key) :
    ObjOK { d with memDir := d.memDir.map fun l => alErase l k } := by
  refine ⟨?_, ?_⟩
  · show d.dir = (d.memDir.map _).isSome
    rw [Option.isSome_map]; exact h.1
  · intro l hl
    have hl' : (d.memDir.map fun l => alErase l k) = some l := hl
    cases hm : d.memDir with
    | none => rw [hm] at hl'; cases hl'
    | some l0 =>
      rw [hm] at hl'; injection hl' with hl'; rw [← hl']
      exact nodup_alErase _ _ (h.2 l0 hm)

theorem objOK_initDir (d : FData) : ObjOK { d with dir := true, memDir := some [] } :=
  ⟨rfl, fun l h => by injection h with h; rw [← h]; exact List.nodup_nil⟩

theorem objOK_newFile (m : MemFs) (k : Key) : ObjOK (m.newFile k) := ⟨rfl, fun l h => by cases h⟩

theorem objOK_newDir (m : MemFs) (k : Key) (mode : Nat) : ObjOK { (m.newDir k) with mode := mode } :=
  ⟨rfl, fun l h => by injection h with h; rw [← h]; exact List.nodup_nil⟩

theorem obj_setObj_cases (m : MemFs) (i : Nat) (d : FData) (j : Nat) :
    (m.setObj i d).obj j = m.obj j ∨ ((m.setObj i d).obj j = d ∧ j = i ∧ i < m.objs.length) := by
  by_cases hj : j = i
  · by_cases hl : i < m.objs.length
    · right; rw [hj]; exact ⟨obj_setObj_self m i d hl, rfl, hl⟩
    · left
      have : m.setObj i d = m := by
        unfold setObj; rw [List.set_eq_of_length_le (Nat.le_of_not_lt hl)]
      rw [this]
  · left; exact obj_setObj_ne m i j d hj

theorem objsOK_setObj (m : MemFs) (h : ObjsOK m) (i : Nat) (d : FData) (hd : ObjOK d) : ObjsOK (m.setObj i d) := by
  intro j
  rcases obj_setObj_cases m i d j with e | ⟨e, _, _⟩
  · rw [e]; exact h j
  · rw [e]; exact hd

theorem objsOK_of_objs (m m' : MemFs) (h : ObjsOK m) (e : m'.objs = m.objs) : ObjsOK m' := by
  intro j
  have : m'.obj j = m.obj j := by unfold obj; rw [e]
  rw [this]; exact h j

/-- rewriting bytes, mode, times, owner or name of one object (and anything outside the object heap) -/
theorem objsOK_setObj_meta (m : MemFs) (h : ObjsOK m) (i : Nat) (d : FData) (m' : MemFs)
    (e : m'.objs = (m.setObj i d).objs) (h1 : d.dir = (m.obj i).dir) (h2 : d.memDir = (m.obj i).memDir) : ObjsOK m' :=
  objsOK_of_objs _ m' (objsOK_setObj _ h _ _ (objOK_meta (m.obj i) d (h i) h1 h2)) e

theorem obj_push (m m' : MemFs) (d : FData) (e : m'.objs = m.objs ++ [d]) (j : Nat) :
    (j < m.objs.length ∧ m'.obj j = m.obj j) ∨ (j = m.objs.length ∧ m'.obj j = d) ∨
      (m.objs.length < j ∧ m'.obj j = default) := by
  rcases Nat.lt_trichotomy j m.objs.length with hj | hj | hj
  · left; refine ⟨hj, ?_⟩
    unfold obj; rw [e]
    simp [List.getD_eq_getElem?_getD, List.getElem?_append_left hj]
  · right; left; refine ⟨hj, ?_⟩
    unfold obj; rw [e, hj]
    simp [List.getD_eq_getElem?_getD]
  · right; right; refine ⟨hj, ?_⟩
    unfold obj; rw [e]
    have : (m.objs ++ [d])[j]? = none := by
      apply List.getElem?_eq_none
      simp only [List.length_append, List.length_cons, List.length_nil]; omega
    simp [List.getD_eq_getElem?_getD, this]

theorem objsOK_push (m m' : MemFs) (d : FData) (h : ObjsOK m) (hd : ObjOK d) (e : m'.objs = m.objs ++ [d]) :
    ObjsOK m' := by
  intro j
  rcases obj_push m m' d e j with ⟨_, a⟩ | ⟨_, a⟩ | ⟨_, a⟩
  · rw [a]; exact h j
  · rw [a]; exact hd
  · rw [a]; exact objOK_default

theorem objsOK_init : ObjsOK MemFs.init := by
  intro j
  rcases obj_push ({ objs := [], data := [] } : MemFs) MemFs.init
    { name := rootKey, dir := true, mode := modeDir ||| 0o755, memDir := some [] } rfl j with ⟨a, _⟩ | ⟨_, a⟩ | ⟨_, a⟩
  · exact absurd a (Nat.not_lt_zero _)
  · rw [a]; exact ⟨rfl, fun l h => by injection h with h; rw [← h]; exact List.nodup_nil⟩
  · rw [a]; exact objOK_default

theorem objsOK_regInto (m : MemFs) (h : ObjsOK m) (f p : Nat) : ObjsOK (m.regInto f p) := by
  unfold regInto
  simp only
  apply objsOK_setObj _ h
  apply objOK_mapInsert
  split
  · exact objOK_initDir _
  · exact h p

theorem objsOK_pend (m : MemFs) (h : ObjsOK m) (k : Key) (d : FData) (hd : ObjOK d) : ObjsOK (m.pend k d) :=
  objsOK_push m _ d h hd rfl

theorem objsOK_reg (perm : Nat) : ∀ (fuel : Nat) (m : MemFs) (f : Nat), ObjsOK m →
    ObjsOK (registerWithParent fuel m f perm) := by
  intro fuel
  induction fuel with
  | zero => intro m f h; unfold registerWithParent; exact h
  | succ n ih =>
    intro m f h
    cases hp : m.lookup (parentKey (m.obj f).name) with
    | some p => rw [registerWithParent_some _ _ _ _ p hp]; exact objsOK_regInto m h f p
    | none =>
      have h2 : ObjsOK (m.pend (parentKey (m.obj f).name)
          { (m.newDir (parentKey (m.obj f).name)) with mode := modeDir ||| perm }) :=
        objsOK_pend m h _ _ (objOK_newDir m _ _)
      have h3 := ih _ m.objs.length h2
      cases hq : (registerWithParent n (m.pend (parentKey (m.obj f).name)
          { (m.newDir (parentKey (m.obj f).name)) with mode := modeDir ||| perm }) m.objs.length perm).lookup
          (parentKey (m.obj f).name) with
      | some q => rw [registerWithParent_none _ _ _ _ q hp hq]; exact objsOK_regInto _ h3 f q
      | none =>
        have : registerWithParent (n + 1) m f perm = registerWithParent n (m.pend (parentKey (m.obj f).name)
            { (m.newDir (parentKey (m.obj f).name)) with mode := modeDir ||| perm }) m.objs.length perm := by
          unfold pend at hq ⊢
          rw [registerWithParent]
          simp only [hp, alloc, hq]
        rw [this]; exact h3

theorem objsOK_setFileMode (m : MemFs) (k : Key) (mode : Nat) (h : ObjsOK m) : ObjsOK (m.setFileMode k mode).1 := by
  unfold setFileMode
  split
  · exact h
  · rename_i f _
    exact objsOK_setObj _ h _ _ (objOK_meta (m.obj f) _ (h f) rfl rfl)

theorem objsOK_create (m : MemFs) (k : Key) (h : ObjsOK m) : ObjsOK (m.create k).1 := by
  unfold create
  split
  · split
    · exact objsOK_reg _ _ _ _ (objsOK_push m _ (m.newFile k) h (objOK_newFile m k) rfl)
    · rename_i f _ _
      exact objsOK_setObj _ h _ _ (objOK_meta (m.obj f) _ (h f) rfl rfl)
  · exact objsOK_reg _ _ _ _ (objsOK_push m _ (m.newFile k) h (objOK_newFile m k) rfl)

theorem objsOK_mkdir (m : MemFs) (k : Key) (perm : Nat) (h : ObjsOK m) : ObjsOK (m.mkdir k perm).1 := by
  unfold mkdir
  simp only
  split
  · exact h
  · have h2 : ObjsOK (m.pend k { (m.newDir k) with mode := modeDir ||| (perm &&& chmodBits) }) :=
      objsOK_pend m h _ _ (objOK_newDir m _ _)
    have h3 := objsOK_reg (perm &&& chmodBits)
      ((m.pend k { (m.newDir k) with mode := modeDir ||| (perm &&& chmodBits) }).regFuel m.objs.length) _ m.objs.length h2
    have := objsOK_setFileMode _ k ((perm &&& chmodBits) ||| modeDir) h3
    split <;> rename_i heq <;> (unfold pend at this; unfold alloc at heq; simp only at heq; rw [heq] at this) <;> exact this

theorem objsOK_mkdirAll (m : MemFs) (k : Key) (perm : Nat) (h : ObjsOK m) : ObjsOK (m.mkdirAll k perm).1 := by
  have hmk := objsOK_mkdir m k perm h
  unfold mkdirAll
  split
  · rename_i m' heq; rw [heq] at hmk; exact hmk
  · exact hmk

theorem objsOK_unreg (m m1 : MemFs) (k : Key) (h : ObjsOK m) (hu : m.unRegisterWithParent k = .ok m1) : ObjsOK m1 := by
  unfold unRegisterWithParent at hu
  split at hu
  · cases hu
  · split at hu
    · cases hu
    · rename_i p _
      injection hu with hu; rw [← hu]
      exact objsOK_setObj _ h _ _ (objOK_mapErase (m.obj p) (h p) _)

theorem objsOK_remove (m : MemFs) (k : Key) (h : ObjsOK m) : ObjsOK (m.remove k).1 := by
  unfold remove
  split
  · exact h
  · split
    · rename_i m1 heq
      exact objsOK_of_objs m1 _ (objsOK_unreg m m1 k h heq) rfl
    · exact h
    · exact h

theorem objsOK_removeAll (m : MemFs) (k : Key) (h : ObjsOK m) : ObjsOK (m.removeAll k).1 := by
  unfold removeAll
  split
  · exact h
  · rename_i r _
    simp only
    cases hr : m.unRegisterWithParent k with
    | ok m1 => exact objsOK_of_objs m1 _ (objsOK_unreg m m1 k h hr) rfl
    | notFound => exact objsOK_of_objs m _ h rfl
    | noParent => exact objsOK_of_objs m _ h rfl

theorem objsOK_renameOneDesc (old new : Key) (acc : Option (MemFs × List Key)) (d : Nat)
    (h : ∀ m r, acc = some (m, r) → ObjsOK m) :
    ∀ m r, renameOneDesc old new acc d = some (m, r) → ObjsOK m := by
  intro m r e
  unfold renameOneDesc at e
  cases acc with
  | none => cases e
  | some a =>
    obtain ⟨m0, r0⟩ := a
    simp only at e
    split at e
    · rename_i m1 heq
      injection e with e
      injection e with e1 e2
      rw [← e1]
      refine objsOK_reg _ _ _ _ ?_
      have h1 := objsOK_unreg m0 m1 _ (h m0 r0 rfl) heq
      exact objsOK_of_objs (m1.setObj d { m1.obj d with name := rePrefix old new (m0.obj d).name }) _
        (objsOK_setObj _ h1 _ _ (objOK_meta (m1.obj d) _ (h1 d) rfl rfl)) rfl
    · cases e

theorem objsOK_fold (old new : Key) : ∀ (L : List Nat) (acc : Option (MemFs × List Key)),
    (∀ m r, acc = some (m, r) → ObjsOK m) →
    ∀ m r, L.foldl (renameOneDesc old new) acc = some (m, r) → ObjsOK m := by
  intro L
  induction L with
  | nil => intro acc h m r e; exact h m r e
  | cons d L ih =>
    intro acc h m r e
    rw [List.foldl_cons] at e
    exact ih _ (objsOK_renameOneDesc old new acc d h) m r e

theorem objsOK_rename (m : MemFs) (old new : Key) (h : ObjsOK m) : ObjsOK (m.rename old new).1 := by
  unfold rename
  split
  · exact h
  · rename_i f _
    split
    · exact h
    · split
      · exact h
      · exact h
      · rename_i m1 heq
        simp only
        split
        · exact h
        · rename_i m4 removes hfold
          refine objsOK_reg _ _ _ _ ?_
          have h4 : ObjsOK m4 := by
            refine objsOK_fold old new _ _ ?_ m4 removes hfold
            intro m' r' e
            injection e with e; injection e with e1 e2
            rw [← e1]
            have h1 := objsOK_unreg m m1 old h heq
            exact objsOK_of_objs (m1.setObj f { m1.obj f with name := new }) _
              (objsOK_setObj _ h1 _ _ (objOK_meta (m1.obj f) _ (h1 f) rfl rfl)) rfl
          exact objsOK_of_objs m4 _ h4 rfl

theorem objsOK_openFile (m : MemFs) (k : Key) (flag perm : Nat) (h : ObjsOK m) :
    ObjsOK (m.openFile k flag perm).1 := by
  unfold openFile
  simp only
  split
  · exact h
  · cases hl : m.lookup k with
    | some f =>
      simp only
      by_cases hT : (flag &&& O_TRUNC > 0 ∧ flag &&& (O_RDWR ||| O_WRONLY) > 0)
      · simp only [hT, and_self, if_true, Bool.false_eq_true, if_false]
        exact objsOK_of_objs (m.setObj f { m.obj f with data := [], mtime := m.now }) _
          (objsOK_setObj _ h _ _ (objOK_meta (m.obj f) _ (h f) rfl rfl)) rfl
      · simp only [hT, if_false, Bool.false_eq_true]
        exact objsOK_of_objs m _ h rfl
    | none =>
      simp only
      by_cases hC : flag &&& O_CREATE > 0
      · simp only [hC, if_true]
        have hcr := objsOK_create m k h
        generalize m.create k = C at hcr
        obtain ⟨m1, f⟩ := C
        simp only at hcr ⊢
        by_cases hT : (flag &&& O_TRUNC > 0 ∧ flag &&& (O_RDWR ||| O_WRONLY) > 0)
        · simp only [hT, and_self, if_true]
          refine objsOK_setFileMode _ _ _ ?_
          exact objsOK_of_objs (m1.setObj f { m1.obj f with data := [], mtime := m1.now }) _
            (objsOK_setObj _ hcr _ _ (objOK_meta (m1.obj f) _ (hcr f) rfl rfl)) rfl
        · simp only [hT, if_false]
          exact objsOK_setFileMode _ _ _ (objsOK_of_objs m1 _ hcr rfl)
      · simp only [hC, if_false]
        exact h

theorem objsOK_fileIO (m : MemFs) (hi : Nat) (f : Bytes → Handle → Bytes × Handle × FOut) (t : Bool) (h : ObjsOK m) :
    ObjsOK (m.fileIO hi f t).1 := by
  unfold fileIO
  split
  · exact h
  · rename_i mh _
    exact objsOK_setObj_meta m h mh.obj _ _ rfl rfl rfl

theorem objs_readdir (m : MemFs) (hi : Nat) (n : Int) : (m.readdir hi n).1.objs = m.objs := by
  unfold readdir
  split
  · rfl
  · simp only
    split <;> rfl

/-- **every operation keeps the local object rules** -/
theorem objsOK_step (m : MemFs) (op : Op) (h : ObjsOK m) : ObjsOK (m.step op).1 := by
  cases op with
  | create p =>
    simp only [step]
    have := objsOK_create m (keyOfStr p) h
    generalize m.create (keyOfStr p) = C at this
    obtain ⟨m1, f⟩ := C
    exact objsOK_of_objs m1 _ this rfl
  | mkdir p perm => exact objsOK_mkdir m _ perm h
  | mkdirAll p perm => exact objsOK_mkdirAll m _ perm h
  | open_ p =>
    simp only [step, openRO]
    split
    · exact h
    · exact objsOK_of_objs m _ h rfl
  | openFile p flag perm => exact objsOK_openFile m _ flag perm h
  | remove p => exact objsOK_remove m _ h
  | removeAll p => exact objsOK_removeAll m _ h
  | rename a b => exact objsOK_rename m _ _ h
  | stat p => exact h
  | chmod p mode =>
    simp only [step]; unfold chmod; simp only
    split
    · exact h
    · rename_i f _
      have := objsOK_setFileMode m (keyOfStr p) (((m.obj f).mode - ((m.obj f).mode &&& chmodBits)) ||| (mode &&& chmodBits)) h
      split <;> rename_i heq <;> rw [heq] at this <;> exact this
  | chown p u g =>
    simp only [step]; unfold chown; split
    · exact h
    · rename_i f _
      exact objsOK_setObj _ h _ _ (objOK_meta (m.obj f) _ (h f) rfl rfl)
  | chtimes p t =>
    simp only [step]; unfold chtimes; split
    · exact h
    · rename_i f _
      exact objsOK_setObj _ h _ _ (objOK_meta (m.obj f) _ (h f) rfl rfl)
  | hRead hi n => exact objsOK_fileIO m hi _ _ h
  | hReadAt hi n off => exact objsOK_fileIO m hi _ _ h
  | hWrite hi b => exact objsOK_fileIO m hi _ _ h
  | hWriteAt hi b off => exact objsOK_fileIO m hi _ _ h
  | hTrunc hi n => exact objsOK_fileIO m hi _ _ h
  | hSeek hi off wh => exact objsOK_fileIO m hi _ _ h
  | hClose hi =>
    simp only [step]; unfold hClose; split
    · exact h
    · rename_i mh _
      simp only
      split
      · exact objsOK_of_objs m _ h rfl
      · exact objsOK_setObj_meta m h mh.obj _ _ rfl rfl rfl
  | hName hi => exact h
  | hStat hi => exact h
  | hSync hi => exact h
  | hReaddir hi n =>
    simp only [step]
    have := objsOK_of_objs m _ h (objs_readdir m hi n)
    generalize m.readdir hi n = R at this
    obtain ⟨m', fs, e⟩ := R
    exact this
  | hReaddirnames hi n =>
    simp only [step]
    have := objsOK_of_objs m _ h (objs_readdir m hi n)
    generalize m.readdir hi n = R at this
    obtain ⟨m', fs, e⟩ := R
    exact this

/-- … hence every state a program reaches from the initial one obeys them -/
theorem objsOK_run (ops : List Op) : ∀ m, ObjsOK m → ObjsOK (run m ops) := by
  induction ops with
  | nil => intro m h; exact h
  | cons op ops ih => intro m h; exact ih _ (objsOK_step m op h)

end MemFs

/-! ## Part 2 — the abstract view and the POSIX-style reference operations -/

/-- a tree seen from outside: what each name denotes -/
abbrev View := Key → Option Node

/-- `unlink` / `rmdir` of an empty directory: the name is gone -/
def refRemove (v : View) (k : Key) : View := fun k' => if k' = k then none else v k'

/-- `rm -r`: the name and everything below it are gone -/
def refRemoveAll (v : View) (k : Key) : View := fun k' => if k' = k ∨ isUnder k k' = true then none else v k'

/-- `mkdir`: the name denotes a directory with the requested permission bits -/
def refMkdir (v : View) (k : Key) (perm : Nat) : View :=
  fun k' => if k' = k then some (.dir ((perm &&& chmodBits) ||| modeDir)) else v k'

/-- `creat`: the name denotes an empty regular file; an existing file keeps its mode, a new one
    gets the mode `mem.CreateFile` gives it -/
def refCreate (v : View) (k : Key) : View :=
  fun k' => if k' = k then some (.file [] (match v k with | some (.file _ md) => md | _ => modeTemporary)) else v k'

/-- `rename` of a file or an empty directory: the new name denotes what the old one did -/
def refRenameLeaf (v : View) (a b : Key) : View := fun k' => if k' = b then v a else if k' = a then none else v k'

/-- `rename` of a directory: the new name and every name below it denote what the corresponding
    names at and below the old name did; nothing is left at or below the old name -/
def refRenameDir (v : View) (a b : Key) : View :=
  fun k' => if k' = b ∨ isUnder b k' = true then v (rePrefix b a k')
    else if k' = a ∨ isUnder a k' = true then none else v k'

/-- `chmod`: the permission bits (and setuid, setgid, sticky) are replaced, the other mode bits stay -/
def Node.chmod (n : Node) (mode : Nat) : Node :=
  match n with
  | .file d md => .file d ((md - (md &&& chmodBits)) ||| (mode &&& chmodBits))
  | .dir md => .dir ((md - (md &&& chmodBits)) ||| (mode &&& chmodBits))

def refChmod (v : View) (k : Key) (mode : Nat) : View := fun k' => if k' = k then (v k).map (·.chmod mode) else v k'

namespace MemFs

/-- what an object looks like from outside -/
def nodeOf (d : FData) : Node := if d.dir then .dir d.mode else .file d.data d.mode

/-- **the abstract view of a state**: what `lookup` and `obj` say about a name — no object
    identities, no directory indexes, no times, no handles -/
def view (m : MemFs) : View := fun k => (m.lookup k).map fun f => nodeOf (m.obj f)

theorem view_some (m : MemFs) (k : Key) (f : Nat) (h : m.lookup k = some f) : view m k = some (nodeOf (m.obj f)) := by
  unfold view; rw [h]; rfl

theorem view_none (m : MemFs) (k : Key) (h : m.lookup k = none) : view m k = none := by
  unfold view; rw [h]; rfl

theorem view_eq_none (m : MemFs) (k : Key) : view m k = none ↔ m.lookup k = none := by
  unfold view
  cases m.lookup k <;> simp

/-- the handle table plays no part in the view -/
theorem view_handles (m : MemFs) (hs : List MHandle) : view { m with handles := hs } = view m := rfl

/-- transfer: the name `k` of `m'` leads where `k0` led in `m`, and that object looks the same -/
theorem view_congr (m m' : MemFs) (k k0 : Key) (hl : m'.lookup k = m.lookup k0)
    (ho : ∀ f, m.lookup k0 = some f → nodeOf (m'.obj f) = nodeOf (m.obj f)) : view m' k = view m k0 := by
  unfold view
  rw [hl]
  cases h : m.lookup k0 with
  | none => rfl
  | some f => simp only [Option.map_some]; rw [ho f h]

theorem nodeOf_eq (d d' : FData) (h1 : d'.dir = d.dir) (h2 : d'.data = d.data) (h3 : d'.mode = d.mode) :
    nodeOf d' = nodeOf d := by
  unfold nodeOf; rw [h1, h2, h3]

theorem nodeOf_file (d : FData) (h : d.dir = false) : nodeOf d = .file d.data d.mode := by
  unfold nodeOf; rw [h]; rfl

theorem nodeOf_dir (d : FData) (h : d.dir = true) : nodeOf d = .dir d.mode := by
  unfold nodeOf; rw [h]; rfl

/-- rewriting an object into one that looks the same changes no object's look -/
theorem nodeOf_setObj (m : MemFs) (i : Nat) (d : FData) (h : nodeOf d = nodeOf (m.obj i)) (j : Nat) :
    nodeOf ((m.setObj i d).obj j) = nodeOf (m.obj j) := by
  rcases obj_setObj_cases m i d j with e | ⟨e, hj, _⟩
  · rw [e]
  · rw [e, hj]; exact h

theorem nodeOf_setObj_idx (m : MemFs) (i : Nat) (d : FData) (h1 : d.dir = (m.obj i).dir)
    (h2 : d.data = (m.obj i).data) (h3 : d.mode = (m.obj i).mode) (j : Nat) :
    nodeOf ((m.setObj i d).obj j) = nodeOf (m.obj j) :=
  nodeOf_setObj m i d (nodeOf_eq _ _ h1 h2 h3) j

/-- **`Stat` reads the view**: existence, kind, size and mode bits reported for a name are those of
    its node (a directory reports the fixed size 42) -/
theorem stat_reads_view (m : MemFs) (hc : Consistent m) (k : Key) :
    m.stat k = match view m k with
      | none => .err .notexist
      | some (.file d md) => .info (baseName k) d.length false md
      | some (.dir md) => .info (baseName k) 42 true md := by
  unfold stat
  cases hl : m.lookup k with
  | none => rw [view_none m k hl]
  | some f =>
    rw [view_some m k f hl]
    simp only
    rw [hc.nameEq k f hl]
    cases hd : (m.obj f).dir with
    | false => rw [nodeOf_file _ hd]; simp
    | true => rw [nodeOf_dir _ hd]; simp

/-! ### Remove -/

theorem nodeOf_detach (m : MemFs) (k : Key) (p j : Nat) : nodeOf ((m.detach k p).obj j) = nodeOf (m.obj j) := by
  show nodeOf ((m.setObj p { m.obj p with memDir := (m.obj p).memDir.map fun d => alErase d k }).obj j) = _
  refine nodeOf_setObj_idx m p _ ?_ ?_ ?_ j <;> rfl

theorem remove_view (m : MemFs) (hc : Consistent m) (k : Key) (f : Nat) (hroot : k ≠ rootKey)
    (hl : m.lookup k = some f) :
    (m.remove k).2 = .ok ∧ ∀ k', view (m.remove k).1 k' = refRemove (view m) k k' := by
  obtain ⟨p, pd, h1, _, _⟩ := hc.hasParent k f hl hroot
  rw [remove_leaf_eq_detach m hc k f p hl h1]
  refine ⟨rfl, fun k' => ?_⟩
  show view (m.detach k p) k' = _
  unfold refRemove
  by_cases hk : k' = k
  · rw [if_pos hk]; apply view_none; rw [lookup_detach, if_pos hk]
  · rw [if_neg hk]
    exact view_congr m _ k' k' (by rw [lookup_detach, if_neg hk]) (fun g _ => nodeOf_detach m k p g)

/-- **`Remove` of a file or an empty directory refines `unlink`/`rmdir`** -/
theorem remove_refines (m : MemFs) (hc : Consistent m) (p : Str) (f : Nat) (hroot : keyOfStr p ≠ rootKey)
    (hl : m.lookup (keyOfStr p) = some f) (_hleaf : Leaf m f) :
    (m.step (.remove p)).2 = .ok ∧ ∀ k', view (m.step (.remove p)).1 k' = refRemove (view m) (keyOfStr p) k' :=
  remove_view m hc (keyOfStr p) f hroot hl

/-! ### RemoveAll -/

theorem nodeOf_prune (m : MemFs) (k : Key) (p j : Nat) : nodeOf ((m.prune k p).obj j) = nodeOf (m.obj j) := by
  show nodeOf ((m.setObj p { m.obj p with memDir := (m.obj p).memDir.map fun d => alErase d k }).obj j) = _
  refine nodeOf_setObj_idx m p _ ?_ ?_ ?_ j <;> rfl

theorem removeAll_view (m : MemFs) (hc : Consistent m) (k : Key) (hk : k.segs ≠ []) (hn : normKey k = k) :
    (m.removeAll k).2 = .ok ∧ ∀ k', view (m.removeAll k).1 k' = refRemoveAll (view m) k k' := by
  have hroot : k ≠ rootKey := by intro e; rw [e] at hk; exact hk rfl
  cases hl : m.lookup k with
  | some f =>
    obtain ⟨p, pd, h1, _, _⟩ := hc.hasParent k f hl hroot
    rw [removeAll_eq_prune m hc k f p hl h1]
    refine ⟨rfl, fun k' => ?_⟩
    show view (m.prune k p) k' = _
    unfold refRemoveAll
    by_cases hx : k' = k ∨ isUnder k k' = true
    · rw [if_pos hx]; apply view_none; rw [lookup_prune, if_pos hx]
    · rw [if_neg hx]
      exact view_congr m _ k' k' (by rw [lookup_prune, if_neg hx]) (fun g _ => nodeOf_prune m k p g)
  | none =>
    -- nothing at the name, hence nothing below it: the call succeeds and the view stays
    have hnone : ∀ k', isUnder k k' = true → m.lookup k' = none := by
      intro k' hu
      cases h : m.lookup k' with
      | none => rfl
      | some f' =>
        have := ancestor_exists m hc k hn _ k' f' rfl h hu
        rw [hl] at this; cases this
    have e : m.removeAll k = ({ m with data := m.data.filter fun e => ¬ (e.1 = k ∨ isUnder k e.1) }, .ok) := by
      unfold removeAll unRegisterWithParent
      simp only [hl]
    rw [e]
    refine ⟨rfl, fun k' => ?_⟩
    show view ({ m with data := m.data.filter fun e => ¬ (e.1 = k ∨ isUnder k e.1) } : MemFs) k' = _
    have hlk : ({ m with data := m.data.filter fun e => ¬ (e.1 = k ∨ isUnder k e.1) } : MemFs).lookup k' =
        if k' = k ∨ isUnder k k' = true then none else m.lookup k' := lookup_prune m k k' 0
    unfold refRemoveAll
    by_cases hx : k' = k ∨ isUnder k k' = true
    · rw [if_pos hx]; apply view_none; rw [hlk, if_pos hx]
    · rw [if_neg hx]
      exact view_congr m _ k' k' (by rw [hlk, if_neg hx]) (fun g _ => rfl)

/-- **`RemoveAll` refines `rm -r`**, for every name but the root, present or not -/
theorem removeAll_refines (m : MemFs) (hc : Consistent m) (p : Str) (hk : (keyOfStr p).segs ≠ []) :
    (m.step (.removeAll p)).2 = .ok ∧
      ∀ k', view (m.step (.removeAll p)).1 k' = refRemoveAll (view m) (keyOfStr p) k' :=
  removeAll_view m hc (keyOfStr p) hk (normKey_keyOfStr p)

/-! ### Mkdir and Create below an existing directory -/

theorem obj_attach_new (m : MemFs) (k : Key) (d : FData) (p : Nat) (hp : p < m.objs.length) :
    (m.attach k d p).obj m.objs.length = d := by
  unfold attach
  simp only
  rw [obj_setObj_ne _ _ _ _ (Nat.ne_of_gt hp)]
  exact obj_alloc_new m d

theorem nodeOf_attach_old (m : MemFs) (k : Key) (d : FData) (p j : Nat) (hj : j < m.objs.length) :
    nodeOf ((m.attach k d p).obj j) = nodeOf (m.obj j) := by
  unfold attach
  simp only
  refine (nodeOf_setObj_idx _ p _ ?_ ?_ ?_ j).trans (congrArg nodeOf (obj_alloc_old m d j hj)) <;> rfl

theorem length_attach (m : MemFs) (k : Key) (d : FData) (p : Nat) :
    (m.attach k d p).objs.length = m.objs.length + 1 := by simp [attach, setObj]

theorem setFileMode_found (X : MemFs) (k : Key) (md i : Nat) (h : X.lookup k = some i) :
    X.setFileMode k md = (X.setObj i { X.obj i with mode := md }, none) := by
  unfold setFileMode; rw [h]

theorem mkdir_unfold (m : MemFs) (k : Key) (perm : Nat) (hnew : m.lookup k = none) :
    m.mkdir k perm =
      match (registerWithParent
          ((m.pend k { (m.newDir k) with mode := modeDir ||| (perm &&& chmodBits) }).regFuel m.objs.length)
          (m.pend k { (m.newDir k) with mode := modeDir ||| (perm &&& chmodBits) }) m.objs.length
          (perm &&& chmodBits)).setFileMode k ((perm &&& chmodBits) ||| modeDir) with
      | (m4, none) => (m4, .ok)
      | (m4, some e) => (m4, .err e) := by
  unfold mkdir
  simp only [hnew]
  rfl

/-- `Mkdir` of a new name below an existing directory: `attach`, then the mode is set -/
theorem mkdir_eq (m : MemFs) (k : Key) (perm p : Nat) (pd : List (Key × Nat))
    (hnew : m.lookup k = none) (hp : m.lookup (parentKey k) = some p) (hpd : (m.obj p).memDir = some pd)
    (hpr : p < m.objs.length) :
    m.mkdir k perm =
      ((m.attach k { (m.newDir k) with mode := modeDir ||| (perm &&& chmodBits) } p).setObj m.objs.length
        { (m.attach k { (m.newDir k) with mode := modeDir ||| (perm &&& chmodBits) } p).obj m.objs.length with
          mode := (perm &&& chmodBits) ||| modeDir }, .ok) := by
  have hpk : parentKey k ≠ k := by intro e; rw [e, hnew] at hp; cases hp
  have hreg : registerWithParent
      ((m.pend k { (m.newDir k) with mode := modeDir ||| (perm &&& chmodBits) }).regFuel m.objs.length)
      (m.pend k { (m.newDir k) with mode := modeDir ||| (perm &&& chmodBits) }) m.objs.length (perm &&& chmodBits) =
      m.attach k { (m.newDir k) with mode := modeDir ||| (perm &&& chmodBits) } p := by
    unfold regFuel pend
    exact alloc_insert_reg_eq_attach m k { (m.newDir k) with mode := modeDir ||| (perm &&& chmodBits) } p
      (perm &&& chmodBits) _ pd rfl hp hpd hpk hpr
  rw [mkdir_unfold m k perm hnew, hreg,
    setFileMode_found _ k _ m.objs.length (by rw [lookup_attach, if_pos rfl])]

theorem mkdir_view (m : MemFs) (hc : Consistent m) (k : Key) (perm p : Nat) (pd : List (Key × Nat))
    (hnew : m.lookup k = none) (hp : m.lookup (parentKey k) = some p) (hpd : (m.obj p).memDir = some pd) :
    (m.mkdir k perm).2 = .ok ∧ ∀ k', view (m.mkdir k perm).1 k' = refMkdir (view m) k perm k' := by
  have hpr := hc.inRange _ _ hp
  rw [mkdir_eq m k perm p pd hnew hp hpd hpr]
  have hDd : ({ (m.newDir k) with mode := modeDir ||| (perm &&& chmodBits) } : FData).dir = true := rfl
  generalize ({ (m.newDir k) with mode := modeDir ||| (perm &&& chmodBits) } : FData) = D at hDd ⊢
  refine ⟨rfl, fun k' => ?_⟩
  show view ((m.attach k D p).setObj m.objs.length
    { (m.attach k D p).obj m.objs.length with mode := (perm &&& chmodBits) ||| modeDir }) k' = _
  have hlenA : m.objs.length < (m.attach k D p).objs.length := by rw [length_attach]; exact Nat.lt_succ_self _
  unfold refMkdir
  by_cases hk : k' = k
  · rw [if_pos hk, view_some _ k' m.objs.length (by rw [lookup_setObj, lookup_attach, if_pos hk]),
      obj_setObj_self _ _ _ hlenA, obj_attach_new m k D p hpr]
    exact congrArg some (nodeOf_dir { D with mode := (perm &&& chmodBits) ||| modeDir } hDd)
  · rw [if_neg hk]
    refine view_congr m _ k' k' (by rw [lookup_setObj, lookup_attach, if_neg hk]) ?_
    intro g hg
    have hgr := hc.inRange _ _ hg
    rw [obj_setObj_ne _ _ _ _ (Nat.ne_of_lt hgr)]
    exact nodeOf_attach_old m k D p g hgr

/-- **`Mkdir` of a new name below an existing directory refines `mkdir`** -/
theorem mkdir_refines (m : MemFs) (hc : Consistent m) (s : Str) (perm p : Nat) (pd : List (Key × Nat))
    (hnew : m.lookup (keyOfStr s) = none) (hp : m.lookup (parentKey (keyOfStr s)) = some p)
    (hpd : (m.obj p).memDir = some pd) :
    (m.step (.mkdir s perm)).2 = .ok ∧
      ∀ k', view (m.step (.mkdir s perm)).1 k' = refMkdir (view m) (keyOfStr s) perm k' :=
  mkdir_view m hc (keyOfStr s) perm p pd hnew hp hpd

theorem create_new_view (m : MemFs) (hc : Consistent m) (k : Key) (p : Nat) (pd : List (Key × Nat))
    (hnew : m.lookup k = none) (hp : m.lookup (parentKey k) = some p) (hpd : (m.obj p).memDir = some pd) :
    (m.create k).1.handles = m.handles ∧ ∀ k', view (m.create k).1 k' = refCreate (view m) k k' := by
  have hpr := hc.inRange _ _ hp
  have hpk : parentKey k ≠ k := by intro e; rw [e, hnew] at hp; cases hp
  rw [create_new_eq_attach m k p pd hnew hp hpd hpk hpr]
  refine ⟨rfl, fun k' => ?_⟩
  show view (m.attach k (m.newFile k) p) k' = _
  unfold refCreate
  by_cases hk : k' = k
  · rw [if_pos hk, view_some _ k' m.objs.length (by rw [lookup_attach, if_pos hk]),
      obj_attach_new m k _ p hpr, view_none m k hnew]
    rfl
  · rw [if_neg hk]
    refine view_congr m _ k' k' (by rw [lookup_attach, if_neg hk]) ?_
    intro g hg
    exact nodeOf_attach_old m k _ p g (hc.inRange _ _ hg)

theorem create_existing_view (m : MemFs) (hc : Consistent m) (k : Key) (f : Nat)
    (hl : m.lookup k = some f) (hd : (m.obj f).dir = false) :
    (m.create k).1.handles = m.handles ∧ ∀ k', view (m.create k).1 k' = refCreate (view m) k k' := by
  have e : m.create k = (m.setObj f { m.obj f with data := [], mtime := m.now }, f) := by
    unfold create
    simp only [hl, hd, Bool.false_eq_true, if_false]
  rw [e]
  refine ⟨rfl, fun k' => ?_⟩
  show view (m.setObj f { m.obj f with data := [], mtime := m.now }) k' = _
  have hfr := hc.inRange _ _ hl
  unfold refCreate
  by_cases hk : k' = k
  · rw [if_pos hk, view_some _ k' f (by rw [lookup_setObj, hk]; exact hl), obj_setObj_self _ _ _ hfr,
      view_some m k f hl, nodeOf_file (m.obj f) hd, nodeOf_file _ (by exact hd)]
  · rw [if_neg hk]
    refine view_congr m _ k' k' (lookup_setObj _ _ _ _) ?_
    intro g hg
    have hgf : g ≠ f := by intro e'; rw [e'] at hg; exact hk (hc.inj _ _ _ hg hl)
    rw [obj_setObj_ne _ _ _ _ hgf]

/-- **`Create` refines `creat`**: a new name below an existing directory denotes an empty regular
    file; an existing regular file is truncated in place and keeps its mode.  The call returns a fresh
    handle and no error. -/
theorem create_refines (m : MemFs) (hc : Consistent m) (s : Str)
    (hw : (∃ f, m.lookup (keyOfStr s) = some f ∧ (m.obj f).dir = false) ∨
      (m.lookup (keyOfStr s) = none ∧
        ∃ p pd, m.lookup (parentKey (keyOfStr s)) = some p ∧ (m.obj p).memDir = some pd)) :
    (m.step (.create s)).2 = .handle m.handles.length none ∧
      ∀ k', view (m.step (.create s)).1 k' = refCreate (view m) (keyOfStr s) k' := by
  have key : (m.create (keyOfStr s)).1.handles = m.handles ∧
      ∀ k', view (m.create (keyOfStr s)).1 k' = refCreate (view m) (keyOfStr s) k' := by
    rcases hw with ⟨f, hl, hd⟩ | ⟨hnew, p, pd, hp, hpd⟩
    · exact create_existing_view m hc _ f hl hd
    · exact create_new_view m hc _ p pd hnew hp hpd
  simp only [step]
  generalize m.create (keyOfStr s) = C at key
  obtain ⟨m1, f⟩ := C
  obtain ⟨h1, h2⟩ := key
  simp only at h1 h2
  refine ⟨?_, h2⟩
  simp only [addHandle, h1]

/-! ### Rename of a file or an empty directory -/

theorem nodeOf_relink (m : MemFs) (old new : Key) (f p p' j : Nat) :
    nodeOf ((m.relink old new f p p').obj j) = nodeOf (m.obj j) := by
  have h1 : ∀ i, nodeOf ((m.setObj p { m.obj p with memDir := (m.obj p).memDir.map fun d => alErase d old }).obj i) =
      nodeOf (m.obj i) := by
    intro i; refine nodeOf_setObj_idx m p _ ?_ ?_ ?_ i <;> rfl
  have h2 : ∀ i, nodeOf ((m.unlink old new f p).obj i) = nodeOf (m.obj i) := by
    intro i
    show nodeOf (((m.setObj p { m.obj p with memDir := (m.obj p).memDir.map fun d => alErase d old }).setObj f
      { (m.setObj p { m.obj p with memDir := (m.obj p).memDir.map fun d => alErase d old }).obj f with name := new }).obj i) = _
    refine (nodeOf_setObj_idx _ f _ ?_ ?_ ?_ i).trans (h1 i) <;> rfl
  unfold relink
  simp only
  refine (nodeOf_setObj_idx _ p' _ ?_ ?_ ?_ j).trans (h2 j) <;> rfl

theorem rename_leaf_view (m : MemFs) (hc : Consistent m) (a b : Key) (h : RenameLeaf m a b) :
    (m.rename a b).2 = .ok ∧ ∀ k', view (m.rename a b).1 k' = refRenameLeaf (view m) a b k' := by
  obtain ⟨f, hl, hleaf, hold, hnew, hpk, hpo, ⟨p', pd', hp', hpd'⟩, _, hn⟩ := h
  by_cases hne : a = b
  · subst hne
    have e : m.rename a a = (m, .ok) := by unfold rename; simp [hl]
    rw [e]
    refine ⟨rfl, fun k' => ?_⟩
    unfold refRenameLeaf
    by_cases hk : k' = a
    · rw [if_pos hk, hk]
    · rw [if_neg hk, if_neg hk]
  · obtain ⟨p, _, hp, _, _⟩ := hc.hasParent a f hl hold
    rw [rename_leaf_eq_relink m hc a b f p p' pd' hn hl hleaf hne hpk hpo hp hp' hpd']
    refine ⟨rfl, fun k' => ?_⟩
    show view (m.relink a b f p p') k' = _
    unfold refRenameLeaf
    by_cases h1 : k' = b
    · rw [if_pos h1]
      exact view_congr m _ k' a (by rw [lookup_relink _ _ _ _ _ _ _ hne, if_pos h1]; exact hl.symm)
        (fun g _ => nodeOf_relink m a b f p p' g)
    · rw [if_neg h1]
      by_cases h2 : k' = a
      · rw [if_pos h2]; apply view_none; rw [lookup_relink _ _ _ _ _ _ _ hne, if_neg h1, if_pos h2]
      · rw [if_neg h2]
        exact view_congr m _ k' k' (by rw [lookup_relink _ _ _ _ _ _ _ hne, if_neg h1, if_neg h2])
          (fun g _ => nodeOf_relink m a b f p p' g)

/-- **`Rename` of a file or an empty directory refines `rename`**: the new name denotes exactly
    what the old one did (same bytes, same mode), the old name is gone, whatever leaf the new name held
    is replaced -/
theorem rename_leaf_refines (m : MemFs) (hc : Consistent m) (a b : Str)
    (h : RenameLeaf m (keyOfStr a) (keyOfStr b)) :
    (m.step (.rename a b)).2 = .ok ∧
      ∀ k', view (m.step (.rename a b)).1 k' = refRenameLeaf (view m) (keyOfStr a) (keyOfStr b) k' :=
  rename_leaf_view m hc _ _ h

/-! ### Rename of a directory with its subtree

  `Moved` (Proofs/MemFsInv6.lean) describes the path map, the names and the directory indexes after
  the call.  What it leaves open — bytes, mode and directory flag of the objects — is settled here by
  two frame facts that hold for EVERY `Rename`, whatever its arguments: no object's bytes or mode
  change (`keep_rename`), and the local object rules survive (`objsOK_rename`). -/

/-- `m'` has all the objects of `m`, with the same bytes and mode -/
structure Keep (m m' : MemFs) : Prop where
  len : m.objs.length ≤ m'.objs.length
  objs : ∀ j, j < m.objs.length → (m'.obj j).data = (m.obj j).data ∧ (m'.obj j).mode = (m.obj j).mode

theorem Keep.refl (m : MemFs) : Keep m m := ⟨Nat.le_refl _, fun _ _ => ⟨rfl, rfl⟩⟩

theorem Keep.trans {a b c : MemFs} (h1 : Keep a b) (h2 : Keep b c) : Keep a c := by
  refine ⟨Nat.le_trans h1.len h2.len, fun j hj => ?_⟩
  have a1 := h1.objs j hj
  have a2 := h2.objs j (Nat.lt_of_lt_of_le hj h1.len)
  exact ⟨a2.1.trans a1.1, a2.2.trans a1.2⟩

theorem keep_of_ext {m m' : MemFs} (h : Ext m m') : Keep m m' :=
  ⟨h.len, fun j hj => ⟨(h.objs j hj).1, (h.objs j hj).2.2.2⟩⟩

theorem keep_setObj (m : MemFs) (i : Nat) (d : FData) (h2 : d.data = (m.obj i).data) (h3 : d.mode = (m.obj i).mode) :
    Keep m (m.setObj i d) := by
  refine ⟨by rw [length_setObj]; exact Nat.le_refl _, fun j _ => ?_⟩
  rcases obj_setObj_cases m i d j with e | ⟨e, hj, _⟩
  · rw [e]; exact ⟨rfl, rfl⟩
  · rw [e, hj]; exact ⟨h2, h3⟩

theorem keep_of_objs (m m' : MemFs) (e : m'.objs = m.objs) : Keep m m' := by
  refine ⟨by rw [e]; exact Nat.le_refl _, fun j _ => ?_⟩
  have : m'.obj j = m.obj j := by unfold obj; rw [e]
  rw [this]; exact ⟨rfl, rfl⟩

theorem keep_unreg (m m1 : MemFs) (k : Key) (hu : m.unRegisterWithParent k = .ok m1) : Keep m m1 := by
  unfold unRegisterWithParent at hu
  split at hu
  · cases hu
  · split at hu
    · cases hu
    · rename_i p _
      injection hu with hu; rw [← hu]
      exact keep_setObj m p { m.obj p with memDir := (m.obj p).memDir.map fun d => alErase d (m.obj _).name } rfl rfl

theorem keep_renameOneDesc (base : MemFs) (old new : Key) (acc : Option (MemFs × List Key)) (d : Nat)
    (h : ∀ m r, acc = some (m, r) → Keep base m) :
    ∀ m r, renameOneDesc old new acc d = some (m, r) → Keep base m := by
  intro m r e
  unfold renameOneDesc at e
  cases acc with
  | none => cases e
  | some a =>
    obtain ⟨m0, r0⟩ := a
    simp only at e
    split at e
    · rename_i m1 heq
      injection e with e
      injection e with e1 e2
      rw [← e1]
      refine Keep.trans ?_ (keep_of_ext (reg_ext _ _ _ _))
      refine Keep.trans (Keep.trans (Keep.trans (h m0 r0 rfl) (keep_unreg m0 m1 _ heq))
        (keep_setObj m1 d { m1.obj d with name := rePrefix old new (m0.obj d).name } rfl rfl)) ?_
      exact keep_of_objs _ _ rfl
    · cases e

theorem keep_fold (base : MemFs) (old new : Key) : ∀ (L : List Nat) (acc : Option (MemFs × List Key)),
    (∀ m r, acc = some (m, r) → Keep base m) →
    ∀ m r, L.foldl (renameOneDesc old new) acc = some (m, r) → Keep base m := by
  intro L
  induction L with
  | nil => intro acc h m r e; exact h m r e
  | cons d L ih =>
    intro acc h m r e
    rw [List.foldl_cons] at e
    exact ih _ (keep_renameOneDesc base old new acc d h) m r e

/-- **no `Rename` changes any object's bytes or mode** -/
theorem keep_rename (m : MemFs) (old new : Key) : Keep m (m.rename old new).1 := by
  unfold rename
  split
  · exact Keep.refl m
  · rename_i f _
    split
    · exact Keep.refl m
    · split
      · exact Keep.refl m
      · exact Keep.refl m
      · rename_i m1 heq
        simp only
        split
        · exact Keep.refl m
        · rename_i m4 removes hfold
          refine Keep.trans ?_ (keep_of_ext (reg_ext _ _ _ _))
          have h4 : Keep m m4 := by
            refine keep_fold m old new _ _ ?_ m4 removes hfold
            intro m' r' e
            injection e with e; injection e with e1 e2
            rw [← e1]
            refine Keep.trans (Keep.trans (keep_unreg m m1 old heq)
              (keep_setObj m1 f { m1.obj f with name := new } rfl rfl)) ?_
            exact keep_of_objs _ _ rfl
          exact Keep.trans h4 (keep_of_objs m4 _ rfl)

/-- after a directory rename every object looks as before -/
theorem nodeOf_moved (m m' : MemFs) (old new : Key) (f p p' : Nat) (ho : ObjsOK m) (ho' : ObjsOK m')
    (M : Moved m m' old new f p p') (K : Keep m m') (j : Nat) (hj : j < m.objs.length) :
    nodeOf (m'.obj j) = nodeOf (m.obj j) := by
  obtain ⟨h2, h3⟩ := K.objs j hj
  refine nodeOf_eq _ _ ?_ h2 h3
  rw [(ho' j).1, (ho j).1]
  cases hd : (m.obj j).memDir with
  | none => rw [M.mdNone j hd]
  | some d => obtain ⟨d', h, _⟩ := M.md j d hd; rw [h]; rfl

theorem rename_dir_view (m : MemFs) (hc : Consistent m) (hk : KeysNodup m) (ho : ObjsOK m) (a b : Key)
    (hna : normKey a = a) (hnb : normKey b = b) (h : RenameSubtree m a b) :
    (m.rename a b).2 = .ok ∧ ∀ k', view (m.rename a b).1 k' = refRenameDir (view m) a b k' := by
  obtain ⟨f, hl, ha, hb, hfree, hnu, p', pd', hp', hpd'⟩ := h
  have holdr : a ≠ rootKey := fun e => ha (by rw [e]; rfl)
  obtain ⟨p, _, hp, _, _⟩ := hc.hasParent a f hl holdr
  have X : RenCtx m a b f p p' := ⟨hc, hl, hna, hnb, ha, hb, hfree, hnu, hp, hp', by rw [hpd']; rfl⟩
  obtain ⟨hok, M⟩ := rename_dir_moved m a b f p p' X hk
  have K := keep_rename m a b
  have ho' := objsOK_rename m a b ho
  have hnode : ∀ g k0, m.lookup k0 = some g → nodeOf ((m.rename a b).1.obj g) = nodeOf (m.obj g) :=
    fun g k0 hg => nodeOf_moved m _ a b f p p' ho ho' M K g (hc.inRange _ _ hg)
  refine ⟨hok, fun k' => ?_⟩
  unfold refRenameDir
  by_cases c1 : k' = b
  · rw [if_pos (Or.inl c1), c1, rePrefix_self]
    exact view_congr m _ b a (by rw [M.lk, if_pos rfl]; exact hl.symm) (fun g hg => hnode g a hg)
  · by_cases c2 : isUnder b k' = true
    · rw [if_pos (Or.inr c2)]
      exact view_congr m _ k' (rePrefix b a k') (by rw [M.lk, if_neg c1, if_pos c2]) (fun g hg => hnode g _ hg)
    · rw [if_neg (fun e => e.elim c1 c2)]
      by_cases c3 : k' = a ∨ isUnder a k' = true
      · rw [if_pos c3]; apply view_none; rw [M.lk, if_neg c1, if_neg c2, if_pos c3]
      · rw [if_neg c3]
        exact view_congr m _ k' k' (by rw [M.lk, if_neg c1, if_neg c2, if_neg c3]) (fun g hg => hnode g _ hg)

/-- **`Rename` of a directory refines `rename`: the whole subtree moves, contents intact.**  The new
    name and every name below it denote exactly what the corresponding names at and below the old name
    did — same kind, same bytes, same mode — and nothing is left at or below the old name; every other
    name is untouched.

    `hk` and `ho` hold in every reachable state (`keysNodup_run`, `objsOK_run`). -/
theorem rename_dir_refines (m : MemFs) (hc : Consistent m) (hk : KeysNodup m) (ho : ObjsOK m) (a b : Str)
    (h : RenameSubtree m (keyOfStr a) (keyOfStr b)) :
    (m.step (.rename a b)).2 = .ok ∧
      ∀ k', view (m.step (.rename a b)).1 k' = refRenameDir (view m) (keyOfStr a) (keyOfStr b) k' :=
  rename_dir_view m hc hk ho _ _ (normKey_keyOfStr a) (normKey_keyOfStr b) h

/-- … spelled out for one name below the old directory: it is found below the new directory with
    the same bytes and mode, and is gone from where it was -/
theorem rename_dir_subtree_intact (m : MemFs) (hc : Consistent m) (hk : KeysNodup m) (ho : ObjsOK m) (a b : Str)
    (h : RenameSubtree m (keyOfStr a) (keyOfStr b)) (k : Key) (hu : isUnder (keyOfStr a) k = true) :
    view (m.step (.rename a b)).1 (rePrefix (keyOfStr a) (keyOfStr b) k) = view m k ∧
      view (m.step (.rename a b)).1 k = none ∧
      view (m.step (.rename a b)).1 (keyOfStr b) = view m (keyOfStr a) ∧
      view (m.step (.rename a b)).1 (keyOfStr a) = none := by
  have R := (rename_dir_refines m hc hk ho a b h).2
  obtain ⟨f, hl, ha, hb, hfree, hnu, p', pd', hp', hpd'⟩ := h
  have holdr : keyOfStr a ≠ rootKey := fun e => ha (by rw [e]; rfl)
  obtain ⟨p, _, hp, _, _⟩ := hc.hasParent _ f hl holdr
  have X : RenCtx m (keyOfStr a) (keyOfStr b) f p p' :=
    ⟨hc, hl, normKey_keyOfStr a, normKey_keyOfStr b, ha, hb, hfree, hnu, hp, hp', by rw [hpd']; rfl⟩
  obtain ⟨f1, f2, _⟩ := X.fwd k hu
  have nb : ¬ (k = keyOfStr b ∨ isUnder (keyOfStr b) k = true) := by
    intro e; rcases e with e | e
    · rw [e, hnu] at hu; cases hu
    · exact X.disj k e hu
  have nb' : ¬ (keyOfStr a = keyOfStr b ∨ isUnder (keyOfStr b) (keyOfStr a) = true) := by
    intro e; rcases e with e | e
    · exact X.ne e
    · rw [(X.noNew _ f hl).2] at e; cases e
  refine ⟨?_, ?_, ?_, ?_⟩
  · rw [R]; unfold refRenameDir; rw [if_pos (Or.inr f1), f2]
  · rw [R]; unfold refRenameDir; rw [if_neg nb, if_pos (Or.inr hu)]
  · rw [R]; unfold refRenameDir; rw [if_pos (Or.inl rfl), rePrefix_self]
  · rw [R]; unfold refRenameDir; rw [if_neg nb', if_pos (Or.inl rfl)]

/-! ### Chmod, Chown, Chtimes -/

theorem nodeOf_chmod (d : FData) (mode : Nat) :
    nodeOf { d with mode := (d.mode - (d.mode &&& chmodBits)) ||| (mode &&& chmodBits) } = (nodeOf d).chmod mode := by
  unfold nodeOf
  cases d.dir <;> rfl

theorem chmod_view (m : MemFs) (hc : Consistent m) (k : Key) (mode f : Nat) (hl : m.lookup k = some f) :
    (m.chmod k mode).2 = .ok ∧ ∀ k', view (m.chmod k mode).1 k' = refChmod (view m) k mode k' := by
  have e : m.chmod k mode = (m.setObj f { m.obj f with
      mode := ((m.obj f).mode - ((m.obj f).mode &&& chmodBits)) ||| (mode &&& chmodBits) }, .ok) := by
    unfold chmod
    simp only [hl]
    rw [setFileMode_found m k _ f hl]
  rw [e]
  refine ⟨rfl, fun k' => ?_⟩
  show view (m.setObj f { m.obj f with
      mode := ((m.obj f).mode - ((m.obj f).mode &&& chmodBits)) ||| (mode &&& chmodBits) }) k' = _
  have hfr := hc.inRange _ _ hl
  unfold refChmod
  by_cases hk : k' = k
  · rw [if_pos hk, view_some _ k' f (by rw [lookup_setObj, hk]; exact hl), obj_setObj_self _ _ _ hfr,
      view_some m k f hl, nodeOf_chmod]
    rfl
  · rw [if_neg hk]
    refine view_congr m _ k' k' (lookup_setObj _ _ _ _) ?_
    intro g hg
    have hgf : g ≠ f := by intro e'; rw [e'] at hg; exact hk (hc.inj _ _ _ hg hl)
    rw [obj_setObj_ne _ _ _ _ hgf]

/-- **`Chmod` refines `chmod`**: the permission bits of the named node are replaced, nothing else changes -/
theorem chmod_refines (m : MemFs) (hc : Consistent m) (s : Str) (mode f : Nat)
    (hl : m.lookup (keyOfStr s) = some f) :
    (m.step (.chmod s mode)).2 = .ok ∧
      ∀ k', view (m.step (.chmod s mode)).1 k' = refChmod (view m) (keyOfStr s) mode k' :=
  chmod_view m hc _ mode f hl

/-- `Chown` and `Chtimes` of an existing name succeed and leave the view alone -/
theorem chown_chtimes_refine (m : MemFs) (s : Str) (f : Nat) (hl : m.lookup (keyOfStr s) = some f) :
    (∀ u g, (m.step (.chown s u g)).2 = .ok ∧ view (m.step (.chown s u g)).1 = view m) ∧
    (∀ t, (m.step (.chtimes s t)).2 = .ok ∧ view (m.step (.chtimes s t)).1 = view m) := by
  constructor
  · intro u g
    have e : m.step (.chown s u g) = (m.setObj f { m.obj f with uid := u, gid := g }, .ok) := by
      simp only [step]; unfold chown; simp only [hl]
    rw [e]
    refine ⟨rfl, funext fun k' => ?_⟩
    refine view_congr m _ k' k' (lookup_setObj _ _ _ _) (fun j _ => ?_)
    refine nodeOf_setObj_idx m f _ ?_ ?_ ?_ j <;> rfl
  · intro t
    have e : m.step (.chtimes s t) = (m.setObj f { m.obj f with mtime := t }, .ok) := by
      simp only [step]; unfold chtimes; simp only [hl]
    rw [e]
    refine ⟨rfl, funext fun k' => ?_⟩
    refine view_congr m _ k' k' (lookup_setObj _ _ _ _) (fun j _ => ?_)
    refine nodeOf_setObj_idx m f _ ?_ ?_ ?_ j <;> rfl

/-! ### a failed call changes nothing -/

/-- **failed calls keep the view** (they keep the whole state): `Mkdir` of an existing name; `Remove`,
    `Rename`, `Open`, `Chmod`, `Chown`, `Chtimes`, non-creating `OpenFile` of a missing name;
    exclusive `OpenFile` of an existing name.  Each reports the POSIX error class. -/
theorem failed_calls_keep_view (m : MemFs) (s : Str) :
    ((m.lookup (keyOfStr s)).isSome = true →
      (∀ perm, (m.step (.mkdir s perm)).2 = .err .exist ∧ view (m.step (.mkdir s perm)).1 = view m) ∧
      (∀ flag perm, flag &&& O_EXCL > 0 →
        (m.step (.openFile s flag perm)).2 = .err .exist ∧ view (m.step (.openFile s flag perm)).1 = view m)) ∧
    (m.lookup (keyOfStr s) = none →
      ((m.step (.remove s)).2 = .err .notexist ∧ view (m.step (.remove s)).1 = view m) ∧
      (∀ t, (m.step (.rename s t)).2 = .err .notexist ∧ view (m.step (.rename s t)).1 = view m) ∧
      ((m.step (.open_ s)).2 = .err .notexist ∧ view (m.step (.open_ s)).1 = view m) ∧
      (∀ mode, (m.step (.chmod s mode)).2 = .err .notexist ∧ view (m.step (.chmod s mode)).1 = view m) ∧
      (∀ u g, (m.step (.chown s u g)).2 = .err .notexist ∧ view (m.step (.chown s u g)).1 = view m) ∧
      (∀ t, (m.step (.chtimes s t)).2 = .err .notexist ∧ view (m.step (.chtimes s t)).1 = view m) ∧
      (∀ flag perm, ¬ flag &&& O_CREATE > 0 →
        (m.step (.openFile s flag perm)).2 = .err .notexist ∧ view (m.step (.openFile s flag perm)).1 = view m) ∧
      (m.step (.stat s)).2 = .err .notexist) := by
  constructor
  · intro hs
    constructor
    · intro perm
      have e : m.step (.mkdir s perm) = (m, .err .exist) := by
        simp only [step]; unfold mkdir
        cases hk : m.lookup (keyOfStr s) with
        | none => rw [hk] at hs; cases hs
        | some f => rfl
      rw [e]; exact ⟨rfl, rfl⟩
    · intro flag perm hx
      have e : m.step (.openFile s flag perm) = (m, .err .exist) := by
        simp only [step]; unfold openFile; simp [hs, hx]
      rw [e]; exact ⟨rfl, rfl⟩
  · intro hl
    refine ⟨?_, ?_, ?_, ?_, ?_, ?_, ?_, ?_⟩
    · have e : m.step (.remove s) = (m, .err .notexist) := by simp only [step]; unfold remove; simp [hl]
      rw [e]; exact ⟨rfl, rfl⟩
    · intro t
      have e : m.step (.rename s t) = (m, .err .notexist) := by simp only [step]; unfold rename; simp [hl]
      rw [e]; exact ⟨rfl, rfl⟩
    · have e : m.step (.open_ s) = (m, .err .notexist) := by simp only [step]; unfold openRO; simp [hl]
      rw [e]; exact ⟨rfl, rfl⟩
    · intro mode
      have e : m.step (.chmod s mode) = (m, .err .notexist) := by simp only [step]; unfold chmod; simp [hl]
      rw [e]; exact ⟨rfl, rfl⟩
    · intro u g
      have e : m.step (.chown s u g) = (m, .err .notexist) := by simp only [step]; unfold chown; simp [hl]
      rw [e]; exact ⟨rfl, rfl⟩
    · intro t
      have e : m.step (.chtimes s t) = (m, .err .notexist) := by simp only [step]; unfold chtimes; simp [hl]
      rw [e]; exact ⟨rfl, rfl⟩
    · intro flag perm hcr
      have e : m.step (.openFile s flag perm) = (m, .err .notexist) := by
        simp only [step]; unfold openFile; simp [hl, hcr]
      rw [e]; exact ⟨rfl, rfl⟩
    · simp only [step]; unfold stat; simp [hl]

end MemFs

/-! ## Part 3 — whole programs

  A reference interpreter on views for the Fs-level operations, and the refinement theorem for every
  program whose operations meet the ordinary preconditions in the state they run in.  Handle reads,
  seeks, closes, stats and directory listings are covered (they do not change the tree); handle WRITES
  (`Write`, `WriteAt`, `Truncate` on a handle) are excluded from the program-level theorem: which name a
  handle writes to is not a function of the view.  -/

/-- `truncate(0)`: a regular file loses its bytes -/
def Node.trunc : Node → Node
  | .file _ md => .file [] md
  | .dir md => .dir md

/-- `open(2)` with flags: exclusive open of an existing name fails; `O_TRUNC` with a write mode
    empties an existing file; `O_CREAT` of a missing name makes an empty file with the requested
    permission bits -/
def refOpenFile (v : View) (k : Key) (flag perm : Nat) : View :=
  if (v k).isSome then
    if flag &&& O_EXCL > 0 then v
    else if flag &&& O_TRUNC > 0 ∧ flag &&& (O_RDWR ||| O_WRONLY) > 0 then
      fun k' => if k' = k then (v k).map Node.trunc else v k'
    else v
  else if flag &&& O_CREATE > 0 then fun k' => if k' = k then some (.file [] (perm &&& chmodBits)) else v k'
  else v

/-- `rename(2)`: one operation for files and directories (`refRenameLeaf` is the special case in
    which nothing lies below either name: `refRenameLeaf_eq_dir`); a missing source or equal names
    change nothing -/
def refRename (v : View) (a b : Key) : View := if (v a).isNone ∨ a = b then v else refRenameDir v a b

/-- **the reference interpreter**: what each call does to the tree, on views -/
def refStep (v : View) : Op → View
  | .create p => refCreate v (keyOfStr p)
  | .mkdir p perm => if (v (keyOfStr p)).isSome then v else refMkdir v (keyOfStr p) perm
  | .mkdirAll p perm => if (v (keyOfStr p)).isSome then v else refMkdir v (keyOfStr p) perm
  | .openFile p flag perm => refOpenFile v (keyOfStr p) flag perm
  | .remove p => refRemove v (keyOfStr p)
  | .removeAll p => refRemoveAll v (keyOfStr p)
  | .rename a b => refRename v (keyOfStr a) (keyOfStr b)
  | .chmod p mode => refChmod v (keyOfStr p) mode
  | _ => v

namespace MemFs

/-- the parent of `k` exists and is a directory -/
def ParentDir (m : MemFs) (k : Key) : Prop := ∃ p pd, m.lookup (parentKey k) = some p ∧ (m.obj p).memDir = some pd

/-- the ordinary preconditions, for the program-level refinement: as `WFop`, and in addition new
    names are created below an EXISTING directory ("parents exist as directories") and there is no
    write through a handle -/
def WFop' (m : MemFs) : Op → Prop
  | .create p => (∃ f, m.lookup (keyOfStr p) = some f ∧ (m.obj f).dir = false) ∨
      (m.lookup (keyOfStr p) = none ∧ ParentDir m (keyOfStr p))
  | .mkdir p _ => (m.lookup (keyOfStr p)).isSome = true ∨ ParentDir m (keyOfStr p)
  | .mkdirAll p _ => (m.lookup (keyOfStr p)).isSome = true ∨ ParentDir m (keyOfStr p)
  | .openFile p flag _ => (m.lookup (keyOfStr p)).isSome = true ∨ ¬ flag &&& O_CREATE > 0 ∨ ParentDir m (keyOfStr p)
  | .remove p => m.lookup (keyOfStr p) = none ∨ (keyOfStr p ≠ rootKey ∧ ∃ f, m.lookup (keyOfStr p) = some f ∧ Leaf m f)
  | .removeAll p => (keyOfStr p).segs ≠ []
  | .rename a b => m.lookup (keyOfStr a) = none ∨ keyOfStr a = keyOfStr b ∨ RenameLeaf m (keyOfStr a) (keyOfStr b) ∨
      RenameSubtree m (keyOfStr a) (keyOfStr b)
  | .hWrite _ _ => False
  | .hWriteAt _ _ _ => False
  | .hTrunc _ _ => False
  | _ => True

theorem wfop_of_wfop' (m : MemFs) (op : Op) (h : WFop' m op) : WFop m op := by
  cases op <;> try exact trivial
  case create p =>
    intro f hf
    rcases h with ⟨g, hg, hd⟩ | ⟨hn, _⟩
    · rw [hg] at hf; injection hf with hf; rw [← hf]; exact hd
    · rw [hn] at hf; cases hf
  case remove p => exact h
  case removeAll p => exact h
  case rename a b => exact h

def WFrun' (m : MemFs) : List Op → Prop
  | [] => True
  | op :: ops => WFop' m op ∧ WFrun' (m.step op).1 ops

/-- rewriting the one object a name leads to -/
theorem view_setObj_at (X : MemFs) (i : Nat) (d : FData) (k : Key) (hi : i < X.objs.length)
    (hinj : ∀ k', X.lookup k' = some i → k' = k) (hk : X.lookup k = some i) (k' : Key) :
    view (X.setObj i d) k' = if k' = k then some (nodeOf d) else view X k' := by
  by_cases h : k' = k
  · rw [if_pos h, view_some _ k' i (by rw [lookup_setObj, h]; exact hk), obj_setObj_self _ _ _ hi]
  · rw [if_neg h]
    refine view_congr X _ k' k' (lookup_setObj _ _ _ _) (fun g hg => ?_)
    have : g ≠ i := fun e => h (hinj k' (by rw [← e]; exact hg))
    rw [obj_setObj_ne _ _ _ _ this]

/-- a view that has nothing at `k` is not changed by removing `k` or changing its mode -/
theorem refRemove_missing (v : View) (k : Key) (h : v k = none) : refRemove v k = v := by
  funext k'; unfold refRemove
  by_cases hk : k' = k
  · rw [if_pos hk, hk, h]
  · rw [if_neg hk]

theorem refChmod_missing (v : View) (k : Key) (mode : Nat) (h : v k = none) : refChmod v k mode = v := by
  funext k'; unfold refChmod
  by_cases hk : k' = k
  · rw [if_pos hk, hk, h]; rfl
  · rw [if_neg hk]

theorem mkdirAll_fst (m : MemFs) (k : Key) (perm : Nat) : (m.mkdirAll k perm).1 = (m.mkdir k perm).1 := by
  unfold mkdirAll
  split
  · rename_i m' heq; rw [heq]
  · rfl

theorem mkdir_step_view (m : MemFs) (hc : Consistent m) (k : Key) (perm : Nat)
    (hw : (m.lookup k).isSome = true ∨ ParentDir m k) :
    view (m.mkdir k perm).1 = if (view m k).isSome then view m else refMkdir (view m) k perm := by
  cases hl : m.lookup k with
  | some f =>
    have e : m.mkdir k perm = (m, .err .exist) := by unfold mkdir; simp only [hl]
    rw [e, view_some m k f hl]; rfl
  | none =>
    rw [view_none m k hl]
    rcases hw with h | ⟨p, pd, hp, hpd⟩
    · rw [hl] at h; cases h
    · funext k'
      exact (mkdir_view m hc k perm p pd hl hp hpd).2 k'

/-! ### rename: the leaf case is the directory case with nothing below -/

theorem refRenameLeaf_eq_dir (m : MemFs) (hc : Consistent m) (a b : Key) (hnb : normKey b = b)
    (h : RenameLeaf m a b) (k' : Key) :
    refRenameLeaf (view m) a b k' = refRenameDir (view m) a b k' := by
  obtain ⟨f, hl, hleaf, hold, _, _, _, _, htarget, hn⟩ := h
  have ha : a.segs ≠ [] := fun e => hold (norm_nil_root a hn e)
  have hua : ∀ x, isUnder a x = true → view m x = none := by
    intro x hu
    apply view_none
    cases hx : m.lookup x with
    | none => rfl
    | some g => rw [leaf_no_under m hc a f hn hl hleaf _ x g rfl hx] at hu; cases hu
  have hub : ∀ x, isUnder b x = true → view m x = none := by
    intro x hu
    apply view_none
    cases hx : m.lookup x with
    | none => rfl
    | some g =>
      rcases htarget with hb | ⟨t, ht, htl⟩
      · have := ancestor_exists m hc b hnb _ x g rfl hx hu
        rw [hb] at this; cases this
      · rw [leaf_no_under m hc b t hnb ht htl _ x g rfl hx] at hu; cases hu
  unfold refRenameLeaf refRenameDir
  by_cases c1 : k' = b
  · rw [if_pos c1, if_pos (Or.inl c1), c1, rePrefix_self]
  · rw [if_neg c1]
    by_cases c2 : isUnder b k' = true
    · rw [if_pos (Or.inr c2)]
      have hb : b.segs ≠ [] := ((isUnder_iff b k').1 c2).2.1
      rw [hua _ (rePrefix_under b a k' hnb hn hb ha c2).1]
      by_cases c3 : k' = a
      · rw [if_pos c3]
      · rw [if_neg c3]; exact hub k' c2
    · have n2 : ¬ (k' = b ∨ isUnder b k' = true) := fun e => e.elim c1 c2
      rw [if_neg n2]
      by_cases c3 : k' = a
      · rw [if_pos c3, if_pos (Or.inl c3)]
      · rw [if_neg c3]
        by_cases c4 : isUnder a k' = true
        · rw [if_pos (Or.inr c4)]; exact hua k' c4
        · have n4 : ¬ (k' = a ∨ isUnder a k' = true) := fun e => e.elim c3 c4
          rw [if_neg n4]

theorem rename_noop (m : MemFs) (a : Key) : (m.rename a a).1 = m := by
  unfold rename
  cases m.lookup a with
  | none => rfl
  | some f => simp

theorem rename_step_view (m : MemFs) (hc : Consistent m) (hk : KeysNodup m) (ho : ObjsOK m) (a b : Key)
    (hna : normKey a = a) (hnb : normKey b = b)
    (hw : m.lookup a = none ∨ a = b ∨ RenameLeaf m a b ∨ RenameSubtree m a b) :
    view (m.rename a b).1 = refRename (view m) a b := by
  unfold refRename
  by_cases hab : a = b
  · rw [if_pos (Or.inr hab), ← hab, rename_noop]
  · rcases hw with h | h | h | h
    · have e : m.rename a b = (m, .err .notexist) := by unfold rename; simp [h]
      rw [e, if_pos (Or.inl (by rw [view_none m a h]; rfl))]
    · exact absurd h hab
    · obtain ⟨f, hl, _⟩ := id h
      have n : ¬ ((view m a).isNone = true ∨ a = b) := by
        intro e; rcases e with e | e
        · rw [view_some m a f hl] at e; cases e
        · exact hab e
      rw [if_neg n]
      funext k'
      rw [(rename_leaf_view m hc a b h).2 k', refRenameLeaf_eq_dir m hc a b hnb h k']
    · obtain ⟨f, hl, _⟩ := id h
      have n : ¬ ((view m a).isNone = true ∨ a = b) := by
        intro e; rcases e with e | e
        · rw [view_some m a f hl] at e; cases e
        · exact hab e
      rw [if_neg n]
      funext k'
      exact (rename_dir_view m hc hk ho a b hna hnb h).2 k'

/-! ### OpenFile -/

theorem nodeOf_trunc (d : FData) (t : Int) : nodeOf { d with data := [], mtime := t } = (nodeOf d).trunc := by
  unfold nodeOf
  cases d.dir <;> rfl

/-- the trailing `chmod` of a creating `OpenFile`, whatever the handle table holds -/
theorem view_handles_setFileMode (A : MemFs) (i : Nat) (k : Key) (md : Nat) (hs : List MHandle)
    (hi : i < A.objs.length) (hk : A.lookup k = some i) (hinj : ∀ x, A.lookup x = some i → x = k) (k' : Key) :
    view (({ A with handles := hs } : MemFs).setFileMode k md).1 k' =
      if k' = k then some (nodeOf { A.obj i with mode := md }) else view A k' := by
  have hk' : ({ A with handles := hs } : MemFs).lookup k = some i := hk
  rw [setFileMode_found _ k md i hk']
  show view (A.setObj i { A.obj i with mode := md }) k' = _
  exact view_setObj_at A i _ k hi hinj hk k'

theorem openFile_step_view (m : MemFs) (hc : Consistent m) (k : Key) (flag perm : Nat)
    (hw : (m.lookup k).isSome = true ∨ ¬ flag &&& O_CREATE > 0 ∨ ParentDir m k) :
    view (m.openFile k flag perm).1 = refOpenFile (view m) k flag perm := by
  unfold refOpenFile
  cases hl : m.lookup k with
  | some f =>
    have hfr := hc.inRange _ _ hl
    rw [view_some m k f hl]
    simp only [Option.isSome_some, if_true]
    by_cases hx : flag &&& O_EXCL > 0
    · have e : m.openFile k flag perm = (m, .err .exist) := by unfold openFile; simp [hl, hx]
      rw [e, if_pos hx]
    · rw [if_neg hx]
      by_cases hT : (flag &&& O_TRUNC > 0 ∧ flag &&& (O_RDWR ||| O_WRONLY) > 0)
      · rw [if_pos hT]
        have e : ∃ hs, (m.openFile k flag perm).1 =
            { (m.setObj f { m.obj f with data := [], mtime := m.now }) with handles := hs } := by
          unfold openFile
          simp only [hl, Option.isSome_some, true_and, hx, if_false, hT, and_self, if_true, Bool.false_eq_true]
          exact ⟨_, rfl⟩
        obtain ⟨hs, e⟩ := e
        rw [e]
        funext k'
        show view (m.setObj f { m.obj f with data := [], mtime := m.now }) k' = _
        rw [view_setObj_at m f _ k hfr (fun x hx' => hc.inj _ _ _ hx' hl) hl k', nodeOf_trunc]
        rfl
      · rw [if_neg hT]
        have e : ∃ hs, (m.openFile k flag perm).1 = { m with handles := hs } := by
          unfold openFile
          simp only [hl, Option.isSome_some, true_and, hx, if_false, hT, Bool.false_eq_true]
          exact ⟨_, rfl⟩
        obtain ⟨hs, e⟩ := e
        rw [e]; rfl
  | none =>
    rw [view_none m k hl]
    simp only [Option.isSome_none, Bool.false_eq_true, if_false]
    by_cases hC : flag &&& O_CREATE > 0
    · rw [if_pos hC]
      rcases hw with h | h | ⟨p, pd, hp, hpd⟩
      · rw [hl] at h; cases h
      · exact absurd hC h
      · have hpr := hc.inRange _ _ hp
        have hpk : parentKey k ≠ k := by intro e; rw [e, hl] at hp; cases hp
        have hcr := create_new_eq_attach m k p pd hl hp hpd hpk hpr
        have hA := (create_new_view m hc k p pd hl hp hpd).2
        rw [hcr] at hA
        have hAk : (m.attach k (m.newFile k) p).lookup k = some m.objs.length := by rw [lookup_attach, if_pos rfl]
        have hAinj : ∀ x, (m.attach k (m.newFile k) p).lookup x = some m.objs.length → x = k := by
          intro x hx
          rw [lookup_attach] at hx
          by_cases hxk : x = k
          · exact hxk
          · rw [if_neg hxk] at hx
            exact absurd (hc.inRange _ _ hx) (Nat.lt_irrefl _)
        have hAlen : m.objs.length < (m.attach k (m.newFile k) p).objs.length := by
          rw [length_attach]; exact Nat.lt_succ_self _
        have hAobj := obj_attach_new m k (m.newFile k) p hpr
        funext k'
        by_cases hT : (flag &&& O_TRUNC > 0 ∧ flag &&& (O_RDWR ||| O_WRONLY) > 0)
        · have e : ∃ hs, (m.openFile k flag perm).1 =
              (({ ((m.attach k (m.newFile k) p).setObj m.objs.length
                  { (m.attach k (m.newFile k) p).obj m.objs.length with data := [], mtime := (m.attach k (m.newFile k) p).now }) with
                handles := hs } : MemFs).setFileMode k (perm &&& chmodBits)).1 := by
            unfold openFile
            simp only [hl, Option.isSome_none, Bool.false_eq_true, false_and, if_false, hC, if_true, hcr, hT, and_self]
            exact ⟨_, rfl⟩
          obtain ⟨hs, e⟩ := e
          rw [e, view_handles_setFileMode ((m.attach k (m.newFile k) p).setObj m.objs.length
              { (m.attach k (m.newFile k) p).obj m.objs.length with data := [], mtime := (m.attach k (m.newFile k) p).now })
            m.objs.length k _ hs (by rw [length_setObj]; exact hAlen) hAk hAinj k']
          by_cases hk' : k' = k
          · rw [if_pos hk', if_pos hk', obj_setObj_self _ _ _ hAlen, hAobj]
            rfl
          · rw [if_neg hk', if_neg hk', view_setObj_at _ m.objs.length _ k hAlen hAinj hAk k', if_neg hk', hA k']
            unfold refCreate
            rw [if_neg hk']
        · have e : ∃ hs, (m.openFile k flag perm).1 =
              (({ (m.attach k (m.newFile k) p) with handles := hs } : MemFs).setFileMode k (perm &&& chmodBits)).1 := by
            unfold openFile
            simp only [hl, Option.isSome_none, Bool.false_eq_true, false_and, if_false, hC, if_true, hcr, hT]
            exact ⟨_, rfl⟩
          obtain ⟨hs, e⟩ := e
          rw [e, view_handles_setFileMode (m.attach k (m.newFile k) p) m.objs.length k _ hs hAlen hAk hAinj k']
          by_cases hk' : k' = k
          · rw [if_pos hk', if_pos hk', hAobj]
            rfl
          · rw [if_neg hk', if_neg hk', hA k']
            unfold refCreate
            rw [if_neg hk']
    · rw [if_neg hC]
      have e : m.openFile k flag perm = (m, .err .notexist) := by unfold openFile; simp [hl, hC]
      rw [e]

/-! ### handle methods that do not write -/

theorem view_fileIO_same (m : MemFs) (hi : Nat) (f : Bytes → Handle → Bytes × Handle × FOut) (t : Bool)
    (hf : ∀ d h, (f d h).1 = d) : view (m.fileIO hi f t).1 = view m := by
  unfold fileIO
  split
  · rfl
  · rename_i mh _
    show view (m.setObj mh.obj ((m.obj mh.obj).withIO (f (m.obj mh.obj).data mh.h).1
      (t && (f (m.obj mh.obj).data mh.h).2.2.success) m.now)) = _
    funext k'
    refine view_congr m _ k' k' (lookup_setObj _ _ _ _) (fun j _ => ?_)
    refine nodeOf_setObj_idx m mh.obj _ ?_ ?_ ?_ j
    · rfl
    · exact hf _ _
    · rfl

theorem view_readdir (m : MemFs) (hi : Nat) (n : Int) : view (m.readdir hi n).1 = view m := by
  unfold readdir
  split
  · rfl
  · simp only
    split <;> rfl

/-- **every operation that meets the preconditions computes the reference step on the view** -/
theorem step_refines (m : MemFs) (hc : Consistent m) (hk : KeysNodup m) (ho : ObjsOK m) (op : Op)
    (hw : WFop' m op) : view (m.step op).1 = refStep (view m) op := by
  cases op with
  | create p => funext k'; exact (create_refines m hc p hw).2 k'
  | mkdir p perm => exact mkdir_step_view m hc _ perm hw
  | mkdirAll p perm =>
    show view (m.mkdirAll (keyOfStr p) perm).1 = _
    rw [mkdirAll_fst]; exact mkdir_step_view m hc _ perm hw
  | open_ p =>
    simp only [step, openRO]
    split <;> rfl
  | openFile p flag perm => exact openFile_step_view m hc _ flag perm hw
  | remove p =>
    show view (m.remove (keyOfStr p)).1 = refRemove (view m) (keyOfStr p)
    rcases hw with h | ⟨hroot, f, hl, _⟩
    · have e : m.remove (keyOfStr p) = (m, .err .notexist) := by unfold remove; simp [h]
      rw [e, refRemove_missing _ _ (view_none m _ h)]
    · funext k'; exact (remove_view m hc _ f hroot hl).2 k'
  | removeAll p => funext k'; exact (removeAll_refines m hc p hw).2 k'
  | rename a b => exact rename_step_view m hc hk ho _ _ (normKey_keyOfStr a) (normKey_keyOfStr b) hw
  | stat p => rfl
  | chmod p mode =>
    show view (m.chmod (keyOfStr p) mode).1 = refChmod (view m) (keyOfStr p) mode
    cases hl : m.lookup (keyOfStr p) with
    | none =>
      have e : m.chmod (keyOfStr p) mode = (m, .err .notexist) := by unfold chmod; simp [hl]
      rw [e, refChmod_missing _ _ _ (view_none m _ hl)]
    | some f => funext k'; exact (chmod_view m hc _ mode f hl).2 k'
  | chown p u g =>
    cases hl : m.lookup (keyOfStr p) with
    | none =>
      have e : m.step (.chown p u g) = (m, .err .notexist) := by simp only [step]; unfold chown; simp [hl]
      rw [e]; rfl
    | some f => exact ((chown_chtimes_refine m p f hl).1 u g).2
  | chtimes p t =>
    cases hl : m.lookup (keyOfStr p) with
    | none =>
      have e : m.step (.chtimes p t) = (m, .err .notexist) := by simp only [step]; unfold chtimes; simp [hl]
      rw [e]; rfl
    | some f => exact ((chown_chtimes_refine m p f hl).2 t).2
  | hRead hi n => exact view_fileIO_same m hi _ _ (fun d h => by simp)
  | hReadAt hi n off =>
    exact view_fileIO_same m hi _ _ (fun d h => by simp)
  | hWrite hi b => exact absurd hw id
  | hWriteAt hi b off => exact absurd hw id
  | hTrunc hi n => exact absurd hw id
  | hSeek hi off wh =>
    exact view_fileIO_same m hi _ _ (fun d h => by simp)
  | hClose hi =>
    simp only [step]; unfold hClose; split
    · rfl
    · rename_i mh _
      simp only
      split
      · rfl
      · show view (m.setObj mh.obj { m.obj mh.obj with mtime := m.now }) = _
        funext k'
        refine view_congr m _ k' k' (lookup_setObj _ _ _ _) (fun j _ => ?_)
        refine nodeOf_setObj_idx m mh.obj _ ?_ ?_ ?_ j <;> rfl
  | hName hi => rfl
  | hStat hi => rfl
  | hSync hi => rfl
  | hReaddir hi n =>
    simp only [step]
    have := view_readdir m hi n
    generalize m.readdir hi n = R at this
    obtain ⟨m', fs, e⟩ := R
    exact this
  | hReaddirnames hi n =>
    simp only [step]
    have := view_readdir m hi n
    generalize m.readdir hi n = R at this
    obtain ⟨m', fs, e⟩ := R
    exact this

/-- **the program-level refinement**: after any program whose operations meet the ordinary
    preconditions in the state they run in, the tree the model exposes (which names exist, which are
    directories, every file's bytes, every mode) is the one the reference interpreter computes from the
    initial tree -/
theorem run_refines (ops : List Op) : ∀ m, Consistent m → KeysNodup m → ObjsOK m → WFrun' m ops →
    view (run m ops) = ops.foldl refStep (view m) := by
  induction ops with
  | nil => intro m _ _ _ _; rfl
  | cons op ops ih =>
    intro m hc hk ho hw
    show view (run (m.step op).1 ops) = ops.foldl refStep (refStep (view m) op)
    rw [← step_refines m hc hk ho op hw.1]
    exact ih _ (consistent_step_wf m op hc hk (wfop_of_wfop' m op hw.1)) (keysNodup_step m op hk)
      (objsOK_step m op ho) hw.2

/-- the tree a fresh filesystem shows: the root directory and nothing else -/
def refInit : View := fun k => if k = rootKey then some (.dir (modeDir ||| 0o755)) else none

theorem view_init : view MemFs.init = refInit := by
  funext k
  unfold refInit
  by_cases h : k = rootKey
  · rw [if_pos h, h]; rfl
  · rw [if_neg h]
    apply view_none
    simp [lookup, init, alLookup_cons, alLookup_nil]
    exact fun e => h e.symm

/-- … from the initial filesystem -/
theorem run_refines_init (ops : List Op) (hw : WFrun' MemFs.init ops) :
    view (run MemFs.init ops) = ops.foldl refStep refInit := by
  rw [← view_init]
  exact run_refines ops MemFs.init consistent_init keysNodup_init objsOK_init hw

/-- **Part 1 for reachable states, with observable hypotheses only**: after any well-formed program, a
    freshly opened handle on a directory (`Stat` says so: `dir = true`) lists exactly the existing names
    whose parent is that directory, each once -/
theorem readdir_lists_children_reachable (ops : List Op) (hw : WFrun MemFs.init ops) (k : Key) (p : Nat)
    (hl : (run MemFs.init ops).lookup k = some p) (hdir : ((run MemFs.init ops).obj p).dir = true)
    (hi : Nat) (mh : MHandle) (hh : (run MemFs.init ops).handles[hi]? = some mh) (hobj : mh.obj = p)
    (hfresh : mh.readDirCount = 0) :
    ∃ listed, ((run MemFs.init ops).readdir hi (-1)).2 = (some listed, none) ∧ listed.Nodup ∧
      ∀ f', f' ∈ listed ↔ ∃ k', (run MemFs.init ops).lookup k' = some f' ∧ parentKey k' = k ∧ k' ≠ rootKey := by
  have hc := (consistent_run_wf ops MemFs.init consistent_init keysNodup_init hw).1
  have ho := objsOK_run ops MemFs.init objsOK_init p
  cases hd : ((run MemFs.init ops).obj p).memDir with
  | none => rw [ho.1, hd] at hdir; cases hdir
  | some d =>
    obtain ⟨listed, h1, _, h3, _, h5⟩ := readdir_lists_children _ hc k p d hl hd hdir (ho.2 d hd) hi mh hh hobj hfresh
    exact ⟨listed, h1, h3, h5⟩

/-! ## non-vacuity: the hypotheses are met by concrete states, the conclusions say something -/

theorem objsOK_exD : ObjsOK exD :=
  objsOK_create _ _ (objsOK_create _ _ (objsOK_mkdir _ _ _ (objsOK_mkdir _ _ _ objsOK_init)))

/-- Part 1: `/a` of `exD` (objects 1 = `/a`, 2 = `/a/b`, 3 = `/a/b/f`, 4 = `/a/g`), opened: the listing
    holds `/a/b` and `/a/g`, each once, and not the grandchild `/a/b/f` -/
example : ∃ listed, ((exD.openRO dA).1.readdir 0 (-1)).2 = (some listed, none) ∧ listed.Nodup ∧
    listed.length = 2 ∧ 2 ∈ listed ∧ 4 ∈ listed ∧ 3 ∉ listed := by
  obtain ⟨listed, h1, _, h3, h4, h5⟩ := readdir_lists_children (exD.openRO dA).1
    (consistent_handles exD consistent_exD _) dA 1 _ (by decide) rfl (by decide) (by decide) 0 _ rfl rfl rfl
  refine ⟨listed, h1, h3, h4, (h5 2).2 ⟨dAB, by decide, by decide, by decide⟩,
    (h5 4).2 ⟨dAG, by decide, by decide, by decide⟩, ?_⟩
  intro h
  obtain ⟨k', a, b, _⟩ := (h5 3).1 h
  have hk : k' = dABF := consistent_exD.inj k' dABF 3 a (by decide)
  rw [hk] at b
  revert b; decide

/-- Part 2, `Mkdir`: `mkdir /a` in the initial state -/
example : (MemFs.init.step (.mkdir ['/', 'a'] 0o755)).2 = .ok ∧
    ∀ k', view (MemFs.init.step (.mkdir ['/', 'a'] 0o755)).1 k' = refMkdir (view MemFs.init) dA 0o755 k' :=
  mkdir_refines MemFs.init consistent_init ['/', 'a'] 0o755 0 [] (by decide) (by decide) rfl

/-- `Create`: a new file `/a/h` in `exD`, and the existing file `/a/g` again -/
example : (∀ k', view (exD.step (.create ['/', 'a', '/', 'h'])).1 k' = refCreate (view exD) (keyOfStr ['/', 'a', '/', 'h']) k') ∧
    (∀ k', view (exD.step (.create ['/', 'a', '/', 'g'])).1 k' = refCreate (view exD) dAG k') :=
  ⟨(create_refines exD consistent_exD _ (Or.inr ⟨by decide, 1, _, by decide, rfl⟩)).2,
   (create_refines exD consistent_exD _ (Or.inl ⟨4, by decide, by decide⟩)).2⟩

/-- `Remove` of the file `/a/g`, `RemoveAll` of the directory `/a` with everything below, `Chmod` -/
example : (∀ k', view (exD.step (.remove ['/', 'a', '/', 'g'])).1 k' = refRemove (view exD) dAG k') ∧
    (∀ k', view (exD.step (.removeAll ['/', 'a'])).1 k' = refRemoveAll (view exD) dA k') ∧
    (∀ k', view (exD.step (.chmod ['/', 'a', '/', 'g'] 0o600)).1 k' = refChmod (view exD) dAG 0o600 k') :=
  ⟨(remove_refines exD consistent_exD _ 4 (by decide) (by decide) (Or.inl (by decide))).2,
   (removeAll_refines exD consistent_exD _ (by decide)).2,
   (chmod_refines exD consistent_exD _ 0o600 4 (by decide)).2⟩

/-- `Rename` of a file over another file, into another directory (`exM`: `/a`, `/a/f`, `/g`) -/
example : (exM.step (.rename exAF exG)).2 = .ok ∧
    ∀ k', view (exM.step (.rename exAF exG)).1 k' = refRenameLeaf (view exM) (keyOfStr exAF) (keyOfStr exG) k' :=
  rename_leaf_refines exM consistent_exM exAF exG exM_first.2

/-- a tree with CONTENT: `/a/b/f` holds the bytes 1, 2, 3 and has mode 0600 -/
def exW : MemFs := run MemFs.init [.mkdirAll "/a/b".toList 0o755, .create "/a/b/f".toList, .hWrite 0 [1, 2, 3],
  .chmod "/a/b/f".toList 0o600, .hClose 0]

theorem exW_wf : WFrun MemFs.init [.mkdirAll "/a/b".toList 0o755, .create "/a/b/f".toList, .hWrite 0 [1, 2, 3],
    .chmod "/a/b/f".toList 0o600, .hClose 0] :=
  ⟨trivial, (fun f h => nomatch (h.symm.trans (by decide : _ = none))), trivial, trivial, trivial, trivial⟩

theorem exW_sub : RenameSubtree exW (keyOfStr "/a".toList) (keyOfStr "/z".toList) :=
  ⟨2, by decide, by decide, by decide, by decide, by decide, 0, _, by decide, rfl⟩

/-- **renaming the directory `/a` to `/z` moves `/a/b/f` to `/z/b/f` with its bytes and mode**; the
    directories `/z` and `/z/b` are there, nothing is left at or below `/a` -/
example :
    (exW.step (.rename "/a".toList "/z".toList)).2 = .ok ∧
    view (exW.step (.rename "/a".toList "/z".toList)).1 (keyOfStr "/z/b/f".toList) =
      some (.file [1, 2, 3] (modeTemporary ||| 0o600)) ∧
    view (exW.step (.rename "/a".toList "/z".toList)).1 (keyOfStr "/z/b".toList) = some (.dir (0o755 ||| modeDir)) ∧
    view (exW.step (.rename "/a".toList "/z".toList)).1 (keyOfStr "/z".toList) = some (.dir (0o755 ||| modeDir)) ∧
    view (exW.step (.rename "/a".toList "/z".toList)).1 (keyOfStr "/a/b/f".toList) = none ∧
    view (exW.step (.rename "/a".toList "/z".toList)).1 (keyOfStr "/a/b".toList) = none ∧
    view (exW.step (.rename "/a".toList "/z".toList)).1 (keyOfStr "/a".toList) = none := by
  have hc := (consistent_run_wf _ MemFs.init consistent_init keysNodup_init exW_wf).1
  have hk := keysNodup_run [.mkdirAll "/a/b".toList 0o755, .create "/a/b/f".toList, .hWrite 0 [1, 2, 3],
    .chmod "/a/b/f".toList 0o600, .hClose 0] MemFs.init keysNodup_init
  have ho := objsOK_run [.mkdirAll "/a/b".toList 0o755, .create "/a/b/f".toList, .hWrite 0 [1, 2, 3],
    .chmod "/a/b/f".toList 0o600, .hClose 0] MemFs.init objsOK_init
  obtain ⟨hok, R⟩ := rename_dir_refines exW hc hk ho "/a".toList "/z".toList exW_sub
  refine ⟨hok, ?_, ?_, ?_, ?_, ?_, ?_⟩ <;> (rw [R]; decide)

/-- Part 3: a program of seven calls, among them a failing `Mkdir`, a failing `Remove` and a directory
    rename, meets the preconditions … -/
def exProg : List Op := [.mkdir "/a".toList 0o755, .create "/a/f".toList, .chmod "/a/f".toList 0o600, .hClose 0,
  .mkdir "/a".toList 0o700, .remove "/nope".toList, .rename "/a".toList "/z".toList]

theorem exProg_wf : WFrun' MemFs.init exProg :=
  ⟨Or.inr ⟨0, _, by decide, rfl⟩, Or.inr ⟨by decide, 1, _, by decide, rfl⟩, trivial, trivial, Or.inl (by decide),
    Or.inl (by decide),
    Or.inr (Or.inr (Or.inr ⟨1, by decide, by decide, by decide, by decide, by decide, 0, _, by decide, rfl⟩)), trivial⟩

/-- … and the tree it leaves is the one the reference interpreter computes: `/z` (mode 0755, not
    0700), `/z/f` (empty, mode 0600), nothing at `/a` -/
example : view (run MemFs.init exProg) = exProg.foldl refStep refInit ∧
    view (run MemFs.init exProg) (keyOfStr "/z/f".toList) = some (.file [] (modeTemporary ||| 0o600)) ∧
    view (run MemFs.init exProg) (keyOfStr "/z".toList) = some (.dir (0o755 ||| modeDir)) ∧
    view (run MemFs.init exProg) (keyOfStr "/a/f".toList) = none ∧
    view (run MemFs.init exProg) (keyOfStr "/a".toList) = none ∧
    view (run MemFs.init exProg) rootKey = some (.dir (modeDir ||| 0o755)) := by
  have R := run_refines_init exProg exProg_wf
  refine ⟨R, ?_, ?_, ?_, ?_, ?_⟩ <;> (rw [R]; decide)

end MemFs
end AferoVerif
