/-
  WriteFile / WriteReader / SafeWriteReader followed by ReadFile return exactly the bytes given
  (over the MemMapFs model, for every state in which names lead to allocated objects).
-/
import AferoVerif.Model.Util
import AferoVerif.Proofs.Reach
import AferoVerif.Proofs.MemFile
namespace AferoVerif
namespace Util
open MemFs

/-- "the name leads to a regular file holding `data`" -/
def Holds (m : MemFs) (k : Key) (data : Bytes) : Prop :=
  ∃ f, m.lookup k = some f ∧ f < m.objs.length ∧ (m.obj f).data = data ∧ (m.obj f).dir = false

theorem writeS_nil (b : Bytes) : writeS [] 0 b = b := by simp [writeS]

theorem readS_all (d : Bytes) (n : Nat) (h : d.length ≤ n) : readS d 0 n = d := by
  unfold readS; simp [List.take_of_length_le h]

/-- Write(data) through a fresh writable handle at offset 0 on an empty regular file -/
theorem hWrite_fresh (m : MemFs) (h f : Nat) (data : Bytes)
    (hh : m.handles[h]? = some (MHandle.mk f (Handle.mk 0 false false) 0))
    (hf : f < m.objs.length) (he : (m.obj f).data = []) :
    (m.hWrite h data).2 = .file (.n data.length none) ∧ (m.hWrite h data).1.lookup = m.lookup ∧
    (m.hWrite h data).1.objs.length = m.objs.length ∧ ((m.hWrite h data).1.obj f).data = data ∧
    ((m.hWrite h data).1.obj f).dir = (m.obj f).dir ∧
    (m.hWrite h data).1.handles[h]? = some (MHandle.mk f (Handle.mk (data.length : Int) false false) 0) := by
  have hw : writeC (m.obj f).data (Handle.mk 0 false false) data =
      (data, Handle.mk (data.length : Int) false false, .n data.length none) := by
    rw [he]
    by_cases hb : data = []
    · subst hb; simp [writeC]
    · rw [writeC_eq [] (Handle.mk 0 false false) data 0 rfl rfl rfl hb, writeS_nil]
      simp
  have hlt : h < m.handles.length := (List.getElem?_eq_some_iff.mp hh).1
  unfold MemFs.hWrite MemFs.fileIO
  simp only [hh, hw]
  refine ⟨trivial, rfl, by simp [setObj], ?_, ?_, by simp [setObj, hlt]⟩
  · have := obj_setObj_self m f ((m.obj f).withIO data (true && (FOut.n data.length none).success) m.now) hf
    unfold obj at this ⊢
    simp only at this ⊢
    rw [this]; rfl
  · have := obj_setObj_self m f ((m.obj f).withIO data (true && (FOut.n data.length none).success) m.now) hf
    unfold obj at this ⊢
    simp only at this ⊢
    rw [this]; rfl

/-- Close of a writable handle: stamps the time, keeps names, bytes and kinds -/
theorem hClose_keeps (m : MemFs) (h : Nat) (mh : MHandle) (hh : m.handles[h]? = some mh) :
    (m.hClose h).2 = .ok ∧ (m.hClose h).1.lookup = m.lookup ∧ (m.hClose h).1.objs.length = m.objs.length ∧
    ∀ j, ((m.hClose h).1.obj j).data = (m.obj j).data ∧ ((m.hClose h).1.obj j).dir = (m.obj j).dir := by
  unfold MemFs.hClose
  simp only [hh]
  refine ⟨trivial, ?_, ?_, ?_⟩
  · split <;> rfl
  · split
    · rfl
    · simp [setObj]
  · intro j
    split
    · exact ⟨rfl, rfl⟩
    · by_cases hj : j = mh.obj
      · subst hj
        by_cases hl : mh.obj < m.objs.length
        · have := obj_setObj_self m mh.obj { m.obj mh.obj with mtime := m.now } hl
          unfold obj at this ⊢
          simp only at this ⊢
          rw [this]; exact ⟨rfl, rfl⟩
        · have : m.setObj mh.obj { m.obj mh.obj with mtime := m.now } = m := by
            unfold setObj; rw [List.set_eq_of_length_le (Nat.le_of_not_lt hl)]
          unfold obj at this ⊢
          simp only at this ⊢
          rw [this]; exact ⟨rfl, rfl⟩
      · have := obj_setObj_ne m mh.obj j { m.obj mh.obj with mtime := m.now } hj
        unfold obj at this ⊢
        simp only at this ⊢
        rw [this]; exact ⟨rfl, rfl⟩

/-- a fresh writable handle at offset 0 on an empty regular file: Write(data) then Close leaves
    exactly `data` there -/
theorem writeClose_spec (m : MemFs) (h f : Nat) (k : Key) (data : Bytes)
    (hh : m.handles[h]? = some (MHandle.mk f (Handle.mk 0 false false) 0))
    (hl : m.lookup k = some f) (hf : f < m.objs.length) (he : (m.obj f).data = []) (hd : (m.obj f).dir = false)
    (hr : InRange m) :
    (writeClose m h data).2 = .ok ∧ Holds (writeClose m h data).1 k data ∧ InRange (writeClose m h data).1 := by
  obtain ⟨w1, w2, w3, w4, w5, w6⟩ := hWrite_fresh m h f data hh hf he
  obtain ⟨c1, c2, c3, c4⟩ := hClose_keeps (m.hWrite h data).1 h _ w6
  unfold writeClose
  simp only [w1, Nat.lt_irrefl, if_false, c1]
  refine ⟨trivial, ⟨f, ?_, ?_, ?_, ?_⟩, ?_⟩
  · rw [c2, w2]; exact hl
  · rw [c3, w3]; exact hf
  · rw [(c4 f).1, w4]
  · rw [(c4 f).2, w5]; exact hd
  · intro k' f' hk'
    rw [c3, w3]
    rw [c2, w2] at hk'
    exact hr k' f' hk'

/-- after `attach`ing a new regular file under an existing directory -/
theorem attach_file_facts (m : MemFs) (k : Key) (p : Nat) (pd : List (Key × Nat)) (hr : InRange m)
    (hp : m.lookup (parentKey k) = some p) (hpd : (m.obj p).memDir = some pd) :
    (m.attach k (m.newFile k) p).lookup k = some m.objs.length ∧
    (m.attach k (m.newFile k) p).objs.length = m.objs.length + 1 ∧
    (m.attach k (m.newFile k) p).obj m.objs.length = m.newFile k ∧
    (m.attach k (m.newFile k) p).handles = m.handles ∧
    InRange (m.attach k (m.newFile k) p) := by
  have hpr := hr _ _ hp
  refine ⟨by rw [lookup_attach]; simp, by simp [attach, setObj], ?_, rfl, ?_⟩
  · unfold attach
    simp only
    rw [obj_setObj_ne _ _ _ _ (by omega)]
    exact obj_alloc_new m (m.newFile k)
  · intro k' f' h'
    rw [lookup_attach] at h'
    have : (m.attach k (m.newFile k) p).objs.length = m.objs.length + 1 := by simp [attach, setObj]
    rw [this]
    by_cases hk : k' = k
    · simp [hk] at h'; omega
    · simp [hk] at h'; have := hr k' f' h'; omega

theorem setFileMode_some (m : MemFs) (k : Key) (mode f : Nat) (h : m.lookup k = some f) :
    m.setFileMode k mode = (m.setObj f { m.obj f with mode := mode }, none) := by
  unfold setFileMode; simp only [h]

/-- `OpenFile(name, O_WRONLY|O_CREATE|O_TRUNC, perm)` on a name that is not a directory and whose
    parent directory exists: an empty regular file under the name and a fresh writable handle at
    offset 0 on it -/
theorem openFile_wflags_spec (m : MemFs) (k : Key) (perm p : Nat) (pd : List (Key × Nat)) (hr : InRange m)
    (hnd : ∀ f, m.lookup k = some f → (m.obj f).dir = false)
    (hp : m.lookup (parentKey k) = some p) (hpd : (m.obj p).memDir = some pd) (hpk : parentKey k ≠ k) :
    ∃ f, (m.openFile k wflags perm).2 = .handle m.handles.length none ∧
      (m.openFile k wflags perm).1.handles[m.handles.length]? = some (MHandle.mk f (Handle.mk 0 false false) 0) ∧
      (m.openFile k wflags perm).1.lookup k = some f ∧ f < (m.openFile k wflags perm).1.objs.length ∧
      ((m.openFile k wflags perm).1.obj f).data = [] ∧ ((m.openFile k wflags perm).1.obj f).dir = false ∧
      InRange (m.openFile k wflags perm).1 := by
  have n1 : wflags &&& O_EXCL = 0 := by decide
  have n2 : wflags &&& O_CREATE > 0 := by decide
  have n3 : wflags &&& O_TRUNC > 0 ∧ wflags &&& (O_RDWR ||| O_WRONLY) > 0 := by decide
  have n4 : ¬ (wflags &&& O_APPEND > 0) := by decide
  have n5 : decide (wflags &&& (O_WRONLY ||| O_RDWR) = 0) = false := by decide
  unfold MemFs.openFile
  simp only [n1, Nat.lt_irrefl, and_false, if_false]
  cases hl : m.lookup k with
  | some f =>
    have hf := hr k f hl
    simp only [n3, and_self, if_true, n4, if_false, n5, Bool.false_eq_true]
    refine ⟨f, rfl, by simp [setObj], ?_, by rw [length_setObj]; exact hf, ?_, ?_, ?_⟩
    · exact hl
    · have := obj_setObj_self m f { m.obj f with data := [], mtime := m.now } hf
      unfold obj at this ⊢; simp only at this ⊢; rw [this]
    · have := obj_setObj_self m f { m.obj f with data := [], mtime := m.now } hf
      unfold obj at this ⊢; simp only at this ⊢; rw [this]; exact hnd f hl
    · intro k' f' h'; show f' < (m.objs.set f _).length; rw [List.length_set]; exact hr k' f' h'
  | none =>
    simp only [n2, if_true, n3, and_self, n4, if_false, n5]
    rw [create_new_eq_attach m k p pd hl hp hpd hpk (hr _ _ hp)]
    obtain ⟨a1, a2, a3, a4, a5⟩ := attach_file_facts m k p pd hr hp hpd
    generalize m.attach k (m.newFile k) p = A at a1 a2 a3 a4 a5
    simp only
    have hlt : m.objs.length < A.objs.length := by omega
    -- the truncation and the trailing chmod rewrite the new object only
    rw [setFileMode_some _ k _ m.objs.length (by exact a1)]
    have hobj : ∀ (hs : List MHandle) (md : Nat),
        (({ A.setObj m.objs.length { A.obj m.objs.length with data := [], mtime := A.now } with handles := hs } : MemFs).setObj m.objs.length
          { ({ A.setObj m.objs.length { A.obj m.objs.length with data := [], mtime := A.now } with handles := hs } : MemFs).obj m.objs.length with mode := md }).obj m.objs.length
        = { (m.newFile k) with data := [], mtime := A.now, mode := md } := by
      intro hs md
      have e1 : ({ A.setObj m.objs.length { A.obj m.objs.length with data := [], mtime := A.now } with handles := hs } : MemFs).obj m.objs.length
          = { A.obj m.objs.length with data := [], mtime := A.now } := by
        have := obj_setObj_self A m.objs.length { A.obj m.objs.length with data := [], mtime := A.now } hlt
        unfold obj at this ⊢; simpa using this
      rw [obj_setObj_self _ _ _ (by show m.objs.length < (A.objs.set _ _).length; rw [List.length_set]; exact hlt), e1, a3]
    refine ⟨m.objs.length, by simp [setObj, a4], ?_, ?_, ?_, ?_, ?_, ?_⟩
    · simp [setObj, a4]
    · exact a1
    · show m.objs.length < ((A.objs.set _ _).set _ _).length
      rw [List.length_set, List.length_set]; exact hlt
    · rw [hobj]
    · rw [hobj]; rfl
    · intro k' f' h'
      show f' < ((A.objs.set _ _).set _ _).length
      rw [List.length_set, List.length_set]
      exact a5 k' f' h'

/-- `ReadFile` of a name that leads to a regular file returns exactly its bytes -/
theorem readFile_holds (m : MemFs) (name : Str) (data : Bytes) (h : Holds m (keyOfStr name) data) :
    (readFile m name).2 = some data := by
  obtain ⟨f, hl, hf, hd, hdir⟩ := h
  unfold readFile MemFs.openRO
  simp only [hl, MemFs.addHandle]
  have hh : (m.handles ++ [MHandle.mk f (Handle.mk 0 true false) 0])[m.handles.length]? = some (MHandle.mk f (Handle.mk 0 true false) 0) := by simp
  have hst : ({ m with handles := m.handles ++ [MHandle.mk f (Handle.mk 0 true false) 0] } : MemFs).hStat m.handles.length
      = .info (baseName (m.obj f).name) data.length false (m.obj f).mode := by
    unfold MemFs.hStat
    simp only [hh]
    show MRes.info _ (if (m.obj f).dir = true then 42 else (m.obj f).data.length) (m.obj f).dir _ = _
    rw [hdir, hd]; rfl
  rw [hst]
  simp only
  unfold MemFs.hRead MemFs.fileIO
  simp only [hh]
  have hobj : ({ m with handles := m.handles ++ [MHandle.mk f (Handle.mk 0 true false) 0] } : MemFs).obj f = m.obj f := rfl
  rw [hobj, hd]
  by_cases he : data = []
  · subst he
    simp [readC]
  · have hlen : 0 < data.length := List.length_pos_iff.mpr he
    rw [readC_eq data (Handle.mk 0 true false) (data.length + 512) 0 rfl rfl (by omega)]
    rw [readS_all data _ (by omega)]

/-- `Create(name)` on a name that is not a directory and whose parent directory exists -/
theorem create_file_spec (m : MemFs) (k : Key) (p : Nat) (pd : List (Key × Nat)) (hr : InRange m)
    (hnd : ∀ f, m.lookup k = some f → (m.obj f).dir = false)
    (hp : m.lookup (parentKey k) = some p) (hpd : (m.obj p).memDir = some pd) (hpk : parentKey k ≠ k) :
    (m.create k).1.lookup k = some (m.create k).2 ∧ (m.create k).2 < (m.create k).1.objs.length ∧
    ((m.create k).1.obj (m.create k).2).data = [] ∧ ((m.create k).1.obj (m.create k).2).dir = false ∧
    (m.create k).1.handles = m.handles ∧ InRange (m.create k).1 := by
  cases hl : m.lookup k with
  | none =>
    rw [create_new_eq_attach m k p pd hl hp hpd hpk (hr _ _ hp)]
    obtain ⟨a1, a2, a3, a4, a5⟩ := attach_file_facts m k p pd hr hp hpd
    simp only
    exact ⟨a1, by omega, by rw [a3]; rfl, by rw [a3]; rfl, a4, a5⟩
  | some f =>
    have hf := hr k f hl
    have hd := hnd f hl
    unfold create
    simp only [hl, hd, Bool.false_eq_true, if_false]
    refine ⟨hl, by rw [length_setObj]; exact hf, ?_, ?_, rfl, inRange_setObj _ hr _ _⟩
    · rw [obj_setObj_self _ _ _ hf]
    · rw [obj_setObj_self _ _ _ hf]

/-- `WriteFile` followed by `ReadFile` -/
theorem writeFile_readFile_mem (m : MemFs) (name : Str) (data : Bytes) (perm p : Nat) (pd : List (Key × Nat))
    (hr : InRange m) (hnd : ∀ f, m.lookup (keyOfStr name) = some f → (m.obj f).dir = false)
    (hp : m.lookup (parentKey (keyOfStr name)) = some p) (hpd : (m.obj p).memDir = some pd)
    (hpk : parentKey (keyOfStr name) ≠ keyOfStr name) :
    (writeFile m name data perm).2 = .ok ∧ (readFile (writeFile m name data perm).1 name).2 = some data := by
  obtain ⟨f, o1, o2, o3, o4, o5, o6, o7⟩ := openFile_wflags_spec m (keyOfStr name) perm p pd hr hnd hp hpd hpk
  unfold writeFile
  simp only [o1]
  obtain ⟨w1, w2, _⟩ := writeClose_spec _ m.handles.length f (keyOfStr name) data o2 o3 o4 o5 o6 o7
  exact ⟨w1, readFile_holds _ name data w2⟩

/-- `WriteReader` (and `SafeWriteReader` on a free name) followed by `ReadFile`, the directory part
    of the path being an existing directory -/
theorem writeReader_readFile_mem (m : MemFs) (path : Str) (data : Bytes) (p : Nat) (pd : List (Key × Nat))
    (hr : InRange m) (hnd : ∀ f, m.lookup (keyOfStr path) = some f → (m.obj f).dir = false)
    (hp : m.lookup (parentKey (keyOfStr path)) = some p) (hpd : (m.obj p).memDir = some pd)
    (hpk : parentKey (keyOfStr path) ≠ keyOfStr path)
    (hdir : (Path.splitDirFile path).1 = [] ∨ (m.lookup (keyOfStr (Path.splitDirFile path).1)).isSome) :
    (writeReader m path data).2 = .ok ∧ (readFile (writeReader m path data).1 path).2 = some data := by
  have hmk : (if (Path.splitDirFile path).1 = [] then (m, MRes.ok) else m.mkdirAll (keyOfStr (Path.splitDirFile path).1) 0o777) = (m, MRes.ok) := by
    rcases hdir with h | h
    · simp [h]
    · by_cases h0 : (Path.splitDirFile path).1 = []
      · simp [h0]
      · simp only [h0, if_false]
        obtain ⟨g, hg⟩ := Option.isSome_iff_exists.mp h
        unfold MemFs.mkdirAll MemFs.mkdir
        simp only [hg]
  obtain ⟨c1, c2, c3, c4, c5, c6⟩ := create_file_spec m (keyOfStr path) p pd hr hnd hp hpd hpk
  unfold writeReader
  simp only [hmk, MemFs.addHandle]
  have hh : ((m.create (keyOfStr path)).1.handles ++ [MHandle.mk (m.create (keyOfStr path)).2 (Handle.mk 0 false false) 0])[(m.create (keyOfStr path)).1.handles.length]?
      = some (MHandle.mk (m.create (keyOfStr path)).2 (Handle.mk 0 false false) 0) := by simp
  obtain ⟨w1, w2, _⟩ := writeClose_spec
    { (m.create (keyOfStr path)).1 with handles := (m.create (keyOfStr path)).1.handles ++ [MHandle.mk (m.create (keyOfStr path)).2 (Handle.mk 0 false false) 0] }
    (m.create (keyOfStr path)).1.handles.length (m.create (keyOfStr path)).2 (keyOfStr path) data hh c1 c2 c3 c4 c6
  exact ⟨w1, readFile_holds _ path data w2⟩

theorem safeWriteReader_existing (m : MemFs) (path : Str) (data : Bytes) (h : (m.lookup (keyOfStr path)).isSome) :
    safeWriteReader m path data = (m, .fail "already exists") := by
  unfold safeWriteReader; simp [h]

theorem safeWriteReader_free (m : MemFs) (path : Str) (data : Bytes) (h : m.lookup (keyOfStr path) = none) :
    safeWriteReader m path data = writeReader m path data := by
  unfold safeWriteReader; simp [h]

end Util
end AferoVerif
