/-
  The index invariant `Consistent` through `RemoveAll`: removing a whole subtree (the name and every
  key below it, element-wise) keeps the tree self-consistent.
-/
import AferoVerif.Proofs.MemFsInv2
namespace AferoVerif

/-! ### key arithmetic: "below", parents -/

theorem isUnder_iff (name p : Key) :
    isUnder name p = true ↔
      name.rooted = p.rooted ∧ name.segs ≠ [] ∧ name.segs.length < p.segs.length ∧ name.segs <+: p.segs := by
  unfold isUnder
  simp [List.isPrefixOf_iff_prefix]

theorem normKey_cases (x : Key) : normKey x = rootKey ∨ normKey x = x := by
  unfold normKey
  split
  · exact Or.inl rfl
  · exact Or.inr rfl

theorem normKey_idem (x : Key) : normKey (normKey x) = normKey x := by
  rcases normKey_cases x with h | h
  · rw [h]; rfl
  · rw [h]; exact h

/-- the keys the operations work with are normalised -/
theorem normKey_keyOfStr (s : Str) : normKey (keyOfStr s) = keyOfStr s := normKey_idem _

theorem not_isUnder_root (k : Key) : isUnder k rootKey = false := by
  cases h : isUnder k rootKey with
  | false => rfl
  | true =>
    have := (isUnder_iff k rootKey).1 h
    simp [rootKey] at this

/-- a key that survives the removal of the subtree at `k` has a parent that survives too -/
theorem parent_survives (k k' : Key) (hk : k.segs ≠ []) (_hne : k' ≠ k) (hnu : isUnder k k' = false) :
    parentKey k' ≠ k ∧ isUnder k (parentKey k') = false := by
  have hroot : rootKey ≠ k ∧ isUnder k rootKey = false :=
    ⟨fun e => hk (by rw [← e]; rfl), not_isUnder_root k⟩
  unfold parentKey
  by_cases hs : k'.segs = []
  · simp only [hs, if_true]; exact hroot
  · simp only [hs, if_false]
    rcases normKey_cases ⟨k'.rooted, k'.segs.dropLast⟩ with h | h
    · rw [h]; exact hroot
    · rw [h]
      have hlen : k'.segs.dropLast.length < k'.segs.length := by
        rw [List.length_dropLast]
        have : 0 < k'.segs.length := List.length_pos_iff.2 hs
        omega
      constructor
      · intro e
        have : isUnder k k' = true := by
          rw [isUnder_iff]
          refine ⟨by rw [← e], hk, by rw [← e]; exact hlen, by rw [← e]; exact List.dropLast_prefix _⟩
        rw [this] at hnu; cases hnu
      · cases hu : isUnder k ⟨k'.rooted, k'.segs.dropLast⟩ with
        | false => rfl
        | true =>
          have h4 := (isUnder_iff _ _).1 hu
          have : isUnder k k' = true := by
            rw [isUnder_iff]
            exact ⟨h4.1, h4.2.1, Nat.lt_trans h4.2.2.1 hlen, h4.2.2.2.trans (List.dropLast_prefix _)⟩
          rw [this] at hnu; cases hnu

/-- the parent of a key below `k` is `k` itself or lies below `k` -/
theorem parent_of_under (k k' : Key) (hn : normKey k = k) (hu : isUnder k k' = true) :
    parentKey k' = k ∨ isUnder k (parentKey k') = true := by
  obtain ⟨hr, hk, hlen, hpre⟩ := (isUnder_iff _ _).1 hu
  have hs : k'.segs ≠ [] := by
    intro e; rw [e] at hlen; simp at hlen
  have hdl : k'.segs.dropLast.length = k'.segs.length - 1 := List.length_dropLast
  have hpre' : k.segs <+: k'.segs.dropLast := by
    obtain ⟨t, ht⟩ := hpre
    have htne : t ≠ [] := by
      intro e; rw [e, List.append_nil] at ht; rw [ht] at hlen; omega
    refine ⟨t.dropLast, ?_⟩
    rw [← ht, List.dropLast_append_of_ne_nil htne]
  unfold parentKey
  simp only [hs, if_false]
  by_cases heq : k.segs.length = k'.segs.dropLast.length
  · -- the parent is k itself
    left
    have hsegs : k'.segs.dropLast = k.segs := (List.IsPrefix.eq_of_length hpre' heq).symm
    have : (⟨k'.rooted, k'.segs.dropLast⟩ : Key) = k := by
      cases k; simp only at hr hsegs ⊢; rw [hsegs, ← hr]
    rw [this]; exact hn
  · right
    have hlt : k.segs.length < k'.segs.dropLast.length := Nat.lt_of_le_of_ne hpre'.length_le heq
    have hx : normKey ⟨k'.rooted, k'.segs.dropLast⟩ = ⟨k'.rooted, k'.segs.dropLast⟩ := by
      unfold normKey
      split
      · rename_i hc
        rcases hc.2 with e | e
        · simp only at e; rw [e] at hlt; simp at hlt
        · simp only at e; rw [e] at hlt
          have h1 : k.segs.length < 1 := hlt
          exact absurd (List.eq_nil_of_length_eq_zero (by omega)) hk
      · rfl
    rw [hx, isUnder_iff]
    exact ⟨hr, hk, hlt, hpre'⟩

namespace MemFs

/-- the invariant speaks about the path map and the objects only -/
theorem consistent_congr (m m' : MemFs) (hc : Consistent m) (hl : ∀ k, m'.lookup k = m.lookup k)
    (ho : m'.objs = m.objs) : Consistent m' := by
  have hobj : ∀ i, m'.obj i = m.obj i := by intro i; unfold obj; rw [ho]
  refine ⟨?_, ?_, ?_, ?_, ?_⟩
  · intro k f h; rw [ho]; rw [hl] at h; exact hc.inRange k f h
  · intro k f h; rw [hl] at h; rw [hobj]; exact hc.nameEq k f h
  · intro k f h hne
    rw [hl] at h
    obtain ⟨p, d, h1, h2, h3⟩ := hc.hasParent k f h hne
    exact ⟨p, d, by rw [hl]; exact h1, by rw [hobj]; exact h2, h3⟩
  · intro k p d k' f' h hd hl'
    rw [hl] at h; rw [hobj] at hd
    obtain ⟨a, b, c⟩ := hc.noStale k p d k' f' h hd hl'
    exact ⟨by rw [hl]; exact a, b, c⟩
  · obtain ⟨r, h1, h2⟩ := hc.root
    exact ⟨r, by rw [hl]; exact h1, by rw [hobj]; exact h2⟩

/-- **every existing path has all its ancestors** -/
theorem ancestor_exists (m : MemFs) (hc : Consistent m) (k : Key) (hn : normKey k = k) :
    ∀ n k' f', k'.segs.length = n → m.lookup k' = some f' → isUnder k k' = true → (m.lookup k).isSome := by
  intro n
  induction n using Nat.strongRecOn with
  | _ n ih =>
    intro k' f' hlen hl hu
    obtain ⟨_, hk, hlt, _⟩ := (isUnder_iff _ _).1 hu
    have hne : k' ≠ rootKey := by
      intro e; rw [e] at hlt; simp [rootKey] at hlt
    obtain ⟨p, d, h1, _, _⟩ := hc.hasParent k' f' hl hne
    rcases parent_of_under k k' hn hu with e | hu'
    · rw [e] at h1; rw [h1]; rfl
    · have hs : k'.segs ≠ [] := by intro e; rw [e] at hlt; simp at hlt
      have hplen : (parentKey k').segs.length < n := by
        unfold parentKey
        simp only [hs, if_false]
        rcases normKey_cases ⟨k'.rooted, k'.segs.dropLast⟩ with h | h
        · rw [h]; simp [rootKey]; omega
        · rw [h]; simp only [List.length_dropLast]
          have : 0 < k'.segs.length := List.length_pos_iff.2 hs
          omega
      exact ih _ hplen (parentKey k') p rfl h1 hu'

/-- the effect of `RemoveAll` of an existing name `k` whose parent directory is `p` -/
def prune (m : MemFs) (k : Key) (p : Nat) : MemFs :=
  let m1 := m.setObj p { m.obj p with memDir := (m.obj p).memDir.map fun d => alErase d k }
  { m1 with data := m1.data.filter fun e => ¬ (e.1 = k ∨ isUnder k e.1) }

theorem lookup_prune (m : MemFs) (k k' : Key) (p : Nat) :
    (m.prune k p).lookup k' = if k' = k ∨ isUnder k k' = true then none else m.lookup k' := by
  unfold prune lookup
  simp only
  have := alLookup_filter (m.setObj p { m.obj p with memDir := (m.obj p).memDir.map fun d => alErase d k }).data
    (fun x => decide (¬ (x = k ∨ isUnder k x = true))) k'
  simp only [decide_not] at this ⊢
  rw [this]
  by_cases h : k' = k ∨ isUnder k k' = true
  · simp [h]
  · simp [h]; rfl

/-- **removing a whole subtree keeps the tree consistent** -/
theorem consistent_prune (m : MemFs) (hc : Consistent m) (k : Key) (f p : Nat) (pd : List (Key × Nat))
    (hk : k.segs ≠ []) (hn : normKey k = k) (hl : m.lookup k = some f)
    (hp : m.lookup (parentKey k) = some p) (hpd : (m.obj p).memDir = some pd) :
    Consistent (m.prune k p) := by
  have hroot : k ≠ rootKey := by intro e; rw [e] at hk; exact hk rfl
  have hpr := hc.inRange _ _ hp
  have hlen : (m.prune k p).objs.length = m.objs.length := by simp [prune, setObj]
  have hobj_p : (m.prune k p).obj p = { m.obj p with memDir := some (alErase pd k) } := by
    have := obj_setObj_self m p { m.obj p with memDir := (m.obj p).memDir.map fun d => alErase d k } hpr
    unfold prune obj at *
    simp only at this ⊢
    rw [this, hpd]; rfl
  have hobj_other : ∀ j, j ≠ p → (m.prune k p).obj j = m.obj j := by
    intro j hj
    have := obj_setObj_ne m p j { m.obj p with memDir := (m.obj p).memDir.map fun d => alErase d k } hj
    unfold prune obj at *
    simpa using this
  -- a key that survives
  have hsurv : ∀ k' f', (m.prune k p).lookup k' = some f' → k' ≠ k ∧ isUnder k k' = false ∧ m.lookup k' = some f' := by
    intro k' f' h'
    rw [lookup_prune] at h'
    by_cases hx : k' = k ∨ isUnder k k' = true
    · simp [hx] at h'
    · simp only [hx, if_false] at h'
      refine ⟨fun e => hx (Or.inl e), ?_, h'⟩
      cases hu : isUnder k k' with
      | false => rfl
      | true => exact absurd (Or.inr hu) hx
  have hkeep : ∀ k', k' ≠ k → isUnder k k' = false → (m.prune k p).lookup k' = m.lookup k' := by
    intro k' h1 h2
    rw [lookup_prune]
    have : ¬ (k' = k ∨ isUnder k k' = true) := by
      intro h; rcases h with h | h
      · exact h1 h
      · rw [h2] at h; cases h
    simp [this]
  refine ⟨?_, ?_, ?_, ?_, ?_⟩
  · intro k' f' h'
    obtain ⟨_, _, h0⟩ := hsurv k' f' h'
    rw [hlen]; exact hc.inRange _ _ h0
  · intro k' f' h'
    obtain ⟨_, _, h0⟩ := hsurv k' f' h'
    by_cases hfp : f' = p
    · subst hfp; rw [hobj_p]; exact hc.nameEq _ _ h0
    · rw [hobj_other f' hfp]; exact hc.nameEq _ _ h0
  · intro k' f' h' hne
    obtain ⟨hk1, hk2, h0⟩ := hsurv k' f' h'
    obtain ⟨p', d', h1, h2, h3⟩ := hc.hasParent k' f' h0 hne
    obtain ⟨hp1, hp2⟩ := parent_survives k k' hk hk1 hk2
    have hlp : (m.prune k p).lookup (parentKey k') = some p' := by rw [hkeep _ hp1 hp2]; exact h1
    by_cases hpp : p' = p
    · subst hpp
      refine ⟨p', alErase pd k, hlp, by rw [hobj_p], ?_⟩
      rw [hpd] at h2; injection h2 with h2; subst h2
      rw [alLookup_erase_ne _ _ _ hk1]; exact h3
    · exact ⟨p', d', hlp, by rw [hobj_other p' hpp]; exact h2, h3⟩
  · intro kd q dd k' f' h' hd hl'
    obtain ⟨hd1, hd2, h0⟩ := hsurv kd q h'
    -- what the directory listed before
    have hbefore : ∃ dd0, (m.obj q).memDir = some dd0 ∧ alLookup dd0 k' = some f' ∧ (q = p → k' ≠ k) := by
      by_cases hqp : q = p
      · subst hqp
        rw [hobj_p] at hd; injection hd with hd; subst hd
        refine ⟨pd, hpd, ?_, ?_⟩
        · by_cases hkk : k' = k
          · subst hkk; rw [alLookup_erase_self] at hl'; cases hl'
          · rw [alLookup_erase_ne _ _ _ hkk] at hl'; exact hl'
        · intro _ hkk; subst hkk; rw [alLookup_erase_self] at hl'; cases hl'
      · rw [hobj_other q hqp] at hd
        exact ⟨dd, hd, hl', fun e => absurd e hqp⟩
    obtain ⟨dd0, hd0, hl0, hqk⟩ := hbefore
    obtain ⟨a, b, c⟩ := hc.noStale _ _ _ _ _ h0 hd0 hl0
    have hkk : k' ≠ k := by
      intro e
      -- then kd is the parent of k, whose object is p
      apply hqk _ e
      rw [e] at b; rw [← b] at h0; rw [hp] at h0; injection h0 with h0; exact h0.symm
    have hnu : isUnder k k' = false := by
      cases hu : isUnder k k' with
      | false => rfl
      | true =>
        rcases parent_of_under k k' hn hu with e | e
        · rw [b] at e; exact absurd e hd1
        · rw [b, hd2] at e; cases e
    exact ⟨by rw [hkeep _ hkk hnu]; exact a, b, c⟩
  · obtain ⟨r, hr1, hr2⟩ := hc.root
    refine ⟨r, by rw [hkeep _ (Ne.symm hroot) (not_isUnder_root k)]; exact hr1, ?_⟩
    by_cases hrp : r = p
    · subst hrp; rw [hobj_p]; rfl
    · rw [hobj_other r hrp]; exact hr2

/-- `RemoveAll` of an existing name is `prune` -/
theorem removeAll_eq_prune (m : MemFs) (hc : Consistent m) (k : Key) (f p : Nat)
    (hl : m.lookup k = some f) (hp : m.lookup (parentKey k) = some p) :
    m.removeAll k = (m.prune k p, .ok) := by
  have hname := hc.nameEq k f hl
  unfold removeAll unRegisterWithParent findParent
  simp only [hl, hname, hp]
  rfl

/-- `RemoveAll` of a missing name changes nothing that the path map shows -/
theorem consistent_removeAll_missing (m : MemFs) (hc : Consistent m) (k : Key) (hn : normKey k = k)
    (hl : m.lookup k = none) : Consistent (m.removeAll k).1 := by
  have hnone : ∀ k' , isUnder k k' = true → m.lookup k' = none := by
    intro k' hu
    cases h : m.lookup k' with
    | none => rfl
    | some f' =>
      have := ancestor_exists m hc k hn _ k' f' rfl h hu
      rw [hl] at this; cases this
  unfold removeAll unRegisterWithParent
  simp only [hl]
  refine consistent_congr m _ hc ?_ rfl
  intro k'
  show alLookup (m.data.filter fun e => ¬ (e.1 = k ∨ isUnder k e.1)) k' = alLookup m.data k'
  have := alLookup_filter m.data (fun x => decide (¬ (x = k ∨ isUnder k x = true))) k'
  simp only [decide_not] at this ⊢
  rw [this]
  by_cases h : k' = k ∨ isUnder k k' = true
  · simp only [h, decide_true, Bool.not_true, Bool.false_eq_true, if_false]
    rcases h with h | h
    · rw [h]; exact hl.symm
    · exact (hnone k' h).symm
  · simp [h]

/-- **`RemoveAll` keeps the tree consistent**, for every name but the root itself -/
theorem consistent_removeAll (m : MemFs) (hc : Consistent m) (k : Key) (hk : k.segs ≠ []) (hn : normKey k = k) :
    Consistent (m.removeAll k).1 := by
  cases hl : m.lookup k with
  | none => exact consistent_removeAll_missing m hc k hn hl
  | some f =>
    have hroot : k ≠ rootKey := by intro e; rw [e] at hk; exact hk rfl
    obtain ⟨p, pd, h1, h2, _⟩ := hc.hasParent k f hl hroot
    rw [removeAll_eq_prune m hc k f p hl h1]
    exact consistent_prune m hc k f p pd hk hn hl h1 h2

end MemFs
end AferoVerif
