/-
  Reads through the two-layer filesystems.

  C06 (CopyOnWriteFs): `Open` of a regular file hands out a read-only handle whose reads return
  the bytes of the view — the overlay's if the overlay has the name, the base's otherwise; a
  positional write through a handle opened for writing is read back through that handle and
  through every handle opened afterwards.
  C10 (CacheOnReadFs): `OpenFile(O_RDONLY)` of a file that is not served from the cache copies the
  base's bytes and modification time to the cache layer and reads them back; a hit reads the
  cache layer's bytes whatever the base holds.
-/
import AferoVerif.Props.C05
import AferoVerif.Props.C06
import AferoVerif.Props.C10
namespace AferoVerif
open MemFs

/-! ### the flat byte functions -/

theorem readS_zero (d : Bytes) (n : Nat) : readS d 0 n = d.take n := by
  unfold readS; simp

/-- what was written at `off` is what is read at `off` -/
theorem readS_writeS (d : Bytes) (off : Nat) (b : Bytes) : readS (writeS d off b) off b.length = b := by
  unfold readS writeS
  simp only
  have hl : (List.take off (d ++ List.replicate (off - d.length) 0)).length = off := by simp; omega
  rw [List.append_assoc, List.drop_left' hl, List.take_left' rfl]

/-- `File.Read` through an open handle at offset 0: the first `n` bytes -/
theorem readC_pos0 (d : Bytes) (h : Handle) (n : Nat) (hp : h.pos = 0) (hc : h.closed = false) :
    (readC d h n).2 = .bytes (d.take n) (if 0 < n ∧ d = [] then some .eof else none) := by
  by_cases hin : 0 < n ∧ d = []
  · obtain ⟨h1, h2⟩ := hin
    subst h2
    unfold readC
    simp [hc, hp, h1]
  · have hin' : ¬ (0 ≥ d.length ∧ (n > 0 ∨ 0 > d.length)) := by
      intro hh
      apply hin
      have : d = [] := List.eq_nil_of_length_eq_zero (by omega)
      refine ⟨?_, this⟩
      rcases hh.2 with h1 | h1
      · exact h1
      · omega
    rw [readC_eq d h n 0 (by rw [hp]; rfl) hc hin', readS_zero]
    simp only [hin, if_false]

/-- `File.ReadAt` through an open handle: the flat read, end of file reported on a short read -/
theorem readAtC_out (d : Bytes) (h : Handle) (len off : Nat) (hc : h.closed = false) :
    (readAtC d h len (off : Int)).2 = .bytes (readS d off len)
      (if off > d.length then some .ueof else if (readS d off len).length < len then some .eof else none) := by
  obtain ⟨pos, ro, cl⟩ := h
  simp only at hc
  subst hc
  have hs : C02.Inv { data := d, hs := [{ pos := 0, readOnly := ro, closed := false }] } := by
    intro x hx
    simp only [List.mem_singleton] at hx
    subst hx
    exact Int.le_refl 0
  have h1 := congrArg Prod.snd (C02.step_refines { data := d, hs := [{ pos := 0, readOnly := ro, closed := false }] }
    (.readAt 0 len off) hs)
  have ho : ¬ ((off : Int) < 0) := by omega
  simp only [stepC, stepS, List.getElem?_cons_zero, ho, if_false, Bool.false_eq_true,
    Int.toNat_natCast] at h1
  have e : (readAtC d { pos := pos, readOnly := ro, closed := false } len (off : Int)).2 =
      (readAtC d { pos := 0, readOnly := ro, closed := false } len (off : Int)).2 := by
    unfold readAtC
    simp only [ho, if_false]
    split <;> (try split) <;> rfl
  rw [e, h1]
  have : ((off : Int) > (d.length : Int)) ↔ off > d.length := by omega
  simp only [this]

theorem readAtC_zero (d : Bytes) (h : Handle) (n : Nat) (hc : h.closed = false) :
    (readAtC d h n 0).2 = .bytes (d.take n) (if d.length < n then some .eof else none) := by
  have := readAtC_out d h n 0 hc
  rw [readS_zero] at this
  simp only [Int.natCast_zero] at this
  rw [this]
  have h0 : ¬ (0 > d.length) := by omega
  simp only [h0, if_false, List.length_take]
  by_cases hn : d.length < n
  · have : min n d.length < n := by omega
    simp [hn, this]
  · have : ¬ (min n d.length < n) := by omega
    simp [hn, this]

/-! ### handle methods of the in-memory filesystem -/

theorem hRead_fresh (m : MemFs) (hi : Nat) (mh : MHandle) (n : Nat)
    (hh : m.handles[hi]? = some mh) (hp : mh.h.pos = 0) (hc : mh.h.closed = false) :
    (m.hRead hi n).2 = .file (.bytes ((m.obj mh.obj).data.take n)
      (if 0 < n ∧ (m.obj mh.obj).data = [] then some .eof else none)) := by
  unfold MemFs.hRead MemFs.fileIO
  simp only [hh]
  show MRes.file (readC (m.obj mh.obj).data mh.h n).2 = _
  rw [readC_pos0 _ _ _ hp hc]

theorem hReadAt_spec (m : MemFs) (hi : Nat) (mh : MHandle) (len off : Nat)
    (hh : m.handles[hi]? = some mh) (hc : mh.h.closed = false) :
    (m.hReadAt hi len (off : Int)).2 = .file (.bytes (readS (m.obj mh.obj).data off len)
      (if off > (m.obj mh.obj).data.length then some .ueof
       else if (readS (m.obj mh.obj).data off len).length < len then some .eof else none)) := by
  unfold MemFs.hReadAt MemFs.fileIO
  simp only [hh]
  show MRes.file (readAtC (m.obj mh.obj).data mh.h len (off : Int)).2 = _
  rw [readAtC_out _ _ _ _ hc]

theorem hReadAt_zero (m : MemFs) (hi : Nat) (mh : MHandle) (n : Nat)
    (hh : m.handles[hi]? = some mh) (hc : mh.h.closed = false) :
    (m.hReadAt hi n 0).2 = .file (.bytes ((m.obj mh.obj).data.take n)
      (if (m.obj mh.obj).data.length < n then some .eof else none)) := by
  unfold MemFs.hReadAt MemFs.fileIO
  simp only [hh]
  show MRes.file (readAtC (m.obj mh.obj).data mh.h n 0).2 = _
  rw [readAtC_zero _ _ _ hc]

/-! ### a call through a handle of the union goes to the layer the handle lives in -/

theorem cow_step_layer (c : Cow) (op : Op) (h i : Nat) (hop : op.handle? = some h)
    (hh : c.hs[h]? = some (.layer i)) :
    c.step op = ({ c with s := { c.s with l := (c.s.l.step (Cow.reindex op i)).1 } },
      (c.s.l.step (Cow.reindex op i)).2) := by
  cases op <;> simp [Op.handle?] at hop <;>
    (subst hop; simp only [Cow.step, Op.handle?, Cow.handleOp, hh])

theorem cow_step_base (c : Cow) (op : Op) (h i : Nat) (hop : op.handle? = some h)
    (hh : c.hs[h]? = some (.base i)) :
    c.step op = ({ c with s := { c.s with b := (c.s.b.step (Cow.reindex op i)).1 } },
      (c.s.b.step (Cow.reindex op i)).2) := by
  cases op <;> simp [Op.handle?] at hop <;>
    (subst hop; simp only [Cow.step, Op.handle?, Cow.handleOp, hh])

/-! ### C06: Open reads the view -/

/-- `Open` of a name the overlay has, when the overlay's entry or the base's entry is a regular
    file: a fresh read-only handle at offset 0 on the overlay's object; nothing else changes -/
theorem cow_open_layer_handle (c : Cow) (p : Str) (lf : Nat)
    (hl : c.s.l.lookup (keyOfStr p) = some lf)
    (hfile : (c.s.l.obj lf).dir = false ∨
      ∃ bo, c.s.b.lookup (keyOfStr p) = some bo ∧ (c.s.b.obj bo).dir = false) :
    c.step (.open_ p) =
      ({ s := { c.s with l := { c.s.l with handles := c.s.l.handles ++ [{ obj := lf, h := { readOnly := true } }] } },
         hs := c.hs ++ [.layer c.s.l.handles.length] }, .handle c.hs.length none) := by
  show c.open_ p = _
  unfold Cow.open_ Cow.isBaseFile fsIsDir MemFs.openRO MemFs.addHandle Cow.addH
  rcases hfile with hfile | ⟨bo, hbo, hfile⟩
  · simp [hl, hfile]
  · simp [hl, hbo, hfile]

theorem cow_open_overlay_file (c : Cow) (p : Str) (lf : Nat)
    (hl : c.s.l.lookup (keyOfStr p) = some lf) (hfile : (c.s.l.obj lf).dir = false) :
    c.step (.open_ p) =
      ({ s := { c.s with l := { c.s.l with handles := c.s.l.handles ++ [{ obj := lf, h := { readOnly := true } }] } },
         hs := c.hs ++ [.layer c.s.l.handles.length] }, .handle c.hs.length none) :=
  cow_open_layer_handle c p lf hl (Or.inl hfile)

/-- `Open` of a name the overlay does not have and under which the base holds a regular file: a
    fresh read-only handle at offset 0 on the base's object; nothing else changes -/
theorem cow_open_base_file (c : Cow) (p : Str) (bf : Nat)
    (hl : c.s.l.lookup (keyOfStr p) = none) (hb : c.s.b.lookup (keyOfStr p) = some bf) :
    c.step (.open_ p) =
      ({ s := { c.s with b := { c.s.b with handles := c.s.b.handles ++ [{ obj := bf, h := { readOnly := true } }] } },
         hs := c.hs ++ [.base c.s.b.handles.length] }, .handle c.hs.length none) := by
  show c.open_ p = _
  unfold Cow.open_ Cow.isBaseFile fsIsDir MemFs.openRO MemFs.addHandle Cow.addH
  simp [hl, hb]

/-- **C06, Open reads the view (overlay side).** If the overlay holds a regular file under the
    name, `Open` answers a fresh handle, leaves the base as it is and the overlay's objects and
    path map as they are, and reading `n` bytes from the start through that handle — `Read` or
    `ReadAt(…, 0)` — returns the first `n` bytes of the overlay's file (with `io.EOF` exactly as
    the in-memory file reports it: `Read` on an empty file with `n > 0`, `ReadAt` on a short read). -/
theorem cow_open_reads_overlay (c : Cow) (p : Str) (lf n : Nat)
    (hl : c.s.l.lookup (keyOfStr p) = some lf) (hfile : (c.s.l.obj lf).dir = false) :
    (c.step (.open_ p)).2 = .handle c.hs.length none ∧
    (c.step (.open_ p)).1.s.b = c.s.b ∧
    RO.tree (c.step (.open_ p)).1.s.l = RO.tree c.s.l ∧
    ((c.step (.open_ p)).1.step (.hRead c.hs.length n)).2 =
      .file (.bytes ((c.s.l.obj lf).data.take n)
        (if 0 < n ∧ (c.s.l.obj lf).data = [] then some .eof else none)) ∧
    ((c.step (.open_ p)).1.step (.hReadAt c.hs.length n 0)).2 =
      .file (.bytes ((c.s.l.obj lf).data.take n)
        (if (c.s.l.obj lf).data.length < n then some .eof else none)) := by
  rw [cow_open_overlay_file c p lf hl hfile]
  refine ⟨rfl, rfl, rfl, ?_, ?_⟩
  · rw [cow_step_layer _ (.hRead c.hs.length n) c.hs.length c.s.l.handles.length rfl (by simp)]
    exact hRead_fresh _ _ { obj := lf, h := { readOnly := true } } n (by simp) rfl rfl
  · rw [cow_step_layer _ (.hReadAt c.hs.length n 0) c.hs.length c.s.l.handles.length rfl (by simp)]
    exact hReadAt_zero _ _ { obj := lf, h := { readOnly := true } } n (by simp) rfl

/-- **C06, Open reads the view (base side).** If the overlay has no entry under the name and the
    base holds a regular file there, `Open` answers a fresh handle, leaves the overlay as it is and
    the base's objects and path map as they are, and reading `n` bytes from the start through that
    handle returns the first `n` bytes of the base's file.  (No condition on the ancestors of the
    name in the overlay is needed: `isBaseFile` looks the name itself up, nothing else.  The
    regular-file hypothesis states the intended use; the model routes a base-only directory to the
    base in the same way.) -/
theorem cow_open_reads_base (c : Cow) (p : Str) (bf n : Nat)
    (hl : c.s.l.lookup (keyOfStr p) = none) (hb : c.s.b.lookup (keyOfStr p) = some bf)
    (_hfile : (c.s.b.obj bf).dir = false) :
    (c.step (.open_ p)).2 = .handle c.hs.length none ∧
    (c.step (.open_ p)).1.s.l = c.s.l ∧
    RO.tree (c.step (.open_ p)).1.s.b = RO.tree c.s.b ∧
    ((c.step (.open_ p)).1.step (.hRead c.hs.length n)).2 =
      .file (.bytes ((c.s.b.obj bf).data.take n)
        (if 0 < n ∧ (c.s.b.obj bf).data = [] then some .eof else none)) ∧
    ((c.step (.open_ p)).1.step (.hReadAt c.hs.length n 0)).2 =
      .file (.bytes ((c.s.b.obj bf).data.take n)
        (if (c.s.b.obj bf).data.length < n then some .eof else none)) := by
  rw [cow_open_base_file c p bf hl hb]
  refine ⟨rfl, rfl, rfl, ?_, ?_⟩
  · rw [cow_step_base _ (.hRead c.hs.length n) c.hs.length c.s.b.handles.length rfl (by simp)]
    exact hRead_fresh _ _ { obj := bf, h := { readOnly := true } } n (by simp) rfl rfl
  · rw [cow_step_base _ (.hReadAt c.hs.length n 0) c.hs.length c.s.b.handles.length rfl (by simp)]
    exact hReadAt_zero _ _ { obj := bf, h := { readOnly := true } } n (by simp) rfl

/-- through an open read-only handle `Write`, `WriteAt` and `Truncate` are refused and change
    neither an object nor the path map -/
theorem ro_handle_refuses (m : MemFs) (hi : Nat) (mh : MHandle) (hh : m.handles[hi]? = some mh)
    (hro : mh.h.readOnly = true) (hc : mh.h.closed = false) :
    (∀ b, RO.tree (m.hWrite hi b).1 = RO.tree m ∧ (m.hWrite hi b).2 = .file (.n 0 (some .rohandle))) ∧
    (∀ b off, RO.tree (m.hWriteAt hi b off).1 = RO.tree m ∧
      (m.hWriteAt hi b off).2 = .file (.n 0 (some (if off < 0 then .inval else .rohandle)))) ∧
    (∀ sz, RO.tree (m.hTruncate hi sz).1 = RO.tree m ∧ (m.hTruncate hi sz).2 = .file (.err .rohandle)) := by
  have hobj : (m.obj mh.obj).withIO (m.obj mh.obj).data false m.now = m.obj mh.obj := by
    simp [FData.withIO]
  have hw : ∀ (h : Handle) (b : Bytes), h.readOnly = true → h.closed = false →
      writeC (m.obj mh.obj).data h b = ((m.obj mh.obj).data, h, .n 0 (some .rohandle)) := by
    intro h b h1 h2
    unfold writeC
    simp [h1, h2]
  refine ⟨fun b => ?_, fun b off => ?_, fun sz => ?_⟩
  · unfold MemFs.hWrite MemFs.fileIO
    simp only [hh, hw mh.h b hro hc, FOut.success, Bool.and_false, hobj, RO.setObj_same]
    exact ⟨rfl, trivial⟩
  · unfold MemFs.hWriteAt MemFs.fileIO
    simp only [hh]
    by_cases ho : off < 0
    · have : writeAtC (m.obj mh.obj).data mh.h b off = ((m.obj mh.obj).data, mh.h, .n 0 (some .inval)) := by
        unfold writeAtC; simp [ho]
      simp only [this, FOut.success, Bool.and_false, hobj, RO.setObj_same, ho, if_true]
      exact ⟨rfl, trivial⟩
    · have : writeAtC (m.obj mh.obj).data mh.h b off = ((m.obj mh.obj).data, mh.h, .n 0 (some .rohandle)) := by
        unfold writeAtC
        simp only [ho, if_false]
        rw [hw { mh.h with pos := off } b hro hc]
      simp only [this, FOut.success, Bool.and_false, hobj, RO.setObj_same, ho, if_false]
      exact ⟨rfl, trivial⟩
  · unfold MemFs.hTruncate MemFs.fileIO
    simp only [hh]
    have : truncC (m.obj mh.obj).data mh.h sz = ((m.obj mh.obj).data, .err .rohandle) := by
      unfold truncC; simp [hro, hc]
    simp only [this, FOut.success, Bool.and_false, hobj, RO.setObj_same]
    exact ⟨rfl, trivial⟩

/-- both layers hold the same objects (names, kinds, bytes, modes, times, directory indexes) and
    the same path maps in `c'` as in `c` -/
def SameTrees (c c' : Cow) : Prop := RO.tree c'.s.l = RO.tree c.s.l ∧ RO.tree c'.s.b = RO.tree c.s.b

/-- **C06: the handle `Open` returns for a regular file of the view is read-only.** Whether the
    file is the overlay's or the base's, `Write`, `WriteAt` and `Truncate` through the handle that
    `Open` returned are refused, and afterwards both layers hold exactly the objects and path maps
    they held before the `Open`. -/
theorem cow_open_readonly (c : Cow) (p : Str)
    (hview : (∃ lf, c.s.l.lookup (keyOfStr p) = some lf ∧ (c.s.l.obj lf).dir = false) ∨
      (c.s.l.lookup (keyOfStr p) = none ∧ ∃ bf, c.s.b.lookup (keyOfStr p) = some bf ∧ (c.s.b.obj bf).dir = false)) :
    (c.step (.open_ p)).2 = .handle c.hs.length none ∧
    (∀ b, SameTrees c ((c.step (.open_ p)).1.step (.hWrite c.hs.length b)).1 ∧
      ((c.step (.open_ p)).1.step (.hWrite c.hs.length b)).2 = .file (.n 0 (some .rohandle))) ∧
    (∀ b off, SameTrees c ((c.step (.open_ p)).1.step (.hWriteAt c.hs.length b off)).1 ∧
      ((c.step (.open_ p)).1.step (.hWriteAt c.hs.length b off)).2 =
        .file (.n 0 (some (if off < 0 then .inval else .rohandle)))) ∧
    (∀ sz, SameTrees c ((c.step (.open_ p)).1.step (.hTrunc c.hs.length sz)).1 ∧
      ((c.step (.open_ p)).1.step (.hTrunc c.hs.length sz)).2 = .file (.err .rohandle)) := by
  rcases hview with ⟨lf, hl, hfile⟩ | ⟨hl, bf, hb, _⟩
  · rw [cow_open_overlay_file c p lf hl hfile]
    obtain ⟨r1, r2, r3⟩ := ro_handle_refuses
      { c.s.l with handles := c.s.l.handles ++ [{ obj := lf, h := { readOnly := true } }] }
      c.s.l.handles.length { obj := lf, h := { readOnly := true } } (by simp) rfl rfl
    refine ⟨rfl, fun b => ?_, fun b off => ?_, fun sz => ?_⟩
    · rw [cow_step_layer _ (.hWrite c.hs.length b) c.hs.length c.s.l.handles.length rfl (by simp)]
      exact ⟨⟨(r1 b).1, rfl⟩, (r1 b).2⟩
    · rw [cow_step_layer _ (.hWriteAt c.hs.length b off) c.hs.length c.s.l.handles.length rfl (by simp)]
      exact ⟨⟨(r2 b off).1, rfl⟩, (r2 b off).2⟩
    · rw [cow_step_layer _ (.hTrunc c.hs.length sz) c.hs.length c.s.l.handles.length rfl (by simp)]
      exact ⟨⟨(r3 sz).1, rfl⟩, (r3 sz).2⟩
  · rw [cow_open_base_file c p bf hl hb]
    obtain ⟨r1, r2, r3⟩ := ro_handle_refuses
      { c.s.b with handles := c.s.b.handles ++ [{ obj := bf, h := { readOnly := true } }] }
      c.s.b.handles.length { obj := bf, h := { readOnly := true } } (by simp) rfl rfl
    refine ⟨rfl, fun b => ?_, fun b off => ?_, fun sz => ?_⟩
    · rw [cow_step_base _ (.hWrite c.hs.length b) c.hs.length c.s.b.handles.length rfl (by simp)]
      exact ⟨⟨rfl, (r1 b).1⟩, (r1 b).2⟩
    · rw [cow_step_base _ (.hWriteAt c.hs.length b off) c.hs.length c.s.b.handles.length rfl (by simp)]
      exact ⟨⟨rfl, (r2 b off).1⟩, (r2 b off).2⟩
    · rw [cow_step_base _ (.hTrunc c.hs.length sz) c.hs.length c.s.b.handles.length rfl (by simp)]
      exact ⟨⟨rfl, (r3 sz).1⟩, (r3 sz).2⟩

/-! ### C06: a write through the union is read back -/

theorem list_set_same {α : Type} (l : List α) (i : Nat) (a : α) (h : l[i]? = some a) : l.set i a = l := by
  obtain ⟨hlt, he⟩ := List.getElem?_eq_some_iff.mp h
  subst he
  exact List.set_getElem_self hlt

theorem writeAtC_handle (d : Bytes) (h : Handle) (b : Bytes) (off : Int) : (writeAtC d h b off).2.1 = h := by
  unfold writeAtC; split <;> rfl

/-- a positional write moves no handle and leaves every object's kind alone -/
theorem hWriteAt_frame (m : MemFs) (hi : Nat) (b : Bytes) (off : Int) :
    (m.hWriteAt hi b off).1.handles = m.handles ∧ ∀ j, ((m.hWriteAt hi b off).1.obj j).dir = (m.obj j).dir := by
  unfold MemFs.hWriteAt MemFs.fileIO
  cases hh : m.handles[hi]? with
  | none => exact ⟨rfl, fun _ => rfl⟩
  | some mh =>
    simp only
    constructor
    · show m.handles.set hi { mh with h := (writeAtC (m.obj mh.obj).data mh.h b off).2.1 } = m.handles
      rw [writeAtC_handle]
      exact list_set_same _ _ _ hh
    · intro j
      show ((m.setObj mh.obj _).obj j).dir = _
      by_cases hj : j = mh.obj
      · subst hj
        by_cases hlt : mh.obj < m.objs.length
        · rw [obj_setObj_self _ _ _ hlt]; rfl
        · have : m.setObj mh.obj ((m.obj mh.obj).withIO (writeAtC (m.obj mh.obj).data mh.h b off).1
              (true && (writeAtC (m.obj mh.obj).data mh.h b off).2.2.success) m.now) = m := by
            unfold MemFs.setObj
            rw [List.set_eq_of_length_le (by omega)]
          rw [this]
      · rw [obj_setObj_ne _ _ _ _ hj]

/-- the engine of the read-back theorems: a positional write through any open, writable overlay
    handle of the union whose object is the one the name leads to; the read-back through the same
    handle and through a handle opened afterwards -/
theorem layer_handle_write_read (c2 : Cow) (p : Str) (h idx : Nat) (mh : MHandle) (b : Bytes) (off : Nat)
    (hh : c2.hs[h]? = some (.layer idx)) (hm : c2.s.l.handles[idx]? = some mh)
    (hc : mh.h.closed = false) (hr : mh.h.readOnly = false) (hb : b ≠ [])
    (hlf : mh.obj < c2.s.l.objs.length) (hl : c2.s.l.lookup (keyOfStr p) = some mh.obj) :
    ∃ c3, c2.step (.hWriteAt h b off) = (c3, .file (.n b.length none)) ∧
      c3.s.b = c2.s.b ∧ c3.hs = c2.hs ∧
      c3.s.l.lookup (keyOfStr p) = some mh.obj ∧
      (c3.s.l.obj mh.obj).data = writeS (c2.s.l.obj mh.obj).data off b ∧
      (c3.step (.hReadAt h b.length off)).2 = .file (.bytes b none) ∧
      (((c2.s.l.obj mh.obj).dir = false ∨
          ∃ bo, c2.s.b.lookup (keyOfStr p) = some bo ∧ (c2.s.b.obj bo).dir = false) →
        (c3.step (.open_ p)).2 = .handle c2.hs.length none ∧
        ((c3.step (.open_ p)).1.step (.hReadAt c2.hs.length b.length off)).2 = .file (.bytes b none)) := by
  rw [cow_step_layer _ (.hWriteAt h b off) h idx rfl hh]
  obtain ⟨w1, w2, w3⟩ := hWriteAt_data c2.s.l idx mh b off hm hc hr hb hlf
  obtain ⟨w4, w5⟩ := hWriteAt_frame c2.s.l idx b off
  simp only [Cow.reindex, MemFs.step]
  generalize (MemFs.hWriteAt c2.s.l idx b off) = R at w1 w2 w3 w4 w5
  obtain ⟨L2, r⟩ := R
  simp only at w1 w2 w3 w4 w5
  subst w3
  have hl2 : L2.lookup (keyOfStr p) = some mh.obj := by rw [w2]; exact hl
  have hrd : ∀ (L : MemFs) (hi : Nat) (mh' : MHandle), L.handles[hi]? = some mh' → mh'.h.closed = false →
      (L.obj mh'.obj).data = writeS (c2.s.l.obj mh.obj).data off b →
      (L.hReadAt hi b.length (off : Int)).2 = .file (.bytes b none) := by
    intro L hi mh' h1 h2 h3
    rw [hReadAt_spec L hi mh' b.length off h1 h2, h3, readS_writeS]
    have hlen := writeS_length (c2.s.l.obj mh.obj).data off b
    have c1' : ¬ (off > (writeS (c2.s.l.obj mh.obj).data off b).length) := by rw [hlen]; omega
    simp only [c1', if_false, Nat.lt_irrefl]
  refine ⟨{ c2 with s := { c2.s with l := L2 } }, rfl, rfl, rfl, hl2, w1, ?_, ?_⟩
  · rw [cow_step_layer { c2 with s := { c2.s with l := L2 } } (.hReadAt h b.length off) h idx rfl hh]
    exact hrd L2 idx mh (by rw [w4]; exact hm) hc w1
  · intro hreg
    have hreg' : (L2.obj mh.obj).dir = false ∨
        ∃ bo, c2.s.b.lookup (keyOfStr p) = some bo ∧ (c2.s.b.obj bo).dir = false := by
      rcases hreg with h | h
      · left; rw [w5 mh.obj]; exact h
      · right; exact h
    rw [cow_open_layer_handle _ p mh.obj hl2 hreg']
    refine ⟨rfl, ?_⟩
    rw [cow_step_layer _ (.hReadAt c2.hs.length b.length off) c2.hs.length L2.handles.length rfl (by simp)]
    exact hrd _ _ { obj := mh.obj, h := { readOnly := true } } (by simp) rfl w1

/-- `OpenFile` in the overlay with write access on an existing object, then the engine above -/
theorem layerOpenFile_write_read (c1 : Cow) (p : Str) (flag perm lf : Nat) (b : Bytes) (off : Nat)
    (hl : c1.s.l.lookup (keyOfStr p) = some lf) (hlf : lf < c1.s.l.objs.length)
    (hx : flag &&& O_EXCL = 0) (ht : flag &&& O_TRUNC = 0)
    (hacc : flag &&& (O_WRONLY ||| O_RDWR) ≠ 0) (hb : b ≠ []) :
    ∃ c2 c3, c1.layerOpenFile (keyOfStr p) flag perm = (c2, .handle c1.hs.length none) ∧
      c2.step (.hWriteAt c1.hs.length b off) = (c3, .file (.n b.length none)) ∧
      c3.s.b = c1.s.b ∧
      c3.s.l.lookup (keyOfStr p) = some lf ∧
      (c3.s.l.obj lf).data = writeS (c1.s.l.obj lf).data off b ∧
      (c3.step (.hReadAt c1.hs.length b.length off)).2 = .file (.bytes b none) ∧
      (((c1.s.l.obj lf).dir = false ∨
          ∃ bo, c1.s.b.lookup (keyOfStr p) = some bo ∧ (c1.s.b.obj bo).dir = false) →
        (c3.step (.open_ p)).2 = .handle (c1.hs.length + 1) none ∧
        ((c3.step (.open_ p)).1.step (.hReadAt (c1.hs.length + 1) b.length off)).2 = .file (.bytes b none)) := by
  have hnt : ¬ (flag &&& O_TRUNC > 0 ∧ flag &&& (O_RDWR ||| O_WRONLY) > 0) := by
    intro hh; rw [ht] at hh; exact absurd hh.1 (Nat.lt_irrefl 0)
  have hro : decide (flag &&& (O_WRONLY ||| O_RDWR) = 0) = false := by simp [hacc]
  have hof := openFile_existing c1.s.l (keyOfStr p) flag perm lf hl hx hnt
  rw [hro] at hof
  generalize (if flag &&& O_APPEND > 0 then ((c1.s.l.obj lf).data.length : Int) else 0) = pos0 at hof
  have hlo : c1.layerOpenFile (keyOfStr p) flag perm =
      ({ s := { c1.s with l := { c1.s.l with handles := c1.s.l.handles ++ [MHandle.mk lf (Handle.mk pos0 false false) 0] } },
         hs := c1.hs ++ [.layer c1.s.l.handles.length] }, .handle c1.hs.length none) := by
    unfold Cow.layerOpenFile
    rw [hof]
    rfl
  obtain ⟨c3, e1, e2, e3, e4, e5, e6, e7⟩ := layer_handle_write_read
    { s := { c1.s with l := { c1.s.l with handles := c1.s.l.handles ++ [MHandle.mk lf (Handle.mk pos0 false false) 0] } },
      hs := c1.hs ++ [.layer c1.s.l.handles.length] }
    p c1.hs.length c1.s.l.handles.length (MHandle.mk lf (Handle.mk pos0 false false) 0) b off
    (by simp) (by simp) rfl rfl hb hlf hl
  refine ⟨_, c3, hlo, e1, e2, e4, e5, e6, ?_⟩
  intro hreg
  have := e7 hreg
  simpa using this

/-- opening a base-only regular file for writing: copy-up, then `OpenFile` in the overlay -/
theorem cow_openFile_base_only (c : Cow) (name : Str) (flag perm bo : Nat)
    (hbase : c.isBaseFile (keyOfStr name) = true) (hbo : c.s.b.lookup (keyOfStr name) = some bo)
    (hfile : (c.s.b.obj bo).dir = false) (hr : InRange c.s.l) (hw : flag &&& cowWriteMask ≠ 0) :
    ∃ (c1 : Cow) (lf : Nat), c.step (.openFile name flag perm) = c1.layerOpenFile (keyOfStr name) flag perm ∧
      c1.s.b = c.s.b ∧ c1.hs = c.hs ∧ c1.s.l.lookup (keyOfStr name) = some lf ∧ lf < c1.s.l.objs.length ∧
      (c1.s.l.obj lf).data = (c.s.b.obj bo).data := by
  obtain ⟨u1, u2, u3, u4, lf, u5, u6, _⟩ := copyUpIfBase_content c name bo hbase hbo hfile hr
  generalize hU : c.copyUpIfBase name = U at u1 u2 u3 u4 u5 u6
  obtain ⟨c1, e1⟩ := U
  simp only at u1 u2 u3 u4 u5 u6
  subst u1
  refine ⟨c1, lf, ?_, u2, u3, u5, u4 _ _ u5, u6⟩
  show c.openFile name flag perm = _
  unfold Cow.openFile
  simp only [hw, ne_eq, not_false_eq_true, if_true, hbase, hU]

/-- **C06: a write through the union is read back** (the copy-up case). A regular file that
    lives only in the base is opened through the union with write access (any flags without
    O_TRUNC and O_EXCL; O_RDWR is one); `b` is written at offset `off` through the returned handle;
    reading `b.length` bytes at `off` through the same handle returns exactly `b`, without error. -/
theorem cow_write_read_back (c : Cow) (name : Str) (flag perm bo : Nat) (b : Bytes) (off : Nat)
    (hbase : c.isBaseFile (keyOfStr name) = true) (hbo : c.s.b.lookup (keyOfStr name) = some bo)
    (hfile : (c.s.b.obj bo).dir = false) (hr : InRange c.s.l)
    (hw : flag &&& cowWriteMask ≠ 0) (hx : flag &&& O_EXCL = 0) (ht : flag &&& O_TRUNC = 0)
    (hacc : flag &&& (O_WRONLY ||| O_RDWR) ≠ 0) (hb : b ≠ []) :
    (c.step (.openFile name flag perm)).2 = .handle c.hs.length none ∧
    ((c.step (.openFile name flag perm)).1.step (.hWriteAt c.hs.length b off)).2 = .file (.n b.length none) ∧
    (((c.step (.openFile name flag perm)).1.step (.hWriteAt c.hs.length b off)).1.step
      (.hReadAt c.hs.length b.length off)).2 = .file (.bytes b none) := by
  obtain ⟨c1, lf, e, v1, v2, v3, v4, _⟩ := cow_openFile_base_only c name flag perm bo hbase hbo hfile hr hw
  obtain ⟨c2, c3, f1, f2, _, _, _, f6, _⟩ := layerOpenFile_write_read c1 name flag perm lf b off v3 v4 hx ht hacc hb
  rw [v2] at f1 f2 f6
  rw [e, f1]
  refine ⟨rfl, ?_, ?_⟩
  · show (c2.step _).2 = _
    rw [f2]
  · show ((c2.step _).1.step _).2 = _
    rw [f2]; exact f6

/-- **C06: … and by every later reader** (the copy-up case). After the write of
    `cow_write_read_back`, a second handle obtained with `Open` of the same name reads `b` at `off`;
    the overlay holds the base's bytes with exactly that range replaced, the base is unchanged. -/
theorem cow_write_visible_to_later_open (c : Cow) (name : Str) (flag perm bo : Nat) (b : Bytes) (off : Nat)
    (hbase : c.isBaseFile (keyOfStr name) = true) (hbo : c.s.b.lookup (keyOfStr name) = some bo)
    (hfile : (c.s.b.obj bo).dir = false) (hr : InRange c.s.l)
    (hw : flag &&& cowWriteMask ≠ 0) (hx : flag &&& O_EXCL = 0) (ht : flag &&& O_TRUNC = 0)
    (hacc : flag &&& (O_WRONLY ||| O_RDWR) ≠ 0) (hb : b ≠ []) :
    ((((c.step (.openFile name flag perm)).1.step (.hWriteAt c.hs.length b off)).1).step (.open_ name)).2 =
      .handle (c.hs.length + 1) none ∧
    (((((c.step (.openFile name flag perm)).1.step (.hWriteAt c.hs.length b off)).1).step (.open_ name)).1.step
      (.hReadAt (c.hs.length + 1) b.length off)).2 = .file (.bytes b none) ∧
    ∃ lf, ((c.step (.openFile name flag perm)).1.step (.hWriteAt c.hs.length b off)).1.s.l.lookup (keyOfStr name) = some lf ∧
      (((c.step (.openFile name flag perm)).1.step (.hWriteAt c.hs.length b off)).1.s.l.obj lf).data =
        writeS (c.s.b.obj bo).data off b ∧
      ((c.step (.openFile name flag perm)).1.step (.hWriteAt c.hs.length b off)).1.s.b = c.s.b := by
  obtain ⟨c1, lf, e, v1, v2, v3, v4, v5⟩ := cow_openFile_base_only c name flag perm bo hbase hbo hfile hr hw
  obtain ⟨c2, c3, f1, f2, f3, f4, f5, _, f7⟩ := layerOpenFile_write_read c1 name flag perm lf b off v3 v4 hx ht hacc hb
  have g := f7 (Or.inr ⟨bo, by rw [v1]; exact hbo, by rw [v1]; exact hfile⟩)
  rw [v2] at f1 f2 g
  rw [e, f1]
  show ((c2.step _).1.step _).2 = _ ∧ (((c2.step _).1.step _).1.step _).2 = _ ∧
    ∃ lf, (c2.step _).1.s.l.lookup _ = some lf ∧ ((c2.step _).1.s.l.obj lf).data = _ ∧ (c2.step _).1.s.b = _
  rw [f2]
  refine ⟨g.1, g.2, lf, f4, ?_, by rw [f3, v1]⟩
  rw [f5, v5]

/-- opening a regular file of the overlay for writing is `OpenFile` in the overlay (the file's
    directory exists in the overlay, as it does in every state the filesystem reaches) -/
theorem cow_openFile_overlay (c : Cow) (name : Str) (flag perm lf ld : Nat)
    (hl : c.s.l.lookup (keyOfStr name) = some lf)
    (hld : c.s.l.lookup (keyOfStr (Path.dir name)) = some ld) (hdir : (c.s.l.obj ld).dir = true)
    (hw : flag &&& cowWriteMask ≠ 0) :
    c.step (.openFile name flag perm) = c.layerOpenFile (keyOfStr name) flag perm := by
  show c.openFile name flag perm = _
  have hnb : c.isBaseFile (keyOfStr name) = false := by unfold Cow.isBaseFile; simp [hl]
  have hmk : c.s.l.mkdirAll (keyOfStr (Path.dir name)) 0o777 = (c.s.l, .ok) := by
    unfold MemFs.mkdirAll MemFs.mkdir; simp [hld]
  have hfd : fsIsDir c.s.l (keyOfStr (Path.dir name)) = (true, none) := by
    unfold fsIsDir; simp [hld, hdir]
  unfold Cow.openFile
  simp only [hw, ne_eq, not_false_eq_true, if_true, hnb, hmk, hfd, Bool.false_eq_true, if_false]
  split <;> rfl

/-- **C06: a write through the union is read back** (the file is the overlay's already). A
    regular file of the overlay is opened through the union with write access (no O_TRUNC, no
    O_EXCL), `b` is written at `off`; reading `b.length` bytes at `off` through the same handle
    returns `b`; so does a second handle obtained afterwards with `Open`; the overlay's file holds
    its former bytes with exactly that range replaced, and the base is unchanged. -/
theorem cow_write_read_back_overlay (c : Cow) (name : Str) (flag perm lf ld : Nat) (b : Bytes) (off : Nat)
    (hl : c.s.l.lookup (keyOfStr name) = some lf) (hfile : (c.s.l.obj lf).dir = false)
    (hld : c.s.l.lookup (keyOfStr (Path.dir name)) = some ld) (hdir : (c.s.l.obj ld).dir = true)
    (hr : InRange c.s.l)
    (hw : flag &&& cowWriteMask ≠ 0) (hx : flag &&& O_EXCL = 0) (ht : flag &&& O_TRUNC = 0)
    (hacc : flag &&& (O_WRONLY ||| O_RDWR) ≠ 0) (hb : b ≠ []) :
    (c.step (.openFile name flag perm)).2 = .handle c.hs.length none ∧
    ((c.step (.openFile name flag perm)).1.step (.hWriteAt c.hs.length b off)).2 = .file (.n b.length none) ∧
    (((c.step (.openFile name flag perm)).1.step (.hWriteAt c.hs.length b off)).1.step
      (.hReadAt c.hs.length b.length off)).2 = .file (.bytes b none) ∧
    ((((c.step (.openFile name flag perm)).1.step (.hWriteAt c.hs.length b off)).1).step (.open_ name)).2 =
      .handle (c.hs.length + 1) none ∧
    (((((c.step (.openFile name flag perm)).1.step (.hWriteAt c.hs.length b off)).1).step (.open_ name)).1.step
      (.hReadAt (c.hs.length + 1) b.length off)).2 = .file (.bytes b none) ∧
    ((c.step (.openFile name flag perm)).1.step (.hWriteAt c.hs.length b off)).1.s.l.lookup (keyOfStr name) = some lf ∧
    (((c.step (.openFile name flag perm)).1.step (.hWriteAt c.hs.length b off)).1.s.l.obj lf).data =
      writeS (c.s.l.obj lf).data off b ∧
    ((c.step (.openFile name flag perm)).1.step (.hWriteAt c.hs.length b off)).1.s.b = c.s.b := by
  obtain ⟨c2, c3, f1, f2, f3, f4, f5, f6, f7⟩ :=
    layerOpenFile_write_read c name flag perm lf b off hl (hr _ _ hl) hx ht hacc hb
  have g := f7 (Or.inl hfile)
  rw [cow_openFile_overlay c name flag perm lf ld hl hld hdir hw, f1]
  show _ ∧ (c2.step _).2 = _ ∧ ((c2.step _).1.step _).2 = _ ∧ ((c2.step _).1.step _).2 = _ ∧
    (((c2.step _).1.step _).1.step _).2 = _ ∧ (c2.step _).1.s.l.lookup _ = _ ∧
    ((c2.step _).1.s.l.obj lf).data = _ ∧ (c2.step _).1.s.b = _
  rw [f2]
  exact ⟨rfl, rfl, f6, g.1, g.2, f4, f5, f3⟩

/-! ### C10: reads through the cache -/

open Cache in
/-- a call through a handle is dispatched by the handle table, as in the copy-on-write filesystem -/
theorem cache_step_handle (dur : Int) (c : Cow) (op : Op) (h : Nat) (hop : op.handle? = some h) :
    Cache.step dur c op = c.step op := by
  cases op <;> simp [Op.handle?] at hop <;> rfl

/-- `OpenFile(O_RDONLY)` of an existing name in the in-memory filesystem: a fresh read-only handle
    at offset 0, nothing else changes -/
theorem openFile_rdonly_existing (m : MemFs) (k : Key) (perm f : Nat) (hl : m.lookup k = some f) :
    m.openFile k 0 perm =
      ({ m with handles := m.handles ++ [{ obj := f, h := { readOnly := true } }] }, .handle m.handles.length none) := by
  rw [openFile_existing m k 0 perm f hl (by decide) (by decide)]
  rfl

theorem copyUpFlags_rdonly (c : Cow) (p : Str) (perm bf : Nat) (hb : c.s.b.lookup (keyOfStr p) = some bf) :
    ∃ B2, RO.tree B2 = RO.tree c.s.b ∧
      Cache.copyUpFlags c p 0 perm =
        ({ c with s := { b := B2, l := (copyFile c.s.b c.s.l p bf).1 } }, (copyFile c.s.b c.s.l p bf).2) := by
  have hflag : (0 ^^^ (0 &&& O_APPEND)) = 0 := by decide
  unfold Cache.copyUpFlags
  simp only [hflag]
  rw [openFile_rdonly_existing _ _ _ _ hb]
  simp only
  have hg : (c.s.b.handles ++ [({ obj := bf, h := { readOnly := true } } : MHandle)]).getD c.s.b.handles.length default =
      { obj := bf, h := { readOnly := true } } := by
    simp [List.getD_eq_getElem?_getD]
  rw [hg]
  refine ⟨_, ?_, rfl⟩
  unfold MemFs.hClose
  simp [RO.tree]

/-- **C10, the OpenFile path.** `OpenFile(name, O_RDONLY, perm)` through the caching filesystem,
    for a regular base file whose status is miss or stale: the call succeeds; afterwards the cache
    layer holds under that name an object with exactly the base's bytes and the base's modification
    time; the returned handle is a fresh read-only overlay handle at offset 0 on that object (the
    same kind of handle `Open` returns), and reading `n` bytes through it returns the first `n`
    bytes of the base's file.  The one difference from `Open` (`C10.miss_or_stale_serves_base`):
    the copy is made by `copyFileToLayer`, which opens the base with the caller's flags and closes
    it again — so the base keeps its objects and its path map (`RO.tree`), but its handle table has
    grown by one closed read-only handle (`s.b = c.s.b` does not hold). -/
theorem openFile_rdonly_miss_or_stale_serves_base (c : Cow) (dur : Int) (p : Str) (bf perm : Nat)
    (hst : Cache.cacheStatus c dur (keyOfStr p) = .miss ∨ Cache.cacheStatus c dur (keyOfStr p) = .stale)
    (hb : c.s.b.lookup (keyOfStr p) = some bf) (hfile : (c.s.b.obj bf).dir = false) (hr : InRange c.s.l) :
    ∃ lf i, (Cache.step dur c (.openFile p 0 perm)).2 = .handle c.hs.length none ∧
      RO.tree (Cache.step dur c (.openFile p 0 perm)).1.s.b = RO.tree c.s.b ∧
      (Cache.step dur c (.openFile p 0 perm)).1.hs = c.hs ++ [.layer i] ∧
      (Cache.step dur c (.openFile p 0 perm)).1.s.l.handles[i]? = some { obj := lf, h := { readOnly := true } } ∧
      (Cache.step dur c (.openFile p 0 perm)).1.s.l.lookup (keyOfStr p) = some lf ∧
      ((Cache.step dur c (.openFile p 0 perm)).1.s.l.obj lf).data = (c.s.b.obj bf).data ∧
      ((Cache.step dur c (.openFile p 0 perm)).1.s.l.obj lf).mtime = (c.s.b.obj bf).mtime ∧
      ∀ n, (Cache.step dur (Cache.step dur c (.openFile p 0 perm)).1 (.hRead c.hs.length n)).2 =
        .file (.bytes ((c.s.b.obj bf).data.take n)
          (if 0 < n ∧ (c.s.b.obj bf).data = [] then some .eof else none)) := by
  obtain ⟨h1, lf, h2, h3, h4, _⟩ := copyFile_content c.s.b c.s.l p bf hr hfile
  obtain ⟨B2, hB2, hcu⟩ := copyUpFlags_rdonly c p perm bf hb
  have hpre : ¬ (Cache.cacheStatus c dur (keyOfStr p) = .local_ ∨ Cache.cacheStatus c dur (keyOfStr p) = .hit) := by
    rcases hst with h | h <;> rw [h] <;> simp
  have hm : ¬ ((0 : Nat) &&& cowWriteMask ≠ 0) := by decide
  have e : Cache.step dur c (.openFile p 0 perm) =
      ({ s := { b := B2, l := { (copyFile c.s.b c.s.l p bf).1 with
            handles := (copyFile c.s.b c.s.l p bf).1.handles ++ [{ obj := lf, h := { readOnly := true } }] } },
         hs := c.hs ++ [.layer (copyFile c.s.b c.s.l p bf).1.handles.length] }, .handle c.hs.length none) := by
    show Cache.openFile c dur p 0 perm = _
    unfold Cache.openFile
    simp only [hpre, if_false, hcu, h1, hm]
    unfold Cow.layerOpenFile
    simp only [openFile_rdonly_existing _ _ perm lf h2]
    rfl
  rw [e]
  refine ⟨lf, (copyFile c.s.b c.s.l p bf).1.handles.length, rfl, hB2, rfl, by simp, h2, h3, h4, fun n => ?_⟩
  rw [cache_step_handle dur _ (.hRead c.hs.length n) c.hs.length rfl,
    cow_step_layer _ (.hRead c.hs.length n) c.hs.length (copyFile c.s.b c.s.l p bf).1.handles.length rfl (by simp)]
  have := hRead_fresh
    { (copyFile c.s.b c.s.l p bf).1 with
      handles := (copyFile c.s.b c.s.l p bf).1.handles ++ [{ obj := lf, h := { readOnly := true } }] }
    (copyFile c.s.b c.s.l p bf).1.handles.length { obj := lf, h := { readOnly := true } } n (by simp) rfl rfl
  rw [← h3]
  exact this

/-- **C10: a hit reads the cache.** When the status of a regular cached file is hit, `Open`
    answers a fresh handle, touches neither the base nor the cache layer's objects and path map, and
    `Read` of `n` bytes through that handle returns the first `n` bytes of the *cache layer's*
    copy — the base's bytes do not occur in the answer at all. -/
theorem hit_reads_cache (c : Cow) (dur : Int) (p : Str) (lf n : Nat)
    (hst : Cache.cacheStatus c dur (keyOfStr p) = .hit) (hl : c.s.l.lookup (keyOfStr p) = some lf)
    (hfile : (c.s.l.obj lf).dir = false) :
    (Cache.step dur c (.open_ p)).2 = .handle c.hs.length none ∧
    (Cache.step dur c (.open_ p)).1.s.b = c.s.b ∧
    RO.tree (Cache.step dur c (.open_ p)).1.s.l = RO.tree c.s.l ∧
    (Cache.step dur (Cache.step dur c (.open_ p)).1 (.hRead c.hs.length n)).2 =
      .file (.bytes ((c.s.l.obj lf).data.take n)
        (if 0 < n ∧ (c.s.l.obj lf).data = [] then some .eof else none)) := by
  have e : Cache.step dur c (.open_ p) =
      ({ s := { c.s with l := { c.s.l with handles := c.s.l.handles ++ [{ obj := lf, h := { readOnly := true } }] } },
         hs := c.hs ++ [.layer c.s.l.handles.length] }, .handle c.hs.length none) := by
    show Cache.open_ c dur p = _
    rw [C10.hit_serves_cache c dur p lf hst hl hfile]
    unfold Cache.layerOpen MemFs.openRO
    simp only [hl]
    rfl
  rw [e]
  refine ⟨rfl, rfl, rfl, ?_⟩
  rw [cache_step_handle dur _ (.hRead c.hs.length n) c.hs.length rfl,
    cow_step_layer _ (.hRead c.hs.length n) c.hs.length c.s.l.handles.length rfl (by simp)]
  exact hRead_fresh _ _ { obj := lf, h := { readOnly := true } } n (by simp) rfl rfl

/-- with cache duration zero, whatever has been done to the base meanwhile (any base state `b'`):
    the cached bytes are what is read -/
theorem dur0_reads_cache_whatever_base (c : Cow) (p : Str) (lf n : Nat) (b' : MemFs)
    (hl : c.s.l.lookup (keyOfStr p) = some lf) (hfile : (c.s.l.obj lf).dir = false) :
    (Cache.step 0 (Cache.step 0 (Cache.setB c b') (.open_ p)).1 (.hRead c.hs.length n)).2 =
      .file (.bytes ((c.s.l.obj lf).data.take n)
        (if 0 < n ∧ (c.s.l.obj lf).data = [] then some .eof else none)) :=
  (hit_reads_cache (Cache.setB c b') 0 p lf n (C10.dur0_hit (Cache.setB c b') _ lf hl) hl hfile).2.2.2

/-! ### non-vacuity: the hypotheses of every theorem above hold in concrete states, and the
    conclusions are the values the models compute there -/

/-- `C06.cowF` (base /f = "hello", empty overlay) after /f was opened read-write through the
    union and patched: the overlay now holds /f = "hXYlo" -/
def cowL : Cow := ((C06.cowF.step (.openFile "/f".toList O_RDWR 0)).1.step (.hWriteAt 0 [88, 89] 1)).1

/-- hypotheses of `cow_open_reads_overlay` and of `cow_open_readonly` (first alternative) -/
example : cowL.s.l.lookup (keyOfStr "/f".toList) = some 1 ∧ (cowL.s.l.obj 1).dir = false ∧
    (cowL.s.l.obj 1).data = [104, 88, 89, 108, 111] ∧ cowL.hs.length = 1 := by decide
example : (cowL.step (.open_ "/f".toList)).2 = .handle 1 none ∧
    ((cowL.step (.open_ "/f".toList)).1.step (.hRead 1 3)).2 = .file (.bytes [104, 88, 89] none) ∧
    ((cowL.step (.open_ "/f".toList)).1.step (.hReadAt 1 9 0)).2 =
      .file (.bytes [104, 88, 89, 108, 111] (some .eof)) ∧
    ((cowL.step (.open_ "/f".toList)).1.step (.hWrite 1 [7])).2 = .file (.n 0 (some .rohandle)) := by decide

/-- hypotheses of `cow_open_reads_base` and of `cow_open_readonly` (second alternative) -/
example : C06.cowF.s.l.lookup (keyOfStr "/f".toList) = none ∧ C06.cowF.s.b.lookup (keyOfStr "/f".toList) = some 1 ∧
    (C06.cowF.s.b.obj 1).dir = false := by decide
example : (C06.cowF.step (.open_ "/f".toList)).2 = .handle 0 none ∧
    ((C06.cowF.step (.open_ "/f".toList)).1.step (.hRead 0 3)).2 = .file (.bytes [104, 101, 108] none) ∧
    ((C06.cowF.step (.open_ "/f".toList)).1.step (.hTrunc 0 0)).2 = .file (.err .rohandle) := by decide

/-- hypotheses of `cow_write_read_back` / `cow_write_visible_to_later_open` (flag O_RDWR, bytes "XY" at 1) -/
example : C06.cowF.isBaseFile (keyOfStr "/f".toList) = true ∧ C06.cowF.s.b.lookup (keyOfStr "/f".toList) = some 1 ∧
    (C06.cowF.s.b.obj 1).dir = false ∧ O_RDWR &&& cowWriteMask ≠ 0 ∧ O_RDWR &&& O_EXCL = 0 ∧
    O_RDWR &&& O_TRUNC = 0 ∧ O_RDWR &&& (O_WRONLY ||| O_RDWR) ≠ 0 ∧ ([88, 89] : Bytes) ≠ [] := by decide
example : InRange C06.cowF.s.l := inRange_init
example : (cowL.step (.hReadAt 0 2 1)).2 = .file (.bytes [88, 89] none) ∧
    ((cowL.step (.open_ "/f".toList)).1.step (.hReadAt 1 2 1)).2 = .file (.bytes [88, 89] none) ∧
    (cowL.s.b.obj 1).data = [104, 101, 108, 108, 111] := by decide

/-- hypotheses of `cow_write_read_back_overlay`, in `cowL` (whose overlay holds /f and its directory) -/
example : cowL.s.l.lookup (keyOfStr "/f".toList) = some 1 ∧ (cowL.s.l.obj 1).dir = false ∧
    cowL.s.l.lookup (keyOfStr (Path.dir "/f".toList)) = some 0 ∧ (cowL.s.l.obj 0).dir = true := by decide
example : InRange cowL.s.l := valsOK_inRange (by unfold ValsOK; decide)
example : let c3 := ((cowL.step (.openFile "/f".toList O_RDWR 0)).1.step (.hWriteAt 1 [90] 7)).1
    (c3.step (.hReadAt 1 1 7)).2 = .file (.bytes [90] none) ∧
    ((c3.step (.open_ "/f".toList)).1.step (.hReadAt 2 8 0)).2 =
      .file (.bytes [104, 88, 89, 108, 111, 0, 0, 90] none) := by decide

/-- hypotheses of `openFile_rdonly_miss_or_stale_serves_base`: `C10.c0` (base /f = 1 2 3, mtime -9000) -/
example : Cache.cacheStatus C10.c0 3600 (keyOfStr "/f".toList) = .miss ∧
    C10.c0.s.b.lookup (keyOfStr "/f".toList) = some 1 ∧ (C10.c0.s.b.obj 1).dir = false := by decide
example : InRange C10.c0.s.l := inRange_init
example : let r := Cache.step 3600 C10.c0 (.openFile "/f".toList 0 0)
    r.2 = .handle 0 none ∧ r.1.s.l.lookup (keyOfStr "/f".toList) = some 1 ∧
    (r.1.s.l.obj 1).data = [1, 2, 3] ∧ (r.1.s.l.obj 1).mtime = -9000 ∧
    (Cache.step 3600 r.1 (.hRead 0 8)).2 = .file (.bytes [1, 2, 3] none) ∧
    r.1.s.b.handles.length = 1 ∧ C10.c0.s.b.handles.length = 0 := by decide
/-- … and the stale case: the cached copy has expired and the base is newer -/
example : let c1 := (Cache.step 3600 C10.c0 (.open_ "/f".toList)).1
    let c2 := Cache.setB c1 ((c1.s.b.step (.create "/f".toList)).1.step (.hWrite 0 [9, 9])).1
    Cache.cacheStatus c2 3600 (keyOfStr "/f".toList) = .stale ∧
    c2.s.b.lookup (keyOfStr "/f".toList) = some 1 ∧ (c2.s.b.obj 1).dir = false ∧
    (Cache.step 3600 (Cache.step 3600 c2 (.openFile "/f".toList 0 0)).1 (.hRead 1 8)).2 = .file (.bytes [9, 9] none) := by
  decide

/-- hypotheses of `hit_reads_cache`: after the first read the file is cached; the base then gets
    other bytes (same mtime class: not newer), the read still returns the cached ones -/
example : let c1 := (Cache.step 3600 C10.c0 (.open_ "/f".toList)).1
    let c2 := Cache.setB c1 (c1.s.b.setObj 1 { c1.s.b.obj 1 with data := [7, 7, 7, 7] })
    Cache.cacheStatus c2 3600 (keyOfStr "/f".toList) = .hit ∧
    c2.s.l.lookup (keyOfStr "/f".toList) = some 1 ∧ (c2.s.l.obj 1).dir = false ∧
    (c2.s.b.obj 1).data = [7, 7, 7, 7] ∧
    (Cache.step 3600 (Cache.step 3600 c2 (.open_ "/f".toList)).1 (.hRead 1 8)).2 = .file (.bytes [1, 2, 3] none) := by
  decide

end AferoVerif
