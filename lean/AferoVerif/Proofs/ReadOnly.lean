/-
  Lemmas shared by C05 and C07: through read-only handles, and through opens that request no
  write access, the MemMapFs model's objects and path map never change.
-/
import AferoVerif.Model.ReadOnlyFs
namespace AferoVerif.RO
open AferoVerif

/-- what "the wrapped filesystem" is: every object (name, kind, bytes, mode, mtime, owner,
    directory index) and the path map.  Handle cursors are not part of it. -/
def tree (m : MemFs) : List FData × List (Key × Nat) := (m.objs, m.data)

/-- every handle ever returned through the wrapper is a read-only handle -/
def AllRO (m : MemFs) : Prop := ∀ mh ∈ m.handles, mh.h.readOnly = true

/-! ### the mask -/

theorem and_zero_of_submask (a m m' : Nat) (h : a &&& m = 0) (hs : m' &&& m = m') : a &&& m' = 0 := by
  rw [← hs, ← Nat.and_assoc, Nat.and_comm a m', Nat.and_assoc, h]; simp

theorem mask_facts (flag : Nat) (h : flag &&& roWriteMask = 0) :
    flag &&& (O_WRONLY ||| O_RDWR) = 0 ∧ flag &&& O_APPEND = 0 ∧ flag &&& O_CREATE = 0 ∧
    flag &&& O_TRUNC = 0 :=
  ⟨and_zero_of_submask _ _ _ h (by decide), and_zero_of_submask _ _ _ h (by decide),
   and_zero_of_submask _ _ _ h (by decide), and_zero_of_submask _ _ _ h (by decide)⟩

/-! ### helper facts about the source model -/

theorem setObj_same (m : MemFs) (i : Nat) : m.setObj i (m.obj i) = m := by
  unfold MemFs.setObj MemFs.obj
  by_cases h : i < m.objs.length
  · have : m.objs.set i (m.objs.getD i default) = m.objs := by
      rw [List.getD_eq_getElem?_getD, List.getElem?_eq_getElem h]; exact List.set_getElem_self h
    rw [this]
  · have : m.objs.set i (m.objs.getD i default) = m.objs := by
      have hle : m.objs.length ≤ i := Nat.le_of_not_lt h
      exact List.set_eq_of_length_le hle
    rw [this]

theorem allRO_append (m : MemFs) (f : Nat) (h : AllRO m) :
    AllRO { m with handles := m.handles ++ [{ obj := f, h := { readOnly := true } }] } := by
  intro mh hmh
  simp only [List.mem_append, List.mem_singleton] at hmh
  rcases hmh with h1 | h1
  · exact h mh h1
  · subst h1; rfl

theorem allRO_set (m : MemFs) (i : Nat) (mh : MHandle) (h : AllRO m) (hr : mh.h.readOnly = true) (objs data now) :
    AllRO { objs := objs, data := data, handles := m.handles.set i mh, now := now } := by
  intro x hx
  rcases List.mem_or_eq_of_mem_set hx with h1 | h1
  · exact h x h1
  · subst h1; exact hr

/-- an OpenFile that the wrapper lets through: no write access is requested, so the source
    returns a read-only handle at offset 0 and touches nothing -/
theorem openFile_nowrite (m : MemFs) (k : Key) (flag perm : Nat) (hf : flag &&& roWriteMask = 0) :
    (m.openFile k flag perm = (m, .err .exist) ∨ m.openFile k flag perm = (m, .err .notexist) ∨
     ∃ f, m.openFile k flag perm =
       ({ m with handles := m.handles ++ [{ obj := f, h := { readOnly := true } }] }, .handle m.handles.length none)) := by
  obtain ⟨h3, ha, hc, ht⟩ := mask_facts flag hf
  unfold MemFs.openFile
  by_cases hx : (m.lookup k).isSome ∧ flag &&& O_EXCL > 0
  · left; simp [hx]
  · simp only [hx, if_false]
    cases hk : m.lookup k with
    | none =>
      right; left
      have : ¬ flag &&& O_CREATE > 0 := by omega
      simp [this]
    | some f =>
      right; right
      refine ⟨f, ?_⟩
      have h1 : ¬ flag &&& O_APPEND > 0 := by omega
      have h2 : ¬ (flag &&& O_TRUNC > 0 ∧ flag &&& (O_RDWR ||| O_WRONLY) > 0) := by omega
      have h3' : flag &&& (O_WRONLY ||| O_RDWR) = 0 := h3
      simp [h1, h2, h3']

/-- a handle function that cannot change anything through a read-only handle -/
def ROInert (f : Bytes → Handle → Bytes × Handle × FOut) (touch : Bool) : Prop :=
  ∀ d h, h.readOnly = true →
    (f d h).1 = d ∧ (f d h).2.1.readOnly = true ∧ (touch = false ∨ FOut.success (f d h).2.2 = false)

theorem fileIO_ro (m : MemFs) (hi : Nat) (f) (touch : Bool) (hf : ROInert f touch) (hro : AllRO m) :
    tree (m.fileIO hi f touch).1 = tree m ∧ AllRO (m.fileIO hi f touch).1 := by
  unfold MemFs.fileIO
  cases hh : m.handles[hi]? with
  | none => exact ⟨rfl, hro⟩
  | some mh =>
    have hmro : mh.h.readOnly = true := hro mh (List.mem_of_getElem? hh)
    obtain ⟨h1, h2, h3⟩ := hf (m.obj mh.obj).data mh.h hmro
    simp only
    have hch : (touch && (f (m.obj mh.obj).data mh.h).2.2.success) = false := by
      rcases h3 with h3 | h3
      · simp [h3]
      · simp [h3]
    rw [hch, h1]
    have hobj : (m.obj mh.obj).withIO (m.obj mh.obj).data false m.now = m.obj mh.obj := by
      simp [FData.withIO]
    rw [hobj, setObj_same]
    refine ⟨rfl, ?_⟩
    exact allRO_set m hi _ hro h2 _ _ _

theorem readC_ro (d : Bytes) (h : Handle) (len : Nat) : (readC d h len).1.readOnly = h.readOnly := by
  unfold readC; repeat' split
  all_goals first
    | rfl
    | (simp only; split <;> rfl)

theorem seekC_ro (d : Bytes) (h : Handle) (off : Int) (wh : Nat) : (seekC d h off wh).1.readOnly = h.readOnly := by
  unfold seekC
  repeat' split
  all_goals rfl

theorem writeC_ro (d : Bytes) (h : Handle) (b : Bytes) (hr : h.readOnly = true) :
    (writeC d h b).1 = d ∧ (writeC d h b).2.1 = h ∧ FOut.success (writeC d h b).2.2 = false := by
  unfold writeC
  by_cases hc : h.closed = true
  · simp [hc, FOut.success]
  · simp [hc, hr, FOut.success]

/-- one call through the wrapper: the source's tree is unchanged and every handle stays read-only -/
theorem ro_step_frozen (m : MemFs) (op : Op) (hro : AllRO m) :
    tree (roStep m op).1 = tree m ∧ AllRO (roStep m op).1 := by
  cases op with
  | create p => exact ⟨rfl, hro⟩
  | mkdir p perm => exact ⟨rfl, hro⟩
  | mkdirAll p perm => exact ⟨rfl, hro⟩
  | remove p => exact ⟨rfl, hro⟩
  | removeAll p => exact ⟨rfl, hro⟩
  | rename a b => exact ⟨rfl, hro⟩
  | chmod p mode => exact ⟨rfl, hro⟩
  | chown p u g => exact ⟨rfl, hro⟩
  | chtimes p t => exact ⟨rfl, hro⟩
  | stat p => exact ⟨rfl, hro⟩
  | hName h => exact ⟨rfl, hro⟩
  | hStat h => exact ⟨rfl, hro⟩
  | hSync h => exact ⟨rfl, hro⟩
  | open_ p =>
    simp only [roStep, MemFs.step, MemFs.openRO]
    cases hk : m.lookup (keyOfStr p) with
    | none => exact ⟨rfl, hro⟩
    | some f => exact ⟨rfl, allRO_append m f hro⟩
  | openFile p flag perm =>
    simp only [roStep]
    by_cases hf : flag &&& roWriteMask ≠ 0
    · rw [if_pos hf]; exact ⟨rfl, hro⟩
    · rw [if_neg hf]; simp only [MemFs.step]
      have hf' : flag &&& roWriteMask = 0 := by simpa using hf
      rcases openFile_nowrite m (keyOfStr p) flag perm hf' with h | h | ⟨f, h⟩
      · rw [h]; exact ⟨rfl, hro⟩
      · rw [h]; exact ⟨rfl, hro⟩
      · rw [h]; exact ⟨rfl, allRO_append m f hro⟩
  | hRead h n =>
    simp only [roStep, MemFs.step, MemFs.hRead]
    apply fileIO_ro _ _ _ _ _ hro
    intro d hd hr
    exact ⟨rfl, by simp only; rw [readC_ro]; exact hr, Or.inl rfl⟩
  | hReadAt h n off =>
    simp only [roStep, MemFs.step, MemFs.hReadAt]
    apply fileIO_ro _ _ _ _ _ hro
    intro d hd hr
    refine ⟨rfl, ?_, Or.inl rfl⟩
    simp only; unfold readAtC; repeat' split
    all_goals exact hr
  | hWrite h b =>
    simp only [roStep, MemFs.step, MemFs.hWrite]
    apply fileIO_ro _ _ _ _ _ hro
    intro d hd hr
    obtain ⟨h1, h2, h3⟩ := writeC_ro d hd b hr
    exact ⟨h1, by rw [h2]; exact hr, Or.inr h3⟩
  | hWriteAt h b off =>
    simp only [roStep, MemFs.step, MemFs.hWriteAt]
    apply fileIO_ro _ _ _ _ _ hro
    intro d hd hr
    unfold writeAtC
    by_cases ho : off < 0
    · simp [ho, hr, FOut.success]
    · simp only [ho, if_false]
      obtain ⟨h1, _, h3⟩ := writeC_ro d { hd with pos := off } b hr
      exact ⟨h1, hr, Or.inr h3⟩
  | hTrunc h n =>
    simp only [roStep, MemFs.step, MemFs.hTruncate]
    apply fileIO_ro _ _ _ _ _ hro
    intro d hd hr
    unfold truncC
    by_cases hc : hd.closed = true
    · simp [hc, hr, FOut.success]
    · simp [hc, hr, FOut.success]
  | hSeek h off wh =>
    simp only [roStep, MemFs.step, MemFs.hSeek]
    apply fileIO_ro _ _ _ _ _ hro
    intro d hd hr
    exact ⟨rfl, by simp only; rw [seekC_ro]; exact hr, Or.inl rfl⟩
  | hClose h =>
    simp only [roStep, MemFs.step, MemFs.hClose]
    cases hh : m.handles[h]? with
    | none => exact ⟨rfl, hro⟩
    | some mh =>
      have hmro : mh.h.readOnly = true := hro mh (List.mem_of_getElem? hh)
      simp only [hmro, if_true]
      exact ⟨rfl, allRO_set m h _ hro (by rfl) _ _ _⟩
  | hReaddir h n =>
    simp only [roStep, MemFs.step, MemFs.readdir]
    cases hh : m.handles[h]? with
    | none => exact ⟨rfl, hro⟩
    | some mh =>
      have hmro : mh.h.readOnly = true := hro mh (List.mem_of_getElem? hh)
      simp only
      split
      · exact ⟨rfl, hro⟩
      · exact ⟨rfl, allRO_set m h _ hro (by simpa using hmro) _ _ _⟩
  | hReaddirnames h n =>
    simp only [roStep, MemFs.step, MemFs.readdir]
    cases hh : m.handles[h]? with
    | none => exact ⟨rfl, hro⟩
    | some mh =>
      have hmro : mh.h.readOnly = true := hro mh (List.mem_of_getElem? hh)
      simp only
      split
      · exact ⟨rfl, hro⟩
      · exact ⟨rfl, allRO_set m h _ hro (by simpa using hmro) _ _ _⟩


/-- any handle method on any handle of a filesystem all of whose handles are read-only -/
theorem handle_step_frozen (m : MemFs) (op : Op) (hop : op.handle?.isSome) (hro : AllRO m) :
    tree (m.step op).1 = tree m ∧ AllRO (m.step op).1 := by
  have h := ro_step_frozen m op hro
  have e : roStep m op = m.step op := by
    cases op <;> simp [Op.handle?] at hop <;> rfl
  rw [e] at h; exact h

theorem openRO_frozen (m : MemFs) (k : Key) (hro : AllRO m) :
    tree (m.openRO k).1 = tree m ∧ AllRO (m.openRO k).1 := by
  unfold MemFs.openRO
  cases hk : m.lookup k with
  | none => exact ⟨rfl, hro⟩
  | some f => exact ⟨rfl, allRO_append m f hro⟩

theorem openFile_nowrite_frozen (m : MemFs) (k : Key) (flag perm : Nat) (hf : flag &&& roWriteMask = 0)
    (hro : AllRO m) : tree (m.openFile k flag perm).1 = tree m ∧ AllRO (m.openFile k flag perm).1 := by
  rcases openFile_nowrite m k flag perm hf with h | h | ⟨f, h⟩
  · rw [h]; exact ⟨rfl, hro⟩
  · rw [h]; exact ⟨rfl, hro⟩
  · rw [h]; exact ⟨rfl, allRO_append m f hro⟩

/-- no handle handed out yet -/
theorem allRO_init (m : MemFs) (h : m.handles = []) : AllRO m := by
  intro mh hmh; rw [h] at hmh; simp at hmh

end AferoVerif.RO
