/-
  Frame lemmas for `registerWithParent`, `create`, `mkdirAll`, `chtimes`, and the content lemma of
  `copyFile`: a successful copy-up leaves, under the name, an object holding exactly the base
  file's bytes and modification time.
-/
import AferoVerif.Proofs.MemFsInv
import AferoVerif.Model.Union
namespace AferoVerif
namespace MemFs

/-- `m'` extends `m`: every object of `m` keeps its bytes, times, name and mode (directory indexes
    may grow, a missing index may be initialised), every name of `m` still leads to the same
    object, the clock and the handle table are untouched -/
structure Ext (m m' : MemFs) : Prop where
  len : m.objs.length ≤ m'.objs.length
  objs : ∀ j, j < m.objs.length → (m'.obj j).data = (m.obj j).data ∧ (m'.obj j).mtime = (m.obj j).mtime ∧
    (m'.obj j).name = (m.obj j).name ∧ (m'.obj j).mode = (m.obj j).mode
  look : ∀ k f, m.lookup k = some f → m'.lookup k = some f
  now : m'.now = m.now
  handles : m'.handles = m.handles

theorem Ext.refl (m : MemFs) : Ext m m := ⟨Nat.le_refl _, fun _ _ => ⟨rfl, rfl, rfl, rfl⟩, fun _ _ h => h, rfl, rfl⟩

theorem Ext.trans {a b c : MemFs} (h1 : Ext a b) (h2 : Ext b c) : Ext a c := by
  refine ⟨Nat.le_trans h1.len h2.len, ?_, fun k f h => h2.look k f (h1.look k f h), by rw [h2.now, h1.now], by rw [h2.handles, h1.handles]⟩
  intro j hj
  have a1 := h1.objs j hj
  have a2 := h2.objs j (Nat.lt_of_lt_of_le hj h1.len)
  exact ⟨a2.1.trans a1.1, a2.2.1.trans a1.2.1, a2.2.2.1.trans a1.2.2.1, a2.2.2.2.trans a1.2.2.2⟩

/-- rewriting only the directory index / directory flag of one object -/
theorem ext_setObj_index (m : MemFs) (p : Nat) (d : FData)
    (h : d.data = (m.obj p).data ∧ d.mtime = (m.obj p).mtime ∧ d.name = (m.obj p).name ∧ d.mode = (m.obj p).mode) :
    Ext m (m.setObj p d) := by
  refine ⟨by rw [length_setObj]; exact Nat.le_refl _, ?_, fun _ _ h => h, rfl, rfl⟩
  intro j hj
  by_cases hjp : j = p
  · subst hjp; rw [obj_setObj_self _ _ _ hj]; exact h
  · rw [obj_setObj_ne _ _ _ _ hjp]; exact ⟨rfl, rfl, rfl, rfl⟩

/-- allocating an object and entering it under a name that was free -/
theorem ext_alloc_insert (m : MemFs) (d : FData) (k : Key) (hfree : m.lookup k = none) :
    Ext m { (m.alloc d).1 with data := alInsert (m.alloc d).1.data k (m.alloc d).2 } := by
  refine ⟨by simp [alloc], ?_, ?_, rfl, rfl⟩
  · intro j hj
    have : ({ (m.alloc d).1 with data := alInsert (m.alloc d).1.data k (m.alloc d).2 } : MemFs).obj j = m.obj j := by
      have := obj_alloc_old m d j hj
      unfold obj at *
      simpa [alloc] using this
    rw [this]; exact ⟨rfl, rfl, rfl, rfl⟩
  · intro k' f hl
    have hne : k' ≠ k := by intro e; rw [e, hfree] at hl; cases hl
    show alLookup (alInsert m.data k _) k' = some f
    rw [alLookup_insert_ne _ _ _ _ hne]; exact hl

theorem reg_ext (fuel : Nat) : ∀ (m : MemFs) (f perm : Nat), Ext m (registerWithParent fuel m f perm) := by
  induction fuel with
  | zero => intro m f perm; exact Ext.refl m
  | succ n ih =>
    intro m f perm
    unfold registerWithParent
    simp only
    cases hl : m.lookup (parentKey (m.obj f).name) with
    | some p =>
      simp only
      apply ext_setObj_index
      split <;> exact ⟨rfl, rfl, rfl, rfl⟩
    | none =>
      simp only
      have e1 := ext_alloc_insert m { (m.newDir (parentKey (m.obj f).name)) with mode := modeDir ||| perm } _ hl
      have e2 := ih { (m.alloc { (m.newDir (parentKey (m.obj f).name)) with mode := modeDir ||| perm }).1 with
        data := alInsert (m.alloc { (m.newDir (parentKey (m.obj f).name)) with mode := modeDir ||| perm }).1.data (parentKey (m.obj f).name)
          (m.alloc { (m.newDir (parentKey (m.obj f).name)) with mode := modeDir ||| perm }).2 }
        (m.alloc { (m.newDir (parentKey (m.obj f).name)) with mode := modeDir ||| perm }).2 perm
      have e3 := Ext.trans e1 e2
      split
      · exact e3
      · apply Ext.trans e3
        apply ext_setObj_index
        split <;> exact ⟨rfl, rfl, rfl, rfl⟩

end MemFs
end AferoVerif

namespace AferoVerif
namespace MemFs

/-- every name leads to an allocated object -/
def InRange (m : MemFs) : Prop := ∀ k f, m.lookup k = some f → f < m.objs.length

theorem inRange_init : InRange MemFs.init := by
  intro k f h
  simp [lookup, init, alLookup_cons, alLookup_nil] at h
  rw [← h.2]; simp [init]

theorem inRange_setObj (m : MemFs) (hr : InRange m) (i : Nat) (d : FData) : InRange (m.setObj i d) := by
  intro k f h; rw [length_setObj]; exact hr k f h

theorem inRange_alloc_insert (m : MemFs) (hr : InRange m) (d : FData) (k : Key) :
    InRange { (m.alloc d).1 with data := alInsert (m.alloc d).1.data k (m.alloc d).2 } := by
  intro k' f h
  have h' : alLookup (alInsert m.data k m.objs.length) k' = some f := h
  show f < (m.objs ++ [d]).length
  rw [List.length_append]
  by_cases hk : k' = k
  · subst hk; rw [alLookup_insert_self] at h'; injection h' with h'; subst h'; simp
  · rw [alLookup_insert_ne _ _ _ _ hk] at h'; have := hr k' f h'; simp; omega

theorem reg_inRange (fuel : Nat) : ∀ (m : MemFs) (f perm : Nat), InRange m → InRange (registerWithParent fuel m f perm) := by
  induction fuel with
  | zero => intro m f perm h; exact h
  | succ n ih =>
    intro m f perm hr
    unfold registerWithParent
    simp only
    cases hl : m.lookup (parentKey (m.obj f).name) with
    | some p => simp only; exact inRange_setObj _ hr _ _
    | none =>
      simp only
      have e2 := ih _ (m.alloc { (m.newDir (parentKey (m.obj f).name)) with mode := modeDir ||| perm }).2 perm
        (inRange_alloc_insert m hr { (m.newDir (parentKey (m.obj f).name)) with mode := modeDir ||| perm } (parentKey (m.obj f).name))
      split
      · exact e2
      · exact inRange_setObj _ e2 _ _

/-- `Create`: afterwards the name leads to the returned object, which is an empty regular-file
    body stamped now -/
theorem create_spec (m : MemFs) (k : Key) (hr : InRange m) :
    (m.create k).1.lookup k = some (m.create k).2 ∧ (m.create k).2 < (m.create k).1.objs.length ∧
    InRange (m.create k).1 ∧ ((m.create k).1.obj (m.create k).2).data = [] ∧ (m.create k).1.now = m.now := by
  have fresh : ∀ (m2 : MemFs), m2 = { (m.alloc (m.newFile k)).1 with data := alInsert (m.alloc (m.newFile k)).1.data k (m.alloc (m.newFile k)).2 } →
      (registerWithParent (m2.regFuel m.objs.length) m2 m.objs.length 0).lookup k = some m.objs.length ∧
      m.objs.length < (registerWithParent (m2.regFuel m.objs.length) m2 m.objs.length 0).objs.length ∧
      InRange (registerWithParent (m2.regFuel m.objs.length) m2 m.objs.length 0) ∧
      ((registerWithParent (m2.regFuel m.objs.length) m2 m.objs.length 0).obj m.objs.length).data = [] ∧
      (registerWithParent (m2.regFuel m.objs.length) m2 m.objs.length 0).now = m.now := by
    intro m2 hm2
    have hl : m2.lookup k = some m.objs.length := by
      rw [hm2]; show alLookup (alInsert m.data k m.objs.length) k = some _
      exact alLookup_insert_self _ _ _
    have hlen : m.objs.length < m2.objs.length := by rw [hm2]; simp [alloc]
    have hobj : m2.obj m.objs.length = m.newFile k := by
      rw [hm2]; have := obj_alloc_new m (m.newFile k); unfold obj at *; simpa [alloc] using this
    have ex := reg_ext (m2.regFuel m.objs.length) m2 m.objs.length 0
    have hir : InRange m2 := by rw [hm2]; exact inRange_alloc_insert m hr _ _
    refine ⟨ex.look _ _ hl, Nat.lt_of_lt_of_le hlen ex.len, reg_inRange _ _ _ _ hir, ?_, ?_⟩
    · rw [(ex.objs _ hlen).1, hobj]; rfl
    · rw [ex.now, hm2]; rfl
  unfold create
  cases hl : m.lookup k with
  | none => simp only; exact fresh _ rfl
  | some f =>
    simp only
    split
    · exact fresh _ rfl
    · have hf := hr k f hl
      refine ⟨hl, by rw [length_setObj]; exact hf, inRange_setObj _ hr _ _, ?_, rfl⟩
      rw [obj_setObj_self _ _ _ hf]

end MemFs
end AferoVerif

namespace AferoVerif
open MemFs

theorem inRange_mkdirAll (m : MemFs) (k : Key) (perm : Nat) (hr : InRange m) : InRange (m.mkdirAll k perm).1 := by
  have hmk : InRange (m.mkdir k perm).1 := by
    unfold mkdir
    simp only
    cases hl : m.lookup k with
    | some f => exact hr
    | none =>
      simp only
      have h3 := reg_inRange
        (MemFs.regFuel { (m.alloc { (m.newDir k) with mode := modeDir ||| (perm &&& chmodBits) }).1 with
          data := alInsert (m.alloc { (m.newDir k) with mode := modeDir ||| (perm &&& chmodBits) }).1.data k (m.alloc { (m.newDir k) with mode := modeDir ||| (perm &&& chmodBits) }).2 }
          (m.alloc { (m.newDir k) with mode := modeDir ||| (perm &&& chmodBits) }).2)
        _ (m.alloc { (m.newDir k) with mode := modeDir ||| (perm &&& chmodBits) }).2 (perm &&& chmodBits)
        (inRange_alloc_insert m hr { (m.newDir k) with mode := modeDir ||| (perm &&& chmodBits) } k)
      unfold setFileMode
      split <;> rename_i heq <;> (split at heq) <;> simp only [Prod.mk.injEq] at heq <;> obtain ⟨rfl, _⟩ := heq
      all_goals first
        | exact h3
        | exact inRange_setObj _ h3 _ _
  unfold mkdirAll
  split
  · rename_i m' heq; rw [heq] at hmk; exact hmk
  · exact hmk

/-- **copy-up preserves content**: a successful `copyFile` of a regular base file leaves, under
    the name, a layer object with exactly the base file's bytes and its modification time; and
    the copy of a regular file always succeeds (the size check passes) -/
theorem copyFile_content (base layer : MemFs) (name : Str) (bo : Nat) (hr : InRange layer)
    (hfile : (base.obj bo).dir = false) :
    (copyFile base layer name bo).2 = none ∧
    ∃ lf, (copyFile base layer name bo).1.lookup (keyOfStr name) = some lf ∧
      ((copyFile base layer name bo).1.obj lf).data = (base.obj bo).data ∧
      ((copyFile base layer name bo).1.obj lf).mtime = (base.obj bo).mtime ∧
      InRange (copyFile base layer name bo).1 := by
  unfold copyFile copyFileFrom
  simp only [hfile, Bool.false_eq_true, if_false, List.drop_zero, ne_eq, not_true_eq_false, Bool.not_false,
    Bool.true_and, gt_iff_lt, Nat.not_lt_zero, decide_false]
  generalize hL0 : (if fsExists layer (keyOfStr (Path.dir name)) = true then layer else (layer.mkdirAll (keyOfStr (Path.dir name)) 0o777).1) = L0
  have hr0 : InRange L0 := by
    rw [← hL0]; split
    · exact hr
    · exact inRange_mkdirAll _ _ _ hr
  obtain ⟨c1, c2, c3, _, _⟩ := create_spec L0 (keyOfStr name) hr0
  generalize hC : L0.create (keyOfStr name) = C at c1 c2 c3
  obtain ⟨L1, lf⟩ := C
  simp only at c1 c2 c3 ⊢
  refine ⟨trivial, lf, ?_⟩
  simp only [chtimes, lookup_setObj, c1]
  have hlf2 : lf < ((L1.setObj lf ((L1.obj lf).withIO (base.obj bo).data (decide ¬(base.obj bo).data = []) L1.now)).setObj lf
      { (L1.setObj lf ((L1.obj lf).withIO (base.obj bo).data (decide ¬(base.obj bo).data = []) L1.now)).obj lf with
        mtime := (L1.setObj lf ((L1.obj lf).withIO (base.obj bo).data (decide ¬(base.obj bo).data = []) L1.now)).now }).objs.length := by
    rw [length_setObj, length_setObj]; exact c2
  refine ⟨trivial, ?_, ?_, ?_⟩
  · rw [obj_setObj_self _ _ _ hlf2]
    simp only
    rw [obj_setObj_self _ _ _ (by rw [length_setObj]; exact c2)]
    simp only
    rw [obj_setObj_self _ _ _ c2]
    rfl
  · rw [obj_setObj_self _ _ _ hlf2]
  · exact inRange_setObj _ (inRange_setObj _ (inRange_setObj _ c3 _ _) _ _) _ _

end AferoVerif
