/-
  Helper lemmas for property C19: what `Fs.MkdirAll`'s backward scan over the path string
  (`scanI`, `scanJ` in Model/Sftp.lean) computes, in terms of the cleaned name the server sees.

  `path = A ++ e ++ '/'^t` with `e` the last element (free of separators), `A` empty or ending in
  a separator; the parent string handed to the recursive call is `A` without its last separator,
  and the server-side name of `path` is the parent's name with `e` applied as one step of
  `Clean`'s stack machine (same, popped, or pushed).
-/
import AferoVerif.Model.Sftp
import AferoVerif.Proofs.Path
namespace AferoVerif.Sftp
open AferoVerif AferoVerif.Path

theorem all_takeWhile {α : Type} (p : α → Bool) (l : List α) : ∀ x ∈ l.takeWhile p, p x = true := by
  induction l with
  | nil => simp
  | cons a as ih =>
    intro x hx
    by_cases ha : p a = true
    · rw [List.takeWhile_cons_of_pos ha] at hx
      rcases List.mem_cons.mp hx with h1 | h1
      · rw [h1]; exact ha
      · exact ih x h1
    · rw [List.takeWhile_cons_of_neg ha] at hx; simp at hx

theorem dropWhile_head {α : Type} (p : α → Bool) (l : List α) :
    l.dropWhile p = [] ∨ ∃ a rest, l.dropWhile p = a :: rest ∧ p a = false := by
  induction l with
  | nil => left; rfl
  | cons a as ih =>
    by_cases ha : p a = true
    · rw [List.dropWhile_cons_of_pos ha]; exact ih
    · rw [List.dropWhile_cons_of_neg ha]
      right; exact ⟨a, as, rfl, by simpa using ha⟩

/-- the shape of a path string as `MkdirAll` scans it -/
theorem scan_decomp (path : Str) :
    ∃ (A e : Str) (t : Nat), path = A ++ e ++ List.replicate t sep ∧ sep ∉ e ∧
      (A = [] ∨ ∃ A', A = A' ++ [sep]) ∧ (e = [] → A = []) ∧
      scanI path = A.length + e.length ∧ scanJ path = A.length := by
  -- work on the reversed string
  let pS : Char → Bool := fun c => decide (c = sep)
  let pN : Char → Bool := fun c => decide (c ≠ sep)
  let R := path.reverse
  let T' := R.takeWhile pS
  let R1 := R.dropWhile pS
  let E' := R1.takeWhile pN
  let R2 := R1.dropWhile pN
  have hR : T' ++ R1 = R := List.takeWhile_append_dropWhile
  have hR1 : E' ++ R2 = R1 := List.takeWhile_append_dropWhile
  have hpath : path = R2.reverse ++ E'.reverse ++ T'.reverse := by
    have : path = R.reverse := by simp [R]
    rw [this, ← hR, ← hR1]; simp
  have hT : T'.reverse = List.replicate T'.length sep := by
    rw [List.eq_replicate_iff]
    refine ⟨by simp, ?_⟩
    intro b hb
    have := all_takeWhile pS R b (by simpa using hb)
    simpa [pS] using this
  have hE : sep ∉ E'.reverse := by
    intro h
    have := all_takeWhile pN R1 sep (by simpa using h)
    simp [pN] at this
  have hA : R2.reverse = [] ∨ ∃ A', R2.reverse = A' ++ [sep] := by
    rcases dropWhile_head pN R1 with h | ⟨a, rest, h, ha⟩
    · left; show (R1.dropWhile pN).reverse = []; rw [h]; rfl
    · right
      have : a = sep := by simpa [pN] using ha
      refine ⟨rest.reverse, ?_⟩
      show (R1.dropWhile pN).reverse = _
      rw [h, this]; simp
  have hEA : E'.reverse = [] → R2.reverse = [] := by
    intro h0
    have hE0 : E' = [] := by simpa using h0
    have h12 : R2 = R1 := by rw [← hR1, hE0]; rfl
    rcases dropWhile_head pS R with h | ⟨a, rest, h, ha⟩
    · have : R1 = [] := h
      rw [h12, this]; rfl
    · -- R1 starts with a non-separator, R2 (= R1) with a separator
      exfalso
      have h1 : R1 = a :: rest := h
      have han : a ≠ sep := by simpa [pS] using ha
      rcases dropWhile_head pN R1 with h' | ⟨a', rest', h', ha'⟩
      · have : R2 = [] := h'
        rw [h12, h1] at this; simp at this
      · have h2 : R2 = a' :: rest' := h'
        have : a' = sep := by simpa [pN] using ha'
        rw [h12, h1] at h2
        have : a = a' := by simpa using (List.cons.inj h2).1
        exact han (by rw [this]; assumption)
  have hi : scanI path = R2.reverse.length + E'.reverse.length := by
    have h1 : scanI path = path.length - T'.length := rfl
    rw [h1]
    have : path.length = R2.length + E'.length + T'.length := by
      have := congrArg List.length hpath; simp at this; omega
    simp; omega
  have htake : path.take (scanI path) = R1.reverse := by
    rw [hi]
    have : path = R1.reverse ++ T'.reverse := by
      have : path = R.reverse := by simp [R]
      rw [this, ← hR]; simp
    have hl : R1.reverse.length = R2.reverse.length + E'.reverse.length := by
      have := congrArg List.length hR1; simp at this ⊢; omega
    conv => lhs; rw [this]
    exact List.take_left' hl
  have hj : scanJ path = R2.reverse.length := by
    have h1 : scanJ path = scanI path - ((path.take (scanI path)).reverse.takeWhile pN).length := rfl
    rw [h1, htake, List.reverse_reverse]
    show scanI path - E'.length = _
    rw [hi]; simp
  exact ⟨R2.reverse, E'.reverse, T'.length, by rw [← hT]; exact hpath, hE, hA, hEA, hi, hj⟩

theorem split_replicate_sep (t : Nat) : split (List.replicate t sep) = List.replicate (t + 1) [] := by
  induction t with
  | zero => rfl
  | succ t ih => rw [List.replicate_succ, split_sep_cons, ih]; rfl

theorem split_elem_seps (e : Str) (t : Nat) (he : sep ∉ e) :
    split (e ++ List.replicate t sep) = e :: List.replicate t [] := by
  cases t with
  | zero => simpa using split_no_sep_eq e he
  | succ t =>
    rw [List.replicate_succ, split_append_sep, split_no_sep_eq e he, split_replicate_sep]
    rfl

theorem foldl_cleanStep_empties (r : Bool) (stk : List Seg) (t : Nat) :
    (List.replicate t ([] : Seg)).foldl (cleanStep r) stk = stk := by
  induction t with
  | zero => rfl
  | succ t ih =>
    rw [List.replicate_succ, List.foldl_cons]
    have : cleanStep r stk [] = stk := by simp [cleanStep]
    rw [this]; exact ih

theorem keyOf_nil : keyOf [] = [] := by decide

/-- the cleaned name of `path` is the cleaned name of the parent string with the last element
    applied as one step of Clean's stack machine -/
theorem key_scan (path : Str) :
    ∃ (P : Str) (e : Seg), sep ∉ e ∧
      (scanJ path > 1 → P = path.take (scanJ path - 1) ∧ P.length < path.length) ∧
      (scanJ path ≤ 1 → P = []) ∧
      (keyOf path).reverse = cleanStep true (keyOf P).reverse e := by
  obtain ⟨A, e, t, hp, he, hA, _, _, hj⟩ := scan_decomp path
  rcases hA with hA0 | ⟨A', hA'⟩
  · -- no separator before the last element
    refine ⟨[], e, he, ?_, fun _ => rfl, ?_⟩
    · intro h; rw [hj, hA0] at h; simp at h
    · rw [keyOf_nil]
      unfold keyOf cleanSegs
      rw [List.reverse_reverse, hp, hA0, List.nil_append, split_elem_seps e t he, List.foldl_cons,
        foldl_cleanStep_empties]
      rfl
  · refine ⟨A', e, he, ?_, ?_, ?_⟩
    · intro _
      have hlen : A.length = A'.length + 1 := by rw [hA']; simp
      constructor
      · rw [hj, hlen, hp, hA']
        simp
      · rw [hp, hA']; simp
    · intro h
      have hlen : A.length = A'.length + 1 := by rw [hA']; simp
      rw [hj, hlen] at h
      exact List.eq_nil_of_length_eq_zero (by omega)
    · unfold keyOf cleanSegs
      rw [List.reverse_reverse, List.reverse_reverse, hp, hA']
      have : A' ++ [sep] ++ e ++ List.replicate t sep = A' ++ sep :: (e ++ List.replicate t sep) := by simp
      rw [this, split_append_sep, split_elem_seps e t he, List.foldl_append, List.foldl_cons,
        foldl_cleanStep_empties]

/-- one step of the rooted stack machine on a stack of normal segments: keep, pop or push -/
theorem cleanStep_rooted_cases (stk : List Seg) (e : Seg) (hn : ∀ x ∈ stk, Normal x) (he : sep ∉ e) :
    cleanStep true stk e = stk ∨ cleanStep true stk e = stk.tail ∨
    (cleanStep true stk e = e :: stk ∧ Normal e) := by
  unfold cleanStep
  by_cases h1 : e = [] ∨ e = dot
  · left; rw [if_pos h1]
  · rw [if_neg h1]
    by_cases h2 : e = dotdot
    · right; left
      rw [if_pos h2]
      cases stk with
      | nil => rfl
      | cons x xs =>
        have : x ≠ dotdot := (hn x (by simp)).2.2.1
        simp [this]
    · right; right
      rw [if_neg h2]
      exact ⟨rfl, fun h => h1 (Or.inl h), fun h => h1 (Or.inr h), h2, he⟩

theorem keyOf_normal (p : Str) : ∀ x ∈ keyOf p, Normal x :=
  cleanSegs_rooted_normal (split p) (split_no_sep p)

/-- the three ways the name of `path` relates to the name of the parent string `MkdirAll` recurses
    on: the same name (last element empty or "."), its parent (".."), or a child -/
theorem key_scan_cases (path : Str) :
    ∃ (P : Str), (scanJ path > 1 → P = path.take (scanJ path - 1) ∧ P.length < path.length) ∧
      (scanJ path ≤ 1 → P = []) ∧
      (keyOf path = keyOf P ∨ keyOf path = (keyOf P).dropLast ∨ ∃ e, keyOf path = keyOf P ++ [e]) := by
  obtain ⟨P, e, he, h1, h2, hk⟩ := key_scan path
  refine ⟨P, h1, h2, ?_⟩
  have hn : ∀ x ∈ (keyOf P).reverse, Normal x := fun x hx => keyOf_normal P x (by simpa using hx)
  rcases cleanStep_rooted_cases (keyOf P).reverse e hn he with h | h | ⟨h, _⟩
  · left
    rw [h] at hk
    have := congrArg List.reverse hk
    simpa using this
  · right; left
    rw [h, List.tail_reverse] at hk
    have := congrArg List.reverse hk
    simpa using this
  · right; right
    refine ⟨e, ?_⟩
    rw [h] at hk
    have := congrArg List.reverse hk
    simpa using this

end AferoVerif.Sftp
