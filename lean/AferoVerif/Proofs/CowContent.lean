/-
  Content preservation of copy-up, lifted to the copy-on-write filesystem:
  opening a base-only regular file for writing copies it whole, and a positional write through
  the returned handle leaves, in the overlay, the base's bytes with exactly the written range
  replaced (`writeS`); the base is untouched.
-/
import AferoVerif.Proofs.CopyUp
import AferoVerif.Proofs.MemFile
import AferoVerif.Model.Cache
namespace AferoVerif
open MemFs

/-- `OpenFile` of an existing name without O_EXCL and without a truncating write mode: a new
    handle on the same object, nothing else changes -/
theorem openFile_existing (m : MemFs) (k : Key) (flag perm f : Nat) (hl : m.lookup k = some f)
    (hx : flag &&& O_EXCL = 0) (ht : ¬ (flag &&& O_TRUNC > 0 ∧ flag &&& (O_RDWR ||| O_WRONLY) > 0)) :
    m.openFile k flag perm =
      ({ m with handles := m.handles ++ [MHandle.mk f (Handle.mk (if flag &&& O_APPEND > 0 then ((m.obj f).data.length : Int) else 0)
          (decide (flag &&& (O_WRONLY ||| O_RDWR) = 0)) false) 0] },
       .handle m.handles.length none) := by
  unfold MemFs.openFile
  simp only [hl, Option.isSome_some, true_and, hx]
  simp only [Nat.lt_irrefl, if_false, ht]
  rfl

/-- a positional write through an open, writable handle: the object's bytes become `writeS` -/
theorem hWriteAt_data (m : MemFs) (hi : Nat) (mh : MHandle) (b : Bytes) (off : Nat)
    (hh : m.handles[hi]? = some mh) (hc : mh.h.closed = false) (hr : mh.h.readOnly = false)
    (hb : b ≠ []) (hf : mh.obj < m.objs.length) :
    ((m.hWriteAt hi b off).1.obj mh.obj).data = writeS (m.obj mh.obj).data off b ∧
    (m.hWriteAt hi b off).1.lookup = m.lookup ∧ (m.hWriteAt hi b off).2 = .file (.n b.length none) := by
  unfold MemFs.hWriteAt MemFs.fileIO
  simp only [hh]
  have hw : writeAtC (m.obj mh.obj).data mh.h b (off : Int) =
      (writeS (m.obj mh.obj).data off b, mh.h, .n b.length none) := by
    unfold writeAtC
    have : ¬ ((off : Int) < 0) := by omega
    simp only [this, if_false]
    rw [writeC_eq (m.obj mh.obj).data { mh.h with pos := (off : Int) } b off rfl hc hr hb]
  rw [hw]
  refine ⟨?_, rfl, rfl⟩
  show ((m.setObj mh.obj _).obj mh.obj).data = _
  rw [obj_setObj_self _ _ _ hf]
  rfl

end AferoVerif

namespace AferoVerif
open MemFs

theorem copyUpIfBase_content (c : Cow) (name : Str) (bo : Nat)
    (hbase : c.isBaseFile (keyOfStr name) = true) (hbo : c.s.b.lookup (keyOfStr name) = some bo)
    (hfile : (c.s.b.obj bo).dir = false) (hr : InRange c.s.l) :
    (c.copyUpIfBase name).2 = none ∧ (c.copyUpIfBase name).1.s.b = c.s.b ∧ (c.copyUpIfBase name).1.hs = c.hs ∧
    InRange (c.copyUpIfBase name).1.s.l ∧
    ∃ lf, (c.copyUpIfBase name).1.s.l.lookup (keyOfStr name) = some lf ∧
      ((c.copyUpIfBase name).1.s.l.obj lf).data = (c.s.b.obj bo).data ∧
      ((c.copyUpIfBase name).1.s.l.obj lf).mtime = (c.s.b.obj bo).mtime := by
  obtain ⟨h1, lf, h2, h3, h4, h5⟩ := copyFile_content c.s.b c.s.l name bo hr hfile
  have e : c.copyUpIfBase name =
      ({ c with s := { c.s with l := (copyFile c.s.b c.s.l name bo).1 } }, (copyFile c.s.b c.s.l name bo).2) := by
    unfold Cow.copyUpIfBase copyToLayer
    simp only [hbase, if_true, hbo]
  rw [e]
  exact ⟨h1, rfl, rfl, h5, lf, h2, h3, h4⟩

/-- **C06, content clause.** Opening a base-only regular file through the copy-on-write
    filesystem with any write-access flags that neither truncate nor demand exclusivity, and then
    writing `b` at offset `off` through the returned handle: the call succeeds, the overlay holds
    under that name exactly the base's bytes with the written range replaced (and a zero-filled gap
    if `off` lies beyond the end) — every other byte of the file is kept — and the base is
    unchanged. -/
theorem cow_patch_keeps_bytes (c : Cow) (name : Str) (flag perm bo : Nat) (b : Bytes) (off : Nat)
    (hbase : c.isBaseFile (keyOfStr name) = true) (hbo : c.s.b.lookup (keyOfStr name) = some bo)
    (hfile : (c.s.b.obj bo).dir = false) (hr : InRange c.s.l)
    (hw : flag &&& cowWriteMask ≠ 0) (hx : flag &&& O_EXCL = 0) (ht : flag &&& O_TRUNC = 0)
    (hacc : flag &&& (O_WRONLY ||| O_RDWR) ≠ 0) (hb : b ≠ []) :
    ∃ h lf, (c.openFile name flag perm).2 = .handle h none ∧
      ((c.openFile name flag perm).1.step (.hWriteAt h b off)).2 = .file (.n b.length none) ∧
      ((c.openFile name flag perm).1.step (.hWriteAt h b off)).1.s.l.lookup (keyOfStr name) = some lf ∧
      (((c.openFile name flag perm).1.step (.hWriteAt h b off)).1.s.l.obj lf).data = writeS (c.s.b.obj bo).data off b ∧
      ((c.openFile name flag perm).1.step (.hWriteAt h b off)).1.s.b = c.s.b := by
  obtain ⟨u1, u2, u3, u4, lf, u5, u6, _⟩ := copyUpIfBase_content c name bo hbase hbo hfile hr
  generalize hU : c.copyUpIfBase name = U at u1 u2 u3 u4 u5 u6
  obtain ⟨c1, e1⟩ := U
  simp only at u1 u2 u3 u4 u5 u6
  subst u1
  have hop : c.openFile name flag perm = c1.layerOpenFile (keyOfStr name) flag perm := by
    unfold Cow.openFile
    simp only [hw, ne_eq, not_false_eq_true, if_true, hbase, hU]
  have hnt : ¬ (flag &&& O_TRUNC > 0 ∧ flag &&& (O_RDWR ||| O_WRONLY) > 0) := by
    intro hh; rw [ht] at hh; exact absurd hh.1 (Nat.lt_irrefl 0)
  have hof := openFile_existing c1.s.l (keyOfStr name) flag perm lf u5 hx hnt
  have hlo : c1.layerOpenFile (keyOfStr name) flag perm =
      ({ s := { c1.s with l := (c1.s.l.openFile (keyOfStr name) flag perm).1 }, hs := c1.hs ++ [.layer c1.s.l.handles.length] },
       .handle c1.hs.length none) := by
    unfold Cow.layerOpenFile
    rw [hof]
    rfl
  rw [hop, hlo]
  refine ⟨c1.hs.length, lf, rfl, ?_⟩
  -- the write goes to the layer handle just created
  have hro : decide (flag &&& (O_WRONLY ||| O_RDWR) = 0) = false := by simp [hacc]
  have hstep : ∀ cc : Cow, cc.hs = c1.hs ++ [.layer c1.s.l.handles.length] →
      cc.step (.hWriteAt c1.hs.length b off) =
        ({ cc with s := { cc.s with l := (cc.s.l.step (.hWriteAt c1.s.l.handles.length b off)).1 } },
         (cc.s.l.step (.hWriteAt c1.s.l.handles.length b off)).2) := by
    intro cc hcc
    unfold Cow.step
    simp only [Op.handle?]
    unfold Cow.handleOp
    have : cc.hs[c1.hs.length]? = some (.layer c1.s.l.handles.length) := by
      rw [hcc]; simp
    simp only [this, Cow.reindex]
  rw [hstep _ rfl]
  simp only [hof]
  have hwd := hWriteAt_data
    { c1.s.l with handles := c1.s.l.handles ++ [MHandle.mk lf (Handle.mk (if flag &&& O_APPEND > 0 then ((c1.s.l.obj lf).data.length : Int) else 0)
        (decide (flag &&& (O_WRONLY ||| O_RDWR) = 0)) false) 0] }
    c1.s.l.handles.length
    (MHandle.mk lf (Handle.mk (if flag &&& O_APPEND > 0 then ((c1.s.l.obj lf).data.length : Int) else 0)
        (decide (flag &&& (O_WRONLY ||| O_RDWR) = 0)) false) 0)
    b off (by simp) rfl hro hb (u4 _ _ u5)
  obtain ⟨w1, w2, w3⟩ := hwd
  refine ⟨w3, ?_, ?_, u2⟩
  · show (MemFs.hWriteAt _ _ _ _).1.lookup (keyOfStr name) = some lf
    rw [w2]; exact u5
  · show ((MemFs.hWriteAt _ _ _ _).1.obj lf).data = _
    rw [w1]
    show writeS (c1.s.l.obj lf).data off b = _
    rw [u6]

end AferoVerif

namespace AferoVerif
open MemFs

/-- **C10, content clause.** A read-through of a regular base file that is not served from the
    cache (miss or stale: `copyThenOpen`) succeeds; afterwards the cache layer holds under that name
    an object with exactly the base's bytes and the base's modification time, the base is unchanged,
    and the returned handle is a fresh read-only handle at offset 0 on that very object. -/
theorem copyThenOpen_serves_base (c : Cow) (name : Str) (bo : Nat)
    (hbo : c.s.b.lookup (keyOfStr name) = some bo) (hfile : (c.s.b.obj bo).dir = false) (hr : InRange c.s.l) :
    ∃ lf i, (Cache.copyThenOpen c name (keyOfStr name)).2 = .handle c.hs.length none ∧
      (Cache.copyThenOpen c name (keyOfStr name)).1.s.b = c.s.b ∧
      (Cache.copyThenOpen c name (keyOfStr name)).1.hs = c.hs ++ [.layer i] ∧
      (Cache.copyThenOpen c name (keyOfStr name)).1.s.l.handles[i]? = some { obj := lf, h := { readOnly := true } } ∧
      (Cache.copyThenOpen c name (keyOfStr name)).1.s.l.lookup (keyOfStr name) = some lf ∧
      ((Cache.copyThenOpen c name (keyOfStr name)).1.s.l.obj lf).data = (c.s.b.obj bo).data ∧
      ((Cache.copyThenOpen c name (keyOfStr name)).1.s.l.obj lf).mtime = (c.s.b.obj bo).mtime := by
  obtain ⟨h1, lf, h2, h3, h4, _⟩ := copyFile_content c.s.b c.s.l name bo hr hfile
  have ecu : Cache.copyUp c name = (Cache.setL c (copyFile c.s.b c.s.l name bo).1, none) := by
    unfold Cache.copyUp copyToLayer
    simp only [hbo, h1]
  have e : Cache.copyThenOpen c name (keyOfStr name) =
      Cache.layerOpen (Cache.setL c (copyFile c.s.b c.s.l name bo).1) (keyOfStr name) := by
    unfold Cache.copyThenOpen
    rw [ecu]
  rw [e]
  unfold Cache.layerOpen MemFs.openRO
  simp only [Cache.setL, h2]
  refine ⟨lf, (copyFile c.s.b c.s.l name bo).1.handles.length, rfl, rfl, rfl, ?_, h2, h3, h4⟩
  simp [MemFs.addHandle, Cow.addH]

end AferoVerif
