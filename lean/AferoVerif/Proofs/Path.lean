/-
  Segment-level lemmas about filepath.Clean's stack machine.
-/
import AferoVerif.Model.BasePath
namespace AferoVerif.Path

theorem cleanStep_normal (stk : List Seg) (s : Seg) (hs : sep ∉ s) (h : ∀ x ∈ stk, Normal x) :
    ∀ x ∈ cleanStep true stk s, Normal x := by
  unfold cleanStep
  by_cases h1 : s = [] ∨ s = dot
  · simp only [h1, if_true]; exact h
  · simp only [h1, if_false]
    by_cases h2 : s = dotdot
    · simp only [h2, if_true]
      cases stk with
      | nil => simp
      | cons t ts =>
        have ht : t ≠ dotdot := (h t (by simp)).2.2.1
        simp only [ht, if_false]
        intro x hx; exact h x (by simp [hx])
    · simp only [h2, if_false]
      intro x hx
      rcases List.mem_cons.mp hx with rfl | hx
      · exact ⟨fun e => h1 (Or.inl e), fun e => h1 (Or.inr e), h2, hs⟩
      · exact h x hx

theorem foldl_cleanStep_normal (segs : List Seg) (stk : List Seg) (hs : ∀ x ∈ segs, sep ∉ x)
    (h : ∀ x ∈ stk, Normal x) : ∀ x ∈ segs.foldl (cleanStep true) stk, Normal x := by
  induction segs generalizing stk with
  | nil => simpa using h
  | cons a as ih =>
    simp only [List.foldl_cons]
    exact ih _ (fun x hx => hs x (by simp [hx])) (cleanStep_normal stk a (hs a (by simp)) h)

/-- every segment of a cleaned rooted path is normal: no "", ".", "..", no separator inside -/
theorem cleanSegs_rooted_normal (segs : List Seg) (hs : ∀ x ∈ segs, sep ∉ x) :
    ∀ x ∈ cleanSegs true segs, Normal x := by
  unfold cleanSegs
  intro x hx
  exact foldl_cleanStep_normal segs [] hs (by simp) x (by simpa using hx)

theorem cleanStep_push (r : Bool) (stk : List Seg) (s : Seg) (h : Normal s) : cleanStep r stk s = s :: stk := by
  unfold cleanStep
  have h1 : ¬ (s = [] ∨ s = dot) := by rintro (e | e); exact h.1 e; exact h.2.1 e
  simp [h1, h.2.2.1]

theorem foldl_cleanStep_normal_append (r : Bool) (q : List Seg) (stk : List Seg) (hq : ∀ x ∈ q, Normal x) :
    q.foldl (cleanStep r) stk = q.reverse ++ stk := by
  induction q generalizing stk with
  | nil => simp
  | cons a as ih =>
    simp only [List.foldl_cons, List.reverse_cons, List.append_assoc, List.singleton_append]
    rw [cleanStep_push r stk a (hq a (by simp))]
    exact ih _ (fun x hx => hq x (by simp [hx]))

/-- appending normal segments to any path appends them to its cleaned form: nothing appended
    later can pop what is already there -/
theorem clean_append_normal (r : Bool) (d q : List Seg) (hq : ∀ x ∈ q, Normal x) :
    cleanSegs r (d ++ q) = cleanSegs r d ++ q := by
  unfold cleanSegs
  rw [List.foldl_append, foldl_cleanStep_normal_append r q _ hq]
  simp

/-- an empty segment (doubled or leading separator) is skipped -/
theorem cleanSegs_skip_empty (r : Bool) (d q : List Seg) :
    cleanSegs r (d ++ [] :: q) = cleanSegs r (d ++ q) := by
  unfold cleanSegs
  simp [List.foldl_append, cleanStep]

/-- cleaning is idempotent on normal segment lists -/
theorem cleanSegs_normal_id (r : Bool) (q : List Seg) (hq : ∀ x ∈ q, Normal x) : cleanSegs r q = q := by
  have := clean_append_normal r [] q hq
  simpa [cleanSegs] using this

theorem splitAux_no_sep (s : Str) (cur : Seg) (hc : sep ∉ cur) : ∀ x ∈ splitAux s cur, sep ∉ x := by
  induction s generalizing cur with
  | nil => intro x hx; simp [splitAux] at hx; subst hx; simpa using hc
  | cons c cs ih =>
    intro x hx
    unfold splitAux at hx
    by_cases h : c = sep
    · simp only [h, if_true, List.mem_cons] at hx
      rcases hx with rfl | hx
      · simpa using hc
      · exact ih [] (by simp) x hx
    · simp only [h, if_false] at hx
      exact ih (c :: cur) (by simp [hc, Ne.symm h]) x hx

/-- segments produced by splitting on '/' hold no '/' -/
theorem split_no_sep (s : Str) : ∀ x ∈ split s, sep ∉ x := splitAux_no_sep s [] (by simp)



/-! ### bridge between the string level (what the Go code compares) and segments -/

theorem splitAux_append_sep (a b : Str) (cur : Seg) :
    splitAux (a ++ sep :: b) cur = splitAux a cur ++ splitAux b [] := by
  induction a generalizing cur with
  | nil => simp [splitAux]
  | cons c cs ih =>
    have e1 : splitAux (c :: cs ++ sep :: b) cur =
        if c = sep then cur.reverse :: splitAux (cs ++ sep :: b) [] else splitAux (cs ++ sep :: b) (c :: cur) := rfl
    have e2 : splitAux (c :: cs) cur =
        if c = sep then cur.reverse :: splitAux cs [] else splitAux cs (c :: cur) := rfl
    rw [e1, e2]
    by_cases h : c = sep
    · simp only [h, if_true, List.cons_append]; rw [ih]
    · simp only [h, if_false]; rw [ih]

theorem split_append_sep (a b : Str) : split (a ++ sep :: b) = split a ++ split b :=
  splitAux_append_sep a b []

theorem splitAux_no_sep_eq (s : Str) (cur : Seg) (hs : sep ∉ s) : splitAux s cur = [cur.reverse ++ s] := by
  induction s generalizing cur with
  | nil => simp [splitAux]
  | cons c cs ih =>
    have hc : c ≠ sep := fun e => hs (by simp [e])
    unfold splitAux
    simp only [hc, if_false]
    rw [ih _ (fun h => hs (by simp [h]))]
    simp

theorem split_no_sep_eq (s : Str) (hs : sep ∉ s) : split s = [s] := by
  simpa [split] using splitAux_no_sep_eq s [] hs

theorem split_joinSegs (q : List Seg) (hq : ∀ x ∈ q, sep ∉ x) (hne : q ≠ []) : split (joinSegs q) = q := by
  induction q with
  | nil => exact absurd rfl hne
  | cons a as ih =>
    cases as with
    | nil => simpa [joinSegs] using split_no_sep_eq a (hq a (by simp))
    | cons b bs =>
      simp only [joinSegs]
      rw [split_append_sep, split_no_sep_eq a (hq a (by simp)),
        ih (fun x hx => hq x (by simp [hx])) (by simp)]
      rfl

theorem split_sep_cons (x : Str) : split (sep :: x) = [] :: split x := by
  have := split_append_sep [] x
  simpa [split, splitAux] using this

/-- cleaning the string form of a cleaned rooted path gives back its segments -/
theorem cleanSegs_split_render (q : List Seg) (hq : ∀ x ∈ q, Normal x) :
    cleanSegs true (split (render true q)) = q := by
  unfold render
  simp only [if_true]
  rw [split_sep_cons]
  cases q with
  | nil => simp [joinSegs, split, splitAux, cleanSegs, cleanStep]
  | cons a as =>
    rw [split_joinSegs _ (fun x hx => (hq x hx).2.2.2) (by simp)]
    have := cleanSegs_skip_empty true [] (a :: as)
    simp only [List.nil_append] at this
    rw [this, cleanSegs_normal_id true _ hq]

theorem isRooted_render (q : List Seg) : isRooted (render true q) = true := by
  simp [render, isRooted]

/-- Clean is idempotent (rooted case) -/
theorem clean_render (q : List Seg) (hq : ∀ x ∈ q, Normal x) : clean (render true q) = render true q := by
  unfold clean
  rw [isRooted_render, cleanSegs_split_render q hq]

/-- segments that are empty or normal: only the normal ones survive, nothing gets popped -/
theorem foldl_cleanStep_normal_or_empty (r : Bool) (q : List Seg) (stk : List Seg)
    (hq : ∀ x ∈ q, x = [] ∨ Normal x) :
    q.foldl (cleanStep r) stk = (q.filter (· ≠ [])).reverse ++ stk := by
  induction q generalizing stk with
  | nil => simp
  | cons a as ih =>
    simp only [List.foldl_cons]
    rcases hq a (by simp) with h | h
    · subst h
      have : cleanStep r stk [] = stk := by simp [cleanStep]
      rw [this, ih _ (fun x hx => hq x (by simp [hx]))]
      simp
    · rw [cleanStep_push r stk a h, ih _ (fun x hx => hq x (by simp [hx]))]
      have : a ≠ [] := h.1
      simp [List.filter_cons, this]

theorem cleanSegs_append_normal_or_empty (r : Bool) (d q : List Seg) (hq : ∀ x ∈ q, x = [] ∨ Normal x) :
    cleanSegs r (d ++ q) = cleanSegs r d ++ q.filter (· ≠ []) := by
  unfold cleanSegs
  rw [List.foldl_append, foldl_cleanStep_normal_or_empty r q _ hq]
  simp

theorem trimSuffixSep_spec (s : Str) : trimSuffixSep s = s ∨ s = trimSuffixSep s ++ [sep] := by
  unfold trimSuffixSep
  cases h : s.getLast? with
  | none => left; rfl
  | some c =>
    simp only
    by_cases hc : c = sep
    · right
      simp only [hc, if_true]
      have hne : s ≠ [] := by intro e; simp [e] at h
      have h2 := List.dropLast_concat_getLast hne
      have h3 : s.getLast hne = c := by
        have := List.getLast?_eq_some_getLast hne
        rw [h] at this; exact (Option.some.inj this).symm
      rw [h3, hc] at h2
      exact h2.symm
    · left; simp [hc]

/-- **The bridge.** For two cleaned rooted paths, the string test made by `RealPath`
    (equal, or prefixed by the base followed by a separator) implies segment-wise prefix. -/
theorem prefix_of_string_test (d q : List Seg) (hd : ∀ x ∈ d, Normal x) (hq : ∀ x ∈ q, Normal x)
    (h : render true q = render true d ∨
         hasPrefix (render true q) (trimSuffixSep (render true d) ++ [sep]) = true) :
    d <+: q := by
  rcases h with h | h
  · have := congrArg (fun s => cleanSegs true (split s)) h
    simp only [cleanSegs_split_render q hq, cleanSegs_split_render d hd] at this
    rw [this]
    exact List.prefix_refl d
  · unfold hasPrefix at h
    obtain ⟨rest, hrest⟩ := List.isPrefixOf_iff_prefix.mp h
    -- render true q = b' ++ sep :: rest
    have hsplit : split (render true q) = split (trimSuffixSep (render true d)) ++ split rest := by
      rw [← hrest, List.append_assoc]
      exact split_append_sep _ _
    -- segments of rest are empty or normal, because they are segments of the cleaned q
    have hq' : split (render true q) = [] :: (if q = [] then [[]] else q) := by
      unfold render; simp only [if_true]; rw [split_sep_cons]
      by_cases hqe : q = []
      · simp [hqe, joinSegs, split, splitAux]
      · simp only [hqe, if_false]; rw [split_joinSegs q (fun x hx => (hq x hx).2.2.2) hqe]
    have hrestSegs : ∀ x ∈ split rest, x = [] ∨ Normal x := by
      intro x hx
      have : x ∈ split (render true q) := by rw [hsplit]; simp [hx]
      rw [hq'] at this
      rcases List.mem_cons.mp this with h1 | h1
      · left; exact h1
      · by_cases hqe : q = []
        · simp [hqe] at h1; left; exact h1
        · simp only [hqe, if_false] at h1; right; exact hq x h1
    -- cleaning b' gives d
    have hb : cleanSegs true (split (trimSuffixSep (render true d))) = d := by
      rcases trimSuffixSep_spec (render true d) with h1 | h1
      · rw [h1]; exact cleanSegs_split_render d hd
      · have h2 := cleanSegs_split_render d hd
        rw [h1, split_append_sep] at h2
        have h3 : split ([] : Str) = [[]] := rfl
        rw [h3, cleanSegs_skip_empty] at h2
        simpa using h2
    have := congrArg (cleanSegs true) hsplit
    rw [cleanSegs_split_render q hq, cleanSegs_append_normal_or_empty true _ _ hrestSegs, hb] at this
    rw [this]
    exact List.prefix_append _ _

end AferoVerif.Path
