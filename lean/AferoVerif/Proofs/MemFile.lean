/-
  Helper lemmas: the code's slice arithmetic (concrete `…C`) equals the flat spec (`…S`).
-/
import AferoVerif.Model.MemFile
namespace AferoVerif

theorem goSlice_ok (d : Bytes) (lo hi : Nat) (h1 : lo ≤ hi) (h2 : hi ≤ d.length) :
    goSlice d lo hi = some ((d.take hi).drop lo) := by
  unfold goSlice
  have : (0:Int) ≤ lo ∧ (lo:Int) ≤ hi ∧ (hi:Int) ≤ d.length := by omega
  simp [this]

/-- the Nat-level core of `Write`: tail re-append / gap fill equals the flat write -/
def writeCore (d : Bytes) (cur : Nat) (b : Bytes) : Bytes :=
  let tail := if b.length + cur < d.length then d.drop (b.length + cur) else []
  if cur > d.length then d ++ (List.replicate (cur - d.length) 0 ++ b) ++ tail
  else d.take cur ++ b ++ tail

theorem writeCore_eq_writeS (d : Bytes) (cur : Nat) (b : Bytes) : writeCore d cur b = writeS d cur b := by
  unfold writeCore writeS; simp only
  by_cases h : cur > d.length
  · have h1 : ¬ (b.length + cur < d.length) := by omega
    simp [h, h1]
    rw [List.take_of_length_le (by simp; omega), List.drop_of_length_le (by simp; omega)]; simp
  · have h0 : cur - d.length = 0 := by omega
    simp [h, h0]; split
    · rw [Nat.add_comm]
    · rw [List.drop_of_length_le (by omega)]

theorem writeS_length (d : Bytes) (off : Nat) (b : Bytes) :
    (writeS d off b).length = max d.length (off + b.length) := by
  unfold writeS; simp; omega

theorem truncS_length (d : Bytes) (n : Nat) : (truncS d n).length = n := by
  unfold truncS; simp; omega

theorem readS_length (d : Bytes) (off len : Nat) : (readS d off len).length = min len (d.length - off) := by
  unfold readS; simp

theorem writeC_eq (d : Bytes) (h : Handle) (b : Bytes) (cur : Nat) (hp : h.pos = cur)
    (hc : h.closed = false) (hr : h.readOnly = false) (hb : b ≠ []) :
    writeC d h b = (writeS d cur b, { h with pos := h.pos + b.length }, .n b.length none) := by
  rw [← writeCore_eq_writeS]
  unfold writeC writeCore
  simp only [hc, hr, hp, hb, Bool.false_eq_true, if_false]
  by_cases h1 : b.length + cur < d.length
  · have h1' : (b.length : Int) + cur < d.length := by omega
    have h2 : ¬ ((cur : Int) - d.length > 0) := by omega
    have h3 : ¬ (cur > d.length) := by omega
    have e1 : ((b.length : Int) + (cur : Int)) = ((b.length + cur : Nat) : Int) := by omega
    simp only [h1, h1', h2, h3, if_true, if_false]
    rw [e1, show ((d.length : Nat) : Int) = ((d.length : Nat) : Int) from rfl,
      goSlice_ok d (b.length + cur) d.length (by omega) (by omega)]
    simp only [List.take_length]
    rw [show ((0 : Int)) = ((0 : Nat) : Int) from rfl, goSlice_ok d 0 cur (by omega) (by omega)]
    simp
  · have h1' : ¬ ((b.length : Int) + cur < d.length) := by omega
    simp only [h1, h1', if_false]
    by_cases h3 : cur > d.length
    · have h2 : ((cur : Int) - d.length > 0) := by omega
      have e2 : ((cur : Int) - (d.length : Int)).toNat = cur - d.length := by omega
      simp [h2, h3, e2]
    · have h2 : ¬ ((cur : Int) - d.length > 0) := by omega
      simp only [h2, h3, if_false]
      rw [show ((0 : Int)) = ((0 : Nat) : Int) from rfl, goSlice_ok d 0 cur (by omega) (by omega)]
      simp

theorem readC_eq (d : Bytes) (h : Handle) (len cur : Nat) (hp : h.pos = cur) (hc : h.closed = false)
    (hin : ¬ (cur ≥ d.length ∧ (len > 0 ∨ cur > d.length))) :
    readC d h len = ({ h with pos := h.pos + (readS d cur len).length }, .bytes (readS d cur len) none) := by
  unfold readC
  have hle : cur ≤ d.length := by omega
  have c1 : ¬ (len > 0 ∧ (cur : Int) = d.length) := by omega
  have c2 : ¬ ((cur : Int) > d.length) := by omega
  simp only [hc, hp, Bool.false_eq_true, if_false, c1, c2]
  by_cases hn : (d.length : Int) - cur ≥ len
  · simp only [hn, if_true]
    rw [show (cur : Int) + (len : Int) = ((cur + len : Nat) : Int) by omega,
      goSlice_ok d cur (cur + len) (by omega) (by omega)]
    have : readS d cur len = List.drop cur (List.take (cur + len) d) := by
      unfold readS; rw [List.drop_take]; congr 1; omega
    simp [this]; omega
  · simp only [hn, if_false]
    rw [show (cur : Int) + ((d.length : Int) - (cur : Int)) = ((d.length : Nat) : Int) by omega,
      goSlice_ok d cur d.length (by omega) (by omega)]
    have : readS d cur len = List.drop cur (List.take d.length d) := by
      unfold readS; rw [List.take_length, List.take_of_length_le]; simp; omega
    simp [this]; omega

theorem truncC_eq (d : Bytes) (h : Handle) (n : Nat) (hc : h.closed = false) (hr : h.readOnly = false) :
    truncC d h n = (truncS d n, .ok) := by
  unfold truncC truncS
  simp only [hc, hr, Bool.false_eq_true, if_false]
  have c0 : ¬ ((n : Int) < 0) := by omega
  simp only [c0, if_false]
  by_cases h1 : (n : Int) > d.length
  · simp only [h1, if_true]
    rw [List.take_of_length_le (by omega)]
    have : ((n : Int) - (d.length : Int)).toNat = n - d.length := by omega
    rw [this]
  · simp only [h1, if_false]
    rw [show (0 : Int) = ((0 : Nat) : Int) from rfl, goSlice_ok d 0 n (by omega) (by omega)]
    have : n - d.length = 0 := by omega
    simp [this]

end AferoVerif
