/-
  The index invariant `Consistent` through `Mkdir` / `MkdirAll` / `Create` of a new name when SEVERAL
  levels of parent directories are missing: `registerWithParent` then creates them all (the source's
  lockfreeMkdir / registerWithParent recursion).

  The intermediate states are not `Consistent`: a key that is already entered in the path map but not
  yet registered with its parent violates `hasParent`.  `ConsistentExcept m S` is the invariant with
  `hasParent` demanded only for the keys outside the pending list `S`; everything else (in particular
  `noStale`, for every directory, pending or not) holds throughout.  `reg_spec` shows by induction on
  the fuel that `registerWithParent` discharges the pending key it is called for.
-/
import AferoVerif.Proofs.MemFsInv3
namespace AferoVerif
namespace MemFs

/-- `Consistent`, except that the keys of `S` (entered in the path map, not yet registered with
    their parents) need not be listed by a parent directory -/
structure ConsistentExcept (m : MemFs) (S : List Key) : Prop where
  inRange : ∀ k f, m.lookup k = some f → f < m.objs.length
  nameEq : ∀ k f, m.lookup k = some f → (m.obj f).name = k
  hasParent : ∀ k f, m.lookup k = some f → k ≠ rootKey → k ∉ S →
    ∃ p d, m.lookup (parentKey k) = some p ∧ (m.obj p).memDir = some d ∧ alLookup d k = some f
  noStale : ∀ k p d k' f', m.lookup k = some p → (m.obj p).memDir = some d → alLookup d k' = some f' →
    m.lookup k' = some f' ∧ parentKey k' = k ∧ k' ≠ rootKey
  root : ∃ r, m.lookup rootKey = some r ∧ (m.obj r).memDir.isSome

theorem consistentExcept_of_consistent {m : MemFs} (hc : Consistent m) : ConsistentExcept m [] :=
  ⟨hc.inRange, hc.nameEq, fun k f h hne _ => hc.hasParent k f h hne, hc.noStale, hc.root⟩

theorem consistent_of_consistentExcept {m : MemFs} (hc : ConsistentExcept m []) : Consistent m :=
  ⟨hc.inRange, hc.nameEq, fun k f h hne => hc.hasParent k f h hne (by simp), hc.noStale, hc.root⟩

/-! ### allocate an object and enter it in the path map (not yet in its parent's index) -/

def pend (m : MemFs) (k : Key) (d : FData) : MemFs :=
  { objs := m.objs ++ [d], data := alInsert m.data k m.objs.length, handles := m.handles, now := m.now }

theorem lookup_pend (m : MemFs) (k k' : Key) (d : FData) :
    (m.pend k d).lookup k' = if k' = k then some m.objs.length else m.lookup k' := by
  unfold pend lookup
  by_cases h : k' = k
  · subst h; simp [alLookup_insert_self]
  · simp [h, alLookup_insert_ne _ _ _ _ h]

theorem obj_pend_new (m : MemFs) (k : Key) (d : FData) : (m.pend k d).obj m.objs.length = d :=
  obj_alloc_new m d

theorem obj_pend_old (m : MemFs) (k : Key) (d : FData) (j : Nat) (hj : j < m.objs.length) :
    (m.pend k d).obj j = m.obj j := by
  have := obj_alloc_old m d j hj
  unfold alloc pend obj at *
  simpa using this

theorem length_pend (m : MemFs) (k : Key) (d : FData) : (m.pend k d).objs.length = m.objs.length + 1 := by
  simp [pend]

theorem consistentExcept_pend (m : MemFs) (S : List Key) (k : Key) (d : FData) (hc : ConsistentExcept m S)
    (hnew : m.lookup k = none) (hname : d.name = k) (hleaf : d.memDir = none ∨ d.memDir = some []) :
    ConsistentExcept (m.pend k d) (k :: S) := by
  have hroot : k ≠ rootKey := by
    intro e; obtain ⟨r, hr, _⟩ := hc.root; rw [← e, hnew] at hr; cases hr
  refine ⟨?_, ?_, ?_, ?_, ?_⟩
  · intro k' f hl
    rw [lookup_pend] at hl
    rw [length_pend]
    by_cases hk : k' = k
    · simp [hk] at hl; omega
    · simp [hk] at hl; have := hc.inRange _ _ hl; omega
  · intro k' f hl
    rw [lookup_pend] at hl
    by_cases hk : k' = k
    · simp [hk] at hl; subst hl; rw [obj_pend_new, hname, hk]
    · simp [hk] at hl
      rw [obj_pend_old _ _ _ _ (hc.inRange _ _ hl)]; exact hc.nameEq _ _ hl
  · intro k' f hl hne hS
    rw [lookup_pend] at hl
    have hk : k' ≠ k := fun e => hS (by rw [e]; exact List.mem_cons_self)
    have hS' : k' ∉ S := fun e => hS (List.mem_cons_of_mem _ e)
    simp [hk] at hl
    obtain ⟨p, dd, h1, h2, h3⟩ := hc.hasParent _ _ hl hne hS'
    have hpk : parentKey k' ≠ k := by intro e; rw [e, hnew] at h1; cases h1
    refine ⟨p, dd, ?_, ?_, h3⟩
    · rw [lookup_pend]; simp [hpk, h1]
    · rw [obj_pend_old _ _ _ _ (hc.inRange _ _ h1)]; exact h2
  · intro kd q dd k' f' hl hd hl'
    rw [lookup_pend] at hl
    by_cases hk : kd = k
    · simp [hk] at hl; subst hl
      rw [obj_pend_new] at hd
      rcases hleaf with h | h
      · rw [h] at hd; cases hd
      · rw [h] at hd; injection hd with hd; subst hd; simp [alLookup_nil] at hl'
    · simp [hk] at hl
      rw [obj_pend_old _ _ _ _ (hc.inRange _ _ hl)] at hd
      obtain ⟨a, b, c⟩ := hc.noStale _ _ _ _ _ hl hd hl'
      have hkk : k' ≠ k := by intro e; rw [e, hnew] at a; cases a
      exact ⟨by rw [lookup_pend]; simp [hkk, a], b, c⟩
  · obtain ⟨r, hr1, hr2⟩ := hc.root
    refine ⟨r, by rw [lookup_pend]; simp [Ne.symm hroot, hr1], ?_⟩
    rw [obj_pend_old _ _ _ _ (hc.inRange _ _ hr1)]; exact hr2

/-! ### the last step of `registerWithParent`: enter object `f` in the index of directory `p` -/

def regInto (m : MemFs) (f p : Nat) : MemFs :=
  let pd := m.obj p
  let pd := if pd.memDir.isNone then { pd with dir := true, memDir := some [] } else pd
  m.setObj p { pd with memDir := pd.memDir.map fun d => alInsert d (m.obj f).name f }

theorem lookup_regInto (m : MemFs) (f p : Nat) (k : Key) : (m.regInto f p).lookup k = m.lookup k := rfl

theorem length_regInto (m : MemFs) (f p : Nat) : (m.regInto f p).objs.length = m.objs.length := by
  simp [regInto, setObj]

theorem obj_regInto_ne (m : MemFs) (f p j : Nat) (hj : j ≠ p) : (m.regInto f p).obj j = m.obj j := by
  unfold regInto
  simp only
  rw [obj_setObj_ne _ _ _ _ hj]

theorem obj_regInto_self (m : MemFs) (f p : Nat) (hp : p < m.objs.length) :
    ((m.regInto f p).obj p).name = (m.obj p).name ∧
    ((m.regInto f p).obj p).memDir = some (alInsert ((m.obj p).memDir.getD []) (m.obj f).name f) := by
  unfold regInto
  simp only
  rw [obj_setObj_self _ _ _ hp]
  cases h : (m.obj p).memDir with
  | none => simp
  | some d => simp [h]

theorem registerWithParent_some (fuel : Nat) (m : MemFs) (f perm p : Nat)
    (hp : m.lookup (parentKey (m.obj f).name) = some p) :
    registerWithParent (fuel + 1) m f perm = m.regInto f p := by
  unfold registerWithParent
  simp only [hp]
  rfl

theorem registerWithParent_none (fuel : Nat) (m : MemFs) (f perm p : Nat)
    (hp : m.lookup (parentKey (m.obj f).name) = none)
    (h3 : (registerWithParent fuel
        (m.pend (parentKey (m.obj f).name) { (m.newDir (parentKey (m.obj f).name)) with mode := modeDir ||| perm })
        m.objs.length perm).lookup (parentKey (m.obj f).name) = some p) :
    registerWithParent (fuel + 1) m f perm =
      (registerWithParent fuel
        (m.pend (parentKey (m.obj f).name) { (m.newDir (parentKey (m.obj f).name)) with mode := modeDir ||| perm })
        m.objs.length perm).regInto f p := by
  unfold pend at h3 ⊢
  rw [registerWithParent]
  simp only [hp, alloc, h3]
  rfl

/-- entering the pending key `kf` in the index of its (existing) parent discharges it -/
theorem consistentExcept_regInto (m : MemFs) (S : List Key) (f p : Nat) (kf : Key)
    (hc : ConsistentExcept m (kf :: S)) (hkf : (m.obj f).name = kf) (hl : m.lookup kf = some f)
    (hroot : kf ≠ rootKey) (hp : m.lookup (parentKey kf) = some p) :
    ConsistentExcept (m.regInto f p) S := by
  have hpr := hc.inRange _ _ hp
  obtain ⟨hnp, hmd⟩ := obj_regInto_self m f p hpr
  rw [hkf] at hmd
  have hname : ∀ j, ((m.regInto f p).obj j).name = (m.obj j).name := by
    intro j
    by_cases hj : j = p
    · subst hj; exact hnp
    · rw [obj_regInto_ne _ _ _ _ hj]
  -- an entry of the old index: then the old index is there
  have hd0 : ∀ k' f', alLookup ((m.obj p).memDir.getD []) k' = some f' →
      (m.obj p).memDir = some ((m.obj p).memDir.getD []) := by
    intro k' f' h
    cases hm : (m.obj p).memDir with
    | none => rw [hm] at h; simp [alLookup_nil] at h
    | some d => rfl
  refine ⟨?_, ?_, ?_, ?_, ?_⟩
  · intro k g h; rw [length_regInto]; exact hc.inRange k g h
  · intro k g h; rw [hname]; exact hc.nameEq k g h
  · intro k g h hne hS
    rw [lookup_regInto] at h
    by_cases hk : k = kf
    · subst hk
      rw [hl] at h; injection h with h; subst h
      exact ⟨p, _, hp, hmd, alLookup_insert_self _ _ _⟩
    · have hS' : k ∉ kf :: S := by
        intro e; rcases List.mem_cons.1 e with e | e
        · exact hk e
        · exact hS e
      obtain ⟨p', d', h1, h2, h3⟩ := hc.hasParent k g h hne hS'
      by_cases hpp : p' = p
      · subst hpp
        refine ⟨p', _, h1, hmd, ?_⟩
        rw [alLookup_insert_ne _ _ _ _ hk, h2]; exact h3
      · exact ⟨p', d', h1, by rw [obj_regInto_ne _ _ _ _ hpp]; exact h2, h3⟩
  · intro kd q dd k' f' h hd hl'
    rw [lookup_regInto] at h
    by_cases hqp : q = p
    · subst hqp
      rw [hmd] at hd; injection hd with hd; subst hd
      by_cases hkk : k' = kf
      · subst hkk
        rw [alLookup_insert_self] at hl'; injection hl' with hl'; subst hl'
        refine ⟨hl, ?_, hroot⟩
        rw [← hc.nameEq _ _ hp, ← hc.nameEq _ _ h]
      · rw [alLookup_insert_ne _ _ _ _ hkk] at hl'
        exact hc.noStale _ _ _ _ _ h (hd0 _ _ hl') hl'
    · rw [obj_regInto_ne _ _ _ _ hqp] at hd
      exact hc.noStale _ _ _ _ _ h hd hl'
  · obtain ⟨r, hr1, hr2⟩ := hc.root
    refine ⟨r, hr1, ?_⟩
    by_cases hrp : r = p
    · subst hrp; rw [hmd]; rfl
    · rw [obj_regInto_ne _ _ _ _ hrp]; exact hr2

/-- the parent key is strictly shorter -/
theorem parentKey_length_lt (k : Key) (hk : k.segs ≠ []) : (parentKey k).segs.length < k.segs.length := by
  have hpos : 0 < k.segs.length := List.length_pos_iff.2 hk
  unfold parentKey
  simp only [hk, if_false]
  rcases normKey_cases ⟨k.rooted, k.segs.dropLast⟩ with h | h
  · rw [h]; exact hpos
  · rw [h]; simp only [List.length_dropLast]; omega

/-- a parent key without segments is the root -/
theorem parentKey_nil_root (k : Key) (h : (parentKey k).segs = []) : parentKey k = rootKey := by
  unfold parentKey at h ⊢
  by_cases hk : k.segs = []
  · simp [hk]
  · simp only [hk, if_false] at h ⊢
    rcases normKey_cases ⟨k.rooted, k.segs.dropLast⟩ with e | e
    · exact e
    · rw [e] at h ⊢
      simp only at h
      unfold normKey at e
      cases hr : k.rooted with
      | true => rw [h]; rfl
      | false =>
        rw [h, hr] at e
        simp [rootKey] at e

/-- **`registerWithParent` discharges the pending key it is called for**, creating and registering
    all missing ancestors on the way; nothing that the path map showed is lost -/
theorem reg_spec (perm : Nat) (fuel : Nat) : ∀ (m : MemFs) (f : Nat) (S : List Key),
    ConsistentExcept m ((m.obj f).name :: S) → m.lookup (m.obj f).name = some f →
    (m.obj f).name.segs ≠ [] → (m.obj f).name.segs.length < fuel →
    ConsistentExcept (registerWithParent fuel m f perm) S ∧
      ∀ k g, m.lookup k = some g → (registerWithParent fuel m f perm).lookup k = some g := by
  induction fuel with
  | zero => intro m f S _ _ _ h; exact absurd h (Nat.not_lt_zero _)
  | succ n ih =>
    intro m f S hc hl hk hfuel
    have hroot : (m.obj f).name ≠ rootKey := by intro e; rw [e] at hk; exact hk rfl
    cases hp : m.lookup (parentKey (m.obj f).name) with
    | some p =>
      rw [registerWithParent_some _ _ _ _ p hp]
      exact ⟨consistentExcept_regInto m S f p _ hc rfl hl hroot hp, fun k g h => h⟩
    | none =>
      -- lockfreeMkdir of the parent: allocate it, enter it, register it (recursively)
      have hpk : (parentKey (m.obj f).name).segs ≠ [] := by
        intro e
        obtain ⟨r, hr, _⟩ := hc.root
        rw [parentKey_nil_root _ e, hr] at hp; cases hp
      have hlen := parentKey_length_lt _ hk
      have hc2 := consistentExcept_pend m _ (parentKey (m.obj f).name)
        { (m.newDir (parentKey (m.obj f).name)) with mode := modeDir ||| perm } hc hp rfl (Or.inr rfl)
      have hnew := obj_pend_new m (parentKey (m.obj f).name)
        { (m.newDir (parentKey (m.obj f).name)) with mode := modeDir ||| perm }
      have hnm : ((m.pend (parentKey (m.obj f).name)
          { (m.newDir (parentKey (m.obj f).name)) with mode := modeDir ||| perm }).obj m.objs.length).name
          = parentKey (m.obj f).name := by rw [hnew]; rfl
      have hl2 : (m.pend (parentKey (m.obj f).name)
          { (m.newDir (parentKey (m.obj f).name)) with mode := modeDir ||| perm }).lookup (parentKey (m.obj f).name)
          = some m.objs.length := by rw [lookup_pend]; simp
      obtain ⟨hc3, hmono⟩ := ih _ m.objs.length ((m.obj f).name :: S)
        (by rw [hnm]; exact hc2) (by rw [hnm]; exact hl2) (by rw [hnm]; exact hpk) (by rw [hnm]; omega)
      have hl3 := hmono _ _ hl2
      rw [registerWithParent_none _ _ _ _ m.objs.length hp hl3]
      -- the child is still there, under its name
      have hne : (m.obj f).name ≠ parentKey (m.obj f).name := by
        intro e; rw [← e, hl] at hp; cases hp
      have hlf2 : (m.pend (parentKey (m.obj f).name)
          { (m.newDir (parentKey (m.obj f).name)) with mode := modeDir ||| perm }).lookup (m.obj f).name = some f := by
        rw [lookup_pend]; simp only [hne, if_false]; exact hl
      have hlf3 := hmono _ _ hlf2
      have hnf3 := hc3.nameEq _ _ hlf3
      refine ⟨consistentExcept_regInto _ S f m.objs.length _ hc3 hnf3 hlf3 hroot hl3, ?_⟩
      intro k g h
      rw [lookup_regInto]
      apply hmono
      rw [lookup_pend]
      have : k ≠ parentKey (m.obj f).name := by intro e; rw [e, hp] at h; cases h
      simp only [this, if_false]; exact h

/-- allocate a leaf object named `k`, enter it, register it: the tree is consistent again, however
    many ancestors of `k` had to be created -/
theorem consistent_pend_reg (m : MemFs) (hc : Consistent m) (k : Key) (d : FData) (perm : Nat)
    (hnew : m.lookup k = none) (hk : k.segs ≠ []) (hname : d.name = k)
    (hleaf : d.memDir = none ∨ d.memDir = some []) :
    Consistent (registerWithParent ((m.pend k d).regFuel m.objs.length) (m.pend k d) m.objs.length perm) := by
  have hnm : ((m.pend k d).obj m.objs.length).name = k := by rw [obj_pend_new]; exact hname
  have hc2 := consistentExcept_pend m [] k d (consistentExcept_of_consistent hc) hnew hname hleaf
  have hl2 : (m.pend k d).lookup k = some m.objs.length := by rw [lookup_pend]; simp
  have := (reg_spec perm ((m.pend k d).regFuel m.objs.length) (m.pend k d) m.objs.length []
    (by rw [hnm]; exact hc2) (by rw [hnm]; exact hl2) (by rw [hnm]; exact hk)
    (by unfold regFuel; omega)).1
  exact consistent_of_consistentExcept this

/-- **`Mkdir` keeps the tree consistent, whatever is missing above the name** (no hypothesis on the
    parent at all: `registerWithParent` creates the missing levels, and a regular file met on the way
    is turned into a directory by `mem.InitializeDir`, which the invariant does not mind) -/
theorem consistent_mkdir_any (m : MemFs) (hc : Consistent m) (k : Key) (perm : Nat) (hk : k.segs ≠ []) :
    Consistent (m.mkdir k perm).1 := by
  unfold mkdir
  simp only
  cases hl : m.lookup k with
  | some f => exact hc
  | none =>
    simp only
    have hcons := consistent_pend_reg m hc k { (m.newDir k) with mode := modeDir ||| (perm &&& chmodBits) }
      (perm &&& chmodBits) hl hk rfl (Or.inr rfl)
    have hfm := consistent_setFileMode _ hcons k ((perm &&& chmodBits) ||| modeDir)
    show Consistent (match (registerWithParent _ _ _ _).setFileMode k ((perm &&& chmodBits) ||| modeDir) with
      | (m4, none) => (m4, MRes.ok) | (m4, some e) => (m4, MRes.err e)).1
    split <;> rename_i heq <;> (unfold pend at hfm; unfold alloc at heq; simp only at heq; rw [heq] at hfm) <;> exact hfm

/-- **`Mkdir` of a new name keeps the tree consistent even when several levels of parent
    directories are missing.**  The hypotheses `hnew`, `hn`, `hdirs` of the requested statement are
    not needed by the proof (see `consistent_mkdir_any`); they are kept so that the statement can be
    used as announced. -/
theorem consistent_mkdir_deep (m : MemFs) (hc : Consistent m) (k : Key) (perm : Nat)
    (_hnew : m.lookup k = none) (hk : k.segs ≠ []) (_hn : normKey k = k)
    (_hdirs : ∀ a fa, (isUnder a k = true ∨ a = rootKey) → m.lookup a = some fa → (m.obj fa).memDir.isSome) :
    Consistent (m.mkdir k perm).1 :=
  consistent_mkdir_any m hc k perm hk

theorem consistent_mkdirAll_deep (m : MemFs) (hc : Consistent m) (k : Key) (perm : Nat) (hk : k.segs ≠ []) :
    Consistent (m.mkdirAll k perm).1 := by
  have hmk := consistent_mkdir_any m hc k perm hk
  unfold mkdirAll
  split
  · rename_i m' heq; rw [heq] at hmk; exact hmk
  · exact hmk

/-- **`Create` of a new name keeps the tree consistent, whatever is missing above the name** -/
theorem consistent_create_any (m : MemFs) (hc : Consistent m) (k : Key)
    (hnew : m.lookup k = none) (hk : k.segs ≠ []) : Consistent (m.create k).1 := by
  unfold create
  simp only [hnew]
  exact consistent_pend_reg m hc k (m.newFile k) 0 hnew hk rfl (Or.inl rfl)

theorem consistent_create_deep (m : MemFs) (hc : Consistent m) (k : Key)
    (hnew : m.lookup k = none) (hk : k.segs ≠ []) (_hn : normKey k = k)
    (_hdirs : ∀ a fa, (isUnder a k = true ∨ a = rootKey) → m.lookup a = some fa → (m.obj fa).memDir.isSome) :
    Consistent (m.create k).1 :=
  consistent_create_any m hc k hnew hk

/-! ### non-vacuity: `mkdir /a/b/c/d` in the initial state — three levels are missing -/

/-- the key `/a/b/c/d` -/
def deepKey : Key := ⟨true, [['a'], ['b'], ['c'], ['d']]⟩

/-- the hypotheses of `consistent_mkdir_deep` hold for `/a/b/c/d` in the initial state (only the
    root exists), so the theorem applies -/
example : Consistent (MemFs.init.mkdir deepKey 0o755).1 := by
  refine consistent_mkdir_deep MemFs.init consistent_init deepKey 0o755 (by decide) (by decide) (by decide) ?_
  intro a fa _ hl
  have : fa = 0 := by
    simp [lookup, init, alLookup_cons, alLookup_nil] at hl
    exact hl.2.symm
  subst this
  simp [obj, init]

/-- … `/a`, `/a/b`, `/a/b/c` were missing before … -/
example : MemFs.init.lookup ⟨true, [['a']]⟩ = none ∧ MemFs.init.lookup ⟨true, [['a'], ['b']]⟩ = none ∧
    MemFs.init.lookup ⟨true, [['a'], ['b'], ['c']]⟩ = none ∧ MemFs.init.lookup deepKey = none := by decide

/-- … and afterwards all four keys are present (and the call reports success) -/
example : ((MemFs.init.mkdir deepKey 0o755).1.lookup ⟨true, [['a']]⟩).isSome = true ∧
    ((MemFs.init.mkdir deepKey 0o755).1.lookup ⟨true, [['a'], ['b']]⟩).isSome = true ∧
    ((MemFs.init.mkdir deepKey 0o755).1.lookup ⟨true, [['a'], ['b'], ['c']]⟩).isSome = true ∧
    ((MemFs.init.mkdir deepKey 0o755).1.lookup deepKey).isSome = true ∧
    (MemFs.init.mkdir deepKey 0o755).2 = MRes.ok := by decide

end MemFs
end AferoVerif
