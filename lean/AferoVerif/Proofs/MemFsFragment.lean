/-
  The fragment of operations through which the index invariant `Consistent` is proved, operation by
  operation, and its lift to whole programs.
-/
import AferoVerif.Proofs.MemFsInv3
import AferoVerif.Proofs.MemFsInv4
import AferoVerif.Proofs.MemFsInv5
import AferoVerif.Proofs.MemFsInv6
namespace AferoVerif
namespace MemFs

/-- Rename of a directory with everything below it: the source exists and is not the root, the target name
    is free ("directories onto otherwise unused names") and does not lie inside the source, and the
    target's parent directory exists -/
def RenameSubtree (m : MemFs) (old new : Key) : Prop :=
  ∃ f, m.lookup old = some f ∧ old.segs ≠ [] ∧ new.segs ≠ [] ∧
    m.lookup new = none ∧ isUnder old new = false ∧
    (∃ p' pd', m.lookup (parentKey new) = some p' ∧ (m.obj p').memDir = some pd')

def Leaf (m : MemFs) (f : Nat) : Prop := (m.obj f).memDir = none ∨ (m.obj f).memDir = some []

/-- the ordinary preconditions under which the operation keeps the index consistent: Create does
    not name an existing directory; Remove names a file or an empty directory (or nothing);
    RemoveAll does not name the root itself. Mkdir, MkdirAll and the creating opens need nothing:
    whatever is missing above the name is created (`Proofs/MemFsInv5.lean`). Rename moves a file or an
    empty directory to a free name or over another file or empty directory whose parent directory exists
    (`RenameLeaf`, `Proofs/MemFsInv4.lean`), or a directory with its whole subtree to a free name
    (`RenameSubtree`, `Proofs/MemFsInv6.lean`), or names a missing source, or renames a name onto itself. -/
def WFop (m : MemFs) : Op → Prop
  | .create p => ∀ f, m.lookup (keyOfStr p) = some f → (m.obj f).dir = false
  | .remove p => m.lookup (keyOfStr p) = none ∨ (keyOfStr p ≠ rootKey ∧ ∃ f, m.lookup (keyOfStr p) = some f ∧ Leaf m f)
  | .removeAll p => (keyOfStr p).segs ≠ []
  | .rename a b => m.lookup (keyOfStr a) = none ∨ keyOfStr a = keyOfStr b ∨ RenameLeaf m (keyOfStr a) (keyOfStr b) ∨
      RenameSubtree m (keyOfStr a) (keyOfStr b)
  | _ => True

/-- a normalised key without elements is the root -/
theorem norm_nil_root (k : Key) (hn : normKey k = k) (hs : k.segs = []) : k = rootKey := by
  cases hr : k.rooted with
  | true => cases k; simp only at hs hr; rw [hs, hr]; rfl
  | false =>
    have : normKey k = rootKey := by unfold normKey; simp [hr, hs]
    rw [← hn, this]

/-- in a consistent tree a missing normalised name has at least one element (the root exists) -/
theorem missing_has_segs (m : MemFs) (hc : Consistent m) (k : Key) (hn : normKey k = k) (hl : m.lookup k = none) :
    k.segs ≠ [] := by
  intro hs
  obtain ⟨r, hr, _⟩ := hc.root
  rw [norm_nil_root k hn hs, hr] at hl; cases hl

theorem consistent_create (m : MemFs) (hc : Consistent m) (k : Key) (hn : normKey k = k)
    (h : ∀ f, m.lookup k = some f → (m.obj f).dir = false) : Consistent (m.create k).1 := by
  cases hl : m.lookup k with
  | some f =>
    unfold create
    simp only [hl, h f hl, Bool.false_eq_true, if_false]
    exact consistent_setObj_meta m hc f _ rfl rfl
  | none => exact consistent_create_any m hc k hl (missing_has_segs m hc k hn hl)

theorem consistent_mkdir (m : MemFs) (hc : Consistent m) (k : Key) (hn : normKey k = k) (perm : Nat) :
    Consistent (m.mkdir k perm).1 := by
  cases hl : m.lookup k with
  | some f => unfold mkdir; simp only [hl]; exact hc
  | none => exact consistent_mkdir_any m hc k perm (missing_has_segs m hc k hn hl)

end MemFs
end AferoVerif

namespace AferoVerif
namespace MemFs

theorem consistent_fileIO (m : MemFs) (hc : Consistent m) (hi : Nat) (f : Bytes → Handle → Bytes × Handle × FOut) (t : Bool) :
    Consistent (m.fileIO hi f t).1 := by
  unfold fileIO
  split
  · exact hc
  · refine consistent_handles _ (consistent_setObj_meta m hc _ _ ?_ ?_) _ <;> rfl

theorem consistent_openFile (m : MemFs) (hc : Consistent m) (k : Key) (hn : normKey k = k) (flag perm : Nat) :
    Consistent (m.openFile k flag perm).1 := by
  unfold openFile
  simp only
  split
  · exact hc
  · cases hl : m.lookup k with
    | some f =>
      simp only
      by_cases hT : (flag &&& O_TRUNC > 0 ∧ flag &&& (O_RDWR ||| O_WRONLY) > 0)
      · simp only [hT, and_self, if_true, Bool.false_eq_true, if_false]
        refine consistent_handles _ (consistent_setObj_meta m hc _ _ ?_ ?_) _ <;> rfl
      · simp only [hT, if_false, Bool.false_eq_true]
        exact consistent_handles _ hc _
    | none =>
      simp only
      by_cases hC : flag &&& O_CREATE > 0
      · simp only [hC, if_true]
        have hcr := consistent_create_any m hc k hl (missing_has_segs m hc k hn hl)
        generalize m.create k = C at hcr
        obtain ⟨m1, f⟩ := C
        simp only at hcr ⊢
        by_cases hT : (flag &&& O_TRUNC > 0 ∧ flag &&& (O_RDWR ||| O_WRONLY) > 0)
        · simp only [hT, and_self, if_true]
          refine consistent_setFileMode _ (consistent_handles _ (consistent_setObj_meta m1 hcr _ _ ?_ ?_) _) _ _ <;> rfl
        · simp only [hT, if_false]
          exact consistent_setFileMode _ (consistent_handles _ hcr _) _ _
      · simp only [hC, if_false]
        exact hc

theorem consistent_remove (m : MemFs) (hc : Consistent m) (k : Key)
    (h : m.lookup k = none ∨ (k ≠ rootKey ∧ ∃ f, m.lookup k = some f ∧ Leaf m f)) : Consistent (m.remove k).1 := by
  rcases h with hn | ⟨hroot, f, hl, hleaf⟩
  · unfold remove; simp only [hn]; exact hc
  · obtain ⟨p, pd, h1, h2, _⟩ := hc.hasParent k f hl hroot
    rw [remove_leaf_eq_detach m hc k f p hl h1]
    exact consistent_detach m hc k f p pd hroot hl hleaf h1 h2

/-- **the index invariant is preserved by every operation of the fragment**: Create, Mkdir,
    MkdirAll and creating OpenFile below an existing directory, Remove of a file or an empty
    directory, every metadata call, every open, every method of every handle. -/
theorem consistent_step_wf (m : MemFs) (op : Op) (hc : Consistent m) (hk : KeysNodup m) (hw : WFop m op) :
    Consistent (m.step op).1 := by
  cases op with
  | create p =>
    simp only [step]
    have := consistent_create m hc (keyOfStr p) (normKey_keyOfStr p) hw
    generalize m.create (keyOfStr p) = C at this
    obtain ⟨m1, f⟩ := C
    exact consistent_handles _ this _
  | mkdir p perm => exact consistent_mkdir m hc _ (normKey_keyOfStr p) perm
  | mkdirAll p perm =>
    have hmk := consistent_mkdir m hc (keyOfStr p) (normKey_keyOfStr p) perm
    simp only [step]
    unfold mkdirAll
    split
    · rename_i m' heq; rw [heq] at hmk; exact hmk
    · exact hmk
  | open_ p =>
    simp only [step, openRO]
    split
    · exact hc
    · exact consistent_handles _ hc _
  | openFile p flag perm => exact consistent_openFile m hc _ (normKey_keyOfStr p) flag perm
  | remove p => exact consistent_remove m hc _ hw
  | removeAll p => exact consistent_removeAll m hc _ hw (normKey_keyOfStr p)
  | rename a b =>
    simp only [step]
    rcases hw with h | h | h | h
    · unfold rename; simp only [h]; exact hc
    · unfold rename; split
      · exact hc
      · simp only [h, if_true]; exact hc
    · exact consistent_rename_of_renameLeaf m hc _ _ h
    · obtain ⟨f, h1, h2, h3, h4, h5, h6⟩ := h
      exact consistent_rename_dir m hc _ _ f h1 (normKey_keyOfStr a) (normKey_keyOfStr b) h2 h3 h4 h5 h6 hk
  | stat p => exact hc
  | chmod p mode =>
    simp only [step]
    unfold chmod
    simp only
    split
    · exact hc
    · rename_i f _
      have := consistent_setFileMode m hc (keyOfStr p) (((m.obj f).mode - ((m.obj f).mode &&& chmodBits)) ||| (mode &&& chmodBits))
      split <;> rename_i heq <;> rw [heq] at this <;> exact this
  | chown p u g =>
    simp only [step]; unfold chown; split
    · exact hc
    · refine consistent_setObj_meta m hc _ _ ?_ ?_ <;> rfl
  | chtimes p t =>
    simp only [step]; unfold chtimes; split
    · exact hc
    · refine consistent_setObj_meta m hc _ _ ?_ ?_ <;> rfl
  | hRead hi n => exact consistent_fileIO m hc hi _ _
  | hReadAt hi n off => exact consistent_fileIO m hc hi _ _
  | hWrite hi b => exact consistent_fileIO m hc hi _ _
  | hWriteAt hi b off => exact consistent_fileIO m hc hi _ _
  | hTrunc hi n => exact consistent_fileIO m hc hi _ _
  | hSeek hi off wh => exact consistent_fileIO m hc hi _ _
  | hClose hi =>
    simp only [step]; unfold hClose; split
    · exact hc
    · simp only
      split
      · exact consistent_handles _ hc _
      · refine consistent_handles _ (consistent_setObj_meta m hc _ _ ?_ ?_) _ <;> rfl
  | hName hi => exact hc
  | hStat hi => exact hc
  | hSync hi => exact hc
  | hReaddir hi n =>
    simp only [step]
    have : Consistent (m.readdir hi n).1 := by
      unfold readdir; split
      · exact hc
      · simp only
        split
        · exact hc
        · exact consistent_handles _ hc _
    generalize m.readdir hi n = R at this
    obtain ⟨m', fs, e⟩ := R
    exact this
  | hReaddirnames hi n =>
    simp only [step]
    have : Consistent (m.readdir hi n).1 := by
      unfold readdir; split
      · exact hc
      · simp only
        split
        · exact hc
        · exact consistent_handles _ hc _
    generalize m.readdir hi n = R at this
    obtain ⟨m', fs, e⟩ := R
    exact this

/-- a program all of whose operations meet the fragment's preconditions in the state they run in -/
def WFrun (m : MemFs) : List Op → Prop
  | [] => True
  | op :: ops => WFop m op ∧ WFrun (m.step op).1 ops

/-- **the tree is self-consistent after every well-formed program of the fragment**: every existing
    path is listed by its parent, every listed entry exists, every existing path has an existing
    parent directory, names lead to allocated objects carrying their own name (and the path map has one
    entry per name) -/
theorem consistent_run_wf (ops : List Op) : ∀ m, Consistent m → KeysNodup m → WFrun m ops →
    Consistent (run m ops) ∧ KeysNodup (run m ops) := by
  induction ops with
  | nil => intro m h hk _; exact ⟨h, hk⟩
  | cons op ops ih => intro m h hk hw; exact ih _ (consistent_step_wf m op h hk hw.1) (keysNodup_step m op hk) hw.2

end MemFs
end AferoVerif
