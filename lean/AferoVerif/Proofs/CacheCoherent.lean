/-
  Property C11, Fs level: the mutators of CacheOnReadFs (`Cache.step`) — Remove, RemoveAll, Rename,
  Mkdir, MkdirAll, Chmod, Chown, Chtimes — reach BOTH layers (the base first, the cache layer only
  after the base call succeeded), and keep the pair of layers coherent: every regular file of the
  cache layer exists in the base with identical content (`Coherent`).

  Part 1  `BaseThenLayer`, `both_reaches_both`, `remove_reaches_both`, …, `mkdirAll_reaches_both`:
          the new base is the base's own answer to the call; the layer is acted on only after the
          base answered `.ok`; a failing base call leaves the layer alone and its error is returned.
  Part 2  frames of the single-layer operations (`MetaSame`, `Shrink`, `Relinked`, `Grow`, `Copied` —
          each proved for the MemMapFs model in every state, or in every consistent tree), coherence
          through each frame, and `coherent_remove`, `coherent_removeAll`, `coherent_chmod`,
          `coherent_chown`, `coherent_chtimes`, `coherent_mkdir`, `coherent_mkdirAll`,
          `coherent_rename`; `remove_effect`, `removeAll_effect`, `rename_effect` say what reaching
          both layers means name by name.
  Part 3  the summary statements `mutators_preserve_coherence` (over `CoveredOp`) and
          `mutators_reach_both` (over `ReachingOp`).
  Part 4  `inv_run`: coherence (with consistency of both trees) after every call of a sequence.
  At the end: non-vacuity examples on concrete states built by `MemFs.step` from `MemFs.init`.

  Left out (not in `CoveredOp`): Chmod / Chown / Chtimes of an uncached or outdated name that is a
  DIRECTORY of the base (the copy-up creates a file in the cache, fails, and removes it again);
  Rename of a name that is not a cache hit, and Rename of a directory with its subtree.
-/
import AferoVerif.Props.C11
import AferoVerif.Proofs.MemFsFragment
namespace AferoVerif
open MemFs

/-- every regular file of the cache layer exists in the base with identical content -/
def Coherent (s : Layers) : Prop :=
  ∀ k lf, s.l.lookup k = some lf → (s.l.obj lf).dir = false →
    ∃ bf, s.b.lookup k = some bf ∧ (s.b.obj bf).dir = false ∧ (s.b.obj bf).data = (s.l.obj lf).data

/-! ## Part 1 — the mutators reach both layers, the base first -/

namespace Cache

/-- **"The base first, then the layer."**  `r` is the outcome of a call through the cache whose
    base-side call answered `rb` and whose layer-side call, made on the layer `l0`, answers `rl`:
    the new base is the base call's; when the base call answered `.ok` the new layer is the layer
    call's and so is the answer; when the base call failed the layer is still `l0` and the base's
    error is the answer.  The handle table is not touched. -/
structure BaseThenLayer (c : Cow) (l0 : MemFs) (rb rl : MemFs × MRes) (r : Cow × MRes) : Prop where
  base : r.1.s.b = rb.1
  ok : rb.2 = .ok → r.1.s.l = rl.1 ∧ r.2 = rl.2
  fail : rb.2 ≠ .ok → r.1.s.l = l0 ∧ r.2 = rb.2
  hs : r.1.hs = c.hs

/-- the layer as it is when the base is acted on: after the copy-up that Chtimes / Chmod / Chown /
    Rename make first when the name is not cached (miss) or its copy is outdated (stale) -/
def layerBefore (c : Cow) (dur : Int) (name : Str) : MemFs :=
  match cacheStatus c dur (keyOfStr name) with
  | .stale | .miss => (copyToLayer c.s.b c.s.l name).1
  | _ => c.s.l

/-- the error of that copy-up, if one is made and fails -/
def copyErr (c : Cow) (dur : Int) (name : Str) : Option FsErr :=
  match cacheStatus c dur (keyOfStr name) with
  | .stale | .miss => (copyToLayer c.s.b c.s.l name).2
  | _ => none

theorem layerBefore_cached (c : Cow) (dur : Int) (name : Str)
    (h : cacheStatus c dur (keyOfStr name) = .hit ∨ cacheStatus c dur (keyOfStr name) = .local_) :
    layerBefore c dur name = c.s.l ∧ copyErr c dur name = none := by
  unfold layerBefore copyErr
  rcases h with h | h <;> rw [h] <;> exact ⟨rfl, rfl⟩

/-- the shape all the mutators share once the status is known -/
def baseFirst (c : Cow) (rb rl : MemFs × MRes) : Cow × MRes :=
  match rb.2 with
  | .ok => ({ c with s := { b := rb.1, l := rl.1 } }, rl.2)
  | other => (setB c rb.1, other)

theorem baseFirst_spec (c : Cow) (rb rl : MemFs × MRes) : BaseThenLayer c c.s.l rb rl (baseFirst c rb rl) := by
  unfold baseFirst
  split
  · rename_i h
    exact ⟨rfl, fun _ => ⟨rfl, rfl⟩, fun hne => absurd h hne, rfl⟩
  · rename_i h
    exact ⟨rfl, fun e => absurd e (by intro e'; exact h e'), fun _ => ⟨rfl, rfl⟩, rfl⟩

/-- `both`, status by status -/
theorem both_eq (c : Cow) (dur : Int) (name : Str) (op : Op) :
    both c dur name op =
      match copyErr c dur name with
      | some e => (setL c (layerBefore c dur name), .err e)
      | none =>
        baseFirst (setL c (layerBefore c dur name))
          (if cacheStatus c dur (keyOfStr name) = .local_ then (c.s.b, .ok) else c.s.b.step op)
          ((layerBefore c dur name).step op) := by
  unfold both layerBefore copyErr copyUp
  cases hst : cacheStatus c dur (keyOfStr name) <;> simp only
  · cases hc : (copyToLayer c.s.b c.s.l name).2 <;> simp only [baseFirst, setL, setB] <;> rfl
  · cases hc : (copyToLayer c.s.b c.s.l name).2 <;> simp only [baseFirst, setL, setB] <;> rfl
  · simp only [baseFirst, setL, setB]; rfl
  · simp only [baseFirst, setL, setB]; rfl

/-- **Chtimes / Chmod / Chown / Rename reach both layers**: when the name is not local to the cache
    and the copy-up (if one is needed) succeeded, the base is acted on first; the layer — as the
    copy-up left it — is acted on only after the base call answered `.ok`. -/
theorem both_reaches_both (c : Cow) (dur : Int) (name : Str) (op : Op)
    (hst : cacheStatus c dur (keyOfStr name) ≠ .local_) (hcp : copyErr c dur name = none) :
    BaseThenLayer c (layerBefore c dur name) (c.s.b.step op) ((layerBefore c dur name).step op)
      (both c dur name op) := by
  rw [both_eq, hcp]
  simp only [hst, if_false]
  have := baseFirst_spec (setL c (layerBefore c dur name)) (c.s.b.step op) ((layerBefore c dur name).step op)
  exact ⟨this.base, this.ok, this.fail, this.hs⟩

/-- a failed copy-up stops the call: the base is not touched, the copy's error is the answer -/
theorem both_copy_failed (c : Cow) (dur : Int) (name : Str) (op : Op) (e : FsErr)
    (hcp : copyErr c dur name = some e) :
    both c dur name op = (setL c (layerBefore c dur name), .err e) := by
  rw [both_eq, hcp]

/-- a file local to the cache (cached, outdated, and gone from the base): only the layer is acted on -/
theorem both_local (c : Cow) (dur : Int) (name : Str) (op : Op)
    (hst : cacheStatus c dur (keyOfStr name) = .local_) :
    both c dur name op = (setL c (c.s.l.step op).1, (c.s.l.step op).2) := by
  rw [both_eq, (layerBefore_cached c dur name (Or.inr hst)).2, (layerBefore_cached c dur name (Or.inr hst)).1]
  simp only [hst, if_true, baseFirst, setL]

/-- Remove / RemoveAll, status by status (no copy-up) -/
theorem bothNoCopy_eq (c : Cow) (dur : Int) (name : Str) (op : Op) :
    bothNoCopy c dur name op =
      baseFirst c (if cacheStatus c dur (keyOfStr name) = .local_ then (c.s.b, .ok) else c.s.b.step op)
        (c.s.l.step op) := rfl

theorem bothNoCopy_reaches_both (c : Cow) (dur : Int) (name : Str) (op : Op)
    (hst : cacheStatus c dur (keyOfStr name) ≠ .local_) :
    BaseThenLayer c c.s.l (c.s.b.step op) (c.s.l.step op) (bothNoCopy c dur name op) := by
  rw [bothNoCopy_eq]
  simp only [hst, if_false]
  exact baseFirst_spec c _ _

theorem bothNoCopy_local (c : Cow) (dur : Int) (name : Str) (op : Op)
    (hst : cacheStatus c dur (keyOfStr name) = .local_) :
    bothNoCopy c dur name op = (setL c (c.s.l.step op).1, (c.s.l.step op).2) := by
  rw [bothNoCopy_eq]
  simp only [hst, if_true, baseFirst, setL]

/-! ### the eight mutators, one by one -/

/-- **Remove reaches both layers**: the base's `Remove` first; the cache layer's only after it
    succeeded (its answer is then the call's); a failing base call leaves the layer untouched. -/
theorem remove_reaches_both (c : Cow) (dur : Int) (p : Str)
    (hst : cacheStatus c dur (keyOfStr p) ≠ .local_) :
    BaseThenLayer c c.s.l (c.s.b.remove (keyOfStr p)) (c.s.l.remove (keyOfStr p))
      (Cache.step dur c (.remove p)) :=
  bothNoCopy_reaches_both c dur p (.remove p) hst

/-- **RemoveAll reaches both layers** -/
theorem removeAll_reaches_both (c : Cow) (dur : Int) (p : Str)
    (hst : cacheStatus c dur (keyOfStr p) ≠ .local_) :
    BaseThenLayer c c.s.l (c.s.b.removeAll (keyOfStr p)) (c.s.l.removeAll (keyOfStr p))
      (Cache.step dur c (.removeAll p)) :=
  bothNoCopy_reaches_both c dur p (.removeAll p) hst

/-- **Rename reaches both layers** (the status is that of the old name) -/
theorem rename_reaches_both (c : Cow) (dur : Int) (a b : Str)
    (hst : cacheStatus c dur (keyOfStr a) ≠ .local_) (hcp : copyErr c dur a = none) :
    BaseThenLayer c (layerBefore c dur a) (c.s.b.rename (keyOfStr a) (keyOfStr b))
      ((layerBefore c dur a).rename (keyOfStr a) (keyOfStr b)) (Cache.step dur c (.rename a b)) :=
  both_reaches_both c dur a (.rename a b) hst hcp

/-- **Chmod reaches both layers** -/
theorem chmod_reaches_both (c : Cow) (dur : Int) (p : Str) (mode : Nat)
    (hst : cacheStatus c dur (keyOfStr p) ≠ .local_) (hcp : copyErr c dur p = none) :
    BaseThenLayer c (layerBefore c dur p) (c.s.b.chmod (keyOfStr p) mode)
      ((layerBefore c dur p).chmod (keyOfStr p) mode) (Cache.step dur c (.chmod p mode)) :=
  both_reaches_both c dur p (.chmod p mode) hst hcp

/-- **Chown reaches both layers** -/
theorem chown_reaches_both (c : Cow) (dur : Int) (p : Str) (uid gid : Int)
    (hst : cacheStatus c dur (keyOfStr p) ≠ .local_) (hcp : copyErr c dur p = none) :
    BaseThenLayer c (layerBefore c dur p) (c.s.b.chown (keyOfStr p) uid gid)
      ((layerBefore c dur p).chown (keyOfStr p) uid gid) (Cache.step dur c (.chown p uid gid)) :=
  both_reaches_both c dur p (.chown p uid gid) hst hcp

/-- **Chtimes reaches both layers** -/
theorem chtimes_reaches_both (c : Cow) (dur : Int) (p : Str) (t : Int)
    (hst : cacheStatus c dur (keyOfStr p) ≠ .local_) (hcp : copyErr c dur p = none) :
    BaseThenLayer c (layerBefore c dur p) (c.s.b.chtimes (keyOfStr p) t)
      ((layerBefore c dur p).chtimes (keyOfStr p) t) (Cache.step dur c (.chtimes p t)) :=
  both_reaches_both c dur p (.chtimes p t) hst hcp

theorem step_mkdir_eq (c : Cow) (dur : Int) (p : Str) (perm : Nat) :
    Cache.step dur c (.mkdir p perm) =
      baseFirst c (c.s.b.mkdir (keyOfStr p) perm) (c.s.l.mkdirAll (keyOfStr p) perm) := rfl

theorem step_mkdirAll_eq (c : Cow) (dur : Int) (p : Str) (perm : Nat) :
    Cache.step dur c (.mkdirAll p perm) =
      baseFirst c (c.s.b.mkdirAll (keyOfStr p) perm) (c.s.l.mkdirAll (keyOfStr p) perm) := rfl

/-- **Mkdir reaches both layers**, whatever the status: the base's `Mkdir` first; after it succeeded
    the directory is made in the cache layer too (with `MkdirAll`, as the source does) -/
theorem mkdir_reaches_both (c : Cow) (dur : Int) (p : Str) (perm : Nat) :
    BaseThenLayer c c.s.l (c.s.b.mkdir (keyOfStr p) perm) (c.s.l.mkdirAll (keyOfStr p) perm)
      (Cache.step dur c (.mkdir p perm)) := by
  rw [step_mkdir_eq]; exact baseFirst_spec c _ _

/-- **MkdirAll reaches both layers**, whatever the status -/
theorem mkdirAll_reaches_both (c : Cow) (dur : Int) (p : Str) (perm : Nat) :
    BaseThenLayer c c.s.l (c.s.b.mkdirAll (keyOfStr p) perm) (c.s.l.mkdirAll (keyOfStr p) perm)
      (Cache.step dur c (.mkdirAll p perm)) := by
  rw [step_mkdirAll_eq]; exact baseFirst_spec c _ _

end Cache
end AferoVerif

/-! ## Part 2 — coherence is preserved

  ### frames: what the operations of one layer leave alone -/

namespace AferoVerif
open MemFs
namespace MemFs

/-- `setObj` at any index (an index out of range changes nothing) -/
theorem obj_setObj_any (m : MemFs) (i j : Nat) (d : FData) :
    (m.setObj i d).obj j = if j = i ∧ i < m.objs.length then d else m.obj j := by
  by_cases hj : j = i
  · subst hj
    by_cases hl : j < m.objs.length
    · simp only [hl, and_self, if_true]; exact obj_setObj_self m j d hl
    · have : m.setObj j d = m := by
        unfold setObj; rw [List.set_eq_of_length_le (Nat.le_of_not_lt hl)]
      rw [this]; simp only [hl, and_false, if_false]
  · simp only [hj, false_and, if_false]; exact obj_setObj_ne m i j d hj

/-- object by object: the same bytes and the same file/directory flag -/
def SameBytes (m m' : MemFs) : Prop :=
  ∀ j, (m'.obj j).data = (m.obj j).data ∧ (m'.obj j).dir = (m.obj j).dir

theorem SameBytes.refl (m : MemFs) : SameBytes m m := fun _ => ⟨rfl, rfl⟩

theorem SameBytes.trans {a b c : MemFs} (h1 : SameBytes a b) (h2 : SameBytes b c) : SameBytes a c :=
  fun j => ⟨(h2 j).1.trans (h1 j).1, (h2 j).2.trans (h1 j).2⟩

/-- the path map plays no part -/
theorem SameBytes.withData {a b : MemFs} (h : SameBytes a b) (x : List (Key × Nat)) :
    SameBytes a { b with data := x } := fun j => h j

/-- rewriting an object's name, mode, owner, times or directory index -/
theorem sameBytes_setObj (m : MemFs) (i : Nat) (d : FData) (hd : d.data = (m.obj i).data)
    (hdir : d.dir = (m.obj i).dir) : SameBytes m (m.setObj i d) := by
  intro j
  rw [obj_setObj_any]
  split
  · rename_i h; obtain ⟨rfl, _⟩ := h; exact ⟨hd, hdir⟩
  · exact ⟨rfl, rfl⟩

/-- **metadata frame**: the path map is the same, every object keeps its bytes and its kind -/
structure MetaSame (m m' : MemFs) : Prop where
  look : ∀ k, m'.lookup k = m.lookup k
  objs : SameBytes m m'

theorem MetaSame.refl (m : MemFs) : MetaSame m m := ⟨fun _ => rfl, SameBytes.refl m⟩

theorem metaSame_setFileMode (m : MemFs) (k : Key) (mode : Nat) : MetaSame m (m.setFileMode k mode).1 := by
  unfold setFileMode
  split
  · exact MetaSame.refl m
  · exact ⟨fun _ => rfl, sameBytes_setObj m _ _ rfl rfl⟩

/-- Chmod changes neither the path map nor any byte -/
theorem metaSame_chmod (m : MemFs) (k : Key) (mode : Nat) : MetaSame m (m.chmod k mode).1 := by
  unfold chmod
  simp only
  split
  · exact MetaSame.refl m
  · rename_i f _
    have := metaSame_setFileMode m k (((m.obj f).mode - ((m.obj f).mode &&& chmodBits)) ||| (mode &&& chmodBits))
    split <;> rename_i heq <;> rw [heq] at this <;> exact this

/-- Chown changes neither the path map nor any byte -/
theorem metaSame_chown (m : MemFs) (k : Key) (uid gid : Int) : MetaSame m (m.chown k uid gid).1 := by
  unfold chown
  split
  · exact MetaSame.refl m
  · exact ⟨fun _ => rfl, sameBytes_setObj m _ _ rfl rfl⟩

/-- Chtimes changes neither the path map nor any byte -/
theorem metaSame_chtimes (m : MemFs) (k : Key) (t : Int) : MetaSame m (m.chtimes k t).1 := by
  unfold chtimes
  split
  · exact MetaSame.refl m
  · exact ⟨fun _ => rfl, sameBytes_setObj m _ _ rfl rfl⟩

/-- **removal frame**: `m'` is `m` without the names in `P`; every other name keeps its object,
    every object its bytes and its kind -/
structure Shrink (P : Key → Prop) (m m' : MemFs) : Prop where
  gone : ∀ k, P k → m'.lookup k = none
  kept : ∀ k, ¬ P k → m'.lookup k = m.lookup k
  objs : SameBytes m m'

theorem unreg_frame (m m1 : MemFs) (k : Key) (h : m.unRegisterWithParent k = .ok m1) :
    m1.data = m.data ∧ SameBytes m m1 := by
  unfold unRegisterWithParent at h
  split at h
  · cases h
  · split at h
    · cases h
    · injection h with h; rw [← h]
      exact ⟨rfl, sameBytes_setObj m _ _ rfl rfl⟩

/-- `Remove`, in every state: it either fails and changes nothing, or answers `.ok` and exactly the
    name is gone -/
theorem remove_cases (m : MemFs) (k : Key) :
    ((m.remove k).2 ≠ .ok ∧ (m.remove k).1 = m) ∨
    ((m.remove k).2 = .ok ∧ Shrink (fun k' => k' = k) m (m.remove k).1) := by
  unfold remove
  cases hl : m.lookup k with
  | none => left; exact ⟨by simp, rfl⟩
  | some f =>
    simp only
    cases hu : m.unRegisterWithParent k with
    | notFound => left; exact ⟨by simp, rfl⟩
    | noParent => left; exact ⟨by simp, rfl⟩
    | ok m1 =>
      right
      obtain ⟨hd, hs⟩ := unreg_frame m m1 k hu
      refine ⟨rfl, ?_, ?_, hs.withData _⟩
      · intro k' hk'
        show alLookup (alErase m1.data k) k' = none
        rw [hk']; exact alLookup_erase_self _ _
      · intro k' hk'
        show alLookup (alErase m1.data k) k' = alLookup m.data k'
        rw [alLookup_erase_ne _ _ _ hk', hd]

/-- in a consistent tree `Remove` never panics: afterwards the name is gone (if it was there at
    all), nothing else changed -/
theorem shrink_remove (m : MemFs) (hc : Consistent m) (k : Key) : Shrink (fun k' => k' = k) m (m.remove k).1 := by
  rcases remove_cases m k with ⟨hne, heq⟩ | ⟨_, h⟩
  · have hl : m.lookup k = none := by
      cases hl : m.lookup k with
      | none => rfl
      | some f =>
        exfalso
        by_cases hr : k = rootKey
        · have hp : m.lookup (parentKey k) = some f := by rw [hr] at hl ⊢; exact hl
          rw [remove_leaf_eq_detach m hc k f f hl hp] at hne
          exact hne rfl
        · obtain ⟨p, _, hp, _, _⟩ := hc.hasParent k f hl hr
          rw [remove_leaf_eq_detach m hc k f p hl hp] at hne
          exact hne rfl
    rw [heq]
    exact ⟨fun k' hk' => by rw [hk']; exact hl, fun _ _ => rfl, SameBytes.refl m⟩
  · exact h

/-- `RemoveAll`, in every state: it either panics and changes nothing, or answers `.ok` and exactly
    the name and everything below it are gone -/
theorem removeAll_cases (m : MemFs) (k : Key) :
    ((m.removeAll k).2 = .panic ∧ (m.removeAll k).1 = m) ∨
    ((m.removeAll k).2 = .ok ∧ Shrink (fun k' => k' = k ∨ isUnder k k' = true) m (m.removeAll k).1) := by
  have key : ∀ m1 : MemFs, m1.data = m.data → SameBytes m m1 →
      Shrink (fun k' => k' = k ∨ isUnder k k' = true) m
        { m1 with data := m1.data.filter fun e => ¬ (e.1 = k ∨ isUnder k e.1) } := by
    intro m1 hd hs
    have hlk : ∀ k', alLookup (m1.data.filter fun e => ¬ (e.1 = k ∨ isUnder k e.1)) k' =
        if k' = k ∨ isUnder k k' = true then none else alLookup m.data k' := by
      intro k'
      have := alLookup_filter m1.data (fun x => decide (¬ (x = k ∨ isUnder k x = true))) k'
      simp only [decide_not] at this ⊢
      rw [this, hd]
      by_cases h : k' = k ∨ isUnder k k' = true
      · simp [h]
      · simp [h]
    refine ⟨?_, ?_, hs.withData _⟩
    · intro k' hk'
      show alLookup (m1.data.filter fun e => ¬ (e.1 = k ∨ isUnder k e.1)) k' = none
      rw [hlk, if_pos hk']
    · intro k' hk'
      show alLookup (m1.data.filter fun e => ¬ (e.1 = k ∨ isUnder k e.1)) k' = alLookup m.data k'
      rw [hlk, if_neg hk']
  unfold removeAll
  cases hu : m.unRegisterWithParent k with
  | noParent => left; exact ⟨rfl, rfl⟩
  | notFound => right; exact ⟨rfl, key m rfl (SameBytes.refl m)⟩
  | ok m1 =>
    right
    obtain ⟨hd, hs⟩ := unreg_frame m m1 k hu
    exact ⟨rfl, key m1 hd hs⟩

/-- in a consistent tree `RemoveAll` never panics -/
theorem shrink_removeAll (m : MemFs) (hc : Consistent m) (k : Key) :
    (m.removeAll k).2 = .ok ∧ Shrink (fun k' => k' = k ∨ isUnder k k' = true) m (m.removeAll k).1 := by
  rcases removeAll_cases m k with ⟨hp, _⟩ | h
  · exfalso
    cases hl : m.lookup k with
    | none =>
      unfold removeAll unRegisterWithParent at hp
      simp [hl] at hp
    | some f =>
      by_cases hr : k = rootKey
      · have hpk : m.lookup (parentKey k) = some f := by rw [hr] at hl ⊢; exact hl
        rw [removeAll_eq_prune m hc k f f hl hpk] at hp
        cases hp
      · obtain ⟨p, _, hpk, _, _⟩ := hc.hasParent k f hl hr
        rw [removeAll_eq_prune m hc k f p hl hpk] at hp
        cases hp
  · exact h

/-- **rename frame**: `old ↦ f` became `new ↦ f` (replacing whatever `new` held); every other name
    keeps its object, every object its bytes and its kind -/
structure Relinked (old new : Key) (f : Nat) (m m' : MemFs) : Prop where
  look : ∀ k, m'.lookup k = if k = new then some f else if k = old then none else m.lookup k
  objs : SameBytes m m'

theorem sameBytes_relink (m : MemFs) (old new : Key) (f p p' : Nat) : SameBytes m (m.relink old new f p p') := by
  have h1 : SameBytes m (m.setObj p { m.obj p with memDir := (m.obj p).memDir.map fun d => alErase d old }) :=
    sameBytes_setObj m _ _ rfl rfl
  have h12 : SameBytes m
      ((m.setObj p { m.obj p with memDir := (m.obj p).memDir.map fun d => alErase d old }).setObj f
        { (m.setObj p { m.obj p with memDir := (m.obj p).memDir.map fun d => alErase d old }).obj f with name := new }) :=
    h1.trans (sameBytes_setObj _ f _ rfl rfl)
  have h2 : SameBytes m (m.unlink old new f p) := fun j => h12 j
  have h3 : SameBytes m ({ (m.unlink old new f p) with data := alErase (m.unlink old new f p).data old } : MemFs) :=
    fun j => h2 j
  have h4 := h3.trans (sameBytes_setObj
    ({ (m.unlink old new f p) with data := alErase (m.unlink old new f p).data old } : MemFs) p'
    { (({ (m.unlink old new f p) with data := alErase (m.unlink old new f p).data old } : MemFs).obj p') with
      memDir := (({ (m.unlink old new f p) with data := alErase (m.unlink old new f p).data old } : MemFs).obj p').memDir.map
        fun d => alInsert d new f } rfl rfl)
  exact fun j => h4 j

/-! ### Mkdir / MkdirAll: directories are added, nothing else -/

/-- **growth frame**: every name of `m` still leads to the same object; a name of `m'` is one of
    `m`'s or leads to a new object; old objects keep their bytes; and whatever is a regular file in
    `m'` was one in `m` (new objects are directories, directories stay directories) -/
structure Grow (m m' : MemFs) : Prop where
  len : m.objs.length ≤ m'.objs.length
  look : ∀ k f, m.lookup k = some f → m'.lookup k = some f
  back : ∀ k g, m'.lookup k = some g → m.lookup k = some g ∨ m.objs.length ≤ g
  data : ∀ j, j < m.objs.length → (m'.obj j).data = (m.obj j).data
  reg : ∀ j, j < m'.objs.length → (m'.obj j).dir = false → j < m.objs.length ∧ (m.obj j).dir = false

theorem Grow.refl (m : MemFs) : Grow m m :=
  ⟨Nat.le_refl _, fun _ _ h => h, fun _ _ h => Or.inl h, fun _ _ => rfl, fun _ hj hd => ⟨hj, hd⟩⟩

theorem Grow.trans {a b c : MemFs} (h1 : Grow a b) (h2 : Grow b c) : Grow a c := by
  refine ⟨Nat.le_trans h1.len h2.len, fun k f h => h2.look k f (h1.look k f h), ?_, ?_, ?_⟩
  · intro k g h
    rcases h2.back k g h with h | h
    · exact h1.back k g h
    · exact Or.inr (Nat.le_trans h1.len h)
  · intro j hj
    rw [h2.data j (Nat.lt_of_lt_of_le hj h1.len), h1.data j hj]
  · intro j hj hd
    obtain ⟨hj', hd'⟩ := h2.reg j hj hd
    exact h1.reg j hj' hd'

theorem grow_setObj (m : MemFs) (p : Nat) (d : FData) (hd : d.data = (m.obj p).data)
    (hdir : d.dir = false → (m.obj p).dir = false) : Grow m (m.setObj p d) := by
  refine ⟨by rw [length_setObj]; exact Nat.le_refl _, fun _ _ h => h, fun _ _ h => Or.inl h, ?_, ?_⟩
  · intro j _
    rw [obj_setObj_any]
    split
    · rename_i h; obtain ⟨rfl, _⟩ := h; exact hd
    · rfl
  · intro j hj hdj
    rw [length_setObj] at hj
    refine ⟨hj, ?_⟩
    rw [obj_setObj_any] at hdj
    split at hdj
    · rename_i h; obtain ⟨rfl, _⟩ := h; exact hdir hdj
    · exact hdj

theorem grow_pend (m : MemFs) (k : Key) (d : FData) (hfree : m.lookup k = none) (hdir : d.dir = true) :
    Grow m (m.pend k d) := by
  refine ⟨by rw [length_pend]; omega, ?_, ?_, fun j hj => by rw [obj_pend_old _ _ _ _ hj], ?_⟩
  · intro k' f h
    have hne : k' ≠ k := by intro e; rw [e, hfree] at h; cases h
    rw [lookup_pend]; simp only [hne, if_false]; exact h
  · intro k' g h
    rw [lookup_pend] at h
    by_cases hk : k' = k
    · simp only [hk, if_true] at h; injection h with h; exact Or.inr (by omega)
    · simp only [hk, if_false] at h; exact Or.inl h
  · intro j hj hdj
    rw [length_pend] at hj
    by_cases hjl : j = m.objs.length
    · rw [hjl, obj_pend_new, hdir] at hdj; cases hdj
    · have hj' : j < m.objs.length := by omega
      rw [obj_pend_old _ _ _ _ hj'] at hdj
      exact ⟨hj', hdj⟩

theorem grow_regInto (m : MemFs) (f p : Nat) : Grow m (m.regInto f p) := by
  unfold regInto
  simp only
  apply grow_setObj
  · split <;> rfl
  · split
    · intro h; cases h
    · intro h; exact h

/-- `registerWithParent` (with all the directories it creates on the way) only adds directories -/
theorem reg_grow (fuel : Nat) : ∀ (m : MemFs) (f perm : Nat), Grow m (registerWithParent fuel m f perm) := by
  induction fuel with
  | zero => intro m f perm; unfold registerWithParent; exact Grow.refl m
  | succ n ih =>
    intro m f perm
    cases hp : m.lookup (parentKey (m.obj f).name) with
    | some p => rw [registerWithParent_some _ _ _ _ p hp]; exact grow_regInto m f p
    | none =>
      have g1 := grow_pend m (parentKey (m.obj f).name)
        { (m.newDir (parentKey (m.obj f).name)) with mode := modeDir ||| perm } hp rfl
      have g2 := ih (m.pend (parentKey (m.obj f).name) { (m.newDir (parentKey (m.obj f).name)) with mode := modeDir ||| perm })
        m.objs.length perm
      have hl2 : (m.pend (parentKey (m.obj f).name)
          { (m.newDir (parentKey (m.obj f).name)) with mode := modeDir ||| perm }).lookup (parentKey (m.obj f).name)
          = some m.objs.length := by rw [lookup_pend]; simp
      have hl3 := g2.look _ _ hl2
      rw [registerWithParent_none _ _ _ _ m.objs.length hp hl3]
      exact (g1.trans g2).trans (grow_regInto _ f m.objs.length)

theorem grow_setFileMode (m : MemFs) (k : Key) (mode : Nat) : Grow m (m.setFileMode k mode).1 := by
  unfold setFileMode
  split
  · exact Grow.refl m
  · exact grow_setObj m _ _ rfl (fun h => h)

/-- **`Mkdir` only adds directories** (in every state, whatever is missing above the name) -/
theorem grow_mkdir (m : MemFs) (k : Key) (perm : Nat) : Grow m (m.mkdir k perm).1 := by
  unfold mkdir
  simp only
  cases hl : m.lookup k with
  | some f => exact Grow.refl m
  | none =>
    simp only
    have g1 := grow_pend m k { (m.newDir k) with mode := modeDir ||| (perm &&& chmodBits) } hl rfl
    have g2 := reg_grow ((m.pend k { (m.newDir k) with mode := modeDir ||| (perm &&& chmodBits) }).regFuel m.objs.length)
      (m.pend k { (m.newDir k) with mode := modeDir ||| (perm &&& chmodBits) }) m.objs.length (perm &&& chmodBits)
    have g3 := (g1.trans g2).trans (grow_setFileMode _ k ((perm &&& chmodBits) ||| modeDir))
    show Grow m (match (registerWithParent _ _ _ _).setFileMode k ((perm &&& chmodBits) ||| modeDir) with
      | (m4, none) => (m4, MRes.ok) | (m4, some e) => (m4, MRes.err e)).1
    split <;> rename_i heq <;> (unfold pend at g3; unfold alloc at heq; simp only at heq; rw [heq] at g3) <;> exact g3

/-- **`MkdirAll` only adds directories** -/
theorem grow_mkdirAll (m : MemFs) (k : Key) (perm : Nat) : Grow m (m.mkdirAll k perm).1 := by
  have hmk := grow_mkdir m k perm
  unfold mkdirAll
  split
  · rename_i m' heq; rw [heq] at hmk; exact hmk
  · exact hmk

/-! ### … and, below directories, `Mkdir` turns no regular file into a directory

  `registerWithParent` runs `mem.InitializeDir` on the first existing ancestor of the name: an object
  without a directory index gets one and becomes a directory.  When the ancestors are directories
  already, no object changes its kind. -/

theorem parent_root_or_under (k : Key) : parentKey k = rootKey ∨ isUnder (parentKey k) k = true := by
  unfold parentKey
  by_cases hs : k.segs = []
  · left; simp only [hs, if_true]
  · simp only [hs, if_false]
    rcases normKey_cases ⟨k.rooted, k.segs.dropLast⟩ with h | h
    · left; exact h
    · rw [h]
      by_cases hd : k.segs.dropLast = []
      · left
        have hrt : k.rooted = true := by
          cases hr : k.rooted with
          | true => rfl
          | false => rw [hr, hd] at h; simp [normKey, rootKey] at h
        rw [hd, hrt]; rfl
      · right
        rw [isUnder_iff]
        have hlen : k.segs.dropLast.length < k.segs.length := by
          rw [List.length_dropLast]
          have : 0 < k.segs.length := List.length_pos_iff.2 hs
          omega
        exact ⟨rfl, hd, hlen, List.dropLast_prefix _⟩

theorem isUnder_trans (a b c : Key) (h1 : isUnder a b = true) (h2 : isUnder b c = true) : isUnder a c = true := by
  obtain ⟨r1, n1, l1, p1⟩ := (isUnder_iff _ _).1 h1
  obtain ⟨r2, _, l2, p2⟩ := (isUnder_iff _ _).1 h2
  rw [isUnder_iff]
  exact ⟨r1.trans r2, n1, Nat.lt_trans l1 l2, p1.trans p2⟩

/-- an object that `mem.InitializeDir` leaves as it is -/
def NoFlip (d : FData) : Prop := d.memDir.isSome = true ∨ d.dir = true

theorem dir_regInto (m : MemFs) (f p : Nat) (h : NoFlip (m.obj p)) (j : Nat) :
    ((m.regInto f p).obj j).dir = (m.obj j).dir := by
  unfold regInto
  simp only
  rw [obj_setObj_any]
  split
  · rename_i hj; obtain ⟨rfl, _⟩ := hj
    rcases h with h | h
    · have : (m.obj j).memDir.isNone = false := by
        cases hm : (m.obj j).memDir with
        | none => rw [hm] at h; cases h
        | some d => rfl
      simp only [this, Bool.false_eq_true, if_false]
    · split
      · exact h.symm
      · rfl
  · rfl

theorem reg_keeps_dir (perm : Nat) (fuel : Nat) : ∀ (m : MemFs) (f : Nat), InRange m →
    (∀ a fa, (a = rootKey ∨ isUnder a (m.obj f).name = true) → m.lookup a = some fa → NoFlip (m.obj fa)) →
    ∀ j, j < m.objs.length → ((registerWithParent fuel m f perm).obj j).dir = (m.obj j).dir := by
  induction fuel with
  | zero => intro m f _ _ j _; unfold registerWithParent; rfl
  | succ n ih =>
    intro m f hr hanc j hj
    have hpu := parent_root_or_under (m.obj f).name
    cases hp : m.lookup (parentKey (m.obj f).name) with
    | some p =>
      rw [registerWithParent_some _ _ _ _ p hp]
      exact dir_regInto m f p (hanc _ p hpu hp) j
    | none =>
      have hl2 : (m.pend (parentKey (m.obj f).name)
          { (m.newDir (parentKey (m.obj f).name)) with mode := modeDir ||| perm }).lookup (parentKey (m.obj f).name)
          = some m.objs.length := by rw [lookup_pend]; simp
      have hl3 := (reg_grow n _ m.objs.length perm).look _ _ hl2
      rw [registerWithParent_none _ _ _ _ m.objs.length hp hl3]
      rw [obj_regInto_ne _ _ _ _ (by omega)]
      have hr2 : InRange (m.pend (parentKey (m.obj f).name)
          { (m.newDir (parentKey (m.obj f).name)) with mode := modeDir ||| perm }) :=
        inRange_alloc_insert m hr _ _
      have hnm : ((m.pend (parentKey (m.obj f).name)
          { (m.newDir (parentKey (m.obj f).name)) with mode := modeDir ||| perm }).obj m.objs.length).name
          = parentKey (m.obj f).name := by rw [obj_pend_new]; rfl
      rw [ih _ m.objs.length hr2 ?_ j (by rw [length_pend]; omega), obj_pend_old _ _ _ _ hj]
      intro a fa ha hla
      rw [hnm] at ha
      rw [lookup_pend] at hla
      by_cases hak : a = parentKey (m.obj f).name
      · simp only [hak, if_true] at hla
        injection hla with hla
        rw [← hla, obj_pend_new]
        exact Or.inl rfl
      · simp only [hak, if_false] at hla
        rw [obj_pend_old _ _ _ _ (hr _ _ hla)]
        refine hanc a fa ?_ hla
        rcases ha with ha | ha
        · exact Or.inl ha
        · right
          rcases hpu with e | e
          · rw [e, not_isUnder_root] at ha; cases ha
          · exact isUnder_trans _ _ _ ha e

/-- **`Mkdir` below directories changes no object's kind**: when the root has its index (as in every
    consistent tree) and no existing ancestor of the name is a regular file -/
theorem mkdir_keeps_dir (m : MemFs) (k : Key) (perm : Nat) (hr : InRange m)
    (hroot : ∃ r, m.lookup rootKey = some r ∧ (m.obj r).memDir.isSome = true)
    (hanc : ∀ a fa, isUnder a k = true → m.lookup a = some fa → (m.obj fa).dir = true) :
    ∀ j, j < m.objs.length → ((m.mkdir k perm).1.obj j).dir = (m.obj j).dir := by
  intro j hj
  unfold mkdir
  simp only
  cases hl : m.lookup k with
  | some f => rfl
  | none =>
    simp only
    have hr2 : InRange (m.pend k { (m.newDir k) with mode := modeDir ||| (perm &&& chmodBits) }) :=
      inRange_alloc_insert m hr _ _
    have hnm : ((m.pend k { (m.newDir k) with mode := modeDir ||| (perm &&& chmodBits) }).obj m.objs.length).name = k := by
      rw [obj_pend_new]; rfl
    have h3 := reg_keeps_dir (perm &&& chmodBits)
      ((m.pend k { (m.newDir k) with mode := modeDir ||| (perm &&& chmodBits) }).regFuel m.objs.length)
      (m.pend k { (m.newDir k) with mode := modeDir ||| (perm &&& chmodBits) }) m.objs.length hr2 (by
        intro a fa ha hla
        rw [hnm] at ha
        rw [lookup_pend] at hla
        by_cases hak : a = k
        · simp only [hak, if_true] at hla
          injection hla with hla
          rw [← hla, obj_pend_new]
          exact Or.inl rfl
        · simp only [hak, if_false] at hla
          rw [obj_pend_old _ _ _ _ (hr _ _ hla)]
          rcases ha with ha | ha
          · obtain ⟨r, hr1, hr2⟩ := hroot
            rw [ha, hr1] at hla; injection hla with hla
            rw [← hla]; exact Or.inl hr2
          · exact Or.inr (hanc a fa ha hla)) j (by rw [length_pend]; omega)
    rw [obj_pend_old _ _ _ _ hj] at h3
    have h4 := ((metaSame_setFileMode (registerWithParent
      ((m.pend k { (m.newDir k) with mode := modeDir ||| (perm &&& chmodBits) }).regFuel m.objs.length)
      (m.pend k { (m.newDir k) with mode := modeDir ||| (perm &&& chmodBits) }) m.objs.length (perm &&& chmodBits))
      k ((perm &&& chmodBits) ||| modeDir)).objs j).2
    rw [h3] at h4
    show ((match (registerWithParent _ _ _ _).setFileMode k ((perm &&& chmodBits) ||| modeDir) with
      | (m4, none) => (m4, MRes.ok) | (m4, some e) => (m4, MRes.err e)).1.obj j).dir = _
    split <;> rename_i heq <;> (unfold pend at h4; unfold alloc at heq; simp only at heq; rw [heq] at h4) <;> exact h4

theorem mkdirAll_keeps_dir (m : MemFs) (k : Key) (perm : Nat) (hr : InRange m)
    (hroot : ∃ r, m.lookup rootKey = some r ∧ (m.obj r).memDir.isSome = true)
    (hanc : ∀ a fa, isUnder a k = true → m.lookup a = some fa → (m.obj fa).dir = true) :
    ∀ j, j < m.objs.length → ((m.mkdirAll k perm).1.obj j).dir = (m.obj j).dir := by
  have hmk := mkdir_keeps_dir m k perm hr hroot hanc
  unfold mkdirAll
  split
  · rename_i m' heq; rw [heq] at hmk; exact hmk
  · exact hmk

/-! ### copy-up: the layer gains a byte-identical copy, nothing else changes for regular files -/

/-- allocate an object under `k` (replacing whatever `k` held) and register it: every *other* name
    that leads to a regular file afterwards led to that very file before, bytes unchanged -/
theorem fresh_frame (m : MemFs) (k : Key) (d : FData) (perm : Nat) (hr : InRange m) :
    ∀ k' g, k' ≠ k →
      (registerWithParent ((m.pend k d).regFuel m.objs.length) (m.pend k d) m.objs.length perm).lookup k' = some g →
      g ≠ m.objs.length ∧
      (((registerWithParent ((m.pend k d).regFuel m.objs.length) (m.pend k d) m.objs.length perm).obj g).dir = false →
        m.lookup k' = some g ∧ (m.obj g).dir = false ∧
        (m.obj g).data = ((registerWithParent ((m.pend k d).regFuel m.objs.length) (m.pend k d) m.objs.length perm).obj g).data) := by
  intro k' g hk hl
  have hg := reg_grow ((m.pend k d).regFuel m.objs.length) (m.pend k d) m.objs.length perm
  have hrP : InRange (m.pend k d) := inRange_alloc_insert m hr d k
  have hrR := reg_inRange ((m.pend k d).regFuel m.objs.length) (m.pend k d) m.objs.length perm hrP
  have hgl := hrR k' g hl
  have hold : (m.pend k d).lookup k' = some g → m.lookup k' = some g := by
    intro h; rw [lookup_pend] at h; simp only [hk, if_false] at h; exact h
  constructor
  · rcases hg.back k' g hl with h | h
    · have := hr k' g (hold h); omega
    · rw [length_pend] at h; omega
  · intro hd
    obtain ⟨hgP, hdP⟩ := hg.reg g hgl hd
    rcases hg.back k' g hl with h | h
    · have hgm := hr k' g (hold h)
      rw [obj_pend_old _ _ _ _ hgm] at hdP
      refine ⟨hold h, hdP, ?_⟩
      rw [hg.data g hgP, obj_pend_old _ _ _ _ hgm]
    · omega

/-- `Create` of `k`: every other name that leads to a regular file afterwards led to that very
    file before, bytes unchanged; and no other name leads to the created object -/
theorem create_frame (m : MemFs) (hc : Consistent m) (k : Key) :
    ∀ k' g, k' ≠ k → (m.create k).1.lookup k' = some g →
      g ≠ (m.create k).2 ∧
      (((m.create k).1.obj g).dir = false →
        m.lookup k' = some g ∧ (m.obj g).dir = false ∧ (m.obj g).data = ((m.create k).1.obj g).data) := by
  have hr : InRange m := hc.inRange
  unfold create
  cases hl : m.lookup k with
  | none => simp only; exact fresh_frame m k (m.newFile k) 0 hr
  | some f =>
    simp only
    split
    · exact fresh_frame m k (m.newFile k) 0 hr
    · intro k' g hk hlg
      have hlg' : m.lookup k' = some g := hlg
      have hgf : g ≠ f := by
        intro e; rw [e] at hlg'; exact hk (hc.inj _ _ _ hlg' hl)
      refine ⟨hgf, ?_⟩
      simp only
      rw [obj_setObj_ne _ _ _ _ hgf]
      exact fun hd => ⟨hlg', hd, rfl⟩

/-- **what a copy-up does to the cache layer**: under the name there is now an object holding
    `bytes`; every other name that leads to a regular file led to that very file before, with the
    same bytes -/
structure Copied (k : Key) (bytes : Bytes) (l l' : MemFs) : Prop where
  here : ∃ lf, l'.lookup k = some lf ∧ (l'.obj lf).data = bytes
  others : ∀ k' g, k' ≠ k → l'.lookup k' = some g → (l'.obj g).dir = false →
    l.lookup k' = some g ∧ (l.obj g).dir = false ∧ (l.obj g).data = (l'.obj g).data

end MemFs

open MemFs in
/-- **the copy-up of a regular base file succeeds and adds exactly a byte-identical copy** -/
theorem copyFile_copied (base layer : MemFs) (name : Str) (bo : Nat) (hc : Consistent layer)
    (hfile : (base.obj bo).dir = false) :
    (copyFile base layer name bo).2 = none ∧
    Copied (keyOfStr name) (base.obj bo).data layer (copyFile base layer name bo).1 := by
  obtain ⟨h1, lf0, h2, h3, _, _⟩ := copyFile_content base layer name bo hc.inRange hfile
  refine ⟨h1, ⟨lf0, h2, h3⟩, ?_⟩
  unfold copyFile copyFileFrom
  simp only [hfile, Bool.false_eq_true, if_false, List.drop_zero, ne_eq, not_true_eq_false, Bool.not_false,
    Bool.true_and, gt_iff_lt, Nat.not_lt_zero, decide_false]
  generalize hL0 : (if fsExists layer (keyOfStr (Path.dir name)) = true then layer else (layer.mkdirAll (keyOfStr (Path.dir name)) 0o777).1) = L0
  have hc0 : Consistent L0 := by
    rw [← hL0]; split
    · exact hc
    · have hmk := consistent_mkdir layer hc (keyOfStr (Path.dir name)) (normKey_keyOfStr _) 0o777
      unfold mkdirAll
      split
      · rename_i m' heq; rw [heq] at hmk; exact hmk
      · exact hmk
  have hg0 : Grow layer L0 := by
    rw [← hL0]; split
    · exact Grow.refl layer
    · exact grow_mkdirAll layer _ _
  have hfr := create_frame L0 hc0 (keyOfStr name)
  obtain ⟨c1, _, _, _, _⟩ := create_spec L0 (keyOfStr name) hc0.inRange
  generalize hC : L0.create (keyOfStr name) = C at hfr c1
  obtain ⟨L1, lf⟩ := C
  simp only at hfr c1 ⊢
  simp only [chtimes, lookup_setObj, c1]
  intro k' g hk hl hd
  have hl1 : L1.lookup k' = some g := hl
  obtain ⟨hgl, hrest⟩ := hfr k' g hk hl1
  rw [obj_setObj_ne _ _ _ _ hgl, obj_setObj_ne _ _ _ _ hgl, obj_setObj_ne _ _ _ _ hgl] at hd ⊢
  obtain ⟨a1, a2, a3⟩ := hrest hd
  have hg0l := hc0.inRange k' g a1
  obtain ⟨b1, b2⟩ := hg0.reg g hg0l a2
  refine ⟨?_, b2, ?_⟩
  · rcases hg0.back k' g a1 with h | h
    · exact h
    · omega
  · rw [← a3, hg0.data g b1]

end AferoVerif

/-! ### coherence through the frames -/

namespace AferoVerif
open MemFs

/-- a state both of whose layers are the same filesystem is coherent -/
theorem coherent_same (m : MemFs) : Coherent { b := m, l := m } :=
  fun _ lf hl hd => ⟨lf, hl, hd, rfl⟩

/-- metadata calls on either layer (or both, or none) keep the pair coherent -/
theorem coherent_metaSame (b l b' l' : MemFs) (h : Coherent { b := b, l := l })
    (hb : MetaSame b b') (hl : MetaSame l l') : Coherent { b := b', l := l' } := by
  intro k lf hlk hd
  have hlk : l'.lookup k = some lf := hlk
  have hd : (l'.obj lf).dir = false := hd
  rw [hl.look] at hlk
  rw [(hl.objs lf).2] at hd
  obtain ⟨bf, h1, h2, h3⟩ := h k lf hlk hd
  have h1 : b.lookup k = some bf := h1
  have h2 : (b.obj bf).dir = false := h2
  have h3 : (b.obj bf).data = (l.obj lf).data := h3
  refine ⟨bf, ?_, ?_, ?_⟩
  · show b'.lookup k = some bf
    rw [hb.look]; exact h1
  · show (b'.obj bf).dir = false
    rw [(hb.objs bf).2]; exact h2
  · show (b'.obj bf).data = (l'.obj lf).data
    rw [(hb.objs bf).1, (hl.objs lf).1]; exact h3

/-- the same names removed from both layers -/
theorem coherent_shrink_both (P : Key → Prop) (b l b' l' : MemFs) (h : Coherent { b := b, l := l })
    (hb : Shrink P b b') (hl : Shrink P l l') : Coherent { b := b', l := l' } := by
  intro k lf hlk hd
  have hlk : l'.lookup k = some lf := hlk
  have hd : (l'.obj lf).dir = false := hd
  by_cases hP : P k
  · rw [hl.gone k hP] at hlk; cases hlk
  · rw [hl.kept k hP] at hlk
    rw [(hl.objs lf).2] at hd
    obtain ⟨bf, h1, h2, h3⟩ := h k lf hlk hd
    have h1 : b.lookup k = some bf := h1
    have h2 : (b.obj bf).dir = false := h2
    have h3 : (b.obj bf).data = (l.obj lf).data := h3
    refine ⟨bf, ?_, ?_, ?_⟩
    · show b'.lookup k = some bf
      rw [hb.kept k hP]; exact h1
    · show (b'.obj bf).dir = false
      rw [(hb.objs bf).2]; exact h2
    · show (b'.obj bf).data = (l'.obj lf).data
      rw [(hb.objs bf).1, (hl.objs lf).1]; exact h3

/-- names removed from the cache layer only -/
theorem coherent_shrink_layer (P : Key → Prop) (b l l' : MemFs) (h : Coherent { b := b, l := l })
    (hl : Shrink P l l') : Coherent { b := b, l := l' } := by
  intro k lf hlk hd
  have hlk : l'.lookup k = some lf := hlk
  have hd : (l'.obj lf).dir = false := hd
  by_cases hP : P k
  · rw [hl.gone k hP] at hlk; cases hlk
  · rw [hl.kept k hP] at hlk
    rw [(hl.objs lf).2] at hd
    obtain ⟨bf, h1, h2, h3⟩ := h k lf hlk hd
    refine ⟨bf, h1, h2, ?_⟩
    show (b.obj bf).data = (l'.obj lf).data
    rw [(hl.objs lf).1]; exact h3

/-- the same leaf moved in both layers -/
theorem coherent_relinked (old new : Key) (bf lf : Nat) (b l b' l' : MemFs) (h : Coherent { b := b, l := l })
    (hbo : b.lookup old = some bf) (hlo : l.lookup old = some lf)
    (hb : Relinked old new bf b b') (hl : Relinked old new lf l l') : Coherent { b := b', l := l' } := by
  intro k g hlk hd
  have hlk : l'.lookup k = some g := hlk
  have hd : (l'.obj g).dir = false := hd
  rw [hl.look] at hlk
  rw [(hl.objs g).2] at hd
  by_cases h1 : k = new
  · rw [if_pos h1] at hlk
    injection hlk with hlk
    subst hlk
    obtain ⟨bf', a1, a2, a3⟩ := h old lf hlo hd
    have a1 : b.lookup old = some bf' := a1
    rw [hbo] at a1; injection a1 with a1; subst a1
    refine ⟨bf, ?_, ?_, ?_⟩
    · show b'.lookup k = some bf
      rw [hb.look, if_pos h1]
    · show (b'.obj bf).dir = false
      rw [(hb.objs bf).2]; exact a2
    · show (b'.obj bf).data = (l'.obj lf).data
      rw [(hb.objs bf).1, (hl.objs lf).1]; exact a3
  · rw [if_neg h1] at hlk
    by_cases h2 : k = old
    · rw [if_pos h2] at hlk; cases hlk
    · rw [if_neg h2] at hlk
      obtain ⟨x, a1, a2, a3⟩ := h k g hlk hd
      refine ⟨x, ?_, ?_, ?_⟩
      · show b'.lookup k = some x
        rw [hb.look, if_neg h1, if_neg h2]; exact a1
      · show (b'.obj x).dir = false
        rw [(hb.objs x).2]; exact a2
      · show (b'.obj x).data = (l'.obj g).data
        rw [(hb.objs x).1, (hl.objs g).1]; exact a3

/-- directories added to either layer, no base object changing its kind -/
theorem coherent_grow (b l b' l' : MemFs) (h : Coherent { b := b, l := l })
    (hrb : InRange b) (hrl' : InRange l') (hb : Grow b b')
    (hbd : ∀ j, j < b.objs.length → (b'.obj j).dir = (b.obj j).dir) (hl : Grow l l') :
    Coherent { b := b', l := l' } := by
  intro k lf hlk hd
  have hlk : l'.lookup k = some lf := hlk
  have hd : (l'.obj lf).dir = false := hd
  obtain ⟨hlf, hd0⟩ := hl.reg lf (hrl' k lf hlk) hd
  have hlk0 : l.lookup k = some lf := by
    rcases hl.back k lf hlk with e | e
    · exact e
    · omega
  obtain ⟨bf, h1, h2, h3⟩ := h k lf hlk0 hd0
  have h1 : b.lookup k = some bf := h1
  have h2 : (b.obj bf).dir = false := h2
  have h3 : (b.obj bf).data = (l.obj lf).data := h3
  have hbf := hrb k bf h1
  refine ⟨bf, hb.look k bf h1, ?_, ?_⟩
  · show (b'.obj bf).dir = false
    rw [hbd bf hbf]; exact h2
  · show (b'.obj bf).data = (l'.obj lf).data
    rw [hb.data bf hbf, hl.data lf hlf]; exact h3

/-- a byte-identical copy of a regular base file added to the cache layer -/
theorem coherent_copied (k : Key) (bo : Nat) (b l l' : MemFs) (h : Coherent { b := b, l := l })
    (hbo : b.lookup k = some bo) (hfile : (b.obj bo).dir = false)
    (hl : Copied k (b.obj bo).data l l') : Coherent { b := b, l := l' } := by
  intro k' g hlk hd
  have hlk : l'.lookup k' = some g := hlk
  have hd : (l'.obj g).dir = false := hd
  by_cases hk : k' = k
  · subst hk
    obtain ⟨lf, e1, e2⟩ := hl.here
    rw [hlk] at e1; injection e1 with e1; subst e1
    exact ⟨bo, hbo, hfile, e2.symm⟩
  · obtain ⟨a1, a2, a3⟩ := hl.others k' g hk hlk hd
    obtain ⟨x, c1, c2, c3⟩ := h k' g a1 a2
    refine ⟨x, c1, c2, ?_⟩
    show (b.obj x).data = (l'.obj g).data
    rw [← a3]; exact c3

end AferoVerif

/-! ## Part 2, continued — the calls through `Cache.step` keep the layers coherent -/

namespace AferoVerif
open MemFs
namespace Cache

theorem baseFirst_ok (c : Cow) (rb rl : MemFs × MRes) (h : rb.2 = .ok) :
    baseFirst c rb rl = ({ c with s := { b := rb.1, l := rl.1 } }, rl.2) := by
  unfold baseFirst; rw [h]

theorem baseFirst_fail (c : Cow) (rb rl : MemFs × MRes) (h : rb.2 ≠ .ok) :
    baseFirst c rb rl = (setB c rb.1, rb.2) := by
  unfold baseFirst
  split
  · rename_i e; exact absurd e h
  · rfl

/-- coherence after "the base first, then the layer": to be shown for the pair (new base, old
    layer) when the base call failed and for the pair (new base, new layer) when it succeeded -/
theorem coherent_baseFirst (c : Cow) (rb rl : MemFs × MRes)
    (hfail : rb.2 ≠ .ok → Coherent { b := rb.1, l := c.s.l })
    (hok : rb.2 = .ok → Coherent { b := rb.1, l := rl.1 }) : Coherent (baseFirst c rb rl).1.s := by
  by_cases h : rb.2 = .ok
  · rw [baseFirst_ok c rb rl h]; exact hok h
  · rw [baseFirst_fail c rb rl h]; exact hfail h

/-- **Remove keeps the layers coherent** — in every coherent state whose cache layer is a
    consistent tree, whatever the name, whatever its status, whatever the call answers: when the base
    call succeeds the name leaves both layers, when it fails nothing changes, and a file local to the
    cache leaves the cache only. -/
theorem coherent_remove (dur : Int) (c : Cow) (p : Str) (hco : Coherent c.s) (hl : Consistent c.s.l) :
    Coherent (Cache.step dur c (.remove p)).1.s := by
  show Coherent (bothNoCopy c dur p (.remove p)).1.s
  rw [bothNoCopy_eq]
  have hsl : Shrink (fun k' => k' = keyOfStr p) c.s.l (c.s.l.step (.remove p)).1 := shrink_remove c.s.l hl (keyOfStr p)
  by_cases hst : cacheStatus c dur (keyOfStr p) = .local_
  · simp only [hst, if_true]
    exact coherent_baseFirst c _ _ (fun _ => hco) (fun _ => coherent_shrink_layer _ _ _ _ hco hsl)
  · simp only [hst, if_false]
    have hcs : ((c.s.b.step (.remove p)).2 ≠ .ok ∧ (c.s.b.step (.remove p)).1 = c.s.b) ∨
        ((c.s.b.step (.remove p)).2 = .ok ∧ Shrink (fun k' => k' = keyOfStr p) c.s.b (c.s.b.step (.remove p)).1) :=
      remove_cases c.s.b (keyOfStr p)
    refine coherent_baseFirst c _ _ ?_ ?_
    · intro hne
      rcases hcs with ⟨_, heq⟩ | ⟨hok, _⟩
      · rw [heq]; exact hco
      · exact absurd hok hne
    · intro hok
      rcases hcs with ⟨hne, _⟩ | ⟨_, hsb⟩
      · exact absurd hok hne
      · exact coherent_shrink_both _ _ _ _ _ hco hsb hsl

/-- **RemoveAll keeps the layers coherent** — same generality: the name and everything below it
    leave both layers (or, for a name local to the cache, the cache only). -/
theorem coherent_removeAll (dur : Int) (c : Cow) (p : Str) (hco : Coherent c.s) (hl : Consistent c.s.l) :
    Coherent (Cache.step dur c (.removeAll p)).1.s := by
  show Coherent (bothNoCopy c dur p (.removeAll p)).1.s
  rw [bothNoCopy_eq]
  have hsl : Shrink (fun k' => k' = keyOfStr p ∨ isUnder (keyOfStr p) k' = true) c.s.l (c.s.l.step (.removeAll p)).1 :=
    (shrink_removeAll c.s.l hl (keyOfStr p)).2
  by_cases hst : cacheStatus c dur (keyOfStr p) = .local_
  · simp only [hst, if_true]
    exact coherent_baseFirst c _ _ (fun _ => hco) (fun _ => coherent_shrink_layer _ _ _ _ hco hsl)
  · simp only [hst, if_false]
    have hcs : ((c.s.b.step (.removeAll p)).2 = .panic ∧ (c.s.b.step (.removeAll p)).1 = c.s.b) ∨
        ((c.s.b.step (.removeAll p)).2 = .ok ∧
          Shrink (fun k' => k' = keyOfStr p ∨ isUnder (keyOfStr p) k' = true) c.s.b (c.s.b.step (.removeAll p)).1) :=
      removeAll_cases c.s.b (keyOfStr p)
    refine coherent_baseFirst c _ _ ?_ ?_
    · intro hne
      rcases hcs with ⟨_, heq⟩ | ⟨hok, _⟩
      · rw [heq]; exact hco
      · exact absurd hok hne
    · intro hok
      rcases hcs with ⟨hp, _⟩ | ⟨_, hsb⟩
      · rw [hp] at hok; cases hok
      · exact coherent_shrink_both _ _ _ _ _ hco hsb hsl

/-- the name is cached (no copy-up is made), or it does not name a directory of the base (the
    copy-up, if one is made, copies a regular file or finds nothing to copy) -/
def NoDirCopy (c : Cow) (dur : Int) (name : Str) : Prop :=
  cacheStatus c dur (keyOfStr name) = .hit ∨ cacheStatus c dur (keyOfStr name) = .local_ ∨
    ∀ bf, c.s.b.lookup (keyOfStr name) = some bf → (c.s.b.obj bf).dir = false

/-- **the copy-up made first by Chtimes / Chmod / Chown / Rename keeps the layers coherent** -/
theorem coherent_layerBefore (c : Cow) (dur : Int) (name : Str) (hco : Coherent c.s) (hl : Consistent c.s.l)
    (hreg : NoDirCopy c dur name) : Coherent { b := c.s.b, l := layerBefore c dur name } := by
  have hcopy : Coherent { b := c.s.b, l := (copyToLayer c.s.b c.s.l name).1 } ∨
      cacheStatus c dur (keyOfStr name) = .hit ∨ cacheStatus c dur (keyOfStr name) = .local_ := by
    rcases hreg with h | h | h
    · exact Or.inr (Or.inl h)
    · exact Or.inr (Or.inr h)
    · left
      unfold copyToLayer
      cases hb : c.s.b.lookup (keyOfStr name) with
      | none => exact hco
      | some bo =>
        exact coherent_copied (keyOfStr name) bo _ _ _ hco hb (h bo hb)
          (copyFile_copied c.s.b c.s.l name bo hl (h bo hb)).2
  unfold layerBefore
  cases hst : cacheStatus c dur (keyOfStr name) <;> simp only
  · rcases hcopy with h | h | h
    · exact h
    · rw [hst] at h; cases h
    · rw [hst] at h; cases h
  · rcases hcopy with h | h | h
    · exact h
    · rw [hst] at h; cases h
    · rw [hst] at h; cases h
  · exact hco
  · exact hco

/-- a metadata call through `both` keeps the layers coherent -/
theorem coherent_both_meta (c : Cow) (dur : Int) (name : Str) (op : Op)
    (hmeta : ∀ m : MemFs, MetaSame m (m.step op).1)
    (hco : Coherent c.s) (hl : Consistent c.s.l) (hreg : NoDirCopy c dur name) :
    Coherent (both c dur name op).1.s := by
  have hLB := coherent_layerBefore c dur name hco hl hreg
  rw [both_eq]
  cases hce : copyErr c dur name with
  | some e => exact hLB
  | none =>
    simp only
    have hrb : MetaSame c.s.b
        (if cacheStatus c dur (keyOfStr name) = .local_ then (c.s.b, MRes.ok) else c.s.b.step op).1 := by
      split
      · exact MetaSame.refl _
      · exact hmeta _
    refine coherent_baseFirst _ _ _ ?_ ?_
    · intro _; exact coherent_metaSame _ _ _ _ hLB hrb (MetaSame.refl _)
    · intro _; exact coherent_metaSame _ _ _ _ hLB hrb (hmeta _)

/-- **Chmod keeps the layers coherent** (any status; an uncached or outdated name is copied up
    first — it must not name a directory of the base) -/
theorem coherent_chmod (dur : Int) (c : Cow) (p : Str) (mode : Nat) (hco : Coherent c.s) (hl : Consistent c.s.l)
    (hreg : NoDirCopy c dur p) : Coherent (Cache.step dur c (.chmod p mode)).1.s :=
  coherent_both_meta c dur p (.chmod p mode) (fun m => metaSame_chmod m _ _) hco hl hreg

/-- **Chown keeps the layers coherent** -/
theorem coherent_chown (dur : Int) (c : Cow) (p : Str) (uid gid : Int) (hco : Coherent c.s) (hl : Consistent c.s.l)
    (hreg : NoDirCopy c dur p) : Coherent (Cache.step dur c (.chown p uid gid)).1.s :=
  coherent_both_meta c dur p (.chown p uid gid) (fun m => metaSame_chown m _ _ _) hco hl hreg

/-- **Chtimes keeps the layers coherent** -/
theorem coherent_chtimes (dur : Int) (c : Cow) (p : Str) (t : Int) (hco : Coherent c.s) (hl : Consistent c.s.l)
    (hreg : NoDirCopy c dur p) : Coherent (Cache.step dur c (.chtimes p t)).1.s :=
  coherent_both_meta c dur p (.chtimes p t) (fun m => metaSame_chtimes m _ _) hco hl hreg

/-- no existing ancestor of the name is a regular file of the base: the ordinary precondition of
    Mkdir / MkdirAll (a real filesystem answers ENOTDIR otherwise; `MemMapFs` would turn the file
    into a directory) -/
def NoFileAbove (m : MemFs) (k : Key) : Prop :=
  ∀ a fa, isUnder a k = true → m.lookup a = some fa → (m.obj fa).dir = true

/-- **Mkdir keeps the layers coherent**: directories are added to the base and — when that
    succeeded — to the cache layer; no regular file of either layer is touched -/
theorem coherent_mkdir (dur : Int) (c : Cow) (p : Str) (perm : Nat) (hco : Coherent c.s)
    (hb : Consistent c.s.b) (hl : InRange c.s.l) (hanc : NoFileAbove c.s.b (keyOfStr p)) :
    Coherent (Cache.step dur c (.mkdir p perm)).1.s := by
  rw [step_mkdir_eq]
  refine coherent_baseFirst c _ _ ?_ ?_
  · intro _
    exact coherent_grow _ _ _ _ hco hb.inRange hl (grow_mkdir _ _ _)
      (mkdir_keeps_dir _ _ _ hb.inRange hb.root hanc) (Grow.refl _)
  · intro _
    exact coherent_grow _ _ _ _ hco hb.inRange (inRange_mkdirAll _ _ _ hl) (grow_mkdir _ _ _)
      (mkdir_keeps_dir _ _ _ hb.inRange hb.root hanc) (grow_mkdirAll _ _ _)

/-- **MkdirAll keeps the layers coherent** -/
theorem coherent_mkdirAll (dur : Int) (c : Cow) (p : Str) (perm : Nat) (hco : Coherent c.s)
    (hb : Consistent c.s.b) (hl : InRange c.s.l) (hanc : NoFileAbove c.s.b (keyOfStr p)) :
    Coherent (Cache.step dur c (.mkdirAll p perm)).1.s := by
  rw [step_mkdirAll_eq]
  refine coherent_baseFirst c _ _ ?_ ?_
  · intro _
    exact coherent_grow _ _ _ _ hco hb.inRange hl (grow_mkdirAll _ _ _)
      (mkdirAll_keeps_dir _ _ _ hb.inRange hb.root hanc) (Grow.refl _)
  · intro _
    exact coherent_grow _ _ _ _ hco hb.inRange (inRange_mkdirAll _ _ _ hl) (grow_mkdirAll _ _ _)
      (mkdirAll_keeps_dir _ _ _ hb.inRange hb.root hanc) (grow_mkdirAll _ _ _)

theorem rename_self (m : MemFs) (k : Key) : (m.rename k k).1 = m := by
  unfold rename
  split
  · rfl
  · simp

/-- `Rename` of a leaf, as a frame -/
theorem relinked_rename (m : MemFs) (hc : Consistent m) (old new : Key) (hne : old ≠ new)
    (h : RenameLeaf m old new) :
    ∃ f, m.lookup old = some f ∧ (m.rename old new).2 = .ok ∧ Relinked old new f m (m.rename old new).1 := by
  obtain ⟨f, h1, h2, h3, _, h5, h6, ⟨p', pd', h7, h8⟩, _, h9⟩ := h
  obtain ⟨p, _, hp, _, _⟩ := hc.hasParent old f h1 h3
  rw [rename_leaf_eq_relink m hc old new f p p' pd' h9 h1 h2 hne h5 h6 hp h7 h8]
  exact ⟨f, h1, rfl, fun k => lookup_relink m old new k f p p' hne, sameBytes_relink m old new f p p'⟩

/-- **Rename keeps the layers coherent**: a file (or an empty directory) that both layers hold
    (status hit) moves, in both layers, to a name that is free or holds another file (or empty
    directory) below an existing directory — the ordinary preconditions `RenameLeaf`, in both layers -/
theorem coherent_rename (dur : Int) (c : Cow) (a b : Str) (hco : Coherent c.s)
    (hst : cacheStatus c dur (keyOfStr a) = .hit)
    (hcb : Consistent c.s.b) (hcl : Consistent c.s.l)
    (hrb : RenameLeaf c.s.b (keyOfStr a) (keyOfStr b)) (hrl : RenameLeaf c.s.l (keyOfStr a) (keyOfStr b)) :
    Coherent (Cache.step dur c (.rename a b)).1.s := by
  show Coherent (both c dur a (.rename a b)).1.s
  have hne : cacheStatus c dur (keyOfStr a) ≠ .local_ := by rw [hst]; decide
  rw [both_eq, (layerBefore_cached c dur a (Or.inl hst)).2, (layerBefore_cached c dur a (Or.inl hst)).1]
  simp only [hne, if_false]
  show Coherent (baseFirst (setL c c.s.l) (c.s.b.rename (keyOfStr a) (keyOfStr b))
    (c.s.l.rename (keyOfStr a) (keyOfStr b))).1.s
  by_cases hk : keyOfStr a = keyOfStr b
  · rw [← hk]
    refine coherent_baseFirst _ _ _ ?_ ?_
    · intro _; rw [rename_self]; exact hco
    · intro _; rw [rename_self, rename_self]; exact hco
  · obtain ⟨bf, hbo, hbok, hbr⟩ := relinked_rename c.s.b hcb _ _ hk hrb
    obtain ⟨lf, hlo, _, hlr⟩ := relinked_rename c.s.l hcl _ _ hk hrl
    refine coherent_baseFirst _ _ _ ?_ ?_
    · intro h; exact absurd hbok h
    · intro _; exact coherent_relinked _ _ bf lf _ _ _ _ hco hbo hlo hbr hlr

end Cache
end AferoVerif

namespace AferoVerif
open MemFs
namespace Cache

/-! ### what reaching both layers means, name by name -/

/-- **Remove, the effect in both layers**: for a name the base holds (and that is not local to the
    cache), in consistent trees: afterwards the name is gone from the base AND from the cache layer,
    every other name keeps its object, every object its bytes — in both layers -/
theorem remove_effect (dur : Int) (c : Cow) (p : Str) (bf : Nat)
    (hst : cacheStatus c dur (keyOfStr p) ≠ .local_)
    (hcb : Consistent c.s.b) (hcl : Consistent c.s.l) (hb : c.s.b.lookup (keyOfStr p) = some bf) :
    Shrink (fun k' => k' = keyOfStr p) c.s.b (Cache.step dur c (.remove p)).1.s.b ∧
    Shrink (fun k' => k' = keyOfStr p) c.s.l (Cache.step dur c (.remove p)).1.s.l ∧
    (Cache.step dur c (.remove p)).2 = (c.s.l.remove (keyOfStr p)).2 := by
  have hr := remove_reaches_both c dur p hst
  have hok : (c.s.b.remove (keyOfStr p)).2 = .ok := by
    rcases remove_cases c.s.b (keyOfStr p) with ⟨_, heq⟩ | ⟨hok, _⟩
    · exfalso
      have hs := shrink_remove c.s.b hcb (keyOfStr p)
      rw [heq] at hs
      rw [hs.gone _ rfl] at hb; cases hb
    · exact hok
  obtain ⟨h1, h2⟩ := hr.ok hok
  rw [hr.base, h1]
  exact ⟨shrink_remove c.s.b hcb _, shrink_remove c.s.l hcl _, h2⟩

/-- **RemoveAll, the effect in both layers** -/
theorem removeAll_effect (dur : Int) (c : Cow) (p : Str)
    (hst : cacheStatus c dur (keyOfStr p) ≠ .local_) (hcb : Consistent c.s.b) (hcl : Consistent c.s.l) :
    Shrink (fun k' => k' = keyOfStr p ∨ isUnder (keyOfStr p) k' = true) c.s.b (Cache.step dur c (.removeAll p)).1.s.b ∧
    Shrink (fun k' => k' = keyOfStr p ∨ isUnder (keyOfStr p) k' = true) c.s.l (Cache.step dur c (.removeAll p)).1.s.l ∧
    (Cache.step dur c (.removeAll p)).2 = .ok := by
  have hr := removeAll_reaches_both c dur p hst
  obtain ⟨hok, hsb⟩ := shrink_removeAll c.s.b hcb (keyOfStr p)
  obtain ⟨hokl, hsl⟩ := shrink_removeAll c.s.l hcl (keyOfStr p)
  obtain ⟨h1, h2⟩ := hr.ok hok
  rw [hr.base, h1, h2]
  exact ⟨hsb, hsl, hokl⟩

/-- **Rename, the effect in both layers**: under the hypotheses of `coherent_rename`, for two
    different names: the call answers `.ok`; in the base AND in the cache layer the old name is gone
    and the new name leads to the object the old name led to; every other name keeps its object,
    every object its bytes -/
theorem rename_effect (dur : Int) (c : Cow) (a b : Str)
    (hst : cacheStatus c dur (keyOfStr a) = .hit) (hcb : Consistent c.s.b) (hcl : Consistent c.s.l)
    (hrb : RenameLeaf c.s.b (keyOfStr a) (keyOfStr b)) (hrl : RenameLeaf c.s.l (keyOfStr a) (keyOfStr b))
    (hne : keyOfStr a ≠ keyOfStr b) :
    ∃ bf lf, c.s.b.lookup (keyOfStr a) = some bf ∧ c.s.l.lookup (keyOfStr a) = some lf ∧
      (Cache.step dur c (.rename a b)).2 = .ok ∧
      Relinked (keyOfStr a) (keyOfStr b) bf c.s.b (Cache.step dur c (.rename a b)).1.s.b ∧
      Relinked (keyOfStr a) (keyOfStr b) lf c.s.l (Cache.step dur c (.rename a b)).1.s.l := by
  have hnl : cacheStatus c dur (keyOfStr a) ≠ .local_ := by rw [hst]; decide
  have hr := rename_reaches_both c dur a b hnl (layerBefore_cached c dur a (Or.inl hst)).2
  rw [(layerBefore_cached c dur a (Or.inl hst)).1] at hr
  obtain ⟨bf, hbo, hbok, hbr⟩ := relinked_rename c.s.b hcb _ _ hne hrb
  obtain ⟨lf, hlo, hlok, hlr⟩ := relinked_rename c.s.l hcl _ _ hne hrl
  obtain ⟨h1, h2⟩ := hr.ok hbok
  refine ⟨bf, lf, hbo, hlo, by rw [h2]; exact hlok, ?_, ?_⟩
  · rw [hr.base]; exact hbr
  · rw [h1]; exact hlr

end Cache
end AferoVerif

/-! ## Part 3 — the summary statements -/

namespace AferoVerif
open MemFs
namespace Cache

/-- **the mutators covered by the coherence theorem**, each with the preconditions under which it is
    proved to keep the layers coherent:
    * Remove, RemoveAll — none (any name, any status, any outcome);
    * Chmod, Chown, Chtimes — the copy-up that an uncached / outdated name triggers does not hit a
      directory of the base (`NoDirCopy`: status hit, or local, or the base holds no directory there);
    * Mkdir, MkdirAll — no existing ancestor of the name is a regular file of the base (`NoFileAbove`);
    * Rename — the old name is a cache hit and the call meets, in both layers, the ordinary
      preconditions of a leaf rename (`RenameLeaf`: a file or empty directory moves to a name that
      is free or holds a file or empty directory, below an existing directory). -/
inductive CoveredOp (dur : Int) (c : Cow) : Op → Prop
  | remove (p : Str) : CoveredOp dur c (.remove p)
  | removeAll (p : Str) : CoveredOp dur c (.removeAll p)
  | chmod (p : Str) (mode : Nat) : NoDirCopy c dur p → CoveredOp dur c (.chmod p mode)
  | chown (p : Str) (uid gid : Int) : NoDirCopy c dur p → CoveredOp dur c (.chown p uid gid)
  | chtimes (p : Str) (t : Int) : NoDirCopy c dur p → CoveredOp dur c (.chtimes p t)
  | mkdir (p : Str) (perm : Nat) : NoFileAbove c.s.b (keyOfStr p) → CoveredOp dur c (.mkdir p perm)
  | mkdirAll (p : Str) (perm : Nat) : NoFileAbove c.s.b (keyOfStr p) → CoveredOp dur c (.mkdirAll p perm)
  | rename (a b : Str) : cacheStatus c dur (keyOfStr a) = .hit →
      RenameLeaf c.s.b (keyOfStr a) (keyOfStr b) → RenameLeaf c.s.l (keyOfStr a) (keyOfStr b) →
      CoveredOp dur c (.rename a b)

/-- **C11, Fs level: the mutators keep the cache coherent.**  In a state in which every regular file
    of the cache layer exists in the base with identical content, and both layers are consistent
    trees (as every state reached through the operations of the fragment is), each covered call
    through the caching filesystem — whatever it answers — leaves a state in which again every
    regular file of the cache layer exists in the base with identical content. -/
theorem mutators_preserve_coherence (dur : Int) (c : Cow) (op : Op)
    (hco : Coherent c.s) (hb : Consistent c.s.b) (hl : Consistent c.s.l) (h : CoveredOp dur c op) :
    Coherent (Cache.step dur c op).1.s := by
  cases h with
  | remove p => exact coherent_remove dur c p hco hl
  | removeAll p => exact coherent_removeAll dur c p hco hl
  | chmod p mode h => exact coherent_chmod dur c p mode hco hl h
  | chown p uid gid h => exact coherent_chown dur c p uid gid hco hl h
  | chtimes p t h => exact coherent_chtimes dur c p t hco hl h
  | mkdir p perm h => exact coherent_mkdir dur c p perm hco hb hl.inRange h
  | mkdirAll p perm h => exact coherent_mkdirAll dur c p perm hco hb hl.inRange h
  | rename a b h1 h2 h3 => exact coherent_rename dur c a b hco h1 hb hl h2 h3

/-- the call made on the cache layer: the same as on the base, except that `Mkdir` makes the
    directory in the cache with `MkdirAll` -/
def layerOp : Op → Op
  | .mkdir p perm => .mkdirAll p perm
  | op => op

/-- the cache layer at the moment the base is acted on (after the copy-up, for the calls that make one) -/
def layerAtCall (dur : Int) (c : Cow) : Op → MemFs
  | .chmod p _ => layerBefore c dur p
  | .chown p _ _ => layerBefore c dur p
  | .chtimes p _ => layerBefore c dur p
  | .rename a _ => layerBefore c dur a
  | _ => c.s.l

/-- the mutators, in the situations in which both layers are addressed: the name is not local to
    the cache, and the copy-up (Chmod / Chown / Chtimes / Rename of an uncached or outdated name)
    succeeded; Mkdir and MkdirAll always -/
inductive ReachingOp (dur : Int) (c : Cow) : Op → Prop
  | remove (p : Str) : cacheStatus c dur (keyOfStr p) ≠ .local_ → ReachingOp dur c (.remove p)
  | removeAll (p : Str) : cacheStatus c dur (keyOfStr p) ≠ .local_ → ReachingOp dur c (.removeAll p)
  | chmod (p : Str) (mode : Nat) : cacheStatus c dur (keyOfStr p) ≠ .local_ → copyErr c dur p = none →
      ReachingOp dur c (.chmod p mode)
  | chown (p : Str) (uid gid : Int) : cacheStatus c dur (keyOfStr p) ≠ .local_ → copyErr c dur p = none →
      ReachingOp dur c (.chown p uid gid)
  | chtimes (p : Str) (t : Int) : cacheStatus c dur (keyOfStr p) ≠ .local_ → copyErr c dur p = none →
      ReachingOp dur c (.chtimes p t)
  | rename (a b : Str) : cacheStatus c dur (keyOfStr a) ≠ .local_ → copyErr c dur a = none →
      ReachingOp dur c (.rename a b)
  | mkdir (p : Str) (perm : Nat) : ReachingOp dur c (.mkdir p perm)
  | mkdirAll (p : Str) (perm : Nat) : ReachingOp dur c (.mkdirAll p perm)

/-- **C11, Fs level: the mutators reach the base as well as the cache.**  The new base is the
    base's own answer to the call; the cache layer is acted on only after the base answered `.ok`,
    and then its answer is the call's; when the base call fails the cache layer is left as it was
    and the base's error is returned. -/
theorem mutators_reach_both (dur : Int) (c : Cow) (op : Op) (h : ReachingOp dur c op) :
    BaseThenLayer c (layerAtCall dur c op) (c.s.b.step op) ((layerAtCall dur c op).step (layerOp op))
      (Cache.step dur c op) := by
  cases h with
  | remove p h => exact remove_reaches_both c dur p h
  | removeAll p h => exact removeAll_reaches_both c dur p h
  | chmod p mode h1 h2 => exact chmod_reaches_both c dur p mode h1 h2
  | chown p uid gid h1 h2 => exact chown_reaches_both c dur p uid gid h1 h2
  | chtimes p t h1 h2 => exact chtimes_reaches_both c dur p t h1 h2
  | rename a b h1 h2 => exact rename_reaches_both c dur a b h1 h2
  | mkdir p perm => exact mkdir_reaches_both c dur p perm
  | mkdirAll p perm => exact mkdirAll_reaches_both c dur p perm

end Cache
end AferoVerif

namespace AferoVerif
open MemFs
namespace Cache

/-! ## Part 4 — after every call of a sequence -/

/-- coherent layers that are consistent trees (what every state reached from a coherent, consistent
    one through the covered calls is: `inv_run`) -/
structure Inv (c : Cow) : Prop where
  coh : Coherent c.s
  cb : Consistent c.s.b
  nb : KeysNodup c.s.b
  cl : Consistent c.s.l
  nl : KeysNodup c.s.l

theorem baseFirst_layers (c : Cow) (rb rl : MemFs × MRes) :
    (baseFirst c rb rl).1.s.b = rb.1 ∧
    ((baseFirst c rb rl).1.s.l = c.s.l ∨ (baseFirst c rb rl).1.s.l = rl.1) := by
  have h := baseFirst_spec c rb rl
  refine ⟨h.base, ?_⟩
  by_cases hok : rb.2 = .ok
  · exact Or.inr (h.ok hok).1
  · exact Or.inl (h.fail hok).1

/-- no copy-up is made: the name is cached (Chmod / Chown / Chtimes / Rename); the other mutators
    never copy -/
def NoCopy (dur : Int) (c : Cow) : Op → Prop
  | .chmod p _ => cacheStatus c dur (keyOfStr p) = .hit ∨ cacheStatus c dur (keyOfStr p) = .local_
  | .chown p _ _ => cacheStatus c dur (keyOfStr p) = .hit ∨ cacheStatus c dur (keyOfStr p) = .local_
  | .chtimes p _ => cacheStatus c dur (keyOfStr p) = .hit ∨ cacheStatus c dur (keyOfStr p) = .local_
  | .rename a _ => cacheStatus c dur (keyOfStr a) = .hit ∨ cacheStatus c dur (keyOfStr a) = .local_
  | _ => True

theorem both_layers (c : Cow) (dur : Int) (name : Str) (op : Op)
    (h : cacheStatus c dur (keyOfStr name) = .hit ∨ cacheStatus c dur (keyOfStr name) = .local_) :
    ((both c dur name op).1.s.b = c.s.b ∨ (both c dur name op).1.s.b = (c.s.b.step op).1) ∧
    ((both c dur name op).1.s.l = c.s.l ∨ (both c dur name op).1.s.l = (c.s.l.step op).1) := by
  rw [both_eq, (layerBefore_cached c dur name h).2, (layerBefore_cached c dur name h).1]
  simp only
  obtain ⟨h1, h2⟩ := baseFirst_layers (setL c c.s.l)
    (if cacheStatus c dur (keyOfStr name) = .local_ then (c.s.b, .ok) else c.s.b.step op) (c.s.l.step op)
  refine ⟨?_, h2⟩
  rw [h1]
  split
  · exact Or.inl rfl
  · exact Or.inr rfl

theorem bothNoCopy_layers (c : Cow) (dur : Int) (name : Str) (op : Op) :
    ((bothNoCopy c dur name op).1.s.b = c.s.b ∨ (bothNoCopy c dur name op).1.s.b = (c.s.b.step op).1) ∧
    ((bothNoCopy c dur name op).1.s.l = c.s.l ∨ (bothNoCopy c dur name op).1.s.l = (c.s.l.step op).1) := by
  rw [bothNoCopy_eq]
  obtain ⟨h1, h2⟩ := baseFirst_layers c
    (if cacheStatus c dur (keyOfStr name) = .local_ then (c.s.b, .ok) else c.s.b.step op) (c.s.l.step op)
  refine ⟨?_, h2⟩
  rw [h1]
  split
  · exact Or.inl rfl
  · exact Or.inr rfl

/-- each layer after a covered call made without copy-up is the layer as it was, or the layer's own
    answer to the call -/
theorem step_layers (dur : Int) (c : Cow) (op : Op) (h : CoveredOp dur c op) (hn : NoCopy dur c op) :
    ((Cache.step dur c op).1.s.b = c.s.b ∨ (Cache.step dur c op).1.s.b = (c.s.b.step op).1) ∧
    ((Cache.step dur c op).1.s.l = c.s.l ∨ (Cache.step dur c op).1.s.l = (c.s.l.step (layerOp op)).1) := by
  cases h with
  | remove p => exact bothNoCopy_layers c dur p _
  | removeAll p => exact bothNoCopy_layers c dur p _
  | chmod p mode _ => exact both_layers c dur p _ hn
  | chown p uid gid _ => exact both_layers c dur p _ hn
  | chtimes p t _ => exact both_layers c dur p _ hn
  | rename a b _ _ _ => exact both_layers c dur a _ hn
  | mkdir p perm _ =>
    rw [step_mkdir_eq]
    obtain ⟨h1, h2⟩ := baseFirst_layers c (c.s.b.mkdir (keyOfStr p) perm) (c.s.l.mkdirAll (keyOfStr p) perm)
    exact ⟨Or.inr h1, h2⟩
  | mkdirAll p perm _ =>
    rw [step_mkdirAll_eq]
    obtain ⟨h1, h2⟩ := baseFirst_layers c (c.s.b.mkdirAll (keyOfStr p) perm) (c.s.l.mkdirAll (keyOfStr p) perm)
    exact ⟨Or.inr h1, h2⟩

/-- a covered call, made without copy-up, that meets the ordinary preconditions of the MemMapFs
    fragment (`WFop`, Proofs/MemFsFragment.lean) in both layers -/
structure GoodOp (dur : Int) (c : Cow) (op : Op) : Prop where
  covered : CoveredOp dur c op
  nocopy : NoCopy dur c op
  wfb : WFop c.s.b op
  wfl : WFop c.s.l (layerOp op)

/-- **the invariant is kept by every good call** -/
theorem inv_step (dur : Int) (c : Cow) (op : Op) (hi : Inv c) (h : GoodOp dur c op) :
    Inv (Cache.step dur c op).1 := by
  obtain ⟨hb, hl⟩ := step_layers dur c op h.covered h.nocopy
  refine ⟨mutators_preserve_coherence dur c op hi.coh hi.cb hi.cl h.covered, ?_, ?_, ?_, ?_⟩
  · rcases hb with e | e <;> rw [e]
    · exact hi.cb
    · exact consistent_step_wf _ _ hi.cb hi.nb h.wfb
  · rcases hb with e | e <;> rw [e]
    · exact hi.nb
    · exact keysNodup_step _ _ hi.nb
  · rcases hl with e | e <;> rw [e]
    · exact hi.cl
    · exact consistent_step_wf _ _ hi.cl hi.nl h.wfl
  · rcases hl with e | e <;> rw [e]
    · exact hi.nl
    · exact keysNodup_step _ _ hi.nl

/-- the state after a sequence of calls through the cache -/
def runC (dur : Int) (c : Cow) : List Op → Cow
  | [] => c
  | op :: ops => runC dur (Cache.step dur c op).1 ops

/-- every call of the sequence is good in the state it runs in -/
def GoodRun (dur : Int) (c : Cow) : List Op → Prop
  | [] => True
  | op :: ops => GoodOp dur c op ∧ GoodRun dur (Cache.step dur c op).1 ops

/-- **after every call**: along a sequence of good calls the layers stay coherent (and consistent) -/
theorem inv_run (dur : Int) (ops : List Op) : ∀ c, Inv c → GoodRun dur c ops → Inv (runC dur c ops) := by
  induction ops with
  | nil => intro c h _; exact h
  | cons op ops ih => intro c h hg; exact ih _ (inv_step dur c op h hg.1) hg.2

theorem coherent_run (dur : Int) (ops : List Op) (c : Cow) (h : Inv c) (hg : GoodRun dur c ops) :
    Coherent (runC dur c ops).s := (inv_run dur ops c h hg).coh

end Cache
end AferoVerif

/-! ## Non-vacuity: the hypotheses are met, and the conclusions say something, on concrete states

  `exM` (Proofs/MemFsInv4.lean) is the state after `mkdir /a; create /a/f; create /g`, built by
  `MemFs.step` from `MemFs.init`; `exW` is `exM` after writing "hi" to `/a/f` through its handle.
  `exC` is a cache whose base and cache layer both hold `/a/f = "hi"` and `/g = ""`; in `exC0` the
  cache layer is still empty (everything is a miss). -/

namespace AferoVerif
open MemFs
namespace Cache

def exW : MemFs := (exM.step (.hWrite 0 [104, 105])).1

theorem consistent_exW : Consistent exW :=
  consistent_step_wf exM _ consistent_exM (keysNodup_run _ _ keysNodup_init) trivial

def exC : Cow := { s := { b := exW, l := exW } }
def exC0 : Cow := { s := { b := exW, l := MemFs.init } }

/-- a decidable sufficient condition for `NoFileAbove` -/
theorem noFileAbove_of_all (m : MemFs) (k : Key)
    (h : (m.data.all fun e => !isUnder e.1 k || (m.obj e.2).dir) = true) : NoFileAbove m k := by
  intro a fa hu hl
  have hmem := mem_of_alLookup m.data a fa hl
  have := List.all_eq_true.1 h (a, fa) hmem
  simp only [hu, Bool.not_true, Bool.false_or] at this
  exact this

theorem coherent_exC : Coherent exC.s := coherent_same exW

theorem coherent_exC0 : Coherent exC0.s := by
  intro k lf h hd
  have h : MemFs.init.lookup k = some lf := h
  have hd : (MemFs.init.obj lf).dir = false := hd
  have : lf = 0 := by
    simp [lookup, init, alLookup_cons, alLookup_nil] at h
    exact h.2.symm
  subst this
  simp [obj, init] at hd

/-- `Coherent exC.s` is not vacuous: the cache layer holds the regular file `/a/f` with the bytes
    "hi" (and so does the base) -/
example : exC.s.l.lookup (keyOfStr exAF) = some 2 ∧ (exC.s.l.obj 2).dir = false ∧
    (exC.s.l.obj 2).data = [104, 105] ∧ (exC.s.b.obj 2).data = [104, 105] := by decide

/-- **Remove** (`coherent_remove`, `remove_reaches_both`): `/a/f` is a hit; the hypotheses hold in
    `exC`; the call answers `.ok`, the name is gone from BOTH layers, `/g` is still in both, and the
    result is coherent -/
example : Coherent exC.s ∧ Consistent exC.s.l ∧ cacheStatus exC 0 (keyOfStr exAF) ≠ .local_ ∧
    (Cache.step 0 exC (.remove exAF)).2 = .ok ∧
    (Cache.step 0 exC (.remove exAF)).1.s.b.lookup (keyOfStr exAF) = none ∧
    (Cache.step 0 exC (.remove exAF)).1.s.l.lookup (keyOfStr exAF) = none ∧
    (Cache.step 0 exC (.remove exAF)).1.s.b.lookup (keyOfStr exG) = some 3 ∧
    (Cache.step 0 exC (.remove exAF)).1.s.l.lookup (keyOfStr exG) = some 3 ∧
    Coherent (Cache.step 0 exC (.remove exAF)).1.s :=
  ⟨coherent_exC, consistent_exW, by decide, by decide, by decide, by decide, by decide, by decide,
    coherent_remove 0 exC exAF coherent_exC consistent_exW⟩

/-- … and a failing base call (`remove /nope`) leaves both layers as they were and returns the base's error -/
example : (Cache.step 0 exC (.remove ['/', 'n'])).2 = .err .notexist ∧
    (Cache.step 0 exC (.remove ['/', 'n'])).1.s.b.lookup (keyOfStr exAF) = some 2 ∧
    (Cache.step 0 exC (.remove ['/', 'n'])).1.s.l.lookup (keyOfStr exAF) = some 2 := by decide

/-- **RemoveAll** of `/a`: `/a` and `/a/f` leave both layers -/
example : (Cache.step 0 exC (.removeAll exA)).2 = .ok ∧
    (Cache.step 0 exC (.removeAll exA)).1.s.b.lookup (keyOfStr exAF) = none ∧
    (Cache.step 0 exC (.removeAll exA)).1.s.l.lookup (keyOfStr exAF) = none ∧
    (Cache.step 0 exC (.removeAll exA)).1.s.b.lookup (keyOfStr exA) = none ∧
    (Cache.step 0 exC (.removeAll exA)).1.s.l.lookup (keyOfStr exA) = none ∧
    Coherent (Cache.step 0 exC (.removeAll exA)).1.s :=
  ⟨by decide, by decide, by decide, by decide, by decide,
    coherent_removeAll 0 exC exA coherent_exC consistent_exW⟩

theorem noDirCopy_exC : NoDirCopy exC 0 exAF := Or.inl (by decide)

theorem noDirCopy_exC0 : NoDirCopy exC0 0 exAF := by
  refine Or.inr (Or.inr ?_)
  intro bf h
  have e : exC0.s.b.lookup (keyOfStr exAF) = some 2 := by decide
  rw [e] at h; injection h with h; subst h
  decide

/-- **Chmod of a cached file** (`coherent_chmod`, `chmod_reaches_both`): the mode changes in BOTH
    layers, the bytes in neither -/
example : NoDirCopy exC 0 exAF ∧ (Cache.step 0 exC (.chmod exAF 0o600)).2 = .ok ∧
    ((Cache.step 0 exC (.chmod exAF 0o600)).1.s.b.obj 2).mode = (exC.s.b.obj 2).mode - ((exC.s.b.obj 2).mode &&& chmodBits) ||| 0o600 ∧
    ((Cache.step 0 exC (.chmod exAF 0o600)).1.s.l.obj 2).mode = (exC.s.l.obj 2).mode - ((exC.s.l.obj 2).mode &&& chmodBits) ||| 0o600 ∧
    ((Cache.step 0 exC (.chmod exAF 0o600)).1.s.b.obj 2).data = [104, 105] ∧
    ((Cache.step 0 exC (.chmod exAF 0o600)).1.s.l.obj 2).data = [104, 105] ∧
    Coherent (Cache.step 0 exC (.chmod exAF 0o600)).1.s :=
  ⟨noDirCopy_exC, by decide, by decide, by decide, by decide, by decide,
    coherent_chmod 0 exC exAF 0o600 coherent_exC consistent_exW noDirCopy_exC⟩

/-- **Chtimes of an uncached file**: the status is a miss, the copy-up succeeds and leaves the
    bytes "hi" in the cache layer, then both layers get the new time; the result is coherent -/
example : cacheStatus exC0 0 (keyOfStr exAF) = .miss ∧ copyErr exC0 0 exAF = none ∧ NoDirCopy exC0 0 exAF ∧
    (Cache.step 0 exC0 (.chtimes exAF 77)).2 = .ok ∧
    (Cache.step 0 exC0 (.chtimes exAF 77)).1.s.l.lookup (keyOfStr exAF) = some 2 ∧
    ((Cache.step 0 exC0 (.chtimes exAF 77)).1.s.l.obj 2).data = [104, 105] ∧
    ((Cache.step 0 exC0 (.chtimes exAF 77)).1.s.l.obj 2).dir = false ∧
    ((Cache.step 0 exC0 (.chtimes exAF 77)).1.s.l.obj 2).mtime = 77 ∧
    ((Cache.step 0 exC0 (.chtimes exAF 77)).1.s.b.obj 2).mtime = 77 ∧
    Coherent (Cache.step 0 exC0 (.chtimes exAF 77)).1.s :=
  ⟨by decide, by decide, noDirCopy_exC0, by decide, by decide, by decide, by decide, by decide, by decide,
    coherent_chtimes 0 exC0 exAF 77 coherent_exC0 consistent_init noDirCopy_exC0⟩

def exAD : Str := ['/', 'a', '/', 'd']
def exXY : Str := ['/', 'x', '/', 'y']

/-- **Mkdir** `/a/d` and **MkdirAll** `/x/y` (two levels missing): the directories appear in BOTH
    layers, `/a/f` keeps its bytes in both, the results are coherent -/
example : NoFileAbove exC.s.b (keyOfStr exAD) ∧ NoFileAbove exC.s.b (keyOfStr exXY) ∧
    (Cache.step 0 exC (.mkdir exAD 0o755)).2 = .ok ∧
    ((Cache.step 0 exC (.mkdir exAD 0o755)).1.s.b.lookup (keyOfStr exAD)).isSome = true ∧
    ((Cache.step 0 exC (.mkdir exAD 0o755)).1.s.l.lookup (keyOfStr exAD)).isSome = true ∧
    Coherent (Cache.step 0 exC (.mkdir exAD 0o755)).1.s ∧
    (Cache.step 0 exC (.mkdirAll exXY 0o755)).2 = .ok ∧
    ((Cache.step 0 exC (.mkdirAll exXY 0o755)).1.s.b.lookup (keyOfStr exXY)).isSome = true ∧
    ((Cache.step 0 exC (.mkdirAll exXY 0o755)).1.s.l.lookup (keyOfStr exXY)).isSome = true ∧
    ((Cache.step 0 exC (.mkdirAll exXY 0o755)).1.s.l.obj 2).data = [104, 105] ∧
    Coherent (Cache.step 0 exC (.mkdirAll exXY 0o755)).1.s :=
  ⟨noFileAbove_of_all _ _ (by decide), noFileAbove_of_all _ _ (by decide), by decide, by decide, by decide,
    coherent_mkdir 0 exC exAD 0o755 coherent_exC consistent_exW consistent_exW.inRange (noFileAbove_of_all _ _ (by decide)),
    by decide, by decide, by decide, by decide,
    coherent_mkdirAll 0 exC exXY 0o755 coherent_exC consistent_exW consistent_exW.inRange (noFileAbove_of_all _ _ (by decide))⟩

theorem renameLeaf_exW_free : RenameLeaf exW (keyOfStr exAF) (keyOfStr exAH) :=
  ⟨2, by decide, Or.inl rfl, by decide, by decide, by decide, by decide,
    ⟨1, _, rfl, rfl⟩, Or.inl (by decide), by decide⟩

theorem renameLeaf_exW_over : RenameLeaf exW (keyOfStr exAF) (keyOfStr exG) :=
  ⟨2, by decide, Or.inl rfl, by decide, by decide, by decide, by decide,
    ⟨0, _, rfl, rfl⟩, Or.inr ⟨3, by decide, Or.inl rfl⟩, by decide⟩

/-- **Rename** to a free name (`/a/f → /a/h`) and over an existing file in another directory
    (`/a/f → /g`): the hypotheses of `coherent_rename` hold in `exC`, the results are coherent -/
example : cacheStatus exC 0 (keyOfStr exAF) = .hit ∧
    RenameLeaf exC.s.b (keyOfStr exAF) (keyOfStr exAH) ∧ RenameLeaf exC.s.l (keyOfStr exAF) (keyOfStr exAH) ∧
    Coherent (Cache.step 0 exC (.rename exAF exAH)).1.s ∧
    RenameLeaf exC.s.b (keyOfStr exAF) (keyOfStr exG) ∧ RenameLeaf exC.s.l (keyOfStr exAF) (keyOfStr exG) ∧
    Coherent (Cache.step 0 exC (.rename exAF exG)).1.s :=
  ⟨by decide, renameLeaf_exW_free, renameLeaf_exW_free,
    coherent_rename 0 exC exAF exAH coherent_exC (by decide) consistent_exW consistent_exW renameLeaf_exW_free renameLeaf_exW_free,
    renameLeaf_exW_over, renameLeaf_exW_over,
    coherent_rename 0 exC exAF exG coherent_exC (by decide) consistent_exW consistent_exW renameLeaf_exW_over renameLeaf_exW_over⟩

/-- the summary theorems apply: every constructor of `CoveredOp` / `ReachingOp` is inhabited on `exC`
    or `exC0`, and `mutators_preserve_coherence` carries coherence through each call -/
example :
    CoveredOp 0 exC (.remove exAF) ∧ CoveredOp 0 exC (.removeAll exA) ∧ CoveredOp 0 exC (.chmod exAF 0o600) ∧
    CoveredOp 0 exC0 (.chown exAF 1 2) ∧ CoveredOp 0 exC0 (.chtimes exAF 77) ∧
    CoveredOp 0 exC (.mkdir exAD 0o755) ∧ CoveredOp 0 exC (.mkdirAll exXY 0o755) ∧
    CoveredOp 0 exC (.rename exAF exAH) ∧
    ReachingOp 0 exC (.remove exAF) ∧ ReachingOp 0 exC0 (.chtimes exAF 77) ∧ ReachingOp 0 exC (.rename exAF exAH) ∧
    Coherent (Cache.step 0 exC (.rename exAF exAH)).1.s ∧ Coherent (Cache.step 0 exC0 (.chown exAF 1 2)).1.s :=
  ⟨.remove _, .removeAll _, .chmod _ _ noDirCopy_exC, .chown _ _ _ noDirCopy_exC0, .chtimes _ _ noDirCopy_exC0,
    .mkdir _ _ (noFileAbove_of_all _ _ (by decide)), .mkdirAll _ _ (noFileAbove_of_all _ _ (by decide)),
    .rename _ _ (by decide) renameLeaf_exW_free renameLeaf_exW_free,
    .remove _ (by decide), .chtimes _ _ (by decide) (by decide), .rename _ _ (by decide) (by decide),
    mutators_preserve_coherence 0 exC _ coherent_exC consistent_exW consistent_exW
      (.rename _ _ (by decide) renameLeaf_exW_free renameLeaf_exW_free),
    mutators_preserve_coherence 0 exC0 _ coherent_exC0 consistent_exW consistent_init (.chown _ _ _ noDirCopy_exC0)⟩

/-- **Rename reaches both layers, concretely** (`rename_effect`): after `rename /a/f /a/h` through
    the cache the call has answered `.ok`, and in the base AND in the cache layer `/a/f` is gone and
    `/a/h` leads to the object (2, holding "hi") that `/a/f` led to -/
example : (Cache.step 0 exC (.rename exAF exAH)).2 = .ok ∧
    (Cache.step 0 exC (.rename exAF exAH)).1.s.b.lookup (keyOfStr exAF) = none ∧
    (Cache.step 0 exC (.rename exAF exAH)).1.s.l.lookup (keyOfStr exAF) = none ∧
    (Cache.step 0 exC (.rename exAF exAH)).1.s.b.lookup (keyOfStr exAH) = some 2 ∧
    (Cache.step 0 exC (.rename exAF exAH)).1.s.l.lookup (keyOfStr exAH) = some 2 ∧
    ((Cache.step 0 exC (.rename exAF exAH)).1.s.b.obj 2).data = [104, 105] ∧
    ((Cache.step 0 exC (.rename exAF exAH)).1.s.l.obj 2).data = [104, 105] := by
  obtain ⟨bf, lf, h1, h2, h3, h4, h5⟩ := rename_effect 0 exC exAF exAH (by decide) consistent_exW consistent_exW
    renameLeaf_exW_free renameLeaf_exW_free (by decide)
  have e1 : exC.s.b.lookup (keyOfStr exAF) = some 2 := by decide
  have e2 : exC.s.l.lookup (keyOfStr exAF) = some 2 := by decide
  rw [e1] at h1; injection h1 with h1; subst h1
  rw [e2] at h2; injection h2 with h2; subst h2
  have hne : keyOfStr exAF ≠ keyOfStr exAH := by decide
  refine ⟨h3, ?_, ?_, ?_, ?_, ?_, ?_⟩
  · rw [h4.look, if_neg hne, if_pos rfl]
  · rw [h5.look, if_neg hne, if_pos rfl]
  · rw [h4.look, if_pos rfl]
  · rw [h5.look, if_pos rfl]
  · rw [(h4.objs 2).1]; decide
  · rw [(h5.objs 2).1]; decide

theorem inv_exC : Inv exC :=
  ⟨coherent_exC, consistent_exW, keysNodup_step exM _ (keysNodup_run _ _ keysNodup_init),
    consistent_exW, keysNodup_step exM _ (keysNodup_run _ _ keysNodup_init)⟩

/-- **after every call of a sequence** (`inv_run`): `mkdir /a/d; chmod /a/f; remove /a/f` through the
    cache, starting in `exC` — every call is good in the state it runs in, so the layers are coherent
    (and consistent) at the end; `/g` is still held by both -/
example : GoodRun 0 exC [.mkdir exAD 0o755, .chmod exAF 0o600, .remove exAF] ∧
    Inv (runC 0 exC [.mkdir exAD 0o755, .chmod exAF 0o600, .remove exAF]) ∧
    (runC 0 exC [.mkdir exAD 0o755, .chmod exAF 0o600, .remove exAF]).s.b.lookup (keyOfStr exAF) = none ∧
    (runC 0 exC [.mkdir exAD 0o755, .chmod exAF 0o600, .remove exAF]).s.l.lookup (keyOfStr exAF) = none ∧
    (runC 0 exC [.mkdir exAD 0o755, .chmod exAF 0o600, .remove exAF]).s.l.lookup (keyOfStr exG) = some 3 := by
  have hg : GoodRun 0 exC [.mkdir exAD 0o755, .chmod exAF 0o600, .remove exAF] :=
    ⟨⟨.mkdir _ _ (noFileAbove_of_all _ _ (by decide)), trivial, trivial, trivial⟩,
     ⟨.chmod _ _ (Or.inl (by decide)), Or.inl (by decide), trivial, trivial⟩,
     ⟨.remove _, trivial, Or.inr ⟨by decide, 2, by decide, Or.inl (by decide)⟩,
        Or.inr ⟨by decide, 2, by decide, Or.inl (by decide)⟩⟩, trivial⟩
  exact ⟨hg, inv_run 0 _ exC inv_exC hg, by decide, by decide, by decide⟩

end Cache
end AferoVerif
