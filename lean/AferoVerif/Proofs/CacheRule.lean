/-
  Property C10, the remaining clauses of the caching rule of CacheOnReadFs (`Cache.step`).

  (A) the metadata paths — `chmod_miss_or_stale_refreshes`, `chown_miss_or_stale_refreshes`,
      `chtimes_miss_or_stale_refreshes`: Chmod / Chown / Chtimes of a regular base file whose status is
      miss or stale first leave in the cache layer a copy with the base's bytes and the base's
      modification time (`copy_first`; nothing else is added: `copy_first_frame`), then act on the base
      AND on that copy.  The copy's final modification time is the base's for Chmod / Chown and `t` for
      Chtimes; the name is a hit afterwards.  `chmodMode_perm`: the permission bits are the requested
      ones on both sides.
  (B) two calls — `stale_access_returns_new_content`: a name that is a hit now (cached bytes `d0`);
      the base is rewritten behind the cache's back (`d1`, newer) and the clock passes the duration
      (`laterWithBase`): the status is stale, `Open` + `Read` return `d1`, the cache layer holds `d1`
      with the base's new time, the name is a hit again.  `dur0_never_refreshes`: with duration zero
      the same two calls return `d0`.
  (C) directories — `dir_miss_lists_base` (a base directory unknown to the cache layer: a base handle,
      the cache layer untouched, the base's listing), `dir_cached_lists_merge` / `dir_listing_is_union`
      (a directory of both layers: a union handle, nothing copied, the merge of the two listings — every
      name of either layer exactly once, the cache layer's entry shown where both have one),
      `dir_layer_only_lists_cache` (a directory only the cache layer has: its listing).
  At the end: non-vacuity — the hypotheses in concrete states, the theorems instantiated there, and
  the values the model computes.

  Not covered: a name that is a directory on one side and a regular file on the other; paging
  (`Readdir(n)`, n > 0) through the cache's union handle (it is the paging of `C06.pages_partition`);
  that names within one directory listing are distinct is a premise of the "cache layer's entry
  wins" clause, not derived from `Consistent`.
-/
import AferoVerif.Props.C10_OpenFile
import AferoVerif.Proofs.CacheCoherent
namespace AferoVerif
open MemFs
namespace Cache

/-! ## (A) the metadata paths: Chmod / Chown / Chtimes of an uncached or outdated regular file -/

/-- the mode `MemMapFs.Chmod` leaves: the permission bits (`chmodBits`) replaced, the others kept -/
def chmodMode (old mode : Nat) : Nat := (old - (old &&& chmodBits)) ||| (mode &&& chmodBits)

/-- clearing the bits of `k` by subtraction (`old &^ k` written as `old - (old & k)`), bit by bit -/
theorem testBit_sub_and (i : Nat) : ∀ (a k : Nat), (a - (a &&& k)).testBit i = (a.testBit i && !k.testBit i) := by
  induction i with
  | zero =>
    intro a k
    simp only [Nat.testBit_zero]
    have hle : a &&& k ≤ a := Nat.and_le_left
    have h2 : (a &&& k) % 2 = 1 ↔ a % 2 = 1 ∧ k % 2 = 1 := Nat.and_mod_two_eq_one
    by_cases ha : a % 2 = 1 <;> by_cases hk : k % 2 = 1
    · have : ¬ ((a - (a &&& k)) % 2 = 1) := by omega
      simp [ha, hk, this]
    · have : (a - (a &&& k)) % 2 = 1 := by omega
      simp [ha, hk, this]
    · have : ¬ ((a - (a &&& k)) % 2 = 1) := by omega
      simp [ha, hk, this]
    · have : ¬ ((a - (a &&& k)) % 2 = 1) := by omega
      simp [ha, hk, this]
  | succ i ih =>
    intro a k
    simp only [Nat.testBit_succ]
    have hle : a &&& k ≤ a := Nat.and_le_left
    have h2 : (a &&& k) % 2 = 1 ↔ a % 2 = 1 ∧ k % 2 = 1 := Nat.and_mod_two_eq_one
    have e : (a - (a &&& k)) / 2 = a / 2 - (a / 2 &&& k / 2) := by
      rw [← Nat.and_div_two]; omega
    rw [e]; exact ih _ _

/-- the permission bits of the new mode are the requested ones … -/
theorem chmodMode_perm (old mode : Nat) : chmodMode old mode &&& chmodBits = mode &&& chmodBits := by
  apply Nat.eq_of_testBit_eq
  intro i
  unfold chmodMode
  simp only [Nat.testBit_and, Nat.testBit_or, testBit_sub_and]
  cases chmodBits.testBit i <;> simp

/-- … and every other bit is the old one -/
theorem chmodMode_other (old mode i : Nat) (h : chmodBits.testBit i = false) :
    (chmodMode old mode).testBit i = old.testBit i := by
  unfold chmodMode
  simp only [Nat.testBit_and, Nat.testBit_or, testBit_sub_and, h]
  simp

theorem chmod_some (m : MemFs) (k : Key) (mode f : Nat) (h : m.lookup k = some f) :
    m.chmod k mode = (m.setObj f { m.obj f with mode := chmodMode (m.obj f).mode mode }, .ok) := by
  unfold MemFs.chmod MemFs.setFileMode chmodMode
  simp only [h]

theorem chown_some (m : MemFs) (k : Key) (uid gid : Int) (f : Nat) (h : m.lookup k = some f) :
    m.chown k uid gid = (m.setObj f { m.obj f with uid := uid, gid := gid }, .ok) := by
  unfold MemFs.chown
  simp only [h]

theorem chtimes_some (m : MemFs) (k : Key) (t : Int) (f : Nat) (h : m.lookup k = some f) :
    m.chtimes k t = (m.setObj f { m.obj f with mtime := t }, .ok) := by
  unfold MemFs.chtimes
  simp only [h]

/-- **first the copy.**  For a regular base file whose status is miss or stale, the copy-up that
    Chmod / Chown / Chtimes make first succeeds, and the layer as it is when the base is acted on
    (`layerBefore`) holds under the name an object with exactly the base's bytes and the base's
    modification time -/
theorem copy_first (c : Cow) (dur : Int) (p : Str) (bf : Nat)
    (hst : cacheStatus c dur (keyOfStr p) = .miss ∨ cacheStatus c dur (keyOfStr p) = .stale)
    (hb : c.s.b.lookup (keyOfStr p) = some bf) (hfile : (c.s.b.obj bf).dir = false) (hr : InRange c.s.l) :
    copyErr c dur p = none ∧ layerBefore c dur p = (copyFile c.s.b c.s.l p bf).1 ∧
    InRange (layerBefore c dur p) ∧
    ∃ lf, (layerBefore c dur p).lookup (keyOfStr p) = some lf ∧
      ((layerBefore c dur p).obj lf).data = (c.s.b.obj bf).data ∧
      ((layerBefore c dur p).obj lf).mtime = (c.s.b.obj bf).mtime := by
  obtain ⟨h1, lf, h2, h3, h4, h5⟩ := copyFile_content c.s.b c.s.l p bf hr hfile
  have e1 : layerBefore c dur p = (copyFile c.s.b c.s.l p bf).1 := by
    unfold layerBefore copyToLayer
    rcases hst with h | h <;> rw [h] <;> simp only [hb]
  have e2 : copyErr c dur p = none := by
    unfold copyErr copyToLayer
    rcases hst with h | h <;> rw [h] <;> simp only [hb] <;> exact h1
  rw [e1]
  exact ⟨e2, rfl, h5, lf, h2, h3, h4⟩

/-- … and the copy adds nothing else: when the cache layer is a consistent tree, every OTHER name of
    it that leads to a regular file after the copy led to that very file before, with the same bytes
    (`Copied`, from `copyFile_copied`) -/
theorem copy_first_frame (c : Cow) (dur : Int) (p : Str) (bf : Nat)
    (hst : cacheStatus c dur (keyOfStr p) = .miss ∨ cacheStatus c dur (keyOfStr p) = .stale)
    (hb : c.s.b.lookup (keyOfStr p) = some bf) (hfile : (c.s.b.obj bf).dir = false) (hc : Consistent c.s.l) :
    Copied (keyOfStr p) (c.s.b.obj bf).data c.s.l (layerBefore c dur p) := by
  rw [(copy_first c dur p bf hst hb hfile hc.inRange).2.1]
  exact (copyFile_copied c.s.b c.s.l p bf hc hfile).2

/-- … **then the call, on the base and on that copy.**  `upd` is what the call does to the object
    the name leads to (in every state of the in-memory filesystem). -/
theorem meta_miss_or_stale (c : Cow) (dur : Int) (p : Str) (op : Op) (upd : FData → FData) (bf : Nat)
    (hop : ∀ (m : MemFs) (f : Nat), m.lookup (keyOfStr p) = some f → m.step op = (m.setObj f (upd (m.obj f)), .ok))
    (hst : cacheStatus c dur (keyOfStr p) = .miss ∨ cacheStatus c dur (keyOfStr p) = .stale)
    (hb : c.s.b.lookup (keyOfStr p) = some bf) (hfile : (c.s.b.obj bf).dir = false)
    (hrb : InRange c.s.b) (hr : InRange c.s.l) :
    ∃ lf, (layerBefore c dur p).lookup (keyOfStr p) = some lf ∧
      ((layerBefore c dur p).obj lf).data = (c.s.b.obj bf).data ∧
      ((layerBefore c dur p).obj lf).mtime = (c.s.b.obj bf).mtime ∧
      both c dur p op =
        ({ c with s := { b := (c.s.b.step op).1, l := ((layerBefore c dur p).step op).1 } }, .ok) ∧
      (c.s.b.step op).1.lookup (keyOfStr p) = some bf ∧
      (c.s.b.step op).1.obj bf = upd (c.s.b.obj bf) ∧
      ((layerBefore c dur p).step op).1.lookup (keyOfStr p) = some lf ∧
      ((layerBefore c dur p).step op).1.obj lf = upd ((layerBefore c dur p).obj lf) := by
  obtain ⟨e2, _, hrL, lf, h2, h3, h4⟩ := copy_first c dur p bf hst hb hfile hr
  have hne : cacheStatus c dur (keyOfStr p) ≠ .local_ := by
    rcases hst with h | h <;> rw [h] <;> simp
  have hB := hop c.s.b bf hb
  have hL := hop (layerBefore c dur p) lf h2
  refine ⟨lf, h2, h3, h4, ?_, ?_, ?_, ?_, ?_⟩
  · rw [both_eq, e2]
    simp only [hne, if_false]
    rw [baseFirst_ok _ _ _ (by rw [hB])]
    rw [hL]
    rfl
  · rw [hB]; exact hb
  · rw [hB]; exact obj_setObj_self _ _ _ (hrb _ _ hb)
  · rw [hL]; exact h2
  · rw [hL]; exact obj_setObj_self _ _ _ (hrL _ _ h2)

/-- **Chmod of an uncached or outdated regular file refreshes the cache and reaches both sides.**
    The call first leaves in the cache layer a copy `lf` with exactly the base's bytes and the base's
    modification time; then `Chmod` is applied to the base's object and to that copy.  Afterwards:
    the call answered `.ok`; the base's object is what it was with the new mode; the cache layer's
    object under the name is the copy with the new mode — the base's bytes, and as modification time
    the BASE's (stamped by the copy; Chmod does not touch it); the permission bits are the requested
    ones on BOTH sides (the other mode bits are each side's own: `copyFile` does not copy the mode);
    so the name is a hit from now on. -/
theorem chmod_miss_or_stale_refreshes (c : Cow) (dur : Int) (p : Str) (mode bf : Nat)
    (hst : cacheStatus c dur (keyOfStr p) = .miss ∨ cacheStatus c dur (keyOfStr p) = .stale)
    (hb : c.s.b.lookup (keyOfStr p) = some bf) (hfile : (c.s.b.obj bf).dir = false)
    (hrb : InRange c.s.b) (hr : InRange c.s.l) :
    ∃ lf c',
      (layerBefore c dur p).lookup (keyOfStr p) = some lf ∧
      ((layerBefore c dur p).obj lf).data = (c.s.b.obj bf).data ∧
      ((layerBefore c dur p).obj lf).mtime = (c.s.b.obj bf).mtime ∧
      Cache.step dur c (.chmod p mode) = (c', .ok) ∧ c'.hs = c.hs ∧
      c'.s.b = (c.s.b.chmod (keyOfStr p) mode).1 ∧
      c'.s.l = ((layerBefore c dur p).chmod (keyOfStr p) mode).1 ∧
      c'.s.b.lookup (keyOfStr p) = some bf ∧
      c'.s.b.obj bf = { c.s.b.obj bf with mode := chmodMode (c.s.b.obj bf).mode mode } ∧
      c'.s.l.lookup (keyOfStr p) = some lf ∧
      c'.s.l.obj lf =
        { (layerBefore c dur p).obj lf with mode := chmodMode ((layerBefore c dur p).obj lf).mode mode } ∧
      (c'.s.l.obj lf).data = (c.s.b.obj bf).data ∧
      (c'.s.l.obj lf).mtime = (c.s.b.obj bf).mtime ∧
      (c'.s.l.obj lf).mode = chmodMode ((layerBefore c dur p).obj lf).mode mode ∧
      (c'.s.b.obj bf).mode = chmodMode (c.s.b.obj bf).mode mode ∧
      (c'.s.l.obj lf).mode &&& chmodBits = mode &&& chmodBits ∧
      (c'.s.b.obj bf).mode &&& chmodBits = mode &&& chmodBits ∧
      cacheStatus c' dur (keyOfStr p) = .hit := by
  obtain ⟨lf, a1, a2, a3, a4, a5, a6, a7, a8⟩ := meta_miss_or_stale c dur p (.chmod p mode)
    (fun d => { d with mode := chmodMode d.mode mode }) bf
    (fun m f h => chmod_some m (keyOfStr p) mode f h) hst hb hfile hrb hr
  refine ⟨lf, _, a1, a2, a3, a4, rfl, rfl, rfl, a5, a6, a7, a8, ?_, ?_, ?_, ?_, ?_, ?_, ?_⟩
  · show ((((layerBefore c dur p).step (.chmod p mode)).1).obj lf).data = _
    rw [a8]; exact a2
  · show ((((layerBefore c dur p).step (.chmod p mode)).1).obj lf).mtime = _
    rw [a8]; exact a3
  · show ((((layerBefore c dur p).step (.chmod p mode)).1).obj lf).mode = _
    rw [a8]
  · show (((c.s.b.step (.chmod p mode)).1).obj bf).mode = _
    rw [a6]
  · show ((((layerBefore c dur p).step (.chmod p mode)).1).obj lf).mode &&& chmodBits = _
    rw [a8]; exact chmodMode_perm _ _
  · show (((c.s.b.step (.chmod p mode)).1).obj bf).mode &&& chmodBits = _
    rw [a6]; exact chmodMode_perm _ _
  · refine C10.dur_pos_hit_of_base_not_newer _ dur _ lf bf a7 a5 ?_
    show ¬ ((((c.s.b.step (.chmod p mode)).1).obj bf).mtime >
      ((((layerBefore c dur p).step (.chmod p mode)).1).obj lf).mtime)
    rw [a6, a8]
    show ¬ ((c.s.b.obj bf).mtime > ((layerBefore c dur p).obj lf).mtime)
    rw [a3]; exact Int.lt_irrefl _

/-- **Chown of an uncached or outdated regular file**: the copy first (the base's bytes, the base's
    modification time), then the new owner on the base's object AND on that copy; the copy keeps the
    base's bytes and the base's modification time; the name is a hit from now on. -/
theorem chown_miss_or_stale_refreshes (c : Cow) (dur : Int) (p : Str) (uid gid : Int) (bf : Nat)
    (hst : cacheStatus c dur (keyOfStr p) = .miss ∨ cacheStatus c dur (keyOfStr p) = .stale)
    (hb : c.s.b.lookup (keyOfStr p) = some bf) (hfile : (c.s.b.obj bf).dir = false)
    (hrb : InRange c.s.b) (hr : InRange c.s.l) :
    ∃ lf c',
      (layerBefore c dur p).lookup (keyOfStr p) = some lf ∧
      ((layerBefore c dur p).obj lf).data = (c.s.b.obj bf).data ∧
      ((layerBefore c dur p).obj lf).mtime = (c.s.b.obj bf).mtime ∧
      Cache.step dur c (.chown p uid gid) = (c', .ok) ∧ c'.hs = c.hs ∧
      c'.s.b = (c.s.b.chown (keyOfStr p) uid gid).1 ∧
      c'.s.l = ((layerBefore c dur p).chown (keyOfStr p) uid gid).1 ∧
      c'.s.b.lookup (keyOfStr p) = some bf ∧
      c'.s.b.obj bf = { c.s.b.obj bf with uid := uid, gid := gid } ∧
      c'.s.l.lookup (keyOfStr p) = some lf ∧
      c'.s.l.obj lf = { (layerBefore c dur p).obj lf with uid := uid, gid := gid } ∧
      (c'.s.l.obj lf).data = (c.s.b.obj bf).data ∧
      (c'.s.l.obj lf).mtime = (c.s.b.obj bf).mtime ∧
      ((c'.s.l.obj lf).uid = uid ∧ (c'.s.l.obj lf).gid = gid) ∧
      ((c'.s.b.obj bf).uid = uid ∧ (c'.s.b.obj bf).gid = gid) ∧
      cacheStatus c' dur (keyOfStr p) = .hit := by
  obtain ⟨lf, a1, a2, a3, a4, a5, a6, a7, a8⟩ := meta_miss_or_stale c dur p (.chown p uid gid)
    (fun d => { d with uid := uid, gid := gid }) bf
    (fun m f h => chown_some m (keyOfStr p) uid gid f h) hst hb hfile hrb hr
  refine ⟨lf, _, a1, a2, a3, a4, rfl, rfl, rfl, a5, a6, a7, a8, ?_, ?_, ?_, ?_, ?_⟩
  · show ((((layerBefore c dur p).step (.chown p uid gid)).1).obj lf).data = _
    rw [a8]; exact a2
  · show ((((layerBefore c dur p).step (.chown p uid gid)).1).obj lf).mtime = _
    rw [a8]; exact a3
  · show ((((layerBefore c dur p).step (.chown p uid gid)).1).obj lf).uid = _ ∧
      ((((layerBefore c dur p).step (.chown p uid gid)).1).obj lf).gid = _
    rw [a8]; exact ⟨rfl, rfl⟩
  · show (((c.s.b.step (.chown p uid gid)).1).obj bf).uid = _ ∧ (((c.s.b.step (.chown p uid gid)).1).obj bf).gid = _
    rw [a6]; exact ⟨rfl, rfl⟩
  · refine C10.dur_pos_hit_of_base_not_newer _ dur _ lf bf a7 a5 ?_
    show ¬ ((((c.s.b.step (.chown p uid gid)).1).obj bf).mtime >
      ((((layerBefore c dur p).step (.chown p uid gid)).1).obj lf).mtime)
    rw [a6, a8]
    show ¬ ((c.s.b.obj bf).mtime > ((layerBefore c dur p).obj lf).mtime)
    rw [a3]; exact Int.lt_irrefl _

/-- **Chtimes of an uncached or outdated regular file**: the copy first (the base's bytes, stamped
    with the base's OLD modification time), then the new time `t` on the base's object AND on that
    copy: afterwards both carry `t`, the copy holds the base's bytes; the name is a hit from now on. -/
theorem chtimes_miss_or_stale_refreshes (c : Cow) (dur : Int) (p : Str) (t : Int) (bf : Nat)
    (hst : cacheStatus c dur (keyOfStr p) = .miss ∨ cacheStatus c dur (keyOfStr p) = .stale)
    (hb : c.s.b.lookup (keyOfStr p) = some bf) (hfile : (c.s.b.obj bf).dir = false)
    (hrb : InRange c.s.b) (hr : InRange c.s.l) :
    ∃ lf c',
      (layerBefore c dur p).lookup (keyOfStr p) = some lf ∧
      ((layerBefore c dur p).obj lf).data = (c.s.b.obj bf).data ∧
      ((layerBefore c dur p).obj lf).mtime = (c.s.b.obj bf).mtime ∧
      Cache.step dur c (.chtimes p t) = (c', .ok) ∧ c'.hs = c.hs ∧
      c'.s.b = (c.s.b.chtimes (keyOfStr p) t).1 ∧
      c'.s.l = ((layerBefore c dur p).chtimes (keyOfStr p) t).1 ∧
      c'.s.b.lookup (keyOfStr p) = some bf ∧
      c'.s.b.obj bf = { c.s.b.obj bf with mtime := t } ∧
      c'.s.l.lookup (keyOfStr p) = some lf ∧
      c'.s.l.obj lf = { (layerBefore c dur p).obj lf with mtime := t } ∧
      (c'.s.l.obj lf).data = (c.s.b.obj bf).data ∧
      (c'.s.l.obj lf).mtime = t ∧
      (c'.s.b.obj bf).mtime = t ∧
      (c'.s.b.obj bf).data = (c.s.b.obj bf).data ∧
      cacheStatus c' dur (keyOfStr p) = .hit := by
  obtain ⟨lf, a1, a2, a3, a4, a5, a6, a7, a8⟩ := meta_miss_or_stale c dur p (.chtimes p t)
    (fun d => { d with mtime := t }) bf
    (fun m f h => chtimes_some m (keyOfStr p) t f h) hst hb hfile hrb hr
  refine ⟨lf, _, a1, a2, a3, a4, rfl, rfl, rfl, a5, a6, a7, a8, ?_, ?_, ?_, ?_, ?_⟩
  · show ((((layerBefore c dur p).step (.chtimes p t)).1).obj lf).data = _
    rw [a8]; exact a2
  · show ((((layerBefore c dur p).step (.chtimes p t)).1).obj lf).mtime = _
    rw [a8]
  · show (((c.s.b.step (.chtimes p t)).1).obj bf).mtime = _
    rw [a6]
  · show (((c.s.b.step (.chtimes p t)).1).obj bf).data = _
    rw [a6]
  · refine C10.dur_pos_hit_of_base_not_newer _ dur _ lf bf a7 a5 ?_
    show ¬ ((((c.s.b.step (.chtimes p t)).1).obj bf).mtime >
      ((((layerBefore c dur p).step (.chtimes p t)).1).obj lf).mtime)
    rw [a6, a8]
    exact Int.lt_irrefl _

/-! ## (B) "the next access returns the base's new content and refreshes the cache", over two calls -/

/-- a read-through that is not served from the cache (miss or stale), and the `Read` after it: `Open`
    succeeds, the base is unchanged, the cache layer then holds the base's bytes and the base's
    modification time under the name, and reading `n` bytes through the returned handle returns the
    first `n` bytes of the BASE's file -/
theorem open_miss_or_stale_reads_base (c : Cow) (dur : Int) (p : Str) (bf n : Nat)
    (hst : cacheStatus c dur (keyOfStr p) = .miss ∨ cacheStatus c dur (keyOfStr p) = .stale)
    (hb : c.s.b.lookup (keyOfStr p) = some bf) (hfile : (c.s.b.obj bf).dir = false) (hr : InRange c.s.l) :
    ∃ lf c', Cache.step dur c (.open_ p) = (c', .handle c.hs.length none) ∧ c'.s.b = c.s.b ∧
      c'.s.l.lookup (keyOfStr p) = some lf ∧
      (c'.s.l.obj lf).data = (c.s.b.obj bf).data ∧ (c'.s.l.obj lf).mtime = (c.s.b.obj bf).mtime ∧
      (Cache.step dur c' (.hRead c.hs.length n)).2 =
        .file (.bytes ((c.s.b.obj bf).data.take n)
          (if 0 < n ∧ (c.s.b.obj bf).data = [] then some .eof else none)) := by
  obtain ⟨lf, i, g1, g2, g3, g4, g5, g6, g7⟩ := C10.miss_or_stale_serves_base c dur p bf hst hb hfile hr
  have e : Cache.step dur c (.open_ p) = Cache.open_ c dur p := rfl
  rw [e]
  generalize Cache.open_ c dur p = R at g1 g2 g3 g4 g5 g6 g7
  obtain ⟨c', r⟩ := R
  simp only at g1 g2 g3 g4 g5 g6 g7
  subst g1
  refine ⟨lf, c', rfl, g2, g5, g6, g7, ?_⟩
  rw [cache_step_handle dur c' (.hRead c.hs.length n) c.hs.length rfl,
    cow_step_layer c' (.hRead c.hs.length n) c.hs.length i rfl (by rw [g3]; simp)]
  have := hRead_fresh c'.s.l i { obj := lf, h := { readOnly := true } } n g4 rfl rfl
  rw [← g6]
  exact this

/-- the state some time later: the base has been rewritten directly, behind the cache's back (it is
    now `b'`), and the clock of the cache layer shows `now'`; the cache layer's files and the open
    handles are what they were -/
def laterWithBase (c : Cow) (b' : MemFs) (now' : Int) : Cow :=
  setB (setL c { c.s.l with now := now' }) b'

/-- **positive duration: once the cached copy is older than the duration and the base copy is newer,
    the next access returns the base's new content and refreshes the cache.**
    Now (`c`): the name is a hit, the cached copy `lf` holds `d0` — a read returns `d0`.
    Later (`laterWithBase c b' now'`): the base holds `d1` under the name with a modification time
    newer than the copy's, and the copy's time plus the duration lies before `now'`.  Then the status is
    stale; `Open` succeeds and leaves the base as it is; `Read` through the returned handle returns
    `d1`; the cache layer now holds `d1` with the base's new modification time; and the name is a hit
    again. -/
theorem stale_access_returns_new_content (c : Cow) (dur : Int) (p : Str) (lf bf' n : Nat)
    (b' : MemFs) (now' : Int) (d0 d1 : Bytes)
    (hd : dur ≠ 0)
    (hhit : cacheStatus c dur (keyOfStr p) = .hit)
    (hl : c.s.l.lookup (keyOfStr p) = some lf) (hlfile : (c.s.l.obj lf).dir = false)
    (hd0 : (c.s.l.obj lf).data = d0) (hr : InRange c.s.l)
    (hb' : b'.lookup (keyOfStr p) = some bf') (hfile' : (b'.obj bf').dir = false)
    (hd1 : (b'.obj bf').data = d1)
    (hnewer : (b'.obj bf').mtime > (c.s.l.obj lf).mtime)
    (hexp : (c.s.l.obj lf).mtime + dur < now') :
    (Cache.step dur (Cache.step dur c (.open_ p)).1 (.hRead c.hs.length n)).2 =
      .file (.bytes (d0.take n) (if 0 < n ∧ d0 = [] then some .eof else none)) ∧
    cacheStatus (laterWithBase c b' now') dur (keyOfStr p) = .stale ∧
    ∃ lf' c'', Cache.step dur (laterWithBase c b' now') (.open_ p) = (c'', .handle c.hs.length none) ∧
      c''.s.b = b' ∧
      (Cache.step dur c'' (.hRead c.hs.length n)).2 =
        .file (.bytes (d1.take n) (if 0 < n ∧ d1 = [] then some .eof else none)) ∧
      c''.s.l.lookup (keyOfStr p) = some lf' ∧ (c''.s.l.obj lf').data = d1 ∧
      (c''.s.l.obj lf').mtime = (b'.obj bf').mtime ∧
      cacheStatus c'' dur (keyOfStr p) = .hit := by
  have h0 := (C10.hit_is_read_from_cache c dur p lf n hhit hl hlfile).2.2.2
  rw [hd0] at h0
  have hstale : cacheStatus (laterWithBase c b' now') dur (keyOfStr p) = .stale :=
    (C10.dur_pos_stale_iff (laterWithBase c b' now') dur (keyOfStr p) hd).mpr ⟨lf, bf', hl, hb', hexp, hnewer⟩
  have hr' : InRange (laterWithBase c b' now').s.l := fun k f h => hr k f h
  obtain ⟨lf', c'', e1, e2, e3, e4, e5, e6⟩ :=
    open_miss_or_stale_reads_base (laterWithBase c b' now') dur p bf' n (Or.inr hstale) hb' hfile' hr'
  have e2' : c''.s.b = b' := e2
  have e4' : (c''.s.l.obj lf').data = (b'.obj bf').data := e4
  have e5' : (c''.s.l.obj lf').mtime = (b'.obj bf').mtime := e5
  have e6' : (Cache.step dur c'' (.hRead c.hs.length n)).2 =
      .file (.bytes ((b'.obj bf').data.take n) (if 0 < n ∧ (b'.obj bf').data = [] then some .eof else none)) := e6
  rw [hd1] at e4' e6'
  refine ⟨h0, hstale, lf', c'', e1, e2', e6', e3, e4', e5', ?_⟩
  refine C10.dur_pos_hit_of_base_not_newer c'' dur _ lf' bf' e3 (by rw [e2']; exact hb') ?_
  rw [e2', e5']
  exact Int.lt_irrefl _

/-- **duration zero: never.**  The same two steps with cache duration zero — whatever the base has
    become (`b'`), whatever the clock says (`now'`): the status is a hit, `Read` returns the CACHED
    bytes `d0`, and the cache layer still holds `d0` under the name. -/
theorem dur0_never_refreshes (c : Cow) (p : Str) (lf n : Nat) (b' : MemFs) (now' : Int) (d0 : Bytes)
    (hl : c.s.l.lookup (keyOfStr p) = some lf) (hlfile : (c.s.l.obj lf).dir = false)
    (hd0 : (c.s.l.obj lf).data = d0) :
    cacheStatus (laterWithBase c b' now') 0 (keyOfStr p) = .hit ∧
    (Cache.step 0 (laterWithBase c b' now') (.open_ p)).2 = .handle c.hs.length none ∧
    (Cache.step 0 (Cache.step 0 (laterWithBase c b' now') (.open_ p)).1 (.hRead c.hs.length n)).2 =
      .file (.bytes (d0.take n) (if 0 < n ∧ d0 = [] then some .eof else none)) ∧
    (Cache.step 0 (laterWithBase c b' now') (.open_ p)).1.s.l.lookup (keyOfStr p) = some lf ∧
    ((Cache.step 0 (laterWithBase c b' now') (.open_ p)).1.s.l.obj lf).data = d0 := by
  have hl' : (laterWithBase c b' now').s.l.lookup (keyOfStr p) = some lf := hl
  have hf' : ((laterWithBase c b' now').s.l.obj lf).dir = false := hlfile
  have hhit := C10.dur0_hit (laterWithBase c b' now') (keyOfStr p) lf hl'
  obtain ⟨g1, _, g3, _⟩ := C10.hit_is_read_from_cache (laterWithBase c b' now') 0 p lf n hhit hl' hf'
  have g4 := C10.dur0_served_for_ever (setL c { c.s.l with now := now' }) p lf n b' hl hlfile
  have hd0' : ((setL c { c.s.l with now := now' }).s.l.obj lf).data = d0 := hd0
  rw [hd0'] at g4
  have hobjs : (Cache.step 0 (laterWithBase c b' now') (.open_ p)).1.s.l.objs = c.s.l.objs := congrArg Prod.fst g3
  have hdata : (Cache.step 0 (laterWithBase c b' now') (.open_ p)).1.s.l.data = c.s.l.data := congrArg Prod.snd g3
  refine ⟨hhit, g1, g4, ?_, ?_⟩
  · unfold MemFs.lookup; rw [hdata]; exact hl
  · unfold MemFs.obj; rw [hobjs]; exact hd0

/-! ## (C) directories through the cache -/

/-- the complete listing of the directory object `f` of `m` as `Readdir` reports it: for every entry
    of its index (`DirMap.Files()`, sorted by name) the base name and the is-directory flag -/
def listing (m : MemFs) (f : Nat) : List (Str × Bool) := UFile.infosOf m (m.dirFiles (m.obj f))

/-- `Readdir(-1)` through a fresh handle (nothing read yet) on a directory: the whole index -/
theorem readdir_fresh_all (m : MemFs) (hi : Nat) (mh : MHandle) (hh : m.handles[hi]? = some mh)
    (h0 : mh.readDirCount = 0) (hd : (m.obj mh.obj).dir = true) :
    m.readdir hi (-1) =
      ({ m with handles := m.handles.set hi { mh with readDirCount := (m.dirFiles (m.obj mh.obj)).length } },
       some (m.dirFiles (m.obj mh.obj)), none) := by
  unfold MemFs.readdir
  have hneg : ¬ ((-1 : Int) > 0) := by decide
  simp only [hh, hd, h0, hneg, if_false, List.drop_zero, List.take_length, Nat.zero_add, Bool.not_true,
    Bool.false_eq_true]

theorem step_readdir_fresh (m : MemFs) (hi : Nat) (mh : MHandle) (hh : m.handles[hi]? = some mh)
    (h0 : mh.readDirCount = 0) (hd : (m.obj mh.obj).dir = true) :
    (m.step (.hReaddir hi (-1))).2 = .infos (listing m mh.obj) none ∧
    (m.step (.hReaddirnames hi (-1))).2 = .names ((listing m mh.obj).map (·.1)) none := by
  have e := readdir_fresh_all m hi mh hh h0 hd
  constructor
  · show (match m.readdir hi (-1) with
      | (m', fs, e) => (m', match fs with
        | none => MRes.file (.err (e.getD .inval))
        | some fs => MRes.infos (fs.map fun o => (baseName (m'.obj o).name, (m'.obj o).dir)) e)).2 = _
    rw [e]
    rfl
  · show (match m.readdir hi (-1) with
      | (m', fs, e) => (m', match fs with
        | none => MRes.file (.err (e.getD .inval))
        | some fs => MRes.names (fs.map fun o => baseName (m'.obj o).name) e)).2 = _
    rw [e]
    simp only [listing, UFile.infosOf, List.map_map]
    rfl

/-- `UnionFile.Readdir(-1)`, first call, both handles fresh and on directories: the merge of the
    two complete listings -/
theorem ureaddir_fresh (s : Layers) (u : UFile) (ml mb : MHandle) (hu : u.off = 0) (huf : u.files = [])
    (hhl : s.l.handles[u.li]? = some ml) (hl0 : ml.readDirCount = 0) (hld : (s.l.obj ml.obj).dir = true)
    (hhb : s.b.handles[u.bi]? = some mb) (hb0 : mb.readDirCount = 0) (hbd : (s.b.obj mb.obj).dir = true) :
    (u.readdir s (-1)).2.2 = (some (UFile.merge (listing s.l ml.obj) (listing s.b mb.obj)), none) := by
  unfold UFile.readdir
  rw [readdir_fresh_all s.l u.li ml hhl hl0 hld, readdir_fresh_all s.b u.bi mb hhb hb0 hbd]
  have hneg : ((-1 : Int) ≤ 0) := by decide
  simp only [hu, huf, if_true, hneg, List.nil_append, List.drop_zero]
  rfl

theorem cow_step_union_readdir (c : Cow) (h : Nat) (u : UFile) (n : Int) (hh : c.hs[h]? = some (.union u)) :
    (c.step (.hReaddir h n)).2 =
      (match (u.readdir c.s n).2.2.1 with
        | none => MRes.file (.err ((u.readdir c.s n).2.2.2.getD .inval))
        | some fs => MRes.infos fs (u.readdir c.s n).2.2.2) ∧
    (c.step (.hReaddirnames h n)).2 =
      (match (u.readdir c.s n).2.2.1 with
        | none => MRes.file (.err ((u.readdir c.s n).2.2.2.getD .inval))
        | some fs => MRes.names (fs.map (·.1)) (u.readdir c.s n).2.2.2) := by
  constructor
  · simp only [Cow.step, Op.handle?, Cow.handleOp, hh]; rfl
  · simp only [Cow.step, Op.handle?, Cow.handleOp, hh]; rfl

/-- **a directory of the base that the cache layer does not have** (status miss): `Open` answers a
    handle on the base's directory; nothing is copied — the cache layer is exactly what it was
    (`C10.dirs_never_copied`), the base keeps its objects and its path map; and `Readdir(-1)` /
    `Readdirnames(-1)` through the handle list the base's directory (the cache layer has no entry to
    add: the union with nothing) -/
theorem dir_miss_lists_base (c : Cow) (dur : Int) (p : Str) (bf : Nat)
    (hl : c.s.l.lookup (keyOfStr p) = none) (hb : c.s.b.lookup (keyOfStr p) = some bf)
    (hdir : (c.s.b.obj bf).dir = true) :
    ∃ c', Cache.step dur c (.open_ p) = (c', .handle c.hs.length none) ∧
      c'.s.l = c.s.l ∧ RO.tree c'.s.b = RO.tree c.s.b ∧
      (Cache.step dur c' (.hReaddir c.hs.length (-1))).2 = .infos (listing c.s.b bf) none ∧
      (Cache.step dur c' (.hReaddirnames c.hs.length (-1))).2 =
        .names ((listing c.s.b bf).map (·.1)) none := by
  have e : Cache.step dur c (.open_ p) =
      ({ s := { c.s with b := { c.s.b with handles := c.s.b.handles ++ [{ obj := bf, h := { readOnly := true } }] } },
         hs := c.hs ++ [.base c.s.b.handles.length] }, .handle c.hs.length none) := by
    show Cache.open_ c dur p = _
    unfold Cache.open_
    simp only [(C10.status_miss_iff c dur _).mpr hl, hb, hdir, if_true]
    unfold Cache.baseOpen MemFs.openRO
    simp only [hb]
    rfl
  have hrd := step_readdir_fresh
    { c.s.b with handles := c.s.b.handles ++ [({ obj := bf, h := { readOnly := true } } : MHandle)] }
    c.s.b.handles.length { obj := bf, h := { readOnly := true } } (by simp) rfl hdir
  refine ⟨_, e, rfl, rfl, ?_, ?_⟩
  · rw [cache_step_handle dur _ (.hReaddir c.hs.length (-1)) c.hs.length rfl,
      cow_step_base _ (.hReaddir c.hs.length (-1)) c.hs.length c.s.b.handles.length rfl (by simp)]
    exact hrd.1
  · rw [cache_step_handle dur _ (.hReaddirnames c.hs.length (-1)) c.hs.length rfl,
      cow_step_base _ (.hReaddirnames c.hs.length (-1)) c.hs.length c.s.b.handles.length rfl (by simp)]
    exact hrd.2

/-- with an entry in both layers the status is hit or stale, and `Open` of a directory is the union -/
theorem open_dir_both (c : Cow) (dur : Int) (p : Str) (lf bf : Nat)
    (hl : c.s.l.lookup (keyOfStr p) = some lf) (hldir : (c.s.l.obj lf).dir = true)
    (hb : c.s.b.lookup (keyOfStr p) = some bf) (hdir : (c.s.b.obj bf).dir = true) :
    Cache.open_ c dur p = unionOpen c (keyOfStr p) := by
  unfold Cache.open_
  have hst : cacheStatus c dur (keyOfStr p) = .hit ∨ cacheStatus c dur (keyOfStr p) = .stale := by
    unfold cacheStatus
    simp only [hl, hb]
    repeat' split
    all_goals simp
  rcases hst with h | h <;> simp [h, hl, hb, hldir, hdir]

/-- **a directory that both layers have** (status hit or stale): `Open` answers a union handle over a
    fresh handle of either layer; nothing is copied — both layers keep their objects and their path
    maps; and `Readdir(-1)` / `Readdirnames(-1)` through it return the MERGE (`UFile.merge`, the
    `defaultUnionMergeDirsFn` of CopyOnWriteFs) of the cache layer's and the base's complete listings -/
theorem dir_cached_lists_merge (c : Cow) (dur : Int) (p : Str) (lf bf : Nat)
    (hl : c.s.l.lookup (keyOfStr p) = some lf) (hldir : (c.s.l.obj lf).dir = true)
    (hb : c.s.b.lookup (keyOfStr p) = some bf) (hdir : (c.s.b.obj bf).dir = true) :
    ∃ c', Cache.step dur c (.open_ p) = (c', .handle c.hs.length none) ∧
      RO.tree c'.s.l = RO.tree c.s.l ∧ RO.tree c'.s.b = RO.tree c.s.b ∧
      (Cache.step dur c' (.hReaddir c.hs.length (-1))).2 =
        .infos (UFile.merge (listing c.s.l lf) (listing c.s.b bf)) none ∧
      (Cache.step dur c' (.hReaddirnames c.hs.length (-1))).2 =
        .names ((UFile.merge (listing c.s.l lf) (listing c.s.b bf)).map (·.1)) none := by
  have e : Cache.step dur c (.open_ p) =
      ({ s := { b := { c.s.b with handles := c.s.b.handles ++ [{ obj := bf, h := { readOnly := true } }] },
                l := { c.s.l with handles := c.s.l.handles ++ [{ obj := lf, h := { readOnly := true } }] } },
         hs := c.hs ++ [.union { bi := c.s.b.handles.length, li := c.s.l.handles.length }] },
       .handle c.hs.length none) := by
    show Cache.open_ c dur p = _
    rw [open_dir_both c dur p lf bf hl hldir hb hdir]
    unfold unionOpen MemFs.openRO
    simp only [hl, hb]
    rfl
  have hu := ureaddir_fresh
    { b := { c.s.b with handles := c.s.b.handles ++ [({ obj := bf, h := { readOnly := true } } : MHandle)] },
      l := { c.s.l with handles := c.s.l.handles ++ [({ obj := lf, h := { readOnly := true } } : MHandle)] } }
    { bi := c.s.b.handles.length, li := c.s.l.handles.length }
    { obj := lf, h := { readOnly := true } } { obj := bf, h := { readOnly := true } }
    rfl rfl (by simp) rfl hldir (by simp) rfl hdir
  obtain ⟨r1, r2⟩ := cow_step_union_readdir
    ({ s := { b := { c.s.b with handles := c.s.b.handles ++ [{ obj := bf, h := { readOnly := true } }] },
              l := { c.s.l with handles := c.s.l.handles ++ [{ obj := lf, h := { readOnly := true } }] } },
       hs := c.hs ++ [.union { bi := c.s.b.handles.length, li := c.s.l.handles.length }] } : Cow)
    c.hs.length { bi := c.s.b.handles.length, li := c.s.l.handles.length } (-1) (by simp)
  refine ⟨_, e, rfl, rfl, ?_, ?_⟩
  · rw [cache_step_handle dur _ (.hReaddir c.hs.length (-1)) c.hs.length rfl, r1, hu]
    rfl
  · rw [cache_step_handle dur _ (.hReaddirnames c.hs.length (-1)) c.hs.length rfl, r2, hu]
    rfl

/-- **the listing through the cache is the union of the two layers' listings, each name once.**
    For a directory both layers have: `Open` copies nothing; `Readdir(-1)` returns entries `es` and
    `Readdirnames(-1)` their names; no name occurs twice; a name is listed exactly when the cache
    layer's directory or the base's directory lists it; and (names being distinct within the cache
    layer's directory, as in any directory) every entry of the cache layer appears as it is — where
    both layers have a name, the cache layer's entry is the one shown. -/
theorem dir_listing_is_union (c : Cow) (dur : Int) (p : Str) (lf bf : Nat)
    (hl : c.s.l.lookup (keyOfStr p) = some lf) (hldir : (c.s.l.obj lf).dir = true)
    (hb : c.s.b.lookup (keyOfStr p) = some bf) (hdir : (c.s.b.obj bf).dir = true) :
    ∃ c' es, Cache.step dur c (.open_ p) = (c', .handle c.hs.length none) ∧
      RO.tree c'.s.l = RO.tree c.s.l ∧ RO.tree c'.s.b = RO.tree c.s.b ∧
      (Cache.step dur c' (.hReaddir c.hs.length (-1))).2 = .infos es none ∧
      (Cache.step dur c' (.hReaddirnames c.hs.length (-1))).2 = .names (es.map (·.1)) none ∧
      (es.map (·.1)).Nodup ∧
      (∀ n, n ∈ es.map (·.1) ↔ n ∈ (listing c.s.l lf).map (·.1) ∨ n ∈ (listing c.s.b bf).map (·.1)) ∧
      (((listing c.s.l lf).map (·.1)).Nodup → ∀ x ∈ listing c.s.l lf, x ∈ es) := by
  obtain ⟨c', e1, e2, e3, e4, e5⟩ := dir_cached_lists_merge c dur p lf bf hl hldir hb hdir
  obtain ⟨u1, u2⟩ := C06.readdir_is_union_nodup (listing c.s.l lf) (listing c.s.b bf)
  exact ⟨c', _, e1, e2, e3, e4, e5, u1, u2,
    fun hnd x hx => C06.overlay_entry_wins (listing c.s.l lf) (listing c.s.b bf) x hx hnd⟩

/-- **a directory only the cache layer has** (the base has no entry under the name; status hit or
    local): `Open` answers a handle on the cache layer's directory, the base is not touched, and the
    listing is the cache layer's -/
theorem dir_layer_only_lists_cache (c : Cow) (dur : Int) (p : Str) (lf : Nat)
    (hl : c.s.l.lookup (keyOfStr p) = some lf) (hldir : (c.s.l.obj lf).dir = true)
    (hb : c.s.b.lookup (keyOfStr p) = none) :
    ∃ c', Cache.step dur c (.open_ p) = (c', .handle c.hs.length none) ∧
      c'.s.b = c.s.b ∧ RO.tree c'.s.l = RO.tree c.s.l ∧
      (Cache.step dur c' (.hReaddir c.hs.length (-1))).2 = .infos (listing c.s.l lf) none ∧
      (Cache.step dur c' (.hReaddirnames c.hs.length (-1))).2 =
        .names ((listing c.s.l lf).map (·.1)) none := by
  have e : Cache.step dur c (.open_ p) =
      ({ s := { c.s with l := { c.s.l with handles := c.s.l.handles ++ [{ obj := lf, h := { readOnly := true } }] } },
         hs := c.hs ++ [.layer c.s.l.handles.length] }, .handle c.hs.length none) := by
    show Cache.open_ c dur p = _
    have hst : cacheStatus c dur (keyOfStr p) = .hit ∨ cacheStatus c dur (keyOfStr p) = .local_ := by
      unfold cacheStatus
      simp only [hl, hb]
      repeat' split
      all_goals simp
    unfold Cache.open_
    rcases hst with h | h
    · simp only [h, hl, hldir]
      unfold unionOpen MemFs.openRO
      simp only [hl, hb]
      rfl
    · simp only [h]
      unfold layerOpen MemFs.openRO
      simp only [hl]
      rfl
  have hrd := step_readdir_fresh
    { c.s.l with handles := c.s.l.handles ++ [({ obj := lf, h := { readOnly := true } } : MHandle)] }
    c.s.l.handles.length { obj := lf, h := { readOnly := true } } (by simp) rfl hldir
  refine ⟨_, e, rfl, rfl, ?_, ?_⟩
  · rw [cache_step_handle dur _ (.hReaddir c.hs.length (-1)) c.hs.length rfl,
      cow_step_layer _ (.hReaddir c.hs.length (-1)) c.hs.length c.s.l.handles.length rfl (by simp)]
    exact hrd.1
  · rw [cache_step_handle dur _ (.hReaddirnames c.hs.length (-1)) c.hs.length rfl,
      cow_step_layer _ (.hReaddirnames c.hs.length (-1)) c.hs.length c.s.l.handles.length rfl (by simp)]
    exact hrd.2

/-! ## non-vacuity: the hypotheses hold in concrete states, and the conclusions are the values the
    model computes there -/

/-- `C10.c0`: base `/f` = 1 2 3 with modification time -9000, empty cache layer -/
def exK : Key := keyOfStr "/f".toList
/-- after the first read through the cache (duration one hour): `/f` is cached, a hit -/
def exHit : Cow := (Cache.step 3600 C10.c0 (.open_ "/f".toList)).1
/-- the base copy then gets newer than the expired cached copy: stale -/
def exStale : Cow := setB exHit (exHit.s.b.chtimes exK (-10)).1
/-- the base file rewritten directly: `/f` = 9 9, modification time 0 -/
def exB' : MemFs := ((exHit.s.b.step (.create "/f".toList)).1.step (.hWrite 0 [9, 9])).1

/-- (A) hypotheses of the three metadata theorems, miss (`C10.c0`) and stale (`exStale`) -/
example : cacheStatus C10.c0 3600 exK = .miss ∧ C10.c0.s.b.lookup exK = some 1 ∧
    (C10.c0.s.b.obj 1).dir = false := by decide
example : cacheStatus exStale 3600 exK = .stale ∧ exStale.s.b.lookup exK = some 1 ∧
    (exStale.s.b.obj 1).dir = false := by decide
example : InRange C10.c0.s.b ∧ InRange C10.c0.s.l ∧ InRange exStale.s.b ∧ InRange exStale.s.l :=
  ⟨valsOK_inRange (by unfold ValsOK; decide), inRange_init,
   valsOK_inRange (by unfold ValsOK; decide), valsOK_inRange (by unfold ValsOK; decide)⟩
/-- Chmod of the uncached file: the cache layer gets the base's bytes with the base's modification
    time, the permission bits change on both sides, the name is a hit afterwards -/
example : let r := Cache.step 3600 C10.c0 (.chmod "/f".toList 0o600)
    r.2 = .ok ∧ r.1.s.l.lookup exK = some 1 ∧ (r.1.s.l.obj 1).data = [1, 2, 3] ∧ (r.1.s.l.obj 1).mtime = -9000 ∧
    (r.1.s.l.obj 1).mode = modeTemporary ||| 0o600 ∧ (r.1.s.b.obj 1).mode = modeTemporary ||| 0o600 ∧
    (C10.c0.s.b.obj 1).mode = modeTemporary ∧ cacheStatus r.1 3600 exK = .hit := by decide
/-- Chown of the outdated file: owner on both sides, the copy carries the base's time (-10) -/
example : let r := Cache.step 3600 exStale (.chown "/f".toList 7 8)
    r.2 = .ok ∧ (r.1.s.l.obj 1).uid = 7 ∧ (r.1.s.l.obj 1).gid = 8 ∧ (r.1.s.b.obj 1).uid = 7 ∧ (r.1.s.b.obj 1).gid = 8 ∧
    (r.1.s.l.obj 1).data = [1, 2, 3] ∧ (r.1.s.l.obj 1).mtime = -10 ∧ (exStale.s.l.obj 1).mtime = -9000 := by decide
/-- Chtimes of the outdated file: the new time on both sides -/
example : let r := Cache.step 3600 exStale (.chtimes "/f".toList 50)
    r.2 = .ok ∧ r.1.s.l.lookup exK = some 1 ∧ (r.1.s.l.obj 1).data = [1, 2, 3] ∧ (r.1.s.l.obj 1).mtime = 50 ∧
    (r.1.s.b.obj 1).mtime = 50 ∧ cacheStatus r.1 3600 exK = .hit := by decide

/-- the three theorems, instantiated (all hypotheses at once) -/
example := chmod_miss_or_stale_refreshes C10.c0 3600 "/f".toList 0o600 1 (Or.inl (by decide)) (by decide) (by decide)
  (valsOK_inRange (by unfold ValsOK; decide)) inRange_init
example := chown_miss_or_stale_refreshes exStale 3600 "/f".toList 7 8 1 (Or.inr (by decide)) (by decide) (by decide)
  (valsOK_inRange (by unfold ValsOK; decide)) (valsOK_inRange (by unfold ValsOK; decide))
example := chtimes_miss_or_stale_refreshes exStale 3600 "/f".toList 50 1 (Or.inr (by decide)) (by decide) (by decide)
  (valsOK_inRange (by unfold ValsOK; decide)) (valsOK_inRange (by unfold ValsOK; decide))
example := copy_first_frame C10.c0 3600 "/f".toList 1 (Or.inl (by decide)) (by decide) (by decide) consistent_init

/-- (B) hypotheses of `stale_access_returns_new_content` / `dur0_never_refreshes`: `exHit` now, `exB'`
    and clock 5 later -/
example : (3600 : Int) ≠ 0 ∧ cacheStatus exHit 3600 exK = .hit ∧ exHit.s.l.lookup exK = some 1 ∧
    (exHit.s.l.obj 1).dir = false ∧ (exHit.s.l.obj 1).data = [1, 2, 3] ∧ exHit.hs.length = 1 ∧
    exB'.lookup exK = some 1 ∧ (exB'.obj 1).dir = false ∧ (exB'.obj 1).data = [9, 9] ∧
    (exB'.obj 1).mtime > (exHit.s.l.obj 1).mtime ∧ (exHit.s.l.obj 1).mtime + 3600 < 5 := by decide
example : InRange exHit.s.l := valsOK_inRange (by unfold ValsOK; decide)
/-- … the next access returns the new content and refreshes the cache … -/
example : let r := Cache.step 3600 (laterWithBase exHit exB' 5) (.open_ "/f".toList)
    cacheStatus (laterWithBase exHit exB' 5) 3600 exK = .stale ∧ r.2 = .handle 1 none ∧
    (Cache.step 3600 r.1 (.hRead 1 8)).2 = .file (.bytes [9, 9] none) ∧
    (r.1.s.l.obj 1).data = [9, 9] ∧ (r.1.s.l.obj 1).mtime = 0 ∧ cacheStatus r.1 3600 exK = .hit := by decide
/-- … and with duration zero the cached bytes are served -/
example : let r := Cache.step 0 (laterWithBase exHit exB' 5) (.open_ "/f".toList)
    r.2 = .handle 1 none ∧ (Cache.step 0 r.1 (.hRead 1 8)).2 = .file (.bytes [1, 2, 3] none) ∧
    (r.1.s.l.obj 1).data = [1, 2, 3] := by decide

/-- both theorems, instantiated -/
example := stale_access_returns_new_content exHit 3600 "/f".toList 1 1 8 exB' 5 [1, 2, 3] [9, 9]
  (by decide) (by decide) (by decide) (by decide) (by decide) (valsOK_inRange (by unfold ValsOK; decide))
  (by decide) (by decide) (by decide) (by decide) (by decide)
example := dur0_never_refreshes exHit "/f".toList 1 8 exB' 5 [1, 2, 3] (by decide) (by decide) (by decide)

/-- (C) a base with `/d/a`, `/d/b` and a cache layer with `/d/b`, `/d/z` (a directory) -/
def exDirB : MemFs :=
  { MemFs.run MemFs.init [.mkdir "/d".toList 0o755, .create "/d/a".toList, .create "/d/b".toList] with handles := [] }
def exDirL : MemFs :=
  { MemFs.run MemFs.init [.mkdir "/d".toList 0o755, .create "/d/b".toList, .mkdir "/d/z".toList 0o755] with handles := [] }
def exDirC : Cow := { s := { b := exDirB, l := exDirL }, hs := [] }
def exDirC0 : Cow := { s := { b := exDirB, l := MemFs.init }, hs := [] }
def exDirCL : Cow := { s := { b := MemFs.init, l := exDirL }, hs := [] }
def exKD : Key := keyOfStr "/d".toList

/-- `List.mergeSort` does not reduce by `decide`; on two entries it is one comparison -/
theorem mergeSort_two {α : Type} (a b : α) (le : α → α → Bool) :
    [a, b].mergeSort le = if le a b then [a, b] else [b, a] := by
  simp [List.mergeSort, List.MergeSort.Internal.splitInTwo, List.merge]

theorem exDirL_listing : listing exDirC.s.l 1 = [("b".toList, false), ("z".toList, true)] := by
  have hm : (exDirL.obj 1).memDir = some [(keyOfStr "/d/b".toList, 2), (keyOfStr "/d/z".toList, 3)] := by decide
  have hf : exDirL.dirFiles (exDirL.obj 1) = [2, 3] := by
    unfold MemFs.dirFiles
    rw [hm]
    simp only [Option.getD_some]
    rw [mergeSort_two]
    decide
  show UFile.infosOf exDirL (exDirL.dirFiles (exDirL.obj 1)) = _
  rw [hf]
  decide

theorem exDirB_listing : listing exDirC.s.b 1 = [("a".toList, false), ("b".toList, false)] := by
  have hm : (exDirB.obj 1).memDir = some [(keyOfStr "/d/a".toList, 2), (keyOfStr "/d/b".toList, 3)] := by decide
  have hf : exDirB.dirFiles (exDirB.obj 1) = [2, 3] := by
    unfold MemFs.dirFiles
    rw [hm]
    simp only [Option.getD_some]
    rw [mergeSort_two]
    decide
  show UFile.infosOf exDirB (exDirB.dirFiles (exDirB.obj 1)) = _
  rw [hf]
  decide

/-- hypotheses of `dir_cached_lists_merge` / `dir_listing_is_union` (dur 0: a hit) -/
example : cacheStatus exDirC 0 exKD = .hit ∧ exDirC.s.l.lookup exKD = some 1 ∧ (exDirC.s.l.obj 1).dir = true ∧
    exDirC.s.b.lookup exKD = some 1 ∧ (exDirC.s.b.obj 1).dir = true := by decide
/-- … the distinct-names premise holds … -/
example : ((listing exDirC.s.l 1).map (·.1)).Nodup := by rw [exDirL_listing]; decide
/-- … and the theorem, applied there: `b` (once, the cache layer's), `z` (cache only), `a` (base only) -/
example : ∃ c', Cache.step 0 exDirC (.open_ "/d".toList) = (c', .handle 0 none) ∧
    (Cache.step 0 c' (.hReaddir 0 (-1))).2 =
      .infos [("b".toList, false), ("z".toList, true), ("a".toList, false)] none ∧
    (Cache.step 0 c' (.hReaddirnames 0 (-1))).2 = .names ["b".toList, "z".toList, "a".toList] none := by
  obtain ⟨c', e1, _, _, e4, e5⟩ := dir_cached_lists_merge exDirC 0 "/d".toList 1 1
    (by decide) (by decide) (by decide) (by decide)
  refine ⟨c', e1, ?_, ?_⟩
  · refine Eq.trans e4 ?_; rw [exDirL_listing, exDirB_listing]; decide
  · refine Eq.trans e5 ?_; rw [exDirL_listing, exDirB_listing]; decide
example := dir_listing_is_union exDirC 0 "/d".toList 1 1 (by decide) (by decide) (by decide) (by decide)
/-- hypotheses of `dir_miss_lists_base`; the theorem applied: the base's listing, nothing in the cache -/
example : exDirC0.s.l.lookup exKD = none ∧ exDirC0.s.b.lookup exKD = some 1 ∧ (exDirC0.s.b.obj 1).dir = true := by
  decide
example : ∃ c', Cache.step 3600 exDirC0 (.open_ "/d".toList) = (c', .handle 0 none) ∧ c'.s.l = MemFs.init ∧
    (Cache.step 3600 c' (.hReaddirnames 0 (-1))).2 = .names ["a".toList, "b".toList] none := by
  obtain ⟨c', e1, e2, _, _, e5⟩ := dir_miss_lists_base exDirC0 3600 "/d".toList 1 (by decide) (by decide) (by decide)
  refine ⟨c', e1, e2, ?_⟩
  have : listing exDirC0.s.b 1 = listing exDirC.s.b 1 := rfl
  refine Eq.trans e5 ?_; rw [this, exDirB_listing]; decide
/-- hypotheses of `dir_layer_only_lists_cache`; the theorem applied -/
example : exDirCL.s.l.lookup exKD = some 1 ∧ (exDirCL.s.l.obj 1).dir = true ∧ exDirCL.s.b.lookup exKD = none := by
  decide
example : ∃ c', Cache.step 3600 exDirCL (.open_ "/d".toList) = (c', .handle 0 none) ∧
    (Cache.step 3600 c' (.hReaddirnames 0 (-1))).2 = .names ["b".toList, "z".toList] none := by
  obtain ⟨c', e1, _, _, _, e5⟩ := dir_layer_only_lists_cache exDirCL 3600 "/d".toList 1 (by decide) (by decide) (by decide)
  refine ⟨c', e1, ?_⟩
  have : listing exDirCL.s.l 1 = listing exDirC.s.l 1 := rfl
  refine Eq.trans e5 ?_; rw [this, exDirL_listing]; decide

end Cache
end AferoVerif
