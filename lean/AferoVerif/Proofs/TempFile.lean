/-
  Lemmas for C18: what an exclusive create / Mkdir of the MemMapFs model does to the entries that
  existed before (`Ext`), key-level facts about `filepath.Join(dir, base)`, facts about the
  nine-digit strings of `nextRandom`.
-/
import AferoVerif.Model.TempFile
import AferoVerif.Proofs.Path
namespace AferoVerif.Temp
open AferoVerif AferoVerif.Path

/-! ### association lists -/

theorem alLookup_append_absent (d : List (Key × Nat)) (k k' : Key) (v : Nat) (h : alLookup d k = none) :
    alLookup (d ++ [(k, v)]) k' = if k' = k then some v else alLookup d k' := by
  unfold alLookup at *
  rw [List.find?_append]
  by_cases hk : k' = k
  · subst hk
    have : List.find? (fun x => decide (x.1 = k')) d = none := by
      cases hf : List.find? (fun x => decide (x.1 = k')) d with
      | none => rfl
      | some x => simp [hf] at h
    simp [this]
  · simp only [hk, if_false]
    have : List.find? (fun x => decide (x.1 = k')) [(k, v)] = none := by
      simp [List.find?, Ne.symm hk]
    simp [this]

theorem alInsert_absent (d : List (Key × Nat)) (k : Key) (v : Nat) (h : alLookup d k = none) :
    alInsert d k v = d ++ [(k, v)] := by
  unfold alInsert; simp [h]

/-! ### objects -/

theorem obj_setObj (m : MemFs) (p o : Nat) (x : FData) :
    (m.setObj p x).obj o = if o = p ∧ p < m.objs.length then x else m.obj o := by
  unfold MemFs.obj MemFs.setObj
  simp only [List.getD_eq_getElem?_getD, List.getElem?_set]
  by_cases h : p = o
  · subst h
    by_cases hl : p < m.objs.length
    · simp [hl]
    · simp [hl]
  · have h' : ¬ o = p := fun e => h e.symm
    simp [h, h']

theorem obj_alloc_lt (m : MemFs) (x : FData) (o : Nat) (h : o < m.objs.length) :
    (m.alloc x).1.obj o = m.obj o := by
  unfold MemFs.obj MemFs.alloc
  simp [List.getD_eq_getElem?_getD, List.getElem?_append_left h]

theorem obj_alloc_new (m : MemFs) (x : FData) : (m.alloc x).1.obj m.objs.length = x := by
  unfold MemFs.obj MemFs.alloc
  simp [List.getD_eq_getElem?_getD]

/-- everything of a file object except its directory listing (and, for an object that is not a
    directory yet, the directory flag — MemMapFs turns an object into a directory when something
    is registered below it) -/
def SameContent (a b : FData) : Prop :=
  b.data = a.data ∧ b.name = a.name ∧ b.mode = a.mode ∧ b.mtime = a.mtime ∧ b.uid = a.uid ∧ b.gid = a.gid ∧
  (a.memDir.isSome → b.memDir.isSome ∧ b.dir = a.dir)

theorem SameContent.refl (a : FData) : SameContent a a := by simp [SameContent]

theorem SameContent.trans {a b c : FData} (h1 : SameContent a b) (h2 : SameContent b c) : SameContent a c := by
  obtain ⟨a1, a2, a3, a4, a5, a6, a7⟩ := h1
  obtain ⟨b1, b2, b3, b4, b5, b6, b7⟩ := h2
  refine ⟨b1.trans a1, b2.trans a2, b3.trans a3, b4.trans a4, b5.trans a5, b6.trans a6, ?_⟩
  intro h
  have := a7 h
  have h2 := b7 this.1
  exact ⟨h2.1, h2.2.trans this.2⟩

/-- `m'` extends `m`: every entry of `m` is still there, bound to the same object, and every
    object of `m` has the same content; open handles of `m` are unchanged. -/
structure Ext (m m' : MemFs) : Prop where
  len : m.objs.length ≤ m'.objs.length
  look : ∀ k o, m.lookup k = some o → m'.lookup k = some o
  obj : ∀ o, o < m.objs.length → SameContent (m.obj o) (m'.obj o)
  hlen : m.handles.length ≤ m'.handles.length
  hand : ∀ i, i < m.handles.length → m'.handles[i]? = m.handles[i]?

theorem Ext.refl (m : MemFs) : Ext m m :=
  ⟨Nat.le_refl _, fun _ _ h => h, fun _ _ => SameContent.refl _, Nat.le_refl _, fun _ _ => rfl⟩

theorem Ext.trans {a b c : MemFs} (h1 : Ext a b) (h2 : Ext b c) : Ext a c :=
  ⟨Nat.le_trans h1.len h2.len, fun k o h => h2.look k o (h1.look k o h),
   fun o h => (h1.obj o h).trans (h2.obj o (Nat.lt_of_lt_of_le h h1.len)),
   Nat.le_trans h1.hlen h2.hlen,
   fun i h => (h2.hand i (Nat.lt_of_lt_of_le h h1.hlen)).trans (h1.hand i h)⟩

theorem ext_setObj (m : MemFs) (p : Nat) (x : FData) (h : SameContent (m.obj p) x) : Ext m (m.setObj p x) := by
  refine ⟨by simp [MemFs.setObj], fun k o h => by simpa [MemFs.lookup, MemFs.setObj] using h, ?_, by simp [MemFs.setObj], fun i _ => by simp [MemFs.setObj]⟩
  intro o _
  rw [obj_setObj]
  by_cases hc : o = p ∧ p < m.objs.length
  · obtain ⟨rfl, hp⟩ := hc
    simp only [hp, and_self, if_true]; exact h
  · simp only [hc, if_false]; exact SameContent.refl _

/-- allocating an object and binding it to a key that was free -/
def bindNew (m : MemFs) (k : Key) (x : FData) : MemFs :=
  { (m.alloc x).1 with data := alInsert (m.alloc x).1.data k m.objs.length }

theorem lookup_bindNew (m : MemFs) (k k' : Key) (x : FData) (h : m.lookup k = none) :
    (bindNew m k x).lookup k' = if k' = k then some m.objs.length else m.lookup k' := by
  have h' : alLookup m.data k = none := h
  unfold bindNew MemFs.lookup
  simp only [MemFs.alloc]
  rw [alInsert_absent _ _ _ h', alLookup_append_absent _ _ _ _ h']

theorem ext_bindNew (m : MemFs) (k : Key) (x : FData) (h : m.lookup k = none) : Ext m (bindNew m k x) := by
  refine ⟨by simp [bindNew, MemFs.alloc], ?_, ?_, by simp [bindNew, MemFs.alloc], fun i _ => by simp [bindNew, MemFs.alloc]⟩
  · intro k' o hl
    rw [lookup_bindNew m k k' x h]
    by_cases hk : k' = k
    · subst hk; rw [h] at hl; cases hl
    · simp [hk, hl]
  · intro o ho
    have : (bindNew m k x).obj o = (m.alloc x).1.obj o := by simp [bindNew, MemFs.obj]
    rw [this, obj_alloc_lt m x o ho]
    exact SameContent.refl _

theorem obj_bindNew_new (m : MemFs) (k : Key) (x : FData) : (bindNew m k x).obj m.objs.length = x := by
  have : (bindNew m k x).obj m.objs.length = (m.alloc x).1.obj m.objs.length := by simp [bindNew, MemFs.obj]
  rw [this, obj_alloc_new]

theorem objs_bindNew (m : MemFs) (k : Key) (x : FData) : (bindNew m k x).objs.length = m.objs.length + 1 := by
  simp [bindNew, MemFs.alloc]

end AferoVerif.Temp

namespace AferoVerif.Temp
open AferoVerif AferoVerif.Path

/-! ### registerWithParent -/

/-- the tail of `registerWithParent`: `InitializeDir(parent); AddToMemDir(parent, f)` -/
def attach (m : MemFs) (p f : Nat) : MemFs :=
  let pd := m.obj p
  let pd := if pd.memDir.isNone then { pd with dir := true, memDir := some [] } else pd
  let fname := (m.obj f).name
  m.setObj p { pd with memDir := pd.memDir.map fun d => alInsert d fname f }

/-- after the missing parent directory has been made: look it up again and attach -/
def regTail (m3 : MemFs) (pk : Key) (f : Nat) : MemFs :=
  match m3.lookup pk with
  | none => m3
  | some p => attach m3 p f

theorem registerWithParent_succ (fuel : Nat) (m : MemFs) (f : Nat) (perm : Nat) :
    MemFs.registerWithParent (fuel + 1) m f perm =
      match m.lookup (parentKey (m.obj f).name) with
      | some p => attach m p f
      | none =>
        regTail (MemFs.registerWithParent fuel
          (bindNew m (parentKey (m.obj f).name) { (m.newDir (parentKey (m.obj f).name)) with mode := modeDir ||| perm })
          m.objs.length perm) (parentKey (m.obj f).name) f := by
  rw [MemFs.registerWithParent]
  cases h : m.lookup (parentKey (m.obj f).name) with
  | some p => rfl
  | none => rfl

end AferoVerif.Temp

namespace AferoVerif.Temp
open AferoVerif AferoVerif.Path

theorem attach_ext (m : MemFs) (p f : Nat) : Ext m (attach m p f) ∧ (attach m p f).handles = m.handles := by
  refine ⟨?_, by simp [attach, MemFs.setObj]⟩
  unfold attach
  apply ext_setObj
  by_cases h : (m.obj p).memDir.isNone = true
  · simp only [h, if_true, SameContent, true_and]
    intro h2
    cases hm : (m.obj p).memDir with
    | none => rw [hm] at h2; cases h2
    | some x => rw [hm] at h; cases h
  · have hf : (m.obj p).memDir.isNone = false := by
      cases hq : (m.obj p).memDir.isNone with
      | true => exact absurd hq h
      | false => rfl
    simp only [hf, SameContent, Bool.false_eq_true, if_false, true_and]
    intro h2
    cases hm : (m.obj p).memDir with
    | none => rw [hm] at h2; cases h2
    | some x => simp

theorem regTail_ext (m : MemFs) (pk : Key) (f : Nat) : Ext m (regTail m pk f) ∧ (regTail m pk f).handles = m.handles := by
  unfold regTail
  cases m.lookup pk with
  | none => exact ⟨Ext.refl m, rfl⟩
  | some p => exact attach_ext m p f

/-- `registerWithParent` only adds: missing ancestors are created, listings grow; nothing that
    existed is rebound, and no existing object's content changes. -/
theorem registerWithParent_ext (fuel : Nat) (m : MemFs) (f : Nat) (perm : Nat) :
    Ext m (MemFs.registerWithParent fuel m f perm) ∧ (MemFs.registerWithParent fuel m f perm).handles = m.handles := by
  induction fuel generalizing m f with
  | zero => exact ⟨by rw [MemFs.registerWithParent]; exact Ext.refl m, by rw [MemFs.registerWithParent]⟩
  | succ n ih =>
    rw [registerWithParent_succ]
    cases h : m.lookup (parentKey (m.obj f).name) with
    | some p => exact attach_ext m p f
    | none =>
      simp only []
      have e1 := ext_bindNew m (parentKey (m.obj f).name) { (m.newDir (parentKey (m.obj f).name)) with mode := modeDir ||| perm } h
      have e2 := ih (bindNew m (parentKey (m.obj f).name) { (m.newDir (parentKey (m.obj f).name)) with mode := modeDir ||| perm }) m.objs.length
      have e3 := regTail_ext (MemFs.registerWithParent n
          (bindNew m (parentKey (m.obj f).name) { (m.newDir (parentKey (m.obj f).name)) with mode := modeDir ||| perm })
          m.objs.length perm) (parentKey (m.obj f).name) f
      refine ⟨e1.trans (e2.1.trans e3.1), ?_⟩
      rw [e3.2, e2.2]; simp [bindNew, MemFs.alloc]

end AferoVerif.Temp

namespace AferoVerif.Temp
open AferoVerif AferoVerif.Path

/-! ### well-formedness: every name is bound to an allocated object -/

/-- every name of the path map is bound to an allocated object (true of every reachable state) -/
def WF (m : MemFs) : Prop := ∀ k o, m.lookup k = some o → o < m.objs.length

theorem wf_setObj {m : MemFs} (h : WF m) (p : Nat) (x : FData) : WF (m.setObj p x) := by
  intro k o hl
  have : m.lookup k = some o := by simpa [MemFs.lookup, MemFs.setObj] using hl
  simpa [MemFs.setObj] using h k o this

theorem wf_bindNew {m : MemFs} (h : WF m) (k : Key) (x : FData) (hk : m.lookup k = none) : WF (bindNew m k x) := by
  intro k' o hl
  rw [lookup_bindNew m k k' x hk] at hl
  rw [objs_bindNew]
  by_cases hkk : k' = k
  · simp [hkk] at hl; omega
  · simp [hkk] at hl; exact Nat.lt_succ_of_lt (h k' o hl)

theorem wf_attach {m : MemFs} (h : WF m) (p f : Nat) : WF (attach m p f) := by
  unfold attach; exact wf_setObj h _ _

theorem wf_regTail {m : MemFs} (h : WF m) (pk : Key) (f : Nat) : WF (regTail m pk f) := by
  unfold regTail
  cases m.lookup pk with
  | none => exact h
  | some p => exact wf_attach h p f

theorem wf_registerWithParent (fuel : Nat) (m : MemFs) (f : Nat) (perm : Nat) (h : WF m) :
    WF (MemFs.registerWithParent fuel m f perm) := by
  induction fuel generalizing m f with
  | zero => rw [MemFs.registerWithParent]; exact h
  | succ n ih =>
    rw [registerWithParent_succ]
    cases hl : m.lookup (parentKey (m.obj f).name) with
    | some p => exact wf_attach h p f
    | none => exact wf_regTail (ih _ _ (wf_bindNew h _ _ hl)) _ _

theorem wf_handles {m : MemFs} (h : WF m) (hs : List MHandle) : WF { m with handles := hs } := h

/-! ### exclusive create and Mkdir on a free name -/

theorem ext_setObj_new {m m' : MemFs} (he : Ext m m') (p : Nat) (hp : m.objs.length ≤ p) (x : FData) :
    Ext m (m'.setObj p x) := by
  refine ⟨by simpa [MemFs.setObj] using he.len, fun k o h => by simpa [MemFs.lookup, MemFs.setObj] using he.look k o h, ?_,
    by simpa [MemFs.setObj] using he.hlen, fun i hi => by simpa [MemFs.setObj] using he.hand i hi⟩
  intro o ho
  rw [obj_setObj]
  have : ¬ (o = p ∧ p < m'.objs.length) := fun hc => by omega
  simp only [this, if_false]
  exact he.obj o ho

theorem ext_addHandle {m m' : MemFs} (he : Ext m m') (hh : m'.handles = m.handles) (x : MHandle) :
    Ext m { m' with handles := m'.handles ++ [x] } := by
  refine ⟨he.len, he.look, he.obj, by simp [hh], ?_⟩
  intro i hi
  simp only [hh]
  rw [List.getElem?_append_left hi]

theorem create_absent (m : MemFs) (k : Key) (h : m.lookup k = none) :
    m.create k = (MemFs.registerWithParent ((bindNew m k (m.newFile k)).regFuel m.objs.length)
                    (bindNew m k (m.newFile k)) m.objs.length 0, m.objs.length) := by
  unfold MemFs.create
  rw [h]
  rfl

theorem tempFlags_excl : tempFlags &&& O_EXCL > 0 := by decide
theorem tempFlags_create : tempFlags &&& O_CREATE > 0 := by decide
theorem tempFlags_rw : ¬ (tempFlags &&& (O_WRONLY ||| O_RDWR) = 0) := by decide
theorem tempFlags_append : ¬ (tempFlags &&& O_APPEND > 0) := by decide
theorem tempFlags_trunc : ¬ (tempFlags &&& O_TRUNC > 0) := by decide

theorem setFileMode_found (m : MemFs) (k : Key) (f : Nat) (mode : Nat) (h : m.lookup k = some f) :
    m.setFileMode k mode = (m.setObj f { m.obj f with mode := mode }, none) := by
  unfold MemFs.setFileMode; rw [h]

/-- the exclusive create on a name that is taken: refused, nothing changes -/
theorem openFile_temp_taken (m : MemFs) (k : Key) (perm : Nat) (h : (m.lookup k).isSome) :
    m.openFile k tempFlags perm = (m, .err .exist) := by
  unfold MemFs.openFile
  simp [h, tempFlags_excl]

/-- the exclusive create on a free name: succeeds, binds the name to a brand-new empty object,
    returns a handle on that object, and extends the state -/
theorem openFile_temp_free (m : MemFs) (k : Key) (perm : Nat) (h : m.lookup k = none) :
    (m.openFile k tempFlags perm).2 = .handle m.handles.length none ∧
    Ext m (m.openFile k tempFlags perm).1 ∧
    (m.openFile k tempFlags perm).1.lookup k = some m.objs.length ∧
    (m.openFile k tempFlags perm).1.handles[m.handles.length]? = some { obj := m.objs.length, h := { readOnly := false, pos := 0 } } ∧
    (WF m → WF (m.openFile k tempFlags perm).1) := by
  have e1 := ext_bindNew m k (m.newFile k) h
  have ew : WF m → WF (MemFs.registerWithParent ((bindNew m k (m.newFile k)).regFuel m.objs.length) (bindNew m k (m.newFile k)) m.objs.length 0) :=
    fun hw => wf_registerWithParent _ _ _ _ (wf_bindNew hw k _ h)
  have e2 := registerWithParent_ext ((bindNew m k (m.newFile k)).regFuel m.objs.length) (bindNew m k (m.newFile k)) m.objs.length 0
  have hl : (MemFs.registerWithParent ((bindNew m k (m.newFile k)).regFuel m.objs.length) (bindNew m k (m.newFile k)) m.objs.length 0).lookup k
      = some m.objs.length := e2.1.look k _ (by rw [lookup_bindNew m k k _ h]; simp)
  have hh : (MemFs.registerWithParent ((bindNew m k (m.newFile k)).regFuel m.objs.length) (bindNew m k (m.newFile k)) m.objs.length 0).handles
      = m.handles := by rw [e2.2]; simp [bindNew, MemFs.alloc]
  unfold MemFs.openFile
  simp only [h, Option.isSome_none, Bool.false_eq_true, false_and, if_false, tempFlags_create, if_true, create_absent m k h,
    tempFlags_rw, tempFlags_append, tempFlags_trunc, decide_false]
  generalize hmc : MemFs.registerWithParent ((bindNew m k (m.newFile k)).regFuel m.objs.length) (bindNew m k (m.newFile k)) m.objs.length 0 = mc at *
  have hl' : MemFs.lookup { mc with handles := mc.handles ++ [{ obj := m.objs.length, h := { readOnly := false, pos := 0 } }] } k = some m.objs.length := hl
  rw [setFileMode_found _ k _ _ hl']
  refine ⟨by simp [hh], ?_, ?_, ?_, ?_⟩
  · apply ext_setObj_new _ _ (Nat.le_refl _)
    exact ext_addHandle (e1.trans e2.1) hh _
  · simpa [MemFs.lookup, MemFs.setObj] using hl
  · simp [MemFs.setObj, hh]
  · intro hw; exact wf_setObj (wf_handles (ew hw) _) _ _

end AferoVerif.Temp

namespace AferoVerif.Temp
open AferoVerif AferoVerif.Path

theorem mkdir_taken (m : MemFs) (k : Key) (perm : Nat) (h : (m.lookup k).isSome) :
    m.mkdir k perm = (m, .err .exist) := by
  unfold MemFs.mkdir
  cases hl : m.lookup k with
  | none => rw [hl] at h; cases h
  | some f => rfl

/-- Mkdir on a free name: succeeds, binds the name to a brand-new directory object, extends the state -/
theorem mkdir_free (m : MemFs) (k : Key) (perm : Nat) (h : m.lookup k = none) :
    (m.mkdir k perm).2 = .ok ∧ Ext m (m.mkdir k perm).1 ∧ (m.mkdir k perm).1.lookup k = some m.objs.length ∧
    (m.mkdir k perm).1.handles = m.handles ∧ (WF m → WF (m.mkdir k perm).1) := by
  have e1 := ext_bindNew m k { (m.newDir k) with mode := modeDir ||| (perm &&& chmodBits) } h
  have e2 := registerWithParent_ext ((bindNew m k { (m.newDir k) with mode := modeDir ||| (perm &&& chmodBits) }).regFuel m.objs.length)
    (bindNew m k { (m.newDir k) with mode := modeDir ||| (perm &&& chmodBits) }) m.objs.length (perm &&& chmodBits)
  have hl := e2.1.look k m.objs.length (by rw [lookup_bindNew m k k _ h]; simp)
  have hh : (MemFs.registerWithParent ((bindNew m k { (m.newDir k) with mode := modeDir ||| (perm &&& chmodBits) }).regFuel m.objs.length)
    (bindNew m k { (m.newDir k) with mode := modeDir ||| (perm &&& chmodBits) }) m.objs.length (perm &&& chmodBits)).handles = m.handles := by
    rw [e2.2]; simp [bindNew, MemFs.alloc]
  have hm : m.mkdir k perm =
      ((MemFs.registerWithParent ((bindNew m k { (m.newDir k) with mode := modeDir ||| (perm &&& chmodBits) }).regFuel m.objs.length)
        (bindNew m k { (m.newDir k) with mode := modeDir ||| (perm &&& chmodBits) }) m.objs.length (perm &&& chmodBits)).setObj m.objs.length
        { (MemFs.registerWithParent ((bindNew m k { (m.newDir k) with mode := modeDir ||| (perm &&& chmodBits) }).regFuel m.objs.length)
        (bindNew m k { (m.newDir k) with mode := modeDir ||| (perm &&& chmodBits) }) m.objs.length (perm &&& chmodBits)).obj m.objs.length with
          mode := (perm &&& chmodBits) ||| modeDir }, .ok) := by
    unfold MemFs.mkdir
    rw [h]
    show (match MemFs.setFileMode (MemFs.registerWithParent ((bindNew m k { (m.newDir k) with mode := modeDir ||| (perm &&& chmodBits) }).regFuel m.objs.length)
        (bindNew m k { (m.newDir k) with mode := modeDir ||| (perm &&& chmodBits) }) m.objs.length (perm &&& chmodBits)) k ((perm &&& chmodBits) ||| modeDir) with
      | (m4, none) => (m4, MRes.ok)
      | (m4, some e) => (m4, MRes.err e)) = _
    rw [setFileMode_found _ k _ _ hl]
  rw [hm]
  refine ⟨rfl, ext_setObj_new (e1.trans e2.1) _ (Nat.le_refl _) _, ?_, ?_, ?_⟩
  · simpa [MemFs.lookup, MemFs.setObj] using hl
  · simpa [MemFs.setObj] using hh
  · intro hw; exact wf_setObj (wf_registerWithParent _ _ _ _ (wf_bindNew hw k _ h)) _ _

end AferoVerif.Temp

namespace AferoVerif.Temp
open AferoVerif AferoVerif.Path

/-! ### `filepath.Clean` is idempotent on segment level, also for relative paths -/

/-- shape of the stack of Clean's machine on a relative path: kept names on top of leading ".."s -/
def StkInv (stk : List Seg) : Prop := ∃ t n, stk = t ++ List.replicate n dotdot ∧ ∀ x ∈ t, Normal x

theorem cleanStep_stkInv (stk : List Seg) (s : Seg) (hs : sep ∉ s) (h : StkInv stk) : StkInv (cleanStep false stk s) := by
  obtain ⟨t, n, rfl, ht⟩ := h
  unfold cleanStep
  by_cases h1 : s = [] ∨ s = dot
  · simp only [h1, if_true]; exact ⟨t, n, rfl, ht⟩
  · simp only [h1, if_false]
    by_cases h2 : s = dotdot
    · simp only [h2, if_true]
      cases t with
      | nil =>
        cases n with
        | zero => exact ⟨[], 1, by simp [List.replicate], by simp⟩
        | succ k =>
          refine ⟨[], k + 2, ?_, by simp⟩
          simp [List.replicate_succ]
      | cons x t' =>
        have hx : x ≠ dotdot := (ht x (by simp)).2.2.1
        simp only [List.cons_append, hx, if_false, Bool.false_eq_true]
        exact ⟨t', n, rfl, fun y hy => ht y (by simp [hy])⟩
    · simp only [h2, if_false]
      refine ⟨s :: t, n, by simp, ?_⟩
      intro x hx
      rcases List.mem_cons.mp hx with rfl | hx
      · exact ⟨fun e => h1 (Or.inl e), fun e => h1 (Or.inr e), h2, hs⟩
      · exact ht x hx

theorem foldl_cleanStep_stkInv (segs stk : List Seg) (hs : ∀ x ∈ segs, sep ∉ x) (h : StkInv stk) :
    StkInv (segs.foldl (cleanStep false) stk) := by
  induction segs generalizing stk with
  | nil => simpa using h
  | cons a as ih =>
    simp only [List.foldl_cons]
    exact ih _ (fun x hx => hs x (by simp [hx])) (cleanStep_stkInv stk a (hs a (by simp)) h)

/-- a cleaned relative path: some ".." followed by normal names -/
def RelForm (q : List Seg) : Prop := ∃ n t, q = List.replicate n dotdot ++ t ∧ ∀ x ∈ t, Normal x

theorem cleanSegs_rel_form (segs : List Seg) (hs : ∀ x ∈ segs, sep ∉ x) : RelForm (cleanSegs false segs) := by
  obtain ⟨t, n, he, ht⟩ := foldl_cleanStep_stkInv segs [] hs ⟨[], 0, by simp, by simp⟩
  refine ⟨n, t.reverse, ?_, fun x hx => ht x (by simpa using hx)⟩
  unfold cleanSegs; rw [he]; simp

theorem foldl_cleanStep_ups (n : Nat) (k : Nat) :
    (List.replicate n dotdot).foldl (cleanStep false) (List.replicate k dotdot) = List.replicate (n + k) dotdot := by
  induction n generalizing k with
  | zero => simp
  | succ m ih =>
    rw [List.replicate_succ, List.foldl_cons]
    have : cleanStep false (List.replicate k dotdot) dotdot = List.replicate (k + 1) dotdot := by
      cases k with
      | zero => simp [cleanStep, dotdot, dot]
      | succ j => simp [cleanStep, dotdot, dot, List.replicate_succ]
    rw [this, ih]
    congr 1; omega

theorem cleanSegs_relForm_id (q : List Seg) (h : RelForm q) : cleanSegs false q = q := by
  obtain ⟨n, t, rfl, ht⟩ := h
  rw [clean_append_normal false _ _ ht]
  congr 1
  unfold cleanSegs
  have := foldl_cleanStep_ups n 0
  simp only [List.replicate_zero, Nat.add_zero] at this
  rw [this]; simp

theorem isRooted_joinSegs_rel (q : List Seg) (h : RelForm q) : isRooted (joinSegs q) = false := by
  obtain ⟨n, t, rfl, ht⟩ := h
  cases n with
  | succ k =>
    rw [List.replicate_succ, List.cons_append]
    cases List.replicate k dotdot ++ t with
    | nil => simp [joinSegs, dotdot, isRooted, sep]
    | cons b bs => simp [joinSegs, dotdot, isRooted, sep]
  | zero =>
    simp only [List.replicate_zero, List.nil_append]
    cases t with
    | nil => simp [joinSegs, isRooted]
    | cons a as =>
      have ha := ht a (by simp)
      cases a with
      | nil => exact absurd rfl ha.1
      | cons c cs =>
        have hc : c ≠ sep := fun e => ha.2.2.2 (by simp [e])
        cases as with
        | nil => simp [joinSegs, isRooted]; exact hc
        | cons b bs => simp [joinSegs, isRooted]; exact hc

theorem relForm_no_sep (q : List Seg) (h : RelForm q) : ∀ x ∈ q, sep ∉ x := by
  obtain ⟨n, t, rfl, ht⟩ := h
  intro x hx
  rcases List.mem_append.mp hx with h1 | h1
  · have := (List.mem_replicate.mp h1).2
    subst this; simp [dotdot, sep]
  · exact (ht x h1).2.2.2

/-- cleaning the string form of a cleaned path gives back its rooted flag and its segments -/
theorem clean_idem_segs (r : Bool) (segs : List Seg) (hs : ∀ x ∈ segs, sep ∉ x) :
    isRooted (render r (cleanSegs r segs)) = r ∧
    cleanSegs r (split (render r (cleanSegs r segs))) = cleanSegs r segs := by
  cases r with
  | true => exact ⟨isRooted_render _, cleanSegs_split_render _ (cleanSegs_rooted_normal segs hs)⟩
  | false =>
    have hf := cleanSegs_rel_form segs hs
    cases hq : cleanSegs false segs with
    | nil => simp [render, dot, isRooted, split, splitAux, cleanSegs, cleanStep, sep]
    | cons a as =>
      rw [hq] at hf
      have hr : render false (a :: as) = joinSegs (a :: as) := by simp [render]
      rw [hr]
      exact ⟨isRooted_joinSegs_rel _ hf, by
        rw [split_joinSegs _ (relForm_no_sep _ hf) (by simp)]; exact cleanSegs_relForm_id _ hf⟩

end AferoVerif.Temp

namespace AferoVerif.Temp
open AferoVerif AferoVerif.Path

/-! ### `filepath.Join(dir, base)` on key level -/

theorem isRooted_append_ne (a b : Str) (h : a ≠ []) : isRooted (a ++ b) = isRooted a := by
  cases a with
  | nil => exact absurd rfl h
  | cons c cs => simp [isRooted]

/-- the key of `Join(dir, base)` for a base name that is a plain name: the cleaned `dir` followed by `base` -/
theorem key_join (dir base : Str) (hd : dir ≠ []) (hb : Normal base) :
    keyOfStr (join2 dir base) = ⟨isRooted dir, cleanSegs (isRooted dir) (split dir) ++ [base]⟩ := by
  have hj : join2 dir base = clean (dir ++ sep :: base) := by simp [join2, hd, hb.1]
  have hr : isRooted (dir ++ sep :: base) = isRooted dir := isRooted_append_ne _ _ hd
  have hsplit : split (dir ++ sep :: base) = split dir ++ [base] := by
    rw [split_append_sep, split_no_sep_eq base hb.2.2.2]
  have hsep : ∀ x ∈ split dir ++ [base], sep ∉ x := by
    intro x hx
    rcases List.mem_append.mp hx with h | h
    · exact split_no_sep dir x h
    · simp at h; subst h; exact hb.2.2.2
  have hid := clean_idem_segs (isRooted dir) (split dir ++ [base]) hsep
  have happ : cleanSegs (isRooted dir) (split dir ++ [base]) = cleanSegs (isRooted dir) (split dir) ++ [base] :=
    clean_append_normal _ _ _ (by intro x hx; simp at hx; subst hx; exact hb)
  rw [hj]
  unfold keyOfStr clean
  rw [hr, hsplit, hid.1, hid.2, happ]
  unfold normKey
  have : ¬ (cleanSegs (isRooted dir) (split dir) ++ [base] = [] ∨ cleanSegs (isRooted dir) (split dir) ++ [base] = [dotdot]) := by
    rintro (h | h)
    · simp at h
    · cases hc : cleanSegs (isRooted dir) (split dir) with
      | nil => rw [hc] at h; simp at h; exact hb.2.2.1 h
      | cons a as => rw [hc] at h; simp at h
  rw [if_neg (fun h => this h.2)]

theorem parentKey_join (dir base : Str) (hd : dir ≠ []) (hb : Normal base) :
    parentKey (keyOfStr (join2 dir base)) = keyOfStr dir := by
  rw [key_join dir base hd hb]
  unfold parentKey keyOfStr
  simp

theorem baseName_join (dir base : Str) (hd : dir ≠ []) (hb : Normal base) :
    baseName (keyOfStr (join2 dir base)) = base := by
  rw [key_join dir base hd hb]
  simp [baseName]

/-! ### the nine digits -/

theorem digitsAux_length (k n : Nat) : (digitsAux k n).length = k := by
  induction k generalizing n with
  | zero => simp [digitsAux]
  | succ j ih => simp [digitsAux, ih]

theorem digit_not_sep : ∀ d, d < 10 → Char.ofNat (48 + d) ≠ sep := by decide

theorem digit_isDigit : ∀ d, d < 10 → (Char.ofNat (48 + d)).isDigit = true := by decide

theorem digitsAux_no_sep (k n : Nat) : sep ∉ digitsAux k n := by
  induction k generalizing n with
  | zero => simp [digitsAux]
  | succ j ih =>
    simp only [digitsAux, List.mem_append, List.mem_singleton, not_or]
    exact ⟨ih _, fun h => digit_not_sep (n % 10) (Nat.mod_lt _ (by decide)) h.symm⟩

theorem digitsAux_digits (k n : Nat) : ∀ c ∈ digitsAux k n, c.isDigit = true := by
  induction k generalizing n with
  | zero => simp [digitsAux]
  | succ j ih =>
    intro c hc
    simp only [digitsAux, List.mem_append, List.mem_singleton] at hc
    rcases hc with h | h
    · exact ih _ c h
    · subst h; exact digit_isDigit (n % 10) (Nat.mod_lt _ (by decide))

/-- what `nextRandom` returns: nine decimal digits -/
def IsRand (s : Str) : Prop := s.length = 9 ∧ (∀ c ∈ s, c.isDigit = true) ∧ sep ∉ s

theorem randStr_isRand (r : UInt32) : IsRand (randStr r) :=
  ⟨digitsAux_length _ _, digitsAux_digits _ _, digitsAux_no_sep _ _⟩

theorem nextRandom_isRand (g : Rng) : IsRand (nextRandom g).1 := randStr_isRand _

/-- a base name made of a separator-free prefix, nine digits and a separator-free suffix is a plain name -/
theorem normal_base (pre rnd suf : Str) (hp : sep ∉ pre) (hs : sep ∉ suf) (hr : IsRand rnd) :
    Normal (pre ++ rnd ++ suf) := by
  have hlen : (pre ++ rnd ++ suf).length ≥ 9 := by simp [hr.1]; omega
  refine ⟨?_, ?_, ?_, ?_⟩
  · intro h; rw [h] at hlen; simp at hlen
  · intro h; rw [h] at hlen; simp [dot] at hlen
  · intro h; rw [h] at hlen; simp [dotdot] at hlen
  · simp only [List.mem_append, not_or]; exact ⟨⟨hp, hr.2.2⟩, hs⟩

/-! ### the pattern -/

theorem splitLastStar_spec (p : Str) (r : Str × Str) (h : splitLastStar p = some r) :
    p = r.1 ++ '*' :: r.2 ∧ '*' ∉ r.2 := by
  induction p generalizing r with
  | nil => simp [splitLastStar] at h
  | cons c cs ih =>
    unfold splitLastStar at h
    cases hs : splitLastStar cs with
    | some q =>
      rw [hs] at h
      simp only [Option.some.injEq] at h
      subst h
      have := ih q hs
      exact ⟨by simp [← this.1], this.2⟩
    | none =>
      rw [hs] at h
      by_cases hc : c = '*'
      · simp only [hc, if_true, Option.some.injEq] at h
        subst h
        refine ⟨by simp [hc], ?_⟩
        -- no star in cs, because splitting cs found none
        clear ih
        induction cs with
        | nil => simp
        | cons d ds ihd =>
          unfold splitLastStar at hs
          cases hs2 : splitLastStar ds with
          | some q => rw [hs2] at hs; simp at hs
          | none =>
            rw [hs2] at hs
            by_cases hd : d = '*'
            · simp [hd] at hs
            · simp only [List.mem_cons, not_or]
              exact ⟨fun e => hd e.symm, ihd hs2⟩
      · simp [hc] at h

theorem prefixSuffix_no_sep (p : Str) (h : hasSep p = false) : sep ∉ (prefixSuffix p).1 ∧ sep ∉ (prefixSuffix p).2 := by
  have hp : sep ∉ p := by simpa [hasSep] using h
  unfold prefixSuffix
  cases hs : splitLastStar p with
  | none => exact ⟨hp, by simp⟩
  | some r =>
    have := (splitLastStar_spec p r hs).1
    rw [this] at hp
    simp only [List.mem_append, List.mem_cons, not_or] at hp
    exact ⟨hp.1, hp.2.2⟩

/-- with a '*' in the pattern, the pattern is `prefix * suffix` and the suffix holds no further '*' -/
theorem prefixSuffix_star (p : Str) (h : '*' ∈ p) :
    p = (prefixSuffix p).1 ++ '*' :: (prefixSuffix p).2 ∧ '*' ∉ (prefixSuffix p).2 := by
  unfold prefixSuffix
  cases hs : splitLastStar p with
  | some r => exact splitLastStar_spec p r hs
  | none =>
    exfalso
    induction p with
    | nil => simp at h
    | cons c cs ih =>
      unfold splitLastStar at hs
      cases hs2 : splitLastStar cs with
      | some q => rw [hs2] at hs; simp at hs
      | none =>
        rw [hs2] at hs
        by_cases hc : c = '*'
        · simp [hc] at hs
        · rcases List.mem_cons.mp h with e | e
          · exact hc e.symm
          · exact ih e hs2

theorem prefixSuffix_nostar (p : Str) (h : '*' ∉ p) : prefixSuffix p = (p, []) := by
  unfold prefixSuffix
  cases hs : splitLastStar p with
  | none => rfl
  | some r =>
    have := (splitLastStar_spec p r hs).1
    rw [this] at h; simp at h

end AferoVerif.Temp
