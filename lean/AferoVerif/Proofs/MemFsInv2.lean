/-
  More preservation lemmas for the index invariant `Consistent`: removing a leaf.
-/
import AferoVerif.Proofs.MemFsInv
import AferoVerif.Proofs.Reach
namespace AferoVerif
namespace MemFs

/-- `detach`: the effect of Remove of a leaf (a file or an empty directory) -/
def detach (m : MemFs) (k : Key) (p : Nat) : MemFs :=
  let m1 := m.setObj p { m.obj p with memDir := (m.obj p).memDir.map fun d => alErase d k }
  { m1 with data := alErase m1.data k }

theorem lookup_detach (m : MemFs) (k k' : Key) (p : Nat) :
    (m.detach k p).lookup k' = if k' = k then none else m.lookup k' := by
  unfold detach lookup
  simp only
  by_cases h : k' = k
  · subst h; simp [alLookup_erase_self]
  · simp only [h, if_false]
    rw [alLookup_erase_ne _ _ _ h]
    rfl

/-- **removing a leaf keeps the tree consistent** -/
theorem consistent_detach (m : MemFs) (hc : Consistent m) (k : Key) (f p : Nat) (pd : List (Key × Nat))
    (hroot : k ≠ rootKey) (hl : m.lookup k = some f)
    (hleaf : (m.obj f).memDir = none ∨ (m.obj f).memDir = some [])
    (hp : m.lookup (parentKey k) = some p) (hpd : (m.obj p).memDir = some pd) :
    Consistent (m.detach k p) := by
  have hpr := hc.inRange _ _ hp
  have hlen : (m.detach k p).objs.length = m.objs.length := by simp [detach, setObj]
  have hobj_p : (m.detach k p).obj p = { m.obj p with memDir := some (alErase pd k) } := by
    have := obj_setObj_self m p { m.obj p with memDir := (m.obj p).memDir.map fun d => alErase d k } hpr
    unfold detach obj at *
    simp only at this ⊢
    rw [this, hpd]; rfl
  have hobj_other : ∀ j, j ≠ p → (m.detach k p).obj j = m.obj j := by
    intro j hj
    have := obj_setObj_ne m p j { m.obj p with memDir := (m.obj p).memDir.map fun d => alErase d k } hj
    unfold detach obj at *
    simpa using this
  -- no entry has the removed name as its parent: it is a leaf
  have hnochild : ∀ k' f', m.lookup k' = some f' → k' ≠ rootKey → parentKey k' ≠ k := by
    intro k' f' hk' hne e
    obtain ⟨p', d', h1, h2, h3⟩ := hc.hasParent k' f' hk' hne
    rw [e, hl] at h1
    injection h1 with h1; subst h1
    rcases hleaf with h | h
    · rw [h] at h2; cases h2
    · rw [h] at h2; injection h2 with h2; subst h2; simp [alLookup_nil] at h3
  refine ⟨?_, ?_, ?_, ?_, ?_⟩
  · intro k' f' h'
    rw [lookup_detach] at h'
    by_cases hk : k' = k
    · simp [hk] at h'
    · simp [hk] at h'; rw [hlen]; exact hc.inRange _ _ h'
  · intro k' f' h'
    rw [lookup_detach] at h'
    by_cases hk : k' = k
    · simp [hk] at h'
    · simp [hk] at h'
      by_cases hfp : f' = p
      · subst hfp; rw [hobj_p]; exact hc.nameEq _ _ h'
      · rw [hobj_other f' hfp]; exact hc.nameEq _ _ h'
  · intro k' f' h' hne
    rw [lookup_detach] at h'
    by_cases hk : k' = k
    · simp [hk] at h'
    · simp [hk] at h'
      obtain ⟨p', d', h1, h2, h3⟩ := hc.hasParent k' f' h' hne
      have hpk : parentKey k' ≠ k := hnochild k' f' h' hne
      by_cases hpp : p' = p
      · subst hpp
        refine ⟨p', alErase pd k, by rw [lookup_detach]; simp [hpk, h1], by rw [hobj_p], ?_⟩
        rw [hpd] at h2; injection h2 with h2; subst h2
        rw [alLookup_erase_ne _ _ _ hk]; exact h3
      · exact ⟨p', d', by rw [lookup_detach]; simp [hpk, h1], by rw [hobj_other p' hpp]; exact h2, h3⟩
  · intro kd q dd k' f' h' hd hl'
    rw [lookup_detach] at h'
    by_cases hk : kd = k
    · simp [hk] at h'
    · simp [hk] at h'
      by_cases hqp : q = p
      · subst hqp
        rw [hobj_p] at hd; injection hd with hd; subst hd
        by_cases hkk : k' = k
        · subst hkk; rw [alLookup_erase_self] at hl'; cases hl'
        · rw [alLookup_erase_ne _ _ _ hkk] at hl'
          obtain ⟨a, b, c⟩ := hc.noStale _ _ _ _ _ h' hpd hl'
          exact ⟨by rw [lookup_detach]; simp [hkk, a], b, c⟩
      · rw [hobj_other q hqp] at hd
        obtain ⟨a, b, c⟩ := hc.noStale _ _ _ _ _ h' hd hl'
        have hkk : k' ≠ k := by
          intro e; subst e
          -- then kd is the parent of k, whose object is p
          rw [← b] at h'
          rw [hp] at h'; injection h' with h'; exact hqp h'.symm
        exact ⟨by rw [lookup_detach]; simp [hkk, a], b, c⟩
  · obtain ⟨r, hr1, hr2⟩ := hc.root
    refine ⟨r, by rw [lookup_detach]; simp [Ne.symm hroot, hr1], ?_⟩
    by_cases hrp : r = p
    · subst hrp; rw [hobj_p]; rfl
    · rw [hobj_other r hrp]; exact hr2

/-- `Remove` of an existing leaf is `detach` -/
theorem remove_leaf_eq_detach (m : MemFs) (hc : Consistent m) (k : Key) (f p : Nat)
    (hl : m.lookup k = some f) (hp : m.lookup (parentKey k) = some p) :
    m.remove k = (m.detach k p, .ok) := by
  have hname := hc.nameEq k f hl
  unfold remove unRegisterWithParent findParent
  simp only [hl, hname, hp]
  rfl

end MemFs
end AferoVerif

namespace AferoVerif
namespace MemFs

/-- allocating an object named `k`, entering it in the path map and registering it with its
    existing parent directory is `attach` -/
theorem alloc_insert_reg_eq_attach (m : MemFs) (k : Key) (d : FData) (p perm fuel : Nat) (pd : List (Key × Nat))
    (hname : d.name = k) (hp : m.lookup (parentKey k) = some p) (hpd : (m.obj p).memDir = some pd)
    (hpk : parentKey k ≠ k) (hpr : p < m.objs.length) :
    registerWithParent (fuel + 1)
      ({ objs := m.objs ++ [d], data := alInsert m.data k m.objs.length, handles := m.handles, now := m.now } : MemFs) m.objs.length perm
      = m.attach k d p := by
  have e : (({ objs := m.objs ++ [d], data := alInsert m.data k m.objs.length, handles := m.handles, now := m.now } : MemFs).obj m.objs.length) = d :=
    obj_alloc_new m d
  have hm2p : ({ objs := m.objs ++ [d], data := alInsert m.data k m.objs.length, handles := m.handles, now := m.now } : MemFs).lookup
      (parentKey (({ objs := m.objs ++ [d], data := alInsert m.data k m.objs.length, handles := m.handles, now := m.now } : MemFs).obj m.objs.length).name) = some p := by
    rw [e, hname]
    show alLookup (alInsert m.data k m.objs.length) (parentKey k) = some p
    rw [alLookup_insert_ne _ _ _ _ hpk]; exact hp
  have hm2pd : (({ objs := m.objs ++ [d], data := alInsert m.data k m.objs.length, handles := m.handles, now := m.now } : MemFs).obj p).memDir = some pd := by
    have e1 := obj_alloc_old m d p hpr
    unfold alloc at e1
    simp only at e1
    have e2 : ({ m with objs := m.objs ++ [d], data := alInsert m.data k m.objs.length } : MemFs).obj p = m.obj p := by
      unfold obj at *; simpa using e1
    show (({ m with objs := m.objs ++ [d], data := alInsert m.data k m.objs.length } : MemFs).obj p).memDir = some pd
    rw [e2]; exact hpd
  rw [registerWithParent_found _ _ _ _ p pd hm2p hm2pd]
  unfold attach
  simp only
  rw [e, hname, hm2pd]
  rfl

/-- the handle table plays no part in the invariant -/
theorem consistent_handles (m : MemFs) (hc : Consistent m) (hs : List MHandle) : Consistent { m with handles := hs } :=
  ⟨hc.inRange, hc.nameEq, hc.hasParent, hc.noStale, hc.root⟩

theorem consistent_handles_iff (m : MemFs) (hs : List MHandle) (hc : Consistent { m with handles := hs }) : Consistent m :=
  ⟨hc.inRange, hc.nameEq, hc.hasParent, hc.noStale, hc.root⟩

/-- `setFileMode` is a metadata rewrite -/
theorem consistent_setFileMode (m : MemFs) (hc : Consistent m) (k : Key) (mode : Nat) : Consistent (m.setFileMode k mode).1 := by
  unfold setFileMode
  split
  · exact hc
  · exact consistent_setObj_meta m hc _ _ rfl rfl

end MemFs
end AferoVerif

namespace AferoVerif
namespace MemFs

/-- the parent directory of `k` exists -/
def ParentDir (m : MemFs) (k : Key) : Prop :=
  k ≠ rootKey ∧ parentKey k ≠ k ∧ ∃ p pd, m.lookup (parentKey k) = some p ∧ (m.obj p).memDir = some pd

def Leaf (m : MemFs) (f : Nat) : Prop := (m.obj f).memDir = none ∨ (m.obj f).memDir = some []

/-- the ordinary preconditions under which the operation keeps the index consistent (the
    fragment proved here: no Rename, no RemoveAll, parents exist — so MkdirAll creates one level) -/
def WFop (m : MemFs) : Op → Prop
  | .create p => (∃ f, m.lookup (keyOfStr p) = some f ∧ (m.obj f).dir = false) ∨ (m.lookup (keyOfStr p) = none ∧ ParentDir m (keyOfStr p))
  | .mkdir p _ | .mkdirAll p _ => (m.lookup (keyOfStr p)).isSome ∨ ParentDir m (keyOfStr p)
  | .openFile p flag _ => (m.lookup (keyOfStr p)).isSome ∨ flag &&& O_CREATE = 0 ∨ ParentDir m (keyOfStr p)
  | .remove p => m.lookup (keyOfStr p) = none ∨ (keyOfStr p ≠ rootKey ∧ ∃ f, m.lookup (keyOfStr p) = some f ∧ Leaf m f)
  | .rename _ _ | .removeAll _ => False
  | _ => True

theorem consistent_create_new (m : MemFs) (hc : Consistent m) (k : Key) (hn : m.lookup k = none) (hp : ParentDir m k) :
    Consistent (m.create k).1 := by
  obtain ⟨hroot, hpk, p, pd, h1, h2⟩ := hp
  rw [create_new_eq_attach m k p pd hn h1 h2 hpk (hc.inRange _ _ h1)]
  exact consistent_attach m hc k _ p pd hn hroot hpk h1 h2 rfl (Or.inl rfl)

theorem consistent_create (m : MemFs) (hc : Consistent m) (k : Key)
    (h : (∃ f, m.lookup k = some f ∧ (m.obj f).dir = false) ∨ (m.lookup k = none ∧ ParentDir m k)) :
    Consistent (m.create k).1 := by
  rcases h with ⟨f, hl, hd⟩ | ⟨hn, hp⟩
  · unfold create
    simp only [hl, hd, Bool.false_eq_true, if_false]
    exact consistent_setObj_meta m hc f _ rfl rfl
  · exact consistent_create_new m hc k hn hp

theorem consistent_mkdir (m : MemFs) (hc : Consistent m) (k : Key) (perm : Nat)
    (h : (m.lookup k).isSome ∨ ParentDir m k) : Consistent (m.mkdir k perm).1 := by
  unfold mkdir
  simp only
  cases hl : m.lookup k with
  | some f => exact hc
  | none =>
    rcases h with h | ⟨hroot, hpk, p, pd, h1, h2⟩
    · rw [hl] at h; cases h
    · simp only
      have hreg := alloc_insert_reg_eq_attach m k { (m.newDir k) with mode := modeDir ||| (perm &&& chmodBits) } p (perm &&& chmodBits)
        ((({ (m.newDir k) with mode := modeDir ||| (perm &&& chmodBits) } : FData).name.segs.length) + 1)
        pd rfl h1 h2 hpk (hc.inRange _ _ h1)
      have hcons := consistent_attach m hc k { (m.newDir k) with mode := modeDir ||| (perm &&& chmodBits) } p pd hl hroot hpk h1 h2 rfl (Or.inr rfl)
      have hfuel : MemFs.regFuel ({ objs := m.objs ++ [{ (m.newDir k) with mode := modeDir ||| (perm &&& chmodBits) }], data := alInsert m.data k m.objs.length, handles := m.handles, now := m.now } : MemFs) m.objs.length
          = ({ (m.newDir k) with mode := modeDir ||| (perm &&& chmodBits) } : FData).name.segs.length + 1 + 1 := by
        unfold MemFs.regFuel
        rw [show (({ objs := m.objs ++ [{ (m.newDir k) with mode := modeDir ||| (perm &&& chmodBits) }], data := alInsert m.data k m.objs.length, handles := m.handles, now := m.now } : MemFs).obj m.objs.length)
          = { (m.newDir k) with mode := modeDir ||| (perm &&& chmodBits) } from obj_alloc_new m _]
      have hstate : registerWithParent
          (MemFs.regFuel ({ objs := m.objs ++ [{ (m.newDir k) with mode := modeDir ||| (perm &&& chmodBits) }], data := alInsert m.data k m.objs.length, handles := m.handles, now := m.now } : MemFs) m.objs.length)
          ({ objs := m.objs ++ [{ (m.newDir k) with mode := modeDir ||| (perm &&& chmodBits) }], data := alInsert m.data k m.objs.length, handles := m.handles, now := m.now } : MemFs)
          m.objs.length (perm &&& chmodBits) = m.attach k { (m.newDir k) with mode := modeDir ||| (perm &&& chmodBits) } p := by
        rw [hfuel]; exact hreg
      have hfm := consistent_setFileMode _ hcons k ((perm &&& chmodBits) ||| modeDir)
      show Consistent (match (registerWithParent _ _ _ _).setFileMode k ((perm &&& chmodBits) ||| modeDir) with
        | (m4, none) => (m4, MRes.ok) | (m4, some e) => (m4, MRes.err e)).1
      unfold alloc
      simp only
      rw [hstate]
      split <;> rename_i heq <;> rw [heq] at hfm <;> exact hfm

end MemFs
end AferoVerif

namespace AferoVerif
namespace MemFs

theorem consistent_fileIO (m : MemFs) (hc : Consistent m) (hi : Nat) (f : Bytes → Handle → Bytes × Handle × FOut) (t : Bool) :
    Consistent (m.fileIO hi f t).1 := by
  unfold fileIO
  split
  · exact hc
  · refine consistent_handles _ (consistent_setObj_meta m hc _ _ ?_ ?_) _ <;> rfl

theorem consistent_openFile (m : MemFs) (hc : Consistent m) (k : Key) (flag perm : Nat)
    (h : (m.lookup k).isSome ∨ flag &&& O_CREATE = 0 ∨ ParentDir m k) : Consistent (m.openFile k flag perm).1 := by
  unfold openFile
  simp only
  split
  · exact hc
  · cases hl : m.lookup k with
    | some f =>
      simp only
      by_cases hT : (flag &&& O_TRUNC > 0 ∧ flag &&& (O_RDWR ||| O_WRONLY) > 0)
      · simp only [hT, and_self, if_true, Bool.false_eq_true, if_false]
        refine consistent_handles _ (consistent_setObj_meta m hc _ _ ?_ ?_) _ <;> rfl
      · simp only [hT, if_false, Bool.false_eq_true]
        exact consistent_handles _ hc _
    | none =>
      simp only
      by_cases hC : flag &&& O_CREATE > 0
      · simp only [hC, if_true]
        have hp : ParentDir m k := by
          rcases h with h | h | h
          · rw [hl] at h; cases h
          · rw [h] at hC; exact absurd hC (Nat.lt_irrefl 0)
          · exact h
        have hcr := consistent_create_new m hc k hl hp
        generalize m.create k = C at hcr
        obtain ⟨m1, f⟩ := C
        simp only at hcr ⊢
        by_cases hT : (flag &&& O_TRUNC > 0 ∧ flag &&& (O_RDWR ||| O_WRONLY) > 0)
        · simp only [hT, and_self, if_true]
          refine consistent_setFileMode _ (consistent_handles _ (consistent_setObj_meta m1 hcr _ _ ?_ ?_) _) _ _ <;> rfl
        · simp only [hT, if_false]
          exact consistent_setFileMode _ (consistent_handles _ hcr _) _ _
      · simp only [hC, if_false]
        exact hc

theorem consistent_remove (m : MemFs) (hc : Consistent m) (k : Key)
    (h : m.lookup k = none ∨ (k ≠ rootKey ∧ ∃ f, m.lookup k = some f ∧ Leaf m f)) : Consistent (m.remove k).1 := by
  rcases h with hn | ⟨hroot, f, hl, hleaf⟩
  · unfold remove; simp only [hn]; exact hc
  · obtain ⟨p, pd, h1, h2, _⟩ := hc.hasParent k f hl hroot
    rw [remove_leaf_eq_detach m hc k f p hl h1]
    exact consistent_detach m hc k f p pd hroot hl hleaf h1 h2

/-- **the index invariant is preserved by every operation of the fragment**: Create, Mkdir,
    MkdirAll and creating OpenFile below an existing directory, Remove of a file or an empty
    directory, every metadata call, every open, every method of every handle. -/
theorem consistent_step_wf (m : MemFs) (op : Op) (hc : Consistent m) (hw : WFop m op) : Consistent (m.step op).1 := by
  cases op with
  | create p =>
    simp only [step]
    have := consistent_create m hc (keyOfStr p) hw
    generalize m.create (keyOfStr p) = C at this
    obtain ⟨m1, f⟩ := C
    exact consistent_handles _ this _
  | mkdir p perm => exact consistent_mkdir m hc _ perm hw
  | mkdirAll p perm =>
    have hmk := consistent_mkdir m hc (keyOfStr p) perm hw
    simp only [step]
    unfold mkdirAll
    split
    · rename_i m' heq; rw [heq] at hmk; exact hmk
    · exact hmk
  | open_ p =>
    simp only [step, openRO]
    split
    · exact hc
    · exact consistent_handles _ hc _
  | openFile p flag perm => exact consistent_openFile m hc _ flag perm hw
  | remove p => exact consistent_remove m hc _ hw
  | removeAll p => exact absurd hw id
  | rename a b => exact absurd hw id
  | stat p => exact hc
  | chmod p mode =>
    simp only [step]
    unfold chmod
    simp only
    split
    · exact hc
    · rename_i f _
      have := consistent_setFileMode m hc (keyOfStr p) (((m.obj f).mode - ((m.obj f).mode &&& chmodBits)) ||| (mode &&& chmodBits))
      split <;> rename_i heq <;> rw [heq] at this <;> exact this
  | chown p u g =>
    simp only [step]; unfold chown; split
    · exact hc
    · refine consistent_setObj_meta m hc _ _ ?_ ?_ <;> rfl
  | chtimes p t =>
    simp only [step]; unfold chtimes; split
    · exact hc
    · refine consistent_setObj_meta m hc _ _ ?_ ?_ <;> rfl
  | hRead hi n => exact consistent_fileIO m hc hi _ _
  | hReadAt hi n off => exact consistent_fileIO m hc hi _ _
  | hWrite hi b => exact consistent_fileIO m hc hi _ _
  | hWriteAt hi b off => exact consistent_fileIO m hc hi _ _
  | hTrunc hi n => exact consistent_fileIO m hc hi _ _
  | hSeek hi off wh => exact consistent_fileIO m hc hi _ _
  | hClose hi =>
    simp only [step]; unfold hClose; split
    · exact hc
    · simp only
      split
      · exact consistent_handles _ hc _
      · refine consistent_handles _ (consistent_setObj_meta m hc _ _ ?_ ?_) _ <;> rfl
  | hName hi => exact hc
  | hStat hi => exact hc
  | hSync hi => exact hc
  | hReaddir hi n =>
    simp only [step]
    have : Consistent (m.readdir hi n).1 := by
      unfold readdir; split
      · exact hc
      · simp only
        split
        · exact hc
        · exact consistent_handles _ hc _
    generalize m.readdir hi n = R at this
    obtain ⟨m', fs, e⟩ := R
    exact this
  | hReaddirnames hi n =>
    simp only [step]
    have : Consistent (m.readdir hi n).1 := by
      unfold readdir; split
      · exact hc
      · simp only
        split
        · exact hc
        · exact consistent_handles _ hc _
    generalize m.readdir hi n = R at this
    obtain ⟨m', fs, e⟩ := R
    exact this

/-- a program all of whose operations meet the fragment's preconditions in the state they run in -/
def WFrun (m : MemFs) : List Op → Prop
  | [] => True
  | op :: ops => WFop m op ∧ WFrun (m.step op).1 ops

/-- **the tree is self-consistent after every well-formed program of the fragment**: every existing
    path is listed by its parent, every listed entry exists, every existing path has an existing
    parent directory, names lead to allocated objects carrying their own name -/
theorem consistent_run_wf (ops : List Op) : ∀ m, Consistent m → WFrun m ops → Consistent (run m ops) := by
  induction ops with
  | nil => intro m h _; exact h
  | cons op ops ih => intro m h hw; exact ih _ (consistent_step_wf m op h hw.1) hw.2

end MemFs
end AferoVerif
