/-
  More preservation lemmas for the index invariant `Consistent`: removing a leaf.
-/
import AferoVerif.Proofs.MemFsInv
import AferoVerif.Proofs.Reach
namespace AferoVerif
namespace MemFs

/-- `detach`: the effect of Remove of a leaf (a file or an empty directory) -/
def detach (m : MemFs) (k : Key) (p : Nat) : MemFs :=
  let m1 := m.setObj p { m.obj p with memDir := (m.obj p).memDir.map fun d => alErase d k }
  { m1 with data := alErase m1.data k }

theorem lookup_detach (m : MemFs) (k k' : Key) (p : Nat) :
    (m.detach k p).lookup k' = if k' = k then none else m.lookup k' := by
  unfold detach lookup
  simp only
  by_cases h : k' = k
  · subst h; simp [alLookup_erase_self]
  · simp only [h, if_false]
    rw [alLookup_erase_ne _ _ _ h]
    rfl

/-- **removing a leaf keeps the tree consistent** -/
theorem consistent_detach (m : MemFs) (hc : Consistent m) (k : Key) (f p : Nat) (pd : List (Key × Nat))
    (hroot : k ≠ rootKey) (hl : m.lookup k = some f)
    (hleaf : (m.obj f).memDir = none ∨ (m.obj f).memDir = some [])
    (hp : m.lookup (parentKey k) = some p) (hpd : (m.obj p).memDir = some pd) :
    Consistent (m.detach k p) := by
  have hpr := hc.inRange _ _ hp
  have hlen : (m.detach k p).objs.length = m.objs.length := by simp [detach, setObj]
  have hobj_p : (m.detach k p).obj p = { m.obj p with memDir := some (alErase pd k) } := by
    have := obj_setObj_self m p { m.obj p with memDir := (m.obj p).memDir.map fun d => alErase d k } hpr
    unfold detach obj at *
    simp only at this ⊢
    rw [this, hpd]; rfl
  have hobj_other : ∀ j, j ≠ p → (m.detach k p).obj j = m.obj j := by
    intro j hj
    have := obj_setObj_ne m p j { m.obj p with memDir := (m.obj p).memDir.map fun d => alErase d k } hj
    unfold detach obj at *
    simpa using this
  -- no entry has the removed name as its parent: it is a leaf
  have hnochild : ∀ k' f', m.lookup k' = some f' → k' ≠ rootKey → parentKey k' ≠ k := by
    intro k' f' hk' hne e
    obtain ⟨p', d', h1, h2, h3⟩ := hc.hasParent k' f' hk' hne
    rw [e, hl] at h1
    injection h1 with h1; subst h1
    rcases hleaf with h | h
    · rw [h] at h2; cases h2
    · rw [h] at h2; injection h2 with h2; subst h2; simp [alLookup_nil] at h3
  refine ⟨?_, ?_, ?_, ?_, ?_⟩
  · intro k' f' h'
    rw [lookup_detach] at h'
    by_cases hk : k' = k
    · simp [hk] at h'
    · simp [hk] at h'; rw [hlen]; exact hc.inRange _ _ h'
  · intro k' f' h'
    rw [lookup_detach] at h'
    by_cases hk : k' = k
    · simp [hk] at h'
    · simp [hk] at h'
      by_cases hfp : f' = p
      · subst hfp; rw [hobj_p]; exact hc.nameEq _ _ h'
      · rw [hobj_other f' hfp]; exact hc.nameEq _ _ h'
  · intro k' f' h' hne
    rw [lookup_detach] at h'
    by_cases hk : k' = k
    · simp [hk] at h'
    · simp [hk] at h'
      obtain ⟨p', d', h1, h2, h3⟩ := hc.hasParent k' f' h' hne
      have hpk : parentKey k' ≠ k := hnochild k' f' h' hne
      by_cases hpp : p' = p
      · subst hpp
        refine ⟨p', alErase pd k, by rw [lookup_detach]; simp [hpk, h1], by rw [hobj_p], ?_⟩
        rw [hpd] at h2; injection h2 with h2; subst h2
        rw [alLookup_erase_ne _ _ _ hk]; exact h3
      · exact ⟨p', d', by rw [lookup_detach]; simp [hpk, h1], by rw [hobj_other p' hpp]; exact h2, h3⟩
  · intro kd q dd k' f' h' hd hl'
    rw [lookup_detach] at h'
    by_cases hk : kd = k
    · simp [hk] at h'
    · simp [hk] at h'
      by_cases hqp : q = p
      · subst hqp
        rw [hobj_p] at hd; injection hd with hd; subst hd
        by_cases hkk : k' = k
        · subst hkk; rw [alLookup_erase_self] at hl'; cases hl'
        · rw [alLookup_erase_ne _ _ _ hkk] at hl'
          obtain ⟨a, b, c⟩ := hc.noStale _ _ _ _ _ h' hpd hl'
          exact ⟨by rw [lookup_detach]; simp [hkk, a], b, c⟩
      · rw [hobj_other q hqp] at hd
        obtain ⟨a, b, c⟩ := hc.noStale _ _ _ _ _ h' hd hl'
        have hkk : k' ≠ k := by
          intro e; subst e
          -- then kd is the parent of k, whose object is p
          rw [← b] at h'
          rw [hp] at h'; injection h' with h'; exact hqp h'.symm
        exact ⟨by rw [lookup_detach]; simp [hkk, a], b, c⟩
  · obtain ⟨r, hr1, hr2⟩ := hc.root
    refine ⟨r, by rw [lookup_detach]; simp [Ne.symm hroot, hr1], ?_⟩
    by_cases hrp : r = p
    · subst hrp; rw [hobj_p]; rfl
    · rw [hobj_other r hrp]; exact hr2

/-- `Remove` of an existing leaf is `detach` -/
theorem remove_leaf_eq_detach (m : MemFs) (hc : Consistent m) (k : Key) (f p : Nat)
    (hl : m.lookup k = some f) (hp : m.lookup (parentKey k) = some p) :
    m.remove k = (m.detach k p, .ok) := by
  have hname := hc.nameEq k f hl
  unfold remove unRegisterWithParent findParent
  simp only [hl, hname, hp]
  rfl

end MemFs
end AferoVerif

namespace AferoVerif
namespace MemFs

/-- allocating an object named `k`, entering it in the path map and registering it with its
    existing parent directory is `attach` -/
theorem alloc_insert_reg_eq_attach (m : MemFs) (k : Key) (d : FData) (p perm fuel : Nat) (pd : List (Key × Nat))
    (hname : d.name = k) (hp : m.lookup (parentKey k) = some p) (hpd : (m.obj p).memDir = some pd)
    (hpk : parentKey k ≠ k) (hpr : p < m.objs.length) :
    registerWithParent (fuel + 1)
      ({ objs := m.objs ++ [d], data := alInsert m.data k m.objs.length, handles := m.handles, now := m.now } : MemFs) m.objs.length perm
      = m.attach k d p := by
  have e : (({ objs := m.objs ++ [d], data := alInsert m.data k m.objs.length, handles := m.handles, now := m.now } : MemFs).obj m.objs.length) = d :=
    obj_alloc_new m d
  have hm2p : ({ objs := m.objs ++ [d], data := alInsert m.data k m.objs.length, handles := m.handles, now := m.now } : MemFs).lookup
      (parentKey (({ objs := m.objs ++ [d], data := alInsert m.data k m.objs.length, handles := m.handles, now := m.now } : MemFs).obj m.objs.length).name) = some p := by
    rw [e, hname]
    show alLookup (alInsert m.data k m.objs.length) (parentKey k) = some p
    rw [alLookup_insert_ne _ _ _ _ hpk]; exact hp
  have hm2pd : (({ objs := m.objs ++ [d], data := alInsert m.data k m.objs.length, handles := m.handles, now := m.now } : MemFs).obj p).memDir = some pd := by
    have e1 := obj_alloc_old m d p hpr
    unfold alloc at e1
    simp only at e1
    have e2 : ({ m with objs := m.objs ++ [d], data := alInsert m.data k m.objs.length } : MemFs).obj p = m.obj p := by
      unfold obj at *; simpa using e1
    show (({ m with objs := m.objs ++ [d], data := alInsert m.data k m.objs.length } : MemFs).obj p).memDir = some pd
    rw [e2]; exact hpd
  rw [registerWithParent_found _ _ _ _ p pd hm2p hm2pd]
  unfold attach
  simp only
  rw [e, hname, hm2pd]
  rfl

/-- the handle table plays no part in the invariant -/
theorem consistent_handles (m : MemFs) (hc : Consistent m) (hs : List MHandle) : Consistent { m with handles := hs } :=
  ⟨hc.inRange, hc.nameEq, hc.hasParent, hc.noStale, hc.root⟩

theorem consistent_handles_iff (m : MemFs) (hs : List MHandle) (hc : Consistent { m with handles := hs }) : Consistent m :=
  ⟨hc.inRange, hc.nameEq, hc.hasParent, hc.noStale, hc.root⟩

/-- `setFileMode` is a metadata rewrite -/
theorem consistent_setFileMode (m : MemFs) (hc : Consistent m) (k : Key) (mode : Nat) : Consistent (m.setFileMode k mode).1 := by
  unfold setFileMode
  split
  · exact hc
  · exact consistent_setObj_meta m hc _ _ rfl rfl

end MemFs
end AferoVerif
