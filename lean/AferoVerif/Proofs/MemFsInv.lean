/-
  The index invariant of the MemMapFs model (`Consistent`: no stale directory entry, no lost
  child) and its preservation by the basic building blocks.
-/
import AferoVerif.Proofs.AList
import AferoVerif.Model.FsOp
namespace AferoVerif
namespace MemFs

theorem lookup_setObj (m : MemFs) (i : Nat) (d : FData) (k : Key) : (m.setObj i d).lookup k = m.lookup k := rfl

theorem length_setObj (m : MemFs) (i : Nat) (d : FData) : (m.setObj i d).objs.length = m.objs.length := by
  simp [setObj]

theorem obj_setObj_self (m : MemFs) (i : Nat) (d : FData) (hi : i < m.objs.length) : (m.setObj i d).obj i = d := by
  unfold setObj obj
  simp [List.getD_eq_getElem?_getD, hi]

theorem obj_setObj_ne (m : MemFs) (i j : Nat) (d : FData) (hne : j ≠ i) : (m.setObj i d).obj j = m.obj j := by
  unfold setObj obj
  simp only [List.getD_eq_getElem?_getD]
  rw [List.getElem?_set_ne (fun e => hne e.symm)]

theorem obj_alloc_new (m : MemFs) (d : FData) : (m.alloc d).1.obj m.objs.length = d := by
  unfold alloc obj
  simp [List.getD_eq_getElem?_getD]

theorem obj_alloc_old (m : MemFs) (d : FData) (j : Nat) (hj : j < m.objs.length) : (m.alloc d).1.obj j = m.obj j := by
  unfold alloc obj
  simp [List.getD_eq_getElem?_getD, List.getElem?_append_left hj]

theorem lookup_alloc (m : MemFs) (d : FData) (k : Key) : (m.alloc d).1.lookup k = m.lookup k := rfl

/-- the invariant: the path map and the per-directory indexes describe the same tree -/
structure Consistent (m : MemFs) : Prop where
  inRange : ∀ k f, m.lookup k = some f → f < m.objs.length
  nameEq : ∀ k f, m.lookup k = some f → (m.obj f).name = k
  hasParent : ∀ k f, m.lookup k = some f → k ≠ rootKey →
    ∃ p d, m.lookup (parentKey k) = some p ∧ (m.obj p).memDir = some d ∧ alLookup d k = some f
  noStale : ∀ k p d k' f', m.lookup k = some p → (m.obj p).memDir = some d → alLookup d k' = some f' →
    m.lookup k' = some f' ∧ parentKey k' = k ∧ k' ≠ rootKey
  root : ∃ r, m.lookup rootKey = some r ∧ (m.obj r).memDir.isSome

theorem consistent_init : Consistent MemFs.init := by
  refine ⟨?_, ?_, ?_, ?_, ?_⟩
  · intro k f h
    have : k = rootKey ∧ f = 0 := by
      simp [lookup, init, alLookup_cons, alLookup_nil] at h
      exact ⟨h.1.symm, h.2.symm⟩
    rw [this.2]; simp [init]
  · intro k f h
    have : k = rootKey ∧ f = 0 := by
      simp [lookup, init, alLookup_cons, alLookup_nil] at h
      exact ⟨h.1.symm, h.2.symm⟩
    rw [this.1, this.2]; rfl
  · intro k f h hne
    have : k = rootKey := by
      simp [lookup, init, alLookup_cons, alLookup_nil] at h
      exact h.1.symm
    exact absurd this hne
  · intro k p d k' f' h hd hl
    have : p = 0 := by
      simp [lookup, init, alLookup_cons, alLookup_nil] at h
      exact h.2.symm
    subst this
    simp [obj, init] at hd
    subst hd
    simp [alLookup_nil] at hl
  · exact ⟨0, by simp [lookup, init, alLookup_cons], by simp [obj, init]⟩

/-- two keys mapped to one object are the same key -/
theorem Consistent.inj {m : MemFs} (h : Consistent m) (k1 k2 : Key) (f : Nat)
    (h1 : m.lookup k1 = some f) (h2 : m.lookup k2 = some f) : k1 = k2 := by
  rw [← h.nameEq k1 f h1, ← h.nameEq k2 f h2]

/-- `attach`: the effect of Create / Mkdir of a new name under an existing directory -/
def attach (m : MemFs) (k : Key) (d : FData) (p : Nat) : MemFs :=
  let nf := m.objs.length
  let m1 : MemFs := { m with objs := m.objs ++ [d], data := alInsert m.data k nf }
  m1.setObj p { m1.obj p with memDir := (m1.obj p).memDir.map fun dd => alInsert dd k nf }

theorem lookup_attach (m : MemFs) (k k' : Key) (d : FData) (p : Nat) :
    (m.attach k d p).lookup k' = if k' = k then some m.objs.length else m.lookup k' := by
  unfold attach
  simp only [lookup_setObj]
  unfold lookup
  by_cases h : k' = k
  · subst h; simp [alLookup_insert_self]
  · simp [h, alLookup_insert_ne _ _ _ _ h]

/-- **attaching a new child keeps the tree consistent** -/
theorem consistent_attach (m : MemFs) (hc : Consistent m) (k : Key) (d : FData) (p : Nat) (pd : List (Key × Nat))
    (hnew : m.lookup k = none) (hroot : k ≠ rootKey) (hpk : parentKey k ≠ k)
    (hp : m.lookup (parentKey k) = some p) (hpd : (m.obj p).memDir = some pd)
    (hname : d.name = k) (hleaf : d.memDir = none ∨ d.memDir = some []) :
    Consistent (m.attach k d p) := by
  have hpr := hc.inRange _ _ hp
  have hlen : (m.attach k d p).objs.length = m.objs.length + 1 := by simp [attach, setObj]
  -- objects after the attach
  have hobj_new : (m.attach k d p).obj m.objs.length = d := by
    unfold attach
    simp only
    rw [obj_setObj_ne _ _ _ _ (by omega)]
    exact obj_alloc_new m d
  have hobj_p : (m.attach k d p).obj p = { m.obj p with memDir := some (alInsert pd k m.objs.length) } := by
    unfold attach
    simp only
    rw [obj_setObj_self _ _ _ (by simp; omega)]
    have : ({ m with objs := m.objs ++ [d], data := alInsert m.data k m.objs.length } : MemFs).obj p = m.obj p :=
      obj_alloc_old m d p hpr
    rw [this, hpd]; rfl
  have hobj_other : ∀ j, j ≠ p → j < m.objs.length → (m.attach k d p).obj j = m.obj j := by
    intro j hj hjl
    unfold attach
    simp only
    rw [obj_setObj_ne _ _ _ _ hj]
    exact obj_alloc_old m d j hjl
  refine ⟨?_, ?_, ?_, ?_, ?_⟩
  · -- inRange
    intro k' f hl
    rw [lookup_attach] at hl
    by_cases hk : k' = k
    · simp [hk] at hl; omega
    · simp [hk] at hl; have := hc.inRange _ _ hl; omega
  · -- nameEq
    intro k' f hl
    rw [lookup_attach] at hl
    by_cases hk : k' = k
    · simp [hk] at hl; subst hl; rw [hobj_new, hname, hk]
    · simp [hk] at hl
      have hf := hc.inRange _ _ hl
      by_cases hfp : f = p
      · subst hfp; rw [hobj_p]; exact hc.nameEq _ _ hl
      · rw [hobj_other f hfp hf]; exact hc.nameEq _ _ hl
  · -- hasParent
    intro k' f hl hne
    rw [lookup_attach] at hl
    by_cases hk : k' = k
    · simp [hk] at hl; subst hl; subst hk
      refine ⟨p, alInsert pd k' m.objs.length, ?_, ?_, alLookup_insert_self _ _ _⟩
      · rw [lookup_attach]; simp [hpk, hp]
      · rw [hobj_p]
    · simp [hk] at hl
      obtain ⟨p', d', h1, h2, h3⟩ := hc.hasParent _ _ hl hne
      have hp'k : parentKey k' ≠ k := by
        intro e; rw [e, hnew] at h1; cases h1
      by_cases hpp : p' = p
      · subst hpp
        refine ⟨p', alInsert pd k m.objs.length, ?_, ?_, ?_⟩
        · rw [lookup_attach]; simp [hp'k, h1]
        · rw [hobj_p]
        · rw [hpd] at h2; injection h2 with h2; subst h2
          rw [alLookup_insert_ne _ _ _ _ hk]; exact h3
      · refine ⟨p', d', ?_, ?_, h3⟩
        · rw [lookup_attach]; simp [hp'k, h1]
        · rw [hobj_other p' hpp (hc.inRange _ _ h1)]; exact h2
  · -- noStale
    intro kd q dd k' f' hl hd hl'
    rw [lookup_attach] at hl
    by_cases hk : kd = k
    · -- the new object has no entries
      simp [hk] at hl; subst hl
      rw [hobj_new] at hd
      rcases hleaf with h | h
      · rw [h] at hd; cases hd
      · rw [h] at hd; injection hd with hd; subst hd; simp [alLookup_nil] at hl'
    · simp [hk] at hl
      by_cases hqp : q = p
      · subst hqp
        rw [hobj_p] at hd
        injection hd with hd; subst hd
        have hkd : kd = parentKey k := hc.inj _ _ _ hl hp
        by_cases hkk : k' = k
        · subst hkk
          rw [alLookup_insert_self] at hl'
          injection hl' with hl'; subst hl'
          exact ⟨by rw [lookup_attach]; simp, hkd.symm, hroot⟩
        · rw [alLookup_insert_ne _ _ _ _ hkk] at hl'
          obtain ⟨a, b, c⟩ := hc.noStale _ _ _ _ _ hl hpd hl'
          exact ⟨by rw [lookup_attach]; simp [hkk, a], b, c⟩
      · rw [hobj_other q hqp (hc.inRange _ _ hl)] at hd
        obtain ⟨a, b, c⟩ := hc.noStale _ _ _ _ _ hl hd hl'
        have hkk : k' ≠ k := by intro e; rw [e, hnew] at a; cases a
        exact ⟨by rw [lookup_attach]; simp [hkk, a], b, c⟩
  · -- root
    obtain ⟨r, hr1, hr2⟩ := hc.root
    refine ⟨r, by rw [lookup_attach]; simp [Ne.symm hroot, hr1], ?_⟩
    by_cases hrp : r = p
    · subst hrp; rw [hobj_p]; rfl
    · rw [hobj_other r hrp (hc.inRange _ _ hr1)]; exact hr2

/-- replacing an object by one with the same name and the same directory index (bytes, mode,
    times, owner may change) keeps the tree consistent: Chmod, Chown, Chtimes, every handle
    write / truncate / close, Create over an existing file -/
theorem consistent_setObj_meta (m : MemFs) (hc : Consistent m) (i : Nat) (d : FData)
    (hn : d.name = (m.obj i).name) (hd : d.memDir = (m.obj i).memDir) : Consistent (m.setObj i d) := by
  have hobj : ∀ j, ((m.setObj i d).obj j).name = (m.obj j).name ∧ ((m.setObj i d).obj j).memDir = (m.obj j).memDir := by
    intro j
    by_cases hj : j = i
    · subst hj
      by_cases hl : j < m.objs.length
      · rw [obj_setObj_self _ _ _ hl]; exact ⟨hn, hd⟩
      · have : m.setObj j d = m := by
          unfold setObj; rw [List.set_eq_of_length_le (Nat.le_of_not_lt hl)]
        rw [this]; exact ⟨rfl, rfl⟩
    · rw [obj_setObj_ne _ _ _ _ hj]; exact ⟨rfl, rfl⟩
  refine ⟨?_, ?_, ?_, ?_, ?_⟩
  · intro k f hl; rw [length_setObj]; exact hc.inRange k f hl
  · intro k f hl; rw [(hobj f).1]; exact hc.nameEq k f hl
  · intro k f hl hne
    obtain ⟨p, dd, h1, h2, h3⟩ := hc.hasParent k f hl hne
    exact ⟨p, dd, h1, by rw [(hobj p).2]; exact h2, h3⟩
  · intro k p dd k' f' hl hdd hl'
    rw [(hobj p).2] at hdd
    exact hc.noStale k p dd k' f' hl hdd hl'
  · obtain ⟨r, h1, h2⟩ := hc.root
    exact ⟨r, h1, by rw [(hobj r).2]; exact h2⟩

/-- `registerWithParent` when the parent directory exists: one insertion into its index -/
theorem registerWithParent_found (fuel : Nat) (m : MemFs) (f perm p : Nat) (pd : List (Key × Nat))
    (hp : m.lookup (parentKey (m.obj f).name) = some p) (hpd : (m.obj p).memDir = some pd) :
    registerWithParent (fuel + 1) m f perm =
      m.setObj p { m.obj p with memDir := some (alInsert pd (m.obj f).name f) } := by
  unfold registerWithParent
  simp only [hp]
  have : (m.obj p).memDir.isNone = false := by rw [hpd]; rfl
  simp [this, hpd]

/-- Create of a new name under an existing directory is `attach` -/
theorem create_new_eq_attach (m : MemFs) (k : Key) (p : Nat) (pd : List (Key × Nat))
    (hnew : m.lookup k = none) (hp : m.lookup (parentKey k) = some p) (hpd : (m.obj p).memDir = some pd)
    (hpk : parentKey k ≠ k) (hpr : p < m.objs.length) :
    m.create k = (m.attach k (m.newFile k) p, m.objs.length) := by
  unfold create
  simp only [hnew]
  unfold alloc
  simp only
  have hm2p : ({ objs := m.objs ++ [m.newFile k], data := alInsert m.data k m.objs.length, handles := m.handles, now := m.now } : MemFs).lookup
      (parentKey (({ objs := m.objs ++ [m.newFile k], data := alInsert m.data k m.objs.length, handles := m.handles, now := m.now } : MemFs).obj m.objs.length).name) = some p := by
    have e : (({ objs := m.objs ++ [m.newFile k], data := alInsert m.data k m.objs.length, handles := m.handles, now := m.now } : MemFs).obj m.objs.length) = m.newFile k :=
      obj_alloc_new m (m.newFile k)
    rw [e]
    show alLookup (alInsert m.data k m.objs.length) (parentKey k) = some p
    rw [alLookup_insert_ne _ _ _ _ hpk]; exact hp
  have hm2pd : (({ objs := m.objs ++ [m.newFile k], data := alInsert m.data k m.objs.length, handles := m.handles, now := m.now } : MemFs).obj p).memDir = some pd := by
    have e := obj_alloc_old m (m.newFile k) p hpr
    unfold alloc at e
    simp only at e
    show (({ m with objs := m.objs ++ [m.newFile k], data := alInsert m.data k m.objs.length } : MemFs).obj p).memDir = some pd
    have e2 : ({ m with objs := m.objs ++ [m.newFile k], data := alInsert m.data k m.objs.length } : MemFs).obj p = m.obj p := by
      unfold obj at *; simpa using e
    rw [e2]; exact hpd
  unfold regFuel
  rw [registerWithParent_found _ _ _ _ p pd hm2p hm2pd]
  unfold attach
  simp only
  have e : (({ objs := m.objs ++ [m.newFile k], data := alInsert m.data k m.objs.length, handles := m.handles, now := m.now } : MemFs).obj m.objs.length) = m.newFile k :=
    obj_alloc_new m (m.newFile k)
  rw [e]
  have hname : (m.newFile k).name = k := rfl
  rw [hname, hm2pd]
  rfl

end MemFs
end AferoVerif
