/-
  Property C20, `RemoveAll`: the recursion of fs.go removes exactly the subtree.
-/
import AferoVerif.Proofs.GcsFolder
namespace AferoVerif.Gcs

/-! ### sorting keeps the elements -/

theorem mem_insertBy {α : Type} (lt : α → α → Bool) (a x : α) (l : List α) : x ∈ insertBy lt a l ↔ x = a ∨ x ∈ l := by
  induction l with
  | nil => simp [insertBy]
  | cons y ys ih =>
    unfold insertBy
    split
    · simp only [List.mem_cons, ih]
      constructor
      · rintro (h | h | h) <;> simp [h]
      · rintro (h | h | h) <;> simp [h]
    · simp [List.mem_cons]

theorem mem_sortBy {α : Type} (lt : α → α → Bool) (x : α) (l : List α) : x ∈ sortBy lt l ↔ x ∈ l := by
  induction l with
  | nil => simp [sortBy]
  | cons a t ih =>
    have : sortBy lt (a :: t) = insertBy lt a (sortBy lt t) := rfl
    rw [this, mem_insertBy, ih, List.mem_cons]

theorem nodup_insertBy {α : Type} (lt : α → α → Bool) (a : α) (l : List α) (ha : a ∉ l) (hl : l.Nodup) :
    (insertBy lt a l).Nodup := by
  induction l with
  | nil => simp [insertBy]
  | cons y ys ih =>
    simp only [List.mem_cons, not_or] at ha
    rw [List.nodup_cons] at hl
    unfold insertBy
    split
    · rw [List.nodup_cons]
      refine ⟨?_, ih ha.2 hl.2⟩
      rw [mem_insertBy]
      rintro (h | h)
      · exact ha.1 h.symm
      · exact hl.1 h
    · rw [List.nodup_cons]
      exact ⟨by simp [List.mem_cons, ha.1, ha.2], List.nodup_cons.mpr hl⟩

theorem nodup_sortBy {α : Type} (lt : α → α → Bool) (l : List α) (hl : l.Nodup) : (sortBy lt l).Nodup := by
  induction l with
  | nil => simp [sortBy]
  | cons a t ih =>
    rw [List.nodup_cons] at hl
    have : sortBy lt (a :: t) = insertBy lt a (sortBy lt t) := rfl
    rw [this]
    exact nodup_insertBy lt a _ (by rw [mem_sortBy]; exact hl.1) (ih hl.2)

/-! ### the layout discipline for a whole bucket -/

/-- prefix-free, clash-free object names (the quantifier of C20 for bucket layouts) -/
structure Tree (S : Store) : Prop where
  /-- object names are unique -/
  keys : (S.map Prod.fst).Nodup
  /-- no empty path segment after a separator -/
  noempty : ∀ o ∈ S, ∀ p rest, o.1 = p ++ [sep] ++ rest → rest ≠ [] → rest.takeWhile (· != sep) ≠ []
  /-- names use the separator only -/
  nobs : ∀ o ∈ S, '\\' ∉ o.1
  /-- a file is not a folder as well -/
  noclash : ∀ o ∈ S, ∀ o' ∈ S, o.1.getLast? ≠ some sep → ¬ (o.1 ++ [sep]) <+: o'.1
  /-- prefix-free segments: if `p` is a whole path (a file object or a folder of the bucket) then every
      name starting with `p` is `p` or continues with a separator -/
  aligned : ∀ p, p.getLast? ≠ some sep → (∃ o ∈ S, o.1 = p ∨ (p ++ [sep]) <+: o.1) →
    ∀ o ∈ S, p <+: o.1 → o.1 = p ∨ (p ++ [sep]) <+: o.1

theorem split_at_sep (rest : Name) (h : sep ∈ rest) : ∃ tl, rest = rest.takeWhile (· != sep) ++ sep :: tl := by
  induction rest with
  | nil => cases h
  | cons c t ih =>
    by_cases hc : c = sep
    · subst hc
      exact ⟨t, by simp [List.takeWhile]⟩
    · have hm : sep ∈ t := by
        rcases List.mem_cons.mp h with h | h
        · exact absurd h.symm hc
        · exact h
      obtain ⟨tl, htl⟩ := ih hm
      have : (c != sep) = true := by simpa using hc
      refine ⟨tl, ?_⟩
      simp only [List.takeWhile, this, List.cons_append]
      rw [← htl]

theorem getLast?_append_seg (bp rest : Name) (hne : rest ≠ []) (hns : sep ∉ rest) : (bp ++ rest).getLast? ≠ some sep := by
  rw [List.getLast?_append]
  cases hg : rest.getLast? with
  | none => exact absurd (List.getLast?_eq_none_iff.mp hg) hne
  | some c =>
    simp only [Option.some_or, ne_eq, Option.some.injEq]
    intro hc; subst hc
    exact hns (List.mem_of_getLast? hg)

theorem layout_of_tree (S s : Store) (d : Name) (T : Tree S) (hs : s.Sublist S) : Layout s (d ++ [sep]) := by
  refine ⟨(hs.map Prod.fst).nodup T.keys, ?_, ?_⟩
  · intro o ho rest h1 hr
    exact T.noempty o (hs.subset ho) d rest h1 hr
  · intro o ho o' ho' rest rest' h1 h1' hns hm he
    have hr' : rest' ≠ [] := by intro h; rw [h] at hm; cases hm
    have hseg := T.noempty o' (hs.subset ho') d rest' h1' hr'
    have hr : rest ≠ [] := by rw [he]; exact hseg
    obtain ⟨tl, htl⟩ := split_at_sep rest' hm
    refine T.noclash o (hs.subset ho) o' (hs.subset ho') ?_ ⟨tl, ?_⟩
    · rw [h1]; exact getLast?_append_seg _ rest hr hns
    · rw [h1, h1', he]
      conv => rhs; rw [htl]
      simp

/-! ### subtrees -/

/-- `o` is the object `p` or lies under folder `p` -/
def under (p : Name) (o : Name × Bytes) : Bool := o.1 == p || (p ++ [sep]).isPrefixOf o.1

/-- path of child `c` of folder `d` -/
def child (d c : Name) : Name := d ++ [sep] ++ c

theorem under_iff (p : Name) (o : Name × Bytes) : under p o = true ↔ o.1 = p ∨ (p ++ [sep]) <+: o.1 := by
  simp [under, List.isPrefixOf_iff_prefix]

theorem fsName_child (d c : Name) : fsName d ++ [sep] ++ c = fsName (child d c) := by
  simp [fsName, child]

theorem takeWhile_seg_sep (c tl : Name) (hns : sep ∉ c) : (c ++ sep :: tl).takeWhile (· != sep) = c := by
  rw [List.takeWhile_append_of_pos]
  · simp [List.takeWhile]
  · intro a ha
    simpa using fun e : a = sep => hns (e ▸ ha)

theorem under_child_rest (d c : Name) (o : Name × Bytes) (hc : c ≠ []) (hns : sep ∉ c)
    (h : under (child d c) o = true) :
    ∃ rest, o.1 = d ++ [sep] ++ rest ∧ rest ≠ [] ∧ rest.takeWhile (· != sep) = c := by
  rcases (under_iff _ _).mp h with h | ⟨tl, h⟩
  · exact ⟨c, h, hc, takeWhile_of_not_mem c hns⟩
  · refine ⟨c ++ sep :: tl, ?_, by simp, takeWhile_seg_sep c tl hns⟩
    rw [← h]; simp [child]

theorem under_child_of_rest (d rest : Name) (o : Name × Bytes) (h1 : o.1 = d ++ [sep] ++ rest) (hr : rest ≠ []) :
    under (child d (rest.takeWhile (· != sep))) o = true := by
  rw [under_iff]
  by_cases hm : sep ∈ rest
  · obtain ⟨tl, htl⟩ := split_at_sep rest hm
    right
    refine ⟨tl, ?_⟩
    rw [h1]
    conv => rhs; rw [htl]
    simp [child]
  · left
    rw [takeWhile_of_not_mem rest hm, h1]; rfl

theorem length_of_under (p : Name) (o : Name × Bytes) (h : under p o = true) : p.length ≤ o.1.length := by
  rcases (under_iff _ _).mp h with h | ⟨tl, h⟩
  · rw [h]; exact Nat.le_refl _
  · rw [← h]; simp

/-- the statement proved by induction on the fuel: with enough fuel for every name under `d`,
    `RemoveAll(bkt/d)` removes the object `d` and everything under `d/`, nothing else, and succeeds -/
def RemAll (S : Store) (n : Nat) : Prop :=
  ∀ (s : Store) (d : Name), s.Sublist S → d ≠ [] → d.getLast? ≠ some sep →
    (∀ o ∈ S, d <+: o.1 → o.1 = d ∨ (d ++ [sep]) <+: o.1) →
    (∃ o ∈ s, under d o = true) → (∀ o ∈ s, under d o = true → o.1.length < d.length + n) →
    removeAllS n s (fsName d) = (s.filter (fun o => !under d o), none)

theorem remAll_zero (S : Store) : RemAll S 0 := by
  intro s d _ _ _ _ ⟨o, ho, hu⟩ hb
  have := hb o ho hu
  have := length_of_under d o hu
  omega

theorem foldKids_cons_ok (f : Store → Name → Store × Option GErr) (path c : Name) (K : List Name) (s s1 : Store)
    (h : f s (path ++ [sep] ++ normSeps c) = (s1, none)) : foldKids f path (c :: K) s = foldKids f path K s1 := by
  unfold foldKids
  rw [List.foldl_cons]
  show List.foldl _ (f s (path ++ [sep] ++ normSeps c)) K = _
  rw [h]

/-- one level of the recursion: the loop over the (distinct) children removes their subtrees one after
    the other -/
theorem fold_children (S : Store) (n : Nat) (d : Name) (rec : RemAll S n) (T : Tree S) :
    ∀ (K : List Name) (s : Store), s.Sublist S → K.Nodup →
      (∀ c ∈ K, c ≠ [] ∧ sep ∉ c ∧ '\\' ∉ c ∧ ∃ o ∈ s, under (child d c) o = true) →
      (∀ o ∈ s, (d ++ [sep]) <+: o.1 → o.1.length < d.length + (n + 1)) →
      foldKids (removeAllS n) (fsName d) K s
        = (s.filter (fun o => K.all fun c => !under (child d c) o), none) := by
  intro K
  induction K with
  | nil =>
    intro s _ _ _ _
    simp only [foldKids, List.foldl_nil, List.all_nil]
    rw [List.filter_eq_self.mpr (fun _ _ => rfl)]
  | cons c K ih =>
    intro s hs hK hc hb
    rw [List.nodup_cons] at hK
    obtain ⟨hcne, hcns, hcbs, o, ho, hou⟩ := hc c List.mem_cons_self
    have hnorm : normSeps c = c := by
      unfold normSeps
      conv => rhs; rw [← List.map_id c]
      apply List.map_congr_left
      intro a ha
      have : a ≠ '\\' := fun e => hcbs (e ▸ ha)
      simp [this]
    have hlast : (child d c).getLast? ≠ some sep := by
      unfold child; exact getLast?_append_seg _ c hcne hcns
    have hal := T.aligned (child d c) hlast ⟨o, hs.subset ho, (under_iff _ _).mp hou⟩
    have hstep : removeAllS n s (fsName (child d c)) = (s.filter (fun o => !under (child d c) o), none) := by
      refine rec s (child d c) hs (by simp [child]) hlast hal ⟨o, ho, hou⟩ ?_
      intro o' ho' hu'
      obtain ⟨rest, h1, _, _⟩ := under_child_rest d c o' hcne hcns hu'
      have := hb o' ho' ⟨rest, by rw [h1]⟩
      have hl : (child d c).length = d.length + 1 + c.length := by simp [child]; omega
      have : 0 < c.length := List.length_pos_iff.mpr hcne
      omega
    rw [foldKids_cons_ok (removeAllS n) (fsName d) c K s _ (by rw [hnorm, fsName_child]; exact hstep)]
    rw [ih (s.filter (fun o => !under (child d c) o)) ((List.filter_sublist).trans hs) hK.2]
    · rw [List.filter_filter]
      congr 1
      apply List.filter_congr
      intro x _
      simp [List.all_cons, Bool.and_comm]
    · intro c' hc'
      obtain ⟨h1, h2, h3, o', ho', hou'⟩ := hc c' (List.mem_cons_of_mem _ hc')
      refine ⟨h1, h2, h3, o', ?_, hou'⟩
      rw [List.mem_filter]
      refine ⟨ho', ?_⟩
      -- an object lies under one child only
      cases hu : under (child d c) o' with
      | false => rfl
      | true =>
        obtain ⟨r1, e1, _, t1⟩ := under_child_rest d c o' hcne hcns hu
        obtain ⟨r2, e2, _, t2⟩ := under_child_rest d c' o' h1 h2 hou'
        have : r1 = r2 := List.append_cancel_left (e1.symm.trans e2)
        subst this
        exact absurd (t2.symm.trans t1 ▸ hc' : c ∈ K) hK.1
    · intro o' ho' hp
      exact hb o' (List.mem_filter.mp ho').1 hp

theorem get_of_mem (s : Store) (hk : (s.map Prod.fst).Nodup) (p : Name) (v : Bytes) (h : (p, v) ∈ s) :
    get s p = some v := by
  cases hg : get s p with
  | none => exact absurd rfl ((get_none_iff s p).mp hg (p, v) h)
  | some w =>
    have := keys_unique s hk (p, v) h (p, w) (get_some_mem s p w hg) rfl
    rw [(Prod.mk.inj this).2]

/-- strictly under folder `d`: below `d/`, but not the placeholder `d/` itself -/
def strictlyUnder (d : Name) (o : Name × Bytes) : Bool := (d ++ [sep]).isPrefixOf o.1 && o.1 != d ++ [sep]

theorem strictlyUnder_iff (d : Name) (o : Name × Bytes) :
    strictlyUnder d o = true ↔ ∃ rest, o.1 = d ++ [sep] ++ rest ∧ rest ≠ [] := by
  simp only [strictlyUnder, Bool.and_eq_true, List.isPrefixOf_iff_prefix, bne_iff_ne, ne_eq]
  constructor
  · rintro ⟨⟨rest, h⟩, hne⟩
    refine ⟨rest, h.symm, ?_⟩
    intro hr; subst hr; simp at h; exact hne h.symm
  · rintro ⟨rest, h, hr⟩
    refine ⟨⟨rest, h.symm⟩, ?_⟩
    intro e; rw [h] at e
    have : rest = [] := by simpa using e
    exact hr this

/-- after all children are gone, what is left at or under `d` is at most the placeholder `d/` -/
theorem kids_cover (s : Store) (d : Name) (kids : List Name)
    (hkm : ∀ c, c ∈ kids ↔ ∃ o ∈ s, ∃ rest, o.1 = d ++ [sep] ++ rest ∧ rest ≠ [] ∧ c = rest.takeWhile (· != sep))
    (hseg : ∀ c ∈ kids, c ≠ [] ∧ sep ∉ c) :
    s.filter (fun o => kids.all fun c => !under (child d c) o) = s.filter (fun o => !strictlyUnder d o) := by
  apply List.filter_congr
  intro o ho
  cases hsu : strictlyUnder d o with
  | true =>
    obtain ⟨rest, h1, hr⟩ := (strictlyUnder_iff d o).mp hsu
    have hc : rest.takeWhile (· != sep) ∈ kids := (hkm _).mpr ⟨o, ho, rest, h1, hr, rfl⟩
    have hu := under_child_of_rest d rest o h1 hr
    simp only [Bool.not_true, List.all_eq_false]
    exact ⟨_, hc, by simp [hu]⟩
  | false =>
    simp only [Bool.not_false, List.all_eq_true, Bool.not_eq_true']
    intro c hc
    cases hu : under (child d c) o with
    | false => rfl
    | true =>
      obtain ⟨h1, h2⟩ := hseg c hc
      obtain ⟨rest, e, hr, _⟩ := under_child_rest d c o h1 h2 hu
      have := (strictlyUnder_iff d o).mpr ⟨rest, e, hr⟩
      rw [hsu] at this; cases this

/-- the last step of `RemoveAll`: `Remove(d)` once nothing is left strictly under `d/`; a folder that
    had no placeholder object has ceased to exist, which is success -/
theorem remove_after_children (S s2 : Store) (d : Name) (T : Tree S) (hs2 : s2.Sublist S) (hd : d ≠ [])
    (hl : d.getLast? ≠ some sep) (hal : ∀ o ∈ S, d <+: o.1 → o.1 = d ∨ (d ++ [sep]) <+: o.1)
    (hg : get s2 d = none) (hnone : ∀ o ∈ s2, strictlyUnder d o = false) :
    (match (removeS s2 (fsName d)).2 with
      | some .notexist => ((removeS s2 (fsName d)).1, none)
      | _ => removeS s2 (fsName d)) = (s2.filter (fun o => !under d o), none) := by
  have hkeys : (s2.map Prod.fst).Nodup := (hs2.map Prod.fst).nodup T.keys
  have hne : ∀ o ∈ s2, o.1 ≠ d := (get_none_iff s2 d).mp hg
  by_cases hm : ∃ v, (d ++ [sep], v) ∈ s2
  · obtain ⟨v, hv⟩ := hm
    have hex : ∃ o ∈ s2, d <+: o.1 := ⟨_, hv, List.prefix_append d [sep]⟩
    have lay := layout_of_tree S s2 d T hs2
    have hents : (listObjects s2 (d ++ [sep])).filterMap (keepEntry (d ++ [sep])) = [] := by
      rw [List.eq_nil_iff_forall_not_mem]
      intro i hi
      rcases (mem_readdir s2 _ lay i).mp hi with ⟨o, ho, rest, h1, hr, _, _⟩ | ⟨o, ho, rest, h1, hmm, _⟩
      · have := (strictlyUnder_iff d o).mpr ⟨rest, h1, hr⟩
        rw [hnone o ho] at this; cases this
      · have hr : rest ≠ [] := by intro h; rw [h] at hmm; cases hmm
        have := (strictlyUnder_iff d o).mpr ⟨rest, h1, hr⟩
        rw [hnone o ho] at this; cases this
    have hgm : get s2 (d ++ [sep]) = some v := get_of_mem s2 hkeys _ v hv
    have hrm : removeS s2 (fsName d) = (del s2 (d ++ [sep]), none) := by
      unfold removeS
      simp [bucketErr_fsName, stat_dir s2 d hd hg hex, readdirS_dir s2 d hd hl hg hex, hents,
        ensureTrailing_fsName d hl hd, pathOf_fsName, delObj, hgm]
    rw [hrm]
    simp only
    congr 1
    unfold del
    apply List.filter_congr
    intro o ho
    have h1 := hne o ho
    by_cases hp : (d ++ [sep]) <+: o.1
    · have hu : under d o = true := (under_iff d o).mpr (Or.inr hp)
      have : o.1 = d ++ [sep] := by
        cases he : (o.1 == d ++ [sep]) with
        | true => simpa using he
        | false =>
          have : strictlyUnder d o = true := by
            simp only [strictlyUnder, Bool.and_eq_true, List.isPrefixOf_iff_prefix, bne_iff_ne, ne_eq]
            exact ⟨hp, by simpa using he⟩
          rw [hnone o ho] at this; cases this
      simp [hu, this]
    · have hu : under d o = false := by
        cases h : under d o with
        | false => rfl
        | true => rcases (under_iff d o).mp h with h | h
                  · exact absurd h h1
                  · exact absurd h hp
      have : o.1 ≠ d ++ [sep] := fun e => hp (e ▸ List.prefix_refl _)
      simp [hu, this]
  · have hno : ¬ ∃ o ∈ s2, d <+: o.1 := by
      rintro ⟨o, ho, hp⟩
      rcases hal o (hs2.subset ho) hp with h | h
      · exact hne o ho h
      · cases he : (o.1 == d ++ [sep]) with
        | true =>
          have : o.1 = d ++ [sep] := by simpa using he
          exact hm ⟨o.2, by rw [← this]; exact ho⟩
        | false =>
          have : strictlyUnder d o = true := by
            simp only [strictlyUnder, Bool.and_eq_true, List.isPrefixOf_iff_prefix, bne_iff_ne, ne_eq]
            exact ⟨h, by simpa using he⟩
          rw [hnone o ho] at this; cases this
    have hrm : removeS s2 (fsName d) = (s2, some .notexist) := by
      unfold removeS
      simp [bucketErr_fsName, stat_missing s2 d hd hg hno]
    rw [hrm]
    simp only
    congr 1
    symm
    rw [List.filter_eq_self]
    intro o ho
    cases h : under d o with
    | false => rfl
    | true =>
      rcases (under_iff d o).mp h with h | h
      · exact absurd h (hne o ho)
      · exact absurd ⟨o, ho, (List.prefix_append d [sep]).trans h⟩ hno

theorem remAll_succ (S : Store) (T : Tree S) (n : Nat) (rec : RemAll S n) : RemAll S (n + 1) := by
  intro s d hs hd hl hal hex hb
  have hkeys : (s.map Prod.fst).Nodup := (hs.map Prod.fst).nodup T.keys
  cases hg : get s d with
  | some cur =>
    have hrun : removeAllS (n + 1) s (fsName d) = (del s d, none) := by
      simp [removeAllS, stat_file s d cur hd hg, remove_file s d cur hd hg]
    rw [hrun]
    congr 1
    unfold del
    apply List.filter_congr
    intro o ho
    have hmem := get_some_mem s d cur hg
    have hnc := T.noclash (d, cur) (hs.subset hmem) o (hs.subset ho) hl
    have : (d ++ [sep]).isPrefixOf o.1 = false := by
      cases h : (d ++ [sep]).isPrefixOf o.1 with
      | false => rfl
      | true => exact absurd (List.isPrefixOf_iff_prefix.mp h) hnc
    simp [under, this, bne]
  | none =>
    have hne : ∀ o ∈ s, o.1 ≠ d := (get_none_iff s d).mp hg
    obtain ⟨o0, ho0, hu0⟩ := hex
    have hp0 : (d ++ [sep]) <+: o0.1 := by
      rcases (under_iff d o0).mp hu0 with h | h
      · exact absurd h (hne o0 ho0)
      · exact h
    have hex' : ∃ o ∈ s, d <+: o.1 := ⟨o0, ho0, (List.prefix_append d [sep]).trans hp0⟩
    have lay := layout_of_tree S s d T hs
    have hspec := readdir_children_once' s d hd hl lay _ hg hex' (readdirS_dir s d hd hl hg hex')
    -- the children, as the loop sees them
    have hkn : (sortBy nameLt (((listObjects s (d ++ [sep])).filterMap (keepEntry (d ++ [sep]))).map fun i => base i.name)).Nodup :=
      nodup_sortBy _ _ hspec.1
    have hkm : ∀ c, c ∈ sortBy nameLt (((listObjects s (d ++ [sep])).filterMap (keepEntry (d ++ [sep]))).map fun i => base i.name) ↔
        ∃ o ∈ s, ∃ rest, o.1 = d ++ [sep] ++ rest ∧ rest ≠ [] ∧ c = rest.takeWhile (· != sep) := by
      intro c
      rw [mem_sortBy, List.mem_map]
      constructor
      · rintro ⟨i, hi, rfl⟩
        have : (base i.name, i.isDir) ∈ ((listObjects s (d ++ [sep])).filterMap (keepEntry (d ++ [sep]))).map
            (fun i => (base i.name, i.isDir)) := List.mem_map.mpr ⟨i, hi, rfl⟩
        obtain ⟨o, ho, rest, h1, hr, hc, _⟩ := (hspec.2 _ _).mp this
        exact ⟨o, ho, rest, h1, hr, hc⟩
      · rintro ⟨o, ho, rest, h1, hr, rfl⟩
        obtain ⟨i, hi, he⟩ := List.mem_map.mp ((hspec.2 _ (rest.contains sep)).mpr ⟨o, ho, rest, h1, hr, rfl, rfl⟩)
        exact ⟨i, hi, (Prod.mk.inj he).1⟩
    have hseg : ∀ c ∈ sortBy nameLt (((listObjects s (d ++ [sep])).filterMap (keepEntry (d ++ [sep]))).map fun i => base i.name),
        c ≠ [] ∧ sep ∉ c := by
      intro c hc
      obtain ⟨o, ho, rest, h1, hr, rfl⟩ := (hkm c).mp hc
      exact ⟨lay.seg o ho rest h1 hr, not_mem_takeWhile_sep rest⟩
    have hfold := fold_children S n d rec T _ s hs hkn
      (by
        intro c hc
        obtain ⟨h1, h2⟩ := hseg c hc
        obtain ⟨o, ho, rest, e, hr, rfl⟩ := (hkm c).mp hc
        refine ⟨h1, h2, ?_, o, ho, under_child_of_rest d rest o e hr⟩
        intro hbs
        have : '\\' ∈ o.1 := by
          rw [e]
          exact List.mem_append_right _ ((List.takeWhile_prefix _).subset hbs)
        exact T.nobs o (hs.subset ho) this)
      (by
        intro o ho hp
        exact hb o ho ((under_iff d o).mpr (Or.inr hp)))
    rw [kids_cover s d _ hkm hseg] at hfold
    have hs2 : (s.filter (fun o => !strictlyUnder d o)).Sublist S := (List.filter_sublist).trans hs
    have hg2 : get (s.filter (fun o => !strictlyUnder d o)) d = none :=
      (get_none_iff _ d).mpr (fun o ho => hne o (List.mem_filter.mp ho).1)
    have hlast := remove_after_children S _ d T hs2 hd hl hal hg2
      (by intro o ho; have := (List.mem_filter.mp ho).2; simpa using this)
    have hrun : removeAllS (n + 1) s (fsName d) =
        ((s.filter (fun o => !strictlyUnder d o)).filter (fun o => !under d o), none) := by
      rw [← hlast]
      simp only [removeAllS, stat_dir s d hd hg hex', readdirS_dir s d hd hl hg hex', Bool.not_true,
        Bool.false_eq_true, if_false, hfold]
      rfl
    rw [hrun, List.filter_filter]
    congr 1
    apply List.filter_congr
    intro o ho
    cases hu : under d o with
    | true => simp
    | false =>
      have : strictlyUnder d o = false := by
        cases h : strictlyUnder d o with
        | false => rfl
        | true =>
          obtain ⟨rest, h1, _⟩ := (strictlyUnder_iff d o).mp h
          have : under d o = true := (under_iff d o).mpr (Or.inr ⟨rest, h1.symm⟩)
          rw [hu] at this; cases this
      simp [this]

theorem remAll_all (S : Store) (T : Tree S) : ∀ n, RemAll S n
  | 0 => remAll_zero S
  | n + 1 => remAll_succ S T n (remAll_all S T n)

/-- the fuel `Fs.RemoveAll` is run with in the model exceeds the length of every name -/
theorem foldl_add_ge (l : List Nat) (a : Nat) : a ≤ l.foldl (· + ·) a ∧ ∀ x ∈ l, x ≤ l.foldl (· + ·) a := by
  induction l generalizing a with
  | nil => exact ⟨Nat.le_refl _, fun _ h => by cases h⟩
  | cons y t ih =>
    obtain ⟨h1, h2⟩ := ih (a + y)
    refine ⟨by simp only [List.foldl_cons]; omega, ?_⟩
    intro x hx
    simp only [List.foldl_cons]
    rcases List.mem_cons.mp hx with rfl | hx
    · omega
    · exact h2 x hx

theorem storeFuel_bound (s : Store) : ∀ o ∈ s, o.1.length < storeFuel s := by
  intro o ho
  unfold storeFuel
  have h0 := foldl_add_ge (s.map fun o => o.1.length) 0
  have hshift : ∀ (l : List Nat) (a b : Nat), l.foldl (· + ·) (a + b) = l.foldl (· + ·) a + b := by
    intro l
    induction l with
    | nil => intro a b; rfl
    | cons y t ih => intro a b; simp only [List.foldl_cons]; rw [show a + b + y = a + y + b by omega, ih]
  have := h0.2 o.1.length (List.mem_map.mpr ⟨o, ho, rfl⟩)
  have e := hshift (s.map fun o => o.1.length) 0 2
  simp only [Nat.zero_add] at e
  rw [e]
  omega

/-! ### a decidable sufficient condition for `Tree` (used for the concrete examples) -/

def TC1 (S : Store) : Prop := (S.map Prod.fst).Nodup ∧ (∀ o ∈ S, '\\' ∉ o.1)
def TC2 (S : Store) : Prop :=
  ∀ o ∈ S, ∀ k < o.1.length, (o.1.drop k).head? = some sep →
      o.1.drop (k + 1) = [] ∨ (o.1.drop (k + 1)).head? ≠ some sep
def TC3 (S : Store) : Prop := ∀ o ∈ S, ∀ o' ∈ S, o.1.getLast? ≠ some sep → ¬ (o.1 ++ [sep]) <+: o'.1
def TC4 (S : Store) : Prop :=
  ∀ o ∈ S, ∀ k < o.1.length + 1, ((o.1.take k).getLast? ≠ some sep ∧
      (k = o.1.length ∨ (o.1.drop k).head? = some sep)) →
      ∀ o' ∈ S, o.1.take k <+: o'.1 → o'.1 = o.1.take k ∨ (o.1.take k ++ [sep]) <+: o'.1

instance (S : Store) : Decidable (TC1 S) := by unfold TC1; infer_instance
instance (S : Store) : Decidable (TC2 S) := by unfold TC2; infer_instance
instance (S : Store) : Decidable (TC3 S) := by unfold TC3; infer_instance
instance (S : Store) : Decidable (TC4 S) := by unfold TC4; infer_instance

def TreeCheck (S : Store) : Prop := TC1 S ∧ TC2 S ∧ TC3 S ∧ TC4 S

instance (S : Store) : Decidable (TreeCheck S) := by unfold TreeCheck; infer_instance

theorem tree_of_check (S : Store) (h : TreeCheck S) : Tree S := by
  obtain ⟨⟨h1, h2⟩, h3, h4, h5⟩ := h
  refine ⟨h1, ?_, h2, h4, ?_⟩
  · intro o ho p rest he hr
    have hk : p.length < o.1.length := by rw [he]; simp
    have hd1 : o.1.drop p.length = sep :: rest := by rw [he]; simp
    have hd2 : o.1.drop (p.length + 1) = rest := by
      rw [he, List.append_assoc, drop_past_left]; rfl
    rcases h3 o ho p.length hk (by rw [hd1]; rfl) with h | h
    · rw [hd2] at h; exact absurd h hr
    · rw [hd2] at h
      cases rest with
      | nil => exact absurd rfl hr
      | cons c t =>
        have hc : c ≠ sep := by simpa using h
        have : (c != sep) = true := by simpa using hc
        simp [List.takeWhile, this]
  · intro p hl ⟨o, ho, hw⟩ o' ho' hp
    rcases hw with hw | ⟨t, hw⟩
    · have := h5 o ho o.1.length (by omega) ⟨by rw [List.take_length, hw]; exact hl, Or.inl rfl⟩ o' ho'
        (by rw [List.take_length, hw]; exact hp)
      rw [List.take_length, hw] at this
      exact this
    · have hk : p.length < o.1.length + 1 := by rw [← hw]; simp; omega
      have ht : o.1.take p.length = p := by rw [← hw, List.append_assoc, List.take_left]
      have hdr : (o.1.drop p.length).head? = some sep := by rw [← hw, List.append_assoc, List.drop_left]; rfl
      have := h5 o ho p.length hk ⟨by rw [ht]; exact hl, Or.inr hdr⟩ o' ho' (by rw [ht]; exact hp)
      rw [ht] at this
      exact this

end AferoVerif.Gcs
