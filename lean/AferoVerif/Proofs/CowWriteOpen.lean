/-
  Property C06, write-opens through the union that truncate or append (Model/Cow.lean, `Cow.openFile`).

  * one layer: `openFile_existing_any` (what `MemMapFs.OpenFile` does to an existing name without O_EXCL: empties the
    object iff `truncates flag`, appends the handle `openHandle`), its view / data / handle corollaries.
  * the copy-up: `consistent_copyFile_file`, `cow_writeOpen_base_core` (engine, stated over `withDirOf`), and the
    three situations of the overlay `BaseOnlyFile` / `BaseOnlyFileFresh` / `BaseOnlyFileDeep` →
    `cow_writeOpen_base_file`, `…_fresh`, `…_deep`.
  * writes through the returned handle: `hWrite_view`, `cow_first_write`, `firstWrite` and its four closed forms,
    `cow_writeOpen_base_then_write`, `cow_appendOpen_base_then_write` (any payload), the read-only case.
  * a file of the overlay: `OverlayFile`, `cow_writeOpen_overlay_file`, `…_then_write`, `cow_appendOpen_overlay_then_write`.
  * several missing directory levels: `missingAbove` / `nearestIsDir`, `reg_view` (what `registerWithParent` does to
    the view), `mkdir_deep_view`, `mkdirAll_deep_view`, `overlay_mkdirAll_deep`.
  * failing write-opens: `cow_writeOpen_fails_no_dir`, `openFile_absent_write_residue_deep`.
-/
import AferoVerif.Proofs.CowInert
import AferoVerif.Proofs.ViewReads
namespace AferoVerif
open MemFs

/-! ### `OpenFile` of one layer on an existing name -/

/-- the flags make `MemMapFs.OpenFile` truncate: O_TRUNC together with a write access mode (memmap.go:293) -/
def truncates (flag : Nat) : Prop := flag &&& O_TRUNC > 0 ∧ flag &&& (O_RDWR ||| O_WRONLY) > 0

instance (flag : Nat) : Decidable (truncates flag) := by unfold truncates; infer_instance

/-- the bytes an existing regular file holds after it has been opened with `flag` -/
def openBytes (flag : Nat) (d : Bytes) : Bytes := if truncates flag then [] else d

/-- the handle `MemMapFs.OpenFile` builds on the object `f` whose bytes had the length `len` BEFORE the call:
    O_APPEND seeks to that length (before any truncation), the handle is read-only unless O_WRONLY or O_RDWR
    is set -/
def openHandle (flag len f : Nat) : MHandle :=
  MHandle.mk f (Handle.mk (if flag &&& O_APPEND > 0 then (len : Int) else 0)
    (decide (flag &&& (O_WRONLY ||| O_RDWR) = 0)) false) 0

/-- `OpenFile` of an existing name without O_EXCL: the object is emptied if the flags truncate, a new handle is
    appended to the handle table, nothing else changes -/
theorem openFile_existing_any (m : MemFs) (k : Key) (flag perm f : Nat) (hl : m.lookup k = some f)
    (hx : flag &&& O_EXCL = 0) :
    m.openFile k flag perm =
      ({ (if truncates flag then m.setObj f { m.obj f with data := [], mtime := m.now } else m) with
          handles := m.handles ++ [openHandle flag (m.obj f).data.length f] },
       .handle m.handles.length none) := by
  by_cases hT : truncates flag
  · rw [if_pos hT]
    unfold truncates at hT
    unfold MemFs.openFile openHandle
    simp only [hl, Option.isSome_some, true_and, hx, Nat.lt_irrefl, if_false, hT, and_self, if_true,
      Bool.false_eq_true]
    rfl
  · rw [if_neg hT]
    exact openFile_existing m k flag perm f hl hx hT

theorem openFile_existing_lookup (m : MemFs) (k : Key) (flag perm f : Nat) (hl : m.lookup k = some f)
    (hx : flag &&& O_EXCL = 0) (k' : Key) : (m.openFile k flag perm).1.lookup k' = m.lookup k' := by
  rw [openFile_existing_any m k flag perm f hl hx]
  by_cases hT : truncates flag
  · rw [if_pos hT]; rfl
  · rw [if_neg hT]; rfl

/-- … seen in the view: the name denotes the file with the bytes `openBytes`, the mode bits are kept, every
    other name denotes what it did -/
theorem openFile_existing_view (m : MemFs) (hc : Consistent m) (k : Key) (flag perm f : Nat)
    (hl : m.lookup k = some f) (hfile : (m.obj f).dir = false) (hx : flag &&& O_EXCL = 0) (k' : Key) :
    view (m.openFile k flag perm).1 k' =
      if k' = k then some (.file (openBytes flag (m.obj f).data) (m.obj f).mode) else view m k' := by
  have hfr := hc.inRange _ _ hl
  rw [openFile_existing_any m k flag perm f hl hx]
  unfold openBytes
  by_cases hT : truncates flag
  · rw [if_pos hT, if_pos hT]
    show view (m.setObj f { m.obj f with data := [], mtime := m.now }) k' = _
    rw [view_setObj_at m f _ k hfr (fun x hx' => hc.inj _ _ _ hx' hl) hl k', nodeOf_file _ (by exact hfile)]
  · rw [if_neg hT, if_neg hT]
    show view m k' = _
    by_cases hk : k' = k
    · rw [if_pos hk, hk, view_some m k f hl, nodeOf_file _ hfile]
    · rw [if_neg hk]

/-- … and the object the name leads to holds the bytes `openBytes` -/
theorem openFile_existing_data (m : MemFs) (hc : Consistent m) (k : Key) (flag perm f : Nat)
    (hl : m.lookup k = some f) (hx : flag &&& O_EXCL = 0) :
    ((m.openFile k flag perm).1.obj f).data = openBytes flag (m.obj f).data ∧
    ((m.openFile k flag perm).1.obj f).dir = (m.obj f).dir := by
  have hfr := hc.inRange _ _ hl
  rw [openFile_existing_any m k flag perm f hl hx]
  unfold openBytes
  by_cases hT : truncates flag
  · rw [if_pos hT, if_pos hT]
    show ((m.setObj f { m.obj f with data := [], mtime := m.now }).obj f).data = [] ∧
      ((m.setObj f { m.obj f with data := [], mtime := m.now }).obj f).dir = _
    rw [obj_setObj_self _ _ _ hfr]
    exact ⟨rfl, rfl⟩
  · rw [if_neg hT, if_neg hT]
    exact ⟨rfl, rfl⟩

/-- the handle table after it -/
theorem openFile_existing_handles (m : MemFs) (k : Key) (flag perm f : Nat) (hl : m.lookup k = some f)
    (hx : flag &&& O_EXCL = 0) :
    (m.openFile k flag perm).1.handles = m.handles ++ [openHandle flag (m.obj f).data.length f] := by
  rw [openFile_existing_any m k flag perm f hl hx]

/-! ### the overlay after a successful copy-up -/

/-- a successful `copyFile` of a regular file leaves the overlay a consistent tree -/
theorem consistent_copyFile_file (b L : MemFs) (name : Str) (bo : Nat) (hfile : (b.obj bo).dir = false)
    (hc : Consistent (withDirOf L name))
    (hnew : (withDirOf L name).lookup (keyOfStr name) = none) (hpar : ParentDir (withDirOf L name) (keyOfStr name)) :
    Consistent (copyFile b L name bo).1 := by
  obtain ⟨p, pd, hp, hpd⟩ := hpar
  have hpr := hc.inRange _ _ hp
  have hpk : parentKey (keyOfStr name) ≠ keyOfStr name := by intro e; rw [e, hnew] at hp; cases hp
  have hroot := ne_root_of_missing _ hc _ hnew
  have hcr := create_new_eq_attach _ (keyOfStr name) p pd hnew hp hpd hpk hpr
  have hcA : Consistent ((withDirOf L name).attach (keyOfStr name) ((withDirOf L name).newFile (keyOfStr name)) p) :=
    consistent_attach _ hc _ _ p pd hnew hroot hpk hp hpd rfl (Or.inl rfl)
  have hoA : ((withDirOf L name).attach (keyOfStr name) ((withDirOf L name).newFile (keyOfStr name)) p).obj
      (withDirOf L name).objs.length = (withDirOf L name).newFile (keyOfStr name) :=
    obj_attach_new _ _ _ p hpr
  have hlenA : (withDirOf L name).objs.length <
      ((withDirOf L name).attach (keyOfStr name) ((withDirOf L name).newFile (keyOfStr name)) p).objs.length := by
    rw [length_attach]; exact Nat.lt_succ_self _
  unfold copyFile copyFileFrom
  simp only [hfile, Bool.false_eq_true, if_false, List.drop_zero, ne_eq, not_true_eq_false, Bool.not_false,
    Bool.true_and, gt_iff_lt, Nat.not_lt_zero, decide_false]
  have hW : (if fsExists L (keyOfStr (Path.dir name)) = true then L
      else (L.mkdirAll (keyOfStr (Path.dir name)) 0o777).1) = withDirOf L name := rfl
  rw [hW, hcr]
  simp only
  generalize withDirOf L name = W at *
  unfold chtimes
  simp only [lookup_setObj, lookup_attach, if_true]
  rw [setObj_setObj, setObj_setObj]
  have hlen2 : ∀ D, W.objs.length <
      ((W.attach (keyOfStr name) (W.newFile (keyOfStr name)) p).setObj W.objs.length D).objs.length :=
    fun D => by rw [length_setObj]; exact hlenA
  refine consistent_setObj_meta _ hcA _ _ ?_ ?_
  · simp only [obj_setObj_self _ _ _ (hlen2 _), obj_setObj_self _ _ _ hlenA]; rfl
  · simp only [obj_setObj_self _ _ _ (hlen2 _), obj_setObj_self _ _ _ hlenA]; rfl

/-- a name the view shows as a regular file leads to an object that is one -/
theorem view_file_inv (m : MemFs) (k : Key) (d : Bytes) (md : Nat) (h : view m k = some (.file d md)) :
    ∃ f, m.lookup k = some f ∧ (m.obj f).dir = false ∧ (m.obj f).data = d ∧ (m.obj f).mode = md := by
  cases hq : m.lookup k with
  | none => rw [view_none _ _ hq] at h; cases h
  | some f =>
    rw [view_some _ _ f hq] at h
    refine ⟨f, rfl, ?_⟩
    cases hd : (m.obj f).dir with
    | true => rw [nodeOf_dir _ hd] at h; cases h
    | false =>
      rw [nodeOf_file _ hd] at h
      injection h with h
      injection h with h1 h2
      exact ⟨rfl, h1, h2⟩

/-- `layerOpenFile` on a name the overlay holds, without O_EXCL: the overlay's `OpenFile` runs and its new handle
    is entered in the union's handle table -/
theorem layerOpenFile_existing (c : Cow) (k : Key) (flag perm lf : Nat) (hl : c.s.l.lookup k = some lf)
    (hx : flag &&& O_EXCL = 0) :
    c.layerOpenFile k flag perm =
      ({ s := { c.s with l := (c.s.l.openFile k flag perm).1 }, hs := c.hs ++ [.layer c.s.l.handles.length] },
       .handle c.hs.length none) := by
  unfold Cow.layerOpenFile
  rw [openFile_existing_any c.s.l k flag perm lf hl hx]
  rfl

/-- **the engine of the write-open theorems for a regular file only the base holds**: `W = withDirOf c.s.l p` is
    the overlay after `copyFile`'s first step (the parent name exists, or `MkdirAll(dir, 0777)` has made it).
    The call answers a fresh handle; the base is the same; the overlay is `W` plus the name, which leads to a
    regular file with the bytes `openBytes flag (base bytes)` and the mode of a fresh overlay file; the union's new
    handle is the overlay handle `openHandle`. -/
theorem cow_writeOpen_base_core (c : Cow) (p : Str) (flag perm bo : Nat)
    (hl : c.s.l.lookup (keyOfStr p) = none) (hb : c.s.b.lookup (keyOfStr p) = some bo)
    (hfile : (c.s.b.obj bo).dir = false)
    (hm : flag &&& cowWriteMask ≠ 0) (hx : flag &&& O_EXCL = 0)
    (hcW : Consistent (withDirOf c.s.l p))
    (hnewW : (withDirOf c.s.l p).lookup (keyOfStr p) = none)
    (hparW : ParentDir (withDirOf c.s.l p) (keyOfStr p)) :
    ∃ c1 lf idx,
      c.step (.openFile p flag perm) = (c1, .handle c.hs.length none) ∧
      c1.s.b = c.s.b ∧ c1.hs = c.hs ++ [.layer idx] ∧ Consistent c1.s.l ∧
      c1.s.l.lookup (keyOfStr p) = some lf ∧
      c1.s.l.handles[idx]? = some (openHandle flag (c.s.b.obj bo).data.length lf) ∧
      (c1.s.l.obj lf).dir = false ∧ (c1.s.l.obj lf).data = openBytes flag (c.s.b.obj bo).data ∧
      (c1.s.l.obj lf).mode = modeTemporary ∧
      ∀ k', view c1.s.l k' =
        if k' = keyOfStr p then some (.file (openBytes flag (c.s.b.obj bo).data) modeTemporary)
        else view (withDirOf c.s.l p) k' := by
  obtain ⟨h1, h2⟩ := copyFile_file_view c.s.b c.s.l p bo hfile hcW hnewW hparW
  have hcL := consistent_copyFile_file c.s.b c.s.l p bo hfile hcW hnewW hparW
  obtain ⟨lf, hlf, hd, hdat, hmd⟩ := view_file_inv _ _ _ _ (by rw [h2 (keyOfStr p), if_pos rfl])
  have ecu : c.copyUpIfBase p =
      ({ c with s := { c.s with l := (copyFile c.s.b c.s.l p bo).1 } }, (copyFile c.s.b c.s.l p bo).2) := by
    unfold Cow.copyUpIfBase copyToLayer
    simp only [isBaseFile_true c _ bo hl hb, if_true, hb]
  have hstep : c.step (.openFile p flag perm) =
      ({ c with s := { c.s with l := (copyFile c.s.b c.s.l p bo).1 } } : Cow).layerOpenFile (keyOfStr p) flag perm := by
    simp only [Cow.step, Cow.openFile]
    rw [isBaseFile_true c _ bo hl hb]
    simp only [hm, ne_eq, not_false_eq_true, if_true]
    rw [ecu, h1]
  generalize (copyFile c.s.b c.s.l p bo).1 = L1 at *
  rw [hstep, layerOpenFile_existing _ _ flag perm lf hlf hx]
  obtain ⟨hd1, hd2⟩ := openFile_existing_data L1 hcL (keyOfStr p) flag perm lf hlf hx
  refine ⟨_, lf, L1.handles.length, rfl, rfl, rfl, ?_, ?_, ?_, ?_, ?_, ?_, ?_⟩
  · exact consistent_openFile L1 hcL _ (normKey_keyOfStr p) flag perm
  · show (L1.openFile (keyOfStr p) flag perm).1.lookup (keyOfStr p) = some lf
    rw [openFile_existing_lookup L1 _ flag perm lf hlf hx]; exact hlf
  · show (L1.openFile (keyOfStr p) flag perm).1.handles[L1.handles.length]? = _
    rw [openFile_existing_handles L1 _ flag perm lf hlf hx, hdat]
    simp
  · show ((L1.openFile (keyOfStr p) flag perm).1.obj lf).dir = false
    rw [hd2]; exact hd
  · show ((L1.openFile (keyOfStr p) flag perm).1.obj lf).data = _
    rw [hd1, hdat]
  · show ((L1.openFile (keyOfStr p) flag perm).1.obj lf).mode = _
    have := openFile_existing_view L1 hcL (keyOfStr p) flag perm lf hlf hd hx (keyOfStr p)
    rw [if_pos rfl] at this
    obtain ⟨f', hf', _, _, hmode⟩ := view_file_inv _ _ _ _ this
    rw [openFile_existing_lookup L1 _ flag perm lf hlf hx, hlf] at hf'
    injection hf' with hf'
    rw [hf', hmode, hmd]
  · intro k'
    show view (L1.openFile (keyOfStr p) flag perm).1 k' = _
    rw [openFile_existing_view L1 hcL (keyOfStr p) flag perm lf hlf hd hx k', hdat, hmd]
    by_cases hk : k' = keyOfStr p
    · rw [if_pos hk, if_pos hk]
    · rw [if_neg hk, if_neg hk, h2 k', if_neg hk]

/-! ### a write through a handle of the overlay, seen in the view -/

/-- `Write` of a non-empty payload through an open, writable handle at offset `cur` of one layer: the object's
    bytes become `writeS … cur d`; the name that leads to the object shows them, every other name shows what it
    did -/
theorem hWrite_view (m : MemFs) (hc : Consistent m) (k : Key) (hi : Nat) (mh : MHandle) (d : Bytes) (cur : Nat)
    (hh : m.handles[hi]? = some mh) (hcl : mh.h.closed = false) (hr : mh.h.readOnly = false)
    (hpos : mh.h.pos = cur) (hd : d ≠ [])
    (hl : m.lookup k = some mh.obj) (hfile : (m.obj mh.obj).dir = false) :
    (m.hWrite hi d).2 = .file (.n d.length none) ∧
    ∀ k', view (m.hWrite hi d).1 k' =
      if k' = k then some (.file (writeS (m.obj mh.obj).data cur d) (m.obj mh.obj).mode) else view m k' := by
  have hfr := hc.inRange _ _ hl
  unfold MemFs.hWrite MemFs.fileIO
  simp only [hh]
  rw [writeC_eq (m.obj mh.obj).data mh.h d cur hpos hcl hr hd]
  refine ⟨rfl, fun k' => ?_⟩
  show view (m.setObj mh.obj _) k' = _
  rw [view_setObj_at m mh.obj _ k hfr (fun x hx' => hc.inj _ _ _ hx' hl) hl k']
  by_cases hk : k' = k
  · rw [if_pos hk, if_pos hk, nodeOf_file _ (by exact hfile)]; rfl
  · rw [if_neg hk, if_neg hk]

/-- a write at the end of the file appends -/
theorem writeS_at_end (d b : Bytes) : writeS d d.length b = d ++ b := by
  unfold writeS
  simp

/-- a write into an emptied file at the offset `n` leaves `n` zero bytes, then the payload -/
theorem writeS_nil (n : Nat) (b : Bytes) : writeS [] n b = List.replicate n 0 ++ b := by
  unfold writeS
  simp

/-- `Write` through a handle of the union that lives in the overlay -/
theorem cow_layer_handle_write (c2 : Cow) (k : Key) (h idx : Nat) (mh : MHandle) (d : Bytes) (cur : Nat)
    (hh : c2.hs[h]? = some (.layer idx)) (hm : c2.s.l.handles[idx]? = some mh)
    (hcl : mh.h.closed = false) (hr : mh.h.readOnly = false) (hpos : mh.h.pos = cur) (hd : d ≠ [])
    (hc : Consistent c2.s.l) (hl : c2.s.l.lookup k = some mh.obj) (hfile : (c2.s.l.obj mh.obj).dir = false) :
    (c2.step (.hWrite h d)).2 = .file (.n d.length none) ∧ (c2.step (.hWrite h d)).1.s.b = c2.s.b ∧
    ∀ k', view (c2.step (.hWrite h d)).1.s.l k' =
      if k' = k then some (.file (writeS (c2.s.l.obj mh.obj).data cur d) (c2.s.l.obj mh.obj).mode)
      else view c2.s.l k' := by
  rw [cow_step_layer c2 (.hWrite h d) h idx rfl hh]
  obtain ⟨w1, w2⟩ := hWrite_view c2.s.l hc k idx mh d cur hm hcl hr hpos hd hl hfile
  exact ⟨w1, rfl, w2⟩

/-- `Write` through a READ-ONLY handle of the overlay is refused and changes nothing in either layer's view -/
theorem cow_layer_handle_write_ro (c2 : Cow) (h idx : Nat) (mh : MHandle) (d : Bytes)
    (hh : c2.hs[h]? = some (.layer idx)) (hm : c2.s.l.handles[idx]? = some mh)
    (hcl : mh.h.closed = false) (hr : mh.h.readOnly = true) :
    (c2.step (.hWrite h d)).2 = .file (.n 0 (some .rohandle)) ∧ (c2.step (.hWrite h d)).1.s.b = c2.s.b ∧
    view (c2.step (.hWrite h d)).1.s.l = view c2.s.l := by
  rw [cow_step_layer c2 (.hWrite h d) h idx rfl hh]
  refine ⟨?_, rfl, ?_⟩
  · show (c2.s.l.hWrite idx d).2 = _
    unfold MemFs.hWrite MemFs.fileIO
    simp only [hm]
    unfold writeC
    simp only [hcl, hr, Bool.false_eq_true, if_false, if_true]
  · show view (c2.s.l.hWrite idx d).1 = _
    unfold MemFs.hWrite MemFs.fileIO
    simp only [hm]
    have hw : writeC (c2.s.l.obj mh.obj).data mh.h d =
        ((c2.s.l.obj mh.obj).data, mh.h, .n 0 (some .rohandle)) := by
      unfold writeC; simp only [hcl, hr, Bool.false_eq_true, if_false, if_true]
    rw [hw]
    funext k'
    show view (c2.s.l.setObj mh.obj ((c2.s.l.obj mh.obj).withIO (c2.s.l.obj mh.obj).data (true && false) c2.s.l.now)) k' = _
    refine view_congr c2.s.l _ k' k' (lookup_setObj _ _ _ _) (fun j _ => ?_)
    refine nodeOf_setObj_idx c2.s.l mh.obj _ ?_ ?_ ?_ j <;> rfl

/-- the offset of the handle `OpenFile` returns: the file's length BEFORE the call with O_APPEND, else 0 -/
def openOffset (flag len : Nat) : Nat := if flag &&& O_APPEND > 0 then len else 0

/-- **the bytes of the file after `OpenFile(flag)` and one `Write(d)` through the returned handle**, `old` being
    the bytes before the open: the open empties the file if the flags truncate, the write goes to the handle's
    offset (zero-filling a gap) -/
def firstWrite (flag : Nat) (old d : Bytes) : Bytes := writeS (openBytes flag old) (openOffset flag old.length) d

/-- O_APPEND without truncation: the payload is appended -/
theorem firstWrite_append (flag : Nat) (old d : Bytes) (ha : flag &&& O_APPEND > 0) (ht : ¬ truncates flag) :
    firstWrite flag old d = old ++ d := by
  unfold firstWrite openBytes openOffset
  rw [if_neg ht, if_pos ha, writeS_at_end]

/-- neither O_APPEND nor truncation: the handle starts at offset 0 and the payload OVERWRITES the first bytes -/
theorem firstWrite_plain (flag : Nat) (old d : Bytes) (ha : ¬ flag &&& O_APPEND > 0) (ht : ¬ truncates flag) :
    firstWrite flag old d = d ++ old.drop d.length := by
  unfold firstWrite openBytes openOffset writeS
  rw [if_neg ht, if_neg ha]
  simp

/-- truncation without O_APPEND: the file holds the payload -/
theorem firstWrite_trunc (flag : Nat) (old d : Bytes) (ha : ¬ flag &&& O_APPEND > 0) (ht : truncates flag) :
    firstWrite flag old d = d := by
  unfold firstWrite openBytes openOffset writeS
  rw [if_pos ht, if_neg ha]
  simp

/-- truncation WITH O_APPEND: the handle was moved to the old end of the file before the file was emptied
    (memmap.go:286-294), so the payload lands behind `old.length` zero bytes -/
theorem firstWrite_append_trunc (flag : Nat) (old d : Bytes) (ha : flag &&& O_APPEND > 0) (ht : truncates flag) :
    firstWrite flag old d = List.replicate old.length 0 ++ d := by
  unfold firstWrite openBytes openOffset
  rw [if_pos ht, if_pos ha, writeS_nil]

theorem openHandle_pos (flag len f : Nat) : (openHandle flag len f).h.pos = (openOffset flag len : Nat) := by
  unfold openHandle openOffset
  split <;> rfl

/-- the first `Write` through a handle `OpenFile(flag)` of the overlay has just built, with a write access mode -/
theorem cow_first_write (c1 : Cow) (k : Key) (h idx lf flag len : Nat) (d : Bytes)
    (hh : c1.hs[h]? = some (.layer idx)) (hm : c1.s.l.handles[idx]? = some (openHandle flag len lf))
    (hacc : flag &&& (O_WRONLY ||| O_RDWR) ≠ 0) (hd : d ≠ [])
    (hc : Consistent c1.s.l) (hl : c1.s.l.lookup k = some lf) (hfile : (c1.s.l.obj lf).dir = false) :
    (c1.step (.hWrite h d)).2 = .file (.n d.length none) ∧ (c1.step (.hWrite h d)).1.s.b = c1.s.b ∧
    ∀ k', view (c1.step (.hWrite h d)).1.s.l k' =
      if k' = k then some (.file (writeS (c1.s.l.obj lf).data (openOffset flag len) d) (c1.s.l.obj lf).mode)
      else view c1.s.l k' :=
  cow_layer_handle_write c1 k h idx (openHandle flag len lf) d (openOffset flag len) hh hm rfl
    (by unfold openHandle; simp [hacc]) (openHandle_pos flag len lf) hd hc hl hfile

/-- … and without one (O_APPEND, O_CREATE or O_TRUNC alone): the handle is read-only, the write is refused -/
theorem cow_first_write_ro (c1 : Cow) (h idx lf flag len : Nat) (d : Bytes)
    (hh : c1.hs[h]? = some (.layer idx)) (hm : c1.s.l.handles[idx]? = some (openHandle flag len lf))
    (hacc : flag &&& (O_WRONLY ||| O_RDWR) = 0) :
    (c1.step (.hWrite h d)).2 = .file (.n 0 (some .rohandle)) ∧ (c1.step (.hWrite h d)).1.s.b = c1.s.b ∧
    view (c1.step (.hWrite h d)).1.s.l = view c1.s.l :=
  cow_layer_handle_write_ro c1 h idx (openHandle flag len lf) d hh hm rfl (by unfold openHandle; simp [hacc])

/-- without a write access mode nothing truncates -/
theorem not_truncates_of_ro (flag : Nat) (hacc : flag &&& (O_WRONLY ||| O_RDWR) = 0) : ¬ truncates flag := by
  unfold truncates
  intro h
  have : O_RDWR ||| O_WRONLY = O_WRONLY ||| O_RDWR := by decide
  rw [this, hacc] at h
  exact absurd h.2 (Nat.lt_irrefl 0)

/-! ### (1) a regular file only the base holds -/

/-- the situation of the write-open theorems, in the form the engine uses: `name` is a regular file only the base
    holds, and after `copyFile`'s first step (`withDirOf`: the parent name exists in the overlay, or
    `MkdirAll(dir, 0777)` has made it) the overlay is a consistent tree that lacks the name and holds its parent
    directory -/
structure BaseFileW (c : Cow) (p : Str) (bo : Nat) : Prop where
  noLayer : c.s.l.lookup (keyOfStr p) = none
  base : c.s.b.lookup (keyOfStr p) = some bo
  file : (c.s.b.obj bo).dir = false
  consW : Consistent (withDirOf c.s.l p)
  newW : (withDirOf c.s.l p).lookup (keyOfStr p) = none
  parentW : ParentDir (withDirOf c.s.l p) (keyOfStr p)

/-- (a) the overlay — a consistent tree — already holds the parent name `filepath.Dir(name)` and the name's parent
    directory -/
structure BaseOnlyFile (c : Cow) (p : Str) (bo : Nat) : Prop where
  cons : Consistent c.s.l
  noLayer : c.s.l.lookup (keyOfStr p) = none
  base : c.s.b.lookup (keyOfStr p) = some bo
  file : (c.s.b.obj bo).dir = false
  dirName : (c.s.l.lookup (keyOfStr (Path.dir p))).isSome = true
  parent : ParentDir c.s.l (keyOfStr p)

/-- (b) the overlay lacks the directory the name lies in and holds the directory above it: `copyFile` makes the
    missing directory with `MkdirAll(dir, 0777)` -/
structure BaseOnlyFileFresh (c : Cow) (p : Str) (bo : Nat) : Prop where
  cons : Consistent c.s.l
  noLayer : c.s.l.lookup (keyOfStr p) = none
  base : c.s.b.lookup (keyOfStr p) = some bo
  file : (c.s.b.obj bo).dir = false
  noDir : c.s.l.lookup (keyOfStr (Path.dir p)) = none
  dirIsParent : parentKey (keyOfStr p) = keyOfStr (Path.dir p)
  above : ParentDir c.s.l (keyOfStr (Path.dir p))

theorem BaseOnlyFile.toW {c : Cow} {p : Str} {bo : Nat} (h : BaseOnlyFile c p bo) : BaseFileW c p bo := by
  have e := withDirOf_existing c.s.l p h.dirName
  exact ⟨h.noLayer, h.base, h.file, by rw [e]; exact h.cons, by rw [e]; exact h.noLayer, by rw [e]; exact h.parent⟩

/-- the overlay after `MkdirAll(dir, 0777)` of the one missing level -/
theorem BaseOnlyFileFresh.view_withDirOf {c : Cow} {p : Str} {bo : Nat} (h : BaseOnlyFileFresh c p bo) :
    BaseFileW c p bo ∧ ∀ k, view (withDirOf c.s.l p) k = refMkdir (view c.s.l) (keyOfStr (Path.dir p)) 0o777 k := by
  obtain ⟨hc, hl, hb, hfile, hdl, hpk, hpar⟩ := h
  obtain ⟨_, m2, n, m3, m4⟩ := mkdirAll_one_level c.s.l hc _ 0o777 hdl hpar
  have hW : withDirOf c.s.l p = (c.s.l.mkdirAll (keyOfStr (Path.dir p)) 0o777).1 := by
    unfold withDirOf fsExists; rw [hdl]; rfl
  have hne : keyOfStr p ≠ keyOfStr (Path.dir p) := by
    rw [← hpk]; exact (parentKey_ne_self _ (ne_root_of_missing _ hc _ hl)).symm
  have hc0 : Consistent (withDirOf c.s.l p) := by
    rw [hW, mkdirAll_fst]; exact consistent_mkdir _ hc _ (normKey_keyOfStr _) _
  have hnew0 : (withDirOf c.s.l p).lookup (keyOfStr p) = none := by
    rw [hW, ← view_eq_none, m2]; unfold refMkdir; rw [if_neg hne]; exact view_none _ _ hl
  have hpar0 : ParentDir (withDirOf c.s.l p) (keyOfStr p) := by
    rw [hW]; exact ⟨n, [], by rw [hpk]; exact m3, m4⟩
  exact ⟨⟨hl, hb, hfile, hc0, hnew0, hpar0⟩, fun k => by rw [hW, m2]⟩

theorem BaseOnlyFileFresh.toW {c : Cow} {p : Str} {bo : Nat} (h : BaseOnlyFileFresh c p bo) : BaseFileW c p bo :=
  h.view_withDirOf.1

/-- what the name shows before the call: the base's file -/
theorem BaseFileW.view_before {c : Cow} {p : Str} {bo : Nat} (h : BaseFileW c p bo) :
    cowView c (keyOfStr p) = some (.file (c.s.b.obj bo).data (c.s.b.obj bo).mode) := by
  rw [cowView_base c _ h.noLayer, view_some _ _ bo h.base, nodeOf_file _ h.file]

/-- the view of the union over an overlay `W` and the base of `c` -/
def cowViewOver (W : MemFs) (c : Cow) (k : Key) : Option Node :=
  match view W k with
  | some n => some n
  | none => view c.s.b k

theorem cowViewOver_self (c : Cow) (k : Key) : cowViewOver c.s.l c k = cowView c k := rfl

theorem cow_writeOpen_base_W (c : Cow) (p : Str) (flag perm bo : Nat) (h : BaseFileW c p bo)
    (hm : flag &&& cowWriteMask ≠ 0) (hx : flag &&& O_EXCL = 0) :
    (c.step (.openFile p flag perm)).2 = .handle c.hs.length none ∧
    (c.step (.openFile p flag perm)).1.s.b = c.s.b ∧
    ∀ k', cowView (c.step (.openFile p flag perm)).1 k' =
      if k' = keyOfStr p then some (.file (openBytes flag (c.s.b.obj bo).data) modeTemporary)
      else cowViewOver (withDirOf c.s.l p) c k' := by
  obtain ⟨c1, lf, idx, e, hb, _, _, _, _, _, _, _, hv⟩ :=
    cow_writeOpen_base_core c p flag perm bo h.noLayer h.base h.file hm hx h.consW h.newW h.parentW
  rw [e]
  refine ⟨rfl, hb, fun k' => ?_⟩
  show cowView c1 k' = _
  unfold cowView cowViewOver
  rw [hv k', hb]
  by_cases hk : k' = keyOfStr p
  · rw [if_pos hk, if_pos hk]
  · rw [if_neg hk, if_neg hk]; rfl

/-- **(1a) write-open of a regular file only the base holds, the overlay holding its directory.**  `OpenFile` with
    any flag of the write mask (O_WRONLY, O_RDWR, O_APPEND, O_CREATE, O_TRUNC) and without O_EXCL answers a fresh
    handle; the base — every object, every name, the handle table — is what it was; the name now shows the
    overlay's copy: a regular file with the base's bytes, or with no bytes if the flags truncate (O_TRUNC together
    with O_WRONLY or O_RDWR — O_TRUNC alone does NOT truncate), carrying the mode of a fresh overlay file (the
    base's mode bits are not copied); every other name shows what it did. -/
theorem cow_writeOpen_base_file (c : Cow) (p : Str) (flag perm bo : Nat) (h : BaseOnlyFile c p bo)
    (hm : flag &&& cowWriteMask ≠ 0) (hx : flag &&& O_EXCL = 0) :
    (c.step (.openFile p flag perm)).2 = .handle c.hs.length none ∧
    (c.step (.openFile p flag perm)).1.s.b = c.s.b ∧
    (∀ k', cowView (c.step (.openFile p flag perm)).1 k' =
      if k' = keyOfStr p then some (.file (openBytes flag (c.s.b.obj bo).data) modeTemporary) else cowView c k') ∧
    cowView c (keyOfStr p) = some (.file (c.s.b.obj bo).data (c.s.b.obj bo).mode) := by
  obtain ⟨h1, h2, h3⟩ := cow_writeOpen_base_W c p flag perm bo h.toW hm hx
  refine ⟨h1, h2, fun k' => ?_, h.toW.view_before⟩
  rw [h3 k', withDirOf_existing c.s.l p h.dirName, cowViewOver_self]

/-- **(1b) … the overlay lacking the directory the file lies in** (and holding the one above it): the same, and
    `copyFile` has made the directory in the overlay with `MkdirAll(dir, 0777)` — that directory's name now shows
    a directory with the bits 0777 (whatever bits the base's directory has); every name other than these two
    shows what it did. -/
theorem cow_writeOpen_base_file_fresh (c : Cow) (p : Str) (flag perm bo : Nat) (h : BaseOnlyFileFresh c p bo)
    (hm : flag &&& cowWriteMask ≠ 0) (hx : flag &&& O_EXCL = 0) :
    (c.step (.openFile p flag perm)).2 = .handle c.hs.length none ∧
    (c.step (.openFile p flag perm)).1.s.b = c.s.b ∧
    (∀ k', cowView (c.step (.openFile p flag perm)).1 k' =
      if k' = keyOfStr p then some (.file (openBytes flag (c.s.b.obj bo).data) modeTemporary)
      else if k' = keyOfStr (Path.dir p) then some (.dir ((0o777 &&& chmodBits) ||| modeDir))
      else cowView c k') ∧
    cowView c (keyOfStr p) = some (.file (c.s.b.obj bo).data (c.s.b.obj bo).mode) := by
  obtain ⟨hW, hv⟩ := h.view_withDirOf
  obtain ⟨h1, h2, h3⟩ := cow_writeOpen_base_W c p flag perm bo hW hm hx
  refine ⟨h1, h2, fun k' => ?_, hW.view_before⟩
  rw [h3 k']
  by_cases hk : k' = keyOfStr p
  · rw [if_pos hk, if_pos hk]
  · rw [if_neg hk, if_neg hk]
    unfold cowViewOver cowView
    rw [hv k']
    unfold refMkdir
    by_cases hk2 : k' = keyOfStr (Path.dir p)
    · rw [if_pos hk2, if_pos hk2]
    · rw [if_neg hk2, if_neg hk2]; rfl

/-! ### (2) the first write through the returned handle -/

/-- **(2) write-open of a regular file only the base holds, then `Write(d)` through the returned handle** (a write
    access mode among the flags, `d` not empty): the write answers `len(d)`, the base is what it was, the name
    shows the bytes `firstWrite flag old d` (`old` the base's bytes), every other name shows what it showed after
    the open. -/
theorem cow_writeOpen_base_then_write (c : Cow) (p : Str) (flag perm bo : Nat) (d : Bytes) (h : BaseFileW c p bo)
    (hm : flag &&& cowWriteMask ≠ 0) (hx : flag &&& O_EXCL = 0)
    (hacc : flag &&& (O_WRONLY ||| O_RDWR) ≠ 0) (hd : d ≠ []) :
    ((c.step (.openFile p flag perm)).1.step (.hWrite c.hs.length d)).2 = .file (.n d.length none) ∧
    ((c.step (.openFile p flag perm)).1.step (.hWrite c.hs.length d)).1.s.b = c.s.b ∧
    cowView ((c.step (.openFile p flag perm)).1.step (.hWrite c.hs.length d)).1 (keyOfStr p) =
      some (.file (firstWrite flag (c.s.b.obj bo).data d) modeTemporary) ∧
    ∀ k', k' ≠ keyOfStr p →
      cowView ((c.step (.openFile p flag perm)).1.step (.hWrite c.hs.length d)).1 k' =
        cowView (c.step (.openFile p flag perm)).1 k' := by
  obtain ⟨c1, lf, idx, e, hb, hhs, hc1, hl1, hh1, hf1, hd1, hm1, _⟩ :=
    cow_writeOpen_base_core c p flag perm bo h.noLayer h.base h.file hm hx h.consW h.newW h.parentW
  rw [e]
  show (c1.step _).2 = _ ∧ (c1.step _).1.s.b = _ ∧ cowView (c1.step _).1 _ = _ ∧
    ∀ k', k' ≠ keyOfStr p → cowView (c1.step _).1 k' = cowView c1 k'
  obtain ⟨w1, w2, w3⟩ := cow_first_write c1 (keyOfStr p) c.hs.length idx lf flag (c.s.b.obj bo).data.length d
    (by rw [hhs]; simp) hh1 hacc hd hc1 hl1 hf1
  refine ⟨w1, by rw [w2, hb], ?_, fun k' hk => ?_⟩
  · unfold cowView
    rw [w3, if_pos rfl, hd1, hm1]; rfl
  · unfold cowView
    rw [w3, if_neg hk, w2]

/-- … without a write access mode among the flags (O_APPEND, O_CREATE, O_TRUNC alone or together): the file has
    been copied up all the same, but the handle is read-only — the write is refused and every name shows what it
    showed after the open -/
theorem cow_writeOpen_base_then_write_ro (c : Cow) (p : Str) (flag perm bo : Nat) (d : Bytes) (h : BaseFileW c p bo)
    (hm : flag &&& cowWriteMask ≠ 0) (hx : flag &&& O_EXCL = 0)
    (hacc : flag &&& (O_WRONLY ||| O_RDWR) = 0) :
    ((c.step (.openFile p flag perm)).1.step (.hWrite c.hs.length d)).2 = .file (.n 0 (some .rohandle)) ∧
    ((c.step (.openFile p flag perm)).1.step (.hWrite c.hs.length d)).1.s.b = c.s.b ∧
    ∀ k', cowView ((c.step (.openFile p flag perm)).1.step (.hWrite c.hs.length d)).1 k' =
        cowView (c.step (.openFile p flag perm)).1 k' := by
  obtain ⟨c1, lf, idx, e, hb, hhs, hc1, hl1, hh1, hf1, hd1, hm1, _⟩ :=
    cow_writeOpen_base_core c p flag perm bo h.noLayer h.base h.file hm hx h.consW h.newW h.parentW
  rw [e]
  show (c1.step _).2 = _ ∧ (c1.step _).1.s.b = _ ∧ ∀ k', cowView (c1.step _).1 k' = cowView c1 k'
  obtain ⟨w1, w2, w3⟩ := cow_first_write_ro c1 c.hs.length idx lf flag (c.s.b.obj bo).data.length d
    (by rw [hhs]; simp) hh1 hacc
  exact ⟨w1, by rw [w2, hb], cowView_congr c1 _ w3 (by rw [w2])⟩

/-! ### (3) a regular file the overlay holds already -/

/-- the name is a regular file of the overlay (a consistent tree), and the overlay holds `filepath.Dir(name)` as a
    directory — as it does in every state the filesystem reaches by its own calls -/
structure OverlayFile (c : Cow) (p : Str) (lf : Nat) : Prop where
  cons : Consistent c.s.l
  layer : c.s.l.lookup (keyOfStr p) = some lf
  file : (c.s.l.obj lf).dir = false
  dirIsDir : ∃ ld, c.s.l.lookup (keyOfStr (Path.dir p)) = some ld ∧ (c.s.l.obj ld).dir = true

theorem cow_writeOpen_overlay_core (c : Cow) (p : Str) (flag perm lf : Nat) (h : OverlayFile c p lf)
    (hm : flag &&& cowWriteMask ≠ 0) (hx : flag &&& O_EXCL = 0) :
    ∃ c1,
      c.step (.openFile p flag perm) = (c1, .handle c.hs.length none) ∧
      c1.s.b = c.s.b ∧ c1.hs = c.hs ++ [.layer c.s.l.handles.length] ∧ Consistent c1.s.l ∧
      c1.s.l.lookup (keyOfStr p) = some lf ∧
      c1.s.l.handles[c.s.l.handles.length]? = some (openHandle flag (c.s.l.obj lf).data.length lf) ∧
      (c1.s.l.obj lf).dir = false ∧ (c1.s.l.obj lf).data = openBytes flag (c.s.l.obj lf).data ∧
      (c1.s.l.obj lf).mode = (c.s.l.obj lf).mode ∧
      ∀ k', view c1.s.l k' =
        if k' = keyOfStr p then some (.file (openBytes flag (c.s.l.obj lf).data) (c.s.l.obj lf).mode)
        else view c.s.l k' := by
  obtain ⟨hc, hl, hfile, ld, hld, hdir⟩ := h
  rw [cow_openFile_overlay c p flag perm lf ld hl hld hdir hm, layerOpenFile_existing c _ flag perm lf hl hx]
  obtain ⟨hd1, hd2⟩ := openFile_existing_data c.s.l hc (keyOfStr p) flag perm lf hl hx
  have hv := openFile_existing_view c.s.l hc (keyOfStr p) flag perm lf hl hfile hx
  have hlk : (c.s.l.openFile (keyOfStr p) flag perm).1.lookup (keyOfStr p) = some lf := by
    rw [openFile_existing_lookup c.s.l _ flag perm lf hl hx]; exact hl
  refine ⟨_, rfl, rfl, rfl, ?_, hlk, ?_, ?_, hd1, ?_, hv⟩
  · exact consistent_openFile c.s.l hc _ (normKey_keyOfStr p) flag perm
  · show (c.s.l.openFile (keyOfStr p) flag perm).1.handles[c.s.l.handles.length]? = _
    rw [openFile_existing_handles c.s.l _ flag perm lf hl hx]
    simp
  · show ((c.s.l.openFile (keyOfStr p) flag perm).1.obj lf).dir = false
    rw [hd2]; exact hfile
  · have := hv (keyOfStr p)
    rw [if_pos rfl] at this
    obtain ⟨f', hf', _, _, hmode⟩ := view_file_inv _ _ _ _ this
    rw [hlk] at hf'
    injection hf' with hf'
    subst hf'
    exact hmode

/-- **(3) write-open of a regular file the overlay holds**: the call answers a fresh handle and acts on the
    overlay alone — the base is what it was; the name shows the overlay's file, emptied if the flags truncate and
    with its bytes otherwise, its mode bits kept; every other name shows what it did. -/
theorem cow_writeOpen_overlay_file (c : Cow) (p : Str) (flag perm lf : Nat) (h : OverlayFile c p lf)
    (hm : flag &&& cowWriteMask ≠ 0) (hx : flag &&& O_EXCL = 0) :
    (c.step (.openFile p flag perm)).2 = .handle c.hs.length none ∧
    (c.step (.openFile p flag perm)).1.s.b = c.s.b ∧
    (∀ k', cowView (c.step (.openFile p flag perm)).1 k' =
      if k' = keyOfStr p then some (.file (openBytes flag (c.s.l.obj lf).data) (c.s.l.obj lf).mode)
      else cowView c k') ∧
    cowView c (keyOfStr p) = some (.file (c.s.l.obj lf).data (c.s.l.obj lf).mode) := by
  obtain ⟨c1, e, hb, _, _, _, _, _, _, _, hv⟩ := cow_writeOpen_overlay_core c p flag perm lf h hm hx
  rw [e]
  refine ⟨rfl, hb, fun k' => ?_, ?_⟩
  · show cowView c1 k' = _
    unfold cowView
    rw [hv k', hb]
    by_cases hk : k' = keyOfStr p
    · rw [if_pos hk, if_pos hk]
    · rw [if_neg hk, if_neg hk]
  · rw [cowView_overlay c _ lf h.layer, nodeOf_file _ h.file]

/-- … then `Write(d)` through the returned handle (a write access mode among the flags, `d` not empty): the name
    shows `firstWrite flag old d`, `old` being the overlay's bytes before the open; the base is what it was -/
theorem cow_writeOpen_overlay_then_write (c : Cow) (p : Str) (flag perm lf : Nat) (d : Bytes) (h : OverlayFile c p lf)
    (hm : flag &&& cowWriteMask ≠ 0) (hx : flag &&& O_EXCL = 0)
    (hacc : flag &&& (O_WRONLY ||| O_RDWR) ≠ 0) (hd : d ≠ []) :
    ((c.step (.openFile p flag perm)).1.step (.hWrite c.hs.length d)).2 = .file (.n d.length none) ∧
    ((c.step (.openFile p flag perm)).1.step (.hWrite c.hs.length d)).1.s.b = c.s.b ∧
    cowView ((c.step (.openFile p flag perm)).1.step (.hWrite c.hs.length d)).1 (keyOfStr p) =
      some (.file (firstWrite flag (c.s.l.obj lf).data d) (c.s.l.obj lf).mode) ∧
    ∀ k', k' ≠ keyOfStr p →
      cowView ((c.step (.openFile p flag perm)).1.step (.hWrite c.hs.length d)).1 k' = cowView c k' := by
  obtain ⟨c1, e, hb, hhs, hc1, hl1, hh1, hf1, hd1, hm1, hv⟩ := cow_writeOpen_overlay_core c p flag perm lf h hm hx
  rw [e]
  show (c1.step _).2 = _ ∧ (c1.step _).1.s.b = _ ∧ cowView (c1.step _).1 _ = _ ∧
    ∀ k', k' ≠ keyOfStr p → cowView (c1.step _).1 k' = cowView c k'
  obtain ⟨w1, w2, w3⟩ := cow_first_write c1 (keyOfStr p) c.hs.length c.s.l.handles.length lf flag
    (c.s.l.obj lf).data.length d (by rw [hhs]; simp) hh1 hacc hd hc1 hl1 hf1
  refine ⟨w1, by rw [w2, hb], ?_, fun k' hk => ?_⟩
  · unfold cowView
    rw [w3, if_pos rfl, hd1, hm1]; rfl
  · unfold cowView
    rw [w3, if_neg hk, w2, hv k', if_neg hk, hb]

/-! ### several missing directory levels: what `registerWithParent` / `MkdirAll` do to the view -/

namespace MemFs

/-- the names `registerWithParent` makes for an object named `k`: the missing ancestors of `k`, nearest first, up
    to the nearest ancestor that exists (`n` bounds the number of levels looked at, as the model's fuel does) -/
def missingAbove (m : MemFs) : Nat → Key → List Key
  | 0, _ => []
  | n + 1, k => if (m.lookup (parentKey k)).isSome then [] else parentKey k :: missingAbove m n (parentKey k)

/-- the nearest existing ancestor of `k` carries a directory index (is a directory, not a regular file —
    `mem.InitializeDir` would turn a regular file met there into a directory) -/
def nearestIsDir (m : MemFs) : Nat → Key → Bool
  | 0, _ => true
  | n + 1, k =>
    match m.lookup (parentKey k) with
    | some p => (m.obj p).memDir.isSome
    | none => nearestIsDir m n (parentKey k)

theorem parentKey_length_le (k : Key) : (parentKey k).segs.length ≤ k.segs.length := by
  by_cases hk : k.segs = []
  · unfold parentKey; rw [if_pos hk]; simp [rootKey]
  · exact Nat.le_of_lt (parentKey_length_lt k hk)

theorem missingAbove_congr (m m' : MemFs) (L : Nat)
    (h : ∀ x : Key, x.segs.length < L → m'.lookup x = m.lookup x) :
    ∀ (n : Nat) (k : Key), (parentKey k).segs.length < L → missingAbove m' n k = missingAbove m n k := by
  intro n
  induction n with
  | zero => intro k _; rfl
  | succ n ih =>
    intro k hk
    unfold missingAbove
    rw [h _ hk, ih (parentKey k) (Nat.lt_of_le_of_lt (parentKey_length_le _) hk)]

theorem nearestIsDir_congr (m m' : MemFs) (L : Nat)
    (h : ∀ x : Key, x.segs.length < L → m'.lookup x = m.lookup x)
    (ho : ∀ x p, m.lookup x = some p → m'.obj p = m.obj p) :
    ∀ (n : Nat) (k : Key), (parentKey k).segs.length < L → nearestIsDir m' n k = nearestIsDir m n k := by
  intro n
  induction n with
  | zero => intro k _; rfl
  | succ n ih =>
    intro k hk
    unfold nearestIsDir
    rw [h _ hk]
    cases hp : m.lookup (parentKey k) with
    | some p => simp only; rw [ho _ p hp]
    | none => simp only; exact ih (parentKey k) (Nat.lt_of_le_of_lt (parentKey_length_le _) hk)

theorem mem_missingAbove_length (m : MemFs) : ∀ (n : Nat) (k x : Key), x ∈ missingAbove m n k →
    x.segs.length ≤ (parentKey k).segs.length ∧ m.lookup x = none := by
  intro n
  induction n with
  | zero => intro k x h; cases h
  | succ n ih =>
    intro k x h
    unfold missingAbove at h
    cases hp : m.lookup (parentKey k) with
    | some p => rw [hp] at h; simp at h
    | none =>
      rw [hp] at h
      simp only [Option.isSome_none, Bool.false_eq_true, if_false, List.mem_cons] at h
      rcases h with h | h
      · rw [h]; exact ⟨Nat.le_refl _, hp⟩
      · obtain ⟨a, b⟩ := ih _ _ h
        exact ⟨Nat.le_trans a (parentKey_length_le _), b⟩

/-- entering an object in the index of a directory changes no name's look -/
theorem view_regInto (m : MemFs) (f p : Nat) (h : (m.obj p).memDir.isSome = true) : view (m.regInto f p) = view m := by
  funext k'
  refine view_congr m _ k' k' (lookup_regInto _ _ _ _) (fun j _ => ?_)
  unfold regInto
  have hn : (m.obj p).memDir.isNone = false := by
    cases hm : (m.obj p).memDir with
    | none => rw [hm] at h; cases h
    | some d => rfl
  simp only [hn, Bool.false_eq_true, if_false]
  refine nodeOf_setObj_idx m p _ ?_ ?_ ?_ j <;> rfl

theorem memDir_regInto (m : MemFs) (f p j : Nat) (h : (m.obj j).memDir.isSome = true) :
    ((m.regInto f p).obj j).memDir.isSome = true := by
  unfold regInto
  simp only
  rcases obj_setObj_cases m p
    { (if (m.obj p).memDir.isNone then { m.obj p with dir := true, memDir := some [] } else m.obj p) with
      memDir := (if (m.obj p).memDir.isNone then { m.obj p with dir := true, memDir := some [] } else m.obj p).memDir.map
        fun d => alInsert d (m.obj f).name f } j with e | ⟨e, hj, _⟩
  · rw [e]; exact h
  · rw [e]
    subst hj
    have hn : (m.obj j).memDir.isNone = false := by
      cases hm : (m.obj j).memDir with
      | none => rw [hm] at h; cases h
      | some d => rfl
    simp only [hn, Bool.false_eq_true, if_false, Option.isSome_map]
    exact h

/-- a directory index, once there, stays through `registerWithParent` -/
theorem reg_memDir (perm : Nat) (fuel : Nat) : ∀ (m : MemFs) (f j : Nat), j < m.objs.length →
    (m.obj j).memDir.isSome = true → ((registerWithParent fuel m f perm).obj j).memDir.isSome = true := by
  induction fuel with
  | zero => intro m f j _ h; exact h
  | succ n ih =>
    intro m f j hj h
    cases hp : m.lookup (parentKey (m.obj f).name) with
    | some p => rw [registerWithParent_some _ _ _ _ p hp]; exact memDir_regInto m f p j h
    | none =>
      have ex := reg_ext n (m.pend (parentKey (m.obj f).name)
        { (m.newDir (parentKey (m.obj f).name)) with mode := modeDir ||| perm }) m.objs.length perm
      have hl2 : (m.pend (parentKey (m.obj f).name)
          { (m.newDir (parentKey (m.obj f).name)) with mode := modeDir ||| perm }).lookup (parentKey (m.obj f).name)
          = some m.objs.length := by rw [lookup_pend]; simp
      rw [registerWithParent_none _ _ _ _ m.objs.length hp (ex.look _ _ hl2)]
      apply memDir_regInto
      apply ih
      · rw [length_pend]; omega
      · rw [obj_pend_old _ _ _ _ hj]; exact h

/-- **what `registerWithParent` does to the view**: the missing ancestors of the object's name appear as
    directories with the bits `perm`; every other name shows what it did — provided the nearest existing ancestor
    is a directory -/
theorem reg_view (perm : Nat) (fuel : Nat) : ∀ (m : MemFs) (f : Nat), InRange m → (m.lookup rootKey).isSome = true →
    nearestIsDir m fuel (m.obj f).name = true →
    ∀ k', view (registerWithParent fuel m f perm) k' =
      if k' ∈ missingAbove m fuel (m.obj f).name then some (.dir (modeDir ||| perm)) else view m k' := by
  induction fuel with
  | zero => intro m f _ _ _ k'; simp [missingAbove, registerWithParent]
  | succ n ih =>
    intro m f hr hroot hnd k'
    cases hp : m.lookup (parentKey (m.obj f).name) with
    | some p =>
      rw [registerWithParent_some _ _ _ _ p hp]
      unfold nearestIsDir at hnd
      rw [hp] at hnd
      simp only at hnd
      rw [view_regInto m f p hnd]
      unfold missingAbove
      simp [hp]
    | none =>
      generalize hpk : parentKey (m.obj f).name = pk at hp
      generalize hD : ({ (m.newDir pk) with mode := modeDir ||| perm } : FData) = D
      have hDn : D.name = pk := by rw [← hD]; rfl
      have hDm : D.memDir = some [] := by rw [← hD]; rfl
      have hDnode : nodeOf D = .dir (modeDir ||| perm) := by rw [← hD]; rfl
      have ex := reg_ext n (m.pend pk D) m.objs.length perm
      have hl2 : (m.pend pk D).lookup pk = some m.objs.length := by rw [lookup_pend]; simp
      have h3 := ex.look _ _ hl2
      have hreg : registerWithParent (n + 1) m f perm =
          (registerWithParent n (m.pend pk D) m.objs.length perm).regInto f m.objs.length := by
        have := registerWithParent_none n m f perm m.objs.length (by rw [hpk]; exact hp)
          (by rw [hpk, hD]; exact h3)
        rw [hpk, hD] at this
        exact this
      rw [hreg]
      -- the new directory keeps its index
      have hmd : ((registerWithParent n (m.pend pk D) m.objs.length perm).obj m.objs.length).memDir.isSome = true := by
        apply reg_memDir
        · rw [length_pend]; omega
        · rw [obj_pend_new, hDm]; rfl
      rw [view_regInto _ f m.objs.length hmd]
      -- pk has segments: the root exists
      have hpkseg : pk.segs ≠ [] := by
        intro e
        have : pk = rootKey := by rw [← hpk]; apply parentKey_nil_root; rw [hpk]; exact e
        rw [this] at hp; rw [hp] at hroot; cases hroot
      have hlt := parentKey_length_lt pk hpkseg
      have hlk : ∀ x : Key, x.segs.length < pk.segs.length → (m.pend pk D).lookup x = m.lookup x := by
        intro x hx
        rw [lookup_pend]
        have : x ≠ pk := by intro e; rw [e] at hx; exact Nat.lt_irrefl _ hx
        simp [this]
      have hob : ∀ x q, m.lookup x = some q → (m.pend pk D).obj q = m.obj q :=
        fun x q hq => obj_pend_old _ _ _ _ (hr _ _ hq)
      have hnm : ((m.pend pk D).obj m.objs.length).name = pk := by rw [obj_pend_new]; exact hDn
      have hr1 : InRange (m.pend pk D) := inRange_alloc_insert m hr D pk
      have hroot1 : ((m.pend pk D).lookup rootKey).isSome = true := by
        rw [lookup_pend]
        have : rootKey ≠ pk := by intro e; rw [← e] at hpkseg; exact hpkseg rfl
        simp [this, hroot]
      have hnd1 : nearestIsDir (m.pend pk D) n ((m.pend pk D).obj m.objs.length).name = true := by
        rw [hnm, nearestIsDir_congr m _ pk.segs.length hlk hob n pk hlt]
        unfold nearestIsDir at hnd
        rw [hpk, hp] at hnd
        exact hnd
      have IH := ih (m.pend pk D) m.objs.length hr1 hroot1 hnd1 k'
      rw [hnm, missingAbove_congr m _ pk.segs.length hlk n pk hlt] at IH
      rw [IH]
      have hmiss : missingAbove m (n + 1) (m.obj f).name = pk :: missingAbove m n pk := by
        show (if (m.lookup (parentKey (m.obj f).name)).isSome then [] else _) = _
        rw [hpk, hp]; rfl
      rw [hmiss]
      by_cases hk1 : k' ∈ missingAbove m n pk
      · rw [if_pos hk1, if_pos (List.mem_cons_of_mem _ hk1)]
      · rw [if_neg hk1]
        by_cases hk2 : k' = pk
        · rw [if_pos (by rw [hk2]; exact List.mem_cons_self), hk2, view_some _ pk _ hl2, obj_pend_new, hDnode]
        · rw [if_neg (by simp [hk1, hk2])]
          refine view_congr m _ k' k' (by rw [lookup_pend]; simp [hk2]) (fun g hg => ?_)
          rw [obj_pend_old _ _ _ _ (hr _ _ hg)]

/-- the directories `Mkdir(k)` / `MkdirAll(k)` make ABOVE a missing name `k`: its missing ancestors -/
def missingDirs (m : MemFs) (k : Key) : List Key := missingAbove m (k.segs.length + 2) k

/-- the nearest existing ancestor of `k` is a directory -/
def aboveIsDir (m : MemFs) (k : Key) : Bool := nearestIsDir m (k.segs.length + 2) k

/-- **`Mkdir` of a missing name, however many directory levels are missing above it**: success; the name and its
    missing ancestors show directories with the requested bits, every other name shows what it did -/
theorem mkdir_deep_view (m : MemFs) (hc : Consistent m) (k : Key) (perm : Nat) (hnew : m.lookup k = none)
    (hk : k.segs ≠ []) (hnd : aboveIsDir m k = true) :
    (m.mkdir k perm).2 = .ok ∧
    (∀ k', view (m.mkdir k perm).1 k' =
      if k' = k ∨ k' ∈ missingDirs m k then some (.dir ((perm &&& chmodBits) ||| modeDir)) else view m k') ∧
    ∃ n pd, (m.mkdir k perm).1.lookup k = some n ∧ ((m.mkdir k perm).1.obj n).memDir = some pd := by
  generalize hD : ({ (m.newDir k) with mode := modeDir ||| (perm &&& chmodBits) } : FData) = D
  have hDn : D.name = k := by rw [← hD]; rfl
  have hDm : D.memDir = some [] := by rw [← hD]; rfl
  have hDnode : nodeOf D = .dir (modeDir ||| (perm &&& chmodBits)) := by rw [← hD]; rfl
  have hnm : ((m.pend k D).obj m.objs.length).name = k := by rw [obj_pend_new]; exact hDn
  have hfuel : (m.pend k D).regFuel m.objs.length = k.segs.length + 2 := by unfold regFuel; rw [hnm]
  have hcR := consistent_pend_reg m hc k D (perm &&& chmodBits) hnew hk hDn (Or.inr hDm)
  have hU := mkdir_unfold m k perm hnew
  rw [hD] at hU
  generalize hR : registerWithParent ((m.pend k D).regFuel m.objs.length) (m.pend k D) m.objs.length
    (perm &&& chmodBits) = R at hU hcR
  have ex := reg_ext ((m.pend k D).regFuel m.objs.length) (m.pend k D) m.objs.length (perm &&& chmodBits)
  rw [hR] at ex
  have hl2 : (m.pend k D).lookup k = some m.objs.length := by rw [lookup_pend]; simp
  have hlR : R.lookup k = some m.objs.length := ex.look _ _ hl2
  have hlenR : m.objs.length < R.objs.length := hcR.inRange _ _ hlR
  -- the view after registerWithParent
  have hr : InRange m := hc.inRange
  have hlt := parentKey_length_lt k hk
  have hlk : ∀ x : Key, x.segs.length < k.segs.length → (m.pend k D).lookup x = m.lookup x := by
    intro x hx
    rw [lookup_pend]
    have : x ≠ k := by intro e; rw [e] at hx; exact Nat.lt_irrefl _ hx
    simp [this]
  have hob : ∀ x q, m.lookup x = some q → (m.pend k D).obj q = m.obj q :=
    fun x q hq => obj_pend_old _ _ _ _ (hr _ _ hq)
  have hroot1 : ((m.pend k D).lookup rootKey).isSome = true := by
    obtain ⟨r, hr1, _⟩ := hc.root
    rw [lookup_pend]
    have : rootKey ≠ k := by intro e; rw [← e] at hk; exact hk rfl
    simp [this, hr1]
  have hnd1 : nearestIsDir (m.pend k D) ((m.pend k D).regFuel m.objs.length) ((m.pend k D).obj m.objs.length).name = true := by
    rw [hfuel, hnm, nearestIsDir_congr m _ k.segs.length hlk hob _ k hlt]; exact hnd
  have hvR : ∀ k', view R k' =
      if k' ∈ missingDirs m k then some (.dir (modeDir ||| (perm &&& chmodBits)))
      else if k' = k then some (.dir (modeDir ||| (perm &&& chmodBits))) else view m k' := by
    intro k'
    have := reg_view (perm &&& chmodBits) ((m.pend k D).regFuel m.objs.length) (m.pend k D) m.objs.length
      (inRange_alloc_insert m hr D k) hroot1 hnd1 k'
    rw [hR, hnm, hfuel, missingAbove_congr m _ k.segs.length hlk _ k hlt] at this
    rw [this]
    unfold missingDirs
    by_cases h1 : k' ∈ missingAbove m (k.segs.length + 2) k
    · rw [if_pos h1, if_pos h1]
    · rw [if_neg h1, if_neg h1]
      by_cases h2 : k' = k
      · rw [if_pos h2, h2, view_some _ k _ hl2, obj_pend_new, hDnode]
      · rw [if_neg h2]
        refine view_congr m _ k' k' (by rw [lookup_pend]; simp [h2]) (fun g hg => ?_)
        rw [obj_pend_old _ _ _ _ (hr _ _ hg)]
  have hknot : k ∉ missingDirs m k := by
    intro h
    have := (mem_missingAbove_length m _ _ _ h).1
    omega
  have hdirR : (R.obj m.objs.length).dir = true := by
    have := hvR k
    rw [if_neg hknot, if_pos rfl, view_some _ k _ hlR] at this
    cases hd : (R.obj m.objs.length).dir with
    | true => rfl
    | false => rw [nodeOf_file _ hd] at this; cases this
  have hmdR : (R.obj m.objs.length).memDir.isSome = true := by
    rw [← hR]
    apply reg_memDir
    · rw [length_pend]; omega
    · rw [obj_pend_new, hDm]; rfl
  rw [setFileMode_found R k _ m.objs.length hlR] at hU
  simp only at hU
  rw [hU]
  refine ⟨rfl, fun k' => ?_, m.objs.length, ?_⟩
  · show view (R.setObj m.objs.length { R.obj m.objs.length with mode := (perm &&& chmodBits) ||| modeDir }) k' = _
    rw [view_setObj_at R m.objs.length _ k hlenR (fun x hx => hcR.inj _ _ _ hx hlR) hlR k']
    by_cases h2 : k' = k
    · rw [if_pos h2, if_pos (Or.inl h2), nodeOf_dir _ (by exact hdirR)]
    · rw [if_neg h2, hvR k', if_neg h2]
      by_cases h1 : k' ∈ missingDirs m k
      · rw [if_pos h1, if_pos (Or.inr h1), Nat.or_comm]
      · rw [if_neg h1, if_neg (by simp [h1, h2])]
  · show ∃ pd, (R.setObj m.objs.length _).lookup k = some m.objs.length ∧
      ((R.setObj m.objs.length { R.obj m.objs.length with mode := (perm &&& chmodBits) ||| modeDir }).obj m.objs.length).memDir = some pd
    rw [obj_setObj_self _ _ _ hlenR]
    cases hq : (R.obj m.objs.length).memDir with
    | none => rw [hq] at hmdR; cases hmdR
    | some pd => exact ⟨pd, hlR, rfl⟩

theorem mkdirAll_deep_view (m : MemFs) (hc : Consistent m) (k : Key) (perm : Nat) (hnew : m.lookup k = none)
    (hk : k.segs ≠ []) (hnd : aboveIsDir m k = true) :
    (m.mkdirAll k perm).2 = .ok ∧
    (∀ k', view (m.mkdirAll k perm).1 k' =
      if k' = k ∨ k' ∈ missingDirs m k then some (.dir ((perm &&& chmodBits) ||| modeDir)) else view m k') ∧
    ∃ n pd, (m.mkdirAll k perm).1.lookup k = some n ∧ ((m.mkdirAll k perm).1.obj n).memDir = some pd := by
  obtain ⟨h1, h2, h3⟩ := mkdir_deep_view m hc k perm hnew hk hnd
  have e : m.mkdirAll k perm = ((m.mkdir k perm).1, .ok) := by
    unfold mkdirAll
    generalize m.mkdir k perm = r at h1
    obtain ⟨m', res⟩ := r
    simp only at h1
    subst h1
    rfl
  rw [e]
  exact ⟨rfl, h2, h3⟩

end MemFs

/-! ### (1c) the copy-up when several directory levels are missing in the overlay -/

/-- (c) the overlay lacks the directory the file lies in and any number of directories above it; the nearest
    ancestor the overlay does hold is a directory: `copyFile` makes all the missing levels with
    `MkdirAll(dir, 0777)` -/
structure BaseOnlyFileDeep (c : Cow) (p : Str) (bo : Nat) : Prop where
  cons : Consistent c.s.l
  noLayer : c.s.l.lookup (keyOfStr p) = none
  base : c.s.b.lookup (keyOfStr p) = some bo
  file : (c.s.b.obj bo).dir = false
  noDir : c.s.l.lookup (keyOfStr (Path.dir p)) = none
  dirIsParent : parentKey (keyOfStr p) = keyOfStr (Path.dir p)
  above : aboveIsDir c.s.l (keyOfStr (Path.dir p)) = true

/-- the name is none of the directories made above it -/
theorem not_mem_missingDirs_child (m : MemFs) (k dk : Key) (hk : k.segs ≠ []) (hdk : dk.segs ≠ [])
    (hpk : parentKey k = dk) : k ≠ dk ∧ k ∉ missingDirs m dk := by
  have h1 := parentKey_length_lt k hk
  rw [hpk] at h1
  refine ⟨fun e => by rw [e] at h1; exact Nat.lt_irrefl _ h1, fun h => ?_⟩
  have := (mem_missingAbove_length m _ _ _ h).1
  have h2 := parentKey_length_lt dk hdk
  omega

/-- the overlay after `MkdirAll(dir, 0777)` of all the missing levels -/
theorem overlay_mkdirAll_deep (L : MemFs) (hc : Consistent L) (k dk : Key) (hnk : normKey k = k) (hndk : normKey dk = dk)
    (hl : L.lookup k = none) (hdl : L.lookup dk = none) (hpk : parentKey k = dk) (habove : aboveIsDir L dk = true) :
    (L.mkdirAll dk 0o777).2 = .ok ∧ Consistent (L.mkdirAll dk 0o777).1 ∧ (L.mkdirAll dk 0o777).1.lookup k = none ∧
    ParentDir (L.mkdirAll dk 0o777).1 k ∧
    ∀ k', view (L.mkdirAll dk 0o777).1 k' =
      if k' = dk ∨ k' ∈ missingDirs L dk then some (.dir ((0o777 &&& chmodBits) ||| modeDir)) else view L k' := by
  have hdks := missing_has_segs L hc dk hndk hdl
  have hks := missing_has_segs L hc k hnk hl
  obtain ⟨m1, m2, n, pd, m3, m4⟩ := mkdirAll_deep_view L hc dk 0o777 hdl hdks habove
  obtain ⟨hne, hnm⟩ := not_mem_missingDirs_child L k dk hks hdks hpk
  refine ⟨m1, consistent_mkdirAll_deep L hc dk 0o777 hdks, ?_, ⟨n, pd, by rw [hpk]; exact m3, m4⟩, m2⟩
  rw [← view_eq_none, m2, if_neg (by simp [hne, hnm])]
  exact view_none _ _ hl

theorem BaseOnlyFileDeep.view_withDirOf {c : Cow} {p : Str} {bo : Nat} (h : BaseOnlyFileDeep c p bo) :
    BaseFileW c p bo ∧ ∀ k, view (withDirOf c.s.l p) k =
      if k = keyOfStr (Path.dir p) ∨ k ∈ missingDirs c.s.l (keyOfStr (Path.dir p))
      then some (.dir ((0o777 &&& chmodBits) ||| modeDir)) else view c.s.l k := by
  obtain ⟨hc, hl, hb, hfile, hdl, hpk, habove⟩ := h
  have hW : withDirOf c.s.l p = (c.s.l.mkdirAll (keyOfStr (Path.dir p)) 0o777).1 := by
    unfold withDirOf fsExists; rw [hdl]; rfl
  obtain ⟨_, d2, d3, d4, d5⟩ := overlay_mkdirAll_deep c.s.l hc (keyOfStr p) (keyOfStr (Path.dir p))
    (normKey_keyOfStr _) (normKey_keyOfStr _) hl hdl hpk habove
  rw [hW]
  exact ⟨⟨hl, hb, hfile, by rw [hW]; exact d2, by rw [hW]; exact d3, by rw [hW]; exact d4⟩, d5⟩

/-- **(1c) write-open of a regular file only the base holds, the overlay lacking SEVERAL directory levels above
    it**: as (1a); `copyFile` has made every missing level in the overlay with `MkdirAll(dir, 0777)` — each of
    those names (`filepath.Dir(name)` and its missing ancestors, `missingDirs`) now shows a directory with the
    bits 0777, whatever bits the base's directories have; every name other than these and the file's shows what
    it did. -/
theorem cow_writeOpen_base_file_deep (c : Cow) (p : Str) (flag perm bo : Nat) (h : BaseOnlyFileDeep c p bo)
    (hm : flag &&& cowWriteMask ≠ 0) (hx : flag &&& O_EXCL = 0) :
    (c.step (.openFile p flag perm)).2 = .handle c.hs.length none ∧
    (c.step (.openFile p flag perm)).1.s.b = c.s.b ∧
    (∀ k', cowView (c.step (.openFile p flag perm)).1 k' =
      if k' = keyOfStr p then some (.file (openBytes flag (c.s.b.obj bo).data) modeTemporary)
      else if k' = keyOfStr (Path.dir p) ∨ k' ∈ missingDirs c.s.l (keyOfStr (Path.dir p))
        then some (.dir ((0o777 &&& chmodBits) ||| modeDir))
      else cowView c k') ∧
    cowView c (keyOfStr p) = some (.file (c.s.b.obj bo).data (c.s.b.obj bo).mode) := by
  obtain ⟨hW, hv⟩ := h.view_withDirOf
  obtain ⟨h1, h2, h3⟩ := cow_writeOpen_base_W c p flag perm bo hW hm hx
  refine ⟨h1, h2, fun k' => ?_, hW.view_before⟩
  rw [h3 k']
  by_cases hk : k' = keyOfStr p
  · rw [if_pos hk, if_pos hk]
  · rw [if_neg hk, if_neg hk]
    unfold cowViewOver cowView
    rw [hv k']
    by_cases hk2 : k' = keyOfStr (Path.dir p) ∨ k' ∈ missingDirs c.s.l (keyOfStr (Path.dir p))
    · rw [if_pos hk2, if_pos hk2]
    · rw [if_neg hk2, if_neg hk2]; rfl

/-! ### (4) a failing write-open when several overlay directory levels are missing -/

/-- **(4a) neither layer has a directory under `filepath.Dir(name)`** — however many levels are missing: a
    write-open (O_CREATE or not) of a name the base lacks answers not-exist and leaves both layers and the handle
    table literally as they were; so every name shows what it did.  (`openFile_absent_write_noparent`, restated
    for the view.) -/
theorem cow_writeOpen_fails_no_dir (c : Cow) (p : Str) (flag perm : Nat)
    (hb : c.s.b.lookup (keyOfStr p) = none) (hm : flag &&& cowWriteMask ≠ 0)
    (hd : c.s.l.lookup (keyOfStr (Path.dir p)) = none)
    (hbd : (fsIsDir c.s.b (keyOfStr (Path.dir p))).1 = false) :
    (c.step (.openFile p flag perm)).2 = .err .notexist ∧ (c.step (.openFile p flag perm)).1 = c ∧
    ∀ k, cowView (c.step (.openFile p flag perm)).1 k = cowView c k := by
  rw [openFile_absent_write_noparent c p flag perm hb hm hd hbd]
  exact ⟨rfl, rfl, fun _ => rfl⟩

/-- **(4b) the base holds `filepath.Dir(name)` as a directory, the overlay lacks it and any number of levels
    above it**: a write-open without O_CREATE of a name neither layer has answers not-exist and leaves the base
    as it was — but `layer.MkdirAll(dir, 0777)` has run first: the directory and each of its ancestors the overlay
    lacked (`missingDirs`) now show directories with the bits 0777 instead of the base's; every other name shows
    what it did.  With the mode bits counted in, "a failed call leaves the view unchanged" is FALSE here. -/
theorem openFile_absent_write_residue_deep (c : Cow) (p : Str) (flag perm bd : Nat) (hcl : Consistent c.s.l)
    (hl : c.s.l.lookup (keyOfStr p) = none) (hb : c.s.b.lookup (keyOfStr p) = none)
    (hc : ¬ flag &&& O_CREATE > 0) (hm : flag &&& cowWriteMask ≠ 0)
    (hdl : c.s.l.lookup (keyOfStr (Path.dir p)) = none)
    (hbd : c.s.b.lookup (keyOfStr (Path.dir p)) = some bd) (hbdd : (c.s.b.obj bd).dir = true)
    (hpk : parentKey (keyOfStr p) = keyOfStr (Path.dir p))
    (habove : aboveIsDir c.s.l (keyOfStr (Path.dir p)) = true) :
    (c.step (.openFile p flag perm)).2 = .err .notexist ∧ (c.step (.openFile p flag perm)).1.s.b = c.s.b ∧
    ∀ k, cowView (c.step (.openFile p flag perm)).1 k =
      if k = keyOfStr (Path.dir p) ∨ k ∈ missingDirs c.s.l (keyOfStr (Path.dir p))
      then some (.dir ((0o777 &&& chmodBits) ||| modeDir)) else cowView c k := by
  obtain ⟨m1, _, hk1, _, m2⟩ := overlay_mkdirAll_deep c.s.l hcl (keyOfStr p) (keyOfStr (Path.dir p))
    (normKey_keyOfStr _) (normKey_keyOfStr _) hl hdl hpk habove
  have hstep : c.step (.openFile p flag perm) =
      ({ c with s := { c.s with l := (c.s.l.mkdirAll (keyOfStr (Path.dir p)) 0o777).1 } }, .err .notexist) := by
    simp only [Cow.step, Cow.openFile]
    rw [isBaseFile_of_base_none c _ hb]
    simp only [hm, ne_eq, not_false_eq_true, if_true, Bool.false_eq_true, if_false]
    rw [fsIsDir_some _ _ bd hbd, hbdd]
    simp only [if_true]
    generalize c.s.l.mkdirAll (keyOfStr (Path.dir p)) 0o777 = r at m1 hk1
    obtain ⟨L1, res⟩ := r
    simp only at m1 hk1
    subst m1
    simp only
    exact layerOpenFile_err { c with s := { c.s with l := L1 } } _ flag perm _
      (C01.openFile_missing_inert L1 _ flag perm hk1 hc)
  rw [hstep]
  refine ⟨rfl, rfl, fun k => ?_⟩
  unfold cowView
  show (match view (c.s.l.mkdirAll (keyOfStr (Path.dir p)) 0o777).1 k with
    | some n => some n | none => view c.s.b k) = _
  rw [m2]
  by_cases hk : k = keyOfStr (Path.dir p) ∨ k ∈ missingDirs c.s.l (keyOfStr (Path.dir p))
  · rw [if_pos hk, if_pos hk]
  · rw [if_neg hk, if_neg hk]; rfl

/-! ### (2) O_APPEND: the payload is appended, whatever it is -/

/-- `Write` of the empty payload through a writable handle of the overlay: 0 bytes, no error, no name changes -/
theorem cow_layer_handle_write_nil (c2 : Cow) (h idx : Nat) (mh : MHandle)
    (hh : c2.hs[h]? = some (.layer idx)) (hm : c2.s.l.handles[idx]? = some mh)
    (hcl : mh.h.closed = false) (hr : mh.h.readOnly = false) :
    (c2.step (.hWrite h [])).2 = .file (.n 0 none) ∧ (c2.step (.hWrite h [])).1.s.b = c2.s.b ∧
    view (c2.step (.hWrite h [])).1.s.l = view c2.s.l := by
  rw [cow_step_layer c2 (.hWrite h []) h idx rfl hh]
  have hw : writeC (c2.s.l.obj mh.obj).data mh.h [] = ((c2.s.l.obj mh.obj).data, mh.h, .n 0 none) := by
    unfold writeC; simp only [hcl, hr, Bool.false_eq_true, if_false, if_true]
  refine ⟨?_, rfl, ?_⟩
  · show (c2.s.l.hWrite idx []).2 = _
    unfold MemFs.hWrite MemFs.fileIO
    simp only [hm]
    rw [hw]
  · show view (c2.s.l.hWrite idx []).1 = _
    unfold MemFs.hWrite MemFs.fileIO
    simp only [hm]
    rw [hw]
    funext k'
    show view (c2.s.l.setObj mh.obj ((c2.s.l.obj mh.obj).withIO (c2.s.l.obj mh.obj).data (true && true) c2.s.l.now)) k' = _
    refine view_congr c2.s.l _ k' k' (lookup_setObj _ _ _ _) (fun j _ => ?_)
    refine nodeOf_setObj_idx c2.s.l mh.obj _ ?_ ?_ ?_ j <;> rfl

theorem not_truncates_of_no_trunc (flag : Nat) (ht : flag &&& O_TRUNC = 0) : ¬ truncates flag := by
  unfold truncates
  intro h
  rw [ht] at h
  exact absurd h.1 (Nat.lt_irrefl 0)

/-- **(2) O_APPEND (with a write access mode, without O_TRUNC) on a regular file only the base holds, then
    `Write(d)` through the returned handle — any payload, the empty one included**: the handle stands at the end of
    the copied bytes, so the write answers `len(d)` and the name shows `old ++ d` (`old` the base's bytes, which
    the base keeps); every other name shows what it showed after the open. -/
theorem cow_appendOpen_base_then_write (c : Cow) (p : Str) (flag perm bo : Nat) (d : Bytes) (h : BaseFileW c p bo)
    (hm : flag &&& cowWriteMask ≠ 0) (hx : flag &&& O_EXCL = 0)
    (hacc : flag &&& (O_WRONLY ||| O_RDWR) ≠ 0) (ha : flag &&& O_APPEND > 0) (ht : flag &&& O_TRUNC = 0) :
    ((c.step (.openFile p flag perm)).1.step (.hWrite c.hs.length d)).2 = .file (.n d.length none) ∧
    ((c.step (.openFile p flag perm)).1.step (.hWrite c.hs.length d)).1.s.b = c.s.b ∧
    cowView ((c.step (.openFile p flag perm)).1.step (.hWrite c.hs.length d)).1 (keyOfStr p) =
      some (.file ((c.s.b.obj bo).data ++ d) modeTemporary) ∧
    ∀ k', k' ≠ keyOfStr p →
      cowView ((c.step (.openFile p flag perm)).1.step (.hWrite c.hs.length d)).1 k' =
        cowView (c.step (.openFile p flag perm)).1 k' := by
  have hnt := not_truncates_of_no_trunc flag ht
  by_cases hd : d = []
  · subst hd
    obtain ⟨c1, lf, idx, e, hb, hhs, hc1, hl1, hh1, hf1, hd1, hm1, hv⟩ :=
      cow_writeOpen_base_core c p flag perm bo h.noLayer h.base h.file hm hx h.consW h.newW h.parentW
    rw [e]
    show (c1.step _).2 = _ ∧ (c1.step _).1.s.b = _ ∧ cowView (c1.step _).1 _ = _ ∧
      ∀ k', k' ≠ keyOfStr p → cowView (c1.step _).1 k' = cowView c1 k'
    obtain ⟨w1, w2, w3⟩ := cow_layer_handle_write_nil c1 c.hs.length idx _ (by rw [hhs]; simp) hh1 rfl
      (by unfold openHandle; simp [hacc])
    have hcv := cowView_congr c1 _ w3 (by rw [w2])
    refine ⟨w1, by rw [w2, hb], ?_, fun k' _ => hcv k'⟩
    rw [hcv, List.append_nil]
    unfold cowView
    rw [hv, if_pos rfl]
    unfold openBytes
    rw [if_neg hnt]
  · obtain ⟨h1, h2, h3, h4⟩ := cow_writeOpen_base_then_write c p flag perm bo d h hm hx hacc hd
    rw [firstWrite_append flag _ d ha hnt] at h3
    exact ⟨h1, h2, h3, h4⟩

/-- … and on a regular file the overlay holds: the name shows `old ++ d`, `old` the overlay's bytes before the
    open; the base is what it was; every other name shows what it did -/
theorem cow_appendOpen_overlay_then_write (c : Cow) (p : Str) (flag perm lf : Nat) (d : Bytes) (h : OverlayFile c p lf)
    (hm : flag &&& cowWriteMask ≠ 0) (hx : flag &&& O_EXCL = 0)
    (hacc : flag &&& (O_WRONLY ||| O_RDWR) ≠ 0) (ha : flag &&& O_APPEND > 0) (ht : flag &&& O_TRUNC = 0) :
    ((c.step (.openFile p flag perm)).1.step (.hWrite c.hs.length d)).2 = .file (.n d.length none) ∧
    ((c.step (.openFile p flag perm)).1.step (.hWrite c.hs.length d)).1.s.b = c.s.b ∧
    cowView ((c.step (.openFile p flag perm)).1.step (.hWrite c.hs.length d)).1 (keyOfStr p) =
      some (.file ((c.s.l.obj lf).data ++ d) (c.s.l.obj lf).mode) ∧
    ∀ k', k' ≠ keyOfStr p →
      cowView ((c.step (.openFile p flag perm)).1.step (.hWrite c.hs.length d)).1 k' = cowView c k' := by
  have hnt := not_truncates_of_no_trunc flag ht
  by_cases hd : d = []
  · subst hd
    obtain ⟨c1, e, hb, hhs, hc1, hl1, hh1, hf1, hd1, hm1, hv⟩ := cow_writeOpen_overlay_core c p flag perm lf h hm hx
    rw [e]
    show (c1.step _).2 = _ ∧ (c1.step _).1.s.b = _ ∧ cowView (c1.step _).1 _ = _ ∧
      ∀ k', k' ≠ keyOfStr p → cowView (c1.step _).1 k' = cowView c k'
    obtain ⟨w1, w2, w3⟩ := cow_layer_handle_write_nil c1 c.hs.length c.s.l.handles.length _ (by rw [hhs]; simp) hh1 rfl
      (by unfold openHandle; simp [hacc])
    have hcv := cowView_congr c1 _ w3 (by rw [w2])
    refine ⟨w1, by rw [w2, hb], ?_, fun k' hk => ?_⟩
    · rw [hcv, List.append_nil]
      unfold cowView
      rw [hv, if_pos rfl]
      unfold openBytes
      rw [if_neg hnt]
    · rw [hcv]
      unfold cowView
      rw [hv, if_neg hk, hb]
  · obtain ⟨h1, h2, h3, h4⟩ := cow_writeOpen_overlay_then_write c p flag perm lf d h hm hx hacc hd
    rw [firstWrite_append flag _ d ha hnt] at h3
    exact ⟨h1, h2, h3, h4⟩

end AferoVerif
