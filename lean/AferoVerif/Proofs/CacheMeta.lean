/-
  Property C11, the situations `CoveredOp` (Proofs/CacheCoherent.lean) leaves out.

  Part A  coherence is a property of the two views (`coherent_iff_view`); which names `MkdirAll` adds
          (`reg_new_keys`, `mkdir_new_keys`); what `copyFile` leaves behind in the cache layer —
          `copyFile_dir_layer` (the base object is a directory: i/o error, the view is the one after
          `MkdirAll(filepath.Dir(name))`, the tree is consistent) and `copyFile_file_layer` (a regular
          file: the tree is consistent, every other name keeps its object).
  Part B  Chmod / Chown / Chtimes of a directory only the base holds (`meta_uncached_dir`): the call
          answers the i/o error of the failed copy-up, the base is not called at all, the cache layer is
          not given the call either; the directory is NOT made in the cache layer — only the directories
          above it that the layer lacked; coherence and the invariant survive.
          Where the invariant does NOT survive (concrete state, `staleDir_*`): the same call on a
          directory both layers hold whose cached entry is STALE — the copy-up replaces the layer's
          directory by a file and removes it again, orphaning its entries.
  Part C  Rename of a regular base file that is not a cache hit (`rename_uncached`, `rename_uncached_effect`):
          copied first, then moved in both layers; the layers need only be coherent off the renamed name
          (`CoherentOff`: a stale copy may hold other bytes) and are coherent afterwards.
          `renameLeaf_layerBefore_same_dir`: the layer-side precondition (stated on the layer as the copy-up
          leaves it) follows from facts about the state before the call when the rename stays in one directory.
  Part D  Rename of a cached directory with its entries (`rename_dir_cached`): both layers move the
          subtree (`refRenameDir` on both views); coherence for every name below.
  Part E  a name that is a directory in one layer and a regular file in the other: what Stat and Open
          through the cache answer.
-/
import AferoVerif.Proofs.CacheRule
import AferoVerif.Proofs.CowInert
namespace AferoVerif
open MemFs

/-! ## Part A — tools -/

namespace MemFs

theorem view_file_iff (m : MemFs) (k : Key) (d : Bytes) (md : Nat) :
    view m k = some (.file d md) ↔
      ∃ f, m.lookup k = some f ∧ (m.obj f).dir = false ∧ (m.obj f).data = d ∧ (m.obj f).mode = md := by
  constructor
  · intro h
    cases hl : m.lookup k with
    | none => rw [view_none m k hl] at h; cases h
    | some f =>
      rw [view_some m k f hl] at h
      injection h with h
      cases hd : (m.obj f).dir with
      | true => rw [nodeOf_dir _ hd] at h; cases h
      | false =>
        rw [nodeOf_file _ hd] at h
        injection h with h1 h2
        exact ⟨f, rfl, hd, h1, h2⟩
  · rintro ⟨f, hl, hd, h1, h2⟩
    rw [view_some m k f hl, nodeOf_file _ hd, h1, h2]

end MemFs

/-- **coherence is a property of the two views**: whatever the cache layer shows as a regular file,
    the base shows as a regular file with the same bytes -/
theorem coherent_iff_view (s : Layers) :
    Coherent s ↔ ∀ k d md, view s.l k = some (.file d md) → ∃ md', view s.b k = some (.file d md') := by
  constructor
  · intro h k d md hv
    obtain ⟨lf, hl, hd, h1, _⟩ := (view_file_iff _ _ _ _).1 hv
    obtain ⟨bf, a1, a2, a3⟩ := h k lf hl hd
    exact ⟨(s.b.obj bf).mode, (view_file_iff _ _ _ _).2 ⟨bf, a1, a2, by rw [a3]; exact h1, rfl⟩⟩
  · intro h k lf hl hd
    obtain ⟨md', hv⟩ := h k (s.l.obj lf).data (s.l.obj lf).mode ((view_file_iff _ _ _ _).2 ⟨lf, hl, hd, rfl, rfl⟩)
    obtain ⟨bf, a1, a2, a3, _⟩ := (view_file_iff _ _ _ _).1 hv
    exact ⟨bf, a1, a2, a3⟩

/-- coherence depends on the layers' views only -/
theorem coherent_of_views (s s' : Layers) (h : Coherent s) (hb : view s'.b = view s.b) (hl : view s'.l = view s.l) :
    Coherent s' := by
  rw [coherent_iff_view] at h ⊢
  intro k d md hv
  rw [hl] at hv; rw [hb]; exact h k d md hv

namespace MemFs

/-! ### which names `registerWithParent` / `Mkdir` add: the name itself and names above it -/

theorem reg_new_keys (perm : Nat) (fuel : Nat) : ∀ (m : MemFs) (f : Nat) (k : Key) (g : Nat),
    (registerWithParent fuel m f perm).lookup k = some g →
    m.lookup k = some g ∨ k = rootKey ∨ isUnder k (m.obj f).name = true := by
  induction fuel with
  | zero => intro m f k g h; unfold registerWithParent at h; exact Or.inl h
  | succ n ih =>
    intro m f k g h
    have hpu := parent_root_or_under (m.obj f).name
    cases hp : m.lookup (parentKey (m.obj f).name) with
    | some p =>
      rw [registerWithParent_some _ _ _ _ p hp] at h
      exact Or.inl h
    | none =>
      have hl2 : (m.pend (parentKey (m.obj f).name)
          { (m.newDir (parentKey (m.obj f).name)) with mode := modeDir ||| perm }).lookup (parentKey (m.obj f).name)
          = some m.objs.length := by rw [lookup_pend]; simp
      have hl3 := (reg_grow n _ m.objs.length perm).look _ _ hl2
      rw [registerWithParent_none _ _ _ _ m.objs.length hp hl3] at h
      have h' : (registerWithParent n (m.pend (parentKey (m.obj f).name)
          { (m.newDir (parentKey (m.obj f).name)) with mode := modeDir ||| perm }) m.objs.length perm).lookup k = some g := h
      have hnm : ((m.pend (parentKey (m.obj f).name)
          { (m.newDir (parentKey (m.obj f).name)) with mode := modeDir ||| perm }).obj m.objs.length).name
          = parentKey (m.obj f).name := by rw [obj_pend_new]; rfl
      rcases ih _ _ k g h' with a | a | a
      · rw [lookup_pend] at a
        by_cases hk : k = parentKey (m.obj f).name
        · rcases hpu with e | e
          · exact Or.inr (Or.inl (hk.trans e))
          · exact Or.inr (Or.inr (by rw [hk]; exact e))
        · rw [if_neg hk] at a; exact Or.inl a
      · exact Or.inr (Or.inl a)
      · rw [hnm] at a
        rcases hpu with e | e
        · rw [e, not_isUnder_root] at a; cases a
        · exact Or.inr (Or.inr (isUnder_trans _ _ _ a e))

theorem lookup_setFileMode (m : MemFs) (k : Key) (mode : Nat) (k' : Key) :
    (m.setFileMode k mode).1.lookup k' = m.lookup k' := (metaSame_setFileMode m k mode).look k'

/-- **the names `Mkdir` adds** are the name itself and names above it -/
theorem mkdir_new_keys (m : MemFs) (dk : Key) (perm : Nat) (k : Key) (g : Nat)
    (h : (m.mkdir dk perm).1.lookup k = some g) :
    m.lookup k = some g ∨ k = dk ∨ k = rootKey ∨ isUnder k dk = true := by
  unfold mkdir at h
  simp only at h
  cases hl : m.lookup dk with
  | some f => rw [hl] at h; exact Or.inl h
  | none =>
    rw [hl] at h
    simp only at h
    have h2 : ((registerWithParent ((m.pend dk { (m.newDir dk) with mode := modeDir ||| (perm &&& chmodBits) }).regFuel m.objs.length)
        (m.pend dk { (m.newDir dk) with mode := modeDir ||| (perm &&& chmodBits) }) m.objs.length (perm &&& chmodBits)).setFileMode dk
          ((perm &&& chmodBits) ||| modeDir)).1.lookup k = some g := by
      revert h
      unfold pend alloc
      simp only
      split <;> rename_i heq <;> rw [heq] <;> exact fun h => h
    rw [lookup_setFileMode] at h2
    have hnm : ((m.pend dk { (m.newDir dk) with mode := modeDir ||| (perm &&& chmodBits) }).obj m.objs.length).name = dk := by
      rw [obj_pend_new]; rfl
    rcases reg_new_keys _ _ _ _ k g h2 with a | a | a
    · rw [lookup_pend] at a
      by_cases hk : k = dk
      · exact Or.inr (Or.inl hk)
      · rw [if_neg hk] at a; exact Or.inl a
    · exact Or.inr (Or.inr (Or.inl a))
    · rw [hnm] at a; exact Or.inr (Or.inr (Or.inr a))

end MemFs
end AferoVerif

namespace AferoVerif
open MemFs

/-! ### the cache layer after `copyFile`'s first step (`MkdirAll(filepath.Dir(name))` if the layer lacks it) -/

theorem mkdir_fst_new (m : MemFs) (k : Key) (perm : Nat) (hnew : m.lookup k = none) :
    (m.mkdir k perm).1 =
      ((registerWithParent
          ((m.pend k { (m.newDir k) with mode := modeDir ||| (perm &&& chmodBits) }).regFuel m.objs.length)
          (m.pend k { (m.newDir k) with mode := modeDir ||| (perm &&& chmodBits) }) m.objs.length
          (perm &&& chmodBits)).setFileMode k ((perm &&& chmodBits) ||| modeDir)).1 := by
  rw [mkdir_unfold m k perm hnew]
  split <;> rename_i heq <;> rw [heq]

/-- `Mkdir` of a missing name leaves the name leading to the freshly allocated object -/
theorem mkdir_lookup_self (m : MemFs) (k : Key) (perm : Nat) (hnew : m.lookup k = none) :
    (m.mkdir k perm).1.lookup k = some m.objs.length := by
  rw [mkdir_fst_new m k perm hnew, lookup_setFileMode]
  exact (reg_grow _ _ m.objs.length _).look _ _ (by rw [lookup_pend, if_pos rfl])

theorem consistent_withDirOf (L : MemFs) (hc : Consistent L) (name : Str) : Consistent (withDirOf L name) := by
  unfold withDirOf
  split
  · exact hc
  · rw [mkdirAll_fst]; exact consistent_mkdir L hc _ (normKey_keyOfStr _) _

theorem keysNodup_withDirOf (L : MemFs) (hk : KeysNodup L) (name : Str) : KeysNodup (withDirOf L name) := by
  unfold withDirOf
  split
  · exact hk
  · exact keysNodup_mkdirAll _ _ _ hk

theorem objsOK_withDirOf (L : MemFs) (ho : ObjsOK L) (name : Str) : ObjsOK (withDirOf L name) := by
  unfold withDirOf
  split
  · exact ho
  · exact objsOK_mkdirAll _ _ _ ho

/-- only directories are added -/
theorem grow_withDirOf (L : MemFs) (name : Str) : Grow L (withDirOf L name) := by
  unfold withDirOf
  split
  · exact Grow.refl L
  · exact grow_mkdirAll _ _ _

/-- **which names `copyFile`'s `MkdirAll` adds to the cache layer**: `filepath.Dir(name)` and names above it -/
theorem withDirOf_new_keys (L : MemFs) (name : Str) (k : Key) (g : Nat) (h : (withDirOf L name).lookup k = some g) :
    L.lookup k = some g ∨ k = keyOfStr (Path.dir name) ∨ k = rootKey ∨ isUnder k (keyOfStr (Path.dir name)) = true := by
  unfold withDirOf at h
  split at h
  · exact Or.inl h
  · rw [mkdirAll_fst] at h; exact mkdir_new_keys _ _ _ _ _ h

/-- a missing name (whose parent is `filepath.Dir(name)`) is still missing after that step -/
theorem withDirOf_lookup_name (L : MemFs) (hc : Consistent L) (name : Str)
    (hdk : parentKey (keyOfStr name) = keyOfStr (Path.dir name)) (hnew : L.lookup (keyOfStr name) = none) :
    (withDirOf L name).lookup (keyOfStr name) = none := by
  have hroot := ne_root_of_missing L hc _ hnew
  have hsegs := missing_has_segs L hc _ (normKey_keyOfStr name) hnew
  cases h : (withDirOf L name).lookup (keyOfStr name) with
  | none => rfl
  | some g =>
    exfalso
    rcases withDirOf_new_keys L name _ g h with a | a | a | a
    · rw [hnew] at a; cases a
    · rw [← hdk] at a; exact parentKey_ne_self _ hroot a.symm
    · exact hroot a
    · rw [← hdk] at a
      have := ((isUnder_iff _ _).1 a).2.2.1
      have := parentKey_length_lt _ hsegs
      omega

/-- … and its parent directory exists then (made by that step if the layer lacked it) -/
theorem parentDir_withDirOf (L : MemFs) (hc : Consistent L) (ho : ObjsOK L) (name : Str)
    (hdk : parentKey (keyOfStr name) = keyOfStr (Path.dir name))
    (hpd : ∀ q, L.lookup (keyOfStr (Path.dir name)) = some q → (L.obj q).dir = true) :
    ParentDir (withDirOf L name) (keyOfStr name) := by
  unfold ParentDir
  rw [hdk]
  have hsome : ∀ (M : MemFs) (q : Nat), ObjsOK M → (M.obj q).dir = true → ∃ pd, (M.obj q).memDir = some pd := by
    intro M q hM hd
    have := (hM q).1
    rw [hd] at this
    cases hm : (M.obj q).memDir with
    | none => rw [hm] at this; cases this
    | some pd => exact ⟨pd, rfl⟩
  cases hl : L.lookup (keyOfStr (Path.dir name)) with
  | some q =>
    have e : withDirOf L name = L := withDirOf_existing L name (by rw [hl]; rfl)
    rw [e]
    obtain ⟨pd, hq⟩ := hsome L q ho (hpd q hl)
    exact ⟨q, pd, hl, hq⟩
  | none =>
    have e : withDirOf L name = (L.mkdir (keyOfStr (Path.dir name)) 0o777).1 := by
      unfold withDirOf fsExists; rw [hl, ← mkdirAll_fst]; rfl
    have hl0 : (withDirOf L name).lookup (keyOfStr (Path.dir name)) = some L.objs.length := by
      rw [e]; exact mkdir_lookup_self L _ _ hl
    have hin := (consistent_withDirOf L hc name).inRange _ _ hl0
    have hd : ((withDirOf L name).obj L.objs.length).dir = true := by
      cases hdd : ((withDirOf L name).obj L.objs.length).dir with
      | true => rfl
      | false =>
        have := ((grow_withDirOf L name).reg _ hin hdd).1
        omega
    obtain ⟨pd, hq⟩ := hsome _ _ (objsOK_withDirOf L ho name) hd
    exact ⟨L.objs.length, pd, hl0, hq⟩

theorem copyFile_dir_eq (b L : MemFs) (name : Str) (bo : Nat) (hdir : (b.obj bo).dir = true) :
    copyFile b L name bo =
      (((((withDirOf L name).create (keyOfStr name)).1.setObj ((withDirOf L name).create (keyOfStr name)).2
          ((((withDirOf L name).create (keyOfStr name)).1.obj ((withDirOf L name).create (keyOfStr name)).2).withIO [] false
            ((withDirOf L name).create (keyOfStr name)).1.now)).remove (keyOfStr name)).1, some .io) := by
  unfold copyFile copyFileFrom withDirOf
  simp only [hdir, Bool.not_true, Bool.false_and, Bool.false_eq_true, if_false, List.length_nil, if_true]
  rw [if_pos (by decide : (42:Nat) ≠ 0)]
  simp

/-- **the copy-up of a directory, at any depth.**  `name` is a directory of the base (`bo`), missing in the
    cache layer `L` (a consistent tree); `filepath.Dir(name)` is the key's parent and, where the layer holds
    it, a directory.  Then `copyFile` answers the i/o error (the size check fails: no byte is read from a
    directory handle); the layer it leaves shows exactly what the layer showed after `copyFile`'s first step,
    `MkdirAll(filepath.Dir(name), 0777)` (`withDirOf`: the layer itself when it held that directory); the name
    is still missing (the file made for the copy is removed again); the tree is consistent. -/
theorem copyFile_dir_layer (b L : MemFs) (name : Str) (bo : Nat) (hdir : (b.obj bo).dir = true)
    (hc : Consistent L) (hk : KeysNodup L) (ho : ObjsOK L)
    (hnew : L.lookup (keyOfStr name) = none)
    (hdk : parentKey (keyOfStr name) = keyOfStr (Path.dir name))
    (hpd : ∀ q, L.lookup (keyOfStr (Path.dir name)) = some q → (L.obj q).dir = true) :
    (copyFile b L name bo).2 = some .io ∧ view (copyFile b L name bo).1 = view (withDirOf L name) ∧
    (copyFile b L name bo).1.lookup (keyOfStr name) = none ∧
    Consistent (copyFile b L name bo).1 ∧ KeysNodup (copyFile b L name bo).1 ∧ ObjsOK (copyFile b L name bo).1 := by
  have hc0 := consistent_withDirOf L hc name
  have hnew0 := withDirOf_lookup_name L hc name hdk hnew
  have hpar0 := parentDir_withDirOf L hc ho name hdk hpd
  obtain ⟨h1, h2⟩ := copyFile_dir_fails_gen b L name bo hdir hc0 hnew0 hpar0
  refine ⟨h1, h2, ?_, ?_, ?_, ?_⟩
  · rw [← view_eq_none, h2, view_eq_none]; exact hnew0
  all_goals rw [copyFile_dir_eq b L name bo hdir]
  · obtain ⟨p, pd, hp, hpd'⟩ := hpar0
    have hpr := hc0.inRange _ _ hp
    have hpk : parentKey (keyOfStr name) ≠ keyOfStr name := by intro e; rw [e, hnew0] at hp; cases hp
    have hroot := ne_root_of_missing _ hc0 _ hnew0
    rw [create_new_eq_attach _ (keyOfStr name) p pd hnew0 hp hpd' hpk hpr]
    simp only
    have hcA : Consistent ((withDirOf L name).attach (keyOfStr name) ((withDirOf L name).newFile (keyOfStr name)) p) :=
      consistent_attach _ hc0 _ _ p pd hnew0 hroot hpk hp hpd' rfl (Or.inl rfl)
    have hoA := obj_attach_new (withDirOf L name) (keyOfStr name) ((withDirOf L name).newFile (keyOfStr name)) p hpr
    have hlen : (withDirOf L name).objs.length <
        ((withDirOf L name).attach (keyOfStr name) ((withDirOf L name).newFile (keyOfStr name)) p).objs.length := by
      rw [length_attach]; exact Nat.lt_succ_self _
    refine consistent_remove _ (consistent_setObj_meta _ hcA (withDirOf L name).objs.length
        ((((withDirOf L name).attach (keyOfStr name) ((withDirOf L name).newFile (keyOfStr name)) p).obj
          (withDirOf L name).objs.length).withIO [] false
          ((withDirOf L name).attach (keyOfStr name) ((withDirOf L name).newFile (keyOfStr name)) p).now) rfl rfl) _
      (Or.inr ⟨hroot, (withDirOf L name).objs.length, ?_, Or.inl ?_⟩)
    · rw [lookup_setObj, lookup_attach, if_pos rfl]
    · rw [obj_setObj_self _ _ _ hlen, hoA]; rfl
  · refine keysNodup_remove _ _ ?_
    exact keysNodup_create _ _ (keysNodup_withDirOf L hk name)
  · refine objsOK_remove _ _ (objsOK_setObj _ (objsOK_create _ _ (objsOK_withDirOf L ho name)) _ _ ?_)
    exact objOK_meta _ _ (objsOK_create _ _ (objsOK_withDirOf L ho name) _) rfl rfl

end AferoVerif


/-! ## Part B — Chmod / Chown / Chtimes of a directory only the base holds -/

namespace AferoVerif
open MemFs
namespace Cache

/-- `Inv` (coherent layers, consistent trees, one path-map entry per name) together with the local
    object rules `ObjsOK` (the directory flag says whether there is an index) in both layers: what every
    state reached from `MemFs.init` by the operations of the fragment has (`objsOK_run`) -/
structure InvOK (c : Cow) : Prop where
  inv : Inv c
  ob : ObjsOK c.s.b
  ol : ObjsOK c.s.l

/-- the part of `InvOK` that does not mention coherence: both layers are consistent trees with one
    path-map entry per name whose objects obey the local rules -/
structure TreesOK (c : Cow) : Prop where
  cb : Consistent c.s.b
  nb : KeysNodup c.s.b
  cl : Consistent c.s.l
  nl : KeysNodup c.s.l
  ob : ObjsOK c.s.b
  ol : ObjsOK c.s.l

theorem InvOK.trees {c : Cow} (h : InvOK c) : TreesOK c :=
  ⟨h.inv.cb, h.inv.nb, h.inv.cl, h.inv.nl, h.ob, h.ol⟩

theorem invOK_of {c : Cow} (hco : Coherent c.s) (h : TreesOK c) : InvOK c :=
  ⟨⟨hco, h.cb, h.nb, h.cl, h.nl⟩, h.ob, h.ol⟩

/-- coherence everywhere except, possibly, at the name `k0` (an OUTDATED cached copy of `k0` may hold
    anything: the base has been rewritten behind the cache's back) -/
def CoherentOff (s : Layers) (k0 : Key) : Prop :=
  ∀ k lf, k ≠ k0 → s.l.lookup k = some lf → (s.l.obj lf).dir = false →
    ∃ bf, s.b.lookup k = some bf ∧ (s.b.obj bf).dir = false ∧ (s.b.obj bf).data = (s.l.obj lf).data

theorem coherentOff_of_coherent {s : Layers} (h : Coherent s) (k0 : Key) : CoherentOff s k0 :=
  fun k lf _ hl hd => h k lf hl hd

/-- a byte-identical copy of a regular base file added to the cache layer makes the layers coherent, whatever
    the layer held under that name before -/
theorem coherent_copied_off (k : Key) (bo : Nat) (b l l' : MemFs) (h : CoherentOff { b := b, l := l } k)
    (hbo : b.lookup k = some bo) (hfile : (b.obj bo).dir = false)
    (hl : Copied k (b.obj bo).data l l') : Coherent { b := b, l := l' } := by
  intro k' g hlk hd
  have hlk : l'.lookup k' = some g := hlk
  have hd : (l'.obj g).dir = false := hd
  by_cases hk : k' = k
  · subst hk
    obtain ⟨lf, e1, e2⟩ := hl.here
    rw [hlk] at e1; injection e1 with e1; subst e1
    exact ⟨bo, hbo, hfile, e2.symm⟩
  · obtain ⟨a1, a2, a3⟩ := hl.others k' g hk hlk hd
    obtain ⟨x, c1, c2, c3⟩ := h k' g hk a1 a2
    refine ⟨x, c1, c2, ?_⟩
    show (b.obj x).data = (l'.obj g).data
    rw [← a3]; exact c3

/-- **the situation**: `p` names a directory of the base that the cache layer does not hold at all;
    `filepath.Dir(p)` is the key's parent (false only for names that `filepath.Clean` shortens across a
    separator, like `/a/..`), and where the cache layer holds that parent name it is a directory -/
structure UncachedBaseDir (c : Cow) (p : Str) : Prop where
  miss : c.s.l.lookup (keyOfStr p) = none
  baseDir : ∃ bo, c.s.b.lookup (keyOfStr p) = some bo ∧ (c.s.b.obj bo).dir = true
  dirIsParent : parentKey (keyOfStr p) = keyOfStr (Path.dir p)
  parentIsDir : ∀ q, c.s.l.lookup (keyOfStr (Path.dir p)) = some q → (c.s.l.obj q).dir = true

theorem status_of_miss (c : Cow) (dur : Int) (k : Key) (h : c.s.l.lookup k = none) : cacheStatus c dur k = .miss := by
  unfold cacheStatus; rw [h]

/-- **Chmod / Chown / Chtimes (and Rename) of a directory only the base holds** — `op` is any call
    routed through `both`.  The copy-up made first fails, and that is all that happens:
    * the call answers the i/o error;
    * the base is not called (it is what it was), the handle table is untouched;
    * the cache layer is not given the call either.  It shows what it showed after `copyFile`'s
      `MkdirAll(filepath.Dir(p), 0777)` — so the directories ABOVE the name that the layer lacked are now there,
      and when the layer held the parent already nothing at all has changed in its view;
    * the directory itself is NOT made in the cache layer: the name is still missing there;
    * the layers are still coherent, and the invariant `InvOK` holds. -/
theorem both_uncached_dir (c : Cow) (dur : Int) (p : Str) (op : Op) (hi : InvOK c) (h : UncachedBaseDir c p) :
    (both c dur p op).2 = .err .io ∧ (both c dur p op).1.s.b = c.s.b ∧ (both c dur p op).1.hs = c.hs ∧
    view (both c dur p op).1.s.l = view (withDirOf c.s.l p) ∧
    (both c dur p op).1.s.l.lookup (keyOfStr p) = none ∧
    Coherent (both c dur p op).1.s ∧ InvOK (both c dur p op).1 := by
  obtain ⟨hmiss, ⟨bo, hb, hdir⟩, hdk, hpd⟩ := h
  obtain ⟨⟨hco, hcb, hnb, hcl, hnl⟩, hob, hol⟩ := hi
  obtain ⟨h1, h2, h3, h4, h5, h6⟩ := copyFile_dir_layer c.s.b c.s.l p bo hdir hcl hnl hol hmiss hdk hpd
  have hst := status_of_miss c dur _ hmiss
  have hLB : layerBefore c dur p = (copyFile c.s.b c.s.l p bo).1 := by
    unfold layerBefore copyToLayer; rw [hst]; simp only [hb]
  have hCE : copyErr c dur p = some .io := by
    unfold copyErr copyToLayer; rw [hst]; simp only [hb]; exact h1
  rw [both_copy_failed c dur p op .io hCE, hLB]
  have hcoh : Coherent { b := c.s.b, l := (copyFile c.s.b c.s.l p bo).1 } := by
    have hg : Coherent { b := c.s.b, l := withDirOf c.s.l p } :=
      coherent_grow _ _ _ _ hco hcb.inRange (consistent_withDirOf _ hcl p).inRange (Grow.refl _)
        (fun _ _ => rfl) (grow_withDirOf _ p)
    exact coherent_of_views _ _ hg rfl h2
  exact ⟨rfl, rfl, rfl, h2, h3, hcoh, ⟨hcoh, hcb, hnb, h4, h5⟩, hob, h6⟩

/-- … when the cache layer holds the directory the name lies in, its view is exactly what it was -/
theorem both_uncached_dir_parent_cached (c : Cow) (dur : Int) (p : Str) (op : Op) (hi : InvOK c)
    (h : UncachedBaseDir c p) (hp : (c.s.l.lookup (keyOfStr (Path.dir p))).isSome = true) :
    view (both c dur p op).1.s.l = view c.s.l := by
  rw [(both_uncached_dir c dur p op hi h).2.2.2.1, withDirOf_existing _ _ hp]

/-- … and in general (`withDirOf c.s.l p` is the layer whose view the cache layer has afterwards): every name
    the layer held leads to the same object with the same bytes, and every name it has gained is a directory:
    `filepath.Dir(p)` or a name above it -/
theorem both_uncached_dir_residue (c : Cow) (p : Str) (hi : InvOK c)
    (k : Key) (g : Nat) (hg : (withDirOf c.s.l p).lookup k = some g) :
    (c.s.l.lookup k = some g ∧ ((withDirOf c.s.l p).obj g).data = (c.s.l.obj g).data) ∨
    (c.s.l.lookup k = none ∧ ((withDirOf c.s.l p).obj g).dir = true ∧
      (k = keyOfStr (Path.dir p) ∨ isUnder k (keyOfStr (Path.dir p)) = true)) := by
  have hG := grow_withDirOf c.s.l p
  have hc0 := consistent_withDirOf _ hi.inv.cl p
  cases hl : c.s.l.lookup k with
  | some g' =>
    left
    have := hG.look k g' hl
    rw [hg] at this; injection this with this; subst this
    exact ⟨rfl, hG.data g (hi.inv.cl.inRange _ _ hl)⟩
  | none =>
    right
    refine ⟨rfl, ?_, ?_⟩
    · cases hd : ((withDirOf c.s.l p).obj g).dir with
      | true => rfl
      | false =>
        exfalso
        obtain ⟨hlt, _⟩ := hG.reg g (hc0.inRange _ _ hg) hd
        rcases hG.back k g hg with e | e
        · rw [hl] at e; cases e
        · omega
    · rcases withDirOf_new_keys _ _ _ _ hg with a | a | a | a
      · rw [hl] at a; cases a
      · exact Or.inl a
      · exfalso
        obtain ⟨r, hr, _⟩ := hi.inv.cl.root
        rw [a, hr] at hl; cases hl
      · exact Or.inr a

end Cache
end AferoVerif

/-! ## Part C — Rename of a regular base file that is not a cache hit

  ### the cache layer after the copy-up of a regular file -/

namespace AferoVerif
open MemFs

namespace MemFs
/-- `Create` leaves every other name leading to the object it led to -/
theorem create_keeps (m : MemFs) (k k' : Key) (f : Nat) (h : m.lookup k' = some f) (hne : k' ≠ k) :
    (m.create k).1.lookup k' = some f := by
  have fresh : (registerWithParent ((m.pend k (m.newFile k)).regFuel m.objs.length) (m.pend k (m.newFile k)) m.objs.length 0).lookup k'
      = some f :=
    (reg_ext _ _ _ _).look _ _ (by rw [lookup_pend, if_neg hne]; exact h)
  unfold create
  cases hl : m.lookup k with
  | none => exact fresh
  | some g =>
    simp only
    split
    · exact fresh
    · exact h
end MemFs

theorem setObj_chtimes_pres (S : MemFs) (lf : Nat) (k : Key) (t : Int) (d : FData)
    (hn : d.name = (S.obj lf).name) (hm : d.memDir = (S.obj lf).memDir) (hd : d.dir = (S.obj lf).dir)
    (hc : Consistent S) (hk : KeysNodup S) (ho : ObjsOK S) :
    Consistent ((S.setObj lf d).chtimes k t).1 ∧ KeysNodup ((S.setObj lf d).chtimes k t).1 ∧
    ObjsOK ((S.setObj lf d).chtimes k t).1 ∧ ∀ k', ((S.setObj lf d).chtimes k t).1.lookup k' = S.lookup k' := by
  have hc1 : Consistent (S.setObj lf d) := consistent_setObj_meta _ hc _ _ hn hm
  have ho1 : ObjsOK (S.setObj lf d) := objsOK_setObj _ ho _ _ (objOK_meta _ _ (ho lf) hd hm)
  have hk1 : KeysNodup (S.setObj lf d) := hk
  refine ⟨?_, ?_, ?_, fun k' => (metaSame_chtimes (S.setObj lf d) k t).look k'⟩
  · unfold chtimes; split
    · exact hc1
    · refine consistent_setObj_meta _ hc1 _ _ ?_ ?_ <;> rfl
  · unfold chtimes; split
    · exact hk1
    · exact hk1
  · unfold chtimes; split
    · exact ho1
    · exact objsOK_setObj _ ho1 _ _ (objOK_meta _ _ (ho1 _) rfl rfl)

theorem copyFile_file_layer (b L : MemFs) (name : Str) (bo : Nat) (hfile : (b.obj bo).dir = false)
    (hc : Consistent L) (hk : KeysNodup L) (ho : ObjsOK L)
    (hdk : parentKey (keyOfStr name) = keyOfStr (Path.dir name))
    (hreg : ∀ lf, L.lookup (keyOfStr name) = some lf → (L.obj lf).dir = false) :
    Consistent (copyFile b L name bo).1 ∧ KeysNodup (copyFile b L name bo).1 ∧ ObjsOK (copyFile b L name bo).1 ∧
    ∀ k' f, L.lookup k' = some f → k' ≠ keyOfStr name → (copyFile b L name bo).1.lookup k' = some f := by
  have hc0 := consistent_withDirOf L hc name
  have hk0 := keysNodup_withDirOf L hk name
  have ho0 := objsOK_withDirOf L ho name
  have hreg0 : ∀ lf, (withDirOf L name).lookup (keyOfStr name) = some lf → ((withDirOf L name).obj lf).dir = false := by
    cases hl : L.lookup (keyOfStr name) with
    | none => intro lf h; rw [withDirOf_lookup_name L hc name hdk hl] at h; cases h
    | some lf0 =>
      have hroot : keyOfStr name ≠ rootKey := by
        intro e
        obtain ⟨r, hr, hm⟩ := hc.root
        rw [e, hr] at hl; injection hl with hl
        have h1 := hreg lf0 (by rw [e, hr, hl])
        have h2 := (ho r).1
        rw [hl, h1] at h2; rw [hl] at hm; rw [hm] at h2; cases h2
      obtain ⟨p, _, hp, _, _⟩ := hc.hasParent _ _ hl hroot
      have e : withDirOf L name = L := withDirOf_existing L name (by rw [← hdk, hp]; rfl)
      rw [e]; exact hreg
  have hcC := consistent_create _ hc0 (keyOfStr name) (normKey_keyOfStr name) hreg0
  have hkC := keysNodup_create _ (keyOfStr name) hk0
  have hoC := objsOK_create _ (keyOfStr name) ho0
  have hlC : ∀ k' f, L.lookup k' = some f → k' ≠ keyOfStr name →
      ((withDirOf L name).create (keyOfStr name)).1.lookup k' = some f :=
    fun k' f h hne => create_keeps _ _ _ _ ((grow_withDirOf L name).look _ _ h) hne
  unfold copyFile copyFileFrom
  simp only [hfile, Bool.false_eq_true, if_false, List.drop_zero, ne_eq, not_true_eq_false, Bool.not_false,
    Bool.true_and, gt_iff_lt, Nat.not_lt_zero, decide_false]
  have hW : (if fsExists L (keyOfStr (Path.dir name)) = true then L
      else (L.mkdirAll (keyOfStr (Path.dir name)) 0o777).1) = withDirOf L name := rfl
  rw [hW]
  generalize (withDirOf L name).create (keyOfStr name) = C at hcC hkC hoC hlC
  obtain ⟨L1, lf⟩ := C
  simp only at hcC hkC hoC hlC ⊢
  have hc1 : Consistent (L1.setObj lf ((L1.obj lf).withIO (b.obj bo).data (decide ¬(b.obj bo).data = []) L1.now)) :=
    consistent_setObj_meta _ hcC _ _ rfl rfl
  have ho1 : ObjsOK (L1.setObj lf ((L1.obj lf).withIO (b.obj bo).data (decide ¬(b.obj bo).data = []) L1.now)) :=
    objsOK_setObj _ hoC _ _ (objOK_meta _ _ (hoC lf) rfl rfl)
  have hk1 : KeysNodup (L1.setObj lf ((L1.obj lf).withIO (b.obj bo).data (decide ¬(b.obj bo).data = []) L1.now)) := hkC
  obtain ⟨a1, a2, a3, a4⟩ := setObj_chtimes_pres
    (L1.setObj lf ((L1.obj lf).withIO (b.obj bo).data (decide ¬(b.obj bo).data = []) L1.now)) lf (keyOfStr name)
    (b.obj bo).mtime
    { (L1.setObj lf ((L1.obj lf).withIO (b.obj bo).data (decide ¬(b.obj bo).data = []) L1.now)).obj lf with
      mtime := (L1.setObj lf ((L1.obj lf).withIO (b.obj bo).data (decide ¬(b.obj bo).data = []) L1.now)).now }
    rfl rfl rfl hc1 hk1 ho1
  refine ⟨a1, a2, a3, fun k' f h hne => ?_⟩
  rw [a4]; exact hlC k' f h hne

end AferoVerif

namespace AferoVerif
open MemFs

namespace MemFs

theorem memDir_setObj (m : MemFs) (i : Nat) (d : FData) (hm : d.memDir = (m.obj i).memDir) (j : Nat) :
    ((m.setObj i d).obj j).memDir = (m.obj j).memDir := by
  rw [obj_setObj_any]
  split
  · rename_i h; obtain ⟨rfl, _⟩ := h; exact hm
  · rfl

theorem memDir_chtimes (m : MemFs) (k : Key) (t : Int) (j : Nat) :
    ((m.chtimes k t).1.obj j).memDir = (m.obj j).memDir := by
  unfold chtimes
  split
  · rfl
  · exact memDir_setObj _ _ _ (by rfl) j

/-- **the names `Create` adds** are the name itself and names above it -/
theorem create_new_keys (m : MemFs) (k k' : Key) (g : Nat) (h : (m.create k).1.lookup k' = some g) :
    m.lookup k' = some g ∨ k' = k ∨ k' = rootKey ∨ isUnder k' k = true := by
  have fresh : (registerWithParent ((m.pend k (m.newFile k)).regFuel m.objs.length) (m.pend k (m.newFile k)) m.objs.length 0).lookup k'
      = some g → m.lookup k' = some g ∨ k' = k ∨ k' = rootKey ∨ isUnder k' k = true := by
    intro h
    have hnm : ((m.pend k (m.newFile k)).obj m.objs.length).name = k := by rw [obj_pend_new]; rfl
    rcases reg_new_keys _ _ _ _ k' g h with a | a | a
    · rw [lookup_pend] at a
      by_cases hk : k' = k
      · exact Or.inr (Or.inl hk)
      · rw [if_neg hk] at a; exact Or.inl a
    · exact Or.inr (Or.inr (Or.inl a))
    · rw [hnm] at a; exact Or.inr (Or.inr (Or.inr a))
  unfold create at h
  cases hl : m.lookup k with
  | none => rw [hl] at h; exact fresh h
  | some f =>
    rw [hl] at h
    simp only at h
    split at h
    · exact fresh h
    · exact Or.inl h

end MemFs

/-- the layer `copyFile` of a regular file leaves, relative to the layer after its `Create`: the same names
    leading to the same objects, the same directory indexes -/
theorem copyFile_file_frame (b L : MemFs) (name : Str) (bo : Nat) (hfile : (b.obj bo).dir = false) :
    (∀ k', (copyFile b L name bo).1.lookup k' = ((withDirOf L name).create (keyOfStr name)).1.lookup k') ∧
    (∀ j, ((copyFile b L name bo).1.obj j).memDir = (((withDirOf L name).create (keyOfStr name)).1.obj j).memDir) := by
  unfold copyFile copyFileFrom
  simp only [hfile, Bool.false_eq_true, if_false, List.drop_zero, ne_eq, not_true_eq_false, Bool.not_false,
    Bool.true_and, gt_iff_lt, Nat.not_lt_zero, decide_false]
  have hW : (if fsExists L (keyOfStr (Path.dir name)) = true then L
      else (L.mkdirAll (keyOfStr (Path.dir name)) 0o777).1) = withDirOf L name := rfl
  rw [hW]
  generalize (withDirOf L name).create (keyOfStr name) = C
  obtain ⟨L1, lf⟩ := C
  simp only
  refine ⟨fun k' => ?_, fun j => ?_⟩
  · rw [(metaSame_chtimes _ _ _).look]; rfl
  · rw [memDir_chtimes]
    exact (memDir_setObj _ _ _ (by rfl) j).trans (memDir_setObj _ _ _ (by rfl) j)


namespace MemFs

theorem memDir_none_of_file (m : MemFs) (ho : ObjsOK m) (f : Nat) (hd : (m.obj f).dir = false) : (m.obj f).memDir = none := by
  have := (ho f).1
  rw [hd] at this
  cases hm : (m.obj f).memDir with
  | none => rfl
  | some d => rw [hm] at this; cases this

/-- the object `Create` returns has no directory index: a new file below an existing directory, or an
    existing regular file -/
theorem create_leaf (m : MemFs) (hc : Consistent m) (ho : ObjsOK m) (k : Key)
    (h : (m.lookup k = none ∧ ParentDir m k) ∨ ∃ f, m.lookup k = some f ∧ (m.obj f).dir = false) :
    ((m.create k).1.obj (m.create k).2).memDir = none := by
  rcases h with ⟨hnew, p, pd, hp, hpd⟩ | ⟨f, hf, hd⟩
  · have hpr := hc.inRange _ _ hp
    have hpk : parentKey k ≠ k := by intro e; rw [e, hnew] at hp; cases hp
    rw [create_new_eq_attach m k p pd hnew hp hpd hpk hpr]
    simp only
    rw [obj_attach_new m k _ p hpr]; rfl
  · have e : m.create k = (m.setObj f { m.obj f with data := [], mtime := m.now }, f) := by
      unfold create; simp only [hf, hd, Bool.false_eq_true, if_false]
    rw [e]
    simp only
    rw [obj_setObj_self _ _ _ (hc.inRange _ _ hf)]
    exact memDir_none_of_file m ho f hd

end MemFs

end AferoVerif

namespace AferoVerif
open MemFs
namespace Cache

/-- **the situation**: `a` names a regular file of the base (`bf`) that is not a cache hit — the cache layer
    does not hold it (miss), or holds an outdated copy (stale); `filepath.Dir(a)` is the key's parent; what
    the cache layer holds under the name, if anything, is a regular file -/
structure UncachedFile (c : Cow) (dur : Int) (a : Str) (bf : Nat) : Prop where
  status : cacheStatus c dur (keyOfStr a) = .miss ∨ cacheStatus c dur (keyOfStr a) = .stale
  base : c.s.b.lookup (keyOfStr a) = some bf
  file : (c.s.b.obj bf).dir = false
  dirIsParent : parentKey (keyOfStr a) = keyOfStr (Path.dir a)
  layerFile : ∀ lf, c.s.l.lookup (keyOfStr a) = some lf → (c.s.l.obj lf).dir = false

/-- the copy-up that `Rename` (and Chmod / Chown / Chtimes) of such a name makes first: it succeeds, the
    layer it leaves (`layerBefore`) is a consistent tree holding under the name the base's bytes, every
    other name of the layer still leads to its object, and the layers are coherent -/
theorem uncached_copy (c : Cow) (dur : Int) (a : Str) (bf : Nat) (ht : TreesOK c)
    (hco : CoherentOff c.s (keyOfStr a)) (h : UncachedFile c dur a bf) :
    copyErr c dur a = none ∧
    Consistent (layerBefore c dur a) ∧ KeysNodup (layerBefore c dur a) ∧ ObjsOK (layerBefore c dur a) ∧
    Copied (keyOfStr a) (c.s.b.obj bf).data c.s.l (layerBefore c dur a) ∧
    (∀ k' f, c.s.l.lookup k' = some f → k' ≠ keyOfStr a → (layerBefore c dur a).lookup k' = some f) ∧
    Coherent { b := c.s.b, l := layerBefore c dur a } := by
  obtain ⟨hst, hb, hfile, hdk, hlf⟩ := h
  obtain ⟨hcb, hnb, hcl, hnl, hob, hol⟩ := ht
  obtain ⟨e1, e2, _, _⟩ := copy_first c dur a bf hst hb hfile hcl.inRange
  have hcp := copy_first_frame c dur a bf hst hb hfile hcl
  obtain ⟨a1, a2, a3, a4⟩ := copyFile_file_layer c.s.b c.s.l a bf hfile hcl hnl hol hdk hlf
  rw [← e2] at a1 a2 a3 a4
  exact ⟨e1, a1, a2, a3, hcp, a4, coherent_copied_off _ bf _ _ _ hco hb hfile hcp⟩

/-- **Rename of a regular base file that is not a cache hit.**  `a` is a miss or stale (`UncachedFile`);
    both layers are consistent trees (`TreesOK`) and coherent except possibly at `a` itself (`CoherentOff`: the
    outdated copy of a stale name may hold any bytes); the base meets the ordinary preconditions of a leaf rename (`RenameLeaf`), and so does the cache layer
    as the copy-up leaves it (`layerBefore`).  Then:
    * the file is copied into the cache layer first (`Copied`: under `a` the layer now holds the base's
      bytes; every other name of the layer keeps its object);
    * the call answers ok;
    * the base moves `a` to `b` (`Relinked`: `b` leads to the object `a` led to, `a` is gone, every other name
      keeps its object, every object its bytes);
    * the cache layer moves the fresh copy `lf` from `a` to `b` in the same way;
    * the layers are coherent afterwards, and `InvOK` holds. -/
theorem rename_uncached (dur : Int) (c : Cow) (a b : Str) (bf : Nat) (ht : TreesOK c)
    (hco : CoherentOff c.s (keyOfStr a)) (h : UncachedFile c dur a bf)
    (hne : keyOfStr a ≠ keyOfStr b)
    (hrb : RenameLeaf c.s.b (keyOfStr a) (keyOfStr b))
    (hrl : RenameLeaf (layerBefore c dur a) (keyOfStr a) (keyOfStr b)) :
    (Cache.step dur c (.rename a b)).2 = .ok ∧
    Copied (keyOfStr a) (c.s.b.obj bf).data c.s.l (layerBefore c dur a) ∧
    (∀ k' f, c.s.l.lookup k' = some f → k' ≠ keyOfStr a → (layerBefore c dur a).lookup k' = some f) ∧
    Relinked (keyOfStr a) (keyOfStr b) bf c.s.b (Cache.step dur c (.rename a b)).1.s.b ∧
    (∃ lf, (layerBefore c dur a).lookup (keyOfStr a) = some lf ∧
      ((layerBefore c dur a).obj lf).data = (c.s.b.obj bf).data ∧
      Relinked (keyOfStr a) (keyOfStr b) lf (layerBefore c dur a) (Cache.step dur c (.rename a b)).1.s.l) ∧
    Coherent (Cache.step dur c (.rename a b)).1.s ∧ InvOK (Cache.step dur c (.rename a b)).1 := by
  obtain ⟨e1, c1, c2, c3, hcp, hkeep, hcoh⟩ := uncached_copy c dur a bf ht hco h
  obtain ⟨hst, hb, hfile, hdk, hlf⟩ := h
  obtain ⟨hcb, hnb, hcl, hnl, hob, hol⟩ := ht
  have hnl' : cacheStatus c dur (keyOfStr a) ≠ .local_ := by
    rcases hst with e | e <;> rw [e] <;> simp
  obtain ⟨bf', hbo, hbok, hbr⟩ := relinked_rename c.s.b hcb _ _ hne hrb
  rw [hb] at hbo; injection hbo with hbo; subst hbo
  obtain ⟨lf, hlo, hlok, hlr⟩ := relinked_rename (layerBefore c dur a) c1 _ _ hne hrl
  have hdata : ((layerBefore c dur a).obj lf).data = (c.s.b.obj bf).data := by
    obtain ⟨lf', q1, q2⟩ := hcp.here
    rw [hlo] at q1; injection q1 with q1; subst q1; exact q2
  have hstep : Cache.step dur c (.rename a b) =
      ({ (setL c (layerBefore c dur a)) with
          s := { b := (c.s.b.rename (keyOfStr a) (keyOfStr b)).1,
                 l := ((layerBefore c dur a).rename (keyOfStr a) (keyOfStr b)).1 } }, .ok) := by
    show both c dur a (.rename a b) = _
    rw [both_eq, e1]
    simp only [hnl', if_false]
    rw [baseFirst_ok _ (c.s.b.step (.rename a b)) _ hbok]
    show (_, ((layerBefore c dur a).rename (keyOfStr a) (keyOfStr b)).2) = _
    rw [hlok]; rfl
  rw [hstep]
  have hcoh' : Coherent { b := (c.s.b.rename (keyOfStr a) (keyOfStr b)).1, l := ((layerBefore c dur a).rename (keyOfStr a) (keyOfStr b)).1 } :=
    coherent_relinked _ _ bf lf _ _ _ _ hcoh hb hlo hbr hlr
  refine ⟨rfl, hcp, hkeep, hbr, ⟨lf, hlo, hdata, hlr⟩, hcoh', ⟨hcoh', ?_, ?_, ?_, ?_⟩, ?_, ?_⟩
  · exact consistent_rename_of_renameLeaf _ hcb _ _ hrb
  · exact keysNodup_rename _ _ _ hnb
  · exact consistent_rename_of_renameLeaf _ c1 _ _ hrl
  · exact keysNodup_rename _ _ _ c2
  · exact objsOK_rename _ _ _ hob
  · exact objsOK_rename _ _ _ c3

/-- … name by name: afterwards neither layer holds anything under `a`; under `b` the base holds the object `a`
    led to and the cache layer holds the fresh copy, a regular-file body with exactly the bytes the base has
    for `b`; every other name of the base leads where it led, and every other name the cache layer held
    still leads to its object -/
theorem rename_uncached_effect (dur : Int) (c : Cow) (a b : Str) (bf : Nat) (ht : TreesOK c)
    (hco : CoherentOff c.s (keyOfStr a)) (h : UncachedFile c dur a bf)
    (hne : keyOfStr a ≠ keyOfStr b)
    (hrb : RenameLeaf c.s.b (keyOfStr a) (keyOfStr b))
    (hrl : RenameLeaf (layerBefore c dur a) (keyOfStr a) (keyOfStr b)) :
    ∃ lf, (Cache.step dur c (.rename a b)).1.s.l.lookup (keyOfStr a) = none ∧
      (Cache.step dur c (.rename a b)).1.s.b.lookup (keyOfStr a) = none ∧
      (Cache.step dur c (.rename a b)).1.s.l.lookup (keyOfStr b) = some lf ∧
      (Cache.step dur c (.rename a b)).1.s.b.lookup (keyOfStr b) = some bf ∧
      ((Cache.step dur c (.rename a b)).1.s.l.obj lf).data = ((Cache.step dur c (.rename a b)).1.s.b.obj bf).data ∧
      ((Cache.step dur c (.rename a b)).1.s.b.obj bf).data = (c.s.b.obj bf).data ∧
      ((Cache.step dur c (.rename a b)).1.s.b.obj bf).dir = false ∧
      (∀ k, k ≠ keyOfStr a → k ≠ keyOfStr b →
        (Cache.step dur c (.rename a b)).1.s.b.lookup k = c.s.b.lookup k ∧
        ∀ f, c.s.l.lookup k = some f → (Cache.step dur c (.rename a b)).1.s.l.lookup k = some f) := by
  obtain ⟨_, _, hkeep, hbr, ⟨lf, hlo, hdata, hlr⟩, _, _⟩ := rename_uncached dur c a b bf ht hco h hne hrb hrl
  refine ⟨lf, ?_, ?_, ?_, ?_, ?_, ?_, ?_, ?_⟩
  · rw [hlr.look, if_neg hne, if_pos rfl]
  · rw [hbr.look, if_neg hne, if_pos rfl]
  · rw [hlr.look, if_pos rfl]
  · rw [hbr.look, if_pos rfl]
  · rw [(hlr.objs lf).1, (hbr.objs bf).1]; exact hdata
  · exact (hbr.objs bf).1
  · rw [(hbr.objs bf).2]; exact h.file
  · intro k h1 h2
    refine ⟨by rw [hbr.look, if_neg h2, if_neg h1], fun f hf => ?_⟩
    rw [hlr.look, if_neg h2, if_neg h1]
    exact hkeep k f hf h1


/-- **a sufficient condition for the layer-side hypothesis of `rename_uncached`**, on the state before the call:
    the rename stays within one directory (`b`'s parent is `a`'s), the cache layer holds nothing under `b`, and
    where it holds `filepath.Dir(a)` that is a directory.  Then the cache layer, as the copy-up leaves it, meets
    the preconditions of a leaf rename. -/
theorem renameLeaf_layerBefore_same_dir (c : Cow) (dur : Int) (a b : Str) (bf : Nat) (ht : TreesOK c)
    (h : UncachedFile c dur a bf)
    (hpd : ∀ q, c.s.l.lookup (keyOfStr (Path.dir a)) = some q → (c.s.l.obj q).dir = true)
    (hne : keyOfStr a ≠ keyOfStr b)
    (hsame : parentKey (keyOfStr b) = parentKey (keyOfStr a)) (hfree : c.s.l.lookup (keyOfStr b) = none) :
    RenameLeaf (layerBefore c dur a) (keyOfStr a) (keyOfStr b) := by
  obtain ⟨hst, hb, hfile, hdk, hlf⟩ := h
  obtain ⟨hcb, hnb, hcl, hnl, hob, hol⟩ := ht
  obtain ⟨_, e2, _, lf, h2, _, _⟩ := copy_first c dur a bf hst hb hfile hcl.inRange
  obtain ⟨c1, _, _, _⟩ := copyFile_file_layer c.s.b c.s.l a bf hfile hcl hnl hol hdk hlf
  obtain ⟨f1, f2⟩ := copyFile_file_frame c.s.b c.s.l a bf hfile
  rw [← e2] at c1 f1 f2
  have hc0 := consistent_withDirOf c.s.l hcl a
  have ho0 := objsOK_withDirOf c.s.l hol a
  have hra : keyOfStr a ≠ rootKey := by
    intro e
    obtain ⟨r, hr, hm⟩ := hcb.root
    rw [e, hr] at hb; injection hb with hb
    have := memDir_none_of_file c.s.b hob bf hfile
    rw [hb, this] at hm; cases hm
  have hrb : keyOfStr b ≠ rootKey := ne_root_of_missing c.s.l hcl _ hfree
  have hsb : (keyOfStr b).segs ≠ [] := fun e => hrb (norm_nil_root _ (normKey_keyOfStr b) e)
  have hlenb := parentKey_length_lt _ hsb
  -- the object under `a` after the copy-up is the one `Create` returned, and it has no index
  obtain ⟨cs1, _, _, _, _⟩ := create_spec (withDirOf c.s.l a) (keyOfStr a) hc0.inRange
  have hlfC : lf = ((withDirOf c.s.l a).create (keyOfStr a)).2 := by
    have := f1 (keyOfStr a)
    rw [h2, cs1] at this; injection this
  have hleaf : ((layerBefore c dur a).obj lf).memDir = none := by
    rw [f2, hlfC]
    apply create_leaf _ hc0 ho0
    cases hl : c.s.l.lookup (keyOfStr a) with
    | none =>
      exact Or.inl ⟨withDirOf_lookup_name _ hcl a hdk hl, parentDir_withDirOf _ hcl hol a hdk hpd⟩
    | some lf0 =>
      obtain ⟨p, _, hp, _, _⟩ := hcl.hasParent _ _ hl hra
      have e : withDirOf c.s.l a = c.s.l := withDirOf_existing _ a (by rw [← hdk, hp]; rfl)
      rw [e]
      exact Or.inr ⟨lf0, hl, hlf lf0 hl⟩
  -- nothing under `b` after the copy-up
  have htarget : (layerBefore c dur a).lookup (keyOfStr b) = none := by
    cases hg : (layerBefore c dur a).lookup (keyOfStr b) with
    | none => rfl
    | some g =>
      exfalso
      rw [f1] at hg
      have hnotunder : ¬ isUnder (keyOfStr b) (parentKey (keyOfStr b)) = true := by
        intro u
        have := ((isUnder_iff _ _).1 u).2.2.1
        omega
      rcases create_new_keys _ _ _ _ hg with x | x | x | x
      · rcases withDirOf_new_keys _ _ _ _ x with y | y | y | y
        · rw [hfree] at y; cases y
        · rw [← hdk, ← hsame] at y; exact parentKey_ne_self _ hrb y.symm
        · exact hrb y
        · rw [← hdk, ← hsame] at y; exact hnotunder y
      · exact hne x.symm
      · exact hrb x
      · rcases parent_of_under _ _ (normKey_keyOfStr b) x with y | y
        · rw [← hsame] at y; exact parentKey_ne_self _ hrb y
        · rw [← hsame] at y; exact hnotunder y
  obtain ⟨p, d, hp, hd, _⟩ := c1.hasParent _ _ h2 hra
  refine ⟨lf, h2, Or.inl hleaf, hra, hrb, parentKey_ne_self _ hrb, ?_, ⟨p, d, by rw [hsame]; exact hp, hd⟩,
    Or.inl htarget, normKey_keyOfStr a⟩
  rw [hsame]; exact parentKey_ne_self _ hra

/-! ## Part D — Rename of a cached directory with its entries -/

/-- coherence (as a property of the views) survives the same subtree move on both views -/
theorem coherent_refRenameDir (vb vl : View) (a b : Key)
    (h : ∀ k d md, vl k = some (.file d md) → ∃ md', vb k = some (.file d md')) :
    ∀ k d md, refRenameDir vl a b k = some (.file d md) → ∃ md', refRenameDir vb a b k = some (.file d md') := by
  intro k d md hv
  unfold refRenameDir at hv ⊢
  by_cases c1 : k = b ∨ isUnder b k = true
  · rw [if_pos c1] at hv ⊢; exact h _ d md hv
  · rw [if_neg c1] at hv ⊢
    by_cases c2 : k = a ∨ isUnder a k = true
    · rw [if_pos c2] at hv; cases hv
    · rw [if_neg c2] at hv ⊢; exact h _ d md hv

/-- `Rename` in one layer under the ordinary preconditions — a file or empty directory onto a free name or
    over a file or empty directory (`RenameLeaf`), or a directory with everything below it onto a free name
    (`RenameSubtree`): the call answers ok and the view is the old one with the subtree moved -/
theorem rename_ok_view (m : MemFs) (hc : Consistent m) (hk : KeysNodup m) (ho : ObjsOK m) (a b : Str)
    (hne : keyOfStr a ≠ keyOfStr b)
    (h : RenameLeaf m (keyOfStr a) (keyOfStr b) ∨ RenameSubtree m (keyOfStr a) (keyOfStr b)) :
    (m.rename (keyOfStr a) (keyOfStr b)).2 = .ok ∧
    view (m.rename (keyOfStr a) (keyOfStr b)).1 = refRenameDir (view m) (keyOfStr a) (keyOfStr b) := by
  have hv := rename_step_view m hc hk ho _ _ (normKey_keyOfStr a) (normKey_keyOfStr b)
    (Or.inr (Or.inr h))
  have hsome : ∃ f, m.lookup (keyOfStr a) = some f := by
    rcases h with ⟨f, hf, _⟩ | ⟨f, hf, _⟩ <;> exact ⟨f, hf⟩
  obtain ⟨f, hf⟩ := hsome
  have n : ¬ ((view m (keyOfStr a)).isNone = true ∨ keyOfStr a = keyOfStr b) := by
    intro e; rcases e with e | e
    · rw [view_some m _ f hf] at e; cases e
    · exact hne e
  unfold refRename at hv
  rw [if_neg n] at hv
  refine ⟨?_, hv⟩
  rcases h with h | h
  · obtain ⟨_, _, hok, _⟩ := relinked_rename m hc _ _ hne h; exact hok
  · exact (rename_dir_view m hc hk ho _ _ (normKey_keyOfStr a) (normKey_keyOfStr b) h).1

/-- **Rename of a cached directory with its entries** (more generally: of any cache hit, leaf or not).
    The old name is a hit; each layer meets the ordinary preconditions of a rename (`RenameLeaf` or
    `RenameSubtree` — the cache layer may hold only some of the base's entries, or none).  Then the call
    answers ok; each layer is the layer's own answer to the call; in BOTH layers the whole subtree has moved
    (`refRenameDir` on the view: the new name and every name below it denote what the corresponding old names
    did, nothing is left at or below the old name, every other name denotes what it did); the layers are
    coherent afterwards — for every name, in particular every name below the new directory — and `InvOK`
    holds. -/
theorem rename_dir_cached (dur : Int) (c : Cow) (a b : Str) (hi : InvOK c)
    (hst : cacheStatus c dur (keyOfStr a) = .hit) (hne : keyOfStr a ≠ keyOfStr b)
    (hrb : RenameLeaf c.s.b (keyOfStr a) (keyOfStr b) ∨ RenameSubtree c.s.b (keyOfStr a) (keyOfStr b))
    (hrl : RenameLeaf c.s.l (keyOfStr a) (keyOfStr b) ∨ RenameSubtree c.s.l (keyOfStr a) (keyOfStr b)) :
    (Cache.step dur c (.rename a b)).2 = .ok ∧
    (Cache.step dur c (.rename a b)).1.s.b = (c.s.b.rename (keyOfStr a) (keyOfStr b)).1 ∧
    (Cache.step dur c (.rename a b)).1.s.l = (c.s.l.rename (keyOfStr a) (keyOfStr b)).1 ∧
    view (Cache.step dur c (.rename a b)).1.s.b = refRenameDir (view c.s.b) (keyOfStr a) (keyOfStr b) ∧
    view (Cache.step dur c (.rename a b)).1.s.l = refRenameDir (view c.s.l) (keyOfStr a) (keyOfStr b) ∧
    Coherent (Cache.step dur c (.rename a b)).1.s ∧ InvOK (Cache.step dur c (.rename a b)).1 := by
  obtain ⟨⟨hco, hcb, hnb, hcl, hnl⟩, hob, hol⟩ := hi
  obtain ⟨bok, bv⟩ := rename_ok_view c.s.b hcb hnb hob a b hne hrb
  obtain ⟨lok, lv⟩ := rename_ok_view c.s.l hcl hnl hol a b hne hrl
  have hnl' : cacheStatus c dur (keyOfStr a) ≠ .local_ := by rw [hst]; decide
  have hstep : Cache.step dur c (.rename a b) =
      ({ (setL c c.s.l) with
          s := { b := (c.s.b.rename (keyOfStr a) (keyOfStr b)).1,
                 l := (c.s.l.rename (keyOfStr a) (keyOfStr b)).1 } }, .ok) := by
    show both c dur a (.rename a b) = _
    rw [both_eq, (layerBefore_cached c dur a (Or.inl hst)).2, (layerBefore_cached c dur a (Or.inl hst)).1]
    simp only [hnl', if_false]
    rw [baseFirst_ok _ (c.s.b.step (.rename a b)) _ bok]
    show (_, (c.s.l.rename (keyOfStr a) (keyOfStr b)).2) = _
    rw [lok]; rfl
  rw [hstep]
  have hcoh : Coherent { b := (c.s.b.rename (keyOfStr a) (keyOfStr b)).1, l := (c.s.l.rename (keyOfStr a) (keyOfStr b)).1 } := by
    rw [coherent_iff_view] at hco ⊢
    show ∀ k d md, view (c.s.l.rename (keyOfStr a) (keyOfStr b)).1 k = _ → ∃ md', view (c.s.b.rename (keyOfStr a) (keyOfStr b)).1 k = _
    rw [bv, lv]
    exact coherent_refRenameDir _ _ _ _ hco
  have wf : ∀ m : MemFs, (RenameLeaf m (keyOfStr a) (keyOfStr b) ∨ RenameSubtree m (keyOfStr a) (keyOfStr b)) →
      WFop m (.rename a b) := fun m h => Or.inr (Or.inr h)
  refine ⟨rfl, rfl, rfl, bv, lv, hcoh, ⟨hcoh, ?_, ?_, ?_, ?_⟩, ?_, ?_⟩
  · exact consistent_step_wf c.s.b (.rename a b) hcb hnb (wf _ hrb)
  · exact keysNodup_rename _ _ _ hnb
  · exact consistent_step_wf c.s.l (.rename a b) hcl hnl (wf _ hrl)
  · exact keysNodup_rename _ _ _ hnl
  · exact objsOK_rename _ _ _ hob
  · exact objsOK_rename _ _ _ hol

/-- … **entry by entry**, when in both layers a directory moves with everything below it onto a free name
    (`RenameSubtree`): for every name `k` below the old directory, each layer shows under the corresponding new
    name exactly what it showed under `k` (kind, bytes, mode), and nothing under `k` any more; the directory
    itself is shown under the new name and no longer under the old one -/
theorem rename_dir_cached_entries (dur : Int) (c : Cow) (a b : Str) (hi : InvOK c)
    (hst : cacheStatus c dur (keyOfStr a) = .hit) (hne : keyOfStr a ≠ keyOfStr b)
    (hrb : RenameSubtree c.s.b (keyOfStr a) (keyOfStr b)) (hrl : RenameSubtree c.s.l (keyOfStr a) (keyOfStr b))
    (k : Key) (hu : isUnder (keyOfStr a) k = true) :
    (view (Cache.step dur c (.rename a b)).1.s.b (rePrefix (keyOfStr a) (keyOfStr b) k) = view c.s.b k ∧
      view (Cache.step dur c (.rename a b)).1.s.b k = none ∧
      view (Cache.step dur c (.rename a b)).1.s.b (keyOfStr b) = view c.s.b (keyOfStr a) ∧
      view (Cache.step dur c (.rename a b)).1.s.b (keyOfStr a) = none) ∧
    (view (Cache.step dur c (.rename a b)).1.s.l (rePrefix (keyOfStr a) (keyOfStr b) k) = view c.s.l k ∧
      view (Cache.step dur c (.rename a b)).1.s.l k = none ∧
      view (Cache.step dur c (.rename a b)).1.s.l (keyOfStr b) = view c.s.l (keyOfStr a) ∧
      view (Cache.step dur c (.rename a b)).1.s.l (keyOfStr a) = none) := by
  obtain ⟨_, e1, e2, _⟩ := rename_dir_cached dur c a b hi hst hne (Or.inr hrb) (Or.inr hrl)
  rw [e1, e2]
  exact ⟨rename_dir_subtree_intact c.s.b hi.inv.cb hi.inv.nb hi.ob a b hrb k hu,
    rename_dir_subtree_intact c.s.l hi.inv.cl hi.inv.nl hi.ol a b hrl k hu⟩

/-- … **coherence below the new directory**: a regular file the cache layer held under a name `k` below the
    old directory is, afterwards, held under the corresponding new name by the cache layer AND by the base,
    with those very bytes -/
theorem rename_dir_cached_entry_coherent (dur : Int) (c : Cow) (a b : Str) (hi : InvOK c)
    (hst : cacheStatus c dur (keyOfStr a) = .hit) (hne : keyOfStr a ≠ keyOfStr b)
    (hrb : RenameSubtree c.s.b (keyOfStr a) (keyOfStr b)) (hrl : RenameSubtree c.s.l (keyOfStr a) (keyOfStr b))
    (k : Key) (hu : isUnder (keyOfStr a) k = true) (d : Bytes) (md : Nat) (hk : view c.s.l k = some (.file d md)) :
    view (Cache.step dur c (.rename a b)).1.s.l (rePrefix (keyOfStr a) (keyOfStr b) k) = some (.file d md) ∧
    ∃ md', view (Cache.step dur c (.rename a b)).1.s.b (rePrefix (keyOfStr a) (keyOfStr b) k) = some (.file d md') := by
  obtain ⟨⟨b1, _⟩, ⟨l1, _⟩⟩ := rename_dir_cached_entries dur c a b hi hst hne hrb hrl k hu
  refine ⟨by rw [l1]; exact hk, ?_⟩
  rw [b1]
  exact (coherent_iff_view c.s).1 hi.inv.coh k d md hk

end Cache
end AferoVerif

/-! ## Part E — a name that is a directory in one layer and a regular file in the other -/

namespace AferoVerif
open MemFs
namespace Cache

/-- `Stat` of a cached name (hit, or local to the cache) is the cache layer's `Stat` -/
theorem stat_cached (c : Cow) (dur : Int) (p : Str)
    (h : cacheStatus c dur (keyOfStr p) = .hit ∨ cacheStatus c dur (keyOfStr p) = .local_) :
    Cache.step dur c (.stat p) = (c, c.s.l.stat (keyOfStr p)) := by
  simp only [Cache.step]
  rcases h with h | h <;> rw [h]

/-- `Stat` of an uncached or outdated name is the base's `Stat` -/
theorem stat_uncached (c : Cow) (dur : Int) (p : Str)
    (h : cacheStatus c dur (keyOfStr p) = .miss ∨ cacheStatus c dur (keyOfStr p) = .stale) :
    Cache.step dur c (.stat p) = (c, c.s.b.stat (keyOfStr p)) := by
  simp only [Cache.step]
  rcases h with h | h <;> rw [h]

/-- **coherent layers exclude one of the two clashes**: a regular file of the cache layer is a regular file
    of the base — never a directory there.  (The other clash, a directory of the cache layer over a regular
    file of the base, is compatible with `Coherent`.) -/
theorem coherent_no_file_over_dir (s : Layers) (hco : Coherent s) (k : Key) (lf bf : Nat)
    (hl : s.l.lookup k = some lf) (hf : (s.l.obj lf).dir = false) (hb : s.b.lookup k = some bf) :
    (s.b.obj bf).dir = false := by
  obtain ⟨bf', h1, h2, _⟩ := hco k lf hl hf
  have h1 : s.b.lookup k = some bf' := h1
  rw [hb] at h1; injection h1 with h1; subst h1; exact h2

theorem openRO_some (m : MemFs) (k : Key) (f : Nat) (h : m.lookup k = some f) :
    m.openRO k = ({ m with handles := m.handles ++ [{ obj := f, h := { readOnly := true } }] }, .handle m.handles.length none) := by
  unfold openRO addHandle; rw [h]

/-- **a cached DIRECTORY over a regular file of the base, while it is a hit** (for ever when the duration
    is zero): `Stat` answers with the cache layer's directory (size 42, the directory flag, the layer's mode) —
    the base's file is invisible; `Open` treats the name as a directory of both layers and hands out a UnionFile
    over a base handle on the FILE and a layer handle on the directory; nothing is copied. -/
theorem clash_dir_over_file_hit (c : Cow) (dur : Int) (p : Str) (ld bf : Nat)
    (hst : cacheStatus c dur (keyOfStr p) = .hit)
    (hl : c.s.l.lookup (keyOfStr p) = some ld) (hd : (c.s.l.obj ld).dir = true)
    (hb : c.s.b.lookup (keyOfStr p) = some bf) :
    (Cache.step dur c (.stat p)).2 = .info (baseName (c.s.l.obj ld).name) 42 true (c.s.l.obj ld).mode ∧
    (Cache.step dur c (.stat p)).1 = c ∧
    (Cache.step dur c (.open_ p)).2 = .handle c.hs.length none ∧
    (Cache.step dur c (.open_ p)).1.hs =
      c.hs ++ [.union { bi := c.s.b.handles.length, li := c.s.l.handles.length }] ∧
    ((Cache.step dur c (.open_ p)).1.s.b.handles[c.s.b.handles.length]?).map (·.obj) = some bf ∧
    ((Cache.step dur c (.open_ p)).1.s.l.handles[c.s.l.handles.length]?).map (·.obj) = some ld ∧
    view (Cache.step dur c (.open_ p)).1.s.b = view c.s.b ∧ view (Cache.step dur c (.open_ p)).1.s.l = view c.s.l := by
  refine ⟨?_, ?_, ?_⟩
  · rw [stat_cached c dur p (Or.inl hst)]
    simp only [stat, hl, hd, if_true]
  · rw [stat_cached c dur p (Or.inl hst)]
  · have e : Cache.step dur c (.open_ p) = unionOpen c (keyOfStr p) := by
      simp only [Cache.step, open_]
      rw [hst]
      simp only [hl, hd, Bool.not_true, Bool.false_eq_true, if_false]
    rw [e]
    unfold unionOpen
    rw [openRO_some _ _ _ hb, openRO_some _ _ _ hl]
    simp only [Cow.addH]
    refine ⟨trivial, trivial, ?_, ?_, rfl, rfl⟩ <;> simp

/-- **a cached regular FILE over a directory of the base, while it is a hit**: `Stat` answers with the cache
    layer's file (its length, no directory flag, its mode); `Open` hands out a handle on the layer's file;
    the base is not consulted.  (Coherent layers exclude this clash: `coherent_no_file_over_dir`.) -/
theorem clash_file_over_dir_hit (c : Cow) (dur : Int) (p : Str) (lf : Nat)
    (hst : cacheStatus c dur (keyOfStr p) = .hit)
    (hl : c.s.l.lookup (keyOfStr p) = some lf) (hf : (c.s.l.obj lf).dir = false) :
    (Cache.step dur c (.stat p)).2 =
      .info (baseName (c.s.l.obj lf).name) (c.s.l.obj lf).data.length false (c.s.l.obj lf).mode ∧
    (Cache.step dur c (.open_ p)).2 = .handle c.hs.length none ∧
    (Cache.step dur c (.open_ p)).1.hs = c.hs ++ [.layer c.s.l.handles.length] ∧
    (Cache.step dur c (.open_ p)).1.s.b = c.s.b := by
  refine ⟨?_, ?_⟩
  · rw [stat_cached c dur p (Or.inl hst)]
    simp only [stat, hl, hf, Bool.false_eq_true, if_false]
  · have e : Cache.step dur c (.open_ p) = layerOpen c (keyOfStr p) := by
      simp only [Cache.step, open_]
      rw [hst]
      simp only [hl, hf, Bool.not_false, if_true]
    rw [e]
    unfold layerOpen
    rw [openRO_some _ _ _ hl]
    simp only [Cow.addH, setL]
    exact ⟨trivial, trivial, trivial⟩

/-- **a cached regular file over a directory of the base, once it is STALE** (the base's directory is newer
    and the duration has passed): `Stat` answers with the base's directory; `Open` treats the name as a
    directory — a UnionFile over the base's directory handle and a layer handle on the FILE; nothing is
    copied (`Chmod` / `Chown` / `Chtimes` would copy: i/o error, as in Part B) -/
theorem clash_file_over_dir_stale (c : Cow) (dur : Int) (p : Str) (bd : Nat)
    (hst : cacheStatus c dur (keyOfStr p) = .stale)
    (hb : c.s.b.lookup (keyOfStr p) = some bd) (hd : (c.s.b.obj bd).dir = true) :
    (Cache.step dur c (.stat p)).2 = .info (baseName (c.s.b.obj bd).name) 42 true (c.s.b.obj bd).mode ∧
    Cache.step dur c (.open_ p) = unionOpen c (keyOfStr p) := by
  refine ⟨?_, ?_⟩
  · rw [stat_uncached c dur p (Or.inr hst)]
    simp only [stat, hb, hd, if_true]
  · simp only [Cache.step, open_]
    rw [hst]
    simp only [hb, hd, Bool.not_true, Bool.false_eq_true, if_false]

/-- **a cached directory over a regular file of the base, once it is STALE**: `Stat` answers with the base's
    file; `Open` copies the base's file into the cache layer — `Create` there REPLACES the directory entry by
    the copy (entries of the directory stay in the path map without a parent) — and serves the copy -/
theorem clash_dir_over_file_stale (c : Cow) (dur : Int) (p : Str) (bf : Nat)
    (hst : cacheStatus c dur (keyOfStr p) = .stale)
    (hb : c.s.b.lookup (keyOfStr p) = some bf) (hf : (c.s.b.obj bf).dir = false) :
    (Cache.step dur c (.stat p)).2 =
      .info (baseName (c.s.b.obj bf).name) (c.s.b.obj bf).data.length false (c.s.b.obj bf).mode ∧
    Cache.step dur c (.open_ p) = copyThenOpen c p (keyOfStr p) := by
  refine ⟨?_, ?_⟩
  · rw [stat_uncached c dur p (Or.inr hst)]
    simp only [stat, hb, hf, Bool.false_eq_true, if_false]
  · simp only [Cache.step, open_]
    rw [hst]
    simp only [hb, hf, Bool.not_false, if_true]

end Cache
end AferoVerif

/-! ## Non-vacuity: concrete states built by `MemFs.step` from `MemFs.init`

  `mB` is the base of the examples: `/a/b/f` = "hi", `/a/g` = 5, `/g` = 1 2 3.  `cMiss`: the cache layer is
  empty.  `cStaleDir`: both layers hold `/d` with the entry `/d/f`, the cached `/d` is stale.  `cStale`: the
  cache layer holds an outdated copy of `/g` with other bytes.  `cDir`: the cache layer holds `/a`, `/a/b`,
  `/a/b/f` but not `/a/g`.  `cClash`: the cache layer holds a DIRECTORY `/g` over the base's file `/g`. -/

namespace AferoVerif
open MemFs
namespace Cache

/-- a decidable sufficient condition for `CoherentOff` -/
theorem coherentOff_of_all (s : Layers) (k0 : Key)
    (h : (s.l.data.all fun e => decide (e.1 = k0) || (s.l.obj e.2).dir ||
      (match s.b.lookup e.1 with
       | some bf => !(s.b.obj bf).dir && decide ((s.b.obj bf).data = (s.l.obj e.2).data)
       | none => false)) = true) : CoherentOff s k0 := by
  intro k lf hk hl hd
  have hmem := mem_of_alLookup s.l.data k lf hl
  have := List.all_eq_true.1 h (k, lf) hmem
  simp only [hd, hk, decide_false, Bool.false_or] at this
  cases hb : s.b.lookup k with
  | none => rw [hb] at this; cases this
  | some bf =>
    rw [hb] at this
    simp only [Bool.and_eq_true, Bool.not_eq_true', decide_eq_true_eq] at this
    exact ⟨bf, rfl, this.1, this.2⟩

/-- a decidable sufficient condition for `Coherent` -/
theorem coherent_of_all (s : Layers)
    (h : (s.l.data.all fun e => (s.l.obj e.2).dir ||
      (match s.b.lookup e.1 with
       | some bf => !(s.b.obj bf).dir && decide ((s.b.obj bf).data = (s.l.obj e.2).data)
       | none => false)) = true) : Coherent s := by
  intro k lf hl hd
  have hmem := mem_of_alLookup s.l.data k lf hl
  have := List.all_eq_true.1 h (k, lf) hmem
  simp only [hd, Bool.false_or] at this
  cases hb : s.b.lookup k with
  | none => rw [hb] at this; cases this
  | some bf =>
    rw [hb] at this
    simp only [Bool.and_eq_true, Bool.not_eq_true', decide_eq_true_eq] at this
    exact ⟨bf, rfl, this.1, this.2⟩

/-- every state reached from the initial filesystem by a well-formed program is a consistent tree with one
    path-map entry per name and well-formed objects -/
theorem reach_ok (ops : List Op) (hw : WFrun MemFs.init ops) :
    Consistent (run MemFs.init ops) ∧ KeysNodup (run MemFs.init ops) ∧ ObjsOK (run MemFs.init ops) :=
  ⟨(consistent_run_wf ops _ consistent_init keysNodup_init hw).1, keysNodup_run ops _ keysNodup_init,
    objsOK_run ops _ objsOK_init⟩

/-- moving the clock changes nothing else -/
theorem treeOK_now (m : MemFs) (t : Int) (h : Consistent m ∧ KeysNodup m ∧ ObjsOK m) :
    Consistent { m with now := t } ∧ KeysNodup { m with now := t } ∧ ObjsOK { m with now := t } :=
  ⟨⟨h.1.inRange, h.1.nameEq, h.1.hasParent, h.1.noStale, h.1.root⟩, h.2.1, fun j => h.2.2 j⟩

theorem tree_step (m : MemFs) (op : Op) (h : Consistent m ∧ KeysNodup m ∧ ObjsOK m) (hw : WFop m op) :
    Consistent (m.step op).1 ∧ KeysNodup (m.step op).1 ∧ ObjsOK (m.step op).1 :=
  ⟨consistent_step_wf m op h.1 h.2.1 hw, keysNodup_step m op h.2.1, objsOK_step m op h.2.2⟩

theorem treesOK_mk (b l : MemFs) (hb : Consistent b ∧ KeysNodup b ∧ ObjsOK b)
    (hl : Consistent l ∧ KeysNodup l ∧ ObjsOK l) : TreesOK { s := { b := b, l := l } } :=
  ⟨hb.1, hb.2.1, hl.1, hl.2.1, hb.2.2, hl.2.2⟩

theorem init_ok : Consistent MemFs.init ∧ KeysNodup MemFs.init ∧ ObjsOK MemFs.init :=
  ⟨consistent_init, keysNodup_init, objsOK_init⟩

/-- the base of the examples: `/a/b/f` = "hi", `/a/g` = 5, `/g` = 1 2 3
    (objects: 1 = `/a/b`, 2 = `/a`, 3 = `/a/b/f`, 4 = `/a/g`, 5 = `/g`) -/
def mProg : List Op := [.mkdirAll "/a/b".toList 0o755, .create "/a/b/f".toList, .hWrite 0 [104, 105],
  .create "/a/g".toList, .hWrite 1 [5], .create "/g".toList, .hWrite 2 [1, 2, 3], .hClose 0, .hClose 1, .hClose 2]
def mB : MemFs := run MemFs.init mProg

theorem mProg_wf : WFrun MemFs.init mProg :=
  ⟨trivial, (fun f h => nomatch (h.symm.trans (by decide : _ = none))), trivial,
    (fun f h => nomatch (h.symm.trans (by decide : _ = none))), trivial,
    (fun f h => nomatch (h.symm.trans (by decide : _ = none))), trivial, trivial, trivial, trivial, trivial⟩

theorem mB_ok : Consistent mB ∧ KeysNodup mB ∧ ObjsOK mB := reach_ok mProg mProg_wf

/-- the cache layer is empty: every name is a miss -/
def cMiss : Cow := { s := { b := mB, l := MemFs.init } }

theorem invOK_cMiss : InvOK cMiss := invOK_of (coherent_of_all _ (by decide)) (treesOK_mk _ _ mB_ok init_ok)

/-- `/a/b` is a directory only the base holds, and the cache layer lacks its parent `/a` too -/
theorem uncachedBaseDir_cMiss : UncachedBaseDir cMiss "/a/b".toList :=
  ⟨by decide, ⟨1, by decide, by decide⟩, by decide, fun q h => nomatch (h.symm.trans (by decide : _ = none))⟩

/-- `/a` is a directory only the base holds; the cache layer holds its parent, the root -/
theorem uncachedBaseDir_cMiss' : UncachedBaseDir cMiss "/a".toList :=
  ⟨by decide, ⟨2, by decide, by decide⟩, by decide, fun q h => by
    have e : cMiss.s.l.lookup (keyOfStr (Path.dir "/a".toList)) = some 0 := by decide
    rw [e] at h; injection h with h; subst h; decide⟩

/-! ### Part B, where the invariant breaks: the cached directory is STALE -/

/-- `/d` (object 1) with the entry `/d/f` = 7 (object 2) -/
def dProg : List Op := [.mkdir "/d".toList 0o755, .create "/d/f".toList, .hWrite 0 [7], .hClose 0]
def mD : MemFs := run MemFs.init dProg

theorem dProg_wf : WFrun MemFs.init dProg :=
  ⟨trivial, (fun f h => nomatch (h.symm.trans (by decide : _ = none))), trivial, trivial, trivial⟩

theorem mD_ok : Consistent mD ∧ KeysNodup mD ∧ ObjsOK mD := reach_ok dProg dProg_wf

/-- both layers hold `/d` and `/d/f`; the base's `/d` has been touched (time 50) after the cache layer's copy
    was made (time 0), and the cache layer's clock stands at 100: with duration 10, `/d` is stale -/
def cStaleDir : Cow :=
  { s := { b := (mD.step (.chtimes "/d".toList 50)).1, l := { mD with now := 100 } } }

theorem invOK_cStaleDir : InvOK cStaleDir :=
  invOK_of (coherent_of_all _ (by decide)) (treesOK_mk _ _ (tree_step mD _ mD_ok trivial) (treeOK_now mD 100 mD_ok))

/-- **Chmod of a STALE cached directory breaks the cache layer's tree.**  In `cStaleDir` the invariant holds
    and `/d` is a stale directory of both layers.  `Chmod /d` answers the i/o error; the base still has `/d`;
    but in the cache layer the name `/d` is GONE (the copy-up has replaced the directory by a file and removed
    it again) while its entry `/d/f` is still in the path map: the clause `hasParent` of `Consistent` fails for
    the cache layer (`Inv.cl`).  `Coherent` itself still holds. -/
theorem staleDir_breaks_layer :
    InvOK cStaleDir ∧ cacheStatus cStaleDir 10 (keyOfStr "/d".toList) = .stale ∧
    (Cache.step 10 cStaleDir (.chmod "/d".toList 0o700)).2 = .err .io ∧
    (Cache.step 10 cStaleDir (.chmod "/d".toList 0o700)).1.s.b.lookup (keyOfStr "/d".toList) = some 1 ∧
    (Cache.step 10 cStaleDir (.chmod "/d".toList 0o700)).1.s.l.lookup (keyOfStr "/d".toList) = none ∧
    (Cache.step 10 cStaleDir (.chmod "/d".toList 0o700)).1.s.l.lookup (keyOfStr "/d/f".toList) = some 2 ∧
    ¬ Consistent (Cache.step 10 cStaleDir (.chmod "/d".toList 0o700)).1.s.l ∧
    Coherent (Cache.step 10 cStaleDir (.chmod "/d".toList 0o700)).1.s := by
  refine ⟨invOK_cStaleDir, by decide, by decide, by decide, by decide, by decide, ?_, coherent_of_all _ (by decide)⟩
  intro h
  obtain ⟨p, d, hp, _, _⟩ := h.hasParent (keyOfStr "/d/f".toList) 2 (by decide) (by decide)
  have e : (Cache.step 10 cStaleDir (.chmod "/d".toList 0o700)).1.s.l.lookup (parentKey (keyOfStr "/d/f".toList)) = none := by
    decide
  rw [e] at hp; cases hp

/-! ### Part C: `rename /a/b/f /a/b/h` with an empty cache layer (miss), `rename /g /h` with an outdated copy -/

theorem uncachedFile_cMiss : UncachedFile cMiss 0 "/a/b/f".toList 3 :=
  ⟨Or.inl (by decide), by decide, by decide, by decide, fun lf h => nomatch (h.symm.trans (by decide : _ = none))⟩

theorem renameLeaf_mB : RenameLeaf mB (keyOfStr "/a/b/f".toList) (keyOfStr "/a/b/h".toList) :=
  ⟨3, by decide, Or.inl (by decide), by decide, by decide, by decide, by decide,
    ⟨1, _, by decide, rfl⟩, Or.inl (by decide), by decide⟩

/-- the cache layer after the copy-up holds `/a` (2), `/a/b` (1), `/a/b/f` (3) -/
theorem renameLeaf_cMiss_layer :
    RenameLeaf (layerBefore cMiss 0 "/a/b/f".toList) (keyOfStr "/a/b/f".toList) (keyOfStr "/a/b/h".toList) :=
  ⟨3, by decide, Or.inl (by decide), by decide, by decide, by decide, by decide,
    ⟨1, _, by decide, rfl⟩, Or.inl (by decide), by decide⟩

/-- an outdated copy of `/g` (9 9, made at time 0) -/
def gProg : List Op := [.create "/g".toList, .hWrite 0 [9, 9], .hClose 0]
def mG : MemFs := run MemFs.init gProg

theorem gProg_wf : WFrun MemFs.init gProg :=
  ⟨(fun f h => nomatch (h.symm.trans (by decide : _ = none))), trivial, trivial, trivial⟩

theorem mG_ok : Consistent mG ∧ KeysNodup mG ∧ ObjsOK mG := reach_ok gProg gProg_wf

/-- the base's `/g` (1 2 3) was rewritten at time 50, the cache layer's copy (9 9) dates from time 0, the
    clock stands at 100: with duration 10, `/g` is stale — and the layers are NOT coherent at `/g` -/
def cStale : Cow := { s := { b := (mB.step (.chtimes "/g".toList 50)).1, l := { mG with now := 100 } } }

theorem treesOK_cStale : TreesOK cStale := treesOK_mk _ _ (tree_step mB _ mB_ok trivial) (treeOK_now mG 100 mG_ok)

theorem coherentOff_cStale : CoherentOff cStale.s (keyOfStr "/g".toList) := coherentOff_of_all _ _ (by decide)

theorem not_coherent_cStale : ¬ Coherent cStale.s := by
  intro h
  obtain ⟨bf, h1, _, h3⟩ := h (keyOfStr "/g".toList) 1 (by decide) (by decide)
  have e : cStale.s.b.lookup (keyOfStr "/g".toList) = some 5 := by decide
  have h1 : cStale.s.b.lookup (keyOfStr "/g".toList) = some bf := h1
  rw [e] at h1; injection h1 with h1; subst h1
  revert h3; decide

theorem uncachedFile_cStale : UncachedFile cStale 10 "/g".toList 5 :=
  ⟨Or.inr (by decide), by decide, by decide, by decide, fun lf h => by
    have e : cStale.s.l.lookup (keyOfStr "/g".toList) = some 1 := by decide
    rw [e] at h; injection h with h; subst h; decide⟩

theorem renameLeaf_cStale_base : RenameLeaf cStale.s.b (keyOfStr "/g".toList) (keyOfStr "/h".toList) :=
  ⟨5, by decide, Or.inl (by decide), by decide, by decide, by decide, by decide,
    ⟨0, _, by decide, rfl⟩, Or.inl (by decide), by decide⟩

theorem renameLeaf_cStale_layer :
    RenameLeaf (layerBefore cStale 10 "/g".toList) (keyOfStr "/g".toList) (keyOfStr "/h".toList) :=
  ⟨1, by decide, Or.inl (by decide), by decide, by decide, by decide, by decide,
    ⟨0, _, by decide, rfl⟩, Or.inl (by decide), by decide⟩

/-! ### Part D: `rename /a /z`; the cache layer holds `/a`, `/a/b`, `/a/b/f` but not `/a/g` -/

def lProg : List Op := [.mkdirAll "/a/b".toList 0o755, .create "/a/b/f".toList, .hWrite 0 [104, 105], .hClose 0]
def mL : MemFs := run MemFs.init lProg

theorem lProg_wf : WFrun MemFs.init lProg :=
  ⟨trivial, (fun f h => nomatch (h.symm.trans (by decide : _ = none))), trivial, trivial, trivial⟩

theorem mL_ok : Consistent mL ∧ KeysNodup mL ∧ ObjsOK mL := reach_ok lProg lProg_wf

def cDir : Cow := { s := { b := mB, l := mL } }

theorem invOK_cDir : InvOK cDir := invOK_of (coherent_of_all _ (by decide)) (treesOK_mk _ _ mB_ok mL_ok)

theorem renameSubtree_cDir_base : RenameSubtree cDir.s.b (keyOfStr "/a".toList) (keyOfStr "/z".toList) :=
  ⟨2, by decide, by decide, by decide, by decide, by decide, 0, _, by decide, rfl⟩

theorem renameSubtree_cDir_layer : RenameSubtree cDir.s.l (keyOfStr "/a".toList) (keyOfStr "/z".toList) :=
  ⟨2, by decide, by decide, by decide, by decide, by decide, 0, _, by decide, rfl⟩

/-! ### Part E: the cache layer holds a DIRECTORY `/g` over the base's regular file `/g` -/

def cClash : Cow := { s := { b := mB, l := run MemFs.init [.mkdir "/g".toList 0o755] } }

theorem invOK_cClash : InvOK cClash :=
  invOK_of (coherent_of_all _ (by decide)) (treesOK_mk _ _ mB_ok (reach_ok _ ⟨trivial, trivial⟩))

/-- the other way round (a regular file of the cache layer over a directory of the base) — not coherent -/
def cClash' : Cow := { s := { b := run MemFs.init [.mkdir "/g".toList 0o755], l := mB } }

/-- `cClash` once the cached directory `/g` is stale: the base's file `/g` was touched at time 50, the cache layer's
    clock stands at 100 (duration 10) -/
def cClashStale : Cow :=
  { s := { b := (mB.step (.chtimes "/g".toList 50)).1,
           l := { (run MemFs.init [.mkdir "/g".toList 0o755]) with now := 100 } } }

/-- `cClash'` once the cached file `/g` is stale -/
def cClashStale' : Cow :=
  { s := { b := ((run MemFs.init [.mkdir "/g".toList 0o755]).step (.chtimes "/g".toList 50)).1,
           l := { mB with now := 100 } } }

end Cache
end AferoVerif
