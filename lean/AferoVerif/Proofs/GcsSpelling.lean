/-
  Helper lemmas for property C20 (folder part): the spelling of a gcsfs name does not matter.

  gcsfs accepts a name with an optional `gs://` prefix, one optional leading separator, backslashes
  for separators and — for `Mkdir` / `MkdirAll` — an optional trailing separator.  Every `Fs` method
  looks at its argument through `normName` or `normDir` only, so two spellings behave alike as soon as
  they normalise alike.  This file proves when they do, with the exact side conditions: the `gs://`
  prefix is recognised *before* backslashes are rewritten (so `gs:\\…` is no prefix, and `gs:/` + `/`
  becomes one), and only *one* leading separator is dropped.
-/
import AferoVerif.Proofs.GcsRemoveAll
namespace AferoVerif.Gcs

/-! ### vocabulary -/

/-- the all-backslash spelling of a name: every separator written as a backslash -/
def backslashed (n : Name) : Name := n.map fun c => if c = sep then '\\' else c

/-- `gs:/`, the one name that turns into the `gs://` prefix when a separator is appended -/
def gs4 : Name := ['g', 's', ':', '/']

/-! ### `normSeps` -/

theorem normSeps_append (a b : Name) : normSeps (a ++ b) = normSeps a ++ normSeps b := by
  simp [normSeps]

theorem normSeps_idem (n : Name) : normSeps (normSeps n) = normSeps n := by
  unfold normSeps
  rw [List.map_map]
  apply List.map_congr_left
  intro c _
  by_cases h : c = '\\' <;> simp [h, sep]

theorem normSeps_snoc_sep (n : Name) : normSeps (n ++ [sep]) = normSeps n ++ [sep] := by
  simp [normSeps, sep]

theorem normSeps_snoc_bs (n : Name) : normSeps (n ++ ['\\']) = normSeps n ++ [sep] := by
  simp [normSeps]

theorem normSeps_backslashed (n : Name) : normSeps (backslashed n) = normSeps n := by
  unfold normSeps backslashed
  rw [List.map_map]
  apply List.map_congr_left
  intro c _
  by_cases h : c = sep
  · subst h; simp [sep]
  · simp [h]

theorem normSeps_gsPrefix : normSeps gsPrefix = gsPrefix := by decide

theorem normSeps_eq_nil {n : Name} : normSeps n = [] ↔ n = [] := by simp [normSeps]

/-- a name without backslashes is a fixed point -/
theorem normSeps_of_noBs (n : Name) (h : '\\' ∉ n) : normSeps n = n := by
  unfold normSeps
  conv => rhs; rw [← List.map_id n]
  apply List.map_congr_left
  intro c hc
  have : c ≠ '\\' := fun e => h (e ▸ hc)
  simp [this]

theorem normSeps_getLast (x : Name) (h1 : x.getLast? ≠ some sep) (h2 : x.getLast? ≠ some '\\') :
    (normSeps x).getLast? ≠ some sep := by
  unfold normSeps
  rw [List.getLast?_map]
  cases hx : x.getLast? with
  | none => simp
  | some c =>
    rw [hx] at h1 h2
    have c1 : c ≠ sep := fun e => h1 (by rw [e])
    have c2 : c ≠ '\\' := fun e => h2 (by rw [e])
    simp [c2, c1]

/-! ### `ensureNoPrefix` -/

theorem ensureNoPrefix_of_not (n : Name) (h : ¬ gsPrefix <+: n) : ensureNoPrefix n = n := by
  unfold ensureNoPrefix
  rw [if_neg]
  rwa [List.isPrefixOf_iff_prefix]

theorem ensureNoPrefix_gs (t : Name) : ensureNoPrefix (gsPrefix ++ t) = t := by
  unfold ensureNoPrefix
  rw [if_pos (List.isPrefixOf_iff_prefix.mpr (List.prefix_append _ _))]
  simp

theorem ensureNoPrefix_cases (n : Name) :
    (¬ gsPrefix <+: n ∧ ensureNoPrefix n = n) ∨ (∃ t, n = gsPrefix ++ t ∧ ensureNoPrefix n = t) := by
  by_cases h : gsPrefix <+: n
  · obtain ⟨t, rfl⟩ := h
    exact Or.inr ⟨t, rfl, ensureNoPrefix_gs t⟩
  · exact Or.inl ⟨h, ensureNoPrefix_of_not n h⟩

/-- appending one character creates the prefix only in the case `gs:/` + `/` -/
theorem gsPrefix_snoc (n : Name) (c : Char) (h : gsPrefix <+: n ++ [c]) :
    gsPrefix <+: n ∨ (n = gs4 ∧ c = sep) := by
  rcases n with _ | ⟨a1, _ | ⟨a2, _ | ⟨a3, _ | ⟨a4, _ | ⟨a5, t⟩⟩⟩⟩⟩
  · simp [gsPrefix] at h
  · simp [gsPrefix] at h
  · simp [gsPrefix] at h
  · simp [gsPrefix] at h
  · right
    simp [gsPrefix] at h
    obtain ⟨h1, h2, h3, h4, h5⟩ := h
    subst h1 h2 h3 h4 h5
    exact ⟨rfl, rfl⟩
  · left
    simp only [gsPrefix, List.cons_append, List.cons_prefix_cons] at h ⊢
    obtain ⟨h1, h2, h3, h4, h5, _⟩ := h
    exact ⟨h1, h2, h3, h4, h5, List.nil_prefix⟩

theorem ensureNoPrefix_snoc (n : Name) (c : Char) (h : ¬ (n = gs4 ∧ c = sep)) :
    ensureNoPrefix (n ++ [c]) = ensureNoPrefix n ++ [c] := by
  rcases ensureNoPrefix_cases n with ⟨hn, e⟩ | ⟨t, rfl, e⟩
  · rw [e]
    apply ensureNoPrefix_of_not
    intro hp
    rcases gsPrefix_snoc n c hp with h1 | h1
    · exact hn h1
    · exact h h1
  · rw [e, List.append_assoc, ensureNoPrefix_gs]

theorem not_gsPrefix_backslashed (n : Name) : ¬ gsPrefix <+: backslashed n := by
  intro h
  have h1 : sep ∈ backslashed n := h.subset (by simp [gsPrefix, sep])
  unfold backslashed at h1
  rw [List.mem_map] at h1
  obtain ⟨c, _, hc⟩ := h1
  by_cases e : c = sep
  · rw [if_pos e] at hc; revert hc; simp [sep]
  · rw [if_neg e] at hc; exact e hc

theorem prefix_normSeps {a b : Name} (h : a <+: b) : normSeps a <+: normSeps b := List.IsPrefix.map _ h

theorem ensureNoPrefix_getLast (n : Name) (h : n.getLast? ≠ some sep) :
    (ensureNoPrefix n).getLast? = n.getLast? := by
  rcases ensureNoPrefix_cases n with ⟨_, e⟩ | ⟨t, rfl, e⟩
  · rw [e]
  · rw [e, List.getLast?_append]
    cases ht : t.getLast? with
    | some c => simp
    | none =>
      exfalso
      rw [List.getLast?_eq_none_iff] at ht
      subst ht
      exact h (by simp [gsPrefix, sep])

/-! ### `ensureTrailing`, `ensureNoLeading` -/

theorem ensureTrailing_nil : ensureTrailing [] = [] := by simp [ensureTrailing]

theorem ensureTrailing_snoc_sep (m : Name) : ensureTrailing (m ++ [sep]) = m ++ [sep] := by
  simp [ensureTrailing]

theorem ensureTrailing_of_open (m : Name) (hm : m ≠ []) (hl : m.getLast? ≠ some sep) :
    ensureTrailing m = m ++ [sep] := by
  simp [ensureTrailing, hm, hl]

theorem ensureTrailing_idem (m : Name) : ensureTrailing (ensureTrailing m) = ensureTrailing m := by
  by_cases h : m ≠ [] ∧ m.getLast? ≠ some sep
  · rw [ensureTrailing_of_open m h.1 h.2, ensureTrailing_snoc_sep]
  · have : ensureTrailing m = m := by unfold ensureTrailing; rw [if_neg h]
    rw [this, this]

theorem ensureTrailing_cons (c : Char) (t : Name) (ht : t ≠ []) :
    ensureTrailing (c :: t) = c :: ensureTrailing t := by
  obtain ⟨d, u, rfl⟩ : ∃ d u, t = d :: u := by
    cases t with
    | nil => exact absurd rfl ht
    | cons d u => exact ⟨d, u, rfl⟩
  unfold ensureTrailing
  rw [List.getLast?_cons_cons]
  by_cases h : (d :: u).getLast? = some sep
  · simp [h]
  · simp [h]

/-- either nothing, or a name ending in the separator -/
theorem ensureTrailing_shape (m : Name) : ensureTrailing m = [] ∨ (ensureTrailing m).getLast? = some sep := by
  unfold ensureTrailing
  by_cases h : m ≠ [] ∧ m.getLast? ≠ some sep
  · rw [if_pos h]; right; simp
  · rw [if_neg h]
    by_cases hm : m = []
    · left; exact hm
    · right
      apply Classical.byContradiction
      intro hl
      exact h ⟨hm, hl⟩

theorem ensureNoLeading_of_head (m : Name) (h : m.head? ≠ some sep) : ensureNoLeading m = m := by
  cases m with
  | nil => rfl
  | cons c t =>
    have : c ≠ sep := fun e => h (by simp [e])
    simp [ensureNoLeading, this]

theorem ensureNoLeading_sep (m : Name) : ensureNoLeading (sep :: m) = m := by simp [ensureNoLeading]

theorem ensureNoLeading_snoc (m : Name) (c : Char) (hm : m ≠ []) :
    ensureNoLeading (m ++ [c]) = ensureNoLeading m ++ [c] := by
  cases m with
  | nil => exact absurd rfl hm
  | cons d t =>
    by_cases h : d = sep
    · simp [ensureNoLeading, h]
    · simp [ensureNoLeading, h]

/-- the two trimming steps of `normDir` commute -/
theorem ensureNoLeading_ensureTrailing (m : Name) :
    ensureNoLeading (ensureTrailing m) = ensureTrailing (ensureNoLeading m) := by
  cases m with
  | nil => simp [ensureTrailing, ensureNoLeading]
  | cons c t =>
    by_cases ht : t = []
    · subst ht
      by_cases h : c = sep
      · subst h; simp [ensureTrailing, ensureNoLeading]
      · simp [ensureTrailing, ensureNoLeading, h]
    · rw [ensureTrailing_cons c t ht]
      by_cases h : c = sep
      · subst h; rw [ensureNoLeading_sep, ensureNoLeading_sep]
      · have e1 : ensureNoLeading (c :: ensureTrailing t) = c :: ensureTrailing t := by
          simp [ensureNoLeading, h]
        have e2 : ensureNoLeading (c :: t) = c :: t := by simp [ensureNoLeading, h]
        rw [e1, e2, ensureTrailing_cons c t ht]

/-! ### `normDir` through `normName` -/

/-- `Mkdir`'s normalisation is `Stat`'s normalisation plus the trailing separator -/
theorem normDir_eq (n : Name) : normDir n = ensureTrailing (normName n) := by
  unfold normDir normName
  exact ensureNoLeading_ensureTrailing _

/-- the result of `normDir` is empty or ends in the separator -/
theorem normDir_shape (n : Name) : normDir n = [] ∨ (normDir n).getLast? = some sep := by
  rw [normDir_eq]; exact ensureTrailing_shape _

/-! ### the core of a name that has no trailing separator -/

theorem core_nil_iff (n : Name) (h : n.getLast? ≠ some sep) : normSeps (ensureNoPrefix n) = [] ↔ n = [] := by
  rw [normSeps_eq_nil]
  constructor
  · intro e
    have := ensureNoPrefix_getLast n h
    rw [e] at this
    exact List.getLast?_eq_none_iff.mp this.symm
  · intro e; subst e; rfl

theorem core_getLast (n : Name) (h1 : n.getLast? ≠ some sep) (h2 : n.getLast? ≠ some '\\') :
    (normSeps (ensureNoPrefix n)).getLast? ≠ some sep := by
  apply normSeps_getLast
  · rw [ensureNoPrefix_getLast n h1]; exact h1
  · rw [ensureNoPrefix_getLast n h1]; exact h2

/-! ### item 1: trailing separators and `normDir` -/

/-- a trailing separator, in either spelling, on a name that has none: same `normDir` -/
theorem normDir_snoc (n : Name) (c : Char) (hc : c = sep ∨ c = '\\')
    (h1 : n.getLast? ≠ some sep) (h2 : n.getLast? ≠ some '\\') : normDir (n ++ [c]) = normDir n := by
  have hg : ¬ (n = gs4 ∧ c = sep) := by
    rintro ⟨e, _⟩
    exact h1 (by rw [e]; rfl)
  have hs : normSeps (ensureNoPrefix (n ++ [c])) = normSeps (ensureNoPrefix n) ++ [sep] := by
    rw [ensureNoPrefix_snoc n c hg]
    rcases hc with rfl | rfl
    · exact normSeps_snoc_sep _
    · exact normSeps_snoc_bs _
  unfold normDir
  rw [hs, ensureTrailing_snoc_sep]
  by_cases hm : normSeps (ensureNoPrefix n) = []
  · rw [hm]; simp [ensureTrailing, ensureNoLeading]
  · rw [ensureTrailing_of_open _ hm (core_getLast n h1 h2)]

/-- a trailing backslash is a trailing separator — except after `gs:/` -/
theorem normDir_bs_eq_sep (n : Name) (h : n ≠ gs4) : normDir (n ++ ['\\']) = normDir (n ++ [sep]) := by
  unfold normDir
  rw [ensureNoPrefix_snoc n '\\' (by simp [sep]), ensureNoPrefix_snoc n sep (fun e => h e.1),
    normSeps_snoc_bs, normSeps_snoc_sep]

/-- the exception is real -/
theorem normDir_bs_ne_sep_gs4 : normDir (gs4 ++ ['\\']) ≠ normDir (gs4 ++ [sep]) := by decide

theorem normDir_bs_eq_sep_iff (n : Name) : normDir (n ++ ['\\']) = normDir (n ++ [sep]) ↔ n ≠ gs4 := by
  constructor
  · intro e h
    subst h
    exact normDir_bs_ne_sep_gs4 e
  · exact normDir_bs_eq_sep n

/-- from a name with no trailing separator `normDir` makes a name with exactly one -/
theorem normDir_one_trailing (n : Name) (hn : n ≠ []) (h1 : n.getLast? ≠ some sep) (h2 : n.getLast? ≠ some '\\') :
    ∃ m, normDir n = m ++ [sep] ∧ m ≠ [] ∧ m.getLast? ≠ some sep := by
  have hm : normSeps (ensureNoPrefix n) ≠ [] := fun e => hn ((core_nil_iff n h1).mp e)
  have hl := core_getLast n h1 h2
  refine ⟨ensureNoLeading (normSeps (ensureNoPrefix n)), ?_, ?_, ?_⟩
  · unfold normDir
    rw [ensureTrailing_of_open _ hm hl, ensureNoLeading_snoc _ _ hm]
  · intro e
    cases hx : normSeps (ensureNoPrefix n) with
    | nil => exact hm hx
    | cons d t =>
      rw [hx] at e hl
      by_cases hd : d = sep
      · subst hd
        rw [ensureNoLeading_sep] at e
        subst e
        exact hl rfl
      · simp [ensureNoLeading, hd] at e
  · cases hx : normSeps (ensureNoPrefix n) with
    | nil => exact absurd hx hm
    | cons d t =>
      rw [hx] at hl
      by_cases hd : d = sep
      · subst hd
        rw [ensureNoLeading_sep]
        cases t with
        | nil => simp
        | cons e u => rwa [List.getLast?_cons_cons] at hl
      · have : ensureNoLeading (d :: t) = d :: t := by simp [ensureNoLeading, hd]
        rw [this]; exact hl

/-! ### names that differ in the spelling of separators only -/

/-- same name up to the spelling of separators, the `gs://` prefix (which must be spelled with
    separators) aside: same `normName` -/
theorem normName_congr (a b : Name) (ha : ¬ gsPrefix <+: a) (hb : ¬ gsPrefix <+: b)
    (h : normSeps a = normSeps b) : normName a = normName b := by
  unfold normName
  rw [ensureNoPrefix_of_not a ha, ensureNoPrefix_of_not b hb, h]

theorem normDir_congr (a b : Name) (ha : ¬ gsPrefix <+: a) (hb : ¬ gsPrefix <+: b)
    (h : normSeps a = normSeps b) : normDir a = normDir b := by
  rw [normDir_eq, normDir_eq, normName_congr a b ha hb h]

theorem normName_backslashed (n : Name) (h : ¬ gsPrefix <+: n) : normName (backslashed n) = normName n :=
  normName_congr _ _ (not_gsPrefix_backslashed n) h (normSeps_backslashed n)

theorem normDir_backslashed (n : Name) (h : ¬ gsPrefix <+: n) : normDir (backslashed n) = normDir n :=
  normDir_congr _ _ (not_gsPrefix_backslashed n) h (normSeps_backslashed n)

/-- behind a `gs://` prefix (spelled with separators) the rest may be spelled with backslashes -/
theorem normName_gs_backslashed (t : Name) : normName (gsPrefix ++ backslashed t) = normName (gsPrefix ++ t) := by
  unfold normName
  rw [ensureNoPrefix_gs, ensureNoPrefix_gs, normSeps_backslashed]

theorem length_ensureTrailing_le (m : Name) : (ensureTrailing m).length ≤ m.length + 1 := by
  unfold ensureTrailing; split <;> simp

theorem length_le_ensureTrailing (m : Name) : m.length ≤ (ensureTrailing m).length := by
  unfold ensureTrailing; split <;> simp

theorem length_ensureNoLeading_le (m : Name) : (ensureNoLeading m).length ≤ m.length := by
  cases m with
  | nil => simp [ensureNoLeading]
  | cons c t =>
    by_cases h : c = sep
    · simp [ensureNoLeading, h]
    · simp [ensureNoLeading, h]

theorem length_normSeps (m : Name) : (normSeps m).length = m.length := by simp [normSeps]

/-- … and the side condition is exact: a `gs://` prefix spelled with backslashes is no prefix -/
theorem normName_backslashed_iff (n : Name) : normName (backslashed n) = normName n ↔ ¬ gsPrefix <+: n := by
  refine ⟨?_, normName_backslashed n⟩
  rintro e ⟨t, rfl⟩
  have h1 : (normName (gsPrefix ++ t)).length ≤ t.length := by
    unfold normName
    rw [ensureNoPrefix_gs]
    exact Nat.le_trans (length_ensureNoLeading_le _) (Nat.le_of_eq (length_normSeps t))
  have h2 : normName (backslashed (gsPrefix ++ t)) = gsPrefix ++ normSeps t := by
    unfold normName
    rw [ensureNoPrefix_of_not _ (not_gsPrefix_backslashed _), normSeps_backslashed, normSeps_append,
      normSeps_gsPrefix]
    exact ensureNoLeading_of_head _ (by simp [gsPrefix, sep])
  rw [h2] at e
  rw [← e] at h1
  simp [gsPrefix, length_normSeps] at h1
  omega

theorem normDir_backslashed_iff (n : Name) : normDir (backslashed n) = normDir n ↔ ¬ gsPrefix <+: n := by
  refine ⟨?_, normDir_backslashed n⟩
  rintro e ⟨t, rfl⟩
  have h1 : (normDir (gsPrefix ++ t)).length ≤ t.length + 1 := by
    unfold normDir
    rw [ensureNoPrefix_gs]
    refine Nat.le_trans (length_ensureNoLeading_le _) (Nat.le_trans (length_ensureTrailing_le _) ?_)
    exact Nat.le_of_eq (by rw [length_normSeps])
  have h2 : t.length + 5 ≤ (normDir (backslashed (gsPrefix ++ t))).length := by
    rw [normDir_eq]
    refine Nat.le_trans ?_ (length_le_ensureTrailing _)
    have : normName (backslashed (gsPrefix ++ t)) = gsPrefix ++ normSeps t := by
      unfold normName
      rw [ensureNoPrefix_of_not _ (not_gsPrefix_backslashed _), normSeps_backslashed, normSeps_append,
        normSeps_gsPrefix]
      exact ensureNoLeading_of_head _ (by simp [gsPrefix, sep])
    rw [this]
    simp [gsPrefix, length_normSeps]
  rw [e] at h2
  omega

/-! ### item 3: prefix and leading separator -/

/-- the `gs://` prefix is optional (once) -/
theorem normName_gs (n : Name) (h : ¬ gsPrefix <+: n) : normName (gsPrefix ++ n) = normName n := by
  unfold normName
  rw [ensureNoPrefix_gs, ensureNoPrefix_of_not n h]

theorem normDir_gs (n : Name) (h : ¬ gsPrefix <+: n) : normDir (gsPrefix ++ n) = normDir n := by
  rw [normDir_eq, normDir_eq, normName_gs n h]

/-- one leading separator, in either spelling, is optional — on a name that starts with neither a
    separator nor the `gs://` prefix -/
theorem normName_lead (n : Name) (c : Char) (hc : c = sep ∨ c = '\\') (hg : ¬ gsPrefix <+: n)
    (h1 : n.head? ≠ some sep) (h2 : n.head? ≠ some '\\') : normName (c :: n) = normName n := by
  have hp : ¬ gsPrefix <+: c :: n := by
    intro h
    simp only [gsPrefix, List.cons_prefix_cons] at h
    rcases hc with rfl | rfl
    · exact absurd h.1 (by decide)
    · exact absurd h.1 (by decide)
  unfold normName
  rw [ensureNoPrefix_of_not _ hp, ensureNoPrefix_of_not n hg]
  have : normSeps (c :: n) = sep :: normSeps n := by
    rcases hc with rfl | rfl <;> simp [normSeps, sep]
  rw [this, ensureNoLeading_sep]
  symm
  apply ensureNoLeading_of_head
  unfold normSeps
  rw [List.head?_map]
  cases hx : n.head? with
  | none => simp
  | some d =>
    rw [hx] at h1 h2
    have d1 : d ≠ sep := fun e => h1 (by rw [e])
    have d2 : d ≠ '\\' := fun e => h2 (by rw [e])
    simp [d2, d1]

theorem normDir_lead (n : Name) (c : Char) (hc : c = sep ∨ c = '\\') (hg : ¬ gsPrefix <+: n)
    (h1 : n.head? ≠ some sep) (h2 : n.head? ≠ some '\\') : normDir (c :: n) = normDir n := by
  rw [normDir_eq, normDir_eq, normName_lead n c hc hg h1 h2]

/-- the three side conditions of `normName_lead` are needed -/
theorem normName_lead_counterexamples :
    normName (sep :: "/bkt/a".toList) ≠ normName "/bkt/a".toList ∧
    normName (sep :: "\\bkt/a".toList) ≠ normName "\\bkt/a".toList ∧
    normName (sep :: "gs://bkt/a".toList) ≠ normName "gs://bkt/a".toList ∧
    normName (gsPrefix ++ "gs://bkt/a".toList) ≠ normName "gs://bkt/a".toList := by decide

/-! ### canonical names and their accepted spellings -/

/-- a canonical name: no backslash, no `gs://` prefix, no leading separator (what `normName`
    returns for a well-formed argument; `fsName d` is canonical when `d` has no backslash) -/
structure Canon (n : Name) : Prop where
  noBs : '\\' ∉ n
  noGs : ¬ gsPrefix <+: n
  noLead : n.head? ≠ some sep

/-- the accepted spellings of the canonical name `n`: optional `gs://`, then one optional separator
    (either spelling), then `n` with any of its separators written as a backslash -/
inductive Spelling (n : Name) : Name → Prop
  | mk (pre lead body : Name) (hpre : pre = [] ∨ pre = gsPrefix)
      (hlead : lead = [] ∨ lead = [sep] ∨ lead = ['\\']) (hbody : normSeps body = n) :
      Spelling n (pre ++ lead ++ body)

/-- … and for a folder an optional trailing separator (either spelling) -/
inductive DirSpelling (n : Name) : Name → Prop
  | mk (m trail : Name) (hm : Spelling n m) (ht : trail = [] ∨ trail = [sep] ∨ trail = ['\\']) :
      DirSpelling n (m ++ trail)

theorem Spelling.self (n : Name) (hc : Canon n) : Spelling n n := by
  have := Spelling.mk (n := n) [] [] n (Or.inl rfl) (Or.inl rfl) (normSeps_of_noBs n hc.noBs)
  simpa using this

theorem Spelling.dir {n m : Name} (h : Spelling n m) : DirSpelling n m := by
  have := DirSpelling.mk m [] h (Or.inl rfl)
  simpa using this

theorem Spelling.backslashed (n : Name) (hc : Canon n) : Spelling n (backslashed n) := by
  have := Spelling.mk (n := n) [] [] (Gcs.backslashed n) (Or.inl rfl) (Or.inl rfl)
    (by rw [normSeps_backslashed, normSeps_of_noBs n hc.noBs])
  simpa using this

/-- every accepted spelling of a canonical name normalises to it -/
theorem normName_spelling (n n' : Name) (hc : Canon n) (h : Spelling n n') : normName n' = n := by
  obtain ⟨pre, lead, body, hpre, hlead, hbody⟩ := h
  have hA : ¬ gsPrefix <+: lead ++ body := by
    intro hp
    rcases hlead with rfl | rfl | rfl
    · have := prefix_normSeps hp
      rw [normSeps_gsPrefix, List.nil_append, hbody] at this
      exact hc.noGs this
    · simp only [gsPrefix, List.cons_append, List.nil_append, List.cons_prefix_cons] at hp
      exact absurd hp.1 (by decide)
    · simp only [gsPrefix, List.cons_append, List.nil_append, List.cons_prefix_cons] at hp
      exact absurd hp.1 (by decide)
  have hB : ensureNoLeading (normSeps (lead ++ body)) = n := by
    rw [normSeps_append, hbody]
    rcases hlead with rfl | rfl | rfl
    · exact ensureNoLeading_of_head n hc.noLead
    · simp [normSeps, ensureNoLeading, sep]
    · simp [normSeps, ensureNoLeading]
  unfold normName
  rcases hpre with rfl | rfl
  · rw [List.nil_append, ensureNoPrefix_of_not _ hA, hB]
  · rw [List.append_assoc, ensureNoPrefix_gs, hB]

theorem Canon.snoc_sep {n : Name} (hc : Canon n) (hn : n ≠ []) (hl : n.getLast? ≠ some sep) :
    Canon (n ++ [sep]) := by
  refine ⟨?_, ?_, ?_⟩
  · intro h
    rw [List.mem_append] at h
    rcases h with h | h
    · exact hc.noBs h
    · simp [sep] at h
  · intro h
    rcases gsPrefix_snoc n sep h with h1 | ⟨h1, _⟩
    · exact hc.noGs h1
    · exact hl (by rw [h1]; rfl)
  · cases n with
    | nil => exact absurd rfl hn
    | cons c t => exact hc.noLead

/-- every accepted folder spelling of a canonical name normalises to it plus one separator -/
theorem normDir_spelling (n n' : Name) (hc : Canon n) (hn : n ≠ []) (hl : n.getLast? ≠ some sep)
    (h : DirSpelling n n') : normDir n' = n ++ [sep] := by
  obtain ⟨m, trail, hm, ht⟩ := h
  have hsnoc : ∀ c, c = sep ∨ c = '\\' → normDir (m ++ [c]) = n ++ [sep] := by
    intro c hcc
    obtain ⟨pre, lead, body, hpre, hlead, hbody⟩ := hm
    have hb : normSeps (body ++ [c]) = n ++ [sep] := by
      rw [normSeps_append, hbody]
      rcases hcc with rfl | rfl <;> simp [normSeps, sep]
    have hs : Spelling (n ++ [sep]) (pre ++ lead ++ (body ++ [c])) := Spelling.mk pre lead (body ++ [c]) hpre hlead hb
    rw [← List.append_assoc] at hs
    rw [normDir_eq, normName_spelling _ _ (hc.snoc_sep hn hl) hs, ensureTrailing_snoc_sep]
  rcases ht with rfl | rfl | rfl
  · rw [List.append_nil, normDir_eq, normName_spelling n m hc hm, ensureTrailing_of_open n hn hl]
  · exact hsnoc sep (Or.inl rfl)
  · exact hsnoc '\\' (Or.inr rfl)

theorem canon_fsName (d : Name) (hnb : '\\' ∉ d) : Canon (fsName d) := by
  refine ⟨?_, ?_, ?_⟩
  · intro h
    simp [fsName, bkt, sep] at h
    exact hnb h
  · simp [fsName, bkt, gsPrefix]
  · simp [fsName, bkt, sep]

theorem fsName_ne_nil (d : Name) : fsName d ≠ [] := by simp [fsName, bkt]

theorem fsName_getLast (d : Name) (hd : d ≠ []) (hl : d.getLast? ≠ some sep) :
    (fsName d).getLast? ≠ some sep := by
  unfold fsName
  rw [show bkt ++ sep :: d = (bkt ++ [sep]) ++ d by simp, List.getLast?_append]
  cases hg : d.getLast? with
  | none => exact absurd (List.getLast?_eq_none_iff.mp hg) hd
  | some c => rw [hg] at hl; simpa using hl

/-! ### the operations look at names through `normName` / `normDir` only -/

theorem mkdirS_congr (s : Store) (a b : Name) (h : normDir a = normDir b) : mkdirS s a = mkdirS s b := by
  simp only [mkdirS, h]

theorem mkdirAllS_congr (s : Store) (a b : Name) (h : normDir a = normDir b) : mkdirAllS s a = mkdirAllS s b := by
  simp only [mkdirAllS, h]

theorem openFile_congr (st : St) (a b : Name) (flag : Nat) (h : normName a = normName b) :
    openFile st a flag = openFile st b flag := by
  simp only [openFile, h]

/-- two calls that differ in the spelling of their name arguments only -/
inductive SameOp : Op → Op → Prop
  | refl (o : Op) : SameOp o o
  | create {a b : Name} (h : normName a = normName b) : SameOp (.create a) (.create b)
  | openFile {a b : Name} (flag : Nat) (h : normName a = normName b) : SameOp (.openFile a flag) (.openFile b flag)
  | stat {a b : Name} (h : normName a = normName b) : SameOp (.stat a) (.stat b)
  | remove {a b : Name} (h : normName a = normName b) : SameOp (.remove a) (.remove b)
  | removeAll {a b : Name} (h : normName a = normName b) : SameOp (.removeAll a) (.removeAll b)
  | rename {a b a' b' : Name} (h : normName a = normName a') (h' : normName b = normName b') :
      SameOp (.rename a b) (.rename a' b')
  | mkdir {a b : Name} (h : normDir a = normDir b) : SameOp (.mkdir a) (.mkdir b)
  | mkdirAll {a b : Name} (h : normDir a = normDir b) : SameOp (.mkdirAll a) (.mkdirAll b)

/-- … have the same effect on the whole file system (bucket, registered resources, handles) and
    the same result -/
theorem step_sameOp (st : St) (o o' : Op) (h : SameOp o o') : step st o = step st o' := by
  cases h with
  | refl => rfl
  | create h => simp only [step, h]
  | openFile flag h => simp only [step]; exact openFile_congr st _ _ flag h
  | stat h => simp only [step, h]
  | remove h => simp only [step, h]
  | removeAll h => simp only [step, h]
  | rename h h' => simp only [step, h, h']
  | mkdir h => simp only [step, mkdirS_congr st.store _ _ h]
  | mkdirAll h => simp only [step, mkdirAllS_congr st.store _ _ h]

/-- a script: final state and the list of results -/
def runOps : St → List Op → St × List Out
  | st, [] => (st, [])
  | st, o :: os => ((runOps (step st o).1 os).1, (step st o).2 :: (runOps (step st o).1 os).2)

/-- two scripts that differ in the spelling of name arguments only -/
inductive SameOps : List Op → List Op → Prop
  | nil : SameOps [] []
  | cons {o o' : Op} {os os' : List Op} (h : SameOp o o') (t : SameOps os os') : SameOps (o :: os) (o' :: os')

theorem runOps_sameOp (os os' : List Op) (h : SameOps os os') :
    ∀ st, runOps st os = runOps st os' := by
  induction h with
  | nil => intro st; rfl
  | cons h _ ih =>
    intro st
    simp only [runOps, step_sameOp st _ _ h, ih]

/-! ### the lists of spellings the property names, for an arbitrary (not necessarily canonical) name -/

theorem backslashed_getLast (n : Name) (h1 : n.getLast? ≠ some sep) (h2 : n.getLast? ≠ some '\\') :
    (backslashed n).getLast? ≠ some sep ∧ (backslashed n).getLast? ≠ some '\\' := by
  unfold backslashed
  rw [List.getLast?_map]
  cases hx : n.getLast? with
  | none => simp
  | some c =>
    rw [hx] at h1 h2
    have c1 : c ≠ sep := fun e => h1 (by rw [e])
    have c2 : c ≠ '\\' := fun e => h2 (by rw [e])
    simp [c1, c2]

theorem backslashed_head (n : Name) (h1 : n.head? ≠ some sep) (h2 : n.head? ≠ some '\\') :
    (backslashed n).head? ≠ some sep ∧ (backslashed n).head? ≠ some '\\' := by
  unfold backslashed
  rw [List.head?_map]
  cases hx : n.head? with
  | none => simp
  | some c =>
    rw [hx] at h1 h2
    have c1 : c ≠ sep := fun e => h1 (by rw [e])
    have c2 : c ≠ '\\' := fun e => h2 (by rw [e])
    simp [c1, c2]

/-- folder spellings of `n` (a name with no trailing separator): trailing separator, trailing
    backslash; and, when `n` does not carry the `gs://` prefix, all backslashes with or without
    a trailing one -/
theorem normDir_spellings (n : Name) (h1 : n.getLast? ≠ some sep) (h2 : n.getLast? ≠ some '\\') :
    normDir (n ++ [sep]) = normDir n ∧ normDir (n ++ ['\\']) = normDir n ∧
    (¬ gsPrefix <+: n → normDir (backslashed n) = normDir n ∧ normDir (backslashed n ++ ['\\']) = normDir n) := by
  refine ⟨normDir_snoc n sep (Or.inl rfl) h1 h2, normDir_snoc n '\\' (Or.inr rfl) h1 h2, fun hg => ?_⟩
  have hb := backslashed_getLast n h1 h2
  refine ⟨normDir_backslashed n hg, ?_⟩
  rw [normDir_snoc _ '\\' (Or.inr rfl) hb.1 hb.2, normDir_backslashed n hg]

/-- file spellings of `n` (a name that starts with neither a separator nor the `gs://` prefix) -/
theorem normName_spellings (n : Name) (hg : ¬ gsPrefix <+: n) (h1 : n.head? ≠ some sep) (h2 : n.head? ≠ some '\\') :
    ∀ n' ∈ [sep :: n, '\\' :: n, gsPrefix ++ n, gsPrefix ++ sep :: n, gsPrefix ++ '\\' :: n,
            backslashed n, '\\' :: backslashed n, gsPrefix ++ backslashed n, gsPrefix ++ '\\' :: backslashed n],
      normName n' = normName n := by
  have hb := backslashed_head n h1 h2
  have hgb := not_gsPrefix_backslashed n
  have lead : ∀ c, c = sep ∨ c = '\\' → ¬ gsPrefix <+: c :: n := by
    intro c hc h
    simp only [gsPrefix, List.cons_prefix_cons] at h
    rcases hc with rfl | rfl
    · exact absurd h.1 (by decide)
    · exact absurd h.1 (by decide)
  have leadb : ¬ gsPrefix <+: '\\' :: backslashed n := by
    intro h
    simp only [gsPrefix, List.cons_prefix_cons] at h
    exact absurd h.1 (by decide)
  intro n' hn'
  simp only [List.mem_cons, List.not_mem_nil, or_false] at hn'
  rcases hn' with rfl | rfl | rfl | rfl | rfl | rfl | rfl | rfl | rfl
  · exact normName_lead n sep (Or.inl rfl) hg h1 h2
  · exact normName_lead n '\\' (Or.inr rfl) hg h1 h2
  · exact normName_gs n hg
  · rw [normName_gs _ (lead sep (Or.inl rfl))]; exact normName_lead n sep (Or.inl rfl) hg h1 h2
  · rw [normName_gs _ (lead '\\' (Or.inr rfl))]; exact normName_lead n '\\' (Or.inr rfl) hg h1 h2
  · exact normName_backslashed n hg
  · rw [normName_lead _ '\\' (Or.inr rfl) hgb hb.1 hb.2]; exact normName_backslashed n hg
  · rw [normName_gs _ hgb]; exact normName_backslashed n hg
  · rw [normName_gs _ leadb, normName_lead _ '\\' (Or.inr rfl) hgb hb.1 hb.2]; exact normName_backslashed n hg

/-- what a file-name call is, as far as the name goes -/
theorem file_ops_congr (st : St) (a b : Name) (h : normName a = normName b) :
    step st (.stat a) = step st (.stat b) ∧ step st (.remove a) = step st (.remove b) ∧
    step st (.removeAll a) = step st (.removeAll b) ∧ step st (.create a) = step st (.create b) ∧
    (∀ flag, step st (.openFile a flag) = step st (.openFile b flag)) ∧
    (∀ c, step st (.rename a c) = step st (.rename b c)) ∧
    (∀ c, step st (.rename c a) = step st (.rename c b)) :=
  ⟨step_sameOp st _ _ (.stat h), step_sameOp st _ _ (.remove h), step_sameOp st _ _ (.removeAll h),
   step_sameOp st _ _ (.create h), fun flag => step_sameOp st _ _ (.openFile flag h),
   fun _ => step_sameOp st _ _ (.rename h rfl), fun _ => step_sameOp st _ _ (.rename rfl h)⟩

theorem dir_ops_congr (st : St) (a b : Name) (h : normDir a = normDir b) :
    step st (.mkdir a) = step st (.mkdir b) ∧ step st (.mkdirAll a) = step st (.mkdirAll b) :=
  ⟨step_sameOp st _ _ (.mkdir h), step_sameOp st _ _ (.mkdirAll h)⟩

end AferoVerif.Gcs
