/-
  The index invariant `Consistent` through `Rename` of a leaf (a regular file or an empty
  directory): the object moves from its old name to the new one, replacing whatever leaf the new
  name held; both parent directories' indexes follow.
-/
import AferoVerif.Proofs.MemFsInv3
namespace AferoVerif

/-! ### association lists: membership -/

theorem mem_alInsert (l : List (Key × Nat)) (k : Key) (v : Nat) (e : Key × Nat)
    (h : e ∈ alInsert l k v) : e ∈ l ∨ e = (k, v) := by
  unfold alInsert at h
  split at h
  · rw [List.mem_map] at h
    obtain ⟨a, ha, hae⟩ := h
    by_cases hk : a.1 = k
    · simp only [hk, if_true] at hae; exact Or.inr hae.symm
    · simp only [hk, if_false] at hae; rw [← hae]; exact Or.inl ha
  · rw [List.mem_append, List.mem_singleton] at h; exact h

theorem alLookup_isSome_of_mem (l : List (Key × Nat)) (e : Key × Nat) (h : e ∈ l) :
    (alLookup l e.1).isSome = true := by
  induction l with
  | nil => cases h
  | cons a l ih =>
    rw [alLookup_cons]
    by_cases ha : a.1 = e.1
    · simp [ha]
    · simp only [ha, if_false]
      rcases List.mem_cons.1 h with h | h
      · rw [h] at ha; exact absurd rfl ha
      · exact ih h

/-- a directory index after (possibly) losing `old` and (possibly) gaining `new ↦ f` -/
theorem alLookup_move (d : List (Key × Nat)) (old new k' : Key) (f : Nat) (a b : Prop)
    [Decidable a] [Decidable b] :
    alLookup (if a then alInsert (if b then alErase d old else d) new f else (if b then alErase d old else d)) k' =
      if a ∧ k' = new then some f else if b ∧ k' = old then none else alLookup d k' := by
  have hins : ∀ l : List (Key × Nat), alLookup (alInsert l new f) k' = if k' = new then some f else alLookup l k' := by
    intro l
    by_cases h : k' = new
    · subst h; simp only [if_true]; exact alLookup_insert_self _ _ _
    · simp only [h, if_false]; exact alLookup_insert_ne _ _ _ _ h
  have hers : alLookup (alErase d old) k' = if k' = old then none else alLookup d k' := by
    by_cases h : k' = old
    · subst h; simp only [if_true]; exact alLookup_erase_self _ _
    · simp only [h, if_false]; exact alLookup_erase_ne _ _ _ h
  by_cases ha : a <;> by_cases hb : b <;>
    simp only [ha, hb, if_true, if_false, true_and, false_and, hins, hers]

namespace MemFs

/-- nothing in the path map lies below `k`: there is nothing to rename along -/
theorem findDescendants_eq_nil (m : MemFs) (k : Key) (h : ∀ e ∈ m.data, isUnder k e.1 = false) :
    m.findDescendants k = [] := by
  unfold findDescendants
  have : (m.data.filter fun e => isUnder k e.1) = [] := by
    rw [List.filter_eq_nil_iff]
    intro e he; rw [h e he]; exact Bool.false_ne_true
  simp only [this, List.map_nil, List.mergeSort_nil]

/-- a leaf has no child: no existing path names it as its parent -/
theorem leaf_no_child (m : MemFs) (hc : Consistent m) (k : Key) (f : Nat) (hl : m.lookup k = some f)
    (hleaf : (m.obj f).memDir = none ∨ (m.obj f).memDir = some []) :
    ∀ k' f', m.lookup k' = some f' → k' ≠ rootKey → parentKey k' ≠ k := by
  intro k' f' hk' hne e
  obtain ⟨p', d', h1, h2, h3⟩ := hc.hasParent k' f' hk' hne
  rw [e, hl] at h1
  injection h1 with h1; subst h1
  rcases hleaf with h | h
  · rw [h] at h2; cases h2
  · rw [h] at h2; injection h2 with h2; subst h2; simp [alLookup_nil] at h3

/-- ... and hence nothing below it -/
theorem leaf_no_under (m : MemFs) (hc : Consistent m) (k : Key) (f : Nat) (hn : normKey k = k)
    (hl : m.lookup k = some f) (hleaf : (m.obj f).memDir = none ∨ (m.obj f).memDir = some []) :
    ∀ n k' f', k'.segs.length = n → m.lookup k' = some f' → isUnder k k' = false := by
  intro n
  induction n using Nat.strongRecOn with
  | _ n ih =>
    intro k' f' hlen hl'
    cases hu : isUnder k k' with
    | false => rfl
    | true =>
      obtain ⟨_, hk, hlt, _⟩ := (isUnder_iff _ _).1 hu
      have hne : k' ≠ rootKey := by
        intro e; rw [e] at hlt; simp [rootKey] at hlt
      obtain ⟨p, d, h1, _, _⟩ := hc.hasParent k' f' hl' hne
      rcases parent_of_under k k' hn hu with e | hu'
      · exact absurd e (leaf_no_child m hc k f hl hleaf k' f' hl' hne)
      · have hs : k'.segs ≠ [] := by intro e; rw [e] at hlt; simp at hlt
        have hplen : (parentKey k').segs.length < n := by
          unfold parentKey
          simp only [hs, if_false]
          rcases normKey_cases ⟨k'.rooted, k'.segs.dropLast⟩ with h | h
          · rw [h]; simp [rootKey]; omega
          · rw [h]; simp only [List.length_dropLast]
            have : 0 < k'.segs.length := List.length_pos_iff.2 hs
            omega
        have := ih _ hplen (parentKey k') p rfl h1
        rw [this] at hu'; cases hu'

/-- **moving a leaf keeps the tree consistent**: any state `m'` that differs from `m` by
    `old ↦ f` having become `new ↦ f` in the path map, in the object's own name and in the two
    parent directories' indexes -/
theorem consistent_move (m m' : MemFs) (hc : Consistent m) (old new : Key) (f p p' : Nat)
    (pd' : List (Key × Nat))
    (hl : m.lookup old = some f)
    (hleaf : (m.obj f).memDir = none ∨ (m.obj f).memDir = some [])
    (hold : old ≠ rootKey) (hnew : new ≠ rootKey) (hne : old ≠ new)
    (hpk : parentKey new ≠ new) (hpo : parentKey new ≠ old)
    (hp : m.lookup (parentKey old) = some p)
    (hp' : m.lookup (parentKey new) = some p') (hpd' : (m.obj p').memDir = some pd')
    (htarget : m.lookup new = none ∨ ∃ g, m.lookup new = some g ∧ ((m.obj g).memDir = none ∨ (m.obj g).memDir = some []))
    (hlen : m'.objs.length = m.objs.length)
    (hlk : ∀ k', m'.lookup k' = if k' = new then some f else if k' = old then none else m.lookup k')
    (hname : ∀ j, (m'.obj j).name = if j = f then new else (m.obj j).name)
    (hmd : ∀ j, (m'.obj j).memDir =
      ((m.obj j).memDir.map fun d => if j = p then alErase d old else d).map fun d => if j = p' then alInsert d new f else d) :
    Consistent m' := by
  -- the directory indexes, entry by entry
  -- the directory indexes, entry by entry
  have hmdF : ∀ j d, (m.obj j).memDir = some d → ∃ d', (m'.obj j).memDir = some d' ∧
      ∀ k', alLookup d' k' = if j = p' ∧ k' = new then some f else if j = p ∧ k' = old then none else alLookup d k' := by
    intro j d h
    refine ⟨_, by rw [hmd, h]; rfl, fun k' => alLookup_move d old new k' f (j = p') (j = p)⟩
  have hmdS : ∀ j d', (m'.obj j).memDir = some d' → ∃ d, (m.obj j).memDir = some d ∧
      ∀ k', alLookup d' k' = if j = p' ∧ k' = new then some f else if j = p ∧ k' = old then none else alLookup d k' := by
    intro j d' h
    cases hd : (m.obj j).memDir with
    | none => rw [hmd, hd] at h; cases h
    | some d =>
      obtain ⟨d'', h1, h2⟩ := hmdF j d hd
      rw [h1] at h; injection h with h; subst h
      exact ⟨d, rfl, h2⟩
  -- a key of the new state
  have hsurv : ∀ k' x, m'.lookup k' = some x → (k' = new ∧ x = f) ∨ (k' ≠ new ∧ k' ≠ old ∧ m.lookup k' = some x) := by
    intro k' x h
    rw [hlk] at h
    by_cases h1 : k' = new
    · simp only [h1, if_true] at h; injection h with h; exact Or.inl ⟨h1, h.symm⟩
    · by_cases h2 : k' = old
      · simp only [h2, if_true] at h
        rw [if_neg hne] at h; cases h
      · simp only [h1, h2, if_false] at h; exact Or.inr ⟨h1, h2, h⟩
  have hkeep : ∀ k', k' ≠ new → k' ≠ old → m'.lookup k' = m.lookup k' := by
    intro k' h1 h2; rw [hlk]; simp only [h1, h2, if_false]
  have hnewl : m'.lookup new = some f := by rw [hlk]; simp only [if_true]
  -- the target name has no child either
  have htchild : ∀ k' x, m.lookup k' = some x → k' ≠ rootKey → parentKey k' ≠ new := by
    intro k' x hk' hr e
    rcases htarget with h | ⟨g, hg, hgl⟩
    · obtain ⟨q, _, h1, _, _⟩ := hc.hasParent k' x hk' hr
      rw [e, h] at h1; cases h1
    · exact leaf_no_child m hc new g hg hgl k' x hk' hr e
  have hfp' : f ≠ p' := by
    intro e; rw [← e] at hp'; exact hpo (hc.inj _ _ _ hp' hl)
  refine ⟨?_, ?_, ?_, ?_, ?_⟩
  · intro k' x h
    rw [hlen]
    rcases hsurv k' x h with ⟨_, hx⟩ | ⟨_, _, h0⟩
    · rw [hx]; exact hc.inRange _ _ hl
    · exact hc.inRange _ _ h0
  · intro k' x h
    rw [hname]
    rcases hsurv k' x h with ⟨hk, hx⟩ | ⟨_, hk2, h0⟩
    · simp only [hx, if_true, hk]
    · have hxf : x ≠ f := by
        intro e; rw [e] at h0; exact hk2 (hc.inj _ _ _ h0 hl)
      simp only [hxf, if_false]; exact hc.nameEq _ _ h0
  · intro k' x h hr
    rcases hsurv k' x h with ⟨hk, hx⟩ | ⟨hk1, hk2, h0⟩
    · subst hk; subst hx
      obtain ⟨d', h1, h2⟩ := hmdF p' pd' hpd'
      refine ⟨p', d', by rw [hkeep _ hpk hpo]; exact hp', h1, ?_⟩
      rw [h2]; simp only [and_self, if_true]
    · obtain ⟨q, d, h1, h2, h3⟩ := hc.hasParent k' x h0 hr
      have hq1 : parentKey k' ≠ new := htchild k' x h0 hr
      have hq2 : parentKey k' ≠ old := leaf_no_child m hc old f hl hleaf k' x h0 hr
      obtain ⟨d', h4, h5⟩ := hmdF q d h2
      refine ⟨q, d', by rw [hkeep _ hq1 hq2]; exact h1, h4, ?_⟩
      rw [h5]; simp only [hk1, hk2, and_false, if_false]; exact h3
  · intro kd q d' k' x h hd hx
    rcases hsurv kd q h with ⟨hk, hq⟩ | ⟨hk1, hk2, h0⟩
    · -- the moved object lists nothing
      subst hq
      obtain ⟨d, h1, h2⟩ := hmdS q d' hd
      rw [h2] at hx
      have hd0 : alLookup d k' = none := by
        rcases hleaf with hh | hh
        · rw [hh] at h1; cases h1
        · rw [hh] at h1; injection h1 with h1; rw [← h1]; rfl
      simp only [hfp', false_and, if_false, hd0] at hx
      split at hx <;> cases hx
    · obtain ⟨d, h1, h2⟩ := hmdS q d' hd
      rw [h2] at hx
      by_cases hc1 : q = p' ∧ k' = new
      · simp only [hc1, and_self, if_true] at hx
        injection hx with hx
        obtain ⟨hqp, hkn⟩ := hc1
        subst hkn; subst hx
        refine ⟨hnewl, ?_, hnew⟩
        rw [hqp] at h0; exact hc.inj _ _ _ hp' h0
      · rw [if_neg hc1] at hx
        by_cases hc2 : q = p ∧ k' = old
        · rw [if_pos hc2] at hx; cases hx
        · rw [if_neg hc2] at hx
          obtain ⟨a, b, c⟩ := hc.noStale _ _ _ _ _ h0 h1 hx
          have hkn : k' ≠ new := by
            intro e; apply hc1; refine ⟨?_, e⟩
            rw [e] at b; rw [← b, hp'] at h0; injection h0 with h0; exact h0.symm
          have hko : k' ≠ old := by
            intro e; apply hc2; refine ⟨?_, e⟩
            rw [e] at b; rw [← b, hp] at h0; injection h0 with h0; exact h0.symm
          exact ⟨by rw [hkeep _ hkn hko]; exact a, b, c⟩
  · obtain ⟨r, hr1, hr2⟩ := hc.root
    refine ⟨r, by rw [hkeep _ (Ne.symm hnew) (Ne.symm hold)]; exact hr1, ?_⟩
    cases hd : (m.obj r).memDir with
    | none => rw [hd] at hr2; cases hr2
    | some d =>
      obtain ⟨d', h1, _⟩ := hmdF r d hd
      rw [h1]; rfl

/-- `registerWithParent` when the parent exists and is a directory, without naming its index -/
theorem registerWithParent_found' (fuel : Nat) (m : MemFs) (f perm p : Nat)
    (hp : m.lookup (parentKey (m.obj f).name) = some p) (hpd : (m.obj p).memDir.isSome = true) :
    registerWithParent (fuel + 1) m f perm =
      m.setObj p { m.obj p with memDir := (m.obj p).memDir.map fun d => alInsert d (m.obj f).name f } := by
  cases h : (m.obj p).memDir with
  | none => rw [h] at hpd; cases hpd
  | some pd => rw [registerWithParent_found fuel m f perm p pd hp h]; rfl

/-- `Rename`, first half: `old` leaves its directory `p`, the object `f` takes its new name and the
    path map gets `new ↦ f` (`old ↦ f` is still there: descendants are renamed next) -/
def unlink (m : MemFs) (old new : Key) (f p : Nat) : MemFs :=
  let m1 := m.setObj p { m.obj p with memDir := (m.obj p).memDir.map fun d => alErase d old }
  let m2 := m1.setObj f { m1.obj f with name := new }
  { m2 with data := alInsert m2.data new f }

/-- the effect of `Rename` of a leaf `f` from `old` (in directory `p`) to `new` (in directory `p'`) -/
def relink (m : MemFs) (old new : Key) (f p p' : Nat) : MemFs :=
  let m3 := m.unlink old new f p
  let m6 : MemFs := { m3 with data := alErase m3.data old }
  m6.setObj p' { m6.obj p' with memDir := (m6.obj p').memDir.map fun d => alInsert d new f }

theorem obj_setObj_ite (m : MemFs) (i j : Nat) (d : FData) (hi : i < m.objs.length) :
    (m.setObj i d).obj j = if j = i then d else m.obj j := by
  by_cases h : j = i
  · subst h; simp only [if_true]; exact obj_setObj_self m j d hi
  · simp only [h, if_false]; exact obj_setObj_ne m i j d h

theorem data_unlink (m : MemFs) (old new : Key) (f p : Nat) :
    (m.unlink old new f p).data = alInsert m.data new f := rfl

theorem length_unlink (m : MemFs) (old new : Key) (f p : Nat) :
    (m.unlink old new f p).objs.length = m.objs.length := by
  simp [unlink, setObj]

/-- the objects after the first half -/
theorem obj_unlink (m : MemFs) (old new : Key) (f p j : Nat) (hf : f < m.objs.length) (hp : p < m.objs.length) :
    ((m.unlink old new f p).obj j).name = (if j = f then new else (m.obj j).name) ∧
    ((m.unlink old new f p).obj j).memDir = (m.obj j).memDir.map fun d => if j = p then alErase d old else d := by
  have h1 : ∀ i, (m.setObj p { m.obj p with memDir := (m.obj p).memDir.map fun d => alErase d old }).obj i =
      if i = p then { m.obj p with memDir := (m.obj p).memDir.map fun d => alErase d old } else m.obj i :=
    fun i => obj_setObj_ite m p i _ hp
  have hm1n : ∀ i, ((m.setObj p { m.obj p with memDir := (m.obj p).memDir.map fun d => alErase d old }).obj i).name =
      (m.obj i).name := by
    intro i; rw [h1 i]
    by_cases hip : i = p
    · rw [if_pos hip, hip]
    · rw [if_neg hip]
  have hm1d : ∀ i, ((m.setObj p { m.obj p with memDir := (m.obj p).memDir.map fun d => alErase d old }).obj i).memDir =
      (m.obj i).memDir.map fun d => if i = p then alErase d old else d := by
    intro i; rw [h1 i]
    by_cases hip : i = p
    · rw [if_pos hip, hip]; simp only [if_true]
    · rw [if_neg hip]; simp only [hip, if_false]
      cases (m.obj i).memDir <;> rfl
  have h2 : (m.unlink old new f p).obj j =
      if j = f then { (m.setObj p { m.obj p with memDir := (m.obj p).memDir.map fun d => alErase d old }).obj f with name := new }
      else (m.setObj p { m.obj p with memDir := (m.obj p).memDir.map fun d => alErase d old }).obj j :=
    obj_setObj_ite _ f j _ (by rw [length_setObj]; exact hf)
  rw [h2]
  by_cases hjf : j = f
  · rw [if_pos hjf, if_pos hjf, hjf]
    exact ⟨rfl, hm1d f⟩
  · rw [if_neg hjf, if_neg hjf]
    exact ⟨hm1n j, hm1d j⟩

theorem rename_eq_of_unlink (m : MemFs) (old new : Key) (f p : Nat)
    (hl : m.lookup old = some f) (hne : old ≠ new) (hname : (m.obj f).name = old)
    (hp : m.lookup (parentKey old) = some p) :
    m.rename old new =
      match ((m.unlink old new f p).findDescendants old).foldl (renameOneDesc old new) (some (m.unlink old new f p, [])) with
      | none => (m, .panic)
      | some (m4, removes) =>
        let m5 := { m4 with data := m4.data.filter fun e => ¬ removes.contains e.1 }
        let m6 := { m5 with data := alErase m5.data old }
        (registerWithParent (m6.regFuel f) m6 f 0, .ok) := by
  unfold rename unRegisterWithParent findParent
  simp only [hl, hname, hp, hne, if_false]
  rfl

theorem rename_leaf_eq_relink (m : MemFs) (hc : Consistent m) (old new : Key) (f p p' : Nat)
    (pd' : List (Key × Nat))
    (hn : normKey old = old)
    (hl : m.lookup old = some f)
    (hleaf : (m.obj f).memDir = none ∨ (m.obj f).memDir = some [])
    (hne : old ≠ new) (hpk : parentKey new ≠ new) (hpo : parentKey new ≠ old)
    (hp : m.lookup (parentKey old) = some p)
    (hp' : m.lookup (parentKey new) = some p') (hpd' : (m.obj p').memDir = some pd') :
    m.rename old new = (m.relink old new f p p', .ok) := by
  have hname := hc.nameEq old f hl
  have hfr := hc.inRange _ _ hl
  have hpr := hc.inRange _ _ hp
  -- nothing lies below the old name, not even the new name
  have hnd : ∀ e ∈ (m.unlink old new f p).data, isUnder old e.1 = false := by
    intro e he
    rw [data_unlink] at he
    rcases mem_alInsert _ _ _ _ he with h | h
    · have hs := alLookup_isSome_of_mem m.data e h
      cases hx : m.lookup e.1 with
      | none => unfold lookup at hx; rw [hx] at hs; cases hs
      | some x => exact leaf_no_under m hc old f hn hl hleaf _ e.1 x rfl hx
    · rw [h]
      cases hu : isUnder old new with
      | false => rfl
      | true =>
        rcases parent_of_under old new hn hu with e1 | e1
        · exact absurd e1 hpo
        · rw [leaf_no_under m hc old f hn hl hleaf _ (parentKey new) p' rfl hp'] at e1; cases e1
  rw [rename_eq_of_unlink m old new f p hl hne hname hp, findDescendants_eq_nil _ old hnd]
  simp only [List.foldl_nil]
  have hfil : ∀ l : List (Key × Nat), List.filter (fun e => decide ¬([] : List Key).contains e.fst = true) l = l := by
    intro l; simp
  simp only [hfil]
  have h6f : (({ (m.unlink old new f p) with data := alErase (m.unlink old new f p).data old } : MemFs).obj f).name = new := by
    have := (obj_unlink m old new f p f hfr hpr).1
    rw [if_pos rfl] at this; exact this
  have hlk6 : ({ (m.unlink old new f p) with data := alErase (m.unlink old new f p).data old } : MemFs).lookup
      (parentKey (({ (m.unlink old new f p) with data := alErase (m.unlink old new f p).data old } : MemFs).obj f).name) = some p' := by
    rw [h6f]
    show alLookup (alErase (alInsert m.data new f) old) (parentKey new) = some p'
    rw [alLookup_erase_ne _ _ _ hpo, alLookup_insert_ne _ _ _ _ hpk]; exact hp'
  have hdir6 : (({ (m.unlink old new f p) with data := alErase (m.unlink old new f p).data old } : MemFs).obj p').memDir.isSome = true := by
    show ((m.unlink old new f p).obj p').memDir.isSome = true
    rw [(obj_unlink m old new f p p' hfr hpr).2, hpd']; rfl
  unfold regFuel
  rw [registerWithParent_found' _ _ f 0 p' hlk6 hdir6, h6f]
  rfl

theorem lookup_relink (m : MemFs) (old new k' : Key) (f p p' : Nat) (hne : old ≠ new) :
    (m.relink old new f p p').lookup k' = if k' = new then some f else if k' = old then none else m.lookup k' := by
  show alLookup (alErase (alInsert m.data new f) old) k' = _
  by_cases h1 : k' = new
  · rw [if_pos h1, h1, alLookup_erase_ne _ _ _ (Ne.symm hne), alLookup_insert_self]
  · rw [if_neg h1]
    by_cases h2 : k' = old
    · rw [if_pos h2, h2, alLookup_erase_self]
    · rw [if_neg h2, alLookup_erase_ne _ _ _ h2, alLookup_insert_ne _ _ _ _ h1]; rfl

theorem length_relink (m : MemFs) (old new : Key) (f p p' : Nat) :
    (m.relink old new f p p').objs.length = m.objs.length := by
  unfold relink
  simp only [length_setObj]
  exact length_unlink m old new f p

/-- the objects after the whole move -/
theorem obj_relink (m : MemFs) (old new : Key) (f p p' j : Nat)
    (hf : f < m.objs.length) (hp : p < m.objs.length) (hp' : p' < m.objs.length) :
    ((m.relink old new f p p').obj j).name = (if j = f then new else (m.obj j).name) ∧
    ((m.relink old new f p p').obj j).memDir =
      ((m.obj j).memDir.map fun d => if j = p then alErase d old else d).map fun d => if j = p' then alInsert d new f else d := by
  have h6 : ∀ i, (({ (m.unlink old new f p) with data := alErase (m.unlink old new f p).data old } : MemFs).obj i) =
      (m.unlink old new f p).obj i := fun _ => rfl
  have h := obj_setObj_ite ({ (m.unlink old new f p) with data := alErase (m.unlink old new f p).data old } : MemFs) p' j
    { (({ (m.unlink old new f p) with data := alErase (m.unlink old new f p).data old } : MemFs).obj p') with
      memDir := (({ (m.unlink old new f p) with data := alErase (m.unlink old new f p).data old } : MemFs).obj p').memDir.map
        fun d => alInsert d new f }
    (by show p' < (m.unlink old new f p).objs.length; rw [length_unlink]; exact hp')
  have hu := obj_unlink m old new f p j hf hp
  unfold relink
  simp only
  rw [h]
  by_cases hj : j = p'
  · rw [if_pos hj]
    simp only [h6]
    rw [← hj]
    refine ⟨hu.1, ?_⟩
    rw [hu.2]; simp only [if_true]
  · rw [if_neg hj, h6]
    refine ⟨hu.1, ?_⟩
    rw [hu.2]; simp only [hj, if_false]
    cases (m.obj j).memDir <;> rfl

/-- **`Rename` of a leaf keeps the tree consistent**: a regular file or an empty directory moves to
    a name that is free or holds another leaf (which the rename replaces), below an existing
    directory.

    `hn` (the old name is normalised, as every `keyOfStr s` is: `normKey_keyOfStr`) is the one
    hypothesis added to the ones asked for.  It is what makes "`f` lists no child" imply
    "no key lies textually below `old`", so that `renameDescendants` has nothing to do: the
    un-normalised key `⟨false, [".."]⟩` can be a leaf of a consistent tree while `../a`, whose
    parent is the root (`parentKey`), lies textually below it and would be dragged along. -/
theorem consistent_rename_leaf (m : MemFs) (hc : Consistent m) (old new : Key) (f : Nat)
    (hl : m.lookup old = some f)
    (hleaf : (m.obj f).memDir = none ∨ (m.obj f).memDir = some [])
    (hold : old ≠ rootKey) (hnew : new ≠ rootKey) (hpk : parentKey new ≠ new) (hpo : parentKey new ≠ old)
    (hp' : ∃ p' pd', m.lookup (parentKey new) = some p' ∧ (m.obj p').memDir = some pd')
    (htarget : m.lookup new = none ∨ ∃ g, m.lookup new = some g ∧ ((m.obj g).memDir = none ∨ (m.obj g).memDir = some []))
    (hn : normKey old = old) :   -- added: see above
    Consistent (m.rename old new).1 := by
  by_cases hne : old = new
  · subst hne
    unfold rename
    simp only [hl, if_true]
    exact hc
  · obtain ⟨p', pd', hp'l, hpd'⟩ := hp'
    obtain ⟨p, _, hp, _, _⟩ := hc.hasParent old f hl hold
    rw [rename_leaf_eq_relink m hc old new f p p' pd' hn hl hleaf hne hpk hpo hp hp'l hpd']
    have ho := fun j => obj_relink m old new f p p' j (hc.inRange _ _ hl) (hc.inRange _ _ hp) (hc.inRange _ _ hp'l)
    exact consistent_move m _ hc old new f p p' pd' hl hleaf hold hnew hne hpk hpo hp hp'l hpd' htarget
      (length_relink m old new f p p') (fun k' => lookup_relink m old new k' f p p' hne)
      (fun j => (ho j).1) (fun j => (ho j).2)

/-- the preconditions of `consistent_rename_leaf`, bundled -/
def RenameLeaf (m : MemFs) (old new : Key) : Prop :=
  ∃ f, m.lookup old = some f ∧
    ((m.obj f).memDir = none ∨ (m.obj f).memDir = some []) ∧
    old ≠ rootKey ∧ new ≠ rootKey ∧ parentKey new ≠ new ∧ parentKey new ≠ old ∧
    (∃ p' pd', m.lookup (parentKey new) = some p' ∧ (m.obj p').memDir = some pd') ∧
    (m.lookup new = none ∨ ∃ g, m.lookup new = some g ∧ ((m.obj g).memDir = none ∨ (m.obj g).memDir = some [])) ∧
    normKey old = old

theorem consistent_rename_of_renameLeaf (m : MemFs) (hc : Consistent m) (old new : Key)
    (h : RenameLeaf m old new) : Consistent (m.rename old new).1 := by
  obtain ⟨f, h1, h2, h3, h4, h5, h6, h7, h8, h9⟩ := h
  exact consistent_rename_leaf m hc old new f h1 h2 h3 h4 h5 h6 h7 h8 h9

/-! ### the hypotheses can be met: `mkdir /a; create /a/f; create /g`, then `rename /a/f /g` (over
    an existing file, into another directory) and `rename /g /a/h` (to a free name) -/

def exA : Str := ['/', 'a']
def exAF : Str := ['/', 'a', '/', 'f']
def exG : Str := ['/', 'g']
def exAH : Str := ['/', 'a', '/', 'h']
/-- the state after `mkdir /a; create /a/f; create /g`, by `MemFs.step` from `MemFs.init` -/
def exM : MemFs := run MemFs.init [.mkdir exA 0o755, .create exAF, .create exG]

theorem consistent_exM : Consistent exM := by
  -- mkdir /a
  have h1 : Consistent (MemFs.init.step (.mkdir exA 0o755)).1 := by
    have e : (MemFs.init.step (.mkdir exA 0o755)).1 =
        ((MemFs.init.attach (keyOfStr exA)
          { (MemFs.init.newDir (keyOfStr exA)) with mode := modeDir ||| (0o755 &&& chmodBits) } 0).setFileMode
            (keyOfStr exA) ((0o755 &&& chmodBits) ||| modeDir)).1 := rfl
    rw [e]
    exact consistent_setFileMode _
      (consistent_attach MemFs.init consistent_init (keyOfStr exA) _ 0 [] (by decide) (by decide) (by decide)
        (by decide) rfl rfl (Or.inr rfl)) _ _
  -- create /a/f
  have h2 : Consistent ((MemFs.init.step (.mkdir exA 0o755)).1.step (.create exAF)).1 := by
    have e : ((MemFs.init.step (.mkdir exA 0o755)).1.step (.create exAF)).1 =
        { ((MemFs.init.step (.mkdir exA 0o755)).1.attach (keyOfStr exAF)
            ((MemFs.init.step (.mkdir exA 0o755)).1.newFile (keyOfStr exAF)) 1) with
          handles := [{ obj := 2, h := { readOnly := false } }] } := rfl
    rw [e]
    exact consistent_handles _
      (consistent_attach _ h1 (keyOfStr exAF) _ 1 [] (by decide) (by decide) (by decide)
        (by decide) rfl rfl (Or.inl rfl)) _
  -- create /g
  have e : exM =
      { (((MemFs.init.step (.mkdir exA 0o755)).1.step (.create exAF)).1.attach (keyOfStr exG)
          (((MemFs.init.step (.mkdir exA 0o755)).1.step (.create exAF)).1.newFile (keyOfStr exG)) 0) with
        handles := [{ obj := 2, h := { readOnly := false } }, { obj := 3, h := { readOnly := false } }] } := rfl
  rw [e]
  exact consistent_handles _
    (consistent_attach _ h2 (keyOfStr exG) _ 0 [(keyOfStr exA, 1)] (by decide) (by decide) (by decide)
      (by decide) rfl rfl (Or.inl rfl)) _

/-- non-vacuity: `rename /a/f /g` meets every hypothesis in `exM` (the target holds a file, the
    two parents differ) … -/
theorem exM_first : Consistent exM ∧ RenameLeaf exM (keyOfStr exAF) (keyOfStr exG) :=
  ⟨consistent_exM, 2, by decide, Or.inl rfl, by decide, by decide, by decide, by decide,
    ⟨0, _, rfl, rfl⟩, Or.inr ⟨3, by decide, Or.inl rfl⟩, by decide⟩

/-- the first rename, evaluated (`List.mergeSort` does not reduce by `decide`, `relink` does) -/
theorem exM_rename : exM.rename (keyOfStr exAF) (keyOfStr exG) = (exM.relink (keyOfStr exAF) (keyOfStr exG) 2 1 0, .ok) :=
  rename_leaf_eq_relink exM consistent_exM _ _ 2 1 0 _ (by decide) (by decide) (Or.inl rfl) (by decide) (by decide)
    (by decide) (by decide) (by decide) rfl

/-- … and so does `rename /g /a/h` in the state the first rename leaves (the target is free) -/
theorem exM_second : Consistent (exM.rename (keyOfStr exAF) (keyOfStr exG)).1 ∧
    RenameLeaf (exM.rename (keyOfStr exAF) (keyOfStr exG)).1 (keyOfStr exG) (keyOfStr exAH) := by
  refine ⟨consistent_rename_leaf exM consistent_exM _ _ 2 (by decide) (Or.inl rfl) (by decide) (by decide) (by decide)
      (by decide) ⟨0, _, rfl, rfl⟩ (Or.inr ⟨3, by decide, Or.inl rfl⟩) (by decide), ?_⟩
  rw [exM_rename]
  exact ⟨2, by decide, Or.inl rfl, by decide, by decide, by decide, by decide,
    ⟨1, _, rfl, rfl⟩, Or.inl (by decide), by decide⟩

/-- non-vacuity, all in one: both renames meet every hypothesis of `consistent_rename_leaf` in the
    state they run in, and the theorem carries the invariant through both -/
example :
    Consistent exM ∧ RenameLeaf exM (keyOfStr exAF) (keyOfStr exG) ∧
    RenameLeaf (exM.rename (keyOfStr exAF) (keyOfStr exG)).1 (keyOfStr exG) (keyOfStr exAH) ∧
    Consistent (((exM.rename (keyOfStr exAF) (keyOfStr exG)).1).rename (keyOfStr exG) (keyOfStr exAH)).1 :=
  ⟨exM_first.1, exM_first.2, exM_second.2,
    consistent_rename_of_renameLeaf _ exM_second.1 _ _ exM_second.2⟩

end MemFs
end AferoVerif
