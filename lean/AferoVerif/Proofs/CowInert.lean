/-
  Property C06, clause "a failed call leaves the view unchanged", for the CopyOnWriteFs model (Model/Cow.lean).

  `cowView c k` — what the name `k` denotes through the union: the overlay's node if the overlay has one, else
  the base's (kind, bytes, mode).

  * `cowView_stat`: Stat is a function of the view (as `MemFs.stat_reads_view` for one layer).
  * `FailsWith c op e` lists the failing situations covered; `cow_fails_with` / `cow_failed_calls_keep_view`:
    each answers `.err e` and every name denotes afterwards what it did before; `cow_fails_with_state`: the whole
    state is the same, except after a failed copy-up (error class io), where only the base is the same and the
    overlay has allocated and dropped one object.
  * what is NOT a failing call in the model (nor in the source): `Mkdir` of a name the overlay holds answers
    success and changes nothing (`mkdir_overlay_existing_noop`); `Mkdir` of a FILE only the base holds succeeds
    and shadows it (example at the end).
  * where the clause is FALSE for the mode bits (proved, with concrete instances at the end):
      - `openFile_absent_write_residue`: a failed write-open (no O_CREATE) of a missing name inside a directory
        only the base holds leaves that directory in the overlay with the bits 0777;
      - `chmod/chown/chtimes/openFile_write_base_dir_residue` (`FailsLeavingDir`): the same residue when the
        copy-up of a base-only directory fails and the overlay lacked the parent directory;
      - `openFile_excl_base_file`: a failed exclusive open of a base-only regular file has copied the file up —
        same kind, same bytes, but the mode of a fresh overlay file instead of the base's.
    In all three every other name denotes what it did, and the base is unchanged.
  Not covered: residues with more than one missing directory level in the overlay (`MkdirAll` making several
  levels), and names with `filepath.Dir(name)` different from the key's parent (trailing separators) in the
  residue theorems (hypothesis `dirIsParent`).
-/
import AferoVerif.Props.C06_View
import AferoVerif.Proofs.MemFsRef
import AferoVerif.Props.C01
namespace AferoVerif
open MemFs

/-- **the view of a copy-on-write filesystem**: what a name denotes — the overlay's entry if the overlay has
    one, else the base's (kind, bytes, mode; no identities, no times, no handles) -/
def cowView (c : Cow) (k : Key) : Option Node :=
  match MemFs.view c.s.l k with
  | some n => some n
  | none => MemFs.view c.s.b k

theorem cowView_overlay (c : Cow) (k : Key) (f : Nat) (h : c.s.l.lookup k = some f) :
    cowView c k = some (nodeOf (c.s.l.obj f)) := by
  unfold cowView; rw [view_some _ k f h]

theorem cowView_base (c : Cow) (k : Key) (h : c.s.l.lookup k = none) : cowView c k = view c.s.b k := by
  unfold cowView; rw [view_none _ k h]

/-- a name denotes nothing exactly when neither layer has it -/
theorem cowView_eq_none (c : Cow) (k : Key) :
    cowView c k = none ↔ c.s.l.lookup k = none ∧ c.s.b.lookup k = none := by
  unfold cowView
  cases hl : c.s.l.lookup k with
  | none => rw [view_none _ k hl]; simp [view_eq_none]
  | some f => rw [view_some _ k f hl]; simp

/-- the view depends on the two layers' views only -/
theorem cowView_congr (c c' : Cow) (hl : view c'.s.l = view c.s.l) (hb : view c'.s.b = view c.s.b) (k : Key) :
    cowView c' k = cowView c k := by
  unfold cowView; rw [hl, hb]

theorem cowView_of_s (c c' : Cow) (h : c'.s = c.s) (k : Key) : cowView c' k = cowView c k := by
  unfold cowView; rw [h]

/-! ### Stat reads the view -/

/-- **`Stat` is determined by the view** exactly as for one layer (`MemFs.stat_reads_view`): existence, kind,
    size and mode bits are those of the node the name denotes in the view; the state is unchanged -/
theorem cowView_stat (c : Cow) (hcl : Consistent c.s.l) (hcb : Consistent c.s.b) (p : Str) :
    (c.step (.stat p)).2 =
      (match cowView c (keyOfStr p) with
        | none => .err .notexist
        | some (.file d md) => .info (baseName (keyOfStr p)) d.length false md
        | some (.dir md) => .info (baseName (keyOfStr p)) 42 true md) ∧
    (c.step (.stat p)).1 = c := by
  obtain ⟨h1, h2⟩ := C06.stat_is_view c p
  refine ⟨?_, h2⟩
  rw [h1]
  cases hl : c.s.l.lookup (keyOfStr p) with
  | none =>
    rw [cowView_base c _ hl]
    simp only [Option.isSome_none, Bool.false_eq_true, if_false]
    exact stat_reads_view c.s.b hcb _
  | some f =>
    simp only [Option.isSome_some, if_true]
    rw [stat_reads_view c.s.l hcl, cowView_overlay c _ f hl, view_some _ _ f hl]
    rfl

/-! ### (1) names absent from both layers -/

theorem isBaseFile_of_base_none (c : Cow) (k : Key) (hb : c.s.b.lookup k = none) : c.isBaseFile k = false := by
  unfold Cow.isBaseFile; rw [hb]; simp

theorem isBaseFile_of_layer_some (c : Cow) (k : Key) (h : (c.s.l.lookup k).isSome = true) : c.isBaseFile k = false := by
  unfold Cow.isBaseFile; rw [h]; simp

theorem isBaseFile_true (c : Cow) (k : Key) (bo : Nat) (hl : c.s.l.lookup k = none) (hb : c.s.b.lookup k = some bo) :
    c.isBaseFile k = true := by
  unfold Cow.isBaseFile; rw [hl, hb]; simp

theorem copyUpIfBase_not_base (c : Cow) (p : Str) (h : c.isBaseFile (keyOfStr p) = false) :
    c.copyUpIfBase p = (c, none) := by
  unfold Cow.copyUpIfBase; rw [h]; simp

theorem remove_absent (c : Cow) (p : Str) (hl : c.s.l.lookup (keyOfStr p) = none) :
    c.step (.remove p) = (c, .err .notexist) := by
  simp only [Cow.step, Cow.liftL]
  rw [C01.remove_missing_inert _ _ hl]

theorem rename_absent (c : Cow) (a b : Str) (hl : c.s.l.lookup (keyOfStr a) = none)
    (hb : c.s.b.lookup (keyOfStr a) = none) :
    c.step (.rename a b) = (c, .err .notexist) := by
  simp only [Cow.step, Cow.liftL]
  rw [isBaseFile_of_base_none c _ hb, C01.rename_missing_inert _ _ _ hl]
  simp

theorem chmod_absent (c : Cow) (p : Str) (mode : Nat) (hl : c.s.l.lookup (keyOfStr p) = none)
    (hb : c.s.b.lookup (keyOfStr p) = none) :
    c.step (.chmod p mode) = (c, .err .notexist) := by
  simp only [Cow.step, Cow.liftL]
  rw [copyUpIfBase_not_base c p (isBaseFile_of_base_none c _ hb)]
  simp only
  rw [C01.chmod_missing_inert _ _ _ hl]

theorem chown_absent (c : Cow) (p : Str) (u g : Int) (hl : c.s.l.lookup (keyOfStr p) = none)
    (hb : c.s.b.lookup (keyOfStr p) = none) :
    c.step (.chown p u g) = (c, .err .notexist) := by
  simp only [Cow.step, Cow.liftL]
  rw [copyUpIfBase_not_base c p (isBaseFile_of_base_none c _ hb)]
  simp only
  have : c.s.l.chown (keyOfStr p) u g = (c.s.l, .err .notexist) := by unfold MemFs.chown; simp [hl]
  rw [this]

theorem chtimes_absent (c : Cow) (p : Str) (t : Int) (hl : c.s.l.lookup (keyOfStr p) = none)
    (hb : c.s.b.lookup (keyOfStr p) = none) :
    c.step (.chtimes p t) = (c, .err .notexist) := by
  simp only [Cow.step, Cow.liftL]
  rw [copyUpIfBase_not_base c p (isBaseFile_of_base_none c _ hb)]
  simp only
  rw [C01.chtimes_missing_inert _ _ _ hl]

theorem stat_absent (c : Cow) (p : Str) (hl : c.s.l.lookup (keyOfStr p) = none)
    (hb : c.s.b.lookup (keyOfStr p) = none) :
    c.step (.stat p) = (c, .err .notexist) := by
  simp only [Cow.step]
  rw [C01.stat_missing _ _ hl, C01.stat_missing _ _ hb]

theorem fsIsDir_none (m : MemFs) (k : Key) (h : m.lookup k = none) : fsIsDir m k = (false, some .notexist) := by
  unfold fsIsDir; rw [h]

theorem fsIsDir_some (m : MemFs) (k : Key) (f : Nat) (h : m.lookup k = some f) : fsIsDir m k = ((m.obj f).dir, none) := by
  unfold fsIsDir; rw [h]

theorem open_absent (c : Cow) (p : Str) (hl : c.s.l.lookup (keyOfStr p) = none)
    (hb : c.s.b.lookup (keyOfStr p) = none) :
    c.step (.open_ p) = (c, .err .notexist) := by
  simp only [Cow.step, Cow.open_]
  rw [isBaseFile_of_base_none c _ hb, fsIsDir_none _ _ hl]
  simp

theorem layerOpenFile_err (c : Cow) (k : Key) (flag perm : Nat) (e : FsErr)
    (h : c.s.l.openFile k flag perm = (c.s.l, .err e)) : c.layerOpenFile k flag perm = (c, .err e) := by
  unfold Cow.layerOpenFile; rw [h]

theorem mkdirAll_existing (m : MemFs) (k : Key) (perm : Nat) (h : (m.lookup k).isSome = true) :
    m.mkdirAll k perm = (m, .ok) := by
  unfold MemFs.mkdirAll; rw [C01.mkdir_exist m k perm h]

/-- `OpenFile` with read-only flags of a name neither layer has -/
theorem openFile_absent_ro (c : Cow) (p : Str) (flag perm : Nat) (hl : c.s.l.lookup (keyOfStr p) = none)
    (hb : c.s.b.lookup (keyOfStr p) = none) (hc : ¬ flag &&& O_CREATE > 0) (hm : flag &&& cowWriteMask = 0) :
    c.step (.openFile p flag perm) = (c, .err .notexist) := by
  simp only [Cow.step, Cow.openFile]
  rw [isBaseFile_of_base_none c _ hb, fsIsDir_none _ _ hl]
  simp only [hm, ne_eq, not_true_eq_false, if_false, Bool.false_eq_true, false_and]
  exact layerOpenFile_err c _ flag perm _ (C01.openFile_missing_inert _ _ flag perm hl hc)

/-- `OpenFile` with write flags but without O_CREATE of a name neither layer has, when the overlay holds the
    parent name `filepath.Dir(name)`: not-exist — or not-a-directory if the overlay's parent is a regular
    file and the base has no directory there; the state is unchanged -/
theorem openFile_absent_write_parent (c : Cow) (p : Str) (flag perm ld : Nat)
    (hl : c.s.l.lookup (keyOfStr p) = none) (hb : c.s.b.lookup (keyOfStr p) = none)
    (hc : ¬ flag &&& O_CREATE > 0) (hm : flag &&& cowWriteMask ≠ 0)
    (hd : c.s.l.lookup (keyOfStr (Path.dir p)) = some ld) :
    c.step (.openFile p flag perm) =
      (c, .err (if (c.s.l.obj ld).dir = false ∧ (fsIsDir c.s.b (keyOfStr (Path.dir p))).1 = false
        then .notdir else .notexist)) := by
  have hlo := layerOpenFile_err c _ flag perm _ (C01.openFile_missing_inert _ _ flag perm hl hc)
  simp only [Cow.step, Cow.openFile]
  rw [isBaseFile_of_base_none c _ hb]
  simp only [hm, ne_eq, not_false_eq_true, if_true, Bool.false_eq_true, if_false]
  cases hbd : (fsIsDir c.s.b (keyOfStr (Path.dir p))).1 with
  | true =>
    simp only [if_true, Bool.true_eq_false, and_false, if_false]
    rw [mkdirAll_existing _ _ _ (by rw [hd]; rfl)]
    exact hlo
  | false =>
    simp only [Bool.false_eq_true, if_false, and_true]
    rw [fsIsDir_some _ _ ld hd]
    cases hdd : (c.s.l.obj ld).dir with
    | true => simp only [Bool.true_eq_false, if_false]; exact hlo
    | false => simp only [if_true]

/-- … and when neither layer has a directory under the parent name -/
theorem openFile_absent_write_noparent (c : Cow) (p : Str) (flag perm : Nat)
    (hb : c.s.b.lookup (keyOfStr p) = none)
    (hm : flag &&& cowWriteMask ≠ 0)
    (hd : c.s.l.lookup (keyOfStr (Path.dir p)) = none) (hbd : (fsIsDir c.s.b (keyOfStr (Path.dir p))).1 = false) :
    c.step (.openFile p flag perm) = (c, .err .notexist) := by
  simp only [Cow.step, Cow.openFile]
  rw [isBaseFile_of_base_none c _ hb]
  simp only [hm, ne_eq, not_false_eq_true, if_true, Bool.false_eq_true, if_false, hbd]
  rw [fsIsDir_none _ _ hd]

/-! ### (2) creating what exists -/

/-- `Mkdir` of a name the base holds as a directory (whatever the overlay holds) -/
theorem mkdir_base_dir (c : Cow) (p : Str) (perm bo : Nat) (hb : c.s.b.lookup (keyOfStr p) = some bo)
    (hd : (c.s.b.obj bo).dir = true) : c.step (.mkdir p perm) = (c, .err .exist) := by
  simp only [Cow.step]
  rw [fsIsDir_some _ _ bo hb, hd]

/-- `Mkdir` of a name the overlay holds and the base does not hold as a directory: the model (as the source:
    `layer.MkdirAll`) answers SUCCESS and changes nothing -/
theorem mkdir_overlay_existing_noop (c : Cow) (p : Str) (perm : Nat) (hl : (c.s.l.lookup (keyOfStr p)).isSome = true)
    (hb : (fsIsDir c.s.b (keyOfStr p)).1 = false) : c.step (.mkdir p perm) = (c, .ok) := by
  simp only [Cow.step, Cow.liftL]
  rw [mkdirAll_existing _ _ _ hl]
  generalize fsIsDir c.s.b (keyOfStr p) = r at hb
  obtain ⟨d, e⟩ := r
  simp only at hb
  subst hb
  cases e <;> rfl

/-- exclusive `OpenFile` (any write flag set, O_EXCL set) of a name the overlay holds, the overlay holding the
    parent name as a directory -/
theorem openFile_excl_overlay (c : Cow) (p : Str) (flag perm ld : Nat)
    (hl : (c.s.l.lookup (keyOfStr p)).isSome = true)
    (hm : flag &&& cowWriteMask ≠ 0) (hx : flag &&& O_EXCL > 0)
    (hd : c.s.l.lookup (keyOfStr (Path.dir p)) = some ld) (hdd : (c.s.l.obj ld).dir = true) :
    c.step (.openFile p flag perm) = (c, .err .exist) := by
  have hlo := layerOpenFile_err c _ flag perm _ (C01.openFile_excl_existing_inert _ _ flag perm hl hx)
  simp only [Cow.step, Cow.openFile]
  rw [isBaseFile_of_layer_some c _ hl]
  simp only [hm, ne_eq, not_false_eq_true, if_true, Bool.false_eq_true, if_false]
  cases hbd : (fsIsDir c.s.b (keyOfStr (Path.dir p))).1 with
  | true =>
    simp only [if_true]
    rw [mkdirAll_existing _ _ _ (by rw [hd]; rfl)]
    exact hlo
  | false =>
    simp only [Bool.false_eq_true, if_false]
    rw [fsIsDir_some _ _ ld hd, hdd]
    exact hlo

/-! ### (3) the copy-up fails -/

theorem ne_root_of_missing (L : MemFs) (hc : Consistent L) (k : Key) (hnew : L.lookup k = none) : k ≠ rootKey := by
  intro e
  obtain ⟨r, hr, _⟩ := hc.root
  rw [e, hr] at hnew; cases hnew

/-- creating a new name below an existing directory, rewriting the fresh object's bytes / times, and removing
    the name again leaves the view as it was -/
theorem view_create_set_remove (L : MemFs) (hc : Consistent L) (k : Key) (p : Nat) (pd : List (Key × Nat))
    (hnew : L.lookup k = none) (hp : L.lookup (parentKey k) = some p) (hpd : (L.obj p).memDir = some pd)
    (d : FData) (hn : d.name = k) (hm : d.memDir = none) :
    view (((L.create k).1.setObj (L.create k).2 d).remove k).1 = view L := by
  have hpr := hc.inRange _ _ hp
  have hpk : parentKey k ≠ k := by intro e; rw [e, hnew] at hp; cases hp
  have hroot := ne_root_of_missing L hc k hnew
  rw [create_new_eq_attach L k p pd hnew hp hpd hpk hpr]
  show view (((L.attach k (L.newFile k) p).setObj L.objs.length d).remove k).1 = view L
  have hcA : Consistent (L.attach k (L.newFile k) p) :=
    consistent_attach L hc k (L.newFile k) p pd hnew hroot hpk hp hpd rfl (Or.inl rfl)
  have hoA : (L.attach k (L.newFile k) p).obj L.objs.length = L.newFile k := obj_attach_new L k _ p hpr
  have hc2 : Consistent ((L.attach k (L.newFile k) p).setObj L.objs.length d) :=
    consistent_setObj_meta _ hcA _ d (by rw [hoA]; exact hn) (by rw [hoA]; exact hm)
  have hl2 : ((L.attach k (L.newFile k) p).setObj L.objs.length d).lookup k = some L.objs.length := by
    rw [lookup_setObj, lookup_attach, if_pos rfl]
  funext k'
  rw [(remove_view _ hc2 k L.objs.length hroot hl2).2 k']
  unfold refRemove
  by_cases hk : k' = k
  · rw [if_pos hk, hk, view_none L k hnew]
  · rw [if_neg hk]
    refine view_congr L _ k' k' (by rw [lookup_setObj, lookup_attach, if_neg hk]) ?_
    intro g hg
    have hgr := hc.inRange _ _ hg
    rw [obj_setObj_ne _ _ _ _ (Nat.ne_of_lt hgr)]
    exact nodeOf_attach_old L k _ p g hgr

/-- the overlay after `copyFile`'s first step: the parent name exists, or `MkdirAll(dir, 0777)` has made it -/
def withDirOf (L : MemFs) (name : Str) : MemFs :=
  if fsExists L (keyOfStr (Path.dir name)) then L else (L.mkdirAll (keyOfStr (Path.dir name)) 0o777).1

/-- **the copy-up of a DIRECTORY fails with an i/o error** (`copyFile` reads no bytes from a directory handle
    and the size check `bfi.Size() != n` fails; the half-made overlay file is removed again).  The overlay's view
    is the one after `copyFile`'s first step (making the parent name if the overlay lacks it). -/
theorem copyFile_dir_fails_gen (b L : MemFs) (name : Str) (bo : Nat) (hdir : (b.obj bo).dir = true)
    (hc : Consistent (withDirOf L name))
    (hnew : (withDirOf L name).lookup (keyOfStr name) = none) (hpar : ParentDir (withDirOf L name) (keyOfStr name)) :
    (copyFile b L name bo).2 = some .io ∧ view (copyFile b L name bo).1 = view (withDirOf L name) := by
  obtain ⟨p, pd, hp, hpd⟩ := hpar
  have hpr := hc.inRange _ _ hp
  have hpk : parentKey (keyOfStr name) ≠ keyOfStr name := by intro e; rw [e, hnew] at hp; cases hp
  have hv := fun d hn hm => view_create_set_remove _ hc (keyOfStr name) p pd hnew hp hpd d hn hm
  have hcr := create_new_eq_attach _ (keyOfStr name) p pd hnew hp hpd hpk hpr
  have hoA : ((withDirOf L name).attach (keyOfStr name) ((withDirOf L name).newFile (keyOfStr name)) p).obj
      (withDirOf L name).objs.length = (withDirOf L name).newFile (keyOfStr name) :=
    obj_attach_new _ _ _ p hpr
  unfold copyFile copyFileFrom
  simp only [hdir, Bool.not_true, Bool.false_and, Bool.false_eq_true, if_false, List.length_nil, if_true]
  have hW : (if fsExists L (keyOfStr (Path.dir name)) = true then L
      else (L.mkdirAll (keyOfStr (Path.dir name)) 0o777).1) = withDirOf L name := rfl
  rw [hW]
  rw [hcr] at hv ⊢
  simp only at hv ⊢
  refine ⟨by simp, ?_⟩
  simp only [show ((42 : Nat) ≠ 0) = True from by simp, if_true]
  apply hv
  · rw [hoA]; rfl
  · rw [hoA]; rfl

theorem withDirOf_existing (L : MemFs) (name : Str) (h : (L.lookup (keyOfStr (Path.dir name))).isSome = true) :
    withDirOf L name = L := by
  unfold withDirOf fsExists; rw [h]; rfl

/-- … when the overlay already holds the parent name and the name's parent directory, the overlay's view is
    what it was -/
theorem copyFile_dir_fails (b L : MemFs) (name : Str) (bo : Nat) (hc : Consistent L)
    (hdir : (b.obj bo).dir = true) (hdk : (L.lookup (keyOfStr (Path.dir name))).isSome = true)
    (hnew : L.lookup (keyOfStr name) = none) (hpar : ParentDir L (keyOfStr name)) :
    (copyFile b L name bo).2 = some .io ∧ view (copyFile b L name bo).1 = view L := by
  have e := withDirOf_existing L name hdk
  have := copyFile_dir_fails_gen b L name bo hdir (by rw [e]; exact hc) (by rw [e]; exact hnew) (by rw [e]; exact hpar)
  rw [e] at this; exact this

/-- the situation in which the model's copy-up fails: the name is a DIRECTORY that only the base holds (the
    overlay — a consistent tree — holding the parent name `filepath.Dir(name)` and the name's parent directory) -/
structure BaseOnlyDir (c : Cow) (p : Str) : Prop where
  cons : Consistent c.s.l
  noLayer : c.s.l.lookup (keyOfStr p) = none
  baseDir : ∃ bo, c.s.b.lookup (keyOfStr p) = some bo ∧ (c.s.b.obj bo).dir = true
  dirName : (c.s.l.lookup (keyOfStr (Path.dir p))).isSome = true
  parent : ParentDir c.s.l (keyOfStr p)

theorem copyUpIfBase_dir_fails (c : Cow) (p : Str) (h : BaseOnlyDir c p) :
    (c.copyUpIfBase p).2 = some .io ∧ (c.copyUpIfBase p).1.s.b = c.s.b ∧
    view (c.copyUpIfBase p).1.s.l = view c.s.l ∧ (c.copyUpIfBase p).1.hs = c.hs := by
  obtain ⟨hc, hl, ⟨bo, hb, hdir⟩, hdk, hpar⟩ := h
  obtain ⟨h1, h2⟩ := copyFile_dir_fails c.s.b c.s.l p bo hc hdir hdk hl hpar
  have e : c.copyUpIfBase p =
      ({ c with s := { c.s with l := (copyFile c.s.b c.s.l p bo).1 } }, (copyFile c.s.b c.s.l p bo).2) := by
    unfold Cow.copyUpIfBase copyToLayer
    simp only [isBaseFile_true c _ bo hl hb, if_true, hb]
  rw [e]
  exact ⟨h1, rfl, h2, rfl⟩

/-- a call fails with the error class `e` and leaves the view as it was -/
def FailsKeepingView (c : Cow) (op : Op) (e : FsErr) : Prop :=
  (c.step op).2 = .err e ∧ ∀ k, cowView (c.step op).1 k = cowView c k

theorem failsKeepingView_of_eq (c : Cow) (op : Op) (e : FsErr) (h : c.step op = (c, .err e)) :
    FailsKeepingView c op e := by
  unfold FailsKeepingView; rw [h]; exact ⟨rfl, fun _ => rfl⟩

/-- `Chmod` of a directory only the base holds: i/o error, the view is unchanged (and so is the base; the overlay
    has allocated and dropped one object) -/
theorem chmod_base_dir (c : Cow) (p : Str) (mode : Nat) (h : BaseOnlyDir c p) :
    FailsKeepingView c (.chmod p mode) .io := by
  have H := copyUpIfBase_dir_fails c p h
  unfold FailsKeepingView
  simp only [Cow.step]
  generalize c.copyUpIfBase p = r at H
  obtain ⟨c1, e⟩ := r
  obtain ⟨rfl, hb, hv, _⟩ := H
  exact ⟨rfl, cowView_congr c c1 hv (by rw [hb])⟩

theorem chown_base_dir (c : Cow) (p : Str) (u g : Int) (h : BaseOnlyDir c p) :
    FailsKeepingView c (.chown p u g) .io := by
  have H := copyUpIfBase_dir_fails c p h
  unfold FailsKeepingView
  simp only [Cow.step]
  generalize c.copyUpIfBase p = r at H
  obtain ⟨c1, e⟩ := r
  obtain ⟨rfl, hb, hv, _⟩ := H
  exact ⟨rfl, cowView_congr c c1 hv (by rw [hb])⟩

theorem chtimes_base_dir (c : Cow) (p : Str) (t : Int) (h : BaseOnlyDir c p) :
    FailsKeepingView c (.chtimes p t) .io := by
  have H := copyUpIfBase_dir_fails c p h
  unfold FailsKeepingView
  simp only [Cow.step]
  generalize c.copyUpIfBase p = r at H
  obtain ⟨c1, e⟩ := r
  obtain ⟨rfl, hb, hv, _⟩ := H
  exact ⟨rfl, cowView_congr c c1 hv (by rw [hb])⟩

/-- `OpenFile` with any write flag of a directory only the base holds -/
theorem openFile_write_base_dir (c : Cow) (p : Str) (flag perm : Nat) (hm : flag &&& cowWriteMask ≠ 0)
    (h : BaseOnlyDir c p) : FailsKeepingView c (.openFile p flag perm) .io := by
  have H := copyUpIfBase_dir_fails c p h
  obtain ⟨bo, hb, _⟩ := h.baseDir
  unfold FailsKeepingView
  simp only [Cow.step, Cow.openFile]
  rw [isBaseFile_true c _ bo h.noLayer hb]
  simp only [hm, ne_eq, not_false_eq_true, if_true]
  generalize c.copyUpIfBase p = r at H
  obtain ⟨c1, e⟩ := r
  obtain ⟨rfl, hb, hv, _⟩ := H
  exact ⟨rfl, cowView_congr c c1 hv (by rw [hb])⟩

/-- `Create` of a directory only the base holds -/
theorem create_base_dir (c : Cow) (p : Str) (h : BaseOnlyDir c p) : FailsKeepingView c (.create p) .io :=
  openFile_write_base_dir c p (O_CREATE ||| O_TRUNC ||| O_RDWR) 0o666 (by decide) h

/-! ### the residue: a parent directory made in the overlay before the call fails -/

/-- `MkdirAll` of a name whose parent directory exists: success, the name denotes a directory with the requested
    bits, every other name denotes what it did; the new object is an empty directory -/
theorem mkdirAll_one_level (L : MemFs) (hc : Consistent L) (dk : Key) (perm : Nat) (hnew : L.lookup dk = none)
    (hpar : ParentDir L dk) :
    (L.mkdirAll dk perm).2 = .ok ∧ (∀ k', view (L.mkdirAll dk perm).1 k' = refMkdir (view L) dk perm k') ∧
    ∃ n, (L.mkdirAll dk perm).1.lookup dk = some n ∧ ((L.mkdirAll dk perm).1.obj n).memDir = some [] := by
  obtain ⟨p, pd, hp, hpd⟩ := hpar
  have hpr := hc.inRange _ _ hp
  obtain ⟨h1, h2⟩ := mkdir_view L hc dk perm p pd hnew hp hpd
  have e : L.mkdirAll dk perm = ((L.mkdir dk perm).1, .ok) := by
    unfold mkdirAll
    generalize L.mkdir dk perm = r at h1
    obtain ⟨m', res⟩ := r
    simp only at h1
    subst h1
    rfl
  rw [e]
  refine ⟨rfl, h2, L.objs.length, ?_, ?_⟩
  · rw [mkdir_eq L dk perm p pd hnew hp hpd hpr]
    show ((L.attach dk _ p).setObj L.objs.length _).lookup dk = _
    rw [lookup_setObj, lookup_attach, if_pos rfl]
  · rw [mkdir_eq L dk perm p pd hnew hp hpd hpr]
    show (((L.attach dk _ p).setObj L.objs.length _).obj L.objs.length).memDir = _
    rw [obj_setObj_self _ _ _ (by rw [length_attach]; exact Nat.lt_succ_self _), obj_attach_new L dk _ p hpr]
    rfl

/-- **residue of a failed write-open.**  `OpenFile` with write flags but without O_CREATE of a name neither layer
    has, in a directory that only the base holds (its parent being in the overlay): the call answers not-exist,
    the base is unchanged, but `layer.MkdirAll(dir, 0777)` has run — in the view the directory now carries the
    bits 0777 instead of the base's; every other name denotes what it did. -/
theorem openFile_absent_write_residue (c : Cow) (p : Str) (flag perm bd : Nat) (hcl : Consistent c.s.l)
    (hl : c.s.l.lookup (keyOfStr p) = none) (hb : c.s.b.lookup (keyOfStr p) = none)
    (hc : ¬ flag &&& O_CREATE > 0) (hm : flag &&& cowWriteMask ≠ 0)
    (hdl : c.s.l.lookup (keyOfStr (Path.dir p)) = none)
    (hbd : c.s.b.lookup (keyOfStr (Path.dir p)) = some bd) (hbdd : (c.s.b.obj bd).dir = true)
    (hpar : ParentDir c.s.l (keyOfStr (Path.dir p))) :
    (c.step (.openFile p flag perm)).2 = .err .notexist ∧ (c.step (.openFile p flag perm)).1.s.b = c.s.b ∧
    (∀ k, cowView (c.step (.openFile p flag perm)).1 k =
      if k = keyOfStr (Path.dir p) then some (.dir ((0o777 &&& chmodBits) ||| modeDir)) else cowView c k) ∧
    cowView c (keyOfStr (Path.dir p)) = some (.dir (c.s.b.obj bd).mode) := by
  obtain ⟨m1, m2, _⟩ := mkdirAll_one_level c.s.l hcl _ 0o777 hdl hpar
  have hne : keyOfStr p ≠ keyOfStr (Path.dir p) := by intro e; rw [e, hbd] at hb; cases hb
  have hk1 : (c.s.l.mkdirAll (keyOfStr (Path.dir p)) 0o777).1.lookup (keyOfStr p) = none := by
    rw [← view_eq_none, m2]; unfold refMkdir; rw [if_neg hne]; exact view_none _ _ hl
  have hstep : c.step (.openFile p flag perm) =
      ({ c with s := { c.s with l := (c.s.l.mkdirAll (keyOfStr (Path.dir p)) 0o777).1 } }, .err .notexist) := by
    simp only [Cow.step, Cow.openFile]
    rw [isBaseFile_of_base_none c _ hb]
    simp only [hm, ne_eq, not_false_eq_true, if_true, Bool.false_eq_true, if_false]
    rw [fsIsDir_some _ _ bd hbd, hbdd]
    simp only [if_true]
    generalize c.s.l.mkdirAll (keyOfStr (Path.dir p)) 0o777 = r at m1 hk1
    obtain ⟨L1, res⟩ := r
    simp only at m1 hk1
    subst m1
    simp only
    exact layerOpenFile_err { c with s := { c.s with l := L1 } } _ flag perm _
      (C01.openFile_missing_inert L1 _ flag perm hk1 hc)
  rw [hstep]
  refine ⟨rfl, rfl, fun k => ?_, ?_⟩
  · unfold cowView
    show (match view (c.s.l.mkdirAll (keyOfStr (Path.dir p)) 0o777).1 k with
      | some n => some n | none => view c.s.b k) = _
    rw [m2]; unfold refMkdir
    by_cases hk : k = keyOfStr (Path.dir p)
    · rw [if_pos hk, if_pos hk]
    · rw [if_neg hk, if_neg hk]
  · rw [cowView_base c _ hdl, view_some _ _ bd hbd, nodeOf_dir _ hbdd]

theorem parentKey_ne_self (k : Key) (h : k ≠ rootKey) : parentKey k ≠ k := by
  intro e
  unfold parentKey at e
  by_cases hs : k.segs = []
  · rw [if_pos hs] at e; exact h e.symm
  · rw [if_neg hs] at e
    rcases normKey_cases ⟨k.rooted, k.segs.dropLast⟩ with h1 | h1
    · rw [h1] at e; apply hs; rw [← e]; rfl
    · rw [h1] at e
      have h2 := congrArg (fun x => x.segs.length) e
      simp only [List.length_dropLast] at h2
      have : k.segs.length ≠ 0 := fun h0 => hs (List.eq_nil_of_length_eq_zero h0)
      omega

/-- a call fails with the error class `e`; in the view the name `d` now denotes a directory with the bits 0777,
    every other name denotes what it did -/
def FailsLeavingDir (c : Cow) (op : Op) (e : FsErr) (d : Key) : Prop :=
  (c.step op).2 = .err e ∧
  ∀ k, cowView (c.step op).1 k = if k = d then some (.dir ((0o777 &&& chmodBits) ||| modeDir)) else cowView c k

/-- the copy-up fails as in `BaseOnlyDir`, but the overlay lacks the directory the name lies in (and holds the
    directory above it): `copyFile` makes it with `MkdirAll(dir, 0777)` before it fails -/
structure BaseOnlyDirFresh (c : Cow) (p : Str) : Prop where
  cons : Consistent c.s.l
  noLayer : c.s.l.lookup (keyOfStr p) = none
  baseDir : ∃ bo, c.s.b.lookup (keyOfStr p) = some bo ∧ (c.s.b.obj bo).dir = true
  noDir : c.s.l.lookup (keyOfStr (Path.dir p)) = none
  dirIsParent : parentKey (keyOfStr p) = keyOfStr (Path.dir p)
  above : ParentDir c.s.l (keyOfStr (Path.dir p))

theorem copyUpIfBase_dir_residue (c : Cow) (p : Str) (h : BaseOnlyDirFresh c p) :
    (c.copyUpIfBase p).2 = some .io ∧ (c.copyUpIfBase p).1.s.b = c.s.b ∧
    ∀ k, view (c.copyUpIfBase p).1.s.l k = refMkdir (view c.s.l) (keyOfStr (Path.dir p)) 0o777 k := by
  obtain ⟨hc, hl, ⟨bo, hb, hdir⟩, hdl, hpk, hpar⟩ := h
  obtain ⟨_, m2, n, m3, m4⟩ := mkdirAll_one_level c.s.l hc _ 0o777 hdl hpar
  have hW : withDirOf c.s.l p = (c.s.l.mkdirAll (keyOfStr (Path.dir p)) 0o777).1 := by
    unfold withDirOf fsExists; rw [hdl]; rfl
  have hne : keyOfStr p ≠ keyOfStr (Path.dir p) := by
    rw [← hpk]; exact (parentKey_ne_self _ (ne_root_of_missing _ hc _ hl)).symm
  have hc0 : Consistent (withDirOf c.s.l p) := by
    rw [hW, mkdirAll_fst]; exact consistent_mkdir _ hc _ (normKey_keyOfStr _) _
  have hnew0 : (withDirOf c.s.l p).lookup (keyOfStr p) = none := by
    rw [hW, ← view_eq_none, m2]; unfold refMkdir; rw [if_neg hne]; exact view_none _ _ hl
  have hpar0 : ParentDir (withDirOf c.s.l p) (keyOfStr p) := by
    rw [hW]; exact ⟨n, [], by rw [hpk]; exact m3, m4⟩
  obtain ⟨h1, h2⟩ := copyFile_dir_fails_gen c.s.b c.s.l p bo hdir hc0 hnew0 hpar0
  have e : c.copyUpIfBase p =
      ({ c with s := { c.s with l := (copyFile c.s.b c.s.l p bo).1 } }, (copyFile c.s.b c.s.l p bo).2) := by
    unfold Cow.copyUpIfBase copyToLayer
    simp only [isBaseFile_true c _ bo hl hb, if_true, hb]
  rw [e]
  refine ⟨h1, rfl, fun k => ?_⟩
  show view (copyFile c.s.b c.s.l p bo).1 k = _
  rw [h2, hW, m2]

theorem cowView_residue (c c1 : Cow) (d : Key) (hb : c1.s.b = c.s.b)
    (hv : ∀ k, view c1.s.l k = refMkdir (view c.s.l) d 0o777 k) (k : Key) :
    cowView c1 k = if k = d then some (.dir ((0o777 &&& chmodBits) ||| modeDir)) else cowView c k := by
  unfold cowView
  rw [hv, hb]; unfold refMkdir
  by_cases hk : k = d
  · rw [if_pos hk, if_pos hk]
  · rw [if_neg hk, if_neg hk]

/-- **residue of a failed copy-up**: `Chmod` of a directory only the base holds, in a directory the overlay lacks —
    i/o error, and in the view the parent directory now carries the bits 0777 -/
theorem chmod_base_dir_residue (c : Cow) (p : Str) (mode : Nat) (h : BaseOnlyDirFresh c p) :
    FailsLeavingDir c (.chmod p mode) .io (keyOfStr (Path.dir p)) := by
  have H := copyUpIfBase_dir_residue c p h
  unfold FailsLeavingDir
  simp only [Cow.step]
  generalize c.copyUpIfBase p = r at H
  obtain ⟨c1, e⟩ := r
  obtain ⟨rfl, hb, hv⟩ := H
  exact ⟨rfl, cowView_residue c c1 _ hb hv⟩

theorem chown_base_dir_residue (c : Cow) (p : Str) (u g : Int) (h : BaseOnlyDirFresh c p) :
    FailsLeavingDir c (.chown p u g) .io (keyOfStr (Path.dir p)) := by
  have H := copyUpIfBase_dir_residue c p h
  unfold FailsLeavingDir
  simp only [Cow.step]
  generalize c.copyUpIfBase p = r at H
  obtain ⟨c1, e⟩ := r
  obtain ⟨rfl, hb, hv⟩ := H
  exact ⟨rfl, cowView_residue c c1 _ hb hv⟩

theorem chtimes_base_dir_residue (c : Cow) (p : Str) (t : Int) (h : BaseOnlyDirFresh c p) :
    FailsLeavingDir c (.chtimes p t) .io (keyOfStr (Path.dir p)) := by
  have H := copyUpIfBase_dir_residue c p h
  unfold FailsLeavingDir
  simp only [Cow.step]
  generalize c.copyUpIfBase p = r at H
  obtain ⟨c1, e⟩ := r
  obtain ⟨rfl, hb, hv⟩ := H
  exact ⟨rfl, cowView_residue c c1 _ hb hv⟩

theorem openFile_write_base_dir_residue (c : Cow) (p : Str) (flag perm : Nat) (hm : flag &&& cowWriteMask ≠ 0)
    (h : BaseOnlyDirFresh c p) : FailsLeavingDir c (.openFile p flag perm) .io (keyOfStr (Path.dir p)) := by
  have H := copyUpIfBase_dir_residue c p h
  obtain ⟨bo, hb, _⟩ := h.baseDir
  unfold FailsLeavingDir
  simp only [Cow.step, Cow.openFile]
  rw [isBaseFile_true c _ bo h.noLayer hb]
  simp only [hm, ne_eq, not_false_eq_true, if_true]
  generalize c.copyUpIfBase p = r at H
  obtain ⟨c1, e⟩ := r
  obtain ⟨rfl, hb, hv⟩ := H
  exact ⟨rfl, cowView_residue c c1 _ hb hv⟩

/-! ### exclusive create of a file only the base holds: the copy-up has already happened -/

theorem setObj_setObj (m : MemFs) (i : Nat) (a b : FData) : (m.setObj i a).setObj i b = m.setObj i b := by
  unfold setObj; simp [List.set_set]

/-- a successful `copyFile` of a regular file, seen in the view: the name denotes a file with the base's bytes
    and the mode `mem.CreateFile` gives (the base's mode bits are NOT copied); every other name denotes what it
    did after `copyFile`'s first step -/
theorem copyFile_file_view (b L : MemFs) (name : Str) (bo : Nat) (hfile : (b.obj bo).dir = false)
    (hc : Consistent (withDirOf L name))
    (hnew : (withDirOf L name).lookup (keyOfStr name) = none) (hpar : ParentDir (withDirOf L name) (keyOfStr name)) :
    (copyFile b L name bo).2 = none ∧
    ∀ k, view (copyFile b L name bo).1 k =
      if k = keyOfStr name then some (.file (b.obj bo).data modeTemporary) else view (withDirOf L name) k := by
  obtain ⟨p, pd, hp, hpd⟩ := hpar
  have hpr := hc.inRange _ _ hp
  have hpk : parentKey (keyOfStr name) ≠ keyOfStr name := by intro e; rw [e, hnew] at hp; cases hp
  have hcr := create_new_eq_attach _ (keyOfStr name) p pd hnew hp hpd hpk hpr
  have hoA : ((withDirOf L name).attach (keyOfStr name) ((withDirOf L name).newFile (keyOfStr name)) p).obj
      (withDirOf L name).objs.length = (withDirOf L name).newFile (keyOfStr name) :=
    obj_attach_new _ _ _ p hpr
  have hlenA : (withDirOf L name).objs.length <
      ((withDirOf L name).attach (keyOfStr name) ((withDirOf L name).newFile (keyOfStr name)) p).objs.length := by
    rw [length_attach]; exact Nat.lt_succ_self _
  unfold copyFile copyFileFrom
  simp only [hfile, Bool.false_eq_true, if_false, List.drop_zero, ne_eq, not_true_eq_false, Bool.not_false,
    Bool.true_and, gt_iff_lt, Nat.not_lt_zero, decide_false]
  have hW : (if fsExists L (keyOfStr (Path.dir name)) = true then L
      else (L.mkdirAll (keyOfStr (Path.dir name)) 0o777).1) = withDirOf L name := rfl
  rw [hW, hcr]
  simp only
  refine ⟨trivial, fun k => ?_⟩
  generalize withDirOf L name = W at *
  unfold chtimes
  simp only [lookup_setObj, lookup_attach, if_true]
  rw [setObj_setObj, setObj_setObj]
  by_cases hk : k = keyOfStr name
  · rw [if_pos hk, view_some _ k W.objs.length (by rw [lookup_setObj, lookup_attach, if_pos hk]),
      obj_setObj_self _ _ _ hlenA]
    rw [obj_setObj_self _ _ _ (by rw [length_setObj]; exact hlenA), obj_setObj_self _ _ _ hlenA, hoA]
    rfl
  · rw [if_neg hk]
    refine view_congr W _ k k (by rw [lookup_setObj, lookup_attach, if_neg hk]) ?_
    intro g hg
    have hgr := hc.inRange _ _ hg
    rw [obj_setObj_ne _ _ _ _ (Nat.ne_of_lt hgr)]
    exact nodeOf_attach_old W _ _ p g hgr

/-- **exclusive `OpenFile` of a regular file only the base holds** (any write flag set, O_EXCL set; the overlay
    holding the parent name and the name's parent directory): the model — as the source — copies the file up
    FIRST and only then lets the overlay refuse the exclusive open.  The call answers already-exists and the base
    is unchanged; in the view the name keeps its kind and its bytes but now carries the mode of a freshly created
    overlay file instead of the base's mode bits; every other name denotes what it did. -/
theorem openFile_excl_base_file (c : Cow) (p : Str) (flag perm bo : Nat) (hcl : Consistent c.s.l)
    (hl : c.s.l.lookup (keyOfStr p) = none) (hb : c.s.b.lookup (keyOfStr p) = some bo)
    (hfile : (c.s.b.obj bo).dir = false)
    (hm : flag &&& cowWriteMask ≠ 0) (hx : flag &&& O_EXCL > 0)
    (hdk : (c.s.l.lookup (keyOfStr (Path.dir p))).isSome = true) (hpar : ParentDir c.s.l (keyOfStr p)) :
    (c.step (.openFile p flag perm)).2 = .err .exist ∧ (c.step (.openFile p flag perm)).1.s.b = c.s.b ∧
    (∀ k, cowView (c.step (.openFile p flag perm)).1 k =
      if k = keyOfStr p then some (.file (c.s.b.obj bo).data modeTemporary) else cowView c k) ∧
    cowView c (keyOfStr p) = some (.file (c.s.b.obj bo).data (c.s.b.obj bo).mode) := by
  have eW := withDirOf_existing c.s.l p hdk
  obtain ⟨h1, h2⟩ := copyFile_file_view c.s.b c.s.l p bo hfile (by rw [eW]; exact hcl) (by rw [eW]; exact hl)
    (by rw [eW]; exact hpar)
  rw [eW] at h2
  have hsome : ((copyFile c.s.b c.s.l p bo).1.lookup (keyOfStr p)).isSome = true := by
    cases hq : (copyFile c.s.b c.s.l p bo).1.lookup (keyOfStr p) with
    | some f => rfl
    | none => have := h2 (keyOfStr p); rw [view_none _ _ hq, if_pos rfl] at this; cases this
  have ecu : c.copyUpIfBase p =
      ({ c with s := { c.s with l := (copyFile c.s.b c.s.l p bo).1 } }, (copyFile c.s.b c.s.l p bo).2) := by
    unfold Cow.copyUpIfBase copyToLayer
    simp only [isBaseFile_true c _ bo hl hb, if_true, hb]
  have hstep : c.step (.openFile p flag perm) =
      ({ c with s := { c.s with l := (copyFile c.s.b c.s.l p bo).1 } }, .err .exist) := by
    simp only [Cow.step, Cow.openFile]
    rw [isBaseFile_true c _ bo hl hb]
    simp only [hm, ne_eq, not_false_eq_true, if_true]
    rw [ecu, h1]
    simp only
    exact layerOpenFile_err { c with s := { c.s with l := (copyFile c.s.b c.s.l p bo).1 } } _ flag perm _
      (C01.openFile_excl_existing_inert _ _ flag perm hsome hx)
  rw [hstep]
  refine ⟨rfl, rfl, fun k => ?_, ?_⟩
  · unfold cowView
    show (match view (copyFile c.s.b c.s.l p bo).1 k with | some n => some n | none => view c.s.b k) = _
    rw [h2]
    by_cases hk : k = keyOfStr p
    · rw [if_pos hk, if_pos hk]
    · rw [if_neg hk, if_neg hk]
  · rw [cowView_base c _ hl, view_some _ _ bo hb, nodeOf_file _ hfile]

/-! ### further calls that fail without touching the state -/

/-- `Rename` of a name only the base holds is refused -/
theorem rename_base_only (c : Cow) (a b : Str) (h : c.isBaseFile (keyOfStr a) = true) :
    c.step (.rename a b) = (c, .err .perm) := by
  simp only [Cow.step]; rw [h]; rfl

/-- `Create` / creating `OpenFile` in a directory neither layer has: the union makes no parents -/
theorem create_noparent (c : Cow) (p : Str) (hb : c.s.b.lookup (keyOfStr p) = none)
    (hd : c.s.l.lookup (keyOfStr (Path.dir p)) = none) (hbd : (fsIsDir c.s.b (keyOfStr (Path.dir p))).1 = false) :
    c.step (.create p) = (c, .err .notexist) := by
  have := openFile_absent_write_noparent c p (O_CREATE ||| O_TRUNC ||| O_RDWR) 0o666 hb (by decide) hd hbd
  simpa only [Cow.step] using this

/-- a method of a handle the union never handed out -/
theorem unknown_handle (c : Cow) (op : Op) (hi : Nat) (hop : op.handle? = some hi) (hh : c.hs[hi]? = none) :
    c.step op = (c, .err .inval) := by
  cases op <;> simp only [Op.handle?, reduceCtorEq] at hop <;>
    (injection hop with hop; subst hop; simp only [Cow.step, Op.handle?, Cow.handleOp, hh])

/-! ### (4) the summary -/

/-- **the failing calls covered**: the call `op` in the state `c` is one of the situations below; `e` is the error
    class the model answers -/
inductive FailsWith (c : Cow) : Op → FsErr → Prop
  /-- `Remove` of a name the overlay lacks (whether or not the base has it) -/
  | remove (p : Str) (hl : c.s.l.lookup (keyOfStr p) = none) : FailsWith c (.remove p) .notexist
  /-- `Rename` from a name neither layer has -/
  | renameAbsent (a b : Str) (hl : c.s.l.lookup (keyOfStr a) = none) (hb : c.s.b.lookup (keyOfStr a) = none) :
      FailsWith c (.rename a b) .notexist
  /-- `Rename` from a name only the base has -/
  | renameBaseOnly (a b : Str) (h : c.isBaseFile (keyOfStr a) = true) : FailsWith c (.rename a b) .perm
  | open_ (p : Str) (hl : c.s.l.lookup (keyOfStr p) = none) (hb : c.s.b.lookup (keyOfStr p) = none) :
      FailsWith c (.open_ p) .notexist
  | stat (p : Str) (hl : c.s.l.lookup (keyOfStr p) = none) (hb : c.s.b.lookup (keyOfStr p) = none) :
      FailsWith c (.stat p) .notexist
  | chmod (p : Str) (mode : Nat) (hl : c.s.l.lookup (keyOfStr p) = none) (hb : c.s.b.lookup (keyOfStr p) = none) :
      FailsWith c (.chmod p mode) .notexist
  | chown (p : Str) (u g : Int) (hl : c.s.l.lookup (keyOfStr p) = none) (hb : c.s.b.lookup (keyOfStr p) = none) :
      FailsWith c (.chown p u g) .notexist
  | chtimes (p : Str) (t : Int) (hl : c.s.l.lookup (keyOfStr p) = none) (hb : c.s.b.lookup (keyOfStr p) = none) :
      FailsWith c (.chtimes p t) .notexist
  /-- `OpenFile` of an absent name, read-only flags -/
  | openFileRO (p : Str) (flag perm : Nat) (hl : c.s.l.lookup (keyOfStr p) = none)
      (hb : c.s.b.lookup (keyOfStr p) = none) (hc : ¬ flag &&& O_CREATE > 0) (hm : flag &&& cowWriteMask = 0) :
      FailsWith c (.openFile p flag perm) .notexist
  /-- `OpenFile` of an absent name, write flags without O_CREATE, the overlay holding the parent name -/
  | openFileW (p : Str) (flag perm ld : Nat) (hl : c.s.l.lookup (keyOfStr p) = none)
      (hb : c.s.b.lookup (keyOfStr p) = none) (hc : ¬ flag &&& O_CREATE > 0) (hm : flag &&& cowWriteMask ≠ 0)
      (hd : c.s.l.lookup (keyOfStr (Path.dir p)) = some ld) :
      FailsWith c (.openFile p flag perm)
        (if (c.s.l.obj ld).dir = false ∧ (fsIsDir c.s.b (keyOfStr (Path.dir p))).1 = false then .notdir else .notexist)
  /-- `OpenFile` with write flags (O_CREATE or not) where neither layer has a directory under the parent name -/
  | openFileNoParent (p : Str) (flag perm : Nat) (hb : c.s.b.lookup (keyOfStr p) = none)
      (hm : flag &&& cowWriteMask ≠ 0) (hd : c.s.l.lookup (keyOfStr (Path.dir p)) = none)
      (hbd : (fsIsDir c.s.b (keyOfStr (Path.dir p))).1 = false) : FailsWith c (.openFile p flag perm) .notexist
  | createNoParent (p : Str) (hb : c.s.b.lookup (keyOfStr p) = none)
      (hd : c.s.l.lookup (keyOfStr (Path.dir p)) = none)
      (hbd : (fsIsDir c.s.b (keyOfStr (Path.dir p))).1 = false) : FailsWith c (.create p) .notexist
  /-- `Mkdir` of a directory of the base -/
  | mkdirBaseDir (p : Str) (perm bo : Nat) (hb : c.s.b.lookup (keyOfStr p) = some bo)
      (hd : (c.s.b.obj bo).dir = true) : FailsWith c (.mkdir p perm) .exist
  /-- exclusive `OpenFile` of a name of the overlay -/
  | openFileExcl (p : Str) (flag perm ld : Nat) (hl : (c.s.l.lookup (keyOfStr p)).isSome = true)
      (hm : flag &&& cowWriteMask ≠ 0) (hx : flag &&& O_EXCL > 0)
      (hd : c.s.l.lookup (keyOfStr (Path.dir p)) = some ld) (hdd : (c.s.l.obj ld).dir = true) :
      FailsWith c (.openFile p flag perm) .exist
  /-- the mutators that copy up first, on a directory only the base holds: the copy-up fails -/
  | chmodBaseDir (p : Str) (mode : Nat) (h : BaseOnlyDir c p) : FailsWith c (.chmod p mode) .io
  | chownBaseDir (p : Str) (u g : Int) (h : BaseOnlyDir c p) : FailsWith c (.chown p u g) .io
  | chtimesBaseDir (p : Str) (t : Int) (h : BaseOnlyDir c p) : FailsWith c (.chtimes p t) .io
  | openFileBaseDir (p : Str) (flag perm : Nat) (hm : flag &&& cowWriteMask ≠ 0) (h : BaseOnlyDir c p) :
      FailsWith c (.openFile p flag perm) .io
  | createBaseDir (p : Str) (h : BaseOnlyDir c p) : FailsWith c (.create p) .io
  /-- a handle method on an index the union never handed out -/
  | unknownHandle (op : Op) (hi : Nat) (hop : op.handle? = some hi) (hh : c.hs[hi]? = none) : FailsWith c op .inval

/-- the call is one of the failing situations covered -/
def FailingCall (c : Cow) (op : Op) : Prop := ∃ e, FailsWith c op e

/-- every covered failing call answers the stated error class and leaves the view as it was -/
theorem cow_fails_with (c : Cow) (op : Op) (e : FsErr) (h : FailsWith c op e) : FailsKeepingView c op e := by
  cases h with
  | remove p hl => exact failsKeepingView_of_eq _ _ _ (remove_absent c p hl)
  | renameAbsent a b hl hb => exact failsKeepingView_of_eq _ _ _ (rename_absent c a b hl hb)
  | renameBaseOnly a b h => exact failsKeepingView_of_eq _ _ _ (rename_base_only c a b h)
  | open_ p hl hb => exact failsKeepingView_of_eq _ _ _ (open_absent c p hl hb)
  | stat p hl hb => exact failsKeepingView_of_eq _ _ _ (stat_absent c p hl hb)
  | chmod p mode hl hb => exact failsKeepingView_of_eq _ _ _ (chmod_absent c p mode hl hb)
  | chown p u g hl hb => exact failsKeepingView_of_eq _ _ _ (chown_absent c p u g hl hb)
  | chtimes p t hl hb => exact failsKeepingView_of_eq _ _ _ (chtimes_absent c p t hl hb)
  | openFileRO p flag perm hl hb hc hm => exact failsKeepingView_of_eq _ _ _ (openFile_absent_ro c p flag perm hl hb hc hm)
  | openFileW p flag perm ld hl hb hc hm hd =>
    exact failsKeepingView_of_eq _ _ _ (openFile_absent_write_parent c p flag perm ld hl hb hc hm hd)
  | openFileNoParent p flag perm hb hm hd hbd =>
    exact failsKeepingView_of_eq _ _ _ (openFile_absent_write_noparent c p flag perm hb hm hd hbd)
  | createNoParent p hb hd hbd => exact failsKeepingView_of_eq _ _ _ (create_noparent c p hb hd hbd)
  | mkdirBaseDir p perm bo hb hd => exact failsKeepingView_of_eq _ _ _ (mkdir_base_dir c p perm bo hb hd)
  | openFileExcl p flag perm ld hl hm hx hd hdd =>
    exact failsKeepingView_of_eq _ _ _ (openFile_excl_overlay c p flag perm ld hl hm hx hd hdd)
  | chmodBaseDir p mode h => exact chmod_base_dir c p mode h
  | chownBaseDir p u g h => exact chown_base_dir c p u g h
  | chtimesBaseDir p t h => exact chtimes_base_dir c p t h
  | openFileBaseDir p flag perm hm h => exact openFile_write_base_dir c p flag perm hm h
  | createBaseDir p h => exact create_base_dir c p h
  | unknownHandle op hi hop hh => exact failsKeepingView_of_eq _ _ _ (unknown_handle c op hi hop hh)

/-- **C06, "a failed call leaves the view unchanged"** — for every situation listed in `FailsWith`: the call
    answers an error (of the class the constructor states) and every name denotes afterwards what it did before -/
theorem cow_failed_calls_keep_view (c : Cow) (op : Op) (h : FailingCall c op) :
    (∃ e, FailsWith c op e ∧ (c.step op).2 = .err e) ∧ ∀ k, cowView (c.step op).1 k = cowView c k := by
  obtain ⟨e, he⟩ := h
  obtain ⟨h1, h2⟩ := cow_fails_with c op e he
  exact ⟨⟨e, he, h1⟩, h2⟩

/-- … and in all of them but the failed copy-ups the whole state (both layers, the handle table) is the same -/
theorem cow_fails_with_state (c : Cow) (op : Op) (e : FsErr) (h : FailsWith c op e) :
    (c.step op).1 = c ∨ (e = .io ∧ (c.step op).1.s.b = c.s.b) := by
  cases h with
  | remove p hl => left; rw [remove_absent c p hl]
  | renameAbsent a b hl hb => left; rw [rename_absent c a b hl hb]
  | renameBaseOnly a b h => left; rw [rename_base_only c a b h]
  | open_ p hl hb => left; rw [open_absent c p hl hb]
  | stat p hl hb => left; rw [stat_absent c p hl hb]
  | chmod p mode hl hb => left; rw [chmod_absent c p mode hl hb]
  | chown p u g hl hb => left; rw [chown_absent c p u g hl hb]
  | chtimes p t hl hb => left; rw [chtimes_absent c p t hl hb]
  | openFileRO p flag perm hl hb hc hm => left; rw [openFile_absent_ro c p flag perm hl hb hc hm]
  | openFileW p flag perm ld hl hb hc hm hd => left; rw [openFile_absent_write_parent c p flag perm ld hl hb hc hm hd]
  | openFileNoParent p flag perm hb hm hd hbd => left; rw [openFile_absent_write_noparent c p flag perm hb hm hd hbd]
  | createNoParent p hb hd hbd => left; rw [create_noparent c p hb hd hbd]
  | mkdirBaseDir p perm bo hb hd => left; rw [mkdir_base_dir c p perm bo hb hd]
  | openFileExcl p flag perm ld hl hm hx hd hdd => left; rw [openFile_excl_overlay c p flag perm ld hl hm hx hd hdd]
  | unknownHandle op hi hop hh => left; rw [unknown_handle c op hi hop hh]
  | chmodBaseDir p mode h =>
    right; refine ⟨rfl, ?_⟩
    have H := copyUpIfBase_dir_fails c p h
    simp only [Cow.step]
    generalize c.copyUpIfBase p = r at H
    obtain ⟨c1, e⟩ := r
    obtain ⟨rfl, hb, _, _⟩ := H
    exact hb
  | chownBaseDir p u g h =>
    right; refine ⟨rfl, ?_⟩
    have H := copyUpIfBase_dir_fails c p h
    simp only [Cow.step]
    generalize c.copyUpIfBase p = r at H
    obtain ⟨c1, e⟩ := r
    obtain ⟨rfl, hb, _, _⟩ := H
    exact hb
  | chtimesBaseDir p t h =>
    right; refine ⟨rfl, ?_⟩
    have H := copyUpIfBase_dir_fails c p h
    simp only [Cow.step]
    generalize c.copyUpIfBase p = r at H
    obtain ⟨c1, e⟩ := r
    obtain ⟨rfl, hb, _, _⟩ := H
    exact hb
  | openFileBaseDir p flag perm hm h =>
    right; refine ⟨rfl, ?_⟩
    have H := copyUpIfBase_dir_fails c p h
    obtain ⟨bo, hb, _⟩ := h.baseDir
    simp only [Cow.step, Cow.openFile]
    rw [isBaseFile_true c _ bo h.noLayer hb]
    simp only [hm, ne_eq, not_false_eq_true, if_true]
    generalize c.copyUpIfBase p = r at H
    obtain ⟨c1, e⟩ := r
    obtain ⟨rfl, hb, _, _⟩ := H
    exact hb
  | createBaseDir p h =>
    right; refine ⟨rfl, ?_⟩
    have H := copyUpIfBase_dir_fails c p h
    obtain ⟨bo, hb, _⟩ := h.baseDir
    simp only [Cow.step, Cow.openFile]
    rw [isBaseFile_true c _ bo h.noLayer hb]
    simp only [show (O_CREATE ||| O_TRUNC ||| O_RDWR) &&& cowWriteMask ≠ 0 from by decide, ne_eq,
      not_false_eq_true, if_true]
    generalize c.copyUpIfBase p = r at H
    obtain ⟨c1, e⟩ := r
    obtain ⟨rfl, hb, _, _⟩ := H
    exact hb

/-! ### non-vacuity -/

namespace CowInertEx

/-- base: the directory /d (0755); empty overlay -/
def baseD : MemFs := MemFs.run MemFs.init [.mkdir "/d".toList 0o755]
def cowD : Cow := { s := { b := baseD, l := MemFs.init }, hs := [] }
/-- base: the directories /d and /d/e; empty overlay -/
def baseDE : MemFs := MemFs.run MemFs.init [.mkdir "/d".toList 0o755, .mkdir "/d/e".toList 0o700]
def cowDE : Cow := { s := { b := baseDE, l := MemFs.init }, hs := [] }
/-- base: /f = "hello" with mode 0600; empty overlay -/
def baseM : MemFs := MemFs.run MemFs.init [.create "/f".toList, .hWrite 0 [104, 101, 108, 108, 111], .chmod "/f".toList 0o600]
def cowM : Cow := { s := { b := baseM, l := MemFs.init }, hs := [] }
/-- overlay: the file /g; base: /f = "hello" -/
def cowO : Cow := { s := { b := C06.baseF, l := MemFs.run MemFs.init [.create "/g".toList] }, hs := [] }

/-! `cowView_stat`: its hypotheses hold, and what it says -/
example : Consistent cowD.s.l ∧ Consistent cowD.s.b :=
  ⟨consistent_init, C01.tree_consistent_fragment [.mkdir "/d".toList 0o755] ⟨trivial, trivial⟩⟩
example : cowView cowD (keyOfStr "/d".toList) = some (.dir (0o755 ||| modeDir)) ∧
    (cowD.step (.stat "/d".toList)).2 = .info "d".toList 42 true (0o755 ||| modeDir) := by decide
example : cowView C06.cowF (keyOfStr "/f".toList) = some (.file [104, 101, 108, 108, 111] modeTemporary) ∧
    (C06.cowF.step (.stat "/f".toList)).2 = .info "f".toList 5 false modeTemporary ∧
    cowView C06.cowF (keyOfStr "/x".toList) = none ∧ (C06.cowF.step (.stat "/x".toList)).2 = .err .notexist := by decide

/-! (1) absent names — every constructor is inhabited on `cowF` (base /f = "hello", empty overlay) -/
example : FailsWith C06.cowF (.remove "/x".toList) .notexist := .remove _ (by decide)
example : FailsWith C06.cowF (.remove "/f".toList) .notexist := .remove _ (by decide)   -- a base-only name
example : FailsWith C06.cowF (.rename "/x".toList "/y".toList) .notexist := .renameAbsent _ _ (by decide) (by decide)
example : FailsWith C06.cowF (.rename "/f".toList "/y".toList) .perm := .renameBaseOnly _ _ (by decide)
example : FailsWith C06.cowF (.open_ "/x".toList) .notexist := .open_ _ (by decide) (by decide)
example : FailsWith C06.cowF (.stat "/x".toList) .notexist := .stat _ (by decide) (by decide)
example : FailsWith C06.cowF (.chmod "/x".toList 0o600) .notexist := .chmod _ _ (by decide) (by decide)
example : FailsWith C06.cowF (.chown "/x".toList 1 1) .notexist := .chown _ _ _ (by decide) (by decide)
example : FailsWith C06.cowF (.chtimes "/x".toList 7) .notexist := .chtimes _ _ (by decide) (by decide)
example : FailsWith C06.cowF (.openFile "/x".toList 0 0) .notexist :=
  .openFileRO _ _ _ (by decide) (by decide) (by decide) (by decide)
example : FailsWith C06.cowF (.openFile "/x".toList O_WRONLY 0) .notexist :=
  .openFileW _ _ _ 0 (by decide) (by decide) (by decide) (by decide) (by decide)
/-- the not-a-directory case: the overlay holds the FILE /g, `/g/x` is opened for writing -/
example : FailsWith cowO (.openFile "/g/x".toList O_WRONLY 0) .notdir :=
  .openFileW _ _ _ 1 (by decide) (by decide) (by decide) (by decide) (by decide)
example : FailsWith C06.cowF (.openFile "/n/x".toList (O_CREATE ||| O_WRONLY) 0o644) .notexist :=
  .openFileNoParent _ _ _ (by decide) (by decide) (by decide) (by decide)
example : FailsWith C06.cowF (.create "/n/x".toList) .notexist := .createNoParent _ (by decide) (by decide) (by decide)
example : FailsWith C06.cowF (.hRead 3 10) .inval := .unknownHandle _ 3 rfl (by decide)
example : (C06.cowF.step (.remove "/x".toList)).2 = .err .notexist ∧
    (C06.cowF.step (.openFile "/x".toList O_WRONLY 0)).2 = .err .notexist ∧
    (cowO.step (.openFile "/g/x".toList O_WRONLY 0)).2 = .err .notdir ∧
    (C06.cowF.step (.rename "/f".toList "/y".toList)).2 = .err .perm := by decide

/-! (2) creating what exists -/
example : FailsWith cowD (.mkdir "/d".toList 0o700) .exist := .mkdirBaseDir _ _ 1 (by decide) (by decide)
example : FailsWith cowO (.openFile "/g".toList (O_CREATE ||| O_EXCL ||| O_RDWR) 0o644) .exist :=
  .openFileExcl _ _ _ 0 (by decide) (by decide) (by decide) (by decide) (by decide)
example : (cowD.step (.mkdir "/d".toList 0o700)).2 = .err .exist ∧
    (cowO.step (.openFile "/g".toList (O_CREATE ||| O_EXCL ||| O_RDWR) 0o644)).2 = .err .exist := by decide
/-- `Mkdir` of a name the overlay holds answers success (and changes nothing): `mkdir_overlay_existing_noop` -/
example : cowO.step (.mkdir "/g".toList 0o755) = (cowO, .ok) := mkdir_overlay_existing_noop _ _ _ (by decide) (by decide)
/-- `Mkdir` of a FILE only the base holds is NOT a failing call in the model (nor in the source): it succeeds and
    the name denotes a directory afterwards -/
example : (C06.cowF.step (.mkdir "/f".toList 0o755)).2 = .ok ∧
    cowView (C06.cowF.step (.mkdir "/f".toList 0o755)).1 (keyOfStr "/f".toList) = some (.dir (0o755 ||| modeDir)) := by
  decide

/-! (3) the copy-up fails: Chmod of the base-only directory /d -/
theorem baseOnlyDir_cowD : BaseOnlyDir cowD "/d".toList :=
  ⟨consistent_init, by decide, ⟨1, by decide, by decide⟩, by decide, ⟨0, [], by decide, by decide⟩⟩
example : FailsWith cowD (.chmod "/d".toList 0o700) .io := .chmodBaseDir _ _ baseOnlyDir_cowD
example : FailsWith cowD (.chown "/d".toList 1 1) .io := .chownBaseDir _ _ _ baseOnlyDir_cowD
example : FailsWith cowD (.chtimes "/d".toList 5) .io := .chtimesBaseDir _ _ baseOnlyDir_cowD
example : FailsWith cowD (.openFile "/d".toList O_RDWR 0) .io := .openFileBaseDir _ _ _ (by decide) baseOnlyDir_cowD
example : FailsWith cowD (.create "/d".toList) .io := .createBaseDir _ baseOnlyDir_cowD
example : (cowD.step (.chmod "/d".toList 0o700)).2 = .err .io ∧
    cowView (cowD.step (.chmod "/d".toList 0o700)).1 (keyOfStr "/d".toList) = cowView cowD (keyOfStr "/d".toList) ∧
    (cowD.step (.chmod "/d".toList 0o700)).1.s.l.objs.length = cowD.s.l.objs.length + 1 := by decide

/-! the residues: the view DOES change (a directory's mode bits) -/
theorem baseOnlyDirFresh_cowDE : BaseOnlyDirFresh cowDE "/d/e".toList :=
  ⟨consistent_init, by decide, ⟨2, by decide, by decide⟩, by decide, by decide, ⟨0, [], by decide, by decide⟩⟩
example : FailsLeavingDir cowDE (.chmod "/d/e".toList 0o700) .io (keyOfStr "/d".toList) :=
  chmod_base_dir_residue _ _ _ baseOnlyDirFresh_cowDE
example : (cowDE.step (.chmod "/d/e".toList 0o700)).2 = .err .io ∧
    cowView cowDE (keyOfStr "/d".toList) = some (.dir (0o755 ||| modeDir)) ∧
    cowView (cowDE.step (.chmod "/d/e".toList 0o700)).1 (keyOfStr "/d".toList) = some (.dir (0o777 ||| modeDir)) := by
  decide
/-- a failed write-open of a missing name below the base-only directory /d -/
example : (cowD.step (.openFile "/d/x".toList O_WRONLY 0)).2 = .err .notexist ∧
    cowView cowD (keyOfStr "/d".toList) = some (.dir (0o755 ||| modeDir)) ∧
    cowView (cowD.step (.openFile "/d/x".toList O_WRONLY 0)).1 (keyOfStr "/d".toList) = some (.dir (0o777 ||| modeDir)) :=
  by decide
example := openFile_absent_write_residue cowD "/d/x".toList O_WRONLY 0 1 consistent_init (by decide) (by decide)
  (by decide) (by decide) (by decide) (by decide) (by decide) ⟨0, [], by decide, by decide⟩
/-- a failed exclusive create of the base-only file /f (mode 0600): copied up, the mode bits are lost -/
example := openFile_excl_base_file cowM "/f".toList (O_CREATE ||| O_EXCL ||| O_RDWR) 0o644 1 consistent_init
  (by decide) (by decide) (by decide) (by decide) (by decide) (by decide) ⟨0, [], by decide, by decide⟩
example : (cowM.step (.openFile "/f".toList (O_CREATE ||| O_EXCL ||| O_RDWR) 0o644)).2 = .err .exist ∧
    cowView cowM (keyOfStr "/f".toList) = some (.file [104, 101, 108, 108, 111] (modeTemporary ||| 0o600)) ∧
    cowView (cowM.step (.openFile "/f".toList (O_CREATE ||| O_EXCL ||| O_RDWR) 0o644)).1 (keyOfStr "/f".toList) =
      some (.file [104, 101, 108, 108, 111] modeTemporary) := by decide

end CowInertEx

end AferoVerif
