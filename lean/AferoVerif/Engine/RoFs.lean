/-
  Driver engine `rofs`: ReadOnlyFs over the MemMapFs model.
  `case ro-mem` is modelled; any other stack label makes the whole case `unmodelled`
  (those stacks are judged by the implementation-side oracle only).
  Lines prefixed `src.` act on the source directly (set-up and direct observation).
-/
import AferoVerif.Engine.FsParse
import AferoVerif.Model.ReadOnlyFs
namespace AferoVerif.Engine.RoFs
open AferoVerif Script AferoVerif.Engine

structure St where
  m : MemFs := MemFs.init
  modelled : Bool := true

def stepLine (s : St) (line : String) : St × String :=
  match tokens line with
  | ["case", stack] => ({ m := MemFs.init, modelled := stack == "ro-mem" }, "case")
  | toks =>
    if !s.modelled then (s, "unmodelled") else
    match toks with
    | ["now", t] => match parseInt t with
      | some t => ({ s with m := { s.m with now := t } }, "ok") | none => (s, "bad-op")
    | ["snapshot"] => (s, snapshot s.m)
    | t0 :: rest =>
      if t0.startsWith "src." then
        match parseOp ((t0.drop 4).toString :: rest) with
        | some op => let (m', r) := s.m.step op; ({ s with m := m' }, renderRes r)
        | none => (s, "unmodelled")
      else
        -- ReadOnlyFs.LstatIfPossible: the source's Lstat, or its Stat; MemMapFs has no links, so it is Stat
        let toks := if t0 = "lstat" then "stat" :: rest else toks
        match parseOp toks with
        | some op => let (m', r) := roStep s.m op; ({ s with m := m' }, renderRes r)
        | none => (s, "unmodelled")
    | [] => (s, "bad-op")

end AferoVerif.Engine.RoFs
