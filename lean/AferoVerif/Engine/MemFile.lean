/-
  Driver engine `memfile`: runs the *code* model `stepC` of mem/file.go on a script.
  (The spec `stepS` is tied to `stepC` by theorem C02.refines_flat; the Go side compares
  the implementation with this output and, independently, with its own flat oracle.)
-/
import AferoVerif.Model.MemFile
namespace AferoVerif.Engine.MemFile
open AferoVerif Script

def renderErr (e : Option FErr) : String :=
  match e with | none => "-" | some e => e.tag

def render : FOut → String
  | .ok => "ok"
  | .err e => "err:" ++ e.tag
  | .n k e => s!"n={k} err:{renderErr e}"
  | .bytes b e => s!"bytes={hexOrDash b} err:{renderErr e}"
  | .pos p => s!"pos={p}"
  | .size k => s!"size={k}"
  | .panic => "panic"

def parseOp (toks : List String) : Option FOp :=
  match toks with
  | ["read", h, n] => do pure (.read (← parseNat h) (← parseNat n))
  | ["readat", h, n, off] => do pure (.readAt (← parseNat h) (← parseNat n) (← parseInt off))
  | ["write", h, b] => do pure (.write (← parseNat h) (← bytesOfHex b))
  | ["writestring", h, b] => do pure (.write (← parseNat h) (← bytesOfHex b))   -- WriteString(s) = Write([]byte(s))
  | ["readfrom", h, b] => do pure (.write (← parseNat h) (← bytesOfHex b))      -- io.Copy(f, r), non-empty r, one buffer = Write
  | ["writeat", h, b, off] => do pure (.writeAt (← parseNat h) (← bytesOfHex b) (← parseInt off))
  | ["trunc", h, n] => do pure (.truncate (← parseNat h) (← parseInt n))
  | ["seek", h, off, wh] => do pure (.seek (← parseNat h) (← parseInt off) (← parseNat wh))
  | ["close", h] => do pure (.close (← parseNat h))
  | ["size"] => some .size
  | _ => none

/-- `case <hex data> <modes>`; modes is a string over {w,r,a}: one handle per letter -/
def parseCase (toks : List String) : Option FileSt :=
  match toks with
  | ["case", d, modes] => do
    let d ← bytesOfHex d
    -- ('a': a handle opened with O_APPEND — positioned at the end of the file, an ordinary handle otherwise)
    pure { data := d, hs := modes.toList.map fun c => { readOnly := c == 'r', pos := if c == 'a' then (d.length : Int) else 0 } }
  | _ => none

/-- `copyout h`: io.Copy(w, f) into a plain writer — Read until the end of the file; the final io.EOF is
    not an error for io.Copy, every other error is (and is reported with the bytes copied so far) -/
def copyOut (s : FileSt) (h : Nat) : FileSt × String :=
  let r := stepC s (.read h (2 ^ 40))
  match r.2 with
  | .bytes b (some .eof) => (r.1, s!"bytes={hexOrDash b} err:-")
  | .err e => (r.1, s!"bytes=- err:{e.tag}")
  | o => (r.1, render o)

def stepLine (s : FileSt) (line : String) : FileSt × String :=
  let toks := tokens line
  match parseCase toks with
  | some s' => (s', "case")
  | none =>
    match toks with
    | ["copyout", h] => (match parseNat h with | some k => copyOut s k | none => (s, "bad-op"))
    | _ =>
    match parseOp toks with
    | none => (s, "bad-op")
    | some op => let (s', o) := stepC s op; (s', render o)

def init : FileSt := { data := [], hs := [] }

end AferoVerif.Engine.MemFile
