/-
  Driver engine `archive`: runs the model of zipfs / tarfs (Model/Archive.lean) on a script.

    case zip-store|zip-deflate|tar <entries>     entries: `-` or  name:d|f:data , …
                                                  name hex; data hex | `-` | g<seed>x<len> (generated)
    ocase …                                       oracle-only case: every line answers `unmodelled`
    stat p | open p | openfile p flag | create p | mkdir p | mkdirall p | remove p | removeall p
    rename p q | chmod p | chown p | chtimes p
    h.read k n | h.readat k n off | h.seek k off wh | h.close k | h.readdir k n | h.readdirnames k n
    h.stat k | h.name k | h.sync k | h.write k hex | h.writeat k hex off | h.writestring k hex | h.trunc k n
-/
import AferoVerif.Model.Archive
namespace AferoVerif.Engine.Archive
open AferoVerif Script AferoVerif.Archive

def toStr (b : Bytes) : Str := b.map fun x => Char.ofNat x.toNat
def ofStr (s : Str) : Bytes := s.map fun c => UInt8.ofNat c.toNat
def hx (s : Str) : String := hexOrDash (ofStr s)
def arg (s : String) : Option Str := (bytesOfHex s).map toStr

/-- deterministic filler for large entries (the Go side computes the same bytes) -/
def genByte (seed i : Nat) : UInt8 := UInt8.ofNat ((seed + i * 31 + i / 251) % 256)

def genData (seed len : Nat) : Bytes := (List.range len).map (genByte seed)

def parseData (s : String) : Option Bytes :=
  if s.startsWith "g" then
    match (s.drop 1).toString.splitOn "x" with
    | [a, b] => do pure (genData (← parseNat a) (← parseNat b))
    | _ => none
  else bytesOfHex s

def parseEntry (s : String) : Option Entry :=
  match s.splitOn ":" with
  | [n, k, d] => do
    let n ← arg n
    let d ← parseData d
    pure { name := n, isDir := k == "d", data := d }
  | _ => none

def parseEntries (s : String) : Option (List Entry) :=
  if s = "-" then some [] else (s.splitOn ",").mapM parseEntry

def parseKind (s : String) : Option Kind :=
  if s = "tar" then some .tar else if s = "zip-store" ∨ s = "zip-deflate" then some .zip else none

/-- FNV-1a 64 of a byte string: long reads are compared by length and digest -/
def fnv (b : Bytes) : UInt64 :=
  b.foldl (fun h x => (h ^^^ x.toUInt64) * 1099511628211) 14695981039346656037

def renderBytes (b : Bytes) : String :=
  if b.length ≤ 32 then hexOrDash b else s!"#{b.length}:{(fnv b).toNat}"

def renderErr (e : Option Err) : String :=
  match e with | none => "-" | some e => e.tag

def bool (b : Bool) : String := if b then "true" else "false"

def render : Res → String
  | .ok => "ok"
  | .err e => "err:" ++ e.tag
  | .handle i => s!"h={i}"
  | .info nm size d => s!"info name={hx nm} size={size} dir={bool d}"
  | .bytes b e => s!"bytes={renderBytes b} err:{renderErr e}"
  | .pos p => s!"pos={p}"
  | .n k e => s!"n={k} err:{renderErr e}"
  | .infos l => "infos=" ++ ",".intercalate (l.map fun x => hx x.1 ++ (if x.2 then "/d" else "/f"))
  | .names l => "names=" ++ ",".intercalate (l.map hx)
  | .str s => "str=" ++ hx s
  | .panic => "panic"
  | .unmodelled => "unmodelled"

def parseMut (s : String) : Option FsMut :=
  match s with
  | "create" => some .create | "mkdir" => some .mkdir | "mkdirall" => some .mkdirAll
  | "remove" => some .remove | "removeall" => some .removeAll | "rename" => some .rename
  | "chmod" => some .chmod | "chown" => some .chown | "chtimes" => some .chtimes
  | _ => none

def parseOp (toks : List String) : Option Op :=
  match toks with
  | ["stat", p] => do pure (.stat (← arg p))
  | ["open", p] => do pure (.open (← arg p))
  | ["openfile", p, f] => do pure (.openFile (← arg p) (← parseInt f))
  | ["h.read", k, n] => do pure (.h (← parseNat k) (.read (← parseNat n)))
  | ["h.readat", k, n, off] => do pure (.h (← parseNat k) (.readAt (← parseNat n) (← parseNat off)))
  | ["h.seek", k, off, wh] => do pure (.h (← parseNat k) (.seek (← parseInt off) (← parseNat wh)))
  | ["h.close", k] => do pure (.h (← parseNat k) .close)
  | ["h.readdir", k, n] => do pure (.h (← parseNat k) (.readdir (← parseInt n)))
  | ["h.readdirnames", k, n] => do pure (.h (← parseNat k) (.readdirnames (← parseInt n)))
  | ["h.stat", k] => do pure (.h (← parseNat k) .stat)
  | ["h.name", k] => do pure (.h (← parseNat k) .name)
  | ["h.sync", k] => do pure (.h (← parseNat k) .sync)
  | ["h.write", k, b] => do pure (.h (← parseNat k) (.write (← bytesOfHex b)))
  | ["h.writeat", k, b, off] => do pure (.h (← parseNat k) (.writeAt (← bytesOfHex b) (← parseInt off)))
  | ["h.writestring", k, b] => do pure (.h (← parseNat k) (.writeString (← bytesOfHex b)))
  | ["h.trunc", k, n] => do pure (.h (← parseNat k) (.truncate (← parseInt n)))
  | [m, p] => do pure (.fsMut (← parseMut m) (← arg p) [])
  | [m, p, q] => do pure (.fsMut (← parseMut m) (← arg p) (← arg q))
  | _ => none

structure EngSt where
  st : St := {}
  oracleOnly : Bool := false

def init : EngSt := {}

/-- zipfs lists its map in random order: with a positive count only the number of entries is
    an observable -/
def renderFor (k : Kind) (op : Op) (r : Res) : String :=
  match k, op, r with
  | .zip, .h _ (.readdir c), .infos l => if c > 0 then s!"count={l.length}" else render r
  | .zip, .h _ (.readdirnames c), .names l => if c > 0 then s!"count={l.length}" else render r
  | _, _, _ => render r

def stepLine (s : EngSt) (line : String) : EngSt × String :=
  match tokens line with
  | "ocase" :: _ => ({ s with oracleOnly := true }, "unmodelled")
  | ["case", k, es] =>
    (match parseKind k, parseEntries es with
     | some k, some arch => ({ st := AferoVerif.Archive.init k arch, oracleOnly := false }, "case")
     | _, _ => ({ s with oracleOnly := true }, "bad-case"))
  | toks =>
    if s.oracleOnly then (s, "unmodelled")
    else match parseOp toks with
      | none => (s, "bad-op")
      | some op =>
        let r := step s.st op
        ({ s with st := r.1 }, renderFor s.st.kind op r.2)

end AferoVerif.Engine.Archive
