/-
  Driver engine `contains`:  `contains <content-hex> <needle-hex>+`  →  true | false
  `containsgen <len> <fill> <off1> <part1-hex> <off2> <part2-hex> <needle-hex>+`: the content is `len`
  bytes `fill` with the two parts written at their offsets (large contents without large scripts).
  Any other line (e.g. the round-trip operations, which are checked by the Go-side oracle
  only) is answered `unmodelled`.
-/
import AferoVerif.Model.Contains
import AferoVerif.Model.Util
import AferoVerif.Engine.CopyFault
import AferoVerif.Engine.FsParse
namespace AferoVerif.Engine.Contains
open AferoVerif Script

/-- overwrite `part` into `c` at offset `off` (clipped to the content's length) -/
def splice (c : List UInt8) (off : Nat) (part : List UInt8) : List UInt8 :=
  (c.take off ++ part ++ c.drop (off + part.length)).take c.length

/-- engine state: the in-memory filesystem of the case (the round-trip lines are modelled on the
    `mem` stack; other stacks are judged by the Go-side oracle only) -/
structure St where
  modelled : Bool := false
  m : MemFs := MemFs.init

/-- one `rt <kind> <path-hex> <size> <seed>` line on the model: the helper, then ReadFile -/
def rtLine (m : MemFs) (kind : String) (path : Str) (size seed : Nat) : MemFs × String :=
  let data := CopyFault.genBytes size seed
  let dir := (Path.splitDirFile path).1
  let verdict (m : MemFs) (want : Bytes) : MemFs × String :=
    let r := Util.readFile m path
    (r.1, if r.2 = some want then "rt ok" else "rt model-mismatch")
  match kind with
  | "writefile" =>
    let m1 := (m.mkdirAll (keyOfStr dir) 0o755).1
    let w := Util.writeFile m1 path data 0o644
    if w.2 = .ok then verdict w.1 data else (w.1, "rt model-fail")
  | "writereader" | "writereader-partial" | "writereader-plain" | "writereader-eofdata" =>   -- (-partial: the reader had been read from before; what is written is what is left in it)
    let w := Util.writeReader m path data
    if w.2 = .ok then verdict w.1 data else (w.1, "rt model-fail")
  | "safewrite" | "safewrite-partial" | "safewrite-plain" | "safewrite-eofdata" =>   -- (-eofdata: the reader hands its last bytes out together with io.EOF)
    let w := Util.safeWriteReader m path data
    if w.2 = .ok then verdict w.1 data else (w.1, "rt model-fail")
  | "safeexisting" =>
    let old := CopyFault.genBytes (size / 2 + 3) (seed + 1)
    let w0 := Util.writeReader m path old
    let w := Util.safeWriteReader w0.1 path data
    if w0.2 = .ok ∧ w.2 ≠ .ok then verdict w.1 old else (w.1, "rt model-fail")
  | "writefile-over" | "writereader-over" =>
    let old := CopyFault.genBytes (size * 2 + 7) (seed + 1)
    let m1 := (m.mkdirAll (keyOfStr dir) 0o755).1
    let w0 := Util.writeFile m1 path old 0o644
    let w := if kind = "writefile-over" then Util.writeFile w0.1 path data 0o644 else Util.writeReader w0.1 path data
    if w0.2 = .ok ∧ w.2 = .ok then verdict w.1 data else (w.1, "rt model-fail")
  | _ => (m, "bad-op")

def stepLine (s : St) (line : String) : St × String :=
  match tokens line with
  | ["case", "mem"] => ({ modelled := true, m := MemFs.init }, "case")
  | "case" :: _ => ({ modelled := false }, "case")
  | ["rt", kind, p, size, seed] =>
    if !s.modelled then (s, "unmodelled") else
    match bytesOfHex p, size.toNat?, seed.toNat? with
    | some p, some size, some seed =>
      let r := rtLine s.m kind (toStr p) size seed
      ({ s with m := r.1 }, r.2)
    | _, _, _ => (s, "bad-op")
  | "contains" :: c :: ns =>
    match bytesOfHex c, ns.mapM bytesOfHex with
    | some c, some ns => (s, if containsAny c ns then "true" else "false")
    | _, _ => (s, "bad-op")
  | "containsgen" :: len :: fill :: o1 :: p1 :: o2 :: p2 :: ns =>
    match len.toNat?, fill.toNat?, o1.toNat?, bytesOfHex p1, o2.toNat?, bytesOfHex p2, ns.mapM bytesOfHex with
    | some len, some fill, some o1, some p1, some o2, some p2, some ns =>
      (s, if containsAny (splice (splice (List.replicate len (UInt8.ofNat fill)) o1 p1) o2 p2) ns then "true" else "false")
    | _, _, _, _, _, _, _ => (s, "bad-op")
  | _ => (s, "unmodelled")

end AferoVerif.Engine.Contains
