/-
  Driver engine `contains`:  `contains <content-hex> <needle-hex>+`  →  true | false
  Any other line (e.g. the round-trip operations, which are checked by the Go-side oracle
  only) is answered `unmodelled`.
-/
import AferoVerif.Model.Contains
namespace AferoVerif.Engine.Contains
open AferoVerif Script

def stepLine (s : Unit) (line : String) : Unit × String :=
  match tokens line with
  | "case" :: _ => (s, "case")
  | "contains" :: c :: ns =>
    match bytesOfHex c, ns.mapM bytesOfHex with
    | some c, some ns => (s, if containsAny c ns then "true" else "false")
    | _, _ => (s, "bad-op")
  | _ => (s, "unmodelled")

end AferoVerif.Engine.Contains
