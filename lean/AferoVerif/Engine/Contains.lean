/-
  Driver engine `contains`:  `contains <content-hex> <needle-hex>+`  →  true | false
  `containsgen <len> <fill> <off1> <part1-hex> <off2> <part2-hex> <needle-hex>+`: the content is `len`
  bytes `fill` with the two parts written at their offsets (large contents without large scripts).
  Any other line (e.g. the round-trip operations, which are checked by the Go-side oracle
  only) is answered `unmodelled`.
-/
import AferoVerif.Model.Contains
namespace AferoVerif.Engine.Contains
open AferoVerif Script

/-- overwrite `part` into `c` at offset `off` (clipped to the content's length) -/
def splice (c : List UInt8) (off : Nat) (part : List UInt8) : List UInt8 :=
  (c.take off ++ part ++ c.drop (off + part.length)).take c.length

def stepLine (s : Unit) (line : String) : Unit × String :=
  match tokens line with
  | "case" :: _ => (s, "case")
  | "contains" :: c :: ns =>
    match bytesOfHex c, ns.mapM bytesOfHex with
    | some c, some ns => (s, if containsAny c ns then "true" else "false")
    | _, _ => (s, "bad-op")
  | "containsgen" :: len :: fill :: o1 :: p1 :: o2 :: p2 :: ns =>
    match len.toNat?, fill.toNat?, o1.toNat?, bytesOfHex p1, o2.toNat?, bytesOfHex p2, ns.mapM bytesOfHex with
    | some len, some fill, some o1, some p1, some o2, some p2, some ns =>
      (s, if containsAny (splice (splice (List.replicate len (UInt8.ofNat fill)) o1 p1) o2 p2) ns then "true" else "false")
    | _, _, _, _, _, _, _ => (s, "bad-op")
  | _ => (s, "unmodelled")

end AferoVerif.Engine.Contains
