/-
  Driver engine `cachefs`: `case cache-mem <dur-seconds>`; `b.<op>` / `l.<op>` act on the
  base / cache layer directly (direct base edits are part of C10's quantifier).
  Script times are relative to the moment the case starts; the model clock stays at that origin.
  The model's time unit is the millisecond: `chtimes` arguments and the duration are seconds and
  are scaled, `chtimesms` arguments are milliseconds (modification times that differ by less than
  a second).
-/
import AferoVerif.Engine.CowFs
import AferoVerif.Model.Cache
namespace AferoVerif.Engine.CacheFs
open AferoVerif Script AferoVerif.Engine

structure St where
  c : Cow := {}
  dur : Int := 0
  modelled : Bool := true

/-- bring the time argument of a (prefix-stripped) chtimes line to milliseconds -/
def toMs : List String → List String
  | ["chtimes", p, t] => match parseInt t with
    | some t => ["chtimes", p, toString (t * 1000)]
    | none => ["chtimes", p, t]
  | ["chtimesms", p, t] => ["chtimes", p, t]
  | l => l

/-- `readthrough p` / `readthroughof p`: afero.ReadFile — Open (or, for `readthroughof`, OpenFile(O_RDONLY)),
    read everything, Close; the temporary handle leaves the table again -/
def readThrough (s : St) (viaOpenFile : Bool) (p : String) : St × String :=
  match arg p with
  | none => (s, "bad-op")
  | some p =>
    let k := keyOfStr p
    if (s.c.s.l.lookup k).isNone ∧ (s.c.s.b.lookup k).isNone then (s, "rd absent") else
    let cls := match Cache.cacheStatus s.c s.dur k with
      | .miss => "miss" | .stale => "stale" | .hit => "hit" | .local_ => "local"
    let n := s.c.hs.length
    match Cache.step s.dur s.c (if viaOpenFile then .openFile p 0 0 else .open_ p) with
    | (c1, .handle h _) =>
      let (c2, _) := Cache.step s.dur c1 (.hClose h)
      ({ s with c := { c2 with hs := c2.hs.take n } }, "rd ok " ++ cls)
    | (c1, _) => ({ s with c := c1 }, "rd fail")

def stepLine (s : St) (line : String) : St × String :=
  match tokens line with
  | ["case", "cache-mem", d] => match parseInt d with
    | some d => ({ c := {}, dur := d * 1000 }, "case") | none => (s, "bad-op")
  | ["case", "cache-mem-ms", d] => match parseInt d with     -- a duration given in milliseconds
    | some d => ({ c := {}, dur := d }, "case") | none => (s, "bad-op")
  | "case" :: _ => ({ c := {}, modelled := false }, "case")
  | toks =>
    if !s.modelled then (s, "unmodelled") else
    match toks with
    | ["readthrough", p] => readThrough s false p
    | ["readthroughof", p] => readThrough s true p
    | ["cohere"] => (s, "cohere ok")
    | ["snapshot"] => (s, "snap B{" ++ snapshot s.c.s.b ++ "} L{" ++ snapshot s.c.s.l ++ "}")
    | t0 :: rest =>
      if t0.startsWith "b." || t0.startsWith "l." then
        match parseOp (toMs ((t0.drop 2).toString :: rest)) with
        | some op => let (c', r) := CowFs.direct s.c (t0.startsWith "b.") op; ({ s with c := c' }, renderRes r)
        | none => (s, "unmodelled")
      else
        match parseOp (toMs toks) with
        | some op => let (c', r) := Cache.step s.dur s.c op; ({ s with c := c' }, renderRes r)
        | none => (s, "unmodelled")
    | [] => (s, "bad-op")

end AferoVerif.Engine.CacheFs
