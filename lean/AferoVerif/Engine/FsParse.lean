/-
  Parser and renderer of the Fs-level script language (shared by all Fs engines).
-/
import AferoVerif.Model.FsOp
import AferoVerif.Model.Script
namespace AferoVerif.Engine
open AferoVerif Script AferoVerif.Path

def toStr (b : Bytes) : Str := b.map fun x => Char.ofNat x.toNat
def ofStr (s : Str) : Bytes := s.map fun c => UInt8.ofNat c.toNat
def hx (s : Str) : String := hexOrDash (ofStr s)
def arg (s : String) : Option Str := (bytesOfHex s).map toStr

def ferr (e : Option FErr) : String := match e with | none => "-" | some e => e.tag

def renderFOut : FOut → String
  | .ok => "ok"
  | .err e => "err:" ++ e.tag
  | .n k e => s!"n={k} err:{ferr e}"
  | .bytes b e => s!"bytes={hexOrDash b} err:{ferr e}"
  | .pos p => s!"pos={p}"
  | .size k => s!"size={k}"
  | .panic => "panic"

def renderRes : MRes → String
  | .ok => "ok"
  | .err e => "err:" ++ e.tag
  | .handle h none => s!"h={h}"
  | .handle h (some e) => s!"h={h} err:{e.tag}"
  | .info n sz d mode => s!"info name={hx n} size={sz} dir={d} mode={mode}"
  | .names ns e => "names=" ++ ",".intercalate (ns.map hx) ++ " err:" ++ ferr e
  | .infos ns e => "infos=" ++ ",".intercalate (ns.map fun (n, d) => hx n ++ (if d then "/d" else "/f")) ++ " err:" ++ ferr e
  | .str s => "str=" ++ hx s
  | .file o => renderFOut o
  | .panic => "panic"

def parseOp (toks : List String) : Option Op :=
  match toks with
  | ["create", p] => do pure (.create (← arg p))
  | ["mkdir", p, perm] => do pure (.mkdir (← arg p) (← parseNat perm))
  | ["mkdirall", p, perm] => do pure (.mkdirAll (← arg p) (← parseNat perm))
  | ["open", p] => do pure (.open_ (← arg p))
  | ["openfile", p, flag, perm] => do
    -- Go's `int` flag: a negative value is its 64-bit two's complement bit pattern
    let f ← parseInt flag
    let fn : Nat := if f < 0 then (2 ^ 64 + f).toNat else f.toNat
    pure (.openFile (← arg p) fn (← parseNat perm))
  | ["remove", p] => do pure (.remove (← arg p))
  | ["removeall", p] => do pure (.removeAll (← arg p))
  | ["rename", a, b] => do pure (.rename (← arg a) (← arg b))
  | ["stat", p] => do pure (.stat (← arg p))
  | ["statperm", p] => do pure (.stat (← arg p))
  | ["chmod", p, mode] => do pure (.chmod (← arg p) (← parseNat mode))
  | ["chown", p, u, g] => do pure (.chown (← arg p) (← parseInt u) (← parseInt g))
  | ["chtimes", p, t] => do pure (.chtimes (← arg p) (← parseInt t))
  | ["h.read", h, n] => do pure (.hRead (← parseNat h) (← parseNat n))
  | ["h.readat", h, n, off] => do pure (.hReadAt (← parseNat h) (← parseNat n) (← parseInt off))
  | ["h.write", h, b] => do pure (.hWrite (← parseNat h) (← bytesOfHex b))
  | ["h.writestring", h, b] => do pure (.hWrite (← parseNat h) (← bytesOfHex b))   -- File.WriteString(s) = Write([]byte(s))
  | ["h.readfrom", h, b] => do pure (.hWrite (← parseNat h) (← bytesOfHex b))      -- io.Copy(f, r) with a non-empty r that fits one buffer = Write
  | ["h.writeat", h, b, off] => do pure (.hWriteAt (← parseNat h) (← bytesOfHex b) (← parseInt off))
  | ["h.trunc", h, n] => do pure (.hTrunc (← parseNat h) (← parseInt n))
  | ["h.seek", h, off, wh] => do pure (.hSeek (← parseNat h) (← parseInt off) (← parseNat wh))
  | ["h.close", h] => do pure (.hClose (← parseNat h))
  | ["h.name", h] => do pure (.hName (← parseNat h))
  | ["h.stat", h] => do pure (.hStat (← parseNat h))
  | ["h.sync", h] => do pure (.hSync (← parseNat h))
  | ["h.readdir", h, n] => do pure (.hReaddir (← parseNat h) (← parseInt n))
  | ["h.readdirnames", h, n] => do pure (.hReaddirnames (← parseNat h) (← parseInt n))
  | _ => none

/-- canonical dump of a MemMapFs model state: one entry per key of the path map, sorted -/
def snapshot (m : MemFs) : String :=
  let es := m.data.mergeSort fun a b => strLe a.1.render b.1.render
  let one (e : Key × Nat) : String :=
    let d := m.obj e.2
    let listing := if d.dir then ",".intercalate ((m.dirFiles d).map fun o => hx (baseName (m.obj o).name)) else ""
    s!"{hx e.1.render}:{if d.dir then "d" else "f"}:{if d.dir then 42 else d.data.length}:{d.mode}:{if d.dir then "-" else hexOrDash d.data}:{listing}"
  "snap " ++ "|".intercalate (es.map one)

end AferoVerif.Engine
