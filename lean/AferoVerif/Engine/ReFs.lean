/-
  Driver engine `refs`: `case re <pattern-id>` with pattern-id ∈ txt | a | x | ac;
  `src.<op>` lines act on the source MemMapFs.
-/
import AferoVerif.Engine.FsParse
import AferoVerif.Model.RegexpFs
namespace AferoVerif.Engine.ReFs
open AferoVerif Script AferoVerif.Engine

structure St where
  s : ReSt := {}
  pred : Str → Bool := fun _ => true
  modelled : Bool := true

def stepLine (st : St) (line : String) : St × String :=
  match tokens line with
  | ["case", "re", pid] =>
    let pr : Option (Str → Bool) := match pid with
      | "txt" => some predTxt | "a" => some predA | "x" => some predX | "ac" => some predAC | "nodot" => some predNoDot | _ => none
    match pr with
    -- (as repaired) the pattern is applied to filepath.Clean(name); a listing entry's base name is clean already
    | some p => ({ s := {}, pred := fun n => p (Path.clean n) }, "case")
    | none => ({ s := {}, modelled := false }, "case")
  | "case" :: _ => ({ s := {}, modelled := false }, "case")
  | toks =>
    if !st.modelled then (st, "unmodelled") else
    match toks with
    | ["snapshot"] => (st, snapshot st.s.m)
    | t0 :: rest =>
      if t0.startsWith "src." then
        match parseOp ((t0.drop 4).toString :: rest) with
        | some op => let r := st.s.m.step op; ({ st with s := { st.s with m := r.1 } }, renderRes r.2)
        | none => (st, "unmodelled")
      else
        match parseOp toks with
        | some op => let r := reStep st.pred st.s op; ({ st with s := r.1 }, renderRes r.2)
        | none => (st, "unmodelled")
    | [] => (st, "bad-op")

end AferoVerif.Engine.ReFs
