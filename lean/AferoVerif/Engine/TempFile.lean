/-
  Driver engine `temp`: TempFile / TempDir over the MemMapFs model.

    case <tmpdir-hex>            reset; what os.TempDir() returns
    setrand <n>                  randNum := n (the harness does the same through its build-overlay hook)
    tempfile <dir-hex> <pattern-hex>
    tempdir  <dir-hex> <prefix-hex>
    snapshot
    conc <goroutines> <calls-each> plain|same f|d <seed> <dir-hex> <pattern-hex>
                                 concurrent callers (mode `plain`: modelled by the sequential run, see below;
                                 mode `same`: every caller resets the generator before each call — not modelled,
                                 the harness' oracle alone judges it)
    <any Fs-level line of Engine/FsParse>    (set-up of pre-existing entries, reading back through handles)

  Result of a temp call: `ok name=<hex> [h=<k>] conflicts=<c> rand=<randNum afterwards>` or
  `err:<class> conflicts=<c> rand=<…>`.  `reseed()` reads the clock in the source, so once a call
  has reseeded, the digits the implementation picks cannot be predicted: from then on (until the next
  `case`) both sides print names with the nine digits masked (`name~=`), snapshots list the
  entries created by temp calls under their masked names, and `rand=` is dropped until the next
  `setrand`.  Everything else (conflict counts, kinds, sizes, modes, bytes, handle numbers) stays exact.
-/
import AferoVerif.Engine.FsParse
import AferoVerif.Model.TempFile
namespace AferoVerif.Engine.TempFile
open AferoVerif Script AferoVerif.Engine AferoVerif.Temp AferoVerif.Path

structure St where
  m : MemFs := MemFs.init
  g : Rng := {}
  tmp : Str := "/tmp".toList
  masked : Bool := false
  synced : Bool := true
  /-- names returned by temp calls with their masked form -/
  temps : List (Str × Str) := []

def mask9 : Str := List.replicate 9 '#'

def maskedFile (tmp dir pattern : Str) : Str :=
  let ps := prefixSuffix pattern
  join2 (if dir = [] then tmp else dir) (ps.1 ++ mask9 ++ ps.2)

def maskedDir (tmp dir pre : Str) : Str := join2 (if dir = [] then tmp else dir) (pre ++ mask9)

/-- snapshot with temp-created entries under their masked names (no listings), sorted -/
def maskedSnapshot (st : St) : String :=
  let one (e : Key × Nat) : String :=
    let d := st.m.obj e.2
    let p := e.1.render
    let p' := match st.temps.find? (·.1 = p) with | some x => x.2 | none => p
    s!"{hx p'}:{if d.dir then "d" else "f"}:{if d.dir then 42 else d.data.length}:{d.mode}:{if d.dir then "-" else hexOrDash d.data}"
  let es := (st.m.data.map one).mergeSort fun a b => !(b < a)
  "snap~ " ++ "|".intercalate es

/-- exact snapshot: as `Engine.snapshot`, with every listing sorted by base name (relative and
    rooted keys can share a parent, and the harness sorts the names it reads) -/
def exactSnapshot (m : MemFs) : String :=
  let es := m.data.mergeSort fun a b => strLe a.1.render b.1.render
  let one (e : Key × Nat) : String :=
    let d := m.obj e.2
    let names := ((m.dirFiles d).map fun o => baseName (m.obj o).name).mergeSort strLe
    let listing := if d.dir then ",".intercalate (names.map hx) else ""
    s!"{hx e.1.render}:{if d.dir then "d" else "f"}:{if d.dir then 42 else d.data.length}:{d.mode}:{if d.dir then "-" else hexOrDash d.data}:{listing}"
  "snap " ++ "|".intercalate (es.map one)

def errTag (r : MRes) : String :=
  match r with
  | .err e => "err:" ++ e.tag
  | .handle h (some e) => s!"h={h} err:{e.tag}"
  | .panic => "panic"
  | _ => "err:other"

def finish (st : St) (o : Out) (ok : Bool) (hnd : Option Nat) (maskedName : Str) : St × String :=
  let reseeded := o.g.reseeds != st.g.reseeds
  let masked := st.masked || reseeded
  let synced := st.synced && !reseeded
  let temps := if ok then st.temps ++ [(o.name, maskedName)] else st.temps
  let st' : St := { st with m := o.m, g := o.g, masked := masked, synced := synced, temps := temps }
  let head :=
    if ok then
      (if masked then "ok name~=" ++ hx maskedName else "ok name=" ++ hx o.name) ++
        (match hnd with | some h => s!" h={h}" | none => "")
    else errTag o.res
  let tail := s!" conflicts={o.conflicts}" ++ (if synced then s!" rand={o.g.randNum.toNat}" else "")
  (st', head ++ tail)

/-- `n` sequential calls of the same kind; returns the state, the successes and the conflicts met -/
def repeatCalls (isDir : Bool) (dir pat : Str) : Nat → St → Nat → Nat → St × Nat × Nat
  | 0, st, ok, conf => (st, ok, conf)
  | n + 1, st, ok, conf =>
    let o := if isDir then tempDir st.tmp st.m st.g dir pat else tempFile st.tmp st.m st.g dir pat
    let good := if isDir then o.dirOk else o.fileOk
    let mname := if isDir then maskedDir st.tmp dir pat else maskedFile st.tmp dir pat
    let r := finish st o good none mname
    repeatCalls isDir dir pat n r.1 (if good then ok + 1 else ok) (conf + o.conflicts)

def stepLine (st : St) (line : String) : St × String :=
  match tokens line with
  | ["case", t] =>
    match arg t with
    | some tmp => ({ tmp := tmp }, "case")
    | none => ({}, "case")
  | "case" :: _ => ({}, "case")
  | ["setrand", n] =>
    match parseNat n with
    | some v => ({ st with g := { st.g with randNum := UInt32.ofNat v }, synced := true }, "ok")
    | none => (st, "bad-op")
  | ["tempfile", d, p] =>
    match arg d, arg p with
    | some dir, some pat =>
      let o := tempFile st.tmp st.m st.g dir pat
      let hnd := match o.res with | .handle h _ => some h | _ => none
      finish st o o.fileOk hnd (maskedFile st.tmp dir pat)
    | _, _ => (st, "bad-op")
  | ["tempdir", d, p] =>
    match arg d, arg p with
    | some dir, some pre =>
      let o := tempDir st.tmp st.m st.g dir pre
      finish st o o.dirOk none (maskedDir st.tmp dir pre)
    | _, _ => (st, "bad-op")
  | ["conc", gs, ks, "plain", kind, seed, d, p] =>
    -- concurrent callers sharing one directory and pattern, generator started at `seed`: as long as
    -- nobody reseeds, the candidates are drawn from one chain whoever draws them, so the set of
    -- entries created, the number of conflicts and the final generator state are those of the
    -- sequential run
    match parseNat gs, parseNat ks, parseNat seed, arg d, arg p with
    | some g, some k, some sd, some dir, some pat =>
      let st0 := { st with g := { st.g with randNum := UInt32.ofNat sd }, synced := true }
      let r := repeatCalls (kind == "d") dir pat (g * k) st0 0 0
      (r.1, s!"ok n={r.2.1} conflicts={r.2.2}" ++ (if r.1.synced then s!" rand={r.1.g.randNum.toNat}" else ""))
    | _, _, _, _, _ => (st, "bad-op")
  | "conc" :: _ => (st, "unmodelled")
  | ["snapshot"] => (st, if st.masked then maskedSnapshot st else exactSnapshot st.m)
  | ["h.name", h] =>
    match parseNat h with
    | some hi =>
      match st.m.hName hi with
      | .str n =>
        let n' := if st.masked then (match st.temps.find? (·.1 = n) with | some x => x.2 | none => n) else n
        (st, "str=" ++ hx n')
      | r => (st, renderRes r)
    | none => (st, "bad-op")
  | toks =>
    match parseOp toks with
    | some op => let r := st.m.step op; ({ st with m := r.1 }, renderRes r.2)
    | none => (st, "unmodelled")

end AferoVerif.Engine.TempFile
