/-
  Driver engine `conc`:
    trace <ev,ev,…>          a goroutine's lock events (acq:muW rel:muR acq:fileW rel:fileW op:<kind> …)
                              → typed=true|false     (the discipline `typedB` of C03)
    shape <op> <R,W,…|->      mu-level sections of one Fs method, or file-mutex sections ("F") of one handle
                              method → ok | unexpected   (table of C04)
  "acq:fileWa"/"rel:fileWa" are file-mutex sections of FileInfo accessors the harness reads without
  preemption; they count for the discipline and not for the shapes.
  File mutexes carry no identity in the observed trace; consecutive acquire/release pairs are given
  fresh identities (a release matches the most recent unmatched acquire).
-/
import AferoVerif.Props.C04
import AferoVerif.Model.Script
namespace AferoVerif.Engine.Conc
open AferoVerif AferoVerif.Conc Script

def toEvs (toks : List String) : List Ev :=
  (toks.foldl (fun (st : List Ev × Nat × List Nat) t =>
    let (acc, next, open_) := st
    match t with
    | "acq:muW" => (acc ++ [.acqMuW], next, open_)
    | "acq:muR" => (acc ++ [.acqMuR], next, open_)
    | "rel:muW" => (acc ++ [.relMuW], next, open_)
    | "rel:muR" => (acc ++ [.relMuR], next, open_)
    | "acq:fileW" | "acq:fileWa" => (acc ++ [.acqF next], next + 1, next :: open_)
    | "rel:fileW" | "rel:fileWa" => match open_ with
      | o :: rest => (acc ++ [.relF o], next, rest)
      | [] => (acc ++ [.relF 1000000], next, [])
    | _ => (acc, next, open_)) ([], 0, [])).1

def stepLine (s : Unit) (line : String) : Unit × String :=
  match tokens line with
  | "case" :: _ => (s, "case")
  | ["trace", evs] => (s, s!"typed={typedB {} (toEvs (evs.splitOn ","))}")
  | ["trace"] => (s, "typed=true")
  | ["shape", op, sh] =>
    let secs := if sh == "-" then [] else sh.splitOn ","
    (s, if C04.shapeOK op secs then "ok" else "unexpected")
  | _ => (s, "unmodelled")

end AferoVerif.Engine.Conc
