/-
  Driver engine `walk`:
    tree <d|f>:<path-hex> …             defines the tree (cleaned absolute paths)
    walk <root-hex> <k>:<s|eN> …        afero.Walk with a scripted callback: at the k-th visit (0-based)
                                        return SkipDir (s) or error number N (eN)
    glob <pattern-hex>                  afero.Glob
  Output: `visits=<hex>/<d|f>,… result=<ok|skipdir|errN>` and `matches=<hex>,…` | `badpattern`.
-/
import AferoVerif.Model.Walk
import AferoVerif.Model.Glob
import AferoVerif.Model.Script
import AferoVerif.Model.MemMapFs
namespace AferoVerif.Engine.Walk
open AferoVerif Script AferoVerif.Walk

def toStr (b : Bytes) : Str := b.map fun x => Char.ofNat x.toNat
def ofStr (s : Str) : Bytes := s.map fun c => UInt8.ofNat c.toNat
def hx (s : Str) : String := hexOrDash (ofStr s)
def arg (s : String) : Option Str := (bytesOfHex s).map toStr

abbrev Entries := List (Str × Bool)

def kidsOf (es : Entries) (p : Str) : List (Str × Bool) :=
  let ks := es.filter fun e => e.1 ≠ p ∧ Path.dir e.1 = p
  ks.mergeSort fun a b => strLe (Path.base a.1) (Path.base b.1)

instance : Inhabited Tree := ⟨.file []⟩
instance : Inhabited Forest := ⟨.nil⟩

mutual
partial def build (es : Entries) : Nat → Str → Bool → Tree
  | 0, p, _ => .file (Path.base p)
  | fuel + 1, p, isDir => if isDir then .dir (Path.base p) (buildF es fuel (kidsOf es p)) else .file (Path.base p)
partial def buildF (es : Entries) : Nat → List (Str × Bool) → Forest
  | _, [] => .nil
  | fuel, k :: ks => .cons (build es fuel k.1 k.2) (buildF es fuel ks)
end

def treeAt (es : Entries) (root : Str) : Option Tree :=
  let c := Path.clean root
  match es.find? (·.1 = c) with
  | some e => some (build es 32 c e.2)
  | none => if c = [Path.sep] then some (build es 32 c true) else none

def parsePlan (toks : List String) : List (Nat × Action) :=
  toks.filterMap fun t =>
    match t.splitOn ":" with
    | [k, a] => match k.toNat? with
      | some k => if a == "s" then some (k, .skipDir)
                  else if a == "a" then some (k, Action.skipAll)
                  -- eN: error number N; wN / vN: error number N that wraps SkipDir / SkipAll — still an error of
                  -- the callback's own (filepath.Walk compares with ==)
                  else if a.startsWith "e" || a.startsWith "w" || a.startsWith "v" then
                    (a.drop 1).toString.toNat?.map fun c => (k, .error c) else none
      | none => none
    | _ => none

def cbOf (plan : List (Nat × Action)) : Callback := fun vs _ _ =>
  match plan.reverse.find? (·.1 = vs.length) with
  | some (_, a) => a
  | none => .continue_

def outStr : Outcome → String
  | .ok => "ok" | .skipDir => "skipdir" | .error c => s!"err{c}"

def viewOf (es : Entries) : Glob.FsView :=
  { lstatOk := fun p => (Path.clean p = [Path.sep]) || es.any (·.1 = Path.clean p),
    isDir := fun p => (Path.clean p = [Path.sep]) || es.any (fun e => e.1 = Path.clean p ∧ e.2),
    names := fun p => (kidsOf es (Path.clean p)).map fun e => Path.base e.1 }

def stepLine (es : Entries) (line : String) : Entries × String :=
  match tokens line with
  | "case" :: _ => ([], "case")
  | "tree" :: items =>
    let es' := items.filterMap fun it =>
      match it.splitOn ":" with
      | [k, p] => (arg p).map fun p => (p, k == "d")
      | _ => none
    (es', "ok")
  | "walk" :: root :: plan =>
    match arg root with
    | none => (es, "bad-op")
    | some root =>
      let r := WalkA (cbOf (parsePlan plan)) root (treeAt es root)
      (es, "visits=" ++ ",".intercalate (r.visits.map fun v => hx v.1 ++ (if v.2 then "/d" else "/f")) ++ " result=" ++ outStr r.out)
  | ["glob", pat] =>
    match arg pat with
    | none => (es, "bad-op")
    | some pat =>
      match Glob.globA (viewOf es) Glob.matchFn (pat.length + 2) pat with
      | none => (es, "badpattern")
      | some ms => (es, "matches=" ++ ",".intercalate (ms.map hx))
  | _ => (es, "unmodelled")

end AferoVerif.Engine.Walk
