/-
  Driver engine `gcs`: runs the model of gcsfs over the model object store on a script
  (language documented in harness-gcs/runner.go).
-/
import AferoVerif.Model.Gcs
namespace AferoVerif.Engine.Gcs
open AferoVerif Script AferoVerif.Gcs

def toName (b : Bytes) : Name := b.map fun x => Char.ofNat x.toNat
def ofName (s : Name) : Bytes := s.map fun c => UInt8.ofNat c.toNat
def hx (s : Name) : String := hexOrDash (ofName s)
def arg (s : String) : Option Name := (bytesOfHex s).map toName

/-- `hex`, `-` or `#N:A` (N bytes, byte i = (A+i) mod 251) -/
def payload (tok : String) : Option Bytes :=
  if tok.startsWith "#" then
    match (tok.drop 1).toString.splitOn ":" with
    | [n, a] => do
      let n ← parseNat n
      let a ← parseNat a
      pure ((List.range n).map fun i => UInt8.ofNat ((a + i) % 251))
    | _ => none
  else bytesOfHex tok

def renderBytes (b : Bytes) : String :=
  if b.length ≤ 48 then hexOrDash b
  else s!"#{b.length}:{b.foldl (fun h x => (h * 31 + x.toNat) % 4294967296) 0}"

def ferr (e : Option GErr) : String := match e with | none => "-" | some e => e.tag

def strLt (a b : String) : Bool := nameLt a.toList b.toList

def render : Out → String
  | .ok => "ok"
  | .err e => "err:" ++ e.tag
  | .h k => s!"h={k}"
  | .n k e => s!"n={k} err:{ferr e}"
  | .bytes b e => s!"bytes={renderBytes b} err:{ferr e}"
  | .pos p => s!"pos={p}"
  | .info n sz d => s!"info name={hx n} size={sz} dir={d}"
  | .names l e =>
    "names=" ++ ",".intercalate (sortBy strLt (l.map fun (n, d) => hx n ++ (if d then "/" else ""))) ++ " err:" ++ ferr e
  | .objs l =>
    "objs=" ++ ",".intercalate ((sortBy (fun a b => nameLt a.1 b.1) l).map fun (n, d) => hx n ++ ":" ++ renderBytes d)
  | .panic => "panic"
  | .badop => "bad-op"

def parseOp (toks : List String) : Option Op :=
  match toks with
  | ["create", p] => do pure (.create (← arg p))
  | ["open", p] => do pure (.openFile (← arg p) 0)
  | ["openfile", p, f] => do pure (.openFile (← arg p) (← parseNat f))
  | ["stat", p] => do pure (.stat (← arg p))
  | ["mkdir", p] => do pure (.mkdir (← arg p))
  | ["mkdirall", p] => do pure (.mkdirAll (← arg p))
  | ["remove", p] => do pure (.remove (← arg p))
  | ["removeall", p] => do pure (.removeAll (← arg p))
  | ["rename", a, b] => do pure (.rename (← arg a) (← arg b))
  | ["read", k, n] => do pure (.read (← parseNat k) (← parseNat n))
  | ["readat", k, n, off] => do pure (.readAt (← parseNat k) (← parseNat n) (← parseInt off))
  | ["write", k, b] => do pure (.write (← parseNat k) (← payload b))
  | ["readfrom", k, b] => do pure (.write (← parseNat k) (← payload b))      -- io.Copy(f, r), non-empty r that fits one buffer = Write
  | ["writeat", k, b, off] => do pure (.writeAt (← parseNat k) (← payload b) (← parseInt off))
  | ["seek", k, off, wh] => do pure (.seek (← parseNat k) (← parseInt off) (← parseNat wh))
  | ["trunc", k, n] => do pure (.trunc (← parseNat k) (← parseInt n))
  | ["close", k] => do pure (.close (← parseNat k))
  | ["hstat", k] => do pure (.hstat (← parseNat k))
  | ["readdir", k, n] => do pure (.readdir (← parseNat k) (← parseInt n))
  | ["bucket"] => some .bucket
  | _ => none

/-- `case <hexname>=<payload> …` -/
def parseCase (toks : List String) : Option St :=
  match toks with
  | "case" :: objs => do
    let kvs ← objs.mapM fun t =>
      match t.splitOn "=" with
      | [k, v] => do pure ((← arg k), (← payload v))
      | _ => none
    pure { store := kvs.foldl (fun s kv => put s kv.1 kv.2) [] }
  | _ => none

def stepLine (s : St) (line : String) : St × String :=
  let toks := tokens line
  match parseCase toks with
  | some s' => (s', "case")
  | none =>
    match parseOp toks with
    | none => (s, "bad-op")
    | some op => let q := step s op; (q.1, render q.2)

end AferoVerif.Engine.Gcs
