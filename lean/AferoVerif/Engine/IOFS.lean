/-
  Driver engine `iofs` (property C15): `case iofs <stack>` with
    stack ∈ mem | bp | bpabs | ro | from-mem | from-bp | from-bpabs | from-ro    (modelled)
          | re | cow | from-re | from-cow | …                                    (answered `unmodelled`)
  `src.mkdirall p perm` / `src.put p data` build the tree, `io.*` lines are IOFS methods,
  `f.*` lines methods of the fs.File handles they returned, plain Fs-level lines act on the
  afero view (FromIOFS for the from-* stacks).  Handle tables are numbered by open lines.
-/
import AferoVerif.Engine.FsParse
import AferoVerif.Model.IOFS
import AferoVerif.Model.ReadOnlyFs
namespace AferoVerif.Engine.IOFS
open AferoVerif Script AferoVerif.Engine

structure St where
  s : FromSt := {}
  base : StepFn := MemFs.step        -- the afero stack below IOFS / FromIOFS
  setup : StepFn := MemFs.step       -- where `src.` lines go
  isFrom : Bool := false
  fmap : List (Option Nat) := []     -- fs.File handles, by `io.open` line
  amap : List (Option Nat) := []     -- afero handles of the view, by `open` line
  modelled : Bool := true

/-- the afero-level view the io/fs wrapper sits on (without `File.Name`) -/
def St.view (st : St) : StepFn := if st.isFrom then fromStepM st.base else st.base

def mkBase (m : MemFs) (d : String) : MemFs := (m.step (.mkdirAll d.toList 0o755)).1

def newCase (stack : String) : St :=
  let isFrom := stack.startsWith "from-"
  let inner := if isFrom then (stack.drop 5).toString else stack
  match inner with
  | "mem" => { isFrom := isFrom }
  | "bp" => let b := bpStep MemFs.step "base".toList
            { s := { m := mkBase MemFs.init "base" }, base := b, setup := b, isFrom := isFrom }
  | "bpabs" => let b := bpStep MemFs.step "/base".toList
               { s := { m := mkBase MemFs.init "/base" }, base := b, setup := b, isFrom := isFrom }
  | "ro" => { base := roStep, isFrom := isFrom }
  | _ => { modelled := false }

/-- `afero.WriteFile(fs, p, data, 0644)` -/
def putFile (step : StepFn) (m : MemFs) (p : Str) (data : Bytes) : MemFs × MRes :=
  let r := step m (.openFile p (O_WRONLY ||| O_CREATE ||| O_TRUNC) 0o644)
  match r.2 with
  | .handle h _ =>
    let r2 := step r.1 (.hWrite h data)
    let r3 := step r2.1 (.hClose h)
    (r3.1, .ok)
  | other => (r.1, other)

def renderGlob : GlobOut → String
  | .bad => "err:badpattern"
  | .names ns => "names=" ++ ",".intercalate (ns.map hx) ++ " err:-"
  | .beyond => "unmodelled"

def setM (st : St) (m : MemFs) : St := { st with s := { st.s with m := m } }

/-- one IOFS method over a step function (IOFS itself, or what `Sub` returned) -/
def ioMethod (st : St) (step : StepFn) (op : String) (name : Str) : St × String :=
  match op with
  | "open" =>
    let r := IOFS.open_ step st.s.m name
    match r.2 with
    | .handle h _ => ({ setM st r.1 with fmap := st.fmap ++ [some h] }, s!"f={st.fmap.length}")
    | other => ({ setM st r.1 with fmap := st.fmap ++ [none] }, renderRes other)
  | "stat" => let r := IOFS.stat step st.s.m name; (setM st r.1, renderRes r.2)
  | "readdir" => let r := IOFS.readDir step st.s.m name; (setM st r.1, renderRes r.2)
  | "readfile" => let r := IOFS.readFile step st.s.m name; (setM st r.1, renderRes r.2)
  | "glob" => let r := IOFS.glob step st.s.m name; (setM st r.1, renderGlob r.2)
  | _ => (st, "bad-op")

def fileOp (st : St) (toks : List String) : St × String :=
  match toks with
  | op :: k :: rest =>
    match parseNat k with
    | none => (st, "bad-op")
    | some k =>
      match st.fmap[k]? with
      | some (some h) =>
        let run (o : Op) : St × String := let r := st.view st.s.m o; (setM st r.1, renderRes r.2)
        match op, rest with
        | "f.read", [n] => match parseNat n with | some n => run (.hRead h n) | none => (st, "bad-op")
        | "f.readat", [n, off] => match parseNat n, parseInt off with
          | some n, some off => run (.hReadAt h n off) | _, _ => (st, "bad-op")
        | "f.seek", [off, wh] => match parseInt off, parseNat wh with
          | some off, some wh => run (.hSeek h off wh) | _, _ => (st, "bad-op")
        | "f.stat", [] => run (.hStat h)
        | "f.close", [] => run (.hClose h)
        | "f.readdir", [n] => match parseInt n with
          | some n => let r := IOFS.fileReadDir st.view st.s.m h n; (setM st r.1, renderRes r.2)
          | none => (st, "bad-op")
        | _, _ => (st, "bad-op")
      | _ => (st, "err:inval")
  | _ => (st, "bad-op")

def stepLine (st : St) (line : String) : St × String :=
  match tokens line with
  | ["case", "iofs", stack] => (newCase stack, "case")
  | "case" :: _ => ({ modelled := false }, "case")
  | toks =>
    if !st.modelled then (st, "unmodelled") else
    match toks with
    | ["ready"] => (st, "ready")
    | ["snapshot"] => (st, snapshot st.s.m)
    | "fstest" :: _ => (st, "unmodelled")
    | ["src.put", p, d] =>
      match arg p, bytesOfHex d with
      | some p, some d => let r := putFile st.setup st.s.m p d; (setM st r.1, renderRes r.2)
      | _, _ => (st, "bad-op")
    | ["io.sub", d, op, p] =>
      match arg d, arg p with
      | some d, some p =>
        ioMethod st (IOFS.sub st.view d) op p
      | _, _ => (st, "bad-op")
    | t0 :: rest =>
      if t0.startsWith "src." then
        match parseOp ((t0.drop 4).toString :: rest) with
        | some op => let r := st.setup st.s.m op; (setM st r.1, renderRes r.2)
        | none => (st, "unmodelled")
      else if t0.startsWith "io." then
        match rest with
        | [p] => match arg p with
          | some p => ioMethod st st.view (t0.drop 3).toString p
          | none => (st, "bad-op")
        | _ => (st, "bad-op")
      else if t0.startsWith "f." then fileOp st toks
      else if t0.startsWith "h." then
        -- afero handle of the view: translate the script's handle number
        match rest with
        | k :: more =>
          match parseNat k with
          | none => (st, "bad-op")
          | some k =>
            match st.amap[k]? with
            | some (some h) =>
              match parseOp (t0 :: toString h :: more) with
              | some op =>
                if st.isFrom then let r := fromStep st.base st.s op; ({ st with s := r.1 }, renderRes r.2)
                else let r := st.base st.s.m op; (setM st r.1, renderRes r.2)
              | none => (st, "unmodelled")
            | _ => (st, "err:inval")
        | [] => (st, "bad-op")
      else
        match parseOp toks with
        | some op =>
          let r : FromSt × MRes :=
            if st.isFrom then fromStep st.base st.s op
            else let q := st.base st.s.m op; ({ st.s with m := q.1 }, q.2)
          let isOpen := match op with | .open_ _ => true | .openFile _ _ _ => true | _ => false
          if isOpen then
            match r.2 with
            | .handle h _ => ({ st with s := r.1, amap := st.amap ++ [some h] }, s!"h={st.amap.length}")
            | other => ({ st with s := r.1, amap := st.amap ++ [none] }, renderRes other)
          else ({ st with s := r.1 }, renderRes r.2)
        | none => (st, "unmodelled")
    | [] => (st, "bad-op")

end AferoVerif.Engine.IOFS
