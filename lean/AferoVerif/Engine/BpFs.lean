/-
  Driver engine `bpfs`: `case bp <root-hex>` or `case bpnest <outer-root-hex> <inner-root-hex>`
  (NewBasePathFs(NewBasePathFs(mem, outer), inner)); `src.<op>` lines act on the MemMapFs directly.
-/
import AferoVerif.Engine.FsParse
import AferoVerif.Model.BasePathFs
namespace AferoVerif.Engine.BpFs
open AferoVerif Script AferoVerif.Engine

structure St where
  m : MemFs := MemFs.init
  roots : List Str := []        -- outermost source first
  modelled : Bool := true

def stepFn : List Str → StepFn
  | [] => MemFs.step
  | d :: rest => fun m op => bpStep (stepFn' rest) d m op
where stepFn' : List Str → StepFn
  | [] => MemFs.step
  | d :: rest => fun m op => bpStep (stepFn' rest) d m op

def stepLine (s : St) (line : String) : St × String :=
  match tokens line with
  | ["case", "bp", d] => match arg d with
    | some d => ({ m := MemFs.init, roots := [d] }, "case") | none => (s, "bad-op")
  | ["case", "bpnest", outer, inner] => match arg outer, arg inner with
    -- the wrapper the script talks to is rooted at `inner`; its source is rooted at `outer`
    | some o, some i => ({ m := MemFs.init, roots := [i, o] }, "case") | _, _ => (s, "bad-op")
  -- `bpnl`, `bpnlnest`: the same stacks over a source without the optional Lstater interface
  | ["case", "bpnl", d] => match arg d with
    | some d => ({ m := MemFs.init, roots := [d] }, "case") | none => (s, "bad-op")
  | ["case", "bpnlnest", outer, inner] => match arg outer, arg inner with
    | some o, some i => ({ m := MemFs.init, roots := [i, o] }, "case") | _, _ => (s, "bad-op")
  | "case" :: _ => ({ m := MemFs.init, roots := [], modelled := false }, "case")
  | toks =>
    if !s.modelled then (s, "unmodelled") else
    match toks with
    | ["snapshot"] => (s, snapshot s.m)
    | ["fullpath", p] => match arg p with
      -- util.go FullBaseFsPath: Join(path, rel), then the same with the parent BasePathFs
      | some p => (s, "str=" ++ hx (s.roots.foldl (fun acc d => Path.join2 d acc) p))
      | none => (s, "bad-op")
    | t0 :: rest =>
      if t0.startsWith "src." then
        match parseOp ((t0.drop 4).toString :: rest) with
        | some op => let (m', r) := s.m.step op; ({ s with m := m' }, renderRes r)
        | none => (s, "unmodelled")
      else
        -- LstatIfPossible: RealPath, then the source's Lstat (or Stat); MemMapFs has no links, so it is Stat
        let toks := if t0 = "lstat" then "stat" :: rest else toks
        match parseOp toks with
        | some op => let (m', r) := stepFn s.roots s.m op; ({ s with m := m' }, renderRes r)
        | none => (s, "unmodelled")
    | [] => (s, "bad-op")

end AferoVerif.Engine.BpFs
