/-
  Driver engine `cowfs`: CopyOnWriteFs over two MemMapFs models.
  `b.<op>` / `l.<op>` act on the base / the overlay directly; handles they return enter the
  same handle table as `.base i` / `.layer i` handles.
-/
import AferoVerif.Engine.FsParse
import AferoVerif.Model.Cow
namespace AferoVerif.Engine.CowFs
open AferoVerif Script AferoVerif.Engine

structure St where
  c : Cow := {}
  modelled : Bool := true

def direct (c : Cow) (base : Bool) (op : Op) : Cow × MRes :=
  match op.handle? with
  | some hi => c.handleOp hi op
  | none =>
    let m := if base then c.s.b else c.s.l
    let (m', r) := m.step op
    let c := if base then { c with s := { c.s with b := m' } } else { c with s := { c.s with l := m' } }
    match r with
    | .handle i e => let (c, h) := c.addH (if base then .base i else .layer i); (c, .handle h e)
    | other => (c, other)

def stepLine (s : St) (line : String) : St × String :=
  match tokens line with
  | ["case", stack] => ({ c := {}, modelled := stack == "cow-mem" }, "case")
  | toks =>
    if !s.modelled then (s, "unmodelled") else
    match toks with
    | ["now", t] => match parseInt t with
      | some t => ({ s with c := { s.c with s := { b := { s.c.s.b with now := t }, l := { s.c.s.l with now := t } } } }, "ok")
      | none => (s, "bad-op")
    | ["rtpatch", p, off, bs] =>
      -- OpenFile(O_RDWR), WriteAt, Close through the union; the temporary handle leaves the table again
      match arg p, parseInt off, bytesOfHex bs with
      | some p, some off, some bs =>
        let n := s.c.hs.length
        match (s.c.step (.stat p)).2 with
        | .err _ => (s, "rt skipped")        -- the harness reads the file first and skips a missing one
        | _ =>
        match s.c.step (.openFile p O_RDWR 0o644) with
        | (c1, .handle h _) =>
          let (c2, _) := c1.step (.hWriteAt h bs off)
          let (c3, _) := c2.step (.hClose h)
          ({ s with c := { c3 with hs := c3.hs.take n } }, "rt ok")
        | (c1, _) => ({ s with c := c1 }, "rt skipped")
      | _, _, _ => (s, "bad-op")
    | ["snapshot"] => (s, "snap B{" ++ snapshot s.c.s.b ++ "} L{" ++ snapshot s.c.s.l ++ "}")
    | t0 :: rest =>
      if t0.startsWith "b." || t0.startsWith "l." then
        match parseOp ((t0.drop 2).toString :: rest) with
        | some op => let (c', r) := direct s.c (t0.startsWith "b.") op; ({ s with c := c' }, renderRes r)
        | none => (s, "unmodelled")
      else
        match parseOp toks with
        | some op => let (c', r) := s.c.step op; ({ s with c := c' }, renderRes r)
        | none => (s, "unmodelled")
    | [] => (s, "bad-op")

end AferoVerif.Engine.CowFs
