/-
  Driver engine `memfs`: the MemMapFs model behind the Fs-level script language.
-/
import AferoVerif.Engine.FsParse
namespace AferoVerif.Engine.MemFs
open AferoVerif Script AferoVerif.Engine

def stepLine (m : MemFs) (line : String) : MemFs × String :=
  match tokens line with
  | "case" :: _ => (MemFs.init, "case")
  | ["now", t] => match parseInt t with
    | some t => ({ m with now := t }, "ok") | none => (m, "bad-op")
  | ["snapshot"] => (m, snapshot m)
  | toks => match parseOp toks with
    | some op => let (m', r) := m.step op; (m', renderRes r)
    | none => (m, "unmodelled")

end AferoVerif.Engine.MemFs
