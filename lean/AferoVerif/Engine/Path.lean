/-
  Driver engine `path`: pure path functions.  Strings travel hex-encoded.
-/
import AferoVerif.Model.BasePath
import AferoVerif.Model.Script
namespace AferoVerif.Engine.Path
open AferoVerif Script AferoVerif.Path

def toStr (b : Bytes) : Str := b.map fun x => Char.ofNat x.toNat
def ofStr (s : Str) : Bytes := s.map fun c => UInt8.ofNat c.toNat
def hx (s : Str) : String := hexOrDash (ofStr s)
def arg (s : String) : Option Str := (bytesOfHex s).map toStr

def stepLine (s : Unit) (line : String) : Unit × String :=
  match tokens line with
  | "case" :: _ => (s, "case")
  | ["clean", a] => match arg a with
    | some a => (s, hx (clean a)) | none => (s, "bad-op")
  | ["join", a, b] => match arg a, arg b with
    | some a, some b => (s, hx (join2 a b)) | _, _ => (s, "bad-op")
  | ["split", a] => match arg a with
    | some a => let (d, f) := splitDirFile a; (s, hx d ++ " " ++ hx f) | none => (s, "bad-op")
  | ["dir", a] => match arg a with
    | some a => (s, hx (dir a)) | none => (s, "bad-op")
  | ["base", a] => match arg a with
    | some a => (s, hx (base a)) | none => (s, "bad-op")
  | ["realpath", b, n] => match arg b, arg n with
    | some b, some n => (s, match realPath b n with | some p => "ok " ++ hx p | none => "notexist")
    | _, _ => (s, "bad-op")
  | ["bpname", b, n] => match arg b, arg n with
    | some b, some n => (s, hx (bpFileName b n)) | _, _ => (s, "bad-op")
  | ["httppath", b, n] => match arg b, arg n with
    | some b, some n => (s, hx (httpPath b n)) | _, _ => (s, "bad-op")
  | _ => (s, "unmodelled")

end AferoVerif.Engine.Path
