/-
  Driver engine `copyfault`:
    copy <len> <seed> <oldlen|-1> <oldseed> <dirExists 0|1> <faultIdx|-1> <error|short> <k>
  → `entry=<none|old|full|other> ok=<true|false> calls=<c1,c2,…>`
  Contents are generated from (len, seed) by the same generator as the Go harness (genBytes).
-/
import AferoVerif.Model.CopyFault
namespace AferoVerif.Engine.CopyFault
open AferoVerif Script AferoVerif.CopyFault

def genBytes (len seed : Nat) : Bytes :=
  let x0 : UInt32 := UInt32.ofNat seed * 2654435761 + 12345
  let step (st : UInt32 × List UInt8) (_ : Nat) : UInt32 × List UInt8 :=
    let x := st.1 * 1664525 + 1013904223
    (x, (x >>> 24).toUInt8 :: st.2)
  ((List.range len).foldl step (x0, [])).2.reverse

def callName : Call → String
  | .bOpen => "b.Open" | .lStatDir => "l.Stat" | .lMkdirAll => "l.MkdirAll" | .lCreate => "l.Create"
  | .bRead => "bf.Read" | .lWrite => "lf.Write" | .bStat => "bf.Stat" | .lClose => "lf.Close"
  | .lChtimes => "l.Chtimes" | .lRemove => "l.Remove"

def stepLine (s : Unit) (line : String) : Unit × String :=
  match tokens line with
  | "case" :: _ => (s, "case")
  | "copy" :: len :: seed :: oldlen :: oldseed :: dir :: fidx :: kind :: k :: _ =>
    match parseNat len, parseNat seed, parseInt oldlen, parseNat oldseed, parseNat dir, parseInt fidx, parseNat k with
    | some len, some seed, some oldlen, some oldseed, some dir, some fidx, some k =>
      let content := genBytes len seed
      let old : Option Bytes := if oldlen < 0 then none else some (genBytes oldlen.toNat oldseed)
      let fault : Option Fault :=
        if fidx < 0 then none else some { idx := fidx.toNat, kind := if kind == "short" then .short k else .error }
      let r := copyUp content old (dir == 1) fault
      let cls := if r.entry = none then "none" else if r.entry = some content then "full"
        else if r.entry = old then "old" else "other"
      (s, s!"entry={cls} ok={r.ok} calls={",".intercalate (r.calls.map callName)}")
    | _, _, _, _, _, _, _ => (s, "bad-op")
  | _ => (s, "unmodelled")

end AferoVerif.Engine.CopyFault
